(* Proofs about the orchestrator <-> worker protocol (Model/Worker.v): the bookkeeping invariant Inv (who holds which
   command, which results are in flight, what was reported), the transfer of every `stable` invariant of Model/Orch.v to
   the protocol level, one-result-per-command, failures are never lost. *)
From Coq Require Import List Bool Arith Lia Permutation.
Import ListNotations.
Require Import MV.Model.Orch MV.Proofs.OrchP MV.Model.Worker MV.Spec.WorkerSpec.

(* ------------------------------------------------------------------------------------------------------------------ *)
(* small facts *)
Lemma upd_same : forall f w x, upd f w x w = x.
Proof. intros. unfold upd. rewrite Nat.eqb_refl. reflexivity. Qed.
Lemma upd_other : forall f w x k, k <> w -> upd f w x k = f k.
Proof. intros f w x k H. unfold upd. destruct (Nat.eqb k w) eqn:E; [apply Nat.eqb_eq in E; contradiction | reflexivity]. Qed.

Lemma csteps_app : forall a b, csteps (a ++ b) = csteps a ++ csteps b.
Proof. induction a as [|[s|fs|] a IH]; intros b; cbn; rewrite ?IH; reflexivity. Qed.

Fixpoint rdones (q : list rmsg) : list nat :=
  match q with [] => [] | RDone s :: t => s :: rdones t | RDropComplete :: t => rdones t end.
Lemma rdones_app : forall a b, rdones (a ++ b) = rdones a ++ rdones b.
Proof. induction a as [|[s|] a IH]; intros b; cbn; rewrite ?IH; reflexivity. Qed.
Definition infl (x : wst) : list nat := rdones (resq x) ++ requeued x.

Lemma rmsg_eqb_eq : forall a b, rmsg_eqb a b = true -> a = b.
Proof. intros [x|] [y|]; cbn; intros H; try discriminate; [apply Nat.eqb_eq in H; subst|]; reflexivity. Qed.

Lemma remove1_In : forall s l x, In x (remove1 s l) -> In x l.
Proof.
  intros s l. induction l as [|y l IH]; intros x H; cbn in *; [exact H|].
  destruct (Nat.eqb y s); [right; exact H|]. destruct H as [H|H]; [left; exact H | right; apply IH, H].
Qed.
Lemma remove1_NoDup : forall s l, NoDup l -> NoDup (remove1 s l).
Proof.
  intros s l H. induction H as [|y l Hn Hd IH]; cbn; [constructor|].
  destruct (Nat.eqb y s); [exact Hd|]. constructor; [intros X; apply Hn, (remove1_In s l y X) | exact IH].
Qed.
Lemma remove1_notin : forall s l, NoDup l -> ~ In s (remove1 s l).
Proof.
  intros s l H. induction H as [|y l Hn Hd IH]; cbn; [intros []|].
  destruct (Nat.eqb y s) eqn:E; [apply Nat.eqb_eq in E; subst; exact Hn|].
  intros [X|X]; [subst; rewrite Nat.eqb_refl in E; discriminate | exact (IH X)].
Qed.
Lemma remove1_other : forall s l x, x <> s -> In x l -> In x (remove1 s l).
Proof.
  intros s l x Hx. induction l as [|y l IH]; intros H; cbn in *; [exact H|].
  destruct (Nat.eqb y s) eqn:E.
  - apply Nat.eqb_eq in E. subst. destruct H as [H|H]; [congruence | exact H].
  - destruct H as [H|H]; [left; exact H | right; apply IH, H].
Qed.

(* ---- the orchestrator's visit at the protocol's three kinds of visit ---- *)
Lemma ovisit_done : forall a s, done (ovisit a s) = done a.
Proof. intros a s. unfold ovisit. destruct (visit_cases false nofail a s) as [| |d f ? ? ? ? ? ? H ?]; cbn; auto. apply H; reflexivity. Qed.
Lemma ovisit_failed : forall a s, failed (ovisit a s) = failed a.
Proof. intros a s. unfold ovisit. destruct (visit_cases false nofail a s) as [| |d f ? ? ? ? ? ? H ?]; cbn; auto. apply H; reflexivity. Qed.
Lemma ovisit_started : forall a s, incl (started_ids a) (started_ids (ovisit a s)).
Proof. intros a s. unfold ovisit, started_ids. apply incl_map. apply (visit_mono false nofail a s). Qed.
Lemma ovisit_skip : forall a s, is_fin s a || (negb (cur_running s a) && negb (can_run s a)) = true -> ovisit a s = a.
Proof.
  intros a s H. unfold ovisit, visit, is_fin, can_run in *. destruct (subset (uuids s) (finished a)); [reflexivity|]. cbn in H.
  apply andb_true_iff in H. destruct H as [H1 H2]. apply negb_true_iff in H1, H2. rewrite H1, H2. reflexivity.
Qed.
Lemma ovisit_notdone : forall a s, is_fin s a = false -> cur_running s a = true -> mem (sid s) (done a) = false -> ovisit a s = a.
Proof. intros a s H1 H2 H3. unfold ovisit, visit, is_fin in *. rewrite H1, H2, H3. reflexivity. Qed.
Lemma ovisit_finish_started : forall a s, is_fin s a = false -> cur_running s a = true -> started (ovisit a s) = started a.
Proof. intros a s H1 H2. unfold ovisit, visit, is_fin in *. rewrite H1, H2. destruct (mem (sid s) (done a)); reflexivity. Qed.
Lemma ovisit_start_started : forall a s, is_fin s a = false -> cur_running s a = false -> can_run s a = true ->
  started (ovisit a s) = (sid s, (finished a, done a)) :: started a.
Proof. intros a s H1 H2 H3. unfold ovisit, visit, is_fin, can_run in *. rewrite H1, H2, H3. reflexivity. Qed.

Lemma worker_done_add_done : forall a s, In s (started_ids a) -> ~ In s (done a) -> ~ In s (failed a) -> worker_done a s true = add_done s a.
Proof.
  intros a s H1 H2 H3. unfold worker_done. apply mem_In in H1. apply mem_false in H2, H3. rewrite H1, H2, H3. reflexivity.
Qed.
Lemma worker_done_add_failed : forall a s, In s (started_ids a) -> ~ In s (done a) -> ~ In s (failed a) -> worker_done a s false = add_failed s a.
Proof.
  intros a s H1 H2 H3. unfold worker_done. apply mem_In in H1. apply mem_false in H2, H3. rewrite H1, H2, H3. reflexivity.
Qed.

Lemma NoDup_app_r : forall (l l' : list nat), NoDup (l ++ l') -> NoDup l'.
Proof. induction l as [|x l IH]; cbn; intros l' H; [exact H|]. inversion H; subst. apply IH; assumption. Qed.

Lemma nth_error_In' : forall (p : plan) i s, nth_error p i = Some s -> In s p.
Proof. intros p i s H. eapply nth_error_In; exact H. Qed.

(* destruct every match / if in hypothesis H *)
Ltac dm H :=
  match type of H with
  | context [match ?x with _ => _ end] => destruct x eqn:?
  | context [if ?x then _ else _] => destruct x eqn:?
  end.
Ltac inv_some H := try discriminate H; injection H as H; try subst.

Section Protocol.
  Variable c : cfg.
  Notation p := (cplan c).
  Hypothesis Hp : plan_ok p.

  Let Hinj := sid_inj p Hp.
  Let Hne := uuids_nonempty p Hp.
  Let Hdj := uuids_disjoint p Hp.

  Record Inv (a : ost) (f : nat -> wst) (rp : list (nat * bool)) (sn : list (nat * nat)) : Prop := {
    k_i1 : I1 p a;
    k_i23 : I23 false nofail p a;
    k_pend : forall w s, In s (pend (f w)) -> ~ In s (map fst rp) /\ In (w, s) sn;
    k_pend_uniq : forall w w' s, In s (pend (f w)) -> In s (pend (f w')) -> w = w';
    k_pend_nodup : forall w, NoDup (pend (f w));
    k_rp_nodup : NoDup (map fst rp);
    k_rp : forall s ok, In (s, ok) rp -> exists w, In (w, s) sn;
    k_done : forall s, In s (done a) -> In (s, true) rp;
    k_failed : forall s, In s (failed a) <-> In (s, false) rp;
    k_infl : forall w s, In s (infl (f w)) -> In (s, true) rp /\ ~ In s (done a);
    k_infl_uniq : forall w w' s, In s (infl (f w)) -> In s (infl (f w')) -> w = w';
    k_infl_nodup : forall w, NoDup (infl (f w));
    k_sent : forall w s, In (w, s) sn -> In s (map fst rp) \/ In s (pend (f w)) \/ phase (f w) = WKilled;
    k_sent_started : forall w s, In (w, s) sn -> In s (started_ids a) /\ exists t, In t p /\ sid t = s;
    k_sent_nodup : NoDup (map snd sn);
    k_thr : mp c = false -> (forall w s, In (w, s) sn -> w = s) /\ (forall w, infl (f w) = []);
    k_unspawned : forall w, spawned (phase (f w)) = false -> pend (f w) = [] /\ infl (f w) = []
  }.

  Lemma Inv_init : Inv init (fun _ => w0) [] [].
  Proof.
    constructor.
    - split; intros ? [].
    - apply I23_init.
    - intros w s [].
    - intros w w' s [].
    - intros w. constructor.
    - constructor.
    - intros s ok [].
    - intros s [].
    - intros s. split; intros [].
    - intros w s [].
    - intros w w' s [].
    - intros w. constructor.
    - intros w s [].
    - intros w s [].
    - constructor.
    - intros _. split; [intros w s [] | reflexivity].
    - intros w _. split; reflexivity.
  Qed.

  (* facts every Inv state has *)
  Lemma Inv_pend_started : forall a f rp sn, Inv a f rp sn -> forall w s, In s (pend (f w)) -> In s (started_ids a).
  Proof. intros a f rp sn H w s Hs. apply (k_sent_started _ _ _ _ H w s). apply (k_pend _ _ _ _ H w s Hs). Qed.
  Lemma Inv_rp_started : forall a f rp sn, Inv a f rp sn -> forall s ok, In (s, ok) rp -> In s (started_ids a).
  Proof. intros a f rp sn H s ok Hs. destruct (k_rp _ _ _ _ H s ok Hs) as [w Hw]. apply (k_sent_started _ _ _ _ H w s Hw). Qed.

  Lemma in_fst : forall (rp : list (nat * bool)) s ok, In (s, ok) rp -> In s (map fst rp).
  Proof. intros rp s ok H. apply in_map_iff. exists (s, ok). split; [reflexivity | exact H]. Qed.

  Lemma nodup_fst_functional : forall (rp : list (nat * bool)) s b b', NoDup (map fst rp) -> In (s, b) rp -> In (s, b') rp -> b = b'.
  Proof.
    induction rp as [|[x y] rp IH]; intros s b b' Hn H1 H2; [destruct H1|]. cbn in Hn. inversion Hn as [|? ? Hx Hn']; subst.
    destruct H1 as [H1|H1]; destruct H2 as [H2|H2].
    - congruence.
    - inversion H1; subst. exfalso. apply Hx. eapply in_fst; exact H2.
    - inversion H2; subst. exfalso. apply Hx. eapply in_fst; exact H1.
    - eapply IH; eauto.
  Qed.

  (* a pending command has neither been reported done nor failed *)
  Lemma Inv_pend_fresh : forall a f rp sn, Inv a f rp sn -> forall w s, In s (pend (f w)) ->
    In s (started_ids a) /\ ~ In s (done a) /\ ~ In s (failed a).
  Proof.
    intros a f rp sn H w s Hs. destruct (k_pend _ _ _ _ H w s Hs) as [Hr _]. repeat split.
    - eapply Inv_pend_started; eauto.
    - intros X. apply Hr. eapply in_fst. apply (k_done _ _ _ _ H). exact X.
    - intros X. apply Hr. eapply in_fst. apply (k_failed _ _ _ _ H). exact X.
  Qed.
  Lemma Inv_infl_fresh : forall a f rp sn, Inv a f rp sn -> forall w s, In s (infl (f w)) ->
    In s (started_ids a) /\ ~ In s (done a) /\ ~ In s (failed a).
  Proof.
    intros a f rp sn H w s Hs. destruct (k_infl _ _ _ _ H w s Hs) as [Hr Hd]. repeat split; [| exact Hd |].
    - eapply Inv_rp_started; eauto.
    - intros X. apply (k_failed _ _ _ _ H) in X.
      pose proof (nodup_fst_functional rp s true false (k_rp_nodup _ _ _ _ H) Hr X). discriminate.
  Qed.

  (* ---- 1. the orchestrator state changes, everything else stays ---- *)
  Lemma Inv_change_o : forall a a' f rp sn, Inv a f rp sn -> I1 p a' -> I23 false nofail p a' ->
    incl (started_ids a) (started_ids a') -> done a' = done a -> failed a' = failed a -> Inv a' f rp sn.
  Proof.
    intros a a' f rp sn H H1 H23 Hs Hd Hf. destruct H. constructor; try assumption; try (rewrite ?Hd, ?Hf; assumption).
    intros w s X. destruct (k_sent_started0 w s X) as [Y Z]. split; [apply Hs, Y | exact Z].
  Qed.

  Lemma stable_I1 : stable false nofail p (I1 p).
  Proof. apply I1_stable. Qed.
  Lemma stable_I23 : stable false nofail p (I23 false nofail p).
  Proof. apply I23_stable; assumption. Qed.

  Lemma Inv_ovisit : forall a f rp sn s, Inv a f rp sn -> In s p -> Inv (ovisit a s) f rp sn.
  Proof.
    intros a f rp sn s H Hs. eapply Inv_change_o; [exact H | | | apply ovisit_started | apply ovisit_done | apply ovisit_failed].
    - apply (proj1 stable_I1); [exact Hs | apply (k_i1 _ _ _ _ H)].
    - apply (proj1 stable_I23); [exact Hs | apply (k_i23 _ _ _ _ H)].
  Qed.
  Lemma Inv_bump : forall a f rp sn, Inv a f rp sn -> Inv (bump a) f rp sn.
  Proof.
    intros a f rp sn H. eapply Inv_change_o; [exact H | | | apply incl_refl | reflexivity | reflexivity].
    - apply (proj1 (proj2 stable_I1)), (k_i1 _ _ _ _ H).
    - apply (proj1 (proj2 stable_I23)), (k_i23 _ _ _ _ H).
  Qed.
  Lemma Inv_drain : forall a f rp sn, Inv a f rp sn -> Inv (drain a) f rp sn.
  Proof.
    intros a f rp sn H. eapply Inv_change_o; [exact H | | | apply incl_refl | reflexivity | reflexivity].
    - apply (proj1 (proj2 (proj2 stable_I1))), (k_i1 _ _ _ _ H).
    - apply (proj1 (proj2 (proj2 stable_I23))), (k_i23 _ _ _ _ H).
  Qed.

  (* ---- 2. one worker changes without gaining commands or results ---- *)
  Lemma Inv_upd : forall a f rp sn w x', Inv a f rp sn ->
    incl (pend x') (pend (f w)) -> NoDup (pend x') ->
    (forall s, In s (infl x') <-> In s (infl (f w))) -> NoDup (infl x') ->
    (forall s, In s (pend (f w)) -> In s (pend x') \/ phase x' = WKilled) ->
    (phase (f w) = WKilled -> phase x' = WKilled) ->
    (spawned (phase x') = false -> spawned (phase (f w)) = false) ->
    Inv a (upd f w x') rp sn.
  Proof.
    intros a f rp sn w x' H Hpi Hpn Hii Hin Hk Hkk Hsp. destruct H.
    assert (Epend : forall k s, In s (pend (upd f w x' k)) -> In s (pend (f k))).
    { intros k s. unfold upd. destruct (Nat.eqb k w) eqn:E; [apply Nat.eqb_eq in E; subst; apply Hpi | auto]. }
    assert (Einfl : forall k s, In s (infl (upd f w x' k)) <-> In s (infl (f k))).
    { intros k s. unfold upd. destruct (Nat.eqb k w) eqn:E; [apply Nat.eqb_eq in E; subst; apply Hii | tauto]. }
    constructor.
    - assumption.
    - assumption.
    - intros k s X. apply k_pend0, Epend, X.
    - intros k k' s X Y. eapply k_pend_uniq0; apply Epend; eassumption.
    - intros k. unfold upd. destruct (Nat.eqb k w); [exact Hpn | apply k_pend_nodup0].
    - assumption.
    - assumption.
    - assumption.
    - assumption.
    - intros k s X. apply (k_infl0 k s), Einfl, X.
    - intros k k' s X Y. eapply k_infl_uniq0; apply Einfl; eassumption.
    - intros k. unfold upd. destruct (Nat.eqb k w); [exact Hin | apply k_infl_nodup0].
    - intros k s X. destruct (k_sent0 k s X) as [Y|[Y|Y]]; [left; exact Y | |].
      + unfold upd. destruct (Nat.eqb k w) eqn:E; [apply Nat.eqb_eq in E; subst; right; apply Hk, Y | right; left; exact Y].
      + unfold upd. destruct (Nat.eqb k w) eqn:E; [apply Nat.eqb_eq in E; subst; right; right; apply Hkk, Y | right; right; exact Y].
    - assumption.
    - assumption.
    - intros Hm. destruct (k_thr0 Hm) as [T1 T2]. split; [exact T1|]. intros k.
      destruct (infl (upd f w x' k)) as [|s t] eqn:E; [reflexivity|]. exfalso.
      assert (X : In s (infl (upd f w x' k))) by (rewrite E; left; reflexivity). apply Einfl in X. rewrite T2 in X. exact X.
    - intros k. unfold upd. destruct (Nat.eqb k w) eqn:E; [apply Nat.eqb_eq in E; subst | apply k_unspawned0].
      intros X. destruct (k_unspawned0 w (Hsp X)) as [P I]. split.
      + destruct (pend x') as [|s t] eqn:E'; [reflexivity|]. exfalso. assert (Y : In s (pend (f w))) by (apply Hpi; left; reflexivity).
        rewrite P in Y. exact Y.
      + destruct (infl x') as [|s t] eqn:E'; [reflexivity|]. exfalso. assert (Y : In s (infl (f w))).
        { apply (proj1 (Hii s)). left; reflexivity. }
        rewrite I in Y. exact Y.
  Qed.

  Lemma Inv_upd_same : forall a f rp sn w x', Inv a f rp sn ->
    pend x' = pend (f w) -> infl x' = infl (f w) -> (phase (f w) = WKilled -> phase x' = WKilled) ->
    (spawned (phase x') = false -> spawned (phase (f w)) = false) -> Inv a (upd f w x') rp sn.
  Proof.
    intros a f rp sn w x' H E1 E2 Hk Hs. apply Inv_upd; auto.
    - rewrite E1. apply incl_refl.
    - rewrite E1. apply (k_pend_nodup _ _ _ _ H).
    - intros s. rewrite E2. tauto.
    - rewrite E2. apply (k_infl_nodup _ _ _ _ H).
    - intros s X. left. rewrite E1. exact X.
  Qed.

  Lemma nodup_snoc : forall (l : list nat) x, NoDup l -> ~ In x l -> NoDup (l ++ [x]).
  Proof.
    intros l x Hn Hx. apply (Permutation_NoDup (l := x :: l)); [apply Permutation_cons_append | constructor; assumption].
  Qed.

  (* ---- 3. a step is submitted (OExec true) ---- *)
  Lemma Inv_submit : forall a f rp sn s w x', Inv a f rp sn -> In s p ->
    ~ In (sid s) (started_ids a) -> In (sid s) (started_ids (ovisit a s)) -> (mp c = false -> w = sid s) ->
    ((spawned (phase (f w)) = true /\ mp c = true /\ phase x' = phase (f w) /\ pend x' = pend (f w) ++ [sid s] /\ infl x' = infl (f w))
     \/ ((spawned (phase (f w)) = false \/ mp c = false) /\ pend x' = [sid s] /\ infl x' = [] /\ spawned (phase x') = true)) ->
    Inv (ovisit a s) (upd f w x') rp ((w, sid s) :: sn).
  Proof.
    intros a f rp sn s w x' H Hs Hns Hst Hthr Hx.
    pose proof (Inv_ovisit a f rp sn s H Hs) as H'.
    assert (F1 : forall k, ~ In (sid s) (pend (f k))) by (intros k X; apply Hns; eapply Inv_pend_started; eauto).
    assert (F2 : ~ In (sid s) (map fst rp)).
    { intros X. apply in_map_iff in X. destruct X as [[t ok] [E X]]. cbn in E. subst t. apply Hns. eapply Inv_rp_started; eauto. }
    assert (F3 : forall k, ~ In (k, sid s) sn) by (intros k X; apply Hns; apply (k_sent_started _ _ _ _ H k _ X)).
    (* in THREADING the slot w = sid s has never been used *)
    assert (F4 : mp c = false -> forall t, ~ In (w, t) sn).
    { intros Hm t X. destruct (k_thr _ _ _ _ H Hm) as [T _]. pose proof (T w t X) as E. rewrite (Hthr Hm) in E, X. subst t. exact (F3 _ X). }
    assert (Pw : forall t, In t (pend x') -> t = sid s \/ (In t (pend (f w)) /\ phase x' = phase (f w) /\ infl x' = infl (f w))).
    { intros t X. destruct Hx as [(_ & _ & E0 & E1 & E2)|(_ & E1 & _)]; rewrite E1 in X.
      - apply in_app_or in X. destruct X as [X|[X|[]]]; [right; auto | left; auto].
      - destruct X as [X|[]]; left; auto. }
    assert (Ps : In (sid s) (pend x')).
    { destruct Hx as [(_ & _ & _ & E1 & _)|(_ & E1 & _)]; rewrite E1; [apply in_or_app; right|]; left; reflexivity. }
    assert (Iw : forall t, In t (infl x') -> In t (infl (f w))).
    { intros t X. destruct Hx as [(_ & _ & _ & _ & E2)|(_ & _ & E2 & _)]; rewrite E2 in X; [exact X | destruct X]. }
    assert (Epend : forall k t, In t (pend (upd f w x' k)) -> (k = w /\ t = sid s) \/ In t (pend (f k))).
    { intros k t. unfold upd. destruct (Nat.eqb k w) eqn:E; [apply Nat.eqb_eq in E; subst | auto].
      intros X. destruct (Pw t X) as [->|(Y & _)]; auto. }
    assert (Einfl : forall k t, In t (infl (upd f w x' k)) -> In t (infl (f k))).
    { intros k t. unfold upd. destruct (Nat.eqb k w) eqn:E; [apply Nat.eqb_eq in E; subst; apply Iw | auto]. }
    destruct H' as [h1 h23 hp hpu hpn hrn hr hd hf hi hiu hin hs hss hsn ht hu].
    constructor.
    - assumption.
    - assumption.
    - intros k t X. destruct (Epend k t X) as [[-> ->]|Y].
      + split; [exact F2 | left; reflexivity].
      + destruct (hp k t Y) as [A B]. split; [exact A | right; exact B].
    - intros k k' t X Y. destruct (Epend k t X) as [[E1 E2]|X']; destruct (Epend k' t Y) as [[E3 E4]|Y'].
      + congruence.
      + subst t. exfalso. exact (F1 _ Y').
      + subst t. exfalso. exact (F1 _ X').
      + eapply hpu; eauto.
    - intros k. unfold upd. destruct (Nat.eqb k w) eqn:E; [|apply hpn]. apply Nat.eqb_eq in E. subst k.
      destruct Hx as [(_ & _ & _ & E1 & _)|(_ & E1 & _)]; rewrite E1; [apply nodup_snoc; [apply hpn | apply F1] | constructor; [intros [] | constructor]].
    - assumption.
    - intros t ok X. destruct (hr t ok X) as [k Y]. exists k. right. exact Y.
    - assumption.
    - assumption.
    - intros k t X. apply (hi k t). apply Einfl. exact X.
    - intros k k' t X Y. eapply hiu; apply Einfl; eassumption.
    - intros k. unfold upd. destruct (Nat.eqb k w) eqn:E; [|apply hin]. apply Nat.eqb_eq in E. subst k.
      destruct Hx as [(_ & _ & _ & _ & E2)|(_ & _ & E2 & _)]; rewrite E2; [apply hin | constructor].
    - intros k t [X|X].
      + inversion X; subst. right. left. rewrite upd_same. exact Ps.
      + destruct (hs k t X) as [Y|[Y|Y]]; [left; exact Y | |].
        * right. left. unfold upd. destruct (Nat.eqb k w) eqn:E; [|exact Y]. apply Nat.eqb_eq in E. subst k.
          destruct Hx as [(_ & _ & _ & E1 & _)|([Hu|Hm] & _)].
          -- rewrite E1. apply in_or_app. left. exact Y.
          -- exfalso. destruct (k_unspawned _ _ _ _ H w Hu) as [P0 _]. rewrite P0 in Y. exact Y.
          -- exfalso. exact (F4 Hm t X).
        * unfold upd. destruct (Nat.eqb k w) eqn:E; [|right; right; exact Y]. apply Nat.eqb_eq in E. subst k.
          destruct Hx as [(_ & _ & E0 & _)|([Hu|Hm] & _)].
          -- right. right. rewrite E0. exact Y.
          -- exfalso. rewrite Y in Hu. discriminate.
          -- exfalso. exact (F4 Hm t X).
    - intros k t [X|X].
      + inversion X; subst. split; [exact Hst | exists s; auto].
      + apply hss with k. exact X.
    - cbn. constructor; [|exact hsn]. intros X. apply in_map_iff in X. destruct X as [[k t] [E X]]. cbn in E. subst t. exact (F3 k X).
    - intros Hm. destruct (ht Hm) as [T1 T2]. split.
      + intros k t [X|X]; [inversion X; subst; apply Hthr, Hm | apply T1, X].
      + intros k. destruct (infl (upd f w x' k)) as [|t l] eqn:E; [reflexivity|]. exfalso.
        assert (X : In t (infl (f k))) by (apply Einfl; rewrite E; left; reflexivity). rewrite T2 in X. exact X.
    - intros k. unfold upd. destruct (Nat.eqb k w) eqn:E; [|apply hu]. apply Nat.eqb_eq in E. subst k. intros X. exfalso.
      destruct Hx as [(Hsp & _ & E0 & _)|(_ & _ & _ & Hsp)]; [rewrite E0 in X|]; rewrite X in Hsp; discriminate.
  Qed.

  (* ---- 4. a worker reports (WDone / WFail) ---- *)
  Lemma Inv_reply : forall a a' f rp sn w s ok x',
    Inv a f rp sn -> pend (f w) = s :: pend x' -> phase (f w) <> WKilled -> spawned (phase x') = true ->
    I1 p a' -> I23 false nofail p a' -> started_ids a' = started_ids a ->
    (forall t, In t (done a') -> In t (done a) \/ (t = s /\ ok = true)) ->
    (forall t, In t (failed a') <-> In t (failed a) \/ (t = s /\ ok = false)) ->
    (forall t, In t (infl x') -> In t (infl (f w)) \/ (t = s /\ ok = true)) ->
    NoDup (infl x') ->
    (In s (done a') -> ~ In s (infl x')) -> (forall t, In t (done a') -> t <> s -> In t (done a)) ->
    (mp c = false -> infl x' = []) ->
    Inv a' (upd f w x') ((s, ok) :: rp) sn.
  Proof.
    intros a a' f rp sn w s ok x' H Ep Hnk Hsp H1 H23 Est Hd Hf Hi Hin Hds Hdo Hthr.
    assert (Hs : In s (pend (f w))) by (rewrite Ep; left; reflexivity).
    destruct (k_pend _ _ _ _ H w s Hs) as [Hsr Hsn].
    assert (Hnd : ~ In s (pend x')).
    { pose proof (k_pend_nodup _ _ _ _ H w) as N. rewrite Ep in N. inversion N; assumption. }
    assert (Epend : forall k t, In t (pend (upd f w x' k)) -> In t (pend (f k)) /\ t <> s).
    { intros k t. unfold upd. destruct (Nat.eqb k w) eqn:E.
      - apply Nat.eqb_eq in E. subst k. intros X. split; [rewrite Ep; right; exact X | intros ->; exact (Hnd X)].
      - intros X. split; [exact X|]. intros ->. apply Nat.eqb_neq in E. apply E. eapply (k_pend_uniq _ _ _ _ H); eauto. }
    assert (Einfl : forall k t, In t (infl (upd f w x' k)) -> In t (infl (f k)) \/ (k = w /\ t = s /\ ok = true)).
    { intros k t. unfold upd. destruct (Nat.eqb k w) eqn:E; [apply Nat.eqb_eq in E; subst k | auto].
      intros X. destruct (Hi t X) as [Y|[-> ->]]; auto. }
    assert (Hsi : forall k, ~ In s (infl (f k))).
    { intros k X. apply Hsr. eapply in_fst. apply (k_infl _ _ _ _ H k s X). }
    destruct H as [h1 h23 hp hpu hpn hrn hr hd hf hi hiu hin hs hss hsn ht hu].
    constructor.
    - assumption.
    - assumption.
    - intros k t X. destruct (Epend k t X) as [Y Hne']. destruct (hp k t Y) as [A B]. split; [|exact B].
      cbn. intros [E|E]; [apply Hne'; symmetry; exact E | exact (A E)].
    - intros k k' t X Y. eapply hpu; [apply (Epend k t X) | apply (Epend k' t Y)].
    - intros k. unfold upd. destruct (Nat.eqb k w) eqn:E; [|apply hpn]. pose proof (hpn w) as N. rewrite Ep in N. inversion N; assumption.
    - cbn. constructor; assumption.
    - intros t b [X|X]; [inversion X; subst; exists w; exact Hsn | apply (hr t b X)].
    - intros t X. destruct (Hd t X) as [Y|[-> ->]]; [right; apply hd, Y | left; reflexivity].
    - intros t. rewrite Hf. split.
      + intros [Y|[-> ->]]; [right; apply hf, Y | left; reflexivity].
      + intros [Y|Y]; [inversion Y; subst; right; auto | left; apply hf, Y].
    - intros k t X. destruct (Einfl k t X) as [Y|(-> & -> & ->)].
      + destruct (hi k t Y) as [A B]. split; [right; exact A|]. intros Z. destruct (Nat.eq_dec t s) as [->|Ne]; [exact (Hsi k Y) | exact (B (Hdo t Z Ne))].
      + split; [left; reflexivity|]. intros Z. rewrite upd_same in X. exact (Hds Z X).
    - intros k k' t X Y. destruct (Einfl k t X) as [X'|(E1 & E2 & _)]; destruct (Einfl k' t Y) as [Y'|(E3 & E4 & _)].
      + eapply hiu; eauto.
      + subst t. exfalso. exact (Hsi k X').
      + subst t. exfalso. exact (Hsi k' Y').
      + congruence.
    - intros k. unfold upd. destruct (Nat.eqb k w); [exact Hin | apply hin].
    - intros k t X. destruct (hs k t X) as [Y|[Y|Y]]; [left; right; exact Y | |].
      + unfold upd. destruct (Nat.eqb k w) eqn:E; [|right; left; exact Y]. apply Nat.eqb_eq in E. subst k. rewrite Ep in Y.
        destruct Y as [<-|Y]; [left; left; reflexivity | right; left; exact Y].
      + unfold upd. destruct (Nat.eqb k w) eqn:E; [|right; right; exact Y]. apply Nat.eqb_eq in E. subst k. contradiction.
    - intros k t X. rewrite Est. apply (hss k t X).
    - assumption.
    - intros Hm. destruct (ht Hm) as [T1 T2]. split; [exact T1|]. intros k. unfold upd. destruct (Nat.eqb k w); [apply Hthr, Hm | apply T2].
    - intros k. unfold upd. destruct (Nat.eqb k w) eqn:E; [|apply hu]. intros X. rewrite X in Hsp. discriminate.
  Qed.

  (* ---- 5. the main thread takes a result message ---- *)
  Lemma Inv_take_done : forall a f rp sn w s x, Inv a f rp sn -> In s (infl (f w)) ->
    pend x = pend (f w) -> phase x = phase (f w) -> incl (infl x) (infl (f w)) -> NoDup (infl x) -> ~ In s (infl x) ->
    Inv (add_done s a) (upd f w x) rp sn.
  Proof.
    intros a f rp sn w s x H Hs Ep Eph Hi Hn Hns.
    destruct (Inv_infl_fresh a f rp sn H w s Hs) as (G1 & G2 & G3).
    assert (Epend : forall k, pend (upd f w x k) = pend (f k)).
    { intros k. unfold upd. destruct (Nat.eqb k w) eqn:E; [apply Nat.eqb_eq in E; subst; exact Ep | reflexivity]. }
    assert (Einfl : forall k t, In t (infl (upd f w x k)) -> In t (infl (f k)) /\ t <> s).
    { intros k t. unfold upd. destruct (Nat.eqb k w) eqn:E.
      - apply Nat.eqb_eq in E. subst k. intros X. split; [apply Hi, X | intros ->; exact (Hns X)].
      - intros X. split; [exact X|]. intros ->. apply Nat.eqb_neq in E. apply E. eapply (k_infl_uniq _ _ _ _ H); eauto. }
    assert (Ephase : forall k, phase (upd f w x k) = phase (f k)).
    { intros k. unfold upd. destruct (Nat.eqb k w) eqn:E; [apply Nat.eqb_eq in E; subst; exact Eph | reflexivity]. }
    destruct H as [h1 h23 hp hpu hpn hrn hr hd hf hi hiu hin hs hss hsn ht hu].
    constructor.
    - rewrite <- (worker_done_add_done a s G1 G2 G3). apply (proj2 (proj2 (proj2 stable_I1))). exact h1.
    - rewrite <- (worker_done_add_done a s G1 G2 G3). apply (proj2 (proj2 (proj2 stable_I23))). exact h23.
    - intros k t. rewrite Epend. apply hp.
    - intros k k' t. rewrite !Epend. apply hpu.
    - intros k. rewrite Epend. apply hpn.
    - assumption.
    - assumption.
    - intros t [<-|X]; [apply (hi w s Hs) | apply hd, X].
    - exact hf.
    - intros k t X. destruct (Einfl k t X) as [Y Ne]. destruct (hi k t Y) as [A B]. split; [exact A|]. intros [Z|Z]; [exact (Ne (eq_sym Z)) | exact (B Z)].
    - intros k k' t X Y. eapply hiu; [apply (Einfl k t X) | apply (Einfl k' t Y)].
    - intros k. unfold upd. destruct (Nat.eqb k w); [exact Hn | apply hin].
    - intros k t X. rewrite Epend, Ephase. apply hs, X.
    - exact hss.
    - assumption.
    - intros Hm. destruct (ht Hm) as [T1 T2]. split; [exact T1|]. intros k.
      destruct (infl (upd f w x k)) as [|t l] eqn:E; [reflexivity|]. exfalso.
      assert (X : In t (infl (f k))) by (apply (Einfl k t); rewrite E; left; reflexivity). rewrite T2 in X. exact X.
    - intros k. rewrite Ephase, Epend. intros X. destruct (hu k X) as [A B]. split; [exact A|].
      destruct (infl (upd f w x k)) as [|t l] eqn:E; [reflexivity|]. exfalso.
      assert (Y : In t (infl (f k))) by (apply (Einfl k t); rewrite E; left; reflexivity). rewrite B in Y. exact Y.
  Qed.

  Lemma Inv_take : forall a f rp sn w m x, Inv a f rp sn -> take_msg (f w) m = Some x ->
    match m with RDone s => Inv (add_done s a) (upd f w x) rp sn | RDropComplete => Inv a (upd f w x) rp sn end.
  Proof.
    intros a f rp sn w m x H T. unfold take_msg in T. pose proof (k_infl_nodup _ _ _ _ H w) as N. unfold infl in N.
    assert (FromReq : forall s, (if mem s (requeued (f w)) then Some (set_resq (f w) (resq (f w)) (remove1 s (requeued (f w)))) else None) = Some x ->
                      Inv (add_done s a) (upd f w x) rp sn).
    { intros s T'. destruct (mem s (requeued (f w))) eqn:E; [|discriminate]. inv_some T'. apply mem_In in E.
      pose proof (NoDup_app_r _ _ N) as N2.
      apply Inv_take_done; auto; unfold infl; cbn.
      - apply in_or_app. right. exact E.
      - intros t X. apply in_app_or in X. apply in_or_app. destruct X as [X|X]; [left; exact X | right; eapply remove1_In; exact X].
      - clear - N. induction (rdones (resq (f w))) as [|y l IH]; cbn in *; [apply remove1_NoDup; exact N|].
        inversion N; subst. constructor; [|apply IH; assumption].
        intros X. apply H1. apply in_app_or in X. apply in_or_app. destruct X as [X|X]; [left; exact X | right; eapply remove1_In; exact X].
      - intros X. apply in_app_or in X. destruct X as [X|X]; [|exact (remove1_notin s _ N2 X)].
        clear - N X E. induction (rdones (resq (f w))) as [|y l IH]; cbn in *; [exact X|].
        inversion N; subst. destruct X as [->|X]; [apply H1; apply in_or_app; right; exact E | apply IH; assumption]. }
    destruct (resq (f w)) as [|h r] eqn:Er.
    - destruct m as [s|]; [apply FromReq, T | discriminate].
    - destruct (rmsg_eqb h m) eqn:Eh.
      + apply rmsg_eqb_eq in Eh. subst h. inv_some T. destruct m as [s|].
        * cbn in N. inversion N; subst. apply Inv_take_done.
          -- exact H.
          -- unfold infl. rewrite Er. left; reflexivity.
          -- reflexivity.
          -- reflexivity.
          -- unfold infl. rewrite Er. cbn. apply incl_tl, incl_refl.
          -- unfold infl. cbn. assumption.
          -- unfold infl. cbn. assumption.
        * apply Inv_upd_same; auto. unfold infl; cbn. rewrite Er. reflexivity.
      + destruct m as [s|]; [apply FromReq, T | discriminate].
  Qed.

  Lemma poll_Inv : forall rp sn taken f a f' a', Inv a f rp sn -> poll f a taken = Some (f', a') -> Inv a' f' rp sn.
  Proof.
    intros rp sn taken. induction taken as [|[w m] t IH]; intros f a f' a' H P; cbn in P.
    - inversion P; subst. exact H.
    - destruct (spawned (phase (f w))); [|discriminate]. destruct (take_msg (f w) m) as [x|] eqn:T; [|discriminate].
      pose proof (Inv_take a f rp sn w m x H T) as H'. destruct m as [s|]; eapply IH; eauto.
  Qed.

  (* ---- 6. the remaining single-worker transitions ---- *)
  Lemma Inv_requeue : forall a f rp sn w s r, Inv a f rp sn -> resq (f w) = RDone s :: r ->
    Inv a (upd f w (set_resq (f w) r (s :: requeued (f w)))) rp sn.
  Proof.
    intros a f rp sn w s r H Er.
    assert (P : Permutation (infl (f w)) (infl (set_resq (f w) r (s :: requeued (f w))))).
    { unfold infl. rewrite Er. cbn. apply Permutation_middle. }
    apply Inv_upd; auto.
    - apply incl_refl.
    - apply (k_pend_nodup _ _ _ _ H).
    - intros t. split; intros X; [eapply Permutation_in; [apply Permutation_sym, P | exact X] | eapply Permutation_in; [exact P | exact X]].
    - eapply Permutation_NoDup; [exact P | apply (k_infl_nodup _ _ _ _ H)].
  Qed.

  Lemma Inv_terminate : forall a f rp sn w, Inv a f rp sn -> Inv a (upd f w (set_term (f w))) rp sn.
  Proof.
    intros a f rp sn w H. pose proof (k_pend_nodup _ _ _ _ H w) as N.
    apply Inv_upd; auto; unfold pend, set_term in *; cbn.
    - destruct (phase (f w)); cbn; try apply incl_refl. apply incl_tl, incl_refl.
    - destruct (phase (f w)); cbn in *; try exact N. inversion N; assumption.
    - tauto.
    - apply (k_infl_nodup _ _ _ _ H).
    - intros s X. destruct (phase (f w)); cbn in *; auto.
    - intros E. rewrite E. reflexivity.
    - destruct (phase (f w)); cbn; auto; discriminate.
  Qed.

  Definition SInv (st : pst) : Prop := Inv (o st) (ws st) (replies st) (sent st).

  Ltac des S := repeat (dm S; try discriminate S).

  Lemma step_SInv : forall st l st', SInv st -> step c st l = Some st' -> SInv st'.
  Proof.
    intros st l st' H S. unfold SInv in *. destruct l; cbn in S.
    - (* OHead *) des S; inv_some S; exact H.
    - (* OVisit *) des S; inv_some S; cbn; apply Inv_ovisit; auto; eapply nth_error_In'; eauto.
    - (* OPoll *) des S; inv_some S; cbn; eapply poll_Inv; eauto.
    - (* OCollect *)
      destruct (pc st); try discriminate S. destruct (nth_error p i) as [s|] eqn:En; [|discriminate S].
      destruct (negb (is_fin s (o st)) && cur_running s (o st) && mem (sid s) (done (o st))); [|discriminate S].
      assert (Hs : In s p) by (eapply nth_error_In'; eauto).
      destruct (skind s), ok; try discriminate S.
      + destruct (mp c && spawned (phase (ws st (wdrop c (sid s))))); inv_some S; cbn.
        * apply Inv_upd_same; [apply Inv_ovisit; auto | | reflexivity | auto | auto].
          unfold pend; cbn. rewrite csteps_app. cbn. rewrite app_nil_r. reflexivity.
        * apply Inv_ovisit; auto.
      + inv_some S. exact H.
      + inv_some S. cbn. apply Inv_ovisit; auto.
      + inv_some S. cbn. apply Inv_ovisit; auto.
    - (* ORequeue *) des S; inv_some S; cbn. apply Nat.eqb_eq in Heqb0. subst. apply Inv_requeue; auto.
    - (* OGot *) des S; inv_some S; cbn. apply Inv_upd_same; auto. unfold infl; cbn. rewrite Heql. reflexivity.
    - (* OTimeout *) des S; inv_some S; exact H.
    - (* OExec *)
      destruct (pc st); try discriminate S. destruct (nth_error p i) as [s|] eqn:En; [|discriminate S].
      destruct (negb (is_fin s (o st)) && negb (cur_running s (o st)) && can_run s (o st)) eqn:G; [|discriminate S].
      apply andb_true_iff in G. destruct G as [G G3]. apply andb_true_iff in G. destruct G as [G1 G2].
      apply negb_true_iff in G1, G2.
      assert (Hs : In s p) by (eapply nth_error_In'; eauto).
      destruct ok; [|inv_some S; cbn; apply Inv_ovisit; auto].
      assert (Hns : ~ In (sid s) (started_ids (o st))).
      { apply (not_started_when_startable p Hne); auto. apply (k_i23 _ _ _ _ H). }
      assert (Hst : In (sid s) (started_ids (ovisit (o st) s))).
      { unfold started_ids. rewrite (ovisit_start_started _ _ G1 G2 G3). left. reflexivity. }
      unfold submit in S. destruct (mp c) eqn:Em.
      + destruct (spawned (phase (ws st (wof c (sid s))))) eqn:Esp; inv_some S; cbn.
        * apply Inv_submit; [exact H | exact Hs | exact Hns | exact Hst | intros X; congruence |].
          left. repeat split; auto.
          unfold pend; cbn. rewrite csteps_app. cbn. rewrite app_assoc. reflexivity.
        * apply Inv_submit; [exact H | exact Hs | exact Hns | exact Hst | intros X; congruence |].
          right. repeat split; auto.
      + inv_some S. cbn. apply Inv_submit; [exact H | exact Hs | exact Hns | exact Hst | reflexivity |].
        right. repeat split; auto.
    - (* OEndScan *) des S; inv_some S; cbn; try apply Inv_drain; apply Inv_bump; exact H.
    - (* OResume *) des S; inv_some S; exact H.
    - (* OAbandon *) des S; inv_some S; exact H.
    - (* OArtifacts *) des S; inv_some S; exact H.
    - (* OTerminate *) des S; inv_some S; cbn. apply Inv_terminate; auto.
    - (* OJoin *) des S; inv_some S; cbn; apply Inv_upd_same; auto.
    - (* OClose *) des S; inv_some S; exact H.
    - (* ODropAll *) des S; inv_some S; exact H.
    - (* WTake *)
      destruct (phase (ws st w)) eqn:Eph; try discriminate S. destruct (cmdq (ws st w)) as [|cm t] eqn:Eq; [discriminate S|].
      inv_some S. cbn. apply Inv_upd_same; auto.
      + unfold pend. rewrite Eph, Eq. cbn. destruct cm; reflexivity.
      + rewrite Eph. discriminate.
      + cbn. destruct cm; discriminate.
    - (* WUpload *) des S; inv_some S; exact H.
    - (* WDone *)
      destruct (phase (ws st w)) eqn:Eph; try discriminate S. destruct (wfail c s); [discriminate S|].
      assert (Hpe : In s (pend (ws st w))) by (unfold pend; rewrite Eph; left; reflexivity).
      destruct (Inv_pend_fresh _ _ _ _ H w s Hpe) as (G1 & G2 & G3).
      assert (Hnr : forall k, ~ In s (infl (ws st k))).
      { intros k X. destruct (k_pend _ _ _ _ H w s Hpe) as [Hr _]. apply Hr. eapply in_fst. apply (k_infl _ _ _ _ H k s X). }
      destruct (mp c) eqn:Em; inv_some S; cbn.
      + apply Inv_reply with (a := o st).
        * exact H.
        * unfold pend. rewrite Eph. reflexivity.
        * rewrite Eph. discriminate.
        * reflexivity.
        * apply (k_i1 _ _ _ _ H).
        * apply (k_i23 _ _ _ _ H).
        * reflexivity.
        * intros t X. left. exact X.
        * intros t. split; [intros X; left; exact X | intros [X|[_ X]]; [exact X | discriminate]].
        * unfold infl; cbn. rewrite rdones_app. cbn. intros t X. apply in_app_or in X. destruct X as [X|X].
          -- apply in_app_or in X. destruct X as [X|[<-|[]]]; [left; apply in_or_app; left; exact X | right; auto].
          -- left. apply in_or_app. right. exact X.
        * unfold infl; cbn. rewrite rdones_app. cbn. rewrite <- app_assoc. cbn.
          apply (Permutation_NoDup (l := s :: rdones (resq (ws st w)) ++ requeued (ws st w))); [apply Permutation_middle|].
          constructor; [apply (Hnr w) | apply (k_infl_nodup _ _ _ _ H w)].
        * intros X. contradiction.
        * intros t X _. exact X.
        * intros X. congruence.
      + assert (Ea : worker_done (o st) s true = add_done s (o st)) by (apply worker_done_add_done; auto).
        apply Inv_reply with (a := o st).
        * exact H.
        * unfold pend. rewrite Eph. reflexivity.
        * rewrite Eph. discriminate.
        * reflexivity.
        * rewrite <- Ea. apply (proj2 (proj2 (proj2 stable_I1))), (k_i1 _ _ _ _ H).
        * rewrite <- Ea. apply (proj2 (proj2 (proj2 stable_I23))), (k_i23 _ _ _ _ H).
        * reflexivity.
        * cbn. intros t [<-|X]; auto.
        * cbn. intros t. split; [intros X; left; exact X | intros [X|[_ X]]; [exact X | discriminate]].
        * intros t X. left. exact X.
        * apply (k_infl_nodup _ _ _ _ H).
        * intros _. apply Hnr.
        * cbn. intros t [<-|X] Ne; [congruence | exact X].
        * intros _. apply (proj2 (k_thr _ _ _ _ H Em)).
    - (* WFail *)
      destruct (phase (ws st w)) eqn:Eph; try discriminate S. destruct (wfail c s); [|discriminate S].
      destruct (crashpt_eqb c0 c1); [|discriminate S]. inv_some S. cbn.
      assert (Hpe : In s (pend (ws st w))) by (unfold pend; rewrite Eph; left; reflexivity).
      destruct (Inv_pend_fresh _ _ _ _ H w s Hpe) as (G1 & G2 & G3).
      assert (Ea : worker_done (o st) s false = add_failed s (o st)) by (apply worker_done_add_failed; auto).
      apply Inv_reply with (a := o st).
      + exact H.
      + unfold pend. rewrite Eph. destruct (mp c); cbn; [rewrite csteps_app; cbn; rewrite app_nil_r|]; reflexivity.
      + rewrite Eph. discriminate.
      + reflexivity.
      + rewrite <- Ea. apply (proj2 (proj2 (proj2 stable_I1))), (k_i1 _ _ _ _ H).
      + rewrite <- Ea. apply (proj2 (proj2 (proj2 stable_I23))), (k_i23 _ _ _ _ H).
      + reflexivity.
      + cbn. intros t X. left. exact X.
      + cbn. intros t. split; [intros [<-|X]; auto | intros [X|[-> _]]; auto].
      + intros t X. left. destruct (mp c); exact X.
      + destruct (mp c); apply (k_infl_nodup _ _ _ _ H).
      + cbn. intros X. contradiction.
      + cbn. intros t X _. exact X.
      + intros Em. pose proof (proj2 (k_thr _ _ _ _ H Em) w) as T. rewrite Em. exact T.
    - (* WDropAck *)
      destruct (phase (ws st w)) eqn:Eph; try discriminate S.
      destruct (Bool.eqb last (subset (children c w) (fs ++ trk (ws st w))) && (last || negb dropped)); [|discriminate S].
      destruct last; inv_some S; cbn; apply Inv_upd_same; auto; unfold pend, infl; cbn; rewrite ?Eph, ?csteps_app, ?rdones_app; cbn;
        rewrite ?app_nil_r; auto; try discriminate.
    - (* WDropCrash *)
      destruct (phase (ws st w)) eqn:Eph; try discriminate S. des S. inv_some S. cbn.
      apply Inv_upd_same; auto; unfold pend; cbn; rewrite ?Eph; auto; discriminate.
    - (* OSendFail *)
      destruct (pc st); try discriminate S. destruct (nth_error p i) as [s|] eqn:En; [|discriminate S].
      destruct (negb (is_fin s (o st)) && negb (cur_running s (o st)) && can_run s (o st) && mp c); [|discriminate S].
      assert (Hs : In s p) by (eapply nth_error_In'; eauto).
      destruct (spawned (phase (ws st (wof c (sid s))))) eqn:Esp; inv_some S; cbn; [apply Inv_ovisit; auto|].
      destruct (k_unspawned _ _ _ _ H _ Esp) as [P0 I0].
      apply Inv_upd_same; [apply Inv_ovisit; auto | rewrite P0; reflexivity | rewrite I0; reflexivity | | discriminate].
      intros X. destruct (phase (ws st (wof c (sid s)))); discriminate.
    - (* ONext *) des S; inv_some S; exact H.
  Qed.

  Lemma exec_SInv : forall tr st st', SInv st -> exec c st tr = Some st' -> SInv st'.
  Proof.
    induction tr as [|l tr IH]; intros st st' H E; cbn in E; [inversion E; subst; exact H|].
    destruct (step c st l) as [st1|] eqn:S; [|discriminate]. eapply IH; [eapply step_SInv; eauto | exact E].
  Qed.

  Lemma reach_SInv : forall st, reach c st -> SInv st.
  Proof. intros st [tr E]. eapply exec_SInv; [|exact E]. unfold SInv, pinit; cbn. apply Inv_init. Qed.

  (* ------------------------------------------------------------------------------------------------------------------ *)
  (* (3a) transfer: every `stable` invariant of Model/Orch.v holds at every reachable protocol state (even in the middle
     of a loop iteration), because the protocol changes `o` only by visit / bump / drain / worker_done with a true guard *)
  Lemma take_msg_infl : forall x s y, take_msg x (RDone s) = Some y -> In s (infl x).
  Proof.
    intros x s y T. unfold take_msg in T. unfold infl.
    assert (R : (if mem s (requeued x) then Some (set_resq x (resq x) (remove1 s (requeued x))) else None) = Some y -> In s (rdones (resq x) ++ requeued x)).
    { destruct (mem s (requeued x)) eqn:E; [|discriminate]. intros _. apply in_or_app. right. apply mem_In. exact E. }
    destruct (resq x) as [|h r]; [apply R, T|]. destruct (rmsg_eqb h (RDone s)) eqn:E; [|apply R, T].
    apply rmsg_eqb_eq in E. subst h. left. reflexivity.
  Qed.

  Section Transfer.
    Variable I : ost -> Prop.
    Hypothesis HI : stable false nofail p I.

    Lemma poll_stable : forall rp sn taken f a f' a', Inv a f rp sn -> I a -> poll f a taken = Some (f', a') -> I a'.
    Proof.
      intros rp sn taken. induction taken as [|[w m] t IH]; intros f a f' a' H Ia P; cbn in P.
      - inversion P; subst. exact Ia.
      - destruct (spawned (phase (f w))); [|discriminate]. destruct (take_msg (f w) m) as [x|] eqn:T; [|discriminate].
        pose proof (Inv_take a f rp sn w m x H T) as H'. destruct m as [s|].
        + eapply IH; [exact H' | | exact P].
          destruct (Inv_infl_fresh a f rp sn H w s (take_msg_infl _ _ _ T)) as (G1 & G2 & G3).
          rewrite <- (worker_done_add_done a s G1 G2 G3). apply (proj2 (proj2 (proj2 HI))). exact Ia.
        + eapply IH; [exact H' | exact Ia | exact P].
    Qed.

    Lemma step_stable : forall st l st', SInv st -> I (o st) -> step c st l = Some st' -> I (o st').
    Proof.
      intros st l st' H Ia S. unfold SInv in H. destruct l; cbn in S.
      - des S; inv_some S; exact Ia.
      - des S; inv_some S; cbn; apply (proj1 HI); auto; eapply nth_error_In'; eauto.
      - des S; inv_some S; cbn; eapply poll_stable; eauto.
      - des S; inv_some S; cbn; try exact Ia; apply (proj1 HI); auto; eapply nth_error_In'; eauto.
      - des S; inv_some S; exact Ia.
      - des S; inv_some S; exact Ia.
      - des S; inv_some S; exact Ia.
      - destruct (pc st); try discriminate S. destruct (nth_error p i) as [s|] eqn:En; [|discriminate S].
        destruct (negb (is_fin s (o st)) && negb (cur_running s (o st)) && can_run s (o st)); [|discriminate S].
        assert (Ia' : I (ovisit (o st) s)) by (apply (proj1 HI); auto; eapply nth_error_In'; eauto).
        destruct ok; [|inv_some S; exact Ia']. unfold submit in S. des S; inv_some S; exact Ia'.
      - des S; inv_some S; cbn; try apply (proj1 (proj2 (proj2 HI))); apply (proj1 (proj2 HI)); exact Ia.
      - des S; inv_some S; exact Ia.
      - des S; inv_some S; exact Ia.
      - des S; inv_some S; exact Ia.
      - des S; inv_some S; exact Ia.
      - des S; inv_some S; exact Ia.
      - des S; inv_some S; exact Ia.
      - des S; inv_some S; exact Ia.
      - des S; inv_some S; exact Ia.
      - des S; inv_some S; exact Ia.
      - destruct (phase (ws st w)) eqn:Eph; try discriminate S. destruct (wfail c s); [discriminate S|].
        assert (Hpe : In s (pend (ws st w))) by (unfold pend; rewrite Eph; left; reflexivity).
        destruct (Inv_pend_fresh _ _ _ _ H w s Hpe) as (G1 & G2 & G3).
        destruct (mp c); inv_some S; cbn; [exact Ia|].
        rewrite <- (worker_done_add_done _ s G1 G2 G3). apply (proj2 (proj2 (proj2 HI))). exact Ia.
      - destruct (phase (ws st w)) eqn:Eph; try discriminate S. destruct (wfail c s); [|discriminate S].
        destruct (crashpt_eqb c0 c1); [|discriminate S]. inv_some S. cbn.
        assert (Hpe : In s (pend (ws st w))) by (unfold pend; rewrite Eph; left; reflexivity).
        destruct (Inv_pend_fresh _ _ _ _ H w s Hpe) as (G1 & G2 & G3).
        rewrite <- (worker_done_add_failed _ s G1 G2 G3). apply (proj2 (proj2 (proj2 HI))). exact Ia.
      - des S; inv_some S; exact Ia.
      - des S; inv_some S; exact Ia.
      - des S; inv_some S; cbn; apply (proj1 HI); auto; eapply nth_error_In'; eauto.
      - des S; inv_some S; exact Ia.
    Qed.

    Lemma reach_stable : I init -> forall st, reach c st -> I (o st).
    Proof.
      intros I0 st [tr E].
      assert (G : forall tr' st0 st1, SInv st0 -> I (o st0) -> exec c st0 tr' = Some st1 -> I (o st1)).
      { clear I0 E. induction tr' as [|l tr' IH]; intros st0 st1 H0 I0 E; cbn in E; [inversion E; subst; exact I0|].
        destruct (step c st0 l) as [st2|] eqn:S; [|discriminate].
        eapply IH; [eapply step_SInv; eauto | eapply step_stable; eauto | exact E]. }
      apply (G tr pinit st); [unfold SInv, pinit; cbn; apply Inv_init | exact I0 | exact E].
    Qed.
  End Transfer.

  (* ------------------------------------------------------------------------------------------------------------------ *)
  (* (1) one result message per submitted command *)
  Lemma nodup_count_le1 : forall (l : list nat) x, NoDup l -> count_occ Nat.eq_dec l x <= 1.
  Proof. intros l x H. apply (proj1 (NoDup_count_occ Nat.eq_dec l) H). Qed.

  Lemma at_most_one_reply_l : forall st, reach c st -> forall s,
    n_replies st s <= 1 /\ (forall ok, In (s, ok) (replies st) -> exists w, In (w, s) (sent st)).
  Proof.
    intros st R s. pose proof (reach_SInv st R) as H. split.
    - apply nodup_count_le1, (k_rp_nodup _ _ _ _ H).
    - intros ok X. apply (k_rp _ _ _ _ H s ok X).
  Qed.

  Lemma submitted_once_l : forall st, reach c st -> NoDup (map snd (sent st)).
  Proof. intros st R. apply (k_sent_nodup _ _ _ _ (reach_SInv st R)). Qed.

  Lemma phase_trichotomy : forall ph, spawned ph = false \/ alive ph = true \/ dead ph = true.
  Proof. destruct ph; cbn; auto. Qed.

  Lemma quiescent_alive_idle : forall st w, quiescent c st -> alive (phase (ws st w)) = true -> pend (ws st w) = [].
  Proof.
    intros st w Q A. unfold pend. destruct (phase (ws st w)) eqn:Eph; try discriminate A.
    - (* WIdle *) destruct (cmdq (ws st w)) as [|cm t] eqn:Eq; [reflexivity|]. exfalso.
      pose proof (Q (WTake w) eq_refl) as X. cbn in X. rewrite Eph, Eq in X. discriminate X.
    - (* WRun *) exfalso. destruct (wfail c s) as [cp|] eqn:Ef.
      + pose proof (Q (WFail w cp) eq_refl) as X. cbn in X. rewrite Eph, Ef in X. destruct cp; cbn in X; discriminate X.
      + pose proof (Q (WDone w) eq_refl) as X. cbn in X. rewrite Eph, Ef in X. destruct (mp c); discriminate X.
    - (* WDropping *) exfalso.
      pose proof (Q (WDropAck w (subset (children c w) (fs ++ trk (ws st w))) false) eq_refl) as X. cbn in X. rewrite Eph in X.
      rewrite eqb_reflx in X. destruct (subset (children c w) (fs ++ trk (ws st w))); cbn in X; discriminate X.
  Qed.

  (* under the fairness premise (no worker transition enabled at the end): every submitted command was answered exactly
     once, unless its worker is dead (failed on another command, killed by terminate(), crashed in the drop path, or exited
     after its last drop) and the command was never answered *)
  Lemma exactly_one_reply_l : forall st, reach c st -> quiescent c st -> forall w s, In (w, s) (sent st) ->
    n_replies st s = 1 \/ (n_replies st s = 0 /\ dead (phase (ws st w)) = true).
  Proof.
    intros st R Q w s X. pose proof (reach_SInv st R) as H.
    pose proof (nodup_count_le1 (map fst (replies st)) s (k_rp_nodup _ _ _ _ H)) as Le. unfold n_replies.
    destruct (in_dec Nat.eq_dec s (map fst (replies st))) as [Y|Y].
    - left. apply (count_occ_In Nat.eq_dec) in Y. lia.
    - right. split; [apply (count_occ_not_In Nat.eq_dec); exact Y|].
      destruct (k_sent _ _ _ _ H w s X) as [Z|[Z|Z]]; [contradiction | | rewrite Z; reflexivity].
      destruct (phase_trichotomy (phase (ws st w))) as [U|[A|D]]; [| | exact D].
      + destruct (k_unspawned _ _ _ _ H w U) as [P0 _]. rewrite P0 in Z. destruct Z.
      + rewrite (quiescent_alive_idle st w Q A) in Z. destruct Z.
  Qed.

  Lemma exactly_one_reply_alive_l : forall st, reach c st -> quiescent c st -> forall w s, In (w, s) (sent st) ->
    alive (phase (ws st w)) = true -> n_replies st s = 1.
  Proof.
    intros st R Q w s X A. destruct (exactly_one_reply_l st R Q w s X) as [E|[_ D]]; [exact E|].
    destruct (phase (ws st w)); discriminate.
  Qed.


  (* ------------------------------------------------------------------------------------------------------------------ *)
  (* (2) failures are never lost *)
  Lemma failed_not_all_finished : forall a f rp sn x, Inv a f rp sn -> In x (failed a) -> ~ incl (all_uuids p) (finished a).
  Proof.
    intros a f rp sn x H Hx Hall.
    apply (k_failed _ _ _ _ H) in Hx as Hr. destruct (k_rp _ _ _ _ H x false Hr) as [w Hw].
    destruct (k_sent_started _ _ _ _ H w x Hw) as [_ (t & Ht & Et)].
    pose proof (Hne t Ht) as Hn. destruct (uuids t) as [|u us] eqn:Eu; [congruence|].
    assert (Hu : In u (finished a)).
    { apply Hall. unfold all_uuids. apply in_flat_map. exists t. split; [exact Ht | rewrite Eu; left; reflexivity]. }
    destruct (proj2 (k_i1 _ _ _ _ H) u Hu) as (s' & Hs' & Hus' & Hd).
    assert (s' = t) by (apply (Hdj s' t u); auto; rewrite Eu; left; reflexivity). subst s'. rewrite Et in Hd.
    destruct (k_i23 _ _ _ _ H) as [_ (_ & _ & Hdf & _)]. exact (Hdf x Hd Hx).
  Qed.

  (* the source tests the while-condition before the error flag, Model/Orch.v the other way round: no difference *)
  Lemma head_src_loop_head_inv : forall a f rp sn, Inv a f rp sn -> head_src p a = loop_head p a.
  Proof.
    intros a f rp sn H. unfold head_src, loop_head. destruct (failed a) as [|x fl] eqn:Ef; [destruct (finished a); reflexivity|].
    destruct (finished a) as [|u fin] eqn:Efin; [reflexivity|]. rewrite <- Efin.
    destruct (subset (all_uuids p) (finished a)) eqn:Es; [|reflexivity]. exfalso.
    apply subset_incl in Es. apply (failed_not_all_finished a f rp sn x H); [rewrite Ef; left; reflexivity | exact Es].
  Qed.

  Definition xk (q : opc) : option exitk :=
    match q with PFinally x | PTerm x _ | PJoin x _ | PDrop x | PExited x => Some x | _ => None end.

  Definition XInv (st : pst) : Prop :=
    (xk (pc st) = Some XNormal -> failed (o st) = [] /\ finished (o st) <> [] /\ incl (all_uuids p) (finished (o st))) /\
    (xk (pc st) = Some XRaisedHead -> failed (o st) <> []).

  Ltac xsolve HX :=
    unfold XInv in *; cbn in *;
    repeat match goal with E : pc _ = _ |- _ => rewrite E in HX; clear E end; cbn in *;
    first [ exact HX | split; intros X; try discriminate X; try (inversion X; subst); tauto ].

  Lemma step_XInv : forall st l st', SInv st -> XInv st -> step c st l = Some st' -> XInv st'.
  Proof.
    intros st l st' H HX S. pose proof (step_SInv st l st' H S) as H'. unfold SInv in *. destruct l; cbn in S.
    - (* OHead *) destruct (pc st) eqn:Epc; try discriminate S. destruct (head_src p (o st)) eqn:Eh; inv_some S; unfold XInv; cbn.
      + split; intros X; discriminate X.
      + split; intros X; [|discriminate X]. unfold head_src in Eh. destruct (finished (o st)) as [|u fin] eqn:Efin.
        * destruct (failed (o st)); discriminate Eh.
        * rewrite <- Efin in *. destruct (subset (all_uuids p) (finished (o st))) eqn:Es; [|destruct (failed (o st)); discriminate Eh].
          apply subset_incl in Es. split; [|split; [rewrite Efin; discriminate | exact Es]].
          destruct (failed (o st)) as [|x fl] eqn:Ef; [reflexivity|]. exfalso.
          apply (failed_not_all_finished _ _ _ _ x H); [rewrite Ef; left; reflexivity | exact Es].
      + split; intros X; [discriminate X|]. unfold head_src in Eh.
        destruct (failed (o st)); [|discriminate]. destruct (finished (o st)); [discriminate Eh|]. destruct (subset _ _); discriminate Eh.
    - des S; inv_some S; xsolve HX.
    - des S; inv_some S; xsolve HX.
    - des S; inv_some S; xsolve HX.
    - des S; inv_some S; xsolve HX.
    - des S; inv_some S; xsolve HX.
    - des S; inv_some S; xsolve HX.
    - destruct (pc st) eqn:Epc; try discriminate S. destruct (nth_error p i) as [s|]; [|discriminate S].
      destruct (negb (is_fin s (o st)) && negb (cur_running s (o st)) && can_run s (o st)); [|discriminate S].
      destruct ok; [unfold submit in S; des S|]; inv_some S; unfold XInv; cbn; split; intros X; discriminate X.
    - des S; inv_some S; xsolve HX.
    - des S; inv_some S; xsolve HX.
    - des S; inv_some S; xsolve HX.
    - des S; inv_some S; xsolve HX.
    - des S; inv_some S; xsolve HX.
    - des S; inv_some S; xsolve HX.
    - des S; inv_some S; xsolve HX.
    - des S; inv_some S; xsolve HX.
    - des S; inv_some S; xsolve HX.
    - des S; inv_some S; xsolve HX.
    - (* WDone *)
      destruct (phase (ws st w)) eqn:Eph; try discriminate S. destruct (wfail c s); [discriminate S|].
      destruct (mp c); inv_some S; exact HX.
    - (* WFail *)
      destruct (phase (ws st w)) eqn:Eph; try discriminate S. destruct (wfail c s); [|discriminate S].
      destruct (crashpt_eqb c0 c1); [|discriminate S]. inv_some S. unfold XInv in *. cbn in *. destruct HX as [X1 X2]. split.
      + intros X. exfalso. destruct (X1 X) as (_ & _ & Hall).
        apply (failed_not_all_finished _ _ _ _ s H'); [left; reflexivity | exact Hall].
      + intros _. discriminate.
    - des S; inv_some S; xsolve HX.
    - des S; inv_some S; xsolve HX.
    - des S; inv_some S; unfold XInv; cbn; split; intros X; discriminate X.
    - des S; inv_some S; xsolve HX.
  Qed.

  Lemma reach_XInv : forall st, reach c st -> XInv st.
  Proof.
    intros st [tr E].
    assert (G : forall tr' st0 st1, SInv st0 -> XInv st0 -> exec c st0 tr' = Some st1 -> XInv st1).
    { clear E. induction tr' as [|l tr' IH]; intros st0 st1 H0 X0 E; cbn in E; [inversion E; subst; exact X0|].
      destruct (step c st0 l) as [st2|] eqn:S; [|discriminate].
      eapply IH; [eapply step_SInv; eauto | eapply step_XInv; eauto | exact E]. }
    apply (G tr pinit st); [unfold SInv, pinit; cbn; apply Inv_init | | exact E].
    unfold XInv, pinit; cbn. split; intros X; discriminate X.
  Qed.

  Lemma failure_reported_l : forall st s, reach c st -> In (s, false) (replies st) -> failure_reported st s.
  Proof.
    intros st s R Hr. pose proof (reach_SInv st R) as H. pose proof (reach_XInv st R) as [X1 _].
    assert (Hf : In s (failed (o st))) by (apply (k_failed _ _ _ _ H); exact Hr).
    unfold failure_reported. repeat split.
    - exact Hf.
    - intros Hd. destruct (k_i23 _ _ _ _ H) as [_ (_ & _ & Hdf & _)]. exact (Hdf s Hd Hf).
    - intros Ht. pose proof (nodup_fst_functional _ s true false (k_rp_nodup _ _ _ _ H) Ht Hr). discriminate.
    - intros x Epc ->. rewrite Epc in X1. cbn in X1. destruct (X1 eq_refl) as [E _]. rewrite E in Hf. destruct Hf.
  Qed.

  (* the error the caller sees at the loop head is a real failure of a started step that never counted as done *)
  Lemma raised_head_origin_l : forall st, reach c st -> xk (pc st) = Some XRaisedHead ->
    failed (o st) <> [] /\ forall s, In s (failed (o st)) ->
      In (s, false) (replies st) /\ In s (started_ids (o st)) /\ ~ In s (done (o st)) /\ exists t, In t p /\ sid t = s.
  Proof.
    intros st R Ex. pose proof (reach_SInv st R) as H. pose proof (reach_XInv st R) as [_ X2]. split; [exact (X2 Ex)|].
    intros s Hf. apply (k_failed _ _ _ _ H) in Hf as Hr. destruct (k_rp _ _ _ _ H s false Hr) as [w Hw].
    destruct (k_sent_started _ _ _ _ H w s Hw) as [Hs Ht]. repeat split; auto.
    intros Hd. destruct (k_i23 _ _ _ _ H) as [_ (_ & _ & Hdf & _)]. exact (Hdf s Hd Hf).
  Qed.

  Lemma normal_exit_clean_l : forall st, reach c st -> xk (pc st) = Some XNormal ->
    failed (o st) = [] /\ (forall s, ~ In (s, false) (replies st)) /\ forall t, In t p -> In (sid t) (done (o st)).
  Proof.
    intros st R Ex. pose proof (reach_SInv st R) as H. pose proof (reach_XInv st R) as [X1 _]. destruct (X1 Ex) as (Ef & _ & Hall).
    split; [exact Ef|]. split.
    - intros s Hr. apply (k_failed _ _ _ _ H) in Hr. rewrite Ef in Hr. destruct Hr.
    - intros t Ht. pose proof (Hne t Ht) as Hn. destruct (uuids t) as [|u us] eqn:Eu; [congruence|].
      assert (Hu : In u (finished (o st))).
      { apply Hall. unfold all_uuids. apply in_flat_map. exists t. split; [exact Ht | rewrite Eu; left; reflexivity]. }
      destruct (proj2 (k_i1 _ _ _ _ H) u Hu) as (s' & Hs' & Hus' & Hd).
      assert (s' = t) by (apply (Hdj s' t u); auto; rewrite Eu; left; reflexivity). subst s'. exact Hd.
  Qed.

  Lemma head_src_loop_head_l : forall st, reach c st -> head_src p (o st) = loop_head p (o st).
  Proof. intros st R. eapply head_src_loop_head_inv. apply (reach_SInv st R). Qed.

  (* instances of the transfer theorem *)
  Lemma start_once_protocol_l : forall st, reach c st -> NoDup (started_ids (o st)).
  Proof. intros st R. apply (proj1 (proj1 (k_i23 _ _ _ _ (reach_SInv st R)))). Qed.
  Lemma start_requires_protocol_l : forall st, reach c st -> forall e, In e (started (o st)) -> start_ok p e.
  Proof. intros st R. apply (proj1 (k_i1 _ _ _ _ (reach_SInv st R))). Qed.
  Lemma results_sound_protocol_l : forall st, reach c st -> I5 p (o st).
  Proof.
    intros st R. apply (reach_stable (I5 p)); [apply I5_stable; assumption | | exact R].
    split; [constructor | intros ? []].
  Qed.

End Protocol.
