(* Source-text tie, C04 / C05 (round 3): TransformFrameworkStep.__eq__ / __hash__ regenerated from
   core/step/transform_frame_work_step.py (Gen/SrcTfs.v) against the de-duplication key of Model/PlannerB.v (tkey, tkey_eqb, kmem:
   `new_tfs not in self.tfs_collecion` in ExecutionPlan.add_tfs).  The proofs decide the four component tests by cases, so
   they do not depend on the order in which the source writes the conjuncts or the two sides of an ==. *)
From Coq Require Import List Bool Arith.
Import ListNotations.
Require Import MV.Model.PySem MV.Gen.SrcTfs.
Require Import MV.Model.PlannerB MV.Model.PyObjR3.

Ltac tfs_cases a1 a2 a3 a4 b1 b2 b3 b4 :=
  rewrite ?(Nat.eqb_sym b1 a1), ?(Nat.eqb_sym b2 a2), ?(Nat.eqb_sym b3 a3), ?(Nat.eqb_sym b4 a4);
  destruct (Nat.eqb a1 b1), (Nat.eqb a2 b2), (Nat.eqb a3 b3), (Nat.eqb a4 b4); reflexivity.

(* __eq__ on two TransformFrameworkSteps IS the model's key equality: from / to framework AND from / to feature group *)
Lemma tfs_eq_src : forall a b, TransformFrameworkStep_eq a (Some b) = tkey_eqb a b.
Proof.
  intros [[[a1 a2] a3] a4] [[[b1 b2] b3] b4].
  unfold TransformFrameworkStep_eq, tkey_eqb, tk_from, tk_to, tk_fgrp, tk_tgrp.
  tfs_cases a1 a2 a3 a4 b1 b2 b3 b4.
Qed.

(* compared with an object of any other class it is False *)
Lemma tfs_eq_other_src : forall a, TransformFrameworkStep_eq a None = false.
Proof. intros a. reflexivity. Qed.

Lemma tfs_eq_components : forall a b,
  TransformFrameworkStep_eq a (Some b) = true <->
  tk_from a = tk_from b /\ tk_to a = tk_to b /\ tk_fgrp a = tk_fgrp b /\ tk_tgrp a = tk_tgrp b.
Proof.
  intros a b. rewrite tfs_eq_src. destruct a as [[[a1 a2] a3] a4], b as [[[b1 b2] b3] b4].
  unfold tkey_eqb, tk_from, tk_to, tk_fgrp, tk_tgrp. rewrite !andb_true_iff, !Nat.eqb_eq. tauto.
Qed.

(* __hash__ hashes the tuple of the same four components *)
Lemma tfs_hash_src : forall a, TransformFrameworkStep_hash a = [tk_from a; tk_to a; tk_fgrp a; tk_tgrp a].
Proof. intros a. reflexivity. Qed.

(* the __eq__ / __hash__ contract, and more: equal exactly when the hashed tuples are equal *)
Lemma tfs_eq_iff_hash : forall a b,
  TransformFrameworkStep_eq a (Some b) = true <-> TransformFrameworkStep_hash a = TransformFrameworkStep_hash b.
Proof.
  intros a b. rewrite tfs_eq_components, !tfs_hash_src. split.
  - intros [H1 [H2 [H3 H4]]]. rewrite H1, H2, H3, H4. reflexivity.
  - intros H. injection H as H1 H2 H3 H4. tauto.
Qed.

(* `new_tfs in self.tfs_collecion` (a Python set: __hash__, then __eq__) is the model's kmem *)
Lemma tfs_collection_mem_src : forall k keys,
  kmem k keys = existsb (fun k' => TransformFrameworkStep_eq k (Some k')) keys.
Proof.
  intros k keys. unfold kmem. induction keys as [|k' keys IH]; [reflexivity|].
  cbn [existsb]. rewrite IH, tfs_eq_src. reflexivity.
Qed.
