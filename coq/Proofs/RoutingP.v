(* Proofs about Model/Routing.v: the registry lookup, its (in)dependence of registration and set-iteration order, registry
   invariants along a run, and the composition with the data plane (values = ref_eval). *)
From Coq Require Import List Bool ZArith Arith Lia Permutation.
Import ListNotations.
Require Import MV.Spec.RefEval MV.Spec.RefEvalWf MV.Model.DataPlane MV.Model.Routing MV.Proofs.DataPlaneP MV.Proofs.RefEvalP.
Open Scope nat_scope.

(* ---------- get_cfw ---------- *)
Lemma get_cfw_none : forall reg cls u, get_cfw reg cls u = None <-> hits reg cls u = 0.
Proof.
  intros reg cls u; unfold hits; induction reg as [|e r IH]; cbn [get_cfw filter length].
  - tauto.
  - destruct (matches cls u e) eqn:M; cbn [length].
    + split; intros H; discriminate.
    + exact IH.
Qed.

Lemma get_cfw_in : forall reg cls u o, get_cfw reg cls u = Some o ->
  exists e, In e reg /\ matches cls u e = true /\ fst e = o.
Proof.
  intros reg cls u o; induction reg as [|e r IH]; cbn [get_cfw]; intros H; [discriminate|].
  destruct (matches cls u e) eqn:M.
  - inversion H; subst. exists e; repeat split; [left; reflexivity | exact M].
  - destruct (IH H) as (e' & Hin & Hm & Hf). exists e'; repeat split; [right; exact Hin | exact Hm | exact Hf].
Qed.

(* the first match: nothing before it matches *)
Lemma get_cfw_first : forall reg cls u o, get_cfw reg cls u = Some o <->
  exists pre e post, reg = pre ++ e :: post /\ fst e = o /\ matches cls u e = true /\
                     forallb (fun x => negb (matches cls u x)) pre = true.
Proof.
  intros reg cls u o; split.
  - induction reg as [|e r IH]; cbn [get_cfw]; intros H; [discriminate|].
    destruct (matches cls u e) eqn:M.
    + inversion H; subst. exists [], e, r; repeat split; assumption.
    + destruct (IH H) as (pre & e' & post & Hr & Hf & Hm & Hp).
      exists (e :: pre), e', post; subst r; repeat split; try assumption.
      cbn [forallb]; rewrite M; exact Hp.
  - intros (pre & e & post & Hr & Hf & Hm & Hp); subst reg.
    induction pre as [|x pre IH]; cbn [app get_cfw].
    + rewrite Hm, Hf; reflexivity.
    + cbn [forallb] in Hp; apply andb_true_iff in Hp; destruct Hp as [Hx Hp].
      apply negb_true_iff in Hx; rewrite Hx. exact (IH Hp).
Qed.

Lemma hits_in_pos : forall reg cls u e, In e reg -> matches cls u e = true -> 1 <= hits reg cls u.
Proof.
  intros reg cls u e Hin Hm; unfold hits.
  assert (Hf : In e (filter (matches cls u) reg)) by (apply filter_In; split; assumption).
  destruct (filter (matches cls u) reg); [destruct Hf | cbn [length]; lia].
Qed.

(* when at most one registered object matches, the lookup returns THAT object wherever it is registered *)
Lemma get_cfw_unique : forall reg cls u e, hits reg cls u <= 1 -> In e reg -> matches cls u e = true ->
  get_cfw reg cls u = Some (fst e).
Proof.
  intros reg cls u e; induction reg as [|e0 r IH]; intros Hh Hin Hm; [destruct Hin|].
  unfold hits in Hh; cbn [filter get_cfw] in *.
  destruct (matches cls u e0) eqn:M0.
  - cbn [length] in Hh. destruct Hin as [He | Hin]; [subst; reflexivity|].
    pose proof (hits_in_pos r cls u e Hin Hm) as Hp; unfold hits in Hp; lia.
  - destruct Hin as [He | Hin]; [subst; rewrite Hm in M0; discriminate|].
    apply IH; assumption.
Qed.

Lemma hits_perm : forall reg reg' cls u, Permutation reg reg' -> hits reg cls u = hits reg' cls u.
Proof.
  intros reg reg' cls u Hp; unfold hits; induction Hp as [|x l l' Hp IH|x y l|l l' l'' H1 IH1 H2 IH2]; cbn [filter].
  - reflexivity.
  - destruct (matches cls u x); cbn [length]; congruence.
  - destruct (matches cls u x), (matches cls u y); reflexivity.
  - congruence.
Qed.

(* registration order (dict insertion order) is irrelevant for an unambiguous lookup *)
Lemma get_cfw_perm_l : forall reg reg' cls u, Permutation reg reg' -> unamb reg cls u = true ->
  get_cfw reg cls u = get_cfw reg' cls u.
Proof.
  intros reg reg' cls u Hp Hu; unfold unamb in Hu; apply Nat.leb_le in Hu.
  destruct (get_cfw reg cls u) as [o|] eqn:G.
  - destruct (get_cfw_in _ _ _ _ G) as (e & Hin & Hm & Hf); subst o; symmetry.
    apply get_cfw_unique; [rewrite <- (hits_perm _ _ _ _ Hp); exact Hu | eapply Permutation_in; eassumption | exact Hm].
  - symmetry; apply get_cfw_none; rewrite <- (hits_perm _ _ _ _ Hp); apply get_cfw_none; exact G.
Qed.

(* ... and decisive for an ambiguous one: two matching objects => some registration order gives another answer *)
Lemma get_cfw_order_dependent_l : forall reg cls u e1 e2, In e1 reg -> In e2 reg ->
  matches cls u e1 = true -> matches cls u e2 = true -> fst e1 <> fst e2 ->
  exists reg', Permutation reg reg' /\ get_cfw reg cls u <> get_cfw reg' cls u.
Proof.
  intros reg cls u e1 e2 H1 H2 M1 M2 Hne.
  destruct (in_split _ _ H1) as (a1 & b1 & E1). destruct (in_split _ _ H2) as (a2 & b2 & E2).
  assert (P1 : Permutation reg (e1 :: a1 ++ b1)) by (rewrite E1; apply Permutation_sym, Permutation_middle).
  assert (P2 : Permutation reg (e2 :: a2 ++ b2)) by (rewrite E2; apply Permutation_sym, Permutation_middle).
  assert (G1 : get_cfw (e1 :: a1 ++ b1) cls u = Some (fst e1)) by (cbn [get_cfw]; rewrite M1; reflexivity).
  assert (G2 : get_cfw (e2 :: a2 ++ b2) cls u = Some (fst e2)) by (cbn [get_cfw]; rewrite M2; reflexivity).
  destruct (get_cfw reg cls u) as [o|] eqn:G.
  - destruct (Nat.eq_dec o (fst e1)) as [Eo | No].
    + exists (e2 :: a2 ++ b2); split; [exact P2|]. rewrite G2; intros H; apply Hne; congruence.
    + exists (e1 :: a1 ++ b1); split; [exact P1|]. rewrite G1; intros H; apply No; congruence.
  - exists (e1 :: a1 ++ b1); split; [exact P1|]. rewrite G1; discriminate.
Qed.

(* ---------- first_hit (iteration over a Python set) ---------- *)
Lemma first_hit_none : forall reg cls us, first_hit reg cls us = None <-> forall u, In u us -> get_cfw reg cls u = None.
Proof.
  intros reg cls us; induction us as [|u t IH]; cbn [first_hit].
  - split; [intros _ u [] | reflexivity].
  - destruct (get_cfw reg cls u) as [o|] eqn:G.
    + split; [discriminate | intros H; specialize (H u (or_introl eq_refl)); congruence].
    + rewrite IH; split.
      * intros H v [Hv | Hv]; [subst; exact G | apply H; exact Hv].
      * intros H v Hv; apply H; right; exact Hv.
Qed.

Lemma first_hit_some : forall reg cls us u o, first_hit reg cls us = Some (u, o) -> In u us /\ get_cfw reg cls u = Some o.
Proof.
  intros reg cls us u o; induction us as [|v t IH]; cbn [first_hit]; intros H; [discriminate|].
  destruct (get_cfw reg cls v) as [o'|] eqn:G.
  - inversion H; subst; split; [left; reflexivity | exact G].
  - destruct (IH H) as [Hin Hg]; split; [right; exact Hin | exact Hg].
Qed.

(* the iteration order of the set is irrelevant iff all members that hit, hit the same object *)
Lemma first_hit_perm_l : forall reg cls us us', Permutation us us' ->
  (forall u1 u2 o1 o2, In u1 us -> In u2 us -> get_cfw reg cls u1 = Some o1 -> get_cfw reg cls u2 = Some o2 -> o1 = o2) ->
  option_map snd (first_hit reg cls us) = option_map snd (first_hit reg cls us').
Proof.
  intros reg cls us us' Hp Hag.
  destruct (first_hit reg cls us) as [[u o]|] eqn:F.
  - destruct (first_hit_some _ _ _ _ _ F) as [Hin Hg].
    destruct (first_hit reg cls us') as [[u' o']|] eqn:F'.
    + destruct (first_hit_some _ _ _ _ _ F') as [Hin' Hg']. cbn [option_map snd].
      f_equal; eapply Hag; [exact Hin | eapply Permutation_in; [apply Permutation_sym; exact Hp | exact Hin'] | exact Hg | exact Hg'].
    + exfalso. pose proof (proj1 (first_hit_none _ _ _) F' u (Permutation_in _ Hp Hin)) as N. congruence.
  - destruct (first_hit reg cls us') as [[u' o']|] eqn:F'; [|reflexivity].
    exfalso. destruct (first_hit_some _ _ _ _ _ F') as [Hin' Hg'].
    pose proof (proj1 (first_hit_none _ _ _) F u' (Permutation_in _ (Permutation_sym Hp) Hin')) as N. congruence.
Qed.

Lemma first_hit_order_dependent_l : forall reg cls u1 u2 o1 o2, get_cfw reg cls u1 = Some o1 -> get_cfw reg cls u2 = Some o2 ->
  o1 <> o2 -> option_map snd (first_hit reg cls [u1; u2]) <> option_map snd (first_hit reg cls [u2; u1]).
Proof.
  intros reg cls u1 u2 o1 o2 G1 G2 Hne; cbn [first_hit]; rewrite G1, G2; cbn [option_map snd]; congruence.
Qed.

(* ---------- one step: effect on the registry ---------- *)
Lemma route_grows : forall reg st reg' w rd, route reg st = Routed reg' w rd ->
  reg' = reg \/ exists c ch, reg' = reg ++ [(rs_sid st, (c, ch))] /\ w = rs_sid st.
Proof.
  intros reg st reg' w rd; unfold route, route_fg, route_tfs, reg_add.
  destruct (rs_kind st).
  - destruct (first_hit reg (rs_cls st) (rs_tfs st)) as [[u o]|].
    + intros H; inversion H; left; reflexivity.
    + destruct (get_cfw reg (rs_cls st) (rs_any st)); intros H; inversion H; subst; [left; reflexivity|].
      right; eexists; eexists; split; reflexivity.
  - destruct (first_hit reg (rs_from st) (rs_req st)) as [[u fo]|]; [|discriminate].
    destruct (match rs_right st with Some u0 => Some u0 | None => hd_error (rs_req st) end); [|discriminate].
    match goal with |- context [get_cfw ?r ?c ?x] => destruct (get_cfw r c x) end; [|discriminate].
    intros H; inversion H; subst. right; eexists; eexists; split; reflexivity.
Qed.

Lemma get_cfw_registered : forall reg cls u o, get_cfw reg cls u = Some o -> In o (map fst reg).
Proof.
  intros reg cls u o G; destruct (get_cfw_in _ _ _ _ G) as (e & Hin & _ & Hf); subst o; apply in_map; exact Hin.
Qed.

(* the object a step writes to (and the one a transform reads from) is registered *)
Lemma route_objects_registered : forall reg st reg' w rd, route reg st = Routed reg' w rd ->
  In w (map fst reg') /\ (forall r, rd = Some r -> In r (map fst reg')).
Proof.
  intros reg st reg' w rd; unfold route, route_fg, route_tfs, reg_add.
  destruct (rs_kind st).
  - destruct (first_hit reg (rs_cls st) (rs_tfs st)) as [[u o]|] eqn:F.
    + intros H; inversion H; subst. split; [|discriminate].
      destruct (first_hit_some _ _ _ _ _ F) as [_ G]; eapply get_cfw_registered; exact G.
    + destruct (get_cfw reg (rs_cls st) (rs_any st)) eqn:G; intros H; inversion H; subst; (split; [|discriminate]).
      * eapply get_cfw_registered; exact G.
      * rewrite map_app; apply in_or_app; right; left; reflexivity.
  - destruct (first_hit reg (rs_from st) (rs_req st)) as [[u fo]|]; [|discriminate].
    destruct (match rs_right st with Some u0 => Some u0 | None => hd_error (rs_req st) end); [|discriminate].
    match goal with |- context [get_cfw ?r ?c ?x] => destruct (get_cfw r c x) eqn:G end; [|discriminate].
    intros H; inversion H; subst. split.
    + rewrite map_app; apply in_or_app; right; left; reflexivity.
    + intros r Hr; inversion Hr; subst. eapply get_cfw_registered; exact G.
Qed.

(* a transform step registers its object under the children of the object its first hitting requirement lives in *)
Lemma route_tfs_children : forall reg st reg' w rd, rs_kind st = RTFS -> route reg st = Routed reg' w rd ->
  ~ In (rs_sid st) (map fst reg) ->
  exists u fo, first_hit reg (rs_from st) (rs_req st) = Some (u, fo) /\ w = rs_sid st /\
               forall x, rmem x (children_of reg fo) = true -> rmem x (children_of reg' w) = true.
Proof.
  intros reg st reg' w rd Hk; unfold route, route_tfs, reg_add; rewrite Hk.
  destruct (first_hit reg (rs_from st) (rs_req st)) as [[u fo]|]; [|discriminate].
  destruct (match rs_right st with Some u0 => Some u0 | None => hd_error (rs_req st) end); [|discriminate].
  match goal with |- context [get_cfw ?r ?c ?x] => destruct (get_cfw r c x) end; [|discriminate].
  intros H Hfresh; inversion H; subst. exists u, fo; repeat split.
  intros x Hx.
  assert (C : forall r0 ch, ~ In (rs_sid st) (map fst r0) -> children_of (r0 ++ [(rs_sid st, (rs_cls st, ch))]) (rs_sid st) = ch).
  { induction r0 as [|e r0 IH]; intros ch Hn; cbn [app children_of fst snd].
    - rewrite Nat.eqb_refl; reflexivity.
    - cbn [map] in Hn. destruct (Nat.eqb (fst e) (rs_sid st)) eqn:E.
      + apply Nat.eqb_eq in E; exfalso; apply Hn; left; exact E.
      + apply IH; intros Hc; apply Hn; right; exact Hc. }
  rewrite C by exact Hfresh.
  clear - Hx. induction (children_of reg fo) as [|y t IH]; cbn [rmem app] in *; [discriminate|].
  apply orb_true_iff in Hx; destruct Hx as [Hx | Hx]; apply orb_true_iff; [left; exact Hx | right; apply IH; exact Hx].
Qed.

(* ---------- a whole run: registry invariants ---------- *)
Lemma final_registry_ids : forall steps reg o, In o (map fst (final_registry reg steps)) ->
  In o (map fst reg) \/ In o (map rs_sid steps).
Proof.
  induction steps as [|st r IH]; intros reg o; cbn [final_registry map].
  - intros H; left; exact H.
  - destruct (route reg st) as [reg' w rd|] eqn:R; [|intros H; left; exact H].
    intros H; destruct (IH _ _ H) as [H1 | H1]; [|right; right; exact H1].
    destruct (route_grows _ _ _ _ _ R) as [E | (c & ch & E & _)]; subst reg'; [left; exact H1|].
    rewrite map_app in H1; apply in_app_or in H1; destruct H1 as [H1 | [H1 | []]]; [left; exact H1 | right; left; exact H1].
Qed.

(* add_cfw_to_compute_frameworks never meets an existing uuid: object names stay distinct *)
Lemma final_registry_nodup : forall steps reg, NoDup (map fst reg ++ map rs_sid steps) -> NoDup (map fst (final_registry reg steps)).
Proof.
  induction steps as [|st r IH]; intros reg Hnd; cbn [final_registry map] in *.
  - rewrite app_nil_r in Hnd; exact Hnd.
  - destruct (route reg st) as [reg' w rd|] eqn:R.
    + apply IH. destruct (route_grows _ _ _ _ _ R) as [E | (c & ch & E & _)]; subst reg'.
      * eapply NoDup_remove_1; exact Hnd.
      * rewrite map_app; cbn [map fst]. rewrite <- app_assoc; exact Hnd.
    + clear - Hnd. induction (map fst reg) as [|a l IHl]; cbn [app] in *; [constructor|].
      inversion Hnd as [|? ? Hn Hr]; subst. constructor; [intros Hc; apply Hn; apply in_or_app; left; exact Hc | apply IHl; exact Hr].
Qed.

Lemma final_registry_extends : forall steps reg, exists ext, final_registry reg steps = reg ++ ext.
Proof.
  induction steps as [|st r IH]; intros reg; cbn [final_registry].
  - exists []; rewrite app_nil_r; reflexivity.
  - destruct (route reg st) as [reg' w rd|] eqn:R; [|exists []; rewrite app_nil_r; reflexivity].
    destruct (IH reg') as (ext & E); rewrite E.
    destruct (route_grows _ _ _ _ _ R) as [E' | (c & ch & E' & _)]; subst reg'; [exists ext; reflexivity|].
    eexists; rewrite <- app_assoc; reflexivity.
Qed.

(* every object a routed step touches is (still) registered at the end *)
Lemma route_all_objects_registered : forall steps reg tr ok, route_all reg steps = (tr, ok) ->
  forall x, In x tr -> In (snd (fst x)) (map fst (final_registry reg steps)) /\
                       (forall r, snd x = Some r -> In r (map fst (final_registry reg steps))).
Proof.
  induction steps as [|st r IH]; intros reg tr ok; cbn [route_all final_registry].
  - intros H; inversion H; intros x [].
  - destruct (route reg st) as [reg' w rd|] eqn:R; [|intros H; inversion H; intros x []].
    destruct (route_all reg' r) as [tr' ok'] eqn:RA. intros H; inversion H; subst tr ok.
    intros x [Hx | Hx].
    + subst x; cbn [fst snd]. destruct (route_objects_registered _ _ _ _ _ R) as [Hw Hr].
      destruct (final_registry_extends r reg') as (ext & E); rewrite E, map_app.
      split; [apply in_or_app; left; exact Hw | intros r0 Hr0; apply in_or_app; left; apply Hr; exact Hr0].
    + eapply IH; eassumption.
Qed.

Lemma route_all_steps : forall steps reg tr ok, route_all reg steps = (tr, ok) -> forall x, In x tr -> In (fst (fst x)) steps.
Proof.
  induction steps as [|st r IH]; intros reg tr ok; cbn [route_all].
  - intros H; inversion H; intros x [].
  - destruct (route reg st) as [reg' w rd|]; [|intros H; inversion H; intros x []].
    destruct (route_all reg' r) as [tr' ok'] eqn:RA. intros H; inversion H; subst tr ok.
    intros x [Hx | Hx]; [subst x; left; reflexivity | right; eapply IH; eassumption].
Qed.

(* the routed steps are the given steps, in order, up to the first lookup failure *)
Lemma route_all_prefix : forall steps reg tr ok, route_all reg steps = (tr, ok) ->
  exists rest, steps = map (fun x => fst (fst x)) tr ++ rest /\ (ok = true -> rest = []).
Proof.
  induction steps as [|st r IH]; intros reg tr ok; cbn [route_all].
  - intros H; inversion H; exists []; split; [reflexivity | reflexivity].
  - destruct (route reg st) as [reg' w rd|].
    + destruct (route_all reg' r) as [tr' ok'] eqn:RA. intros H; inversion H; subst tr ok.
      destruct (IH _ _ _ RA) as (rest & E & Hok). exists rest; split; [cbn [map fst app]; rewrite <- E; reflexivity | exact Hok].
    + intros H; inversion H; subst. exists (st :: r); split; [reflexivity | discriminate].
Qed.

(* ---------- composition with the data plane ---------- *)
Definition rstep_ok (src : env) (defs : list fdef) (e : env) (st : Routing.rstep) : bool :=
  match rs_kind st with
  | RTFS => true
  | RFG => match rs_root st with
           | Some cols => action_ok src defs e (ARoot 0 cols)
           | None => action_ok src defs e (ACalc 0 (rs_defs st))
           end
  end.

Lemma action_of_ok : forall src defs e x, rstep_ok src defs e (fst (fst x)) = true -> action_ok src defs e (action_of x) = true.
Proof.
  intros src defs e [[st w] rd]; unfold rstep_ok, action_of; cbn [fst snd].
  destruct (rs_kind st); [|reflexivity]. destruct (rs_root st); intros H; exact H.
Qed.

(* values: whatever the routing, a run that succeeds holds exactly the reference values - wrong routing can only make a
   step miss its input columns (MissingColumn / MissingObject), never compute a wrong value *)
Lemma run_plan_values_l : forall n src defs ord steps s', Permutation defs ord -> wf_request src ord = true ->
  forallb (rstep_ok src defs (ref_eval n src defs)) steps = true ->
  run_plan n steps = Some (Ok s') ->
  forall o t f c, In (o, t) s' -> lookup t f = Some c -> lookup (ref_eval n src defs) f = Some c.
Proof.
  intros n src defs ord steps s' Hp Hwf Hok; unfold run_plan.
  destruct (route_all [] steps) as [tr ok] eqn:RA. destruct ok; [|discriminate].
  intros H; inversion H as [He]. eapply exec_equals_ref_eval_l; [exact Hp | exact Hwf | | exact He].
  apply forallb_forall; intros a Ha. apply in_map_iff in Ha; destruct Ha as (x & Hx & Hin); subst a.
  apply action_of_ok. rewrite forallb_forall in Hok; apply Hok. eapply route_all_steps; eassumption.
Qed.

(* run_plan is exec over the derived actions *)
Lemma run_plan_exec : forall n steps, snd (route_all [] steps) = true -> run_plan n steps = Some (exec n [] (actions steps)).
Proof.
  intros n steps; unfold run_plan, actions. destruct (route_all [] steps) as [tr ok]; cbn [fst snd]; intros H; subst; reflexivity.
Qed.

(* no ambiguous lookup is reported on a run whose registry never holds two objects of one class sharing a child *)
Definition class_disjoint (reg : registry) : Prop :=
  forall cls u, hits reg cls u <= 1.

Lemma class_disjoint_unamb : forall reg cls u, class_disjoint reg -> unamb reg cls u = true.
Proof. intros reg cls u H; unfold unamb; apply Nat.leb_le; apply H. Qed.
