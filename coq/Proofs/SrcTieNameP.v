(* Source-text tie, C03 (round 2): ComputeFramework.identify_naming_convention regenerated from compute_framework.py
   (Gen/SrcName.v: Optional[str] with a default, a set comprehension, f-strings, sorted / list.sort, extend with a generator
   that reads the list it extends, a result that is a set or a list) is Naming.identify, for every iteration order of the two
   sets the function builds itself (ord: any function that returns a permutation) and every set of columns. *)
From Coq Require Import List Bool ZArith String Ascii Permutation.
Import ListNotations.
Require Import MV.Model.PySem MV.Gen.SrcName.
Require Import MV.Model.Naming MV.Proofs.NamingP.
Open Scope string_scope.
Open Scope list_scope.

Local Notation loop1 := ComputeFramework_identify_naming_convention_loop1.
Local Notation loop2 := ComputeFramework_identify_naming_convention_loop2.
Local Notation loop3 := ComputeFramework_identify_naming_convention_loop3.
Local Notation loop4 := ComputeFramework_identify_naming_convention_loop4.
Local Notation loop5 := ComputeFramework_identify_naming_convention_loop5.

(* ---------- str operations ---------- *)
Lemma py_startswith_starts_with : forall p s, py_startswith p s = starts_with p s.
Proof. induction p as [|a p IH]; intros s; [reflexivity|]. destruct s as [|b s]; [reflexivity|]. cbn. rewrite IH. reflexivity. Qed.

Lemma owns_src : forall f c, (String.eqb c f || py_startswith (String.append f "~") c)%bool = owns f c.
Proof. intros. unfold owns. rewrite py_startswith_starts_with. reflexivity. Qed.

Lemma py_insert_str_insert_sorted : forall x l, py_insert_str x l = insert_sorted x l.
Proof. intros x l. induction l as [|y l IH]; [reflexivity|]. cbn. rewrite IH. reflexivity. Qed.

Lemma py_sorted_str_sort_str : forall l, py_sorted_str l = sort_str l.
Proof.
  intros l. unfold py_sorted_str, sort_str. induction l as [|x l IH]; [reflexivity|].
  cbn [fold_right]. rewrite IH. apply py_insert_str_insert_sorted.
Qed.

(* ---------- sets of str ---------- *)
Lemma py_in_str_in : forall x l, py_in String.eqb x l = true <-> In x l.
Proof.
  intros x l. unfold py_in. rewrite existsb_exists. split.
  - intros [y [Hin He]]. apply String.eqb_eq in He. subst. exact Hin.
  - intros Hin. exists x. split; [exact Hin|apply String.eqb_refl].
Qed.

Lemma py_union_str_present : forall acc c, py_in String.eqb c acc = true -> py_union String.eqb acc [c] = acc.
Proof. intros acc c H. unfold py_union, py_diff. cbn [filter]. rewrite H. cbn [negb]. apply app_nil_r. Qed.

Lemma py_union_str_fresh : forall acc c, ~ In c acc -> py_union String.eqb acc [c] = acc ++ [c].
Proof.
  intros acc c H. unfold py_union, py_diff. cbn [filter].
  destruct (py_in String.eqb c acc) eqn:E; [apply py_in_str_in in E; contradiction|reflexivity].
Qed.

Lemma py_in_union_self : forall acc c, py_in String.eqb c (py_union String.eqb acc [c]) = true.
Proof.
  intros acc c. destruct (py_in String.eqb c acc) eqn:E.
  - rewrite py_union_str_present by exact E. exact E.
  - unfold py_union, py_diff. cbn [filter]. rewrite E. cbn [negb]. apply py_in_str_in. apply in_or_app. right. left. reflexivity.
Qed.

Lemma in_py_set_of_list : forall x l, In x (py_set_of_list String.eqb l) <-> In x l.
Proof.
  intros x l. unfold py_set_of_list.
  assert (G : forall acc, In x (fold_left (fun acc y => py_union String.eqb acc [y]) l acc) <-> In x acc \/ In x l).
  { induction l as [|y l IH]; intros acc; cbn [fold_left].
    - split; [intros H; left; exact H|intros [H|[]]; exact H].
    - rewrite IH. destruct (py_in String.eqb y acc) eqn:E.
      + rewrite py_union_str_present by exact E. apply py_in_str_in in E. split.
        * intros [H|H]; [left; exact H|right; right; exact H].
        * intros [H|[H|H]]; [left; exact H|subst; left; exact E|right; exact H].
      + rewrite py_union_str_fresh by (intros H; apply py_in_str_in in H; rewrite H in E; discriminate). split.
        * intros [H|H]; [apply in_app_or in H; destruct H as [H|[H|[]]]; [left; exact H|right; left; exact H]|right; right; exact H].
        * intros [H|[H|H]]; [left; apply in_or_app; left; exact H|left; apply in_or_app; right; left; exact H|right; exact H]. }
  rewrite G. split; [intros [[]|H]; exact H|intros H; right; exact H].
Qed.

Lemma existsb_in_equiv : forall (f : string -> bool) l l', (forall x, In x l <-> In x l') -> existsb f l = existsb f l'.
Proof.
  intros f l l' H. destruct (existsb f l) eqn:E, (existsb f l') eqn:E'; try reflexivity.
  - apply existsb_exists in E. destruct E as [x [Hin Hf]]. apply H in Hin.
    assert (existsb f l' = true) as C by (apply existsb_exists; exists x; split; assumption). rewrite C in E'. discriminate.
  - apply existsb_exists in E'. destruct E' as [x [Hin Hf]]. apply H in Hin.
    assert (existsb f l = true) as C by (apply existsb_exists; exists x; split; assumption). rewrite C in E. discriminate.
Qed.

(* ---------- the selection loops ---------- *)
Lemma name_loop2_absorb : forall col names acc, py_in String.eqb col acc = true -> loop2 col names acc = Fall acc.
Proof.
  intros col names. induction names as [|f names IH]; intros acc H; [reflexivity|].
  cbn [ComputeFramework_identify_naming_convention_loop2]. cbv zeta. rewrite (py_union_str_present acc col H).
  destruct (String.eqb col f); [apply IH; exact H|].
  destruct (py_startswith (String.append f "~") col); apply IH; exact H.
Qed.

Lemma name_loop2_src : forall col names acc,
  loop2 col names acc = Fall (if existsb (fun f => owns f col) names then py_union String.eqb acc [col] else acc).
Proof.
  intros col names. induction names as [|f names IH]; intros acc; [reflexivity|].
  cbn [ComputeFramework_identify_naming_convention_loop2 existsb]. cbv zeta. rewrite <- owns_src.
  destruct (String.eqb col f); cbn [orb].
  - apply name_loop2_absorb. apply py_in_union_self.
  - destruct (py_startswith (String.append f "~") col); cbn [orb].
    + apply name_loop2_absorb. apply py_in_union_self.
    + apply IH.
Qed.

Lemma name_loop1_src : forall ord N cols acc, NoDup cols -> (forall c, In c cols -> ~ In c acc) ->
  loop1 ord N cols acc = Fall (acc ++ filter (fun c => existsb (fun f => owns f c) (ord 1%nat N)) cols).
Proof.
  intros ord N cols. induction cols as [|col cols IH]; intros acc ND H.
  - cbn. rewrite app_nil_r. reflexivity.
  - inversion ND as [|? ? Hcol ND']. subst.
    cbn [ComputeFramework_identify_naming_convention_loop1 filter]. rewrite name_loop2_src.
    destruct (existsb (fun f => owns f col) (ord 1%nat N)).
    + rewrite py_union_str_fresh by (apply H; left; reflexivity).
      rewrite IH; [rewrite <- app_assoc; reflexivity|exact ND'|].
      intros c Hc Hin. apply in_app_or in Hin. destruct Hin as [Hin|[Hin|[]]].
      * exact (H c (or_intror Hc) Hin).
      * subst. exact (Hcol Hc).
    + apply IH; [exact ND'|]. intros c Hc. apply H. right. exact Hc.
Qed.

(* ---------- request order ---------- *)
Lemma name_loop4_src : forall f l acc, loop4 f l acc = Fall (acc ++ filter (owns f) l).
Proof.
  intros f l. induction l as [|col l IH]; intros acc.
  - cbn. rewrite app_nil_r. reflexivity.
  - cbn [ComputeFramework_identify_naming_convention_loop4 filter]. cbv zeta. rewrite owns_src.
    destruct (owns f col); [rewrite IH, <- app_assoc; reflexivity|apply IH].
Qed.

Lemma name_loop5_src : forall l res, loop5 l res = Fall (extend_new res l).
Proof.
  induction l as [|col l IH]; intros res; [reflexivity|].
  cbn [ComputeFramework_identify_naming_convention_loop5 extend_new]. cbv zeta.
  change (py_in String.eqb col res) with (mem_str col res). destruct (mem_str col res); cbn [negb]; apply IH.
Qed.

Lemma name_loop3_src : forall ord, (forall s l, Permutation (ord s l) l) -> forall S l res,
  loop3 ord S l res = Fall (fold_left (fun res f => extend_new res (sort_str (filter (owns f) S))) l res).
Proof.
  intros ord Hord S l. induction l as [|f l IH]; intros res; [reflexivity|].
  cbn [ComputeFramework_identify_naming_convention_loop3 fold_left]. cbv zeta.
  rewrite name_loop4_src. cbn [app]. rewrite py_sorted_str_sort_str, name_loop5_src.
  rewrite (sort_str_perm_eq (filter (owns f) (ord 2%nat S)) (filter (owns f) S)) by (apply filter_perm; apply Hord).
  apply IH.
Qed.

(* ---------- ComputeFramework.identify_naming_convention ---------- *)
Definition ordering_of (o : option string) : ordering :=
  match o with
  | None => ONone
  | Some s => if String.eqb s "alphabetical" then OAlpha else if String.eqb s "request_order" then ORequest else OInvalid
  end.

Definition of_result (r : result) : res (list string + list string) :=
  match r with RErr => Raise ValueError | RSet l => Ok (inl l) | RList l => Ok (inr l) end.

Lemma selected_src : forall ord, (forall s l, Permutation (ord s l) l) -> forall iter cols, NoDup cols ->
  loop1 ord (py_set_of_list String.eqb (map (fun f => f) iter)) cols [] = Fall (select cols iter).
Proof.
  intros ord Hord iter cols ND. rewrite name_loop1_src; [|exact ND|intros c _ []]. cbn [app]. unfold select. f_equal.
  apply filter_ext_in. intros c _. apply existsb_in_equiv. intros x. rewrite map_id.
  split; intros H.
  - apply in_py_set_of_list. apply (Permutation_in _ (Hord 1%nat (py_set_of_list String.eqb iter))). exact H.
  - apply (Permutation_in _ (Permutation_sym (Hord 1%nat (py_set_of_list String.eqb iter)))). apply in_py_set_of_list. exact H.
Qed.

Lemma identify_naming_convention_src : forall ord, (forall s l, Permutation (ord s l) l) ->
  forall iter cols o, NoDup cols ->
  ComputeFramework_identify_naming_convention ord iter cols o = of_result (identify iter cols (ordering_of o)).
Proof.
  intros ord Hord iter cols o ND. unfold ComputeFramework_identify_naming_convention, identify. cbv zeta.
  destruct o as [s|]; cbn [ordering_of].
  - unfold py_in. cbn [existsb]. rewrite orb_false_r.
    destruct (String.eqb s "alphabetical") eqn:Ea; cbn [orb negb].
    + rewrite selected_src by assumption. destruct (select cols iter) as [|c sel]; [reflexivity|].
      cbn [py_nonempty negb of_result]. rewrite py_sorted_str_sort_str. reflexivity.
    + destruct (String.eqb s "request_order") eqn:Er; cbn [negb]; [|reflexivity].
      rewrite selected_src by assumption. destruct (select cols iter) as [|c sel] eqn:Esel; [reflexivity|].
      cbn [py_nonempty negb]. rewrite (name_loop3_src ord Hord). reflexivity.
  - rewrite selected_src by assumption. destruct (select cols iter) as [|c sel]; reflexivity.
Qed.
