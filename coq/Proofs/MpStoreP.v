(* Proofs about Model/MpStore.v (MULTIPROCESSING store protocol of one compute-framework object). *)
From Coq Require Import List Bool ZArith Arith Lia.
Import ListNotations.
Require Import MV.Spec.RefEval MV.Model.DataPlane MV.Model.MpStore.
Local Open Scope nat_scope.

Lemma mp_run_app : forall pol n o l1 l2 m,
  mp_run pol n o m (l1 ++ l2) = match mp_run pol n o m l1 with Some m' => mp_run pol n o m' l2 | None => None end.
Proof.
  intros pol n o l1. induction l1 as [|u r IH]; intros l2 m; cbn [mp_run app]; [reflexivity|].
  destruct (mp_step pol n o m u); [apply IH|reflexivity].
Qed.

(* the worker's own objects are exactly the SYNC data plane, whatever the upload rule *)
Lemma mp_run_loc_l : forall pol n o l m m',
  mp_run pol n o m l = Some m' -> exec n (loc m) (map fst l) = Ok (loc m').
Proof.
  intros pol n o l. induction l as [|u r IH]; intros m m' H; cbn [mp_run map exec] in *.
  - inversion H; reflexivity.
  - unfold mp_step in H. destruct (step n (loc m) (fst u)) eqn:E; try discriminate.
    destruct (pol (reg m) (snd u)); apply IH in H; cbn [loc] in H; exact H.
Qed.

(* right after an uploading step the store holds the SYNC table of the object *)
Lemma upload_step_publishes_l : forall n o l a s m,
  mp_run pol_code n o (init s) (l ++ [(a, true)]) = Some m ->
  exec n s (map fst (l ++ [(a, true)])) = Ok (loc m) /\ pub m = get_obj (loc m) o /\ reg m = true.
Proof.
  intros n o l a s m H. split; [exact (mp_run_loc_l _ _ _ _ _ _ H)|].
  rewrite mp_run_app in H. destruct (mp_run pol_code n o (init s) l) as [m1|]; [|discriminate].
  cbn [mp_run] in H. unfold mp_step, pol_code in H. cbn [fst snd] in H.
  destruct (step n (loc m1) a); try discriminate. inversion H; subst; cbn; split; reflexivity.
Qed.

Lemma mp_read_after_upload_is_sync_l : forall n o l a s m,
  mp_run pol_code n o (init s) (l ++ [(a, true)]) = Some m ->
  mp_read pol_code n o s (l ++ [(a, true)]) = sync_read n o s (l ++ [(a, true)]).
Proof.
  intros n o l a s m H. destruct (upload_step_publishes_l _ _ _ _ _ _ H) as (E & P & _).
  unfold mp_read, sync_read. rewrite H, E. exact P.
Qed.

Lemma lookup_app_some : forall a b f, lookup b f <> None -> lookup (a ++ b) f <> None.
Proof.
  induction a as [|[k v] r IH]; intros b f H; cbn; [exact H|].
  destruct (Nat.eqb k f); [discriminate|apply IH; exact H].
Qed.

Lemma get_obj_set : forall s o t, get_obj (set_obj s o t) o = Some t.
Proof. intros. unfold set_obj. cbn. rewrite Nat.eqb_refl. reflexivity. Qed.

(* steps that extend the object's table keep every column: the local table and the store keep covering t *)
Lemma extends_keeps_cover_l : forall pol n o t post m m',
  forallb (extends o) post = true ->
  ocovers t (get_obj (loc m) o) -> ocovers t (pub m) ->
  mp_run pol n o m post = Some m' ->
  ocovers t (get_obj (loc m') o) /\ ocovers t (pub m').
Proof.
  intros pol n o t post. induction post as [|u r IH]; intros m m' Hx Hl Hp H; cbn [mp_run] in H.
  - inversion H; subst; split; assumption.
  - cbn [forallb] in Hx. apply andb_prop in Hx as [Hu Hr].
    unfold extends in Hu. unfold mp_step in H. destruct u as [a need]; cbn [fst snd] in *.
    destruct a as [| o' ds |]; try discriminate. apply Nat.eqb_eq in Hu; subst o'.
    cbn [step] in H. destruct (get_obj (loc m) o) as [t0|] eqn:G; [|discriminate].
    destruct (calc_cols n t0 ds) as [new|]; [|discriminate].
    assert (C : ocovers t (get_obj (set_obj (loc m) o (new ++ t0)) o)).
    { rewrite get_obj_set. cbn in *. intros f Hf. apply lookup_app_some. apply Hl; exact Hf. }
    destruct (pol (reg m) need); (eapply IH; [exact Hr| | |exact H]); cbn [loc pub]; assumption.
Qed.

Lemma covers_refl : forall t, covers t t.
Proof. intros t f H; exact H. Qed.

Lemma step_touch_some : forall n s a s' o, step n s a = Ok s' -> touches o a = true -> exists t, get_obj s' o = Some t.
Proof.
  intros n s a s' o H T. destruct a as [o' cols|o' ds|src dst]; cbn [step touches] in *; apply Nat.eqb_eq in T; subst.
  - inversion H; subst. eexists; apply get_obj_set.
  - destruct (get_obj s o); [|discriminate]. destruct (calc_cols n t ds); [|discriminate]. inversion H; subst. eexists; apply get_obj_set.
  - destruct (get_obj s src); [|discriminate]. inversion H; subst. eexists; apply get_obj_set.
Qed.

Lemma last_step_l : forall pol n o l u m m',
  mp_run pol n o m (l ++ [u]) = Some m' -> exists m1, step n (loc m1) (fst u) = Ok (loc m').
Proof.
  intros pol n o l u m m' H. rewrite mp_run_app in H. destruct (mp_run pol n o m l) as [m1|]; [|discriminate].
  exists m1. cbn [mp_run] in H. unfold mp_step in H. destruct (step n (loc m1) (fst u)); try discriminate.
  destruct (pol (reg m1) (snd u)); inversion H; reflexivity.
Qed.

(* the reader theorem: steps pre, then an uploading step a on the object (step k), then steps post that extend the object's table *)
Lemma reader_sees_all_finished_steps_l : forall n o s pre a post m,
  touches o a = true -> forallb (extends o) post = true ->
  mp_run pol_code n o (init s) (pre ++ (a, true) :: post) = Some m ->
  exists tk, sync_read n o s (pre ++ [(a, true)]) = Some tk /\
             mp_read pol_code n o s (pre ++ [(a, true)]) = Some tk /\
             ocovers tk (pub m) /\ ocovers tk (sync_read n o s (pre ++ (a, true) :: post)).
Proof.
  intros n o s pre a post m Ht Hx H.
  assert (Hl := mp_run_loc_l _ _ _ _ _ _ H).
  replace (pre ++ (a, true) :: post) with ((pre ++ [(a, true)]) ++ post) in H by (rewrite <- app_assoc; reflexivity).
  rewrite mp_run_app in H. destruct (mp_run pol_code n o (init s) (pre ++ [(a, true)])) as [mk|] eqn:Ek; [|discriminate].
  destruct (upload_step_publishes_l _ _ _ _ _ _ Ek) as (E & P & _).
  destruct (last_step_l _ _ _ _ _ _ _ Ek) as (m1 & S1). cbn [fst] in S1.
  destruct (step_touch_some _ _ _ _ _ S1 Ht) as (tk & G).
  exists tk. unfold sync_read at 1. unfold mp_read. rewrite E, Ek, P, G. split; [reflexivity|]. split; [reflexivity|].
  destruct (extends_keeps_cover_l pol_code n o tk post mk m Hx) as (A & B);
    [rewrite G; apply covers_refl|rewrite P, G; apply covers_refl|exact H|].
  split; [exact B|]. unfold sync_read. cbn [loc init] in Hl. rewrite Hl. exact A.
Qed.

(* "publish once" (upload only while the object is not registered): the reader after step 2 gets step 1's table *)
Definition ex_steps : list ustep :=
  [ (ARoot 0 [(0, [Some 1; Some 2]%Z)], true);
    (ACalc 0 [{| fname := 1; inputs := [0]; c0 := 0%Z; coefs := [7%Z] |}], true) ].

Lemma publish_once_stale_l :
  mp_read pol_once 2 0 [] ex_steps = Some [(0, [Some 1; Some 2]%Z)] /\
  sync_read 2 0 [] ex_steps = Some [(1, [Some 7; Some 14]%Z); (0, [Some 1; Some 2]%Z)] /\
  mp_read pol_code 2 0 [] ex_steps = sync_read 2 0 [] ex_steps /\
  (exists t, mp_read pol_once 2 0 [] ex_steps = Some t /\ lookup t 1 = None).
Proof. vm_compute. repeat split. eexists; split; reflexivity. Qed.

(* the replay checker rejects the seed's observation and accepts the code's *)
Lemma replay_examples_l :
  chk_replay ([([0;1], true); ([0;1;2], true)], [[0;1]; [0;1;2]], [(1, 1, [0;1], [0;1]); (2, 2, [0;1;2], [0;2])]) = true /\
  chk_replay ([([0;1], true); ([0;1;2], true)], [[0;1]; [0;1;2]], [(1, 2, [0;1;2], [0;1]); (2, 2, [0;1;2], [0;2])]) = true /\
  chk_replay ([([0;1], true); ([0;1;2], true)], [[0;1]], [(1, 1, [0;1], [0;1]); (2, 2, [0;1], [0;2])]) = false /\
  chk_replay ([([0;1], true); ([0;1;2], true)], [[0;1]; [0;1;2]], [(1, 1, [0;1], [0;1]); (2, 2, [0;1], [0;2])]) = false.
Proof. vm_compute. repeat split. Qed.

(* versions under the code's rule = the column sets after the uploading steps, in order *)
Lemma versions_code_l : forall calcs r,
  versions pol_code r calcs = map fst (filter (fun c => snd c) calcs).
Proof.
  induction calcs as [|[cols need] t IH]; intros r; cbn [versions filter map snd fst]; [reflexivity|].
  unfold pol_code at 1. destruct need; cbn [map fst]; rewrite IH; reflexivity.
Qed.
