(* The DFS queue of the planner model (Graph.iterate_nodes_and_edges) and the planned queue built from it.

     queue_complete     on a finite acyclic graph the queue contains exactly the nodes (the fuel is never exhausted)
     planned_queue_spec the planned queue lists every feature group of the graph once, with all its features *)
From Coq Require Import List Bool Arith Lia Permutation.
Import ListNotations.
Require Import MV.Model.Orch MV.Model.OrchCheck MV.Model.PlannerA MV.Spec.PlannerASpec.
Require Import MV.Proofs.OrchP MV.Proofs.OrchTermP MV.Proofs.PlannerASets MV.Proofs.PlannerAGraph.

(* number of nodes not yet visited *)
Definition unv (g : fgraph) (vis : list nat) : nat := List.length (filter (fun u => negb (mem u vis)) (ids g)).

Lemma unv_mono : forall g vis vis', incl vis vis' -> unv g vis' <= unv g vis.
Proof.
  intros g vis vis' Hi. unfold unv. apply filter_len_mono. intros x _ Hx.
  apply negb_true_iff in Hx. apply negb_true_iff. apply mem_false. apply mem_false in Hx.
  intros H. apply Hx, Hi, H.
Qed.

Lemma unv_strict : forall g vis u, In u (ids g) -> ~ In u vis -> unv g (u :: vis) < unv g vis.
Proof.
  intros g vis u Hu Hn. unfold unv. apply filter_len_strict.
  - intros x _ Hx. apply negb_true_iff in Hx. apply negb_true_iff. apply mem_false. apply mem_false in Hx.
    intros H. apply Hx. right. exact H.
  - exists u. split; [exact Hu|]. split.
    + apply negb_false_iff. apply mem_In. left. reflexivity.
    + apply negb_true_iff. apply mem_false. exact Hn.
Qed.

Lemma unv_le : forall g vis, unv g vis <= List.length g.
Proof.
  intros g vis. unfold unv. pose proof (filter_len_le nat (fun u => negb (mem u vis)) (ids g)) as H.
  unfold ids in H. rewrite map_length in H. exact H.
Qed.

Definition dfs_body (f : nat) (g : fgraph) : list nat * list nat -> nat -> list nat * list nat :=
  fun st' c => dfs f g c (if mem c (fst st') then st' else (fst st', snd st' ++ [c])).

Lemma dfs_S : forall f g node st,
  dfs (S f) g node st = if mem node (fst st) then st
                        else fold_left (dfs_body f g) (children g node) (node :: fst st, snd st).
Proof. intros f g node st. reflexivity. Qed.

(* what a call dfs(node) guarantees *)
Definition dfs_post (g : fgraph) (node : nat) (st st' : list nat * list nat) : Prop :=
  incl (fst st) (fst st') /\
  In node (fst st') /\
  (forall u, In u (fst st') -> ~ In u (fst st) -> incl (children g u) (fst st')) /\
  (forall u, In u (fst st') -> In u (fst st) \/ u = node \/ In u (snd st')) /\
  incl (snd st) (snd st') /\
  (forall u, In u (snd st') -> In u (snd st) \/ In u (ids g)).

(* what a loop over a list of nodes guarantees *)
Definition loop_post (g : fgraph) (cs : list nat) (st st' : list nat * list nat) : Prop :=
  incl (fst st) (fst st') /\
  incl cs (fst st') /\
  (forall u, In u (fst st') -> ~ In u (fst st) -> incl (children g u) (fst st')) /\
  (forall u, In u (fst st') -> In u (fst st) \/ In u (snd st')) /\
  incl (snd st) (snd st') /\
  (forall u, In u (snd st') -> In u (snd st) \/ In u (ids g)).

Lemma dfs_children_loop : forall g f,
  (forall node st, unv g (fst st) < f -> In node (ids g) -> dfs_post g node st (dfs f g node st)) ->
  forall cs st, incl cs (ids g) -> unv g (fst st) < f -> loop_post g cs st (fold_left (dfs_body f g) cs st).
Proof.
  intros g f IHf cs. induction cs as [|c cs IHc]; intros st Hcs Hunv; cbn [fold_left].
  - repeat split.
    + apply incl_refl.
    + intros x [].
    + intros u Hu Hn. contradiction.
    + intros u Hu. left. exact Hu.
    + apply incl_refl.
    + intros u Hu. left. exact Hu.
  - set (st1 := if mem c (fst st) then st else (fst st, snd st ++ [c])).
    assert (Hf1 : fst st1 = fst st) by (unfold st1; destruct (mem c (fst st)); reflexivity).
    assert (Hq1 : incl (snd st) (snd st1)).
    { unfold st1. destruct (mem c (fst st)); [apply incl_refl | cbn; apply incl_appl, incl_refl]. }
    assert (Hq1' : forall u, In u (snd st1) -> In u (snd st) \/ u = c).
    { unfold st1. destruct (mem c (fst st)); [intros u Hu; left; exact Hu|]. cbn. intros u Hu.
      apply in_app_iff in Hu. destruct Hu as [Hu|[Hu|[]]]; [left; exact Hu | right; symmetry; exact Hu]. }
    assert (Hcq : In c (fst st) \/ In c (snd st1)).
    { unfold st1. destruct (mem c (fst st)) eqn:E; [left; apply mem_In; exact E|]. right. cbn.
      apply in_app_iff. right. left. reflexivity. }
    assert (Hc : In c (ids g)) by (apply Hcs; left; reflexivity).
    unfold dfs_body at 2. fold st1.
    assert (Hu1 : unv g (fst st1) < f) by (rewrite Hf1; exact Hunv).
    destruct (IHf c st1 Hu1 Hc) as (A1 & A2 & A3 & A4 & A5 & A6).
    set (st2 := dfs f g c st1) in *.
    assert (Hu2 : unv g (fst st2) < f).
    { pose proof (unv_mono g (fst st1) (fst st2) A1) as Hm. lia. }
    destruct (IHc st2 (fun x Hx => Hcs x (or_intror Hx)) Hu2) as (B1 & B2 & B3 & B4 & B5 & B6).
    set (st3 := fold_left (dfs_body f g) cs st2) in *.
    rewrite Hf1 in *. repeat split.
    + intros x Hx. apply B1, A1, Hx.
    + intros x [Hx|Hx]; [subst x; apply B1; exact A2 | apply B2; exact Hx].
    + intros u Hu Hn. destruct (in_dec Nat.eq_dec u (fst st2)) as [Hin|Hnin].
      * intros x Hx. apply B1. exact (A3 u Hin Hn x Hx).
      * exact (B3 u Hu Hnin).
    + intros u Hu. destruct (B4 u Hu) as [Hin|Hq]; [|right; exact Hq].
      destruct (A4 u Hin) as [H|[H|H]].
      * left. exact H.
      * subst u. destruct Hcq as [H|H]; [left; exact H | right; apply B5, A5; exact H].
      * right. apply B5. exact H.
    + intros x Hx. apply B5, A5, Hq1, Hx.
    + intros u Hu. destruct (B6 u Hu) as [H|H]; [|right; exact H].
      destruct (A6 u H) as [H'|H']; [|right; exact H'].
      destruct (Hq1' u H') as [H''|H'']; [left; exact H'' | right; subst u; exact Hc].
Qed.

Lemma dfs_spec : forall g, (forall p c, parent g p c -> In p (ids g)) ->
  forall fuel node st, unv g (fst st) < fuel -> In node (ids g) -> dfs_post g node st (dfs fuel g node st).
Proof.
  intros g Hcl fuel. induction fuel as [|f IHf]; intros node st Hunv Hnode; [lia|].
  rewrite dfs_S. destruct (mem node (fst st)) eqn:Ev.
  - apply mem_In in Ev. repeat split.
    + apply incl_refl.
    + exact Ev.
    + intros u Hu Hn. contradiction.
    + intros u Hu. left. exact Hu.
    + apply incl_refl.
    + intros u Hu. left. exact Hu.
  - apply mem_false in Ev.
    assert (Hu0 : unv g (fst (node :: fst st, snd st)) < f).
    { cbn [fst]. pose proof (unv_strict g (fst st) node Hnode Ev) as Hs. lia. }
    assert (Hcs : incl (children g node) (ids g)).
    { intros c Hc. apply children_parent in Hc. exact (parent_child_id g node c Hc). }
    destruct (dfs_children_loop g f IHf (children g node) (node :: fst st, snd st) Hcs Hu0) as (B1 & B2 & B3 & B4 & B5 & B6).
    set (st3 := fold_left (dfs_body f g) (children g node) (node :: fst st, snd st)) in *.
    cbn [fst snd] in *. repeat split.
    + intros x Hx. apply B1. right. exact Hx.
    + apply B1. left. reflexivity.
    + intros u Hu Hn. destruct (Nat.eq_dec u node) as [E|E].
      * subst u. exact B2.
      * apply (B3 u Hu). intros [H|H]; [apply E; symmetry; exact H | exact (Hn H)].
    + intros u Hu. destruct (B4 u Hu) as [[H|H]|H]; [right; left; symmetry; exact H | left; exact H | right; right; exact H].
    + exact B5.
    + exact B6.
Qed.

Definition roots_post (g : fgraph) (rs : list nat) (st st' : list nat * list nat) : Prop :=
  incl (fst st) (fst st') /\
  incl rs (fst st') /\
  (forall u, In u (fst st') -> ~ In u (fst st) -> incl (children g u) (fst st')) /\
  (forall u, In u (fst st') -> In u (fst st) \/ In u rs \/ In u (snd st')) /\
  incl (snd st) (snd st') /\
  (forall u, In u (snd st') -> In u (snd st) \/ In u (ids g)).

Lemma dfs_roots_loop : forall g, (forall p c, parent g p c -> In p (ids g)) ->
  forall rs st, incl rs (ids g) ->
  roots_post g rs st (fold_left (fun st' r => dfs (S (List.length g)) g r st') rs st).
Proof.
  intros g Hcl rs. induction rs as [|r rs IH]; intros st Hrs; cbn [fold_left].
  - repeat split.
    + apply incl_refl.
    + intros x [].
    + intros u Hu Hn. contradiction.
    + intros u Hu. left. exact Hu.
    + apply incl_refl.
    + intros u Hu. left. exact Hu.
  - assert (Hr : In r (ids g)) by (apply Hrs; left; reflexivity).
    assert (Hunv : unv g (fst st) < S (List.length g)) by (pose proof (unv_le g (fst st)); lia).
    destruct (dfs_spec g Hcl (S (List.length g)) r st Hunv Hr) as (A1 & A2 & A3 & A4 & A5 & A6).
    set (st2 := dfs (S (List.length g)) g r st) in *.
    destruct (IH st2 (fun x Hx => Hrs x (or_intror Hx))) as (B1 & B2 & B3 & B4 & B5 & B6).
    set (st3 := fold_left (fun st' r0 => dfs (S (List.length g)) g r0 st') rs st2) in *.
    repeat split.
    + intros x Hx. apply B1, A1, Hx.
    + intros x [Hx|Hx]; [subst x; apply B1; exact A2 | apply B2; exact Hx].
    + intros u Hu Hn. destruct (in_dec Nat.eq_dec u (fst st2)) as [Hin|Hnin].
      * intros x Hx. apply B1. exact (A3 u Hin Hn x Hx).
      * exact (B3 u Hu Hnin).
    + intros u Hu. destruct (B4 u Hu) as [H|[H|H]].
      * destruct (A4 u H) as [H'|[H'|H']].
        -- left. exact H'.
        -- right. left. left. symmetry. exact H'.
        -- right. right. apply B5. exact H'.
      * right. left. right. exact H.
      * right. right. exact H.
    + intros x Hx. apply B5, A5, Hx.
    + intros u Hu. destruct (B6 u Hu) as [H|H]; [|right; exact H]. exact (A6 u H).
Qed.

Lemma roots_ids : forall g, (forall p c, parent g p c -> In p (ids g)) -> incl (roots g) (ids g).
Proof.
  intros g Hcl u Hu. unfold roots in Hu. apply filter_In in Hu. destruct Hu as [Hu _].
  apply node_order_spec in Hu. destruct Hu as [Hu|[c Hc]]; [exact Hu | exact (Hcl u c Hc)].
Qed.

Lemma has_parent_or_root : forall g u, indeg g u <> 0 -> exists p, parent g p u.
Proof.
  intros g u H. unfold indeg in H. destruct (filter (fun e => Nat.eqb (snd e) u) (edges g)) as [|[p c] t] eqn:E.
  - cbn in H. congruence.
  - assert (Hin : In (p, c) (filter (fun e => Nat.eqb (snd e) u) (edges g))) by (rewrite E; left; reflexivity).
    apply filter_In in Hin. destruct Hin as [Hin Hc]. cbn in Hc. apply Nat.eqb_eq in Hc. subst c.
    exists p. apply edges_parent. exact Hin.
Qed.

Theorem queue_complete : forall g, graph_ok g -> forall u, In u (queue_of g) <-> In u (ids g).
Proof.
  intros g Hok u. pose proof Hok as (Hnd & Hcl & _ & [rk Hrk]).
  pose proof (roots_ids g Hcl) as Hroots.
  destruct (dfs_roots_loop g Hcl (roots g) ([], roots g) Hroots) as (_ & B2 & B3 & B4 & B5 & B6).
  fold (dfs_all g) in B2, B3, B4, B5, B6. cbn [fst snd] in *. unfold queue_of. split.
  - intros H. destruct (B6 u H) as [H'|H']; [apply Hroots; exact H' | exact H'].
  - intros Hu.
    assert (Hvis : forall n v, rk v < n -> In v (ids g) -> In v (fst (dfs_all g))).
    { intros n. induction n as [|n IH]; intros v Hlt Hv; [lia|].
      destruct (Nat.eq_dec (indeg g v) 0) as [Ez|Ez].
      - apply B2. unfold roots. apply filter_In. split; [apply node_order_spec; left; exact Hv | apply Nat.eqb_eq; exact Ez].
      - destruct (has_parent_or_root g v Ez) as [p Hp].
        assert (Hpv : In p (fst (dfs_all g))).
        { apply IH; [specialize (Hrk p v Hp); lia | exact (Hcl p v Hp)]. }
        apply (B3 p Hpv (fun F => F)). apply children_parent. exact Hp. }
    destruct (B4 u (Hvis (S (rk u)) u (Nat.lt_succ_diag_r _) Hu)) as [[]|[H|H]]; [apply B5; exact H | exact H].
Qed.

(* ---------- nodes_per_feature_group and the planned queue ---------- *)
Lemma members_spec : forall g q k u, In u (members g q k) <-> In u q /\ grp_of g u = k.
Proof.
  intros g q k u. unfold members. rewrite In_dedupe, filter_In. split.
  - intros [H E]. apply Nat.eqb_eq in E. split; assumption.
  - intros [H E]. split; [exact H | apply Nat.eqb_eq; exact E].
Qed.

Lemma members_nodup : forall g q k, NoDup (members g q k).
Proof. intros g q k. unfold members. apply NoDup_dedupe. Qed.

Definition pq_step (g : fgraph) (q : list nat) : list nat * list (nat * list nat) -> nat -> list nat * list (nat * list nat) :=
  fun st u => if mem u (fst st) then st
              else let ms := members g q (grp_of g u) in (fst st ++ ms, snd st ++ [(grp_of g u, ms)]).

Lemma planned_queue_eq : forall g q, planned_queue g q = snd (fold_left (pq_step g q) q ([], [])).
Proof. intros g q. reflexivity. Qed.

Definition pq_inv (g : fgraph) (q : list nat) (st : list nat * list (nat * list nat)) : Prop :=
  (forall u, In u (fst st) <-> exists e, In e (snd st) /\ In u (snd e)) /\
  (forall e, In e (snd st) -> snd e = members g q (fst e) /\ exists u, In u q /\ grp_of g u = fst e) /\
  NoDup (map fst (snd st)).

Lemma pq_fold : forall g q l st, incl l q -> pq_inv g q st ->
  pq_inv g q (fold_left (pq_step g q) l st) /\ (forall u, In u l -> In u (fst (fold_left (pq_step g q) l st))) /\
  incl (fst st) (fst (fold_left (pq_step g q) l st)).
Proof.
  intros g q l. induction l as [|u l IH]; intros st Hl Hinv; cbn [fold_left].
  - split; [exact Hinv|]. split; [intros u [] | apply incl_refl].
  - assert (Hu : In u q) by (apply Hl; left; reflexivity).
    assert (Hl' : incl l q) by (intros x Hx; apply Hl; right; exact Hx).
    assert (Hstep : pq_inv g q (pq_step g q st u) /\ In u (fst (pq_step g q st u)) /\ incl (fst st) (fst (pq_step g q st u))).
    { unfold pq_step. destruct (mem u (fst st)) eqn:E.
      - split; [exact Hinv|]. split; [apply mem_In; exact E | apply incl_refl].
      - apply mem_false in E. destruct Hinv as (I1 & I2 & I3). unfold pq_inv. cbv zeta. cbn [fst snd]. split; [|split].
        + split; [|split].
          * intros x. rewrite in_app_iff. split.
            -- intros [H|H].
               ++ apply I1 in H. destruct H as [e [He Hx]]. exists e. split; [apply in_or_app; left; exact He | exact Hx].
               ++ exists (grp_of g u, members g q (grp_of g u)). split; [apply in_or_app; right; left; reflexivity | exact H].
            -- intros [e [He Hx]]. apply in_app_iff in He. destruct He as [He|[He|[]]].
               ++ left. apply I1. exists e. split; assumption.
               ++ subst e. right. exact Hx.
          * intros e He. apply in_app_iff in He. destruct He as [He|[He|[]]]; [exact (I2 e He)|].
            subst e. cbn. split; [reflexivity | exists u; split; [exact Hu | reflexivity]].
          * rewrite map_app. cbn. apply NoDup_snoc; [exact I3|]. intros Hk. apply in_map_iff in Hk.
            destruct Hk as [e [Ek He]]. apply E. apply I1. exists e. split; [exact He|].
            rewrite (proj1 (I2 e He)). apply members_spec. split; [exact Hu | symmetry; exact Ek].
        + apply in_or_app. right. apply members_spec. split; [exact Hu | reflexivity].
        + apply incl_appl, incl_refl. }
    destruct Hstep as (S1 & S2 & S3). destruct (IH (pq_step g q st u) Hl' S1) as (R1 & R2 & R3).
    split; [exact R1|]. split.
    + intros x [Hx|Hx]; [subst x; apply R3; exact S2 | apply R2; exact Hx].
    + intros x Hx. apply R3, S3, Hx.
Qed.

Theorem planned_queue_spec : forall g q,
  NoDup (map fst (planned_queue g q)) /\
  (forall e, In e (planned_queue g q) -> snd e = members g q (fst e) /\ exists u, In u q /\ grp_of g u = fst e) /\
  (forall u, In u q -> exists e, In e (planned_queue g q) /\ fst e = grp_of g u /\ In u (snd e)).
Proof.
  intros g q. rewrite planned_queue_eq.
  assert (Hinit : pq_inv g q ([], [])).
  { split; [|split].
    - intros u. cbn. split; [intros [] | intros [e [[] _]]].
    - intros e [].
    - constructor. }
  destruct (pq_fold g q q ([], []) (incl_refl q) Hinit) as ((I1 & I2 & I3) & R2 & _).
  split; [exact I3|]. split; [exact I2|].
  intros u Hu. destruct (proj1 (I1 u) (R2 u Hu)) as [e [He Hue]]. exists e. split; [exact He|]. split; [|exact Hue].
  rewrite (proj1 (I2 e He)) in Hue. apply members_spec in Hue. symmetry. apply Hue.
Qed.
