(* Theorems about the planning stage of Model/PlannerO.v: the plan of a labelled feature graph (one framework; any
   group-option classes okb, any declared types oty).  For every finite acyclic graph, every order oracle; no size bound.
   The development follows Proofs/PlannerAP.v with the planned queue replaced by the SPLIT queue (one entry per feature
   group and split of group_features_by_compute_framework_and_options): everything that PlannerAP proves from "the entries
   partition the features" carries over, because group_items computes a partition for every input order
   (Proofs/PlannerOGroup.v).

     lift_plan / lift_prepare    conservative extension: default options, no types -> exactly PlannerA's plan / outcome
     plan_uuids_O                every feature (option instance) is produced by exactly one step
     plan_facts_O                distinct ids, non-empty disjoint produced sets, requirements produced, req = ancestors
     step_same_split             two features of one step lie in one split of one feature group
     levels_sound_O              inside a split an ancestor is computed by an earlier step that the descendant's step requires
     plan_struct_O               wf_struct; plan_no_self_req_O
     prepare_outcome_O           Planned / RejectedCycle, decided by the run simulation alone
     prepare_accepts_iff_O       accepted iff the plan is well formed for some order;  plan_wf_O
     plan_req_covers_O           req_covers (T3) is a theorem *)
From Coq Require Import List Bool Arith Lia Permutation.
Import ListNotations.
Require Import MV.Model.Orch MV.Model.OrchCheck MV.Model.Options MV.Model.Identity MV.Model.Grouping MV.Model.PlannerA MV.Model.PlannerO.
Require Import MV.Spec.GroupingSpec MV.Spec.PlannerASpec.
Require Import MV.Proofs.OrchP MV.Proofs.OrchTermP MV.Proofs.PlannerASets MV.Proofs.PlannerAGraph.
Require Import MV.Proofs.PlannerAQueue MV.Proofs.PlannerALevels MV.Proofs.PlannerAOrder MV.Proofs.PlanSimP MV.Proofs.PlannerAP.
Require Import MV.Proofs.GroupingP MV.Proofs.PlannerOGroup.

(* the dependency levels of one split *)
Definition slevels (ord : oparam) (g : ograph) (sp : list nat) : list (list nat) :=
  fst (split_levels (fun u => aget0 u (p2c_of (base g))) (ord 1 sp)).

(* ---------- conservative extension ---------- *)
Lemma base_lift : forall g, base (lift g) = g.
Proof. intros g. unfold base, lift. rewrite map_map. cbn. apply map_id. Qed.

Lemma onode_of_lift : forall g u, onode_of (lift g) u = option_map (fun n => {| on := n; okb := fcfw n; oty := None |}) (node_of g u).
Proof.
  intros g u. unfold onode_of, node_of, lift. induction g as [|n g IH]; cbn; [reflexivity|].
  destruct (Nat.eqb (fid n) u); [reflexivity | exact IH].
Qed.

Lemma oitem_lift : forall g u, oitem (lift g) u = item_of g u.
Proof.
  intros g u. unfold oitem, item_of, kb_of, ty_of, cfw_of. rewrite onode_of_lift. destruct (node_of g u); reflexivity.
Qed.

Theorem lift_raw_plan : forall ord g, raw_plan_O ord (lift g) = raw_plan ord g.
Proof.
  intros ord g. unfold raw_plan_O, raw_plan. rewrite base_lift. apply flat_map_ext. intros e.
  unfold steps_of_group_O, steps_of_group, levels_of_group_O, levels_of_group, splits_of. rewrite base_lift.
  rewrite (map_ext (oitem (lift g)) (item_of g) (oitem_lift g)). rewrite map_map. reflexivity.
Qed.

Theorem lift_plan : forall ord g, plan_O ord (lift g) = plan_of ord g.
Proof. intros ord g. unfold plan_O, plan_of. rewrite lift_raw_plan. reflexivity. Qed.

Theorem lift_prepare : forall ord g, prepare_O ord (lift g) = prepare_A ord g.
Proof. intros ord g. unfold prepare_O, prepare_A. rewrite lift_plan, base_lift. reflexivity. Qed.

Section PlanO.
  Variables (ord : oparam) (g : ograph).
  Hypothesis Hord : ord_ok ord.
  Hypothesis Hok : graph_ok (base g).
  Hypothesis Hstrict : strict (base g).

  Local Notation G := (base g).
  Local Notation Q := (queue_of (base g)).
  Local Notation cl := (p2c_of (base g)).
  Local Notation PQ := (planned_queue (base g) (queue_of (base g))).
  Local Notation SQ := (split_queue ord g).
  Local Notation itm := (oitem g).

  Lemma oitem_id : forall u, it_id (itm u) = u.
  Proof. reflexivity. Qed.

  (* ---------- the split queue ---------- *)
  Lemma in_SQ : forall e', In e' SQ <-> exists e, In e PQ /\ fst e' = fst e /\ In (snd e') (splits_of ord itm (snd e)).
  Proof.
    intros e'. unfold split_queue. rewrite in_flat_map. split.
    - intros [e [He H]]. apply in_map_iff in H. destruct H as [sp [E Hsp]]. subst e'. exists e. cbn. repeat split; assumption.
    - intros [e [He [E Hsp]]]. exists e. split; [exact He|]. apply in_map_iff. exists (snd e'). split; [|exact Hsp].
      rewrite <- E. destruct e'; reflexivity.
  Qed.

  Lemma sq_entry : forall e', In e' SQ ->
    snd e' <> [] /\ incl (snd e') (ids G) /\ NoDup (snd e') /\ (forall u, In u (snd e') -> grp_of G u = fst e').
  Proof.
    intros e' H. apply in_SQ in H. destruct H as [e [He [E Hsp]]]. destruct (pq_entry G Hok e He) as (Em & _ & Hsub & Hnd).
    split; [exact (splits_nonempty ord itm (snd e) (snd e') Hsp)|]. split; [|split].
    - intros u Hu. apply Hsub. exact (splits_incl ord itm Hord oitem_id (snd e) (snd e') u Hsp Hu).
    - exact (split_nodup ord itm Hord oitem_id (snd e) (snd e') Hnd Hsp).
    - intros u Hu. pose proof (splits_incl ord itm Hord oitem_id (snd e) (snd e') u Hsp Hu) as H. rewrite Em in H.
      apply members_spec in H. rewrite E. apply H.
  Qed.

  Lemma sq_of_feature : forall u, In u (ids G) -> exists e', In e' SQ /\ fst e' = grp_of G u /\ In u (snd e').
  Proof.
    intros u Hu. destruct (pq_of_feature G Hok u Hu) as [e [He [Ek Hin]]].
    destruct (split_of_feature ord itm Hord oitem_id (snd e) u Hin) as [sp [Hsp Husp]].
    exists (fst e, sp). split; [|split; [exact Ek | exact Husp]]. apply in_SQ. exists e. cbn. repeat split; assumption.
  Qed.

  Lemma sq_features_perm : Permutation (flat_map snd SQ) (flat_map snd PQ).
  Proof.
    unfold split_queue. rewrite flat_map_flat_map. apply flat_map_perm_pointwise. intros e He.
    rewrite flat_map_map. cbn [snd]. rewrite <- (concat_as_flat_map (splits_of ord itm (snd e))).
    exact (splits_perm ord itm Hord oitem_id (snd e)).
  Qed.

  Lemma sq_features_nodup : NoDup (flat_map snd SQ).
  Proof. exact (Permutation_NoDup (Permutation_sym sq_features_perm) (pq_features_nodup G Hok)). Qed.

  Lemma sq_features_ids : forall u, In u (flat_map snd SQ) <-> In u (ids G).
  Proof.
    intros u. rewrite <- (pq_features_ids G Hok u). split; intros H.
    - exact (Permutation_in _ sq_features_perm H).
    - exact (Permutation_in _ (Permutation_sym sq_features_perm) H).
  Qed.

  (* an entry is determined by one of its features *)
  Lemma sq_entry_unique : forall e1 e2 u, In e1 SQ -> In e2 SQ -> In u (snd e1) -> In u (snd e2) -> e1 = e2.
  Proof.
    intros e1 e2 u H1 H2 U1 U2. pose proof sq_features_nodup as Hnd. revert H1 H2 Hnd. generalize SQ. intros L.
    induction L as [|x L IH]; intros H1 H2 Hnd; [destruct H1|]. cbn [flat_map] in Hnd.
    assert (Hdisj : forall y, In y L -> In u (snd x) -> In u (snd y) -> False).
    { intros y Hy Ux Uy. revert Hnd. generalize (snd x) Ux. intros a Ua Hnd.
      induction a as [|z a IHa]; [destruct Ua|]. cbn in Hnd. apply NoDup_cons_iff in Hnd. destruct Hnd as [Hz Hnd].
      destruct Ua as [E|Ua]; [|exact (IHa Ua Hnd)]. subst z. apply Hz. apply in_or_app. right. apply in_flat_map. exists y. split; assumption. }
    destruct H1 as [E1|H1], H2 as [E2|H2].
    - congruence.
    - subst x. exfalso. exact (Hdisj e2 H2 U1 U2).
    - subst x. exfalso. exact (Hdisj e1 H1 U2 U1).
    - apply IH; [exact H1 | exact H2|]. destruct (NoDup_app_both _ _ Hnd) as [_ H]. exact H.
  Qed.

  Lemma raw_plan_O_eq : raw_plan_O ord g = flat_map (fun e' => map (mk_step ord G cl) (slevels ord g (snd e'))) SQ.
  Proof.
    unfold raw_plan_O, split_queue. rewrite flat_map_flat_map. apply flat_map_ext. intros e.
    unfold steps_of_group_O, levels_of_group_O. rewrite !flat_map_map. reflexivity.
  Qed.

  Lemma slevels_spec : forall e', In e' SQ ->
    snd (split_levels (fun u => aget0 u cl) (ord 1 (snd e'))) = false /\
    Permutation (concat (slevels ord g (snd e'))) (snd e') /\
    (forall l, In l (slevels ord g (snd e')) -> l <> []) /\
    lv_ok (intra_of (fun u => aget0 u cl) (ord 1 (snd e'))) [] (slevels ord g (snd e')).
  Proof.
    intros e' He. destruct (sq_entry e' He) as (Hne & _). destruct (closure_rank G Hok) as [rk Hrk].
    assert (HF : Permutation (ord 1 (snd e')) (snd e')) by apply Hord.
    destruct (split_levels_spec (fun u => aget0 u cl) (ord 1 (snd e')) rk (perm_nonempty _ _ HF Hne)
                (fun u a _ Ha => Hrk u a Ha)) as (S1 & S2 & S3 & S4).
    unfold slevels. split; [exact S1|]. split; [exact (Permutation_trans S2 HF)|]. split; assumption.
  Qed.

  Lemma in_raw_O : forall s0, In s0 (raw_plan_O ord g) <->
    exists e' lvl, In e' SQ /\ In lvl (slevels ord g (snd e')) /\ s0 = mk_step ord G cl lvl.
  Proof.
    intros s0. rewrite raw_plan_O_eq, in_flat_map. split.
    - intros [e [He H]]. apply in_map_iff in H. destruct H as [lvl [E Hl]]. exists e, lvl. repeat split; [exact He | exact Hl | symmetry; exact E].
    - intros [e [lvl [He [Hl E]]]]. exists e. split; [exact He|]. apply in_map_iff. exists lvl. split; [symmetry; exact E | exact Hl].
  Qed.

  Lemma level_in_split : forall e' lvl u, In e' SQ -> In lvl (slevels ord g (snd e')) -> In u lvl -> In u (snd e').
  Proof.
    intros e' lvl u He Hl Hu. destruct (slevels_spec e' He) as (_ & S2 & _). apply (Permutation_in _ S2).
    apply in_concat. exists lvl. split; assumption.
  Qed.

  (* ---------- the produced sets partition the features ---------- *)
  Lemma uuids_raw_perm_O : Permutation (flat_map uuids (raw_plan_O ord g)) (flat_map snd SQ).
  Proof.
    rewrite raw_plan_O_eq, flat_map_flat_map. apply flat_map_perm_pointwise. intros e He.
    rewrite flat_map_map. cbn [uuids mk_step]. destruct (slevels_spec e He) as (_ & S2 & _).
    apply (Permutation_trans (l' := concat (slevels ord g (snd e)))); [|exact S2].
    rewrite (concat_as_flat_map (slevels ord g (snd e))).
    apply flat_map_perm_pointwise. intros l _. cbn. apply Hord.
  Qed.

  Theorem plan_uuids_O : Permutation (all_uuids (plan_O ord g)) (ids G).
  Proof.
    unfold plan_O. rewrite all_uuids_number. apply (Permutation_trans uuids_raw_perm_O).
    apply NoDup_Permutation; [exact sq_features_nodup | apply Hok | exact sq_features_ids].
  Qed.

  (* ---------- shape of the steps ---------- *)
  Lemma in_plan_O : forall s, In s (plan_O ord g) ->
    exists j e' lvl, nth_error (raw_plan_O ord g) j = Some (mk_step ord G cl lvl) /\ s = set_sid j (mk_step ord G cl lvl) /\
                     In e' SQ /\ In lvl (slevels ord g (snd e')).
  Proof.
    intros s Hs. unfold plan_O in Hs. destruct (In_number _ _ _ Hs) as [j [s0 [Hj Es]]]. cbn in Es.
    destruct (proj1 (in_raw_O s0) (nth_error_In _ _ Hj)) as [e [lvl [He [Hl E0]]]]. subst s0.
    exists j, e, lvl. repeat split; assumption.
  Qed.

  Lemma plan_O_of_level : forall e' lvl, In e' SQ -> In lvl (slevels ord g (snd e')) ->
    exists j, In (set_sid j (mk_step ord G cl lvl)) (plan_O ord g).
  Proof.
    intros e' lvl He Hl. assert (H : In (mk_step ord G cl lvl) (raw_plan_O ord g)) by (apply in_raw_O; exists e', lvl; repeat split; assumption).
    apply In_nth_error in H. destruct H as [j Hj]. exists j. unfold plan_O. exact (number_In _ 0 j _ Hj).
  Qed.

  Theorem plan_facts_O :
    NoDup (map sid (plan_O ord g)) /\
    (forall s, In s (plan_O ord g) -> uuids s <> [] /\ skind s = KFG) /\
    NoDup (all_uuids (plan_O ord g)) /\
    (forall u, In u (all_uuids (plan_O ord g)) <-> In u (ids G)) /\
    (forall s a, In s (plan_O ord g) -> In a (req s) -> In a (all_uuids (plan_O ord g))) /\
    (forall s a, In s (plan_O ord g) -> (In a (req s) <-> exists u, In u (uuids s) /\ anc G a u)).
  Proof.
    pose proof plan_uuids_O as HP. split; [|split; [|split; [|split; [|split]]]].
    - unfold plan_O. rewrite map_sid_number. apply seq_NoDup.
    - intros s Hs. destruct (in_plan_O s Hs) as (j & e & lvl & _ & Es & He & Hl). subst s. split; [|reflexivity].
      rewrite uuids_set_sid. cbn [uuids mk_step]. destruct (slevels_spec e He) as (_ & _ & S3 & _).
      exact (perm_nonempty _ _ (Hord 2 lvl) (S3 lvl Hl)).
    - apply (Permutation_NoDup (Permutation_sym HP)). apply Hok.
    - intros u. split; intros H; [exact (Permutation_in _ HP H) | exact (Permutation_in _ (Permutation_sym HP) H)].
    - intros s a Hs Ha. destruct (in_plan_O s Hs) as (j & e & lvl & _ & Es & He & Hl). subst s. rewrite req_set_sid in Ha.
      apply (in_req_step ord G Hord Hok) in Ha. destruct Ha as [u [_ Hanc]]. apply (Permutation_in _ (Permutation_sym HP)).
      destruct Hok as (_ & Hcl & _). apply (anc_ids G Hcl a u Hanc).
    - intros s a Hs. destruct (in_plan_O s Hs) as (j & e & lvl & _ & Es & He & Hl). subst s.
      rewrite req_set_sid, uuids_set_sid, (in_req_step ord G Hord Hok).
      split; intros [u [Hu Ha]]; exists u; (split; [apply (in_uuids_step ord G Hord); exact Hu | exact Ha]).
  Qed.

  (* two features of one step: one feature group, one split of it *)
  Theorem step_same_split : forall s u v, In s (plan_O ord g) -> In u (uuids s) -> In v (uuids s) ->
    exists e', In e' SQ /\ In u (snd e') /\ In v (snd e') /\ grp_of G u = fst e' /\ grp_of G v = fst e'.
  Proof.
    intros s u v Hs Hu Hv. destruct (in_plan_O s Hs) as (j & e & lvl & _ & Es & He & Hl). subst s.
    rewrite uuids_set_sid in Hu, Hv. apply (proj1 (in_uuids_step ord G Hord lvl u)) in Hu. apply (proj1 (in_uuids_step ord G Hord lvl v)) in Hv.
    pose proof (level_in_split e lvl u He Hl Hu) as U. pose proof (level_in_split e lvl v He Hl Hv) as V.
    destruct (sq_entry e He) as (_ & _ & _ & Hg). exists e. repeat split; [exact He | exact U | exact V | apply Hg; exact U | apply Hg; exact V].
  Qed.

  (* ---------- levels ---------- *)
  Lemma raw_block_O : forall e', In e' SQ -> exists A B, raw_plan_O ord g = A ++ map (mk_step ord G cl) (slevels ord g (snd e')) ++ B.
  Proof.
    intros e He. rewrite raw_plan_O_eq. destruct (in_split e SQ He) as [P1 [P2 E]]. rewrite E.
    rewrite flat_map_app. cbn [flat_map]. eexists. eexists. reflexivity.
  Qed.

  Lemma plan_nth_level_O : forall (sp : list nat) A B i lvl, raw_plan_O ord g = A ++ map (mk_step ord G cl) (slevels ord g sp) ++ B ->
    nth_error (slevels ord g sp) i = Some lvl ->
    nth_error (plan_O ord g) (List.length A + i) = Some (set_sid (List.length A + i) (mk_step ord G cl lvl)).
  Proof.
    intros sp A B i lvl E Hn. unfold plan_O. rewrite number_nth, E. cbn [Nat.add].
    rewrite nth_error_app2 by lia. replace (List.length A + i - List.length A) with i by lia.
    rewrite nth_error_app1.
    - rewrite nth_error_map, Hn. reflexivity.
    - rewrite map_length. apply nth_error_Some. rewrite Hn. discriminate.
  Qed.

  Lemma same_split_levels : forall e' a f, In e' SQ -> In a (snd e') -> In f (snd e') -> anc G a f ->
    In a (concat (slevels ord g (snd e'))) /\ In f (concat (slevels ord g (snd e'))) /\
    lidx (slevels ord g (snd e')) a < lidx (slevels ord g (snd e')) f.
  Proof.
    intros e a f He Hae Hfe Hanc. destruct (slevels_spec e He) as (_ & S2 & _ & S4).
    assert (Hfc : In f (concat (slevels ord g (snd e)))) by (apply (Permutation_in _ (Permutation_sym S2)); exact Hfe).
    assert (Hac : In a (concat (slevels ord g (snd e)))) by (apply (Permutation_in _ (Permutation_sym S2)); exact Hae).
    assert (Hin : In a (intra_of (fun u => aget0 u cl) (ord 1 (snd e)) f)).
    { unfold intra_of. apply filter_In. split; [apply (closure_correct G Hok); exact Hanc|]. apply mem_In.
      apply (Permutation_in _ (Permutation_sym (Hord 1 _))). exact Hae. }
    destruct (lv_ok_lidx _ _ _ S4 f a Hfc Hin) as [[]|[_ Hlt]]. repeat split; assumption.
  Qed.

  Lemma sq_concat_nodup : forall e', In e' SQ -> NoDup (concat (slevels ord g (snd e'))).
  Proof.
    intros e He. destruct (slevels_spec e He) as (_ & S2 & _). destruct (sq_entry e He) as (_ & _ & Hnd & _).
    exact (Permutation_NoDup (Permutation_sym S2) Hnd).
  Qed.

  (* inside one split: an ancestor is computed by a DIFFERENT, EARLIER step that the descendant's step requires *)
  Theorem levels_sound_O : forall e' a f, In e' SQ -> In a (snd e') -> In f (snd e') -> anc G a f ->
    exists i j sa sf, i < j /\ nth_error (plan_O ord g) i = Some sa /\ nth_error (plan_O ord g) j = Some sf /\
                      In a (uuids sa) /\ In f (uuids sf) /\ In a (req sf) /\ ~ In f (uuids sa).
  Proof.
    intros e a f He Ha Hf Hanc. destruct (same_split_levels e a f He Ha Hf Hanc) as (Hac & Hfc & Hlt).
    destruct (raw_block_O e He) as [A [B E]].
    destruct (lidx_nth_inv _ a Hac) as [la [Hna Hla]]. destruct (lidx_nth_inv _ f Hfc) as [lf [Hnf Hlf]].
    exists (List.length A + lidx (slevels ord g (snd e)) a), (List.length A + lidx (slevels ord g (snd e)) f).
    eexists. eexists. split; [lia|]. split; [exact (plan_nth_level_O (snd e) A B _ la E Hna)|]. split; [exact (plan_nth_level_O (snd e) A B _ lf E Hnf)|].
    rewrite !uuids_set_sid, req_set_sid. split; [apply (in_uuids_step ord G Hord); exact Hla|]. split; [apply (in_uuids_step ord G Hord); exact Hlf|].
    split; [apply (in_req_step ord G Hord Hok); exists f; split; assumption|].
    intros Hfa. apply (proj1 (in_uuids_step ord G Hord la f)) in Hfa.
    pose proof (lidx_nth _ _ _ f (sq_concat_nodup e He) Hna Hfa) as E1. lia.
  Qed.

  Theorem fallback_unreachable_O : fallback_used_O ord g = false.
  Proof.
    unfold fallback_used_O. destruct (existsb _ PQ) eqn:E; [|reflexivity]. exfalso.
    apply existsb_exists in E. destruct E as [e [He E]]. apply existsb_exists in E. destruct E as [lv [Hlv Hfb]].
    unfold levels_of_group_O in Hlv. apply in_map_iff in Hlv. destruct Hlv as [sp [E Hsp]]. subst lv.
    assert (Hsq : In (fst e, sp) SQ) by (apply in_SQ; exists e; cbn; repeat split; assumption).
    destruct (slevels_spec (fst e, sp) Hsq) as (S1 & _). cbn [snd] in S1. rewrite S1 in Hfb. discriminate.
  Qed.

  Theorem plan_struct_O : wf_struct (plan_O ord g) = true.
  Proof.
    destruct plan_facts_O as (F1 & F2 & F3 & _ & F5 & _). unfold wf_struct. repeat (apply andb_true_iff; split).
    - apply forallb_forall. intros s Hs. destruct (F2 s Hs) as [Hne _]. destruct (uuids s); [congruence | reflexivity].
    - apply NoDup_nodupb. exact F1.
    - apply NoDup_nodupb. exact F3.
    - apply forallb_forall. intros s Hs. apply forallb_forall. intros u Hu. apply mem_In. exact (F5 s u Hs Hu).
  Qed.

  Theorem plan_no_self_req_O : no_self_req (plan_O ord g) = true.
  Proof.
    unfold no_self_req. apply forallb_forall. intros s Hs. apply disjoint_spec. intros a Ha Hau.
    destruct (in_plan_O s Hs) as (j & e & lvl & _ & Es & He & Hl). subst s. rewrite req_set_sid in Ha. rewrite uuids_set_sid in Hau.
    apply (in_req_step ord G Hord Hok) in Ha. destruct Ha as [u [Hu Hanc]]. apply (proj1 (in_uuids_step ord G Hord lvl a)) in Hau.
    pose proof (level_in_split e lvl a He Hl Hau) as Hae. pose proof (level_in_split e lvl u He Hl Hu) as Hue.
    destruct (same_split_levels e a u He Hae Hue Hanc) as (_ & _ & Hlt).
    destruct (In_nth_error _ _ Hl) as [k Hk].
    rewrite (lidx_nth _ k lvl a (sq_concat_nodup e He) Hk Hau), (lidx_nth _ k lvl u (sq_concat_nodup e He) Hk Hu) in Hlt. lia.
  Qed.

  Theorem prepare_outcome_O :
    prepare_O ord g = if runsim_accepts (plan_O ord g) then Planned (plan_O ord g) else RejectedCycle.
  Proof.
    destruct (plan_facts_O) as (_ & _ & _ & F4 & F5 & F6). unfold prepare_O.
    assert (Htfs : existsb (tfs_needed G cl) (plan_O ord g) = false).
    { destruct (existsb (tfs_needed G cl) (plan_O ord g)) eqn:E; [|reflexivity]. exfalso.
      apply existsb_exists in E. destruct E as [s [Hs Ht]]. unfold tfs_needed in Ht.
      destruct (uuids s) as [|a t] eqn:Eu; [discriminate|].
      apply existsb_exists in Ht. destruct Ht as [p [Hp Hc]]. apply andb_true_iff in Hc. destruct Hc as [_ Hc].
      apply negb_true_iff in Hc. apply Nat.eqb_neq in Hc. apply Hc.
      assert (Ha : In a (ids G)).
      { apply F4. unfold all_uuids. apply in_flat_map. exists s. split; [exact Hs | rewrite Eu; left; reflexivity]. }
      apply (cfw_same G Hok Hstrict); [exact Ha|]. destruct Hok as (_ & Hcl & _).
      apply (anc_ids G Hcl p a). apply (closure_correct G Hok). exact Hp. }
    rewrite Htfs.
    assert (Hv : validate_A (plan_O ord g) = true).
    { unfold validate_A. apply forallb_forall. intros s Hs. apply subset_incl. intros a Ha. exact (F5 s a Hs Ha). }
    rewrite Hv. reflexivity.
  Qed.

  Theorem prepare_accepts_iff_O :
    prepare_O ord g = Planned (plan_O ord g) <-> exists order, wf_plan order (plan_O ord g) = true.
  Proof.
    rewrite prepare_outcome_O, <- (runsim_accepts_iff _ plan_struct_O).
    destruct (runsim_accepts (plan_O ord g)); split; intros H; try reflexivity; discriminate.
  Qed.

  Theorem prepare_planned_inv_O : forall p, prepare_O ord g = Planned p ->
    p = plan_O ord g /\ wf_plan (sim_order p) p = true.
  Proof.
    intros p H. rewrite prepare_outcome_O in H. destruct (runsim_accepts (plan_O ord g)) eqn:E; [|discriminate].
    injection H as H. subst p. split; [reflexivity|]. exact (sim_sound _ E plan_struct_O).
  Qed.

  Theorem prepare_total_O : prepare_O ord g = Planned (plan_O ord g) \/ prepare_O ord g = RejectedCycle.
  Proof. rewrite prepare_outcome_O. destruct (runsim_accepts (plan_O ord g)); [left | right]; reflexivity. Qed.

  Lemma plan_O_nonempty : g <> [] -> plan_O ord g <> [].
  Proof.
    intros Hg E. pose proof plan_uuids_O as HP. rewrite E in HP. cbn in HP. apply Permutation_nil in HP.
    destruct g as [|n t]; [congruence|]. discriminate.
  Qed.
End PlanO.

Theorem plan_wf_O : forall ord g p, ord_ok ord -> graph_ok (base g) -> strict (base g) -> prepare_O ord g = Planned p ->
  exists order, wf_plan order p = true.
Proof.
  intros ord g p Hord Hok Hstrict H. exists (sim_order p). exact (proj2 (prepare_planned_inv_O ord g Hord Hok Hstrict p H)).
Qed.

Theorem plan_req_covers_O : forall ord g, ord_ok ord -> graph_ok (base g) ->
  req_covers (plan_O ord g) (adj_of (base g)) = true.
Proof.
  intros ord g Hord Hok. destruct (plan_facts_O ord g Hord Hok) as (_ & F2 & _ & _ & _ & F6).
  unfold req_covers. apply forallb_forall. intros s Hs. rewrite (proj2 (F2 s Hs)).
  apply forallb_forall. intros u Hu. apply subset_incl. intros x Hx. apply (F6 s x Hs). exists u. split; [exact Hu|].
  apply (ancestors_sound (base g) u _ [u] [] (fun y Hy => match Hy with or_introl E => or_introl (eq_sym E) | or_intror F => match F with end end)
           (fun y Hy => match Hy with end) x Hx).
Qed.

(* every feature is computed after all of its ancestors, whatever back end / failure oracle / event trace *)
Theorem features_after_ancestors_O : forall ord g, ord_ok ord -> graph_ok (base g) ->
  forall stream inline fails es i fs ds,
  In (i, (fs, ds)) (started (run stream inline fails (plan_O ord g) es)) ->
  exists s, In s (plan_O ord g) /\ sid s = i /\
    forall f a, In f (uuids s) -> anc (base g) a f ->
      In a fs /\ exists s', In s' (plan_O ord g) /\ In a (uuids s') /\ In (sid s') ds.
Proof.
  intros ord g Hord Hok stream inline fails es i fs ds Hin.
  pose proof (start_requires_l stream inline fails (plan_O ord g) es _ Hin) as Hst. cbn in Hst.
  destruct Hst as [s [Hsp [Ei [Hreq Hprod]]]]. exists s. split; [exact Hsp|]. split; [exact Ei|].
  intros f a Hf Hanc. destruct (plan_facts_O ord g Hord Hok) as (_ & _ & _ & _ & _ & F6).
  assert (Ha : In a fs) by (apply Hreq; apply (F6 s a Hsp); exists f; split; assumption).
  split; [exact Ha | exact (Hprod a Ha)].
Qed.

Theorem graph_terminates_O : forall ord g p, ord_ok ord -> graph_ok (base g) -> strict (base g) -> g <> [] ->
  prepare_O ord g = Planned p ->
  forall stream, exists n, n <= 2 * List.length p + 1 /\
    loop_head p (run stream true (fun _ => false) p (repeat EScan n)) = ExitNormal.
Proof.
  intros ord g p Hord Hok Hs Hne Hacc stream. destruct (prepare_planned_inv_O ord g Hord Hok Hs p Hacc) as [E Hwf].
  apply (terminates_sync (sim_order p) stream p); [|exact Hwf]. rewrite E. exact (plan_O_nonempty ord g Hord Hok Hs Hne).
Qed.
