(* A consumer that ADMITS SEVERAL compute frameworks (Model/PlannerLM.v): two roots on two frameworks, one non-RIGHT Link whose
   consumer admits (at least) the LEFT source's framework - resolve_trekked_links keeps the left framework, nothing is inverted,
   the plan is PlannerL's two-root plan of a consumer pinned to the left framework. *)
From Coq Require Import List Bool Arith Lia Permutation String.
Import ListNotations.
Require Import MV.Model.Orch MV.Model.OrchCheck MV.Model.Grouping MV.Model.PlannerA MV.Model.LinkSel MV.Model.PlannerL MV.Model.PlannerLM.
Require Import MV.Spec.PlannerASpec MV.Spec.PlannerLSpec.
Require Import MV.Proofs.PlannerASets MV.Proofs.PlannerAOrder MV.Proofs.PlannerAGraph MV.Proofs.LinkSelP.
Require Import MV.Proofs.OrchP MV.Proofs.PlanSimP MV.Proofs.PlannerAP.
Require Import MV.Proofs.PlannerLBase MV.Proofs.PlannerLStar MV.Proofs.PlannerLStages MV.Proofs.PlannerLStarData MV.Proofs.PlannerLStarPlan.
Require Import MV.Proofs.PlannerLTwo MV.Proofs.PlannerLCor MV.Proofs.PlannerLWitness.
Require MV.Spec.Rel.
Open Scope nat_scope.
Open Scope list_scope.

(* conservative: the rule of the code and no multi-framework feature = PlannerL, definitionally *)
Lemma rcf_linksM_conservative : forall ord g links pq t, rcf_linksM ord g links rtl_code [] pq t = rcf_links ord g links pq t.
Proof. reflexivity. Qed.
Lemma prepare_LM_conservative : forall ord g mro links, prepare_LM ord g mro links rtl_code [] = prepare_L ord g mro links.
Proof. reflexivity. Qed.

(* the pipelines differ only in ResolveComputeFrameworks.links *)
Lemma prepare_LM_eq : forall ord g mro links rtl cm0,
  (forall t0, get_ordered_data {| t_data := trek_data ord g mro links; t_dor := []; t_order := [] |} = Ok t0 ->
     rcf_linksM ord g links rtl cm0 (planned_queue_L g (queue_of g) (link_queue (queue_of g) (t_dor t0))) t0 =
     rcf_links ord g links (planned_queue_L g (queue_of g) (link_queue (queue_of g) (t_dor t0))) t0) ->
  prepare_LM ord g mro links rtl cm0 = prepare_L ord g mro links.
Proof.
  intros ord g mro links rtl cm0 H. unfold prepare_LM, prepare_L, stages_LM, stages_L.
  destruct (validate_rejects (map pl_l links)); [reflexivity|].
  destruct (negb (no_self_link links)); [reflexivity|].
  destruct (conflicting_data links (trek_data ord g mro links)); [reflexivity|].
  destruct (get_ordered_data {| t_data := trek_data ord g mro links; t_dor := []; t_order := [] |}) as [t0|e] eqn:E; [|reflexivity].
  rewrite (H t0 eq_refl). reflexivity.
Qed.

Section TwoBoth.
  Variables (ord : oparam) (mro : cls -> list cls) (l : plink).
  Variables (ra rb : sroot) (rs : list sroot) (f C : nat) (ps : list nat) (cfws : list nat).
  Hypothesis Hord : ord_ok ord.
  Hypothesis Hrs : Permutation [ra; rb] rs.
  Hypothesis Hok : star_ok rs f C ps.
  Hypothesis Hlinks : links_ok [l] (f :: map sr_id rs).
  Hypothesis Hflat : flat_roots mro rs.
  Hypothesis HL : lfg (pl_l l) = sr_grp ra.
  Hypothesis HR : rfg (pl_l l) = sr_grp rb.
  Hypothesis Hcross : sr_cfw ra <> sr_cfw rb.
  Hypothesis Hjt : jt (pl_l l) <> RIGHT.
  Hypothesis Hadm : In (sr_cfw ra) cfws.          (* the consumer admits the LEFT source's framework (and whatever else) *)
  Let ca := sr_cfw ra.
  Let cb := sr_cfw rb.
  Let g := star_g rs f C ca ps.
  Let Hcc : ca = sr_cfw ra \/ ca = sr_cfw rb := or_introl eq_refl.

  Lemma mem_ca : mem ca cfws = true.
  Proof. unfold mem. apply existsb_exists. exists ca. split; [exact Hadm | apply Nat.eqb_refl]. Qed.

  Lemma rcf2M : rcf_linksM ord g [l] rtl_code [(f, cfws)] (PQ2 l ra rb rs f C ca ps) (t2 l ra rb f) =
                rcf_links ord g [l] (PQ2 l ra rb rs f C ca ps) (t2 l ra rb f).
  Proof.
    unfold g. rewrite (rcf2 ord l ra rb rs f C ca ps Hord Hok Hcross Hcc).
    unfold rcf_linksM, PQ2. rewrite !fold_left_app.
    assert (H1 : forall lst, (forall p, In p lst -> Nat.eqb p f = false) ->
              fold_left (rcf_groupM ord (star_g rs f C ca ps) [l] rtl_code) (map (pg_root rs f C ca ps) lst) (Ok (t2 l ra rb f, [(f, cfws)]))
              = Ok (t2 l ra rb f, [(f, cfws)])).
    { intros lst. induction lst as [|p lst IH]; intros Hl; [reflexivity|]. cbn [map fold_left].
      assert (E : rcf_groupM ord (star_g rs f C ca ps) [l] rtl_code (Ok (t2 l ra rb f, [(f, cfws)])) (pg_root rs f C ca ps p)
                  = Ok (t2 l ra rb f, [(f, cfws)])).
      { unfold pg_root, rcf_groupM. rewrite (ord_single ord _ _ Hord). rewrite trekked2_root by (apply Hl; left; reflexivity). reflexivity. }
      rewrite E. apply IH. intros q Hq. apply Hl. right. exact Hq. }
    rewrite H1.
    2:{ intros p Hp. apply Nat.eqb_neq. intros E. subst p. exact (f_notin_ps rs f C ps Hok Hp). }
    cbn [fold_left rcf_groupM]. rewrite (ord_single ord _ _ Hord).
    assert (Et : trekked_of (t2 l ra rb f) f = [(pl_uid l, (ca, cb))]).
    { unfold trekked_of, t2, d2. cbn [t_dor tsingle map filter snd mem existsb fst]. rewrite Nat.eqb_refl. reflexivity. }
    rewrite Et. cbn [fold_left].
    assert (Ecf : cfws_of (star_g rs f C ca ps) [(f, cfws)] f = cfws) by (unfold cfws_of; cbn [aget]; rewrite Nat.eqb_refl; reflexivity).
    rewrite Ecf. unfold rtl_code, rtl_step. unfold jt_of. cbn [k_uid fst]. rewrite plink_u.
    cbn [k_l k_r fst snd]. rewrite mem_ca.
    assert (Ho2 : order_links_by_frameworks (t_data (t2 l ra rb f)) (t_order (t2 l ra rb f)) = Some []).
    { unfold order_links_by_frameworks, t2, d2, tsingle. cbn [t_data t_order map].
      rewrite olbf_no_chain; [reflexivity | exact (no_chain_single _ _)]. }
    assert (Ecm : aset f [ca] [(f, cfws)] = [(f, [ca])]) by (cbn [aset]; rewrite Nat.eqb_refl; reflexivity).
    unfold t3, cm2, cn, inverted, is_right.
    destruct (jt (pl_l l)) eqn:Ej; try (exfalso; apply Hjt; reflexivity);
      cbn [jt_eqb fst snd set_add mem existsb app fold_left]; rewrite Ecm; rewrite Ho2; rewrite order_queue_nil_orders;
      fold ca cb; rewrite (proj2 (Nat.eqb_neq ca cb) Hcross); reflexivity.
  Qed.

  Theorem two_root_both_eq :
    prepare_LM ord g mro [l] rtl_code [(f, cfws)] = prepare_L ord g mro [l].
  Proof.
    apply prepare_LM_eq. intros t0.
    assert (Hne : [l] <> []) by discriminate.
    assert (Ht : trek_data ord g mro [l] = tsingle f (KS2 ord mro l rs f C ca ps)) by exact (L_trek ord mro [l] rs f C ca ps Hok Hlinks Hne).
    rewrite Ht, (KS2_eq ord mro l ra rb rs f C ca ps Hord Hrs Hok Hlinks Hflat HL HR).
    rewrite get_ordered_data_no_chain; [|repeat constructor; intros [] | exact (no_chain_single _ _)].
    intros E. injection E as <-. cbn [t_dor].
    assert (Hlq : link_queue (queue_of g) (tsingle f (KS2 ord mro l rs f C ca ps)) = map QF ps ++ map QL (KS2 ord mro l rs f C ca ps) ++ [QF f])
      by exact (L_lq ord mro [l] rs f C ca ps Hok).
    assert (Hpq : planned_queue_L g (queue_of g) (map QF ps ++ map QL (KS2 ord mro l rs f C ca ps) ++ [QF f])
                  = map (pg_root rs f C ca ps) ps ++ map PL (KS2 ord mro l rs f C ca ps) ++ [PG C [f]])
      by exact (L_pq ord mro [l] rs f C ca ps Hok).
    rewrite (KS2_eq ord mro l ra rb rs f C ca ps Hord Hrs Hok Hlinks Hflat HL HR) in Hlq, Hpq.
    unfold tsingle in Hlq. cbn [map] in Hlq, Hpq. rewrite Hlq, Hpq.
    exact rcf2M.
  Qed.

  (* the plan, written out: PlannerL's two-root plan with the consumer on the LEFT source's framework *)
  Theorem two_root_both_frameworks :
    prepare_LM ord g mro [l] rtl_code [(f, cfws)] =
      if is_set_jt (jt (pl_l l)) then LRejected e_appendunion []
      else LPlanned (number_L 0 (two_plan ord g l ra rb ps f C ca)).
  Proof.
    rewrite two_root_both_eq. exact (two_root_plan ord mro l ra rb rs f C ca ps Hord Hrs Hok Hlinks Hflat HL HR Hcross Hcc).
  Qed.

  (* ... in which the JoinStep's LEFT table is the Link's left source on its own framework and the consumer runs there *)
  Lemma two_plan_left_kept :
    two_plan ord g l ra rb ps f C ca =
      map (two_root_step g) ps ++
      [two_tfs_step l ps ca cb; two_join_step l ps ca cb [sr_id ra] [sr_id rb]] ++ [two_cons_step ord g l ps f C ca].
  Proof.
    unfold two_plan, two_left_cfw. destruct (jt (pl_l l)) eqn:Ej; try (exfalso; apply Hjt; reflexivity);
      cbn [jt_eqb]; fold ca; rewrite Nat.eqb_refl; reflexivity.
  Qed.
End TwoBoth.

(* ---------- "prefer the right framework" (the alternative rule rtl_prefer_right) flips the roles of a LEFT link ---------- *)
(* roots R0 (class 1, framework 1) and R1 (class 2, framework 2), Link LEFT(class 1, class 2) on k = k, consumer (uuid 7, class 4)
   admitting both frameworks *)
Lemma w_prefer_right_flips :
  left_of_join (prepare_LM ord_id (g2x 1) mro_flat [mkl 100 LEFT 1 2] rtl_code [(7, [1; 2])]) = [(LEFT, [0], [2])] /\
  cfw_of_class 4 (prepare_LM ord_id (g2x 1) mro_flat [mkl 100 LEFT 1 2] rtl_code [(7, [1; 2])]) = [1] /\
  roles_follow_links (g2x 1) [mkl 100 LEFT 1 2] (prepare_LM ord_id (g2x 1) mro_flat [mkl 100 LEFT 1 2] rtl_code [(7, [1; 2])]) = true /\
  left_of_join (prepare_LM ord_id (g2x 1) mro_flat [mkl 100 LEFT 1 2] rtl_prefer_right [(7, [1; 2])]) = [(LEFT, [2], [0])] /\
  cfw_of_class 4 (prepare_LM ord_id (g2x 1) mro_flat [mkl 100 LEFT 1 2] rtl_prefer_right [(7, [1; 2])]) = [2] /\
  roles_follow_links (g2x 1) [mkl 100 LEFT 1 2] (prepare_LM ord_id (g2x 1) mro_flat [mkl 100 LEFT 1 2] rtl_prefer_right [(7, [1; 2])]) = false /\
  MV.Spec.Rel.bag_eqb (MV.Spec.Rel.rel_join MV.Spec.Rel.JLeft ["k"%string] ["k"%string] Tb Ta)
                      (MV.Spec.Rel.rel_join MV.Spec.Rel.JLeft ["k"%string] ["k"%string] Ta Tb) = false.
Proof. repeat split; vm_compute; reflexivity. Qed.

(* a consumer pinned to ONE framework is planned identically by both rules on the witness (the alternative differs only when
   both frameworks are admitted) *)
Lemma w_prefer_right_same_when_pinned :
  prepare_LM ord_id (g2x 1) mro_flat [mkl 100 LEFT 1 2] rtl_prefer_right [] = prepare_L ord_id (g2x 1) mro_flat [mkl 100 LEFT 1 2] /\
  prepare_LM ord_id (g2x 2) mro_flat [mkl 100 LEFT 1 2] rtl_prefer_right [] = prepare_L ord_id (g2x 2) mro_flat [mkl 100 LEFT 1 2].
Proof. split; vm_compute; reflexivity. Qed.

Lemma ex_both_hyps :
  Permutation [ra2; rb2] [ra2; rb2] /\ star_ok [ra2; rb2] 7 4 [0; 2] /\ links_ok [mkl 100 LEFT 1 2] (7 :: map sr_id [ra2; rb2]) /\
  flat_roots mro_flat [ra2; rb2] /\ sr_cfw ra2 <> sr_cfw rb2 /\ jt (pl_l (mkl 100 LEFT 1 2)) <> RIGHT /\ In (sr_cfw ra2) [1; 2].
Proof.
  destruct ex_two_hyps as (H1 & H2 & H3 & H4 & H5). refine (conj H1 (conj H2 (conj H3 (conj H4 (conj H5 (conj _ _)))))); [discriminate | left; reflexivity].
Qed.
