(* Stage B1, part 2: the numbered plan is structurally well formed, its feature-group steps require the whole ancestor
   closure, the produced-check of the validation never fails, every accepted plan is well formed for the order in which
   the validation's run simulation starts the steps, and on a single-framework graph the model is prepare_A. *)
From Coq Require Import List Bool Arith Lia Permutation.
Import ListNotations.
Require Import MV.Model.Orch MV.Model.OrchCheck MV.Model.Grouping MV.Model.PlannerA MV.Spec.PlannerASpec.
Require Import MV.Model.PlannerB MV.Spec.PlannerBSpec.
Require Import MV.Proofs.OrchP MV.Proofs.OrchTermP MV.Proofs.PlannerASets MV.Proofs.PlannerAGraph MV.Proofs.PlannerAQueue.
Require Import MV.Proofs.PlannerALevels MV.Proofs.PlannerAOrder MV.Proofs.PlanSimP MV.Proofs.PlannerAP MV.Proofs.PlannerBErase.
Require Import MV.Proofs.PlannerBP.

(* ---------- numbering preserves everything but the ids ---------- *)
Lemma wf_struct_number : forall Q : plan,
  (forall s, In s Q -> uuids s <> []) -> NoDup (all_uuids Q) ->
  (forall s a, In s Q -> In a (req s) -> In a (all_uuids Q)) ->
  wf_struct (number 0 Q) = true /\ validate_A (number 0 Q) = true.
Proof.
  intros Q Hne Hnd Hprod.
  assert (Hall : all_uuids (number 0 Q) = all_uuids Q) by apply all_uuids_number.
  assert (Hin : forall s, In s (number 0 Q) -> exists s0, In s0 Q /\ uuids s = uuids s0 /\ req s = req s0).
  { intros s Hs. destruct (In_number _ _ _ Hs) as [j [s0 [Hj Es]]]. exists s0. split; [exact (nth_error_In _ _ Hj)|]. subst s. split; reflexivity. }
  split.
  - unfold wf_struct. repeat (apply andb_true_iff; split).
    + apply forallb_forall. intros s Hs. destruct (Hin s Hs) as [s0 [H0 [Eu _]]]. rewrite Eu.
      specialize (Hne s0 H0). destruct (uuids s0); [congruence | reflexivity].
    + apply NoDup_nodupb. rewrite map_sid_number. apply seq_NoDup.
    + apply NoDup_nodupb. rewrite Hall. exact Hnd.
    + apply forallb_forall. intros s Hs. apply forallb_forall. intros a Ha. unfold produced. rewrite Hall. apply mem_In.
      destruct (Hin s Hs) as [s0 [H0 [_ Er]]]. rewrite Er in Ha. exact (Hprod s0 a H0 Ha).
  - unfold validate_A. apply forallb_forall. intros s Hs. apply subset_incl. intros a Ha. rewrite Hall.
    destruct (Hin s Hs) as [s0 [H0 [_ Er]]]. rewrite Er in Ha. exact (Hprod s0 a H0 Ha).
Qed.

Lemma in_steps_of : forall (p : bplan) s, In s (steps_of p) <-> exists b, In b p /\ bs b = s.
Proof. intros p s. unfold steps_of. rewrite in_map_iff. split; intros [b [H1 H2]]; exists b; split; assumption. Qed.

Section Plan.
  Variables (ord : oparam) (g : fgraph).
  Hypothesis Hord : ord_ok ord.
  Hypothesis Hok : graph_ok g.
  Hypothesis Hgc : group_cfw g.

  Local Notation cl := (p2c_of g).
  Local Notation R := (raw_plan ord g).
  Local Notation P := (raw_plan_B ord g).

  Lemma steps_of_plan_B : steps_of (plan_B ord g) = number 0 (steps_of P).
  Proof. unfold plan_B. apply steps_of_bnumber. Qed.

  Theorem planB_struct : wf_struct (steps_of (plan_B ord g)) = true /\ validate_A (steps_of (plan_B ord g)) = true.
  Proof.
    rewrite steps_of_plan_B. destruct (planB_raw_facts ord g Hord Hok Hgc) as (B1 & B2 & B3 & _).
    apply wf_struct_number.
    - intros s Hs. apply in_steps_of in Hs. destruct Hs as [b [Hb E]]. subst s. exact (B1 b Hb).
    - exact B2.
    - intros s a Hs Ha. apply in_steps_of in Hs. destruct Hs as [b [Hb E]]. subst s. exact (B3 b a Hb Ha).
  Qed.

  (* members of the numbered plan *)
  Lemma in_plan_B : forall b, In b (plan_B ord g) -> exists j b0, nth_error P j = Some b0 /\ b = bset_sid j b0 /\ In b0 P.
  Proof.
    intros b Hb. unfold plan_B in Hb. destruct (In_bnumber _ _ _ Hb) as [j [b0 [Hj E]]]. exists j, b0.
    split; [exact Hj|]. split; [exact E | exact (nth_error_In _ _ Hj)].
  Qed.

  (* T3's req_covers is a theorem: a feature-group step requires every proper ancestor of its features *)
  Theorem planB_req_covers : req_covers (steps_of (plan_B ord g)) (adj_of g) = true.
  Proof.
    destruct (raw_facts ord g Hord Hok Hgc) as (_ & _ & _ & F4 & _).
    destruct (planB_raw_facts ord g Hord Hok Hgc) as (_ & _ & _ & B4 & _).
    unfold req_covers. apply forallb_forall. intros s Hs. apply in_steps_of in Hs. destruct Hs as [b [Hb E]]. subst s.
    destruct (in_plan_B b Hb) as (j & b0 & _ & Eb & Hb0). subst b. cbn [bs bset_sid]. unfold set_sid. cbn [skind uuids req].
    destruct (skind (bs b0)) eqn:Ek; try reflexivity.
    assert (Hfg : is_fg b0 = true) by (unfold is_fg; rewrite Ek; reflexivity).
    destruct (B4 b0 Hb0 Hfg) as (s & evs & Hs & Eu & _ & _ & _ & _ & _ & Er & _).
    apply forallb_forall. intros u Hu. apply subset_incl. intros x Hx. rewrite Er. apply in_or_app. left.
    apply (F4 s x Hs). exists u. split; [rewrite <- Eu; exact Hu|].
    apply (ancestors_sound g u _ [u] [] (fun y Hy => match Hy with or_introl E => or_introl (eq_sym E) | or_intror F => match F with end end)
             (fun y Hy => match Hy with end) x Hx).
  Qed.

  (* the produced-check passes: the outcome is decided by the run simulation alone *)
  Theorem prepare_B_outcome :
    prepare_B ord g = if runsim_accepts (steps_of (plan_B ord g)) then PlannedB (plan_B ord g) else RejectedCycleB.
  Proof. unfold prepare_B. rewrite (proj2 planB_struct). reflexivity. Qed.

  Theorem prepare_B_planned_inv : forall p, prepare_B ord g = PlannedB p ->
    p = plan_B ord g /\ wf_plan (sim_order (steps_of p)) (steps_of p) = true.
  Proof.
    intros p H. rewrite prepare_B_outcome in H. destruct (runsim_accepts (steps_of (plan_B ord g))) eqn:E; [|discriminate].
    injection H as H. subst p. split; [reflexivity|]. exact (sim_sound _ E (proj1 planB_struct)).
  Qed.

  Theorem prepare_B_accepts_iff :
    prepare_B ord g = PlannedB (plan_B ord g) <-> exists order, wf_plan order (steps_of (plan_B ord g)) = true.
  Proof.
    rewrite prepare_B_outcome, <- (runsim_accepts_iff _ (proj1 planB_struct)).
    destruct (runsim_accepts (steps_of (plan_B ord g))); split; intros H; try reflexivity; discriminate.
  Qed.

  (* ---------- a step without demands is left alone ---------- *)
  Lemma evs_of_no_demands : forall raw st, (forall s, In s raw -> dem ord g s = []) ->
    evs_of ord g st raw = map (fun s => (s, [])) raw.
  Proof.
    intros raw. induction raw as [|s t IH]; intros st H; [reflexivity|]. cbn [evs_of map].
    rewrite (H s (or_introl eq_refl)). destruct st as [[keys nc] nd]. cbn [tfs_loop fst snd]. f_equal.
    apply IH. intros x Hx. apply H. right. exact Hx.
  Qed.
End Plan.

(* ---------- conservative extension of Stage A ---------- *)
Section Strict.
  Variables (ord : oparam) (g : fgraph).
  Hypothesis Hord : ord_ok ord.
  Hypothesis Hok : graph_ok g.
  Hypothesis Hstrict : strict g.

  Let Hgc : group_cfw g := strict_group_cfw g Hstrict.

  Lemma strict_no_demands : forall s, In s (raw_plan ord g) -> dem ord g s = [].
  Proof.
    intros s Hs. destruct (dem ord g s) as [|p t] eqn:E; [reflexivity|]. exfalso.
    assert (Hp : In p (dem ord g s)) by (rewrite E; left; reflexivity).
    apply (dem_spec ord g Hord Hok) in Hp. destruct Hp as (Hanc & _ & Hc). apply Hc.
    destruct (anc_in_ids g Hok _ _ Hanc) as [H1 H2]. apply (cfw_same g Hok Hstrict); assumption.
  Qed.

  Lemma strict_raw_plan_B : raw_plan_B ord g = map (fun s => mk_fg g (p2c_of g) s []) (raw_plan ord g).
  Proof.
    rewrite (raw_plan_B_blocks ord g). unfold E0. rewrite (evs_of_no_demands ord g _ _ strict_no_demands).
    rewrite flat_map_map. generalize (raw_plan ord g). intros l. induction l as [|s l IH]; [reflexivity|].
    cbn [flat_map map]. rewrite IH. reflexivity.
  Qed.

  Theorem strict_steps : steps_of (plan_B ord g) = plan_of ord g.
  Proof.
    rewrite (steps_of_plan_B ord g). unfold plan_of. f_equal. rewrite strict_raw_plan_B. unfold steps_of. rewrite map_map.
    destruct (raw_facts ord g Hord Hok Hgc) as (F1 & _).
    rewrite <- (map_id (raw_plan ord g)) at 2. apply map_ext_in. intros s Hs. destruct (F1 s Hs) as (_ & Ek & Ei).
    destruct s as [i k us rq rd]. cbn in Ek, Ei. subst i k. cbn. rewrite app_nil_r. reflexivity.
  Qed.

  Theorem strict_no_tfs : forall b, In b (plan_B ord g) -> is_fg b = true /\ b_tfs b = [] /\ b_from b = 0.
  Proof.
    intros b Hb. destruct (in_plan_B ord g b Hb) as (j & b0 & _ & E & Hb0). subst b.
    rewrite strict_raw_plan_B in Hb0. apply in_map_iff in Hb0. destruct Hb0 as [s [E Hs]]. subst b0.
    destruct (raw_facts ord g Hord Hok Hgc) as (F1 & _). destruct (F1 s Hs) as (_ & Ek & _).
    unfold is_fg. cbn. repeat split; reflexivity.
  Qed.

  (* the same decision, the same steps *)
  Theorem strict_conservative :
    (forall p, prepare_A ord g = Planned p -> exists pb, prepare_B ord g = PlannedB pb /\ steps_of pb = p) /\
    (prepare_A ord g = RejectedCycle -> prepare_B ord g = RejectedCycleB) /\
    boutcome_code (prepare_B ord g) = outcome_code (prepare_A ord g).
  Proof.
    rewrite (prepare_outcome ord g Hord Hok Hstrict), (prepare_B_outcome ord g Hord Hok Hgc), strict_steps.
    destruct (runsim_accepts (plan_of ord g)); (split; [|split]).
    - intros p H. injection H as H. subst p. exists (plan_B ord g). split; [reflexivity | exact strict_steps].
    - discriminate.
    - reflexivity.
    - discriminate.
    - reflexivity.
    - reflexivity.
  Qed.
End Strict.
