(* Lemmas for Props/C11path.v *)
From Coq Require Import List String ZArith Bool Ascii Lia.
Import ListNotations.
Require Import MV.Spec.Filter MV.Spec.FilterPlan MV.Spec.FilterPath MV.Model.FilterPyDict MV.Model.FilterPath.
Require Import MV.Proofs.FilterP.
Open Scope string_scope.
Open Scope list_scope.

(* ---------- small list facts ---------- *)
Lemma forallb_subset : forall (A : Type) (p : A -> bool) l1 l2,
  (forall x, In x l1 -> In x l2) -> forallb p l2 = true -> forallb p l1 = true.
Proof.
  intros A p l1 l2 H H2. apply forallb_forall. intros x Hx. rewrite forallb_forall in H2. apply H2, H, Hx.
Qed.

Lemma forallb_same_members : forall (A : Type) (p : A -> bool) l1 l2,
  (forall x, In x l1 <-> In x l2) -> forallb p l1 = forallb p l2.
Proof.
  intros A p l1 l2 H. apply eq_true_iff_eq. split; apply forallb_subset; intros x Hx; apply H; exact Hx.
Qed.

Lemma forallb_ext_in : forall (A : Type) (p q : A -> bool) l, (forall x, In x l -> p x = q x) -> forallb p l = forallb q l.
Proof.
  intros A p q l. induction l as [|x l IH]; intros H; cbn; [reflexivity|].
  rewrite (H x (or_introl eq_refl)), IH; [reflexivity|]. intros y Hy. apply H. right. exact Hy.
Qed.

Lemma forallb_guard_filter : forall (A : Type) (c p : A -> bool) l,
  forallb (fun x => negb (c x) || p x) l = forallb p (filter c l).
Proof.
  intros A c p l. induction l as [|x l IH]; cbn; [reflexivity|].
  destruct (c x); cbn; rewrite IH; reflexivity.
Qed.

Lemma mem_in : forall s l, mem s l = true <-> In s l.
Proof.
  intros s l. unfold mem. rewrite existsb_exists. split.
  - intros [x [Hx He]]. apply String.eqb_eq in He. subst. exact Hx.
  - intros H. exists s. split; [exact H|apply String.eqb_refl].
Qed.

(* ---------- names ---------- *)
Lemma prefix_cons : forall a s1 s2, prefix (String a s1) (String a s2) = prefix s1 s2.
Proof. intros a s1 s2. cbn. destruct (ascii_dec a a) as [_|n]; [reflexivity|contradiction]. Qed.

Lemma base_name_shape : forall n, base_name n = n \/ prefix (base_name n ++ "~") n = true.
Proof.
  induction n as [|a r IH]; [left; reflexivity|].
  cbn [base_name]. destruct (Ascii.eqb a "~"%char) eqn:E.
  - right. apply Ascii.eqb_eq in E. subst a. cbn [append]. rewrite prefix_cons. destruct r; reflexivity.
  - destruct IH as [IH|IH].
    + left. rewrite IH. reflexivity.
    + right. cbn [append]. rewrite prefix_cons. exact IH.
Qed.

Lemma base_of_sub_column : forall b n, base_name b = b -> prefix (b ++ "~") n = true -> base_name n = b.
Proof.
  induction b as [|a b IH]; intros n Hb Hp.
  - destruct n as [|c r]; [reflexivity|]. cbn [append prefix] in Hp.
    destruct (ascii_dec "~"%char c) as [e|e]; [|discriminate]. subst c. reflexivity.
  - cbn [base_name] in Hb. destruct (Ascii.eqb a "~"%char) eqn:E; [discriminate|].
    injection Hb as Hb. cbn [append] in Hp. destruct n as [|c r]; [cbn [prefix] in Hp; discriminate|].
    cbn [prefix] in Hp. destruct (ascii_dec a c) as [e|e]; [|discriminate]. subst c.
    cbn [base_name]. rewrite E. f_equal. apply IH; assumption.
Qed.

Lemma base_of_append : forall b s, base_name b = b -> base_name (b ++ "~" ++ s) = b.
Proof.
  intros b s Hb. apply base_of_sub_column; [exact Hb|].
  clear Hb. induction b as [|a b IH]; cbn.
  - destruct (ascii_dec "~"%char "~"%char) as [_|n]; [|contradiction]. destruct s; reflexivity.
  - destruct (ascii_dec a a) as [_|n]; [exact IH|contradiction].
Qed.

Lemma criteria_exposes_l : forall g n, criteria g n = true -> exposes (declared g) n = true.
Proof.
  intros g n H. unfold criteria in H. apply mem_in in H. unfold exposes. apply existsb_exists.
  exists (base_name n). split; [exact H|].
  destruct (base_name_shape n) as [E|E].
  - rewrite E. rewrite String.eqb_refl. reflexivity.
  - unfold sub_column_of. rewrite E. apply orb_true_r.
Qed.

Definition tilde_free (D : list string) : Prop := forall b, In b D -> base_name b = b.

Lemma exposes_criteria_l : forall g n, tilde_free (declared g) -> exposes (declared g) n = true -> criteria g n = true.
Proof.
  intros g n Hd H. unfold exposes in H. apply existsb_exists in H. destruct H as [b [Hb H]].
  unfold criteria. apply mem_in. apply orb_true_iff in H. destruct H as [H|H].
  - apply String.eqb_eq in H. subst n. rewrite (Hd b Hb). exact Hb.
  - unfold sub_column_of in H. rewrite (base_of_sub_column b n (Hd b Hb) H). exact Hb.
Qed.

Lemma criteria_is_exposes_l : forall g n, tilde_free (declared g) -> criteria g n = exposes (declared g) n.
Proof.
  intros g n Hd. apply eq_true_iff_eq. split; [apply criteria_exposes_l|apply exposes_criteria_l; exact Hd].
Qed.

(* ---------- default set_feature_name ---------- *)
Lemma default_rename_sub_column_l : forall sup b s,
  In b sup -> base_name b = b -> default_rename sup (b ++ "~" ++ s) = b.
Proof.
  intros sup b s Hin Hb. unfold default_rename. rewrite (base_of_append b s Hb).
  assert (Hne : String.eqb b (b ++ "~" ++ s) = false).
  { apply String.eqb_neq. clear Hin Hb. induction b as [|a b IH]; cbn; [discriminate|].
    intro E. injection E as E. exact (IH E). }
  rewrite Hne. cbn. apply mem_in in Hin. rewrite Hin. reflexivity.
Qed.

Lemma default_rename_plain_l : forall sup n, base_name n = n -> default_rename sup n = n.
Proof. intros sup n H. unfold default_rename. rewrite H, String.eqb_refl. reflexivity. Qed.

Lemma default_rename_unsupported_l : forall sup n, ~ In (base_name n) sup -> default_rename sup n = n.
Proof.
  intros sup n H. unfold default_rename. destruct (mem (base_name n) sup) eqn:E.
  - apply mem_in in E. contradiction.
  - rewrite andb_false_r. reflexivity.
Qed.

Lemma default_rename_cases_l : forall sup n, default_rename sup n = n \/ (default_rename sup n = base_name n /\ In (base_name n) sup).
Proof.
  intros sup n. unfold default_rename. destruct (negb (base_name n =? n)) eqn:E1; cbn; [|left; reflexivity].
  destruct (mem (base_name n) sup) eqn:E2; [|left; reflexivity]. right. split; [reflexivity|apply mem_in; exact E2].
Qed.

Lemma default_rename_otherwise_l : forall sup n,
  (base_name n = n -> default_rename sup n = n) /\ (~ In (base_name n) sup -> default_rename sup n = n) /\
  (default_rename sup n = n \/ (default_rename sup n = base_name n /\ In (base_name n) sup)).
Proof. intros sup n. exact (conj (default_rename_plain_l sup n) (conj (default_rename_unsupported_l sup n) (default_rename_cases_l sup n))). Qed.

(* ---------- unify_options ---------- *)
Lemma unify_step_context : forall acc kv, o_context (unify_step acc kv) = o_context acc.
Proof. intros acc kv. unfold unify_step. destruct (opt_contains acc (fst kv)); reflexivity. Qed.

Lemma unify_fold_context : forall l acc, o_context (fold_left unify_step l acc) = o_context acc.
Proof. induction l as [|kv l IH]; intros acc; cbn; [reflexivity|]. rewrite IH. apply unify_step_context. Qed.

Lemma lookup_app_some : forall k v d d', lookup k d = Some v -> lookup k (d ++ d') = Some v.
Proof.
  intros k v d d'. induction d as [|[k' v'] d IH]; cbn; [discriminate|].
  destruct (String.eqb k' k); [auto|exact IH].
Qed.

Lemma unify_step_keeps : forall acc kv k v, lookup k (o_group acc) = Some v -> lookup k (o_group (unify_step acc kv)) = Some v.
Proof.
  intros acc kv k v H. unfold unify_step. destruct (opt_contains acc (fst kv)); [exact H|]. cbn. apply lookup_app_some, H.
Qed.

Lemma unify_fold_keeps : forall l acc k v, lookup k (o_group acc) = Some v -> lookup k (o_group (fold_left unify_step l acc)) = Some v.
Proof. induction l as [|kv l IH]; intros acc k v H; cbn; [exact H|]. apply IH, unify_step_keeps, H. Qed.

Lemma has_key_app : forall k d d', has_key k (d ++ d') = has_key k d || has_key k d'.
Proof. intros. unfold has_key. apply existsb_app. Qed.

Lemma unify_step_contains_mono : forall acc kv k, opt_contains acc k = true -> opt_contains (unify_step acc kv) k = true.
Proof.
  intros acc kv k H. unfold unify_step. destruct (opt_contains acc (fst kv)); [exact H|].
  unfold opt_contains in *. cbn [o_group o_context]. rewrite has_key_app. apply orb_true_iff in H.
  destruct H as [H|H]; rewrite H; cbn [orb]; [reflexivity|apply orb_true_r].
Qed.

Lemma unify_fold_contains_mono : forall l acc k, opt_contains acc k = true -> opt_contains (fold_left unify_step l acc) k = true.
Proof. induction l as [|kv l IH]; intros acc k H; cbn; [exact H|]. apply IH, unify_step_contains_mono, H. Qed.

Lemma unify_step_contains_new : forall acc kv, opt_contains (unify_step acc kv) (fst kv) = true.
Proof.
  intros acc kv. unfold unify_step. destruct (opt_contains acc (fst kv)) eqn:E; [exact E|].
  unfold opt_contains. cbn [o_group o_context]. rewrite has_key_app. unfold has_key at 2. cbn [existsb fst].
  rewrite String.eqb_refl. cbn [orb]. rewrite orb_true_r. reflexivity.
Qed.

Lemma unify_fold_contains_all : forall l acc kv, In kv l -> opt_contains (fold_left unify_step l acc) (fst kv) = true.
Proof.
  induction l as [|x l IH]; intros acc kv H; [contradiction|]. cbn. destruct H as [H|H].
  - subst x. apply unify_fold_contains_mono, unify_step_contains_new.
  - apply IH, H.
Qed.

Lemma unify_keeps_own_l : forall feat filt k v,
  lookup k (o_group filt) = Some v -> lookup k (o_group (unify_options feat filt)) = Some v.
Proof. intros. unfold unify_options. apply unify_fold_keeps. assumption. Qed.

Lemma unify_context_unchanged_l : forall feat filt, o_context (unify_options feat filt) = o_context filt.
Proof. intros. unfold unify_options. apply unify_fold_context. Qed.

Lemma unify_has_feature_keys_l : forall feat filt kv,
  In kv (o_group feat ++ o_context feat) -> opt_contains (unify_options feat filt) (fst kv) = true.
Proof. intros. unfold unify_options. apply unify_fold_contains_all. assumption. Qed.

Lemma unify_options_l : forall feat filt,
  (forall k v, lookup k (o_group filt) = Some v -> lookup k (o_group (unify_options feat filt)) = Some v) /\
  o_context (unify_options feat filt) = o_context filt /\
  (forall kv, In kv (o_group feat ++ o_context feat) -> opt_contains (unify_options feat filt) (fst kv) = true).
Proof.
  intros feat filt.
  exact (conj (unify_keeps_own_l feat filt) (conj (unify_context_unchanged_l feat filt) (unify_has_feature_keys_l feat filt))).
Qed.

(* a feature without context options, a filter without options: the filter feature gets exactly the group options *)
Lemma has_key_false_notin : forall k d, has_key k d = false -> ~ In k (map fst d).
Proof.
  intros k d H Hin. apply in_map_iff in Hin. destruct Hin as [[k' v] [E Hin]]. cbn in E. subst k'.
  unfold has_key in H. assert (existsb (fun kv : string * string => (fst kv =? k)%string) d = true).
  { apply existsb_exists. exists (k, v). split; [exact Hin|apply String.eqb_refl]. }
  congruence.
Qed.

Lemma notin_has_key_false : forall k d, ~ In k (map fst d) -> has_key k d = false.
Proof.
  intros k d H. unfold has_key. destruct (existsb (fun kv : string * string => (fst kv =? k)%string) d) eqn:E; [|reflexivity].
  apply existsb_exists in E. destruct E as [[k' v] [Hin E]]. cbn in E. apply String.eqb_eq in E. subst k'.
  exfalso. apply H. apply in_map_iff. exists (k, v). split; [reflexivity|exact Hin].
Qed.

Lemma unify_fresh : forall d acc, NoDup (map fst (acc ++ d)) ->
  fold_left unify_step d {| o_group := acc; o_context := [] |} = {| o_group := acc ++ d; o_context := [] |}.
Proof.
  induction d as [|kv d IH]; intros acc H; cbn.
  - rewrite app_nil_r. reflexivity.
  - assert (Hk : has_key (fst kv) acc = false).
    { apply notin_has_key_false. intro Hin. rewrite map_app in H. cbn in H.
      apply NoDup_remove_2 in H. apply H. apply in_or_app. left. exact Hin. }
    unfold unify_step at 2. unfold opt_contains. cbn [o_group o_context]. rewrite Hk. cbn [has_key existsb orb].
    rewrite IH.
    + rewrite <- app_assoc. reflexivity.
    + rewrite <- app_assoc. exact H.
Qed.

Lemma lookup_nodup : forall d k v, NoDup (map fst d) -> In (k, v) d -> lookup k d = Some v.
Proof.
  induction d as [|[k' v'] d IH]; intros k v Hn Hin; [contradiction|]. cbn. cbn in Hn.
  destruct Hin as [E|Hin].
  - injection E as -> ->. rewrite String.eqb_refl. reflexivity.
  - destruct (String.eqb k' k) eqn:E.
    + apply String.eqb_eq in E. subst k'. inversion Hn as [|? ? Hnot Hn']. exfalso. apply Hnot.
      apply in_map_iff. exists (k, v). split; [reflexivity|exact Hin].
    + inversion Hn. apply IH; assumption.
Qed.

Lemma dict_eqb_refl : forall d, NoDup (map fst d) -> dict_eqb d d = true.
Proof.
  intros d H. unfold dict_eqb. assert (S : dict_sub d d = true).
  { unfold dict_sub. apply forallb_forall. intros [k v] Hin. cbn. rewrite (lookup_nodup d k v H Hin). cbn. apply String.eqb_refl. }
  rewrite S. reflexivity.
Qed.

(* ---------- identity_matched on filters given by column name ---------- *)
Definition plain_feature (feat : rfeature) : Prop :=
  o_context (r_opts feat) = [] /\ NoDup (map fst (o_group (r_opts feat))).

Definition matched_of (feat : rfeature) (gd : option string) (f : filt) : mfilter :=
  {| m_feature := {| ff_name := f_col f; ff_opts := unify_options (r_opts feat) no_options;
                     ff_domain := match r_domain feat with Some d => Some d | None => gd end; ff_cfw := Some (r_cfw feat) |};
     m_name := f_col f; m_type := f_type f; m_par := f_par f |}.

Lemma identity_matched_plain : forall g feat fs,
  identity_matched g feat (map plain_filter fs)
  = Done (map (matched_of feat (g_domain g)) (filter (fun f => criteria g (f_col f)) fs)).
Proof.
  intros g feat fs. induction fs as [|f fs IH]; [reflexivity|].
  cbn [map identity_matched filter]. cbn [plain_filter single_filter gf_feature ff_name ff_domain ff_cfw ff_opts gf_name gf_type gf_par].
  destruct (criteria g (f_col f)) eqn:E; cbn [negb].
  - cbn [domain_match cfw_match]. rewrite IH. reflexivity.
  - exact IH.
Qed.

Lemma unify_plain_group : forall feat, plain_feature feat ->
  o_group (unify_options (r_opts feat) no_options) = o_group (r_opts feat).
Proof.
  intros feat [Hc Hn]. unfold unify_options, no_options. rewrite Hc, app_nil_r.
  rewrite unify_fresh; [reflexivity|exact Hn].
Qed.

(* ---------- add_all ---------- *)
Lemma add_all_sub : forall ms acc x, In x (add_all acc ms) -> In x acc \/ In x ms.
Proof.
  induction ms as [|m ms IH]; intros acc x H; cbn in H; [left; exact H|].
  apply IH in H. destruct H as [H|H]; [|right; right; exact H].
  destruct (existsb (mfilter_eqb m) acc); [left; exact H|].
  apply in_app_or in H. destruct H as [H|[H|[]]]; [left; exact H|right; left; exact H].
Qed.

Lemma add_all_keeps_acc : forall ms acc x, In x acc -> In x (add_all acc ms).
Proof.
  induction ms as [|m ms IH]; intros acc x H; cbn; [exact H|].
  apply IH. destruct (existsb (mfilter_eqb m) acc); [exact H|apply in_or_app; left; exact H].
Qed.

Lemma add_all_covers : forall ms acc x, In x ms ->
  In x (add_all acc ms) \/ exists y, In y (add_all acc ms) /\ mfilter_eqb x y = true.
Proof.
  induction ms as [|m ms IH]; intros acc x H; [contradiction|]. cbn. destruct H as [H|H].
  - subst m. destruct (existsb (mfilter_eqb x) acc) eqn:E.
    + right. apply existsb_exists in E. destruct E as [y [Hy E]]. exists y. split; [apply add_all_keeps_acc, Hy|exact E].
    + left. apply add_all_keeps_acc. apply in_or_app. right. left. reflexivity.
  - apply IH, H.
Qed.

(* every element of add_all [] ms0 stems from ms0 and, when ms0 is covered by pairs, was itself in ms0 *)
Lemma add_all_origin : forall ms x, In x (add_all [] ms) -> In x ms.
Proof. intros ms x H. apply add_all_sub in H. destruct H as [[]|H]. exact H. Qed.

(* ---------- params / type equality ---------- *)
Lemma mfilter_eqb_type_par : forall a b, mfilter_eqb a b = true -> m_type a = m_type b /\ m_par a = m_par b.
Proof.
  intros a b H. unfold mfilter_eqb in H. apply andb_true_iff in H. destruct H as [H Hp]. apply andb_true_iff in H. destruct H as [_ Ht].
  assert (E : filt_eqb {| f_col := ""; f_type := m_type a; f_par := m_par a |} {| f_col := ""; f_type := m_type b; f_par := m_par b |} = true).
  { unfold filt_eqb. cbn. rewrite Ht, Hp. reflexivity. }
  apply filt_eqb_eq in E. injection E as E1 E2. split; assumption.
Qed.

Lemma collapse_free_names : forall ms a b, kf_collapse_ms ms = false -> In a ms -> In b ms -> mfilter_eqb a b = true -> m_name a = m_name b.
Proof.
  intros ms a b H Ha Hb E. unfold kf_collapse_ms in H.
  destruct (String.eqb (m_name a) (m_name b)) eqn:N; [apply String.eqb_eq; exact N|].
  exfalso. assert (T : existsb (fun a0 => existsb (collide a0) ms) ms = true).
  { apply existsb_exists. exists a. split; [exact Ha|]. apply existsb_exists. exists b. split; [exact Hb|].
    unfold collide. rewrite E, N. reflexivity. }
  congruence.
Qed.

(* ---------- apply_matched when every gate fires ---------- *)
Lemma apply_matched_all_gated : forall sel names names' ms t,
  (forall m, In m ms -> gate names m = true) -> (forall m, In m ms -> In (sel m) names') ->
  apply_matched_with sel names ms t = apply_list names' (map (as_filt sel) ms) t.
Proof.
  intros sel names names' ms. induction ms as [|m ms IH]; intros t Hg Hn; [reflexivity|].
  cbn [apply_matched_with map apply_list]. rewrite (Hg m (or_introl eq_refl)).
  assert (A : applicable names' (as_filt sel m) = true).
  { unfold applicable. cbn. apply existsb_exists. exists (sel m). split; [apply Hn; left; reflexivity|apply String.eqb_refl]. }
  rewrite A. destruct (do_filter t (as_filt sel m)); [|reflexivity].
  apply IH; intros m' H'; [apply Hg|apply Hn]; right; exact H'.
Qed.

Lemma apply_matched_none_gated : forall sel names ms t,
  (forall m, In m ms -> gate names m = false) -> apply_matched_with sel names ms t = Ok t.
Proof.
  intros sel names ms. induction ms as [|m ms IH]; intros t Hg; [reflexivity|].
  cbn [apply_matched_with]. rewrite (Hg m (or_introl eq_refl)). apply IH. intros m' H'. apply Hg. right. exact H'.
Qed.

Lemma gate_iff_l : forall names m, gate names m = true <-> In (ff_name (m_feature m)) names.
Proof. intros. unfold gate. apply mem_in. Qed.

(* ---------- the path: origin of what reaches the engine ---------- *)
Lemma identity_matched_origin : forall g feat gfs ms m,
  identity_matched g feat gfs = Done ms -> In m ms ->
  exists gf, In gf gfs /\ m_name m = gf_name gf /\ m_type m = gf_type gf /\ m_par m = gf_par gf
             /\ ff_name (m_feature m) = ff_name (gf_feature gf)
             /\ ff_opts (m_feature m) = unify_options (r_opts feat) (ff_opts (gf_feature gf))
             /\ criteria g (ff_name (gf_feature gf)) = true.
Proof.
  intros g feat gfs. induction gfs as [|gf gfs IH]; intros ms m H Hin.
  - cbn in H. injection H as <-. contradiction.
  - cbn [identity_matched] in H. destruct (criteria g (ff_name (gf_feature gf))) eqn:C; cbn [negb] in H.
    + destruct (domain_match (ff_domain (gf_feature gf)) (r_domain feat) (g_domain g)) as [d| |].
      * destruct (cfw_match (ff_cfw (gf_feature gf)) (r_cfw feat)).
        -- destruct (identity_matched g feat gfs) as [ms'|] eqn:R; [|discriminate]. injection H as <-.
           destruct Hin as [E|Hin].
           ++ subst m. exists gf. cbn. repeat split; auto.
           ++ destruct (IH ms' m eq_refl Hin) as [gf' [H1 H2]]. exists gf'. split; [right; exact H1|exact H2].
        -- destruct (IH ms m H Hin) as [gf' [H1 H2]]. exists gf'. split; [right; exact H1|exact H2].
      * destruct (IH ms m H Hin) as [gf' [H1 H2]]. exists gf'. split; [right; exact H1|exact H2].
      * discriminate.
    + destruct (IH ms m H Hin) as [gf' [H1 H2]]. exists gf'. split; [right; exact H1|exact H2].
Qed.

Lemma engine_reads_user_column_l : forall rename g feat requested gfs names ms m,
  plan_path rename g feat requested gfs = Done (names, ms) -> In m ms ->
  exists gf, In gf gfs /\ read_column m = gf_name gf /\ m_type m = gf_type gf /\ m_par m = gf_par gf
             /\ ff_name (m_feature m) = rename (unify_options (r_opts feat) (ff_opts (gf_feature gf))) (ff_name (gf_feature gf)).
Proof.
  intros rename g feat requested gfs names ms m H Hin. unfold plan_path in H.
  destruct (identity_matched g feat gfs) as [ms0|] eqn:R; [|discriminate]. injection H as _ <-.
  unfold add_filter_feature in Hin. apply add_all_origin in Hin. apply in_map_iff in Hin. destruct Hin as [m0 [E Hin]]. subst m.
  destruct (identity_matched_origin g feat gfs ms0 m0 R Hin) as [gf [H1 [H2 [H3 [H4 [H5 [H6 _]]]]]]].
  exists gf. unfold read_column. cbn. rewrite H5, H6. repeat split; assumption.
Qed.

(* ---------- scope ---------- *)
Lemma identity_matched_none : forall g feat gfs,
  (forall gf, In gf gfs -> criteria g (ff_name (gf_feature gf)) = false) -> identity_matched g feat gfs = Done [].
Proof.
  intros g feat gfs. induction gfs as [|gf gfs IH]; intros H; [reflexivity|].
  cbn [identity_matched]. rewrite (H gf (or_introl eq_refl)). cbn. apply IH. intros gf' H'. apply H. right. exact H'.
Qed.

Lemma path_scope_l : forall sel rename g feat requested gfs t,
  (forall gf, In gf gfs -> exposes (declared g) (ff_name (gf_feature gf)) = false) ->
  run_path_with sel rename g feat requested gfs t = Done (Ok t).
Proof.
  intros sel rename g feat requested gfs t H. unfold run_path_with, plan_path.
  rewrite identity_matched_none; [reflexivity|].
  intros gf Hin. destruct (criteria g (ff_name (gf_feature gf))) eqn:C; [|reflexivity].
  apply criteria_exposes_l in C. rewrite (H gf Hin) in C. discriminate.
Qed.

(* ---------- the spec in terms of Spec/Filter.expected ---------- *)
Lemma path_spec_refines_l : forall D fs t, path_expected D fs t = expected (exposed_columns D fs) fs t.
Proof.
  intros D fs t. unfold path_expected, expected. apply filter_ext. intros r. unfold keeps, sat_all.
  apply forallb_ext_in. intros f Hf. f_equal. f_equal.
  unfold applicable, exposed_columns. destruct (exposes D (f_col f)) eqn:E.
  - symmetry. apply existsb_exists. exists (f_col f). split; [|apply String.eqb_refl].
    apply filter_In. split; [apply in_map; exact Hf|exact E].
  - symmetry. destruct (existsb (String.eqb (f_col f)) (filter (exposes D) (map f_col fs))) eqn:X; [|reflexivity].
    apply existsb_exists in X. destruct X as [c [Hc Ec]]. apply String.eqb_eq in Ec. subst c.
    apply filter_In in Hc. destruct Hc as [_ Hc]. congruence.
Qed.

(* ---------- main: rows kept = rows satisfying the filters ON THE USER'S COLUMN ---------- *)
Lemma as_filt_matched_of : forall rename feat gd f, as_filt read_column (renamed rename (matched_of feat gd f)) = f.
Proof. intros rename feat gd [c ty p]. reflexivity. Qed.

Lemma path_rows_l : forall (rename : options -> string -> string) g feat requested fs t,
  tilde_free (declared g) -> plain_feature feat ->
  kf_collapse rename g feat (map plain_filter fs) = false ->
  (forall f, In f fs -> exposes (declared g) (f_col f) = true -> fineb f t = true) ->
  run_path rename g feat requested (map plain_filter fs) t = Done (Ok (path_expected (declared g) fs t)).
Proof.
  intros rename g feat requested fs t HD Hfeat Hkf Hfine.
  unfold run_path, run_path_with, plan_path. unfold kf_collapse in Hkf. rewrite identity_matched_plain in *.
  set (ex := filter (fun f => criteria g (f_col f)) fs) in *.
  set (ms0 := map (renamed rename) (map (matched_of feat (g_domain g)) ex)) in *.
  set (ms := add_filter_feature rename (map (matched_of feat (g_domain g)) ex)).
  assert (Hms_sub : forall m, In m ms -> In m ms0) by (intros m Hm; apply add_all_origin in Hm; exact Hm).
  assert (Hms0 : forall m, In m ms0 -> exists f, In f ex /\ m = renamed rename (matched_of feat (g_domain g) f)).
  { intros m Hm. unfold ms0 in Hm. rewrite map_map in Hm. apply in_map_iff in Hm. destruct Hm as [f [E Hf]]. exists f. split; [exact Hf|symmetry; exact E]. }
  (* every gate fires *)
  assert (Hgate : forall m, In m ms -> gate (planned_names rename feat requested ms) m = true).
  { intros m Hm. apply gate_iff_l. unfold planned_names. apply in_or_app. right.
    apply in_map_iff. exists m. split; [reflexivity|]. apply filter_In. split; [exact Hm|].
    destruct (Hms0 m (Hms_sub m Hm)) as [f [_ E]]. subst m. unfold in_same_set. cbn.
    rewrite (unify_plain_group feat Hfeat). apply dict_eqb_refl. apply Hfeat. }
  set (fs' := map (as_filt read_column) ms).
  rewrite (apply_matched_all_gated read_column _ (map f_col fs') ms t Hgate).
  2:{ intros m Hm. unfold fs'. rewrite map_map. apply in_map_iff. exists m. split; [reflexivity|exact Hm]. }
  fold fs'. f_equal.
  (* the filters that reach the engine are exactly the exposed user filters *)
  assert (Hfs'_sub : forall f, In f fs' -> In f ex).
  { intros f Hf. unfold fs' in Hf. apply in_map_iff in Hf. destruct Hf as [m [E Hm]].
    destruct (Hms0 m (Hms_sub m Hm)) as [f0 [Hf0 E0]]. subst m. rewrite as_filt_matched_of in E. subst f0. exact Hf0. }
  assert (Hex_sub : forall f, In f ex -> In f fs').
  { intros f Hf. set (m0 := renamed rename (matched_of feat (g_domain g) f)).
    assert (Hm0 : In m0 ms0). { unfold ms0. rewrite map_map. apply in_map_iff. exists f. split; [reflexivity|exact Hf]. }
    destruct (add_all_covers ms0 [] m0 Hm0) as [Hin|[y [Hy E]]].
    - unfold fs'. apply in_map_iff. exists m0. split; [apply as_filt_matched_of|exact Hin].
    - unfold fs'. apply in_map_iff. exists y. split; [|exact Hy].
      pose proof (collapse_free_names ms0 m0 y Hkf Hm0 (Hms_sub y Hy) E) as Hn.
      destruct (mfilter_eqb_type_par m0 y E) as [Ht Hp].
      rewrite <- (as_filt_matched_of rename feat (g_domain g) f). fold m0.
      unfold as_filt, read_column. rewrite Hn, Ht, Hp. reflexivity. }
  assert (Hall : forall f, In f fs' -> applicable (map f_col fs') f = true).
  { intros f Hf. unfold applicable. apply existsb_exists. exists (f_col f). split; [apply in_map; exact Hf|apply String.eqb_refl]. }
  rewrite apply_list_conj_l.
  2:{ intros f Hf _. apply Hfs'_sub in Hf. unfold ex in Hf. apply filter_In in Hf. destruct Hf as [Hf C].
      apply Hfine; [exact Hf|apply criteria_exposes_l; exact C]. }
  f_equal. unfold expected, path_expected. apply filter_ext. intros r. unfold sat_all, keeps.
  rewrite (forallb_guard_filter _ (fun f => exposes (declared g) (f_col f)) (fun f => sat f r) fs).
  assert (Hex' : filter (fun f => exposes (declared g) (f_col f)) fs = ex).
  { unfold ex. apply filter_ext. intros f. symmetry. apply criteria_is_exposes_l, HD. }
  rewrite Hex'.
  transitivity (forallb (fun f => sat f r) fs').
  - apply forallb_ext_in. intros f Hf. rewrite (Hall f Hf). reflexivity.
  - apply forallb_same_members. intros f. split; [apply Hfs'_sub|apply Hex_sub].
Qed.

(* the order of the global filters is irrelevant outside the collapse domain *)
Lemma path_order_irrelevant_l : forall (rename : options -> string -> string) g feat requested fs fs' t,
  tilde_free (declared g) -> plain_feature feat ->
  (forall f, In f fs <-> In f fs') ->
  kf_collapse rename g feat (map plain_filter fs) = false -> kf_collapse rename g feat (map plain_filter fs') = false ->
  (forall f, In f fs -> exposes (declared g) (f_col f) = true -> fineb f t = true) ->
  run_path rename g feat requested (map plain_filter fs) t = run_path rename g feat requested (map plain_filter fs') t.
Proof.
  intros rename g feat requested fs fs' t HD Hf Hmem K K' Hfine.
  rewrite (path_rows_l rename g feat requested fs t HD Hf K Hfine).
  rewrite (path_rows_l rename g feat requested fs' t HD Hf K').
  2:{ intros f Hin. apply Hfine, Hmem, Hin. }
  f_equal. f_equal. unfold path_expected. apply filter_ext. intros r. unfold keeps. apply forallb_same_members, Hmem.
Qed.

(* ---------- domain matching ---------- *)
Lemma domain_raises_iff_l : forall fd featd gd,
  domain_match fd featd gd = MRaise <-> exists d, fd = Some d /\ featd = None /\ domain_name gd <> d.
Proof.
  intros fd featd gd. split.
  - destruct fd as [d|]; cbn; [|discriminate]. destruct featd as [e|]; cbn.
    + destruct (String.eqb d e); discriminate.
    + destruct (String.eqb (domain_name gd) d) eqn:E; [discriminate|]. intros _. exists d. repeat split. apply String.eqb_neq, E.
  - intros [d [-> [-> H]]]. cbn. apply String.eqb_neq in H. rewrite H. reflexivity.
Qed.

Definition effective_domain (featd gd : option string) : string := match featd with Some e => e | None => domain_name gd end.
Definition is_yes (r : mres) : bool := match r with MYes _ => true | _ => false end.

Lemma domain_match_meaning_l : forall fd featd gd, domain_match fd featd gd <> MRaise ->
  is_yes (domain_match fd featd gd) = match fd with None => true | Some d => String.eqb d (effective_domain featd gd) end.
Proof.
  intros fd featd gd H. destruct fd as [d|]; [|reflexivity]. destruct featd as [e|]; cbn in *.
  - destruct (String.eqb d e); reflexivity.
  - rewrite (String.eqb_sym d). destruct (String.eqb (domain_name gd) d); [reflexivity|contradiction].
Qed.

(* ---------- concrete witnesses (kernel-checked by vm_compute) ---------- *)
Open Scope Z_scope.
Definition wp0 : params := {| p_value := None; p_values := None; p_min := None; p_max := None; p_excl := false |}.
Definition w_value (v : Z) : params := {| p_value := Some (VInt v); p_values := None; p_min := None; p_max := None; p_excl := false |}.
Definition w_feat : rfeature := {| r_opts := no_options; r_domain := None; r_cfw := "PyArrowTable" |}.
Definition w_ids (o : outcome (res table)) : option (list value) :=
  match o with Done (Ok t) => Some (map (fun r => get r "id") t) | _ => None end.
Definition w_cell (z : option Z) : value := match z with Some v => VInt v | None => VNull end.

(* A: a multi-column feature emb = (emb~0, emb~1, emb~2), default set_feature_name *)
Definition wA_group : fgroup := {| g_roots := ["id"; "emb"]; g_supported := ["emb"]; g_domain := None |}.
Definition wA_rename : options -> string -> string := fun _ => default_rename ["emb"].
Definition wA_row (i : Z) (a b : option Z) : row := [("id", VInt i); ("emb~0", VInt i); ("emb~1", w_cell a); ("emb~2", w_cell b)].
Definition wA_table : table :=
  [wA_row 0 (Some 10) (Some 5); wA_row 1 (Some 20) (Some 4); wA_row 2 (Some 30) (Some 3); wA_row 3 (Some 40) (Some 2); wA_row 4 None (Some 1)].
Definition wA_range : filt := {| f_col := "emb~1"; f_type := FRange;
  f_par := {| p_value := None; p_values := None; p_min := Some (VInt 20); p_max := Some (VInt 40); p_excl := true |} |}.

Lemma renamed_column_refuted_default_l :
  w_ids (run_path wA_rename wA_group w_feat ["id"] (map plain_filter [wA_range]) wA_table) = Some [VInt 1; VInt 2] /\
  map (fun r => get r "id") (path_expected (declared wA_group) [wA_range] wA_table) = [VInt 1; VInt 2] /\
  w_ids (run_path_with renamed_column wA_rename wA_group w_feat ["id"] (map plain_filter [wA_range]) wA_table) = Some [].
Proof. vm_compute. repeat split. Qed.

(* B: a feature group whose set_feature_name maps R1, R2 to ROut *)
Definition wB_group : fgroup := {| g_roots := ["id"; "R1"; "R2"]; g_supported := []; g_domain := None |}.
Definition wB_rename : options -> string -> string := fun _ n => if String.eqb n "id" then n else "ROut"%string.
Definition wB_table : table :=
  [[("id", VInt 0); ("ROut", VInt 1); ("R2", VInt 3)]; [("id", VInt 1); ("ROut", VInt 2); ("R2", VInt 2)];
   [("id", VInt 2); ("ROut", VInt 3); ("R2", VInt 1)]].
Definition wB_equal : filt := {| f_col := "R2"; f_type := FEqual; f_par := w_value 1 |}.

Lemma renamed_column_refuted_override_l :
  w_ids (run_path wB_rename wB_group w_feat ["id"; "R1"] (map plain_filter [wB_equal]) wB_table) = Some [VInt 2] /\
  map (fun r => get r "id") (path_expected (declared wB_group) [wB_equal] wB_table) = [VInt 2] /\
  w_ids (run_path_with renamed_column wB_rename wB_group w_feat ["id"; "R1"] (map plain_filter [wB_equal]) wB_table) = Some [VInt 0].
Proof. vm_compute. repeat split. Qed.

(* known finding C11-renamed-filters-collapse: emb~1 >= 3 and emb~2 >= 3 become equal copies, the second is not collected *)
Definition wC_f1 : filt := {| f_col := "emb~1"; f_type := FMin; f_par := w_value 3 |}.
Definition wC_f2 : filt := {| f_col := "emb~2"; f_type := FMin; f_par := w_value 3 |}.
Definition wC_table : table :=
  [wA_row 0 (Some 10) (Some 5); wA_row 1 (Some 1) (Some 4); wA_row 2 (Some 30) (Some 1); wA_row 3 (Some 40) (Some 2); wA_row 4 None (Some 3)].
Lemma collapse_refuted_l :
  kf_collapse wA_rename wA_group w_feat (map plain_filter [wC_f1; wC_f2]) = true /\
  fineb wC_f1 wC_table = true /\ fineb wC_f2 wC_table = true /\
  w_ids (run_path wA_rename wA_group w_feat ["id"] (map plain_filter [wC_f1; wC_f2]) wC_table) = Some [VInt 0; VInt 2; VInt 3] /\
  w_ids (run_path wA_rename wA_group w_feat ["id"] (map plain_filter [wC_f2; wC_f1]) wC_table) = Some [VInt 0; VInt 1; VInt 4] /\
  map (fun r => get r "id") (path_expected (declared wA_group) [wC_f1; wC_f2] wC_table) = [VInt 0].
Proof. vm_compute. repeat split. Qed.

(* known finding C11-filter-domain-compare-raises *)
Definition wD_group : fgroup := {| g_roots := ["id"; "c"]; g_supported := []; g_domain := Some "B" |}.
Definition wD_filter : gfilter :=
  single_filter {| ff_name := "c"; ff_opts := no_options; ff_domain := Some "A"; ff_cfw := None |} FMin (w_value 2).
Definition wD_table : table := [[("id", VInt 0); ("c", VInt 1)]; [("id", VInt 1); ("c", VInt 2)]].
Lemma domain_raises_refuted_l :
  kf_domain_raises wD_group w_feat [wD_filter] = true /\
  run_path (fun _ n => n) wD_group w_feat ["id"] [wD_filter] wD_table = Raises /\
  (* with the domain written on the requested feature the filter is simply not matched *)
  run_path (fun _ n => n) wD_group {| r_opts := no_options; r_domain := Some "B"; r_cfw := "PyArrowTable" |} ["id"] [wD_filter] wD_table
    = Done (Ok wD_table).
Proof. vm_compute. repeat split. Qed.

(* known finding C11-context-options-filter-lost, as this model reproduces it *)
Definition wE_feat : rfeature := {| r_opts := {| o_group := []; o_context := [("cx", "1")] |}; r_domain := None; r_cfw := "PyArrowTable" |}.
Definition wE_group : fgroup := {| g_roots := ["id"; "c"]; g_supported := []; g_domain := None |}.
Definition wE_filter : filt := {| f_col := "c"; f_type := FMin; f_par := w_value 2 |}.
Lemma context_option_refuted_l :
  w_ids (run_path (fun _ n => n) wE_group wE_feat ["id"] (map plain_filter [wE_filter]) wD_table) = Some [VInt 0; VInt 1] /\
  map (fun r => get r "id") (path_expected (declared wE_group) [wE_filter] wD_table) = [VInt 1] /\
  w_ids (run_path (fun _ n => n) wE_group w_feat ["id"] (map plain_filter [wE_filter]) wD_table) = Some [VInt 1].
Proof. vm_compute. repeat split. Qed.

(* identity_matched_filters without the deepcopy: the first group's rename c -> cc hides the filter from the second group *)
Definition wF_g1 : fgroup := {| g_roots := ["id1"; "c"]; g_supported := []; g_domain := None |}.
Definition wF_g2 : fgroup := {| g_roots := ["id2"; "c"]; g_supported := []; g_domain := None |}.
Definition wF_r1 : options -> string -> string := fun _ n => if String.eqb n "c" then "cc"%string else n.
Definition wF_r2 : options -> string -> string := fun _ n => n.
Lemma shared_filter_refuted_l :
  let good := run_two_groups wF_r1 wF_r2 wF_g1 wF_g2 w_feat ["id1"] ["id2"] (map plain_filter [wE_filter]) wD_table wD_table in
  let shared := run_two_groups_shared wF_r1 wF_r2 wF_g1 wF_g2 w_feat ["id1"] ["id2"] (map plain_filter [wE_filter]) wD_table wD_table in
  w_ids (fst good) = Some [VInt 1] /\ w_ids (snd good) = Some [VInt 1] /\
  w_ids (fst shared) = Some [VInt 1] /\ w_ids (snd shared) = Some [VInt 0; VInt 1].
Proof. vm_compute. repeat split. Qed.

(* hypotheses of the main lemma are satisfiable on a non-trivial instance: three filters on two sub-columns and the id *)
Definition wG_max : filt := {| f_col := "emb~2"; f_type := FMax; f_par := w_value 4 |}.
Definition wG_other : filt := {| f_col := "zz~1"; f_type := FMin; f_par := w_value 100 |}.
Lemma path_example_l :
  kf_collapse wA_rename wA_group w_feat (map plain_filter [wA_range; wG_max; wG_other]) = false /\
  forallb (fun f => negb (exposes (declared wA_group) (f_col f)) || fineb f wA_table) [wA_range; wG_max; wG_other] = true /\
  plan_path wA_rename wA_group w_feat ["id"] (map plain_filter [wA_range; wG_max; wG_other])
    = Done (["id"; "emb"; "emb"]%string,
            [renamed wA_rename (matched_of w_feat None wA_range); renamed wA_rename (matched_of w_feat None wG_max)]) /\
  w_ids (run_path wA_rename wA_group w_feat ["id"] (map plain_filter [wA_range; wG_max; wG_other]) wA_table) = Some [VInt 1; VInt 2] /\
  default_rename ["emb"%string] "emb~1" = "emb"%string /\ default_rename ["emb"%string] "other~1" = "other~1"%string /\
  default_rename [] "emb~1" = "emb~1"%string /\ base_name "a~1~2" = "a"%string.
Proof. vm_compute. repeat split. Qed.
