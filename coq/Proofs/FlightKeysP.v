(* Proofs about Model/FlightKeys.v: histories of runs against one long-lived store.
   CDirect (the code): every swept run leaves the store as it found it minus its own keys - whatever the keys are, repeated or not.
   CMemo (the regression): equal to CDirect on histories in which no key repeats; a key the main process has memoised and a worker
   uploads again survives the sweep. *)
From Coq Require Import List Bool Arith Lia.
Import ListNotations.
Require Import MV.Model.Orch MV.Proofs.OrchP MV.Model.Worker MV.Model.Session MV.Spec.Reuse MV.Proofs.SessionP MV.Model.FlightKeys MV.Spec.FlightKeysSpec.

(* ---------------------------------------------------------------- sets as lists ---------------------------------------------------------------- *)
Lemma mem_app : forall x a b, mem x (a ++ b) = mem x a || mem x b.
Proof. intros x a b. unfold mem. apply existsb_app. Qed.

Lemma mem_false_In : forall x l, mem x l = false <-> ~ In x l.
Proof.
  intros x l. split; intros H.
  - intros X. apply mem_In in X. congruence.
  - destruct (mem x l) eqn:E; [|reflexivity]. apply mem_In in E. contradiction.
Qed.

Lemma remove_all_app : forall a b s, remove_all b (remove_all a s) = remove_all (a ++ b) s.
Proof.
  intros a b s. unfold remove_all. induction s as [|x s IH]; [reflexivity|]. cbn. rewrite mem_app.
  destruct (mem x a); cbn; [exact IH|]. destruct (mem x b); cbn; [exact IH | rewrite IH; reflexivity].
Qed.

Lemma remove_all_ext : forall a b s, (forall k, In k a <-> In k b) -> remove_all a s = remove_all b s.
Proof.
  intros a b s H. unfold remove_all. apply filter_ext. intros x. f_equal.
  destruct (mem x a) eqn:Ea, (mem x b) eqn:Eb; try reflexivity.
  - apply mem_In in Ea. apply H in Ea. apply mem_In in Ea. congruence.
  - apply mem_In in Eb. apply H in Eb. apply mem_In in Eb. congruence.
Qed.

Lemma remove_all_id : forall a s, (forall k, In k s -> ~ In k a) -> remove_all a s = s.
Proof.
  intros a s H. unfold remove_all. induction s as [|x s IH]; [reflexivity|]. cbn.
  assert (E : mem x a = false) by (apply mem_false_In, H; left; reflexivity). rewrite E. cbn. f_equal. apply IH.
  intros k X. apply H. right. exact X.
Qed.

Lemma remove_all_nil : forall s, remove_all [] s = s.
Proof. intros s. apply remove_all_id. intros k _ []. Qed.

Lemma remove_all_absorb : forall a K s, incl a K -> remove_all K (remove_all a s) = remove_all K s.
Proof.
  intros a K s H. rewrite remove_all_app. apply remove_all_ext. intros k. rewrite in_app_iff. split; [intros [X|X]; auto | auto].
Qed.

Lemma put_In : forall k s x, In x (put k s) <-> x = k \/ In x s.
Proof.
  intros k s x. unfold put. destruct (mem k s) eqn:E.
  - split; [auto|]. intros [->|X]; [apply mem_In, E | exact X].
  - cbn. split; intros [X|X]; auto.
Qed.

Lemma remove_all_put : forall K k s, In k K -> remove_all K (put k s) = remove_all K s.
Proof.
  intros K k s H. unfold put. destruct (mem k s); [reflexivity|]. unfold remove_all. cbn.
  assert (E : mem k K = true) by (apply mem_In, H). rewrite E. reflexivity.
Qed.

(* ---------------------------------------------------------------- CDirect ---------------------------------------------------------------- *)
Definition evs_in (K : list nat) (evs : list sev) : Prop := forall e, In e evs -> In (sev_key e) K.

Lemma body_okb_spec : forall r, body_okb r = true <-> evs_in (r_keys r) (r_body r).
Proof.
  intros r. unfold body_okb, evs_in. rewrite forallb_forall. split; intros H e X; [apply mem_In, H, X | apply mem_In, H, X].
Qed.

Lemma evs_in_cons : forall K e t, evs_in K (e :: t) -> In (sev_key e) K /\ evs_in K t.
Proof. intros K e t H. split; [apply H; left; reflexivity | intros x X; apply H; right; exact X]. Qed.

(* the workers of a run change the store only at keys of the run *)
Lemma body_direct_frame : forall K evs wm s, evs_in K evs ->
  remove_all K (snd (body CDirect wm s evs)) = remove_all K s.
Proof.
  intros K evs. induction evs as [|e t IH]; intros wm s H; [reflexivity|].
  apply evs_in_cons in H. destruct H as [Hk Ht]. destruct e as [k|k]; cbn in *.
  - rewrite IH by exact Ht. apply remove_all_put, Hk.
  - rewrite IH by exact Ht. apply remove_all_absorb. intros x [<-|[]]. exact Hk.
Qed.

Lemma direct_run_exact_l : forall h r, body_okb r = true -> r_sweep r = Some true ->
  store (exec_krun CDirect h r) = remove_all (r_keys r) (store h).
Proof.
  intros h r Hb Hs. unfold exec_krun. rewrite Hs. cbn. apply body_direct_frame, body_okb_spec, Hb.
Qed.

Lemma direct_run_clean_l : forall h r, body_okb r = true -> r_sweep r = Some true ->
  (forall k, In k (r_keys r) -> ~ In k (store (exec_krun CDirect h r))) /\ incl (store (exec_krun CDirect h r)) (store h).
Proof.
  intros h r Hb Hs. rewrite direct_run_exact_l by assumption. split.
  - intros k Hk X. apply remove_all_In in X. tauto.
  - intros k X. apply remove_all_In in X. tauto.
Qed.

Lemma exec_khist_app : forall cl rs1 rs2 h, exec_khist cl h (rs1 ++ rs2) = exec_khist cl (exec_khist cl h rs1) rs2.
Proof. intros. unfold exec_khist. apply fold_left_app. Qed.

Lemma direct_hist_exact_l : forall rs h, all_ok rs ->
  store (exec_khist CDirect h rs) = remove_all (flat_map r_keys rs) (store h).
Proof.
  induction rs as [|r rs IH]; intros h H; [cbn; symmetry; apply remove_all_nil|].
  cbn [exec_khist fold_left flat_map]. change (fold_left (exec_krun CDirect) rs ?x) with (exec_khist CDirect x rs).
  rewrite IH by (intros x X; apply H; right; exact X).
  destruct (H r (or_introl eq_refl)) as [Hb Hs]. rewrite direct_run_exact_l by assumption. apply remove_all_app.
Qed.

(* the invariant over the history: after EVERY run of it, no key of that run - fresh or repeated from earlier runs - is in the
   store, and the store holds nothing it did not hold before the first run *)
Lemma direct_every_run_clean_l : forall rs h, all_ok rs -> forall rs1 r rs2, rs = rs1 ++ r :: rs2 ->
  (forall k, In k (r_keys r) -> ~ In k (store (exec_khist CDirect h (rs1 ++ [r])))) /\
  incl (store (exec_khist CDirect h (rs1 ++ [r]))) (store h).
Proof.
  intros rs h H rs1 r rs2 E.
  assert (H1 : all_ok (rs1 ++ [r])).
  { intros x X. apply H. rewrite E. apply in_app_or in X. apply in_or_app. destruct X as [X|[<-|[]]]; [left; exact X | right; left; reflexivity]. }
  rewrite direct_hist_exact_l by exact H1. split.
  - intros k Hk X. apply remove_all_In in X. destruct X as [_ X]. apply X. rewrite flat_map_app. apply in_or_app. right. cbn.
    rewrite app_nil_r. exact Hk.
  - intros k X. apply remove_all_In in X. tauto.
Qed.

(* ... and a swept run is clean whatever happened before it (unswept runs, failed sweeps, foreign keys in the store) *)
Lemma direct_run_clean_any_history_l : forall pre h r, body_okb r = true -> r_sweep r = Some true ->
  forall k, In k (r_keys r) -> ~ In k (store (exec_khist CDirect h (pre ++ [r]))).
Proof.
  intros pre h r Hb Hs k Hk. rewrite exec_khist_app. cbn. apply (proj1 (direct_run_clean_l _ r Hb Hs)), Hk.
Qed.

Lemma stores_spec : forall cl rs h n s, nth_error (stores cl h rs) n = Some s -> s = store (exec_khist cl h (firstn (S n) rs)).
Proof.
  intros cl rs. induction rs as [|r rs IH]; intros h n s H; [destruct n; discriminate|].
  destruct n as [|n]; cbn in H.
  - inversion H. reflexivity.
  - apply IH in H. rewrite H. reflexivity.
Qed.

(* ---------------------------------------------------------------- CMemo ---------------------------------------------------------------- *)
Lemma body_direct_wm : forall evs wm wm' s, snd (body CDirect wm s evs) = snd (body CDirect wm' s evs).
Proof. induction evs as [|[k|k] t IH]; intros wm wm' s; cbn; [reflexivity | apply IH | apply IH]. Qed.

Lemma pending_single : forall m k, remove_all m [k] = if mem k m then [] else [k].
Proof. intros m k. unfold remove_all. cbn. destruct (mem k m); reflexivity. Qed.

(* workers: as long as "what worker k believes dropped is not in the store" holds for the keys they touch, the memoising client
   does to the store what the direct one does *)
Lemma body_memo_direct : forall K evs wm wd s, evs_in K evs -> (forall k, In k K -> In k (wm k) -> ~ In k s) ->
  snd (body CMemo wm s evs) = snd (body CDirect wd s evs).
Proof.
  intros K evs. induction evs as [|e t IH]; intros wm wd s H Inv; [reflexivity|].
  apply evs_in_cons in H. destruct H as [Hk Ht]. destruct e as [k|k]; cbn [body c_upload c_drop sev_key] in *.
  - apply IH; [exact Ht|]. intros j Hj. unfold updm. destruct (Nat.eqb j k) eqn:E.
    + apply Nat.eqb_eq in E. subst j. intros X. apply remove_all_In in X. destruct X as [_ X]. exfalso. apply X. left. reflexivity.
    + intros X Y. apply put_In in Y. destruct Y as [->|Y]; [rewrite Nat.eqb_refl in E; discriminate | exact (Inv j Hj X Y)].
  - rewrite pending_single. destruct (mem k (wm k)) eqn:Em.
    + cbn [app]. rewrite remove_all_nil.
      assert (Hn : ~ In k s) by (apply Inv; [exact Hk | apply mem_In, Em]).
      rewrite (remove_all_id [k] s) by (intros x X [<-|[]]; exact (Hn X)).
      apply IH; [exact Ht|]. intros j Hj. unfold updm. destruct (Nat.eqb j k) eqn:E; [|apply Inv, Hj].
      apply Nat.eqb_eq in E. subst j. intros _. exact Hn.
    + apply IH; [exact Ht|]. intros j Hj. unfold updm. destruct (Nat.eqb j k) eqn:E.
      * apply Nat.eqb_eq in E. subst j. intros _ Y. apply remove_all_In in Y. destruct Y as [_ Y]. apply Y. left. reflexivity.
      * intros X Y. apply remove_all_In in Y. destruct Y as [Y _]. exact (Inv j Hj X Y).
Qed.

Lemma run_memo_direct : forall hm hd r, body_okb r = true -> (forall k, In k (r_keys r) -> ~ In k (memo hm)) ->
  store hm = store hd ->
  store (exec_krun CMemo hm r) = store (exec_krun CDirect hd r) /\ incl (memo (exec_krun CMemo hm r)) (r_keys r ++ memo hm).
Proof.
  intros hm hd r Hb Hd Es. apply body_okb_spec in Hb. unfold exec_krun.
  assert (B : snd (body CMemo (fun _ => memo hm) (store hm) (r_body r)) = snd (body CDirect (fun _ => memo hd) (store hd) (r_body r))).
  { rewrite Es. apply (body_memo_direct (r_keys r)); [exact Hb|]. intros k Hk X. exfalso. exact (Hd k Hk X). }
  destruct (r_sweep r) as [[|]|]; cbn.
  - rewrite (remove_all_id (memo hm) (r_keys r)) by exact Hd. rewrite B. split; [reflexivity | apply incl_refl].
  - split; [exact B | apply incl_appr, incl_refl].
  - split; [exact B | apply incl_appr, incl_refl].
Qed.

Lemma NoDup_app_split : forall (a b : list nat), NoDup (a ++ b) -> NoDup b /\ (forall x, In x a -> ~ In x b).
Proof.
  induction a as [|y a IH]; intros b H; [split; [exact H | intros x []]|].
  cbn in H. inversion H; subst. destruct (IH b H3) as [N D]. split; [exact N|].
  intros x [<-|X]; [intros Y; apply H2, in_or_app; right; exact Y | apply D, X].
Qed.

(* histories in which no key repeats (every run's keys are new: never used by an earlier run, not memoised): the memoising client
   is indistinguishable from the code.  Single API calls, and first runs of sessions, are such histories. *)
Lemma memo_no_repeat_equiv_l : forall rs hm hd, (forall r, In r rs -> body_okb r = true) -> NoDup (flat_map r_keys rs) ->
  (forall k, In k (flat_map r_keys rs) -> ~ In k (memo hm)) -> store hm = store hd ->
  store (exec_khist CMemo hm rs) = store (exec_khist CDirect hd rs).
Proof.
  induction rs as [|r rs IH]; intros hm hd Hb Hn Hd Es; [exact Es|].
  cbn [exec_khist fold_left]. change (fold_left (exec_krun ?c) rs ?x) with (exec_khist c x rs).
  cbn [flat_map] in Hn, Hd.
  destruct (run_memo_direct hm hd r (Hb r (or_introl eq_refl))) as [E1 E2]; [intros k Hk; apply Hd, in_or_app; left; exact Hk | exact Es |].
  apply IH.
  - intros x X. apply Hb. right. exact X.
  - apply NoDup_app_split in Hn. tauto.
  - intros k Hk X. apply E2 in X. apply in_app_or in X. destruct X as [X|X].
    + apply NoDup_app_split in Hn. destruct Hn as [_ D]. exact (D k X Hk).
    + apply (Hd k); [apply in_or_app; right; exact Hk | exact X].
  - exact E1.
Qed.

(* the leak: a key stays in the store through the rest of a run's worker actions unless its own worker drops it *)
Lemma body_keeps : forall cl evs wm s k, In k s -> (forall e, In e evs -> e <> SWDrop k) ->
  In k (snd (body cl wm s evs)).
Proof.
  intros cl evs. induction evs as [|e t IH]; intros wm s k Hk Hn; [exact Hk|].
  assert (Ht : forall e0, In e0 t -> e0 <> SWDrop k) by (intros e0 X; apply Hn; right; exact X).
  destruct e as [j|j]; cbn [body c_upload c_drop].
  - apply IH; [apply put_In; right; exact Hk | exact Ht].
  - assert (Hj : j <> k) by (intros ->; apply (Hn (SWDrop k)); [left|]; reflexivity).
    destruct cl; cbn [c_drop].
    + apply IH; [|exact Ht]. apply remove_all_In. split; [exact Hk | intros [X|[]]; exact (Hj X)].
    + apply IH; [|exact Ht]. apply remove_all_In. split; [exact Hk|]. intros X. rewrite pending_single in X.
      destruct (mem j (wm j)); [destruct X | destruct X as [X|[]]; exact (Hj X)].
Qed.

Lemma body_app : forall cl b1 b2 wm s, body cl wm s (b1 ++ b2) = body cl (fst (body cl wm s b1)) (snd (body cl wm s b1)) b2.
Proof.
  intros cl b1. induction b1 as [|e t IH]; intros b2 wm s; [reflexivity|].
  destruct e as [k|k]; cbn [app body c_upload]; [apply IH|]. destruct (c_drop cl (wm k) [k] s) as [m s'] eqn:E. apply IH.
Qed.

(* a key the main process has memoised as dropped (it swept it in an earlier run) and that a worker uploads again without
   dropping it itself is still in the store when the run has exited - sweep or no sweep *)
Lemma memo_rememoised_key_survives_l : forall h r k b1 b2, In k (memo h) -> r_body r = b1 ++ SUp k :: b2 ->
  (forall e, In e b2 -> e <> SWDrop k) -> In k (store (exec_krun CMemo h r)).
Proof.
  intros h r k b1 b2 Hm Eb Hn. unfold exec_krun.
  assert (B : In k (snd (body CMemo (fun _ => memo h) (store h) (r_body r)))).
  { rewrite Eb, body_app. cbn [body c_upload]. apply body_keeps; [apply put_In; left; reflexivity | exact Hn]. }
  destruct (r_sweep r) as [[|]|]; cbn; try exact B.
  apply remove_all_In. split; [exact B|]. intros X. apply remove_all_In in X. tauto.
Qed.

(* witness: a session whose plan has one transform step (key 7); every run creates one more object with a new key (1, 2, 3) and
   uploads both.  The code's client leaves the store empty after every run; the memoising client leaves 7 from run 2 on. *)
Definition wit_run (fresh : nat) : krun :=
  {| r_fresh := [fresh]; r_stable := [7]; r_body := [SUp fresh; SUp 7; SUp 7]; r_sweep := Some true |}.
Definition wit_hist : list krun := [wit_run 1; wit_run 2; wit_run 3].
Definition h0 : hst := {| store := []; memo := [] |}.

Lemma memo_leak_refuted_l :
  hist_okb [7] [] wit_hist = true /\ forallb body_okb wit_hist = true /\ repeated wit_hist = [7; 7] /\
  stores CDirect h0 wit_hist = [[]; []; []] /\ stores CMemo h0 wit_hist = [[]; [7]; [7]].
Proof. vm_compute. repeat split; reflexivity. Qed.

(* two sessions (plan-derived keys 7 and 8), each run twice: one more permanent dataset per session that is run again *)
Definition wit_run2 (fresh : nat) : krun :=
  {| r_fresh := [fresh]; r_stable := [8]; r_body := [SUp fresh; SUp 8]; r_sweep := Some true |}.
Lemma memo_store_grows_refuted_l :
  store (exec_khist CMemo h0 [wit_run 1; wit_run 2; wit_run2 3; wit_run2 4]) = [8; 7] /\
  store (exec_khist CDirect h0 [wit_run 1; wit_run 2; wit_run2 3; wit_run2 4]) = [].
Proof. vm_compute. split; reflexivity. Qed.

(* ---------------------------------------------------------------- the session ---------------------------------------------------------------- *)
(* whatever operations a prepared session has carried out (runs, failing runs, drained or abandoned streams, get_result), its
   plan - hence the set of plan-derived dataset keys - is the one it was prepared with: these keys repeat in every run *)
Lemma stable_keys_invariant_l : forall p a0 h, stable_keys (s_plan (after_s (prepare p a0) h)) = stable_keys p.
Proof.
  intros p a0 h. pose proof (after_frozen h (prepare p a0)) as F. unfold frozen in F. injection F as Ep _ _. rewrite Ep. reflexivity.
Qed.

(* ---------------------------------------------------------------- the checker ---------------------------------------------------------------- *)
Lemma chk_stores_nth : forall ms os, chk_stores ms os = true -> forall n o, nth_error os n = Some o ->
  exists m, nth_error ms n = Some m /\ set_eqb m (or_after o) = true.
Proof.
  induction ms as [|m ms IH]; intros os H n o Hn; destruct os as [|o' os]; try discriminate; [destruct n; discriminate|].
  cbn in H. apply andb_true_iff in H. destruct H as [H1 H2]. destruct n as [|n]; cbn in Hn.
  - inversion Hn; subst. exists m. split; [reflexivity | exact H1].
  - destruct (IH os H2 n o Hn) as [m' [A B]]. exists m'. split; assumption.
Qed.

(* what an accepted observation says: the store observed after the n-th call is, as a set, the model's store after n runs *)
Lemma chk_rerun_sound_l : forall k, chk_rerun k = true -> forall n o, nth_error (hc_runs k) n = Some o ->
  forall x, In x (or_after o) <->
            In x (store (exec_khist CDirect {| store := hc_store0 k; memo := [] |} (firstn (S n) (map or_run (hc_runs k))))).
Proof.
  intros k H n o Hn x. unfold chk_rerun in H. repeat (apply andb_true_iff in H; destruct H as [H ?]).
  destruct (chk_stores_nth _ _ H1 n o Hn) as [m [A B]]. apply stores_spec in A. subst m.
  unfold set_eqb in B. apply andb_true_iff in B. destruct B as [B1 B2]. apply subset_incl in B1, B2. split; [apply B2 | apply B1].
Qed.
