(* Determinism of the planner model on the strict Stage-A fragment: the plan does not depend on any of the order parameters
   (dict order of feature_link_parents, iteration order of the parent sets, the order oracle), up to the order of the
   steps, the order inside the steps' sets and the step ids. *)
From Coq Require Import List Bool Arith Lia Permutation.
Import ListNotations.
Require Import MV.Model.Orch MV.Model.OrchCheck MV.Model.Grouping MV.Model.PlannerA MV.Spec.PlannerASpec.
Require Import MV.Proofs.OrchP MV.Proofs.OrchTermP MV.Proofs.PlannerASets MV.Proofs.PlannerAGraph.
Require Import MV.Proofs.PlannerAQueue MV.Proofs.PlannerALevels MV.Proofs.PlannerAOrder MV.Proofs.PlannerAP.

(* ---------- Forall2 helpers ---------- *)
Lemma Forall2_In_l : forall (A B : Type) (R : A -> B -> Prop) a b x, Forall2 R a b -> In x a -> exists y, In y b /\ R x y.
Proof.
  intros A B R a b x H. induction H as [|x0 y0 a b Hxy H IH]; intros Hx; [destruct Hx|].
  destruct Hx as [Hx|Hx]; [subst x0; exists y0; split; [left; reflexivity | exact Hxy]|].
  destruct (IH Hx) as [y [Hy Hr]]. exists y. split; [right; exact Hy | exact Hr].
Qed.

Lemma Forall2_In_r : forall (A B : Type) (R : A -> B -> Prop) a b y, Forall2 R a b -> In y b -> exists x, In x a /\ R x y.
Proof.
  intros A B R a b y H. induction H as [|x0 y0 a b Hxy H IH]; intros Hy; [destruct Hy|].
  destruct Hy as [Hy|Hy]; [subst y0; exists x0; split; [left; reflexivity | exact Hxy]|].
  destruct (IH Hy) as [x [Hx Hr]]. exists x. split; [right; exact Hx | exact Hr].
Qed.

Lemma Forall2_flip : forall (A B : Type) (R : A -> B -> Prop) a b, Forall2 R a b -> Forall2 (fun y x => R x y) b a.
Proof. intros A B R a b H. induction H as [|x y a b Hxy H IH]; constructor; assumption. Qed.

Lemma Forall2_sym_gen : forall (A : Type) (R : A -> A -> Prop), (forall x y, R x y -> R y x) ->
  forall a b, Forall2 R a b -> Forall2 R b a.
Proof. intros A R Hs a b H. induction H as [|x y a b Hxy H IH]; constructor; [apply Hs; exact Hxy | exact IH]. Qed.

Lemma Forall2_trans_gen : forall (A : Type) (R : A -> A -> Prop), (forall x y z, R x y -> R y z -> R x z) ->
  forall a b c, Forall2 R a b -> Forall2 R b c -> Forall2 R a c.
Proof.
  intros A R Ht a b c H. revert c. induction H as [|x y a b Hxy H IH]; intros c Hc; inversion Hc as [|y' z b' c' Hyz Hbc]; subst.
  - constructor.
  - constructor; [exact (Ht x y z Hxy Hyz) | apply IH; exact Hbc].
Qed.

Lemma Forall2_flat_map : forall (A B : Type) (R : B -> B -> Prop) (F G : A -> list B) l,
  (forall x, In x l -> Forall2 R (F x) (G x)) -> Forall2 R (flat_map F l) (flat_map G l).
Proof.
  intros A B R F G l. induction l as [|x l IH]; intros H; cbn; [constructor|].
  apply Forall2_app; [apply H; left; reflexivity | apply IH; intros y Hy; apply H; right; exact Hy].
Qed.

Lemma Forall2_map2 : forall (A B : Type) (R : B -> B -> Prop) (f f' : A -> B) (Q : A -> A -> Prop) l l',
  Forall2 Q l l' -> (forall x y, Q x y -> R (f x) (f' y)) -> Forall2 R (map f l) (map f' l').
Proof. intros A B R f f' Q l l' H Hq. induction H as [|x y l l' Hxy H IH]; cbn; constructor; [apply Hq; exact Hxy | exact IH]. Qed.

Lemma existsb_perm : forall (f f' : nat -> bool) l l', Permutation l l' -> (forall x, f x = f' x) -> existsb f l = existsb f' l'.
Proof.
  intros f f' l l' H Hf. destruct (existsb f l) eqn:E.
  - symmetry. apply existsb_exists in E. destruct E as [x [Hx Hfx]]. apply existsb_exists. exists x.
    split; [exact (Permutation_in _ H Hx) | rewrite <- Hf; exact Hfx].
  - symmetry. destruct (existsb f' l') eqn:E'; [|reflexivity]. exfalso.
    apply existsb_exists in E'. destruct E' as [x [Hx Hfx]].
    assert (Ht : existsb f l = true).
    { apply existsb_exists. exists x. split; [exact (Permutation_in _ (Permutation_sym H) Hx) | rewrite Hf; exact Hfx]. }
    rewrite Ht in E. discriminate.
Qed.

(* ---------- step_equiv is an equivalence ---------- *)
Lemma step_equiv_refl : forall s, step_equiv s s.
Proof. intros s. split; [reflexivity|]. split; [apply Permutation_refl|]. split; [apply Permutation_refl | reflexivity]. Qed.
Lemma step_equiv_sym : forall s s', step_equiv s s' -> step_equiv s' s.
Proof.
  intros s s' (H1 & H2 & H3 & H4). split; [symmetry; exact H1|]. split; [apply Permutation_sym; exact H2|].
  split; [apply Permutation_sym; exact H3 | symmetry; exact H4].
Qed.
Lemma step_equiv_trans : forall a b c, step_equiv a b -> step_equiv b c -> step_equiv a c.
Proof.
  intros a b c (H1 & H2 & H3 & H4) (K1 & K2 & K3 & K4).
  split; [congruence|]. split; [exact (Permutation_trans H2 K2)|]. split; [exact (Permutation_trans H3 K3) | congruence].
Qed.
Lemma step_equiv_set_sid : forall i s, step_equiv (set_sid i s) s.
Proof. intros i s. split; [reflexivity|]. split; [apply Permutation_refl|]. split; [apply Permutation_refl | reflexivity]. Qed.

Lemma number_equiv : forall p i, Forall2 step_equiv (number i p) p.
Proof. intros p. induction p as [|s p IH]; intros i; cbn; constructor; [apply step_equiv_set_sid | apply IH]. Qed.

(* ---------- consequences of graph_equiv ---------- *)
Lemma Forall2_fid : forall a b, Forall2 node_equiv a b -> map fid a = map fid b.
Proof.
  intros a b H. induction H as [|x y a b Hxy H IH]; cbn; [reflexivity|]. destruct Hxy as [E _]. rewrite E, IH. reflexivity.
Qed.

Section Equiv.
  Variables g g' : fgraph.
  Hypothesis Heq : graph_equiv g g'.

  Lemma ge_nodes_l : forall n, In n g -> exists n', In n' g' /\ node_equiv n n'.
  Proof.
    intros n Hn. destruct Heq as [g2 [Hp Hf]]. apply (Permutation_in _ Hp) in Hn.
    exact (Forall2_In_l _ _ _ _ _ n Hf Hn).
  Qed.

  Lemma ge_nodes_r : forall n', In n' g' -> exists n, In n g /\ node_equiv n n'.
  Proof.
    intros n' Hn. destruct Heq as [g2 [Hp Hf]]. destruct (Forall2_In_r _ _ _ _ _ n' Hf Hn) as [n [Hn2 He]].
    exists n. split; [exact (Permutation_in _ (Permutation_sym Hp) Hn2) | exact He].
  Qed.

  Lemma ge_ids : Permutation (ids g) (ids g').
  Proof.
    destruct Heq as [g2 [Hp Hf]]. unfold ids. apply (Permutation_trans (Permutation_map fid Hp)).
    rewrite (Forall2_fid g2 g' Hf). apply Permutation_refl.
  Qed.

  Lemma ge_parent : forall p c, parent g p c <-> parent g' p c.
  Proof.
    intros p c. split.
    - intros [n [Hn [E Hp]]]. destruct (ge_nodes_l n Hn) as [n' [Hn' (E1 & _ & E3 & _)]].
      exists n'. split; [exact Hn'|]. split; [congruence | exact (Permutation_in _ E3 Hp)].
    - intros [n' [Hn' [E Hp]]]. destruct (ge_nodes_r n' Hn') as [n [Hn (E1 & _ & E3 & _)]].
      exists n. split; [exact Hn|]. split; [congruence | exact (Permutation_in _ (Permutation_sym E3) Hp)].
  Qed.

  Lemma ge_anc : forall a c, anc g a c <-> anc g' a c.
  Proof.
    intros a c. split; intros H.
    - induction H as [p c Hpc|a m c Ham IH Hmc]; [apply anc_direct; apply ge_parent; exact Hpc|].
      apply (anc_step g' a m c); [exact IH | apply ge_parent; exact Hmc].
    - induction H as [p c Hpc|a m c Ham IH Hmc]; [apply anc_direct; apply ge_parent; exact Hpc|].
      apply (anc_step g a m c); [exact IH | apply ge_parent; exact Hmc].
  Qed.

  Lemma ge_graph_ok : graph_ok g -> graph_ok g'.
  Proof.
    intros (Hnd & Hcl & Hfi & [rk Hrk]). split; [exact (Permutation_NoDup ge_ids Hnd)|]. split; [|split].
    - intros p c H. apply (Permutation_in _ ge_ids). apply (Hcl p c). apply ge_parent. exact H.
    - intros n' Hn'. destruct (ge_nodes_r n' Hn') as [n [Hn (_ & _ & E3 & _)]]. exact (Permutation_NoDup E3 (Hfi n Hn)).
    - exists rk. intros p c H. apply Hrk. apply ge_parent. exact H.
  Qed.

  Lemma ge_strict : strict g -> strict g'.
  Proof.
    intros Hs n' m' Hn' Hm'. destruct (ge_nodes_r n' Hn') as [n [Hn (_ & _ & _ & _ & E5)]].
    destruct (ge_nodes_r m' Hm') as [m [Hm (_ & _ & _ & _ & F5)]]. rewrite <- E5, <- F5. apply Hs; assumption.
  Qed.

  Lemma node_of_none : forall (h : fgraph) u, ~ In u (ids h) -> node_of h u = None.
  Proof.
    intros h u H. destruct (node_of h u) as [n|] eqn:E; [|reflexivity]. exfalso. apply node_of_In in E.
    destruct E as [Hn E]. apply H. subst u. apply in_map. exact Hn.
  Qed.

  Lemma ge_node_fields : NoDup (ids g) -> forall u, grp_of g u = grp_of g' u /\ isreq g u = isreq g' u.
  Proof.
    intros Hnd u. pose proof (Permutation_NoDup ge_ids Hnd) as Hnd'.
    destruct (in_dec Nat.eq_dec u (ids g)) as [Hu|Hu].
    - unfold ids in Hu. apply in_map_iff in Hu. destruct Hu as [n [E Hn]]. subst u.
      destruct (ge_nodes_l n Hn) as [n' [Hn' (E1 & E2 & _ & E4 & _)]].
      unfold grp_of, isreq. rewrite (node_of_complete g Hnd n Hn). rewrite E1, (node_of_complete g' Hnd' n' Hn').
      split; assumption.
    - assert (Hu' : ~ In u (ids g')) by (intros H; apply Hu; exact (Permutation_in _ (Permutation_sym ge_ids) H)).
      unfold grp_of, isreq. rewrite (node_of_none g u Hu), (node_of_none g' u Hu'). split; reflexivity.
  Qed.
End Equiv.

(* ---------- the theorem ---------- *)
Section Det.
  Variables (ord ord' : oparam) (g g' : fgraph).
  Hypothesis Hord : ord_ok ord.
  Hypothesis Hord' : ord_ok ord'.
  Hypothesis Hok : graph_ok g.
  Hypothesis Hstrict : strict g.
  Hypothesis Heq : graph_equiv g g'.

  Let Hok' : graph_ok g' := ge_graph_ok g g' Heq Hok.
  Let Hstrict' : strict g' := ge_strict g g' Heq Hstrict.

  Lemma det_closure : forall u a, In a (aget0 u (p2c_of g)) <-> In a (aget0 u (p2c_of g')).
  Proof.
    intros u a. rewrite (closure_correct g Hok a u), (closure_correct g' Hok' a u). apply ge_anc. exact Heq.
  Qed.

  Lemma det_grp : forall u, grp_of g u = grp_of g' u.
  Proof. intros u. apply (ge_node_fields g g' Heq (proj1 Hok) u). Qed.
  Lemma det_isreq : forall u, isreq g u = isreq g' u.
  Proof. intros u. apply (ge_node_fields g g' Heq (proj1 Hok) u). Qed.

  Lemma det_members : forall k, Permutation (members g (queue_of g) k) (members g' (queue_of g') k).
  Proof.
    intros k. apply NoDup_Permutation; [apply members_nodup | apply members_nodup|].
    intros u. rewrite !members_spec, (queue_complete g Hok), (queue_complete g' Hok'), det_grp. split.
    - intros [H E]. split; [exact (Permutation_in _ (ge_ids g g' Heq) H) | exact E].
    - intros [H E]. split; [exact (Permutation_in _ (Permutation_sym (ge_ids g g' Heq)) H) | exact E].
  Qed.

  Lemma keys_spec : forall (h : fgraph), graph_ok h -> forall k,
    In k (map fst (planned_queue h (queue_of h))) <-> exists u, In u (ids h) /\ grp_of h u = k.
  Proof.
    intros h Hh k. destruct (planned_queue_spec h (queue_of h)) as (_ & P2 & P3). split.
    - intros H. apply in_map_iff in H. destruct H as [e [E He]]. destruct (P2 e He) as [_ [u [Hu Hk]]].
      exists u. split; [apply (queue_complete h Hh); exact Hu | congruence].
    - intros [u [Hu Hk]]. destruct (P3 u (proj2 (queue_complete h Hh u) Hu)) as [e [He [Ek _]]].
      apply in_map_iff. exists e. split; [congruence | exact He].
  Qed.

  Lemma det_keys : Permutation (map fst (planned_queue g (queue_of g))) (map fst (planned_queue g' (queue_of g'))).
  Proof.
    apply NoDup_Permutation.
    - apply (planned_queue_spec g (queue_of g)).
    - apply (planned_queue_spec g' (queue_of g')).
    - intros k. rewrite (keys_spec g Hok), (keys_spec g' Hok'). split.
      + intros [u [Hu Hk]]. exists u. split; [exact (Permutation_in _ (ge_ids g g' Heq) Hu) | rewrite <- det_grp; exact Hk].
      + intros [u [Hu Hk]]. exists u. split; [exact (Permutation_in _ (Permutation_sym (ge_ids g g' Heq)) Hu) | rewrite det_grp; exact Hk].
  Qed.

  Lemma det_glevels : forall k, Forall2 (@Permutation nat) (glevels ord g k) (glevels ord' g' k).
  Proof.
    intros k. unfold glevels. apply split_levels_perm; [exact det_closure|].
    apply (Permutation_trans (Hord 1 _)). apply (Permutation_trans (Hord 0 _)).
    apply (Permutation_trans (det_members k)). apply Permutation_sym.
    apply (Permutation_trans (Hord' 1 _)). apply Hord'.
  Qed.

  Lemma det_step : forall lvl lvl', Permutation lvl lvl' ->
    step_equiv (mk_step ord g (p2c_of g) lvl) (mk_step ord' g' (p2c_of g') lvl').
  Proof.
    intros lvl lvl' Hl. unfold step_equiv. cbn [skind uuids req requested mk_step]. split; [reflexivity|]. split; [|split].
    - apply (Permutation_trans (Hord 2 _)). apply (Permutation_trans Hl). apply Permutation_sym. apply Hord'.
    - apply (Permutation_trans (Hord 3 _)). apply Permutation_sym. apply (Permutation_trans (Hord' 3 _)). apply Permutation_sym.
      apply NoDup_Permutation; [apply NoDup_req_of_level | apply NoDup_req_of_level|].
      intros a. rewrite !In_req_of_level. split.
      + intros [u [Hu Ha]]. exists u. split; [exact (Permutation_in _ Hl Hu) | apply det_closure; exact Ha].
      + intros [u [Hu Ha]]. exists u. split; [exact (Permutation_in _ (Permutation_sym Hl) Hu) | apply det_closure; exact Ha].
    - apply existsb_perm; [exact Hl | exact det_isreq].
  Qed.

  Definition block (o : oparam) (h : fgraph) (k : nat) : list step := map (mk_step o h (p2c_of h)) (glevels o h k).

  Lemma raw_as_blocks : forall o h, ord_ok o -> graph_ok h -> strict h ->
    raw_plan o h = flat_map (block o h) (map fst (planned_queue h (queue_of h))).
  Proof. intros o h Ho Hh Hs. rewrite (raw_plan_eq o h Ho Hh Hs), flat_map_map. reflexivity. Qed.

  Theorem plan_deterministic_l : plan_equiv (plan_of ord g) (plan_of ord' g').
  Proof.
    set (keys := map fst (planned_queue g (queue_of g))). set (keys' := map fst (planned_queue g' (queue_of g'))).
    assert (H1 : Forall2 step_equiv (plan_of ord g) (flat_map (block ord' g') keys)).
    { apply (Forall2_trans_gen _ _ step_equiv_trans _ (raw_plan ord g)); [apply number_equiv|].
      rewrite (raw_as_blocks ord g Hord Hok Hstrict). apply Forall2_flat_map. intros k _. unfold block.
      apply (Forall2_map2 _ _ _ _ _ _ _ _ (det_glevels k)). intros x y Hxy. apply det_step. exact Hxy. }
    assert (H2 : Permutation (flat_map (block ord' g') keys) (raw_plan ord' g')).
    { rewrite (raw_as_blocks ord' g' Hord' Hok' Hstrict'). apply Permutation_flat_map. exact det_keys. }
    assert (H3 : Forall2 step_equiv (raw_plan ord' g') (plan_of ord' g')).
    { apply (Forall2_sym_gen _ _ step_equiv_sym). apply number_equiv. }
    destruct (Permutation_Forall2 H2 (Forall2_flip _ _ _ _ _ H1)) as [q [Hq1 Hq2]].
    exists q. split; [exact Hq1|].
    apply (Forall2_trans_gen _ _ step_equiv_trans _ (raw_plan ord' g')); [|exact H3].
    apply Forall2_flip in Hq2. exact Hq2.
  Qed.
End Det.

Theorem plan_deterministic : forall ord ord' g g', ord_ok ord -> ord_ok ord' -> graph_ok g -> strict g -> graph_equiv g g' ->
  plan_equiv (plan_of ord g) (plan_of ord' g').
Proof. intros ord ord' g g' H1 H2 H3 H4 H5. exact (plan_deterministic_l ord ord' g g' H1 H2 H3 H4 H5). Qed.

(* ---------- the accept / reject decision does not depend on the orders either ---------- *)
Lemma find_sid : forall (p : plan), NoDup (map sid p) -> forall s, In s p -> find (fun x => Nat.eqb (sid x) (sid s)) p = Some s.
Proof.
  intros p. induction p as [|a p IH]; intros Hnd s Hs; [destruct Hs|].
  cbn in Hnd. apply NoDup_cons_iff in Hnd. destruct Hnd as [Ha Hp]. cbn. destruct Hs as [Hs|Hs].
  - subst a. rewrite Nat.eqb_refl. reflexivity.
  - destruct (Nat.eqb (sid a) (sid s)) eqn:E.
    + exfalso. apply Nat.eqb_eq in E. apply Ha. rewrite E. apply in_map. exact Hs.
    + apply IH; assumption.
Qed.

(* well-formedness for SOME order is a property of the plan up to plan_equiv (for plans of any kind of steps) *)
Theorem wf_exists_equiv : forall p p', plan_equiv p p' -> wf_struct p' = true ->
  (exists order, wf_plan order p = true) -> exists order', wf_plan order' p' = true.
Proof.
  intros p p' [q [Hperm Hf2]] Hst [order Hwf].
  destruct (wf_plan_props order p Hwf) as (_ & _ & Hdj & _ & Hearlier).
  set (posn := fun s : step => match pos (sid s) order with Some i => i | None => 0 end).
  set (prodpos := fun u => match find_producer p u with Some s => posn s | None => 0 end).
  assert (FA : forall s u, In s p -> In u (uuids s) -> prodpos u = posn s).
  { intros s u Hs Hu. unfold prodpos. destruct (find_producer_some p s u Hs Hu) as [s2 [Ef [Hs2 Hu2]]]. rewrite Ef.
    rewrite (Hdj s2 s u Hs2 Hs Hu2 Hu). reflexivity. }
  assert (Hcor : forall s', In s' p' -> exists s, In s p /\ step_equiv s s').
  { intros s' Hs'. destruct (Forall2_In_r _ _ _ _ _ s' Hf2 Hs') as [s [Hs He]].
    exists s. split; [exact (Permutation_in _ (Permutation_sym Hperm) Hs) | exact He]. }
  unfold wf_struct in Hst. apply andb_true_iff in Hst. destruct Hst as [Hst Hprod].
  apply andb_true_iff in Hst. destruct Hst as [Hst Huu]. apply andb_true_iff in Hst. destruct Hst as [Hne Hsid].
  rewrite forallb_forall in Hne, Hprod. apply nodupb_NoDup in Hsid, Huu.
  assert (Hne' : forall s', In s' p' -> uuids s' <> []).
  { intros s' Hs' E. specialize (Hne s' Hs'). rewrite E in Hne. discriminate. }
  set (rk' := fun i => match find (fun x => Nat.eqb (sid x) i) p' with Some s => prodpos (hd 0 (uuids s)) | None => 0 end).
  assert (FC : forall s' s, In s' p' -> In s p -> step_equiv s s' -> rk' (sid s') = posn s).
  { intros s' s Hs' Hs (_ & Hu & _ & _). unfold rk'. rewrite (find_sid p' Hsid s' Hs'). apply FA; [exact Hs|].
    apply (Permutation_in _ (Permutation_sym Hu)). apply hd_In. exact (Hne' s' Hs'). }
  exists (order_upto p' rk' (S (list_max (map (fun s => rk' (sid s)) p')))).
  apply wf_plan_of_rank.
  - exact Hne'.
  - exact Hsid.
  - exact Huu.
  - intros s u Hs Hu. specialize (Hprod s Hs). rewrite forallb_forall in Hprod. apply mem_In. exact (Hprod u Hu).
  - intros s Hs. assert (H : rk' (sid s) <= list_max (map (fun s0 => rk' (sid s0)) p')); [|lia].
    pose proof (proj1 (list_max_le (map (fun s0 => rk' (sid s0)) p') _) (le_n _)) as Hall.
    rewrite Forall_forall in Hall. apply Hall. apply in_map_iff. exists s. split; [reflexivity | exact Hs].
  - intros s1' s2' u H1 H2 Hu Hu2. destruct (Hcor s1' H1) as [s1 [Hs1 E1]]. destruct (Hcor s2' H2) as [s2 [Hs2 E2]].
    rewrite (FC s1' s1 H1 Hs1 E1), (FC s2' s2 H2 Hs2 E2).
    destruct E1 as (_ & _ & Er1 & _). destruct E2 as (_ & Eu2 & _ & _).
    pose proof (Permutation_in _ (Permutation_sym Er1) Hu) as Hur. pose proof (Permutation_in _ (Permutation_sym Eu2) Hu2) as Huu2.
    destruct (Hearlier s1 u Hs1 Hur) as (sp & i & j & Hsp & Hup & Hi & Hj & Hlt).
    rewrite (Hdj s2 sp u Hs2 Hsp Huu2 Hup). unfold posn. rewrite Hi, Hj. exact Hlt.
Qed.

Lemma plan_equiv_sym : forall p p', plan_equiv p p' -> plan_equiv p' p.
Proof.
  intros p p' [q [Hperm Hf2]].
  destruct (Permutation_Forall2 (Permutation_sym Hperm) (Forall2_flip _ _ _ _ _ (Forall2_sym_gen _ _ step_equiv_sym _ _ Hf2))) as [q' [Hq1 Hq2]].
  exists q'. split; [exact Hq1|]. apply (Forall2_sym_gen _ _ step_equiv_sym). apply Forall2_flip in Hq2.
  apply (Forall2_sym_gen _ _ step_equiv_sym). exact Hq2.
Qed.

(* accepted under one choice of the orders iff accepted under any other; the plans are then plan_equiv *)
Theorem prepare_deterministic : forall ord ord' g g', ord_ok ord -> ord_ok ord' -> graph_ok g -> strict g -> graph_equiv g g' ->
  (prepare_A ord g = Planned (plan_of ord g) <-> prepare_A ord' g' = Planned (plan_of ord' g')) /\
  (prepare_A ord g = RejectedCycle <-> prepare_A ord' g' = RejectedCycle) /\
  plan_equiv (plan_of ord g) (plan_of ord' g').
Proof.
  intros ord ord' g g' Hord Hord' Hok Hs Heq.
  pose proof (ge_graph_ok g g' Heq Hok) as Hok'. pose proof (ge_strict g g' Heq Hs) as Hs'.
  pose proof (plan_deterministic ord ord' g g' Hord Hord' Hok Hs Heq) as Hpe.
  assert (Hiff : prepare_A ord g = Planned (plan_of ord g) <-> prepare_A ord' g' = Planned (plan_of ord' g')).
  { rewrite (prepare_accepts_iff ord g Hord Hok Hs), (prepare_accepts_iff ord' g' Hord' Hok' Hs'). split; intros H.
    - exact (wf_exists_equiv _ _ Hpe (plan_struct ord' g' Hord' Hok' Hs') H).
    - exact (wf_exists_equiv _ _ (plan_equiv_sym _ _ Hpe) (plan_struct ord g Hord Hok Hs) H). }
  split; [exact Hiff|]. split; [|exact Hpe].
  destruct (prepare_total ord g Hord Hok Hs) as [A|A]; destruct (prepare_total ord' g' Hord' Hok' Hs') as [B|B].
  - rewrite A, B. split; discriminate.
  - exfalso. apply Hiff in A. rewrite A in B. discriminate.
  - exfalso. apply Hiff in B. rewrite B in A. discriminate.
  - rewrite A, B. split; reflexivity.
Qed.
