(* Source-text tie, C17: the two compatibility relations read from the SOURCE TEXT of datatype_validator.py (literal sets and
   the dict literal, Gen/Src.v) equal the documented tables (Spec/Types.v) and the tables obtained independently by
   EVALUATING the code on all 121 pairs (Gen/TypeTables.v). *)
From Coq Require Import List Bool.
Require Import MV.Model.PySem MV.Spec.Types MV.Gen.Src MV.Gen.TypeTables.

Lemma types_strict_src : forall d a, DataTypeValidator_types_compatible d a = strict_spec d a.
Proof. destruct d, a; vm_compute; reflexivity. Qed.

Lemma types_lenient_src : forall d a, DataTypeValidator_types_loosely_compatible d a = lenient_spec d a.
Proof. destruct d, a; vm_compute; reflexivity. Qed.

Lemma types_strict_two_routes : forall d a, gen_strict d a = Some (DataTypeValidator_types_compatible d a).
Proof. destruct d, a; vm_compute; reflexivity. Qed.

Lemma types_lenient_two_routes : forall d a, gen_lenient d a = Some (DataTypeValidator_types_loosely_compatible d a).
Proof. destruct d, a; vm_compute; reflexivity. Qed.
