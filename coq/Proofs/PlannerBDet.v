(* Stage B1, part 6: determinism of the PLAN where add_tfs has no choice to make.

   If kf_tfs_choice is false for (ord, g) and for (ord', g') - all features of a step have the same ancestors and no two
   constructed transform steps are equal for __eq__ - then for equivalent graphs the two plans are the same plan up to
   the order of the steps, the order inside the steps' sets, the step ids, the fresh uuids of the transform steps and the
   choice of any_uuid (Spec/PlannerBSpec.v bplan_equiv).  Outside this class the statement is false
   (PlannerBRefuted.part_two_plans).

   Proof: the feature-group skeletons are equivalent by Stage A's determinism (PlannerADet, through erase); every step
   constructs one kept transform step per maximal cross-framework parent of its representative, and that set of parents
   does not depend on the representative (uniform steps) nor on the iteration order; blocks are matched one by one. *)
From Coq Require Import List Bool Arith Lia Permutation.
Import ListNotations.
Require Import MV.Model.Orch MV.Model.OrchCheck MV.Model.Grouping MV.Model.PlannerA MV.Spec.PlannerASpec.
Require Import MV.Model.PlannerB MV.Spec.PlannerBSpec MV.Model.PlanDefects.
Require Import MV.Proofs.OrchP MV.Proofs.OrchTermP MV.Proofs.PlannerASets MV.Proofs.PlannerAGraph MV.Proofs.PlannerAQueue.
Require Import MV.Proofs.PlannerALevels MV.Proofs.PlannerAOrder MV.Proofs.PlanSimP MV.Proofs.PlannerAP MV.Proofs.PlannerADet.
Require Import MV.Proofs.PlannerBErase MV.Proofs.PlannerBP MV.Proofs.PlannerBWf MV.Proofs.PlannerBDefects.
Require Import MV.Proofs.PlannerBChoice MV.Proofs.PlannerBAccept.

(* ---------- list facts ---------- *)
Lemma list_max_perm : forall l l', Permutation l l' -> list_max l = list_max l'.
Proof. intros l l' H. unfold list_max. induction H; cbn [fold_right]; lia. Qed.

Lemma Forall2_map_both : forall (A B : Type) (R : B -> B -> Prop) (f f' : A -> B) l l',
  Forall2 R (map f l) (map f' l') -> Forall2 (fun x y => R (f x) (f' y)) l l'.
Proof.
  intros A B R f f' l. induction l as [|x l IH]; intros l' H; destruct l' as [|y l']; cbn in H; inversion H; subst; constructor.
  - assumption.
  - apply IH. assumption.
Qed.

Lemma Forall2_impl_in : forall (A B : Type) (R S : A -> B -> Prop) l l',
  (forall x y, In x l -> In y l' -> R x y -> S x y) -> Forall2 R l l' -> Forall2 S l l'.
Proof.
  intros A B R S l l' H F. induction F as [|x y l l' Hxy F IH]; constructor.
  - apply H; [left; reflexivity | left; reflexivity | exact Hxy].
  - apply IH. intros a b Ha Hb. apply H; right; assumption.
Qed.

(* blocks that correspond one to one, each up to an inner permutation *)
Lemma concat_blocks : forall (A : Type) (Rel : A -> A -> Prop) (Bs Bs' : list (list A)),
  Forall2 (fun B B' => exists Q, Permutation B Q /\ Forall2 Rel Q B') Bs Bs' ->
  exists q, Permutation (concat Bs) q /\ Forall2 Rel q (concat Bs').
Proof.
  intros A Rel Bs Bs' H. induction H as [|B B' Bs Bs' [Q [HP HF]] _ [q [IP IF]]]; cbn.
  - exists []. split; constructor.
  - exists (Q ++ q). split; [apply Permutation_app; assumption | apply Forall2_app; assumption].
Qed.

Lemma Forall2_three : forall (A B : Type) (S1 : A -> B -> Prop) (Rel : A -> A -> Prop) (Rel' : B -> B -> Prop) l1 l2 l3 l4,
  Forall2 S1 l1 l2 -> Forall2 Rel l1 l3 -> Forall2 S1 l3 l4 ->
  (forall a b c d, S1 a b -> Rel a c -> S1 c d -> Rel' b d) -> Forall2 Rel' l2 l4.
Proof.
  intros A B S1 Rel Rel' l1 l2 l3 l4 H1. revert l3 l4. induction H1 as [|a b l1 l2 Hab _ IH]; intros l3 l4 H2 H3 Hc.
  - inversion H2; subst. inversion H3; subst. constructor.
  - inversion H2 as [|? c ? l3' Hac H2']; subst. inversion H3 as [|? d ? l4' Hcd H3']; subst. constructor.
    + exact (Hc a b c d Hab Hac Hcd).
    + exact (IH l3' l4' H2' H3' Hc).
Qed.

Lemma filter_unique : forall (A : Type) (F : A -> list nat) (f : A -> bool) l x u,
  NoDup (flat_map F l) -> In x l -> In u (F x) -> (forall y, In y l -> f y = true -> In u (F y)) -> f x = true -> filter f l = [x].
Proof.
  intros A F f l. induction l as [|y t IH]; intros x u Hnd Hx Hu Hf Hfx; [destruct Hx|].
  cbn [flat_map] in Hnd. destruct (NoDup_app_parts _ _ _ Hnd) as (_ & Hndt & Hdisj). cbn [filter].
  assert (Hnone : (exists z, In z t /\ In u (F z)) -> In u (F y) -> False).
  { intros [z [Hz Huz]] Huy. apply (Hdisj u Huy). apply in_flat_map. exists z. split; assumption. }
  destruct Hx as [Hx|Hx].
  - subst y. rewrite Hfx. f_equal. apply filter_all_false. intros z Hz. destruct (f z) eqn:E; [|reflexivity]. exfalso.
    apply Hnone; [exists z; split; [exact Hz | apply Hf; [right; exact Hz | exact E]] | exact Hu].
  - destruct (f y) eqn:E.
    + exfalso. apply Hnone; [exists x; split; assumption | apply Hf; [left; reflexivity | exact E]].
    + apply (IH x u Hndt Hx Hu); [|exact Hfx]. intros z Hz. apply Hf. right. exact Hz.
Qed.

(* ---------- the closure lists are duplicate free ---------- *)
Definition all_nd (m : amap) : Prop := Forall (fun kv => NoDup (snd kv)) m.

Lemma all_nd_aadd : forall k x m, all_nd m -> all_nd (aadd k x m).
Proof.
  intros k x m. induction m as [|[k0 v] m IH]; intros H; cbn [aadd].
  - constructor; [cbn; constructor; [intros [] | constructor] | constructor].
  - inversion H as [|? ? Hv Hm]; subst. destruct (Nat.eqb k k0).
    + constructor; [cbn; apply NoDup_set_add; exact Hv | exact Hm].
    + constructor; [exact Hv | exact (IH Hm)].
Qed.

Lemma all_nd_gdp : forall fuel g par chs acc, all_nd acc -> all_nd (gdp fuel g par chs acc).
Proof.
  intros fuel g. induction fuel as [|f IH]; intros par chs; induction chs as [|c chs IHc]; intros acc H; cbn [gdp fold_left].
  - exact H.
  - apply IHc. apply all_nd_aadd. exact H.
  - exact H.
  - change (all_nd (gdp (S f) g par chs (gdp f g c (children g c) (aadd c par acc)))). apply IHc. apply IH. apply all_nd_aadd. exact H.
Qed.

Lemma all_nd_pbd : forall g, all_nd (pbd_of g).
Proof.
  intros g. unfold pbd_of. generalize (adj_keys g). intros ks.
  assert (H : forall acc, all_nd acc -> all_nd (fold_left (fun acc p => gdp (List.length g) g p (children g p) acc) ks acc)).
  { induction ks as [|k ks IH]; intros acc Ha; cbn [fold_left]; [exact Ha|]. apply IH. apply all_nd_gdp. exact Ha. }
  apply H. constructor.
Qed.

Lemma aget0_nodup : forall m k, all_nd m -> NoDup (aget0 k m).
Proof.
  intros m k H. unfold aget0. destruct (aget k m) as [v|] eqn:E; [|constructor].
  apply aget_In in E. unfold all_nd in H. rewrite Forall_forall in H. exact (H _ E).
Qed.

Lemma gap_nodup : forall fuel pbd ps, NoDup ps -> NoDup (gap fuel pbd ps).
Proof.
  intros fuel pbd ps H. destruct fuel as [|f]; destruct ps as [|p ps]; cbn [gap]; try constructor; try exact H.
  - apply NoDup_cons_iff in H. apply H.
  - apply NoDup_cons_iff in H. apply H.
  - apply NoDup_set_union. exact H.
Qed.

Lemma closure_nodup : forall g u, NoDup (aget0 u (p2c_of g)).
Proof.
  intros g u. unfold p2c_of, aget0. rewrite (aget_map_snd (fun v => set_union (gap (S (List.length g)) (pbd_of g) v) v)).
  destruct (aget u (pbd_of g)) as [v|] eqn:E; cbn [option_map]; [|constructor].
  apply NoDup_set_union. apply gap_nodup. apply aget_In in E. pose proof (all_nd_pbd g) as H. unfold all_nd in H.
  rewrite Forall_forall in H. exact (H _ E).
Qed.

(* ---------- equivalent graphs ---------- *)
Lemma ge_cfw : forall g g', graph_equiv g g' -> NoDup (ids g) -> forall u, cfw_of g u = cfw_of g' u.
Proof.
  intros g g' Heq Hnd u. pose proof (Permutation_NoDup (ge_ids g g' Heq) Hnd) as Hnd'.
  destruct (in_dec Nat.eq_dec u (ids g)) as [Hu|Hu].
  - unfold ids in Hu. apply in_map_iff in Hu. destruct Hu as [n [E Hn]]. subst u.
    destruct (ge_nodes_l g g' Heq n Hn) as [n' [Hn' (E1 & _ & _ & _ & E5)]].
    unfold cfw_of. rewrite (node_of_complete g Hnd n Hn). rewrite E1, (node_of_complete g' Hnd' n' Hn'). exact E5.
  - assert (Hu' : ~ In u (ids g')) by (intros H; apply Hu; exact (Permutation_in _ (Permutation_sym (ge_ids g g' Heq)) H)).
    unfold cfw_of. rewrite (node_of_none g u Hu), (node_of_none g' u Hu'). reflexivity.
Qed.

Lemma ge_tbase : forall g g', graph_equiv g g' -> tbase g = tbase g'.
Proof. intros g g' Heq. unfold tbase. f_equal. apply list_max_perm. exact (ge_ids g g' Heq). Qed.

(* ---------- one plan, where nothing is dropped ---------- *)
Section One.
  Variables (ord : oparam) (g : fgraph).
  Hypothesis Hord : ord_ok ord.
  Hypothesis Hok : graph_ok g.
  Hypothesis Hgc : group_cfw g.
  Hypothesis Hfree : kf_tfs_choice ord g = false.

  Local Notation cl := (p2c_of g).
  Local Notation R := (raw_plan ord g).
  Local Notation P := (raw_plan_B ord g).
  Local Notation tb := (tbase g).

  Lemma dem_nodup : forall s, NoDup (dem ord g s).
  Proof.
    intros s. unfold dem, tfs_demands. apply NoDup_filter. unfold tfs_parents.
    apply (Permutation_NoDup (Permutation_sym (Hord _ _))). apply closure_nodup.
  Qed.

  Lemma one_fg_feat_req : forall x, In x (E0 ord g) -> feat_req tb (mk_fg g cl (fst x) (snd x)) = req (fst x).
  Proof.
    intros x Hx.
    destruct (E0_spec ord g) as (ncF & _ & S2 & S3). destruct (S3 x Hx) as (Hs & _ & _).
    unfold feat_req. cbn [bs mk_fg req]. rewrite filter_app.
    rewrite (filter_all_true _ _ (req (fst x))).
    - rewrite (filter_all_false _ _ (map te_id (filter te_new (snd x)))); [apply app_nil_r|].
      intros i Hi. apply Nat.ltb_ge.
      assert (Hin : In i (flat_map newid_of (E0 ord g))) by (apply in_flat_map; exists x; split; [exact Hx | exact Hi]).
      rewrite S2 in Hin. apply In_new_ids in Hin. destruct Hin as [k [_ Ei]]. lia.
    - intros a Ha. apply Nat.ltb_lt. exact (req_feature ord g Hord Hok Hgc _ a Hs Ha).
  Qed.

  Lemma one_tfs_with : forall x e, In x (E0 ord g) -> In e (snd x) -> tfs_with P (te_id e) = [mk_tfs e].
  Proof.
    intros x e Hx He. pose proof (choice_all_new ord g Hfree x Hx e He) as Hn.
    assert (Hin : In (mk_tfs e) P).
    { apply (in_planB_raw ord g). exists x. split; [exact Hx|]. right. exists e. repeat split; assumption. }
    unfold tfs_with. apply (filter_unique _ (fun b => uuids (bs b)) _ P (mk_tfs e) (te_id e)).
    - exact (P_uuids_nodup ord g Hord Hok Hgc).
    - exact Hin.
    - rewrite uuids_mk_tfs. left. reflexivity.
    - intros y _ Hy. apply andb_true_iff in Hy. apply mem_In. apply Hy.
    - rewrite is_tfs_mk_tfs, uuids_mk_tfs. cbn. rewrite Nat.eqb_refl. reflexivity.
  Qed.

  Lemma one_fg_tfs_req : forall x, In x (E0 ord g) ->
    tfs_req tb P (mk_fg g cl (fst x) (snd x)) = map (fun e => tfs_desc (mk_tfs e)) (snd x).
  Proof.
    intros x Hx. destruct (E0_spec ord g) as (ncF & _ & S2 & S3). destruct (S3 x Hx) as (Hs & _ & _).
    unfold tfs_req. cbn [bs mk_fg req]. rewrite filter_app.
    rewrite (filter_all_false _ _ (req (fst x))).
    - cbn [app]. rewrite (filter_all_true _ _ (snd x) (choice_all_new ord g Hfree x Hx)).
      rewrite (filter_all_true _ _ (map te_id (snd x))).
      + rewrite flat_map_map. assert (H : forall l, incl l (snd x) ->
          flat_map (fun e => map tfs_desc (tfs_with P (te_id e))) l = map (fun e => tfs_desc (mk_tfs e)) l).
        { induction l as [|e l IH]; intros Hl; [reflexivity|]. cbn [flat_map map].
          rewrite (one_tfs_with x e Hx (Hl e (or_introl eq_refl))). cbn [map app]. f_equal. apply IH.
          intros z Hz. apply Hl. right. exact Hz. }
        apply H. apply incl_refl.
      + intros i Hi. apply negb_true_iff. apply Nat.ltb_ge. apply in_map_iff in Hi. destruct Hi as [e [Ei He]].
        assert (Hin : In i (flat_map newid_of (E0 ord g))).
        { apply in_flat_map. exists x. split; [exact Hx|]. unfold newid_of. rewrite <- Ei. apply in_map. apply filter_In.
          split; [exact He | exact (choice_all_new ord g Hfree x Hx e He)]. }
        rewrite S2 in Hin. apply In_new_ids in Hin. destruct Hin as [k [_ Ek]]. lia.
    - intros a Ha. apply negb_false_iff. apply Nat.ltb_lt. exact (req_feature ord g Hord Hok Hgc _ a Hs Ha).
  Qed.

  Lemma one_tfs_reqs : forall x e, In x (E0 ord g) -> In e (snd x) ->
    feat_req tb (mk_tfs e) = [te_parent e] /\ tfs_req tb P (mk_tfs e) = [].
  Proof.
    intros x e Hx He. destruct (E0_spec ord g) as (_ & _ & _ & S3). destruct (S3 x Hx) as (Hs & Hd & _).
    assert (Hp : In (te_parent e) (dem ord g (fst x))) by (rewrite <- Hd; apply in_map; exact He).
    destruct (dem_feature ord g Hord Hok Hgc _ _ Hs Hp) as [Hlt _].
    unfold feat_req, tfs_req. rewrite req_mk_tfs. cbn [filter]. apply Nat.ltb_lt in Hlt. rewrite Hlt. cbn. split; reflexivity.
  Qed.

  Lemma one_tfs_desc : forall x e, In x (E0 ord g) -> In e (snd x) ->
    tfs_desc (mk_tfs e) = (cfw_of g (te_parent e), cfw_of g (any_of (fst x)), grp_of g (te_parent e), grp_of g (any_of (fst x)), [te_parent e]).
  Proof.
    intros x e Hx He. destruct (E0_spec ord g) as (_ & _ & _ & S3). destruct (S3 x Hx) as (_ & _ & Hk).
    unfold tfs_desc. pose proof (key_mk_tfs e) as Ek. rewrite (Hk e He) in Ek. unfold key_of in Ek. injection Ek as K1 K2 K3 K4.
    rewrite K1, K2, K3, K4, req_mk_tfs. reflexivity.
  Qed.

  Lemma one_uniform : forall s f a, In s R -> In f (uuids s) -> (anc g a f <-> anc g a (any_of s)).
  Proof.
    intros s f a Hs Hf. rewrite <- !(closure_anc g Hok). exact (choice_uniform ord g Hfree s Hs f a Hf).
  Qed.
End One.

(* ---------- two plans ---------- *)
Section Two.
  Variables (ord ord' : oparam) (g g' : fgraph).
  Hypothesis Hord : ord_ok ord.
  Hypothesis Hord' : ord_ok ord'.
  Hypothesis Hok : graph_ok g.
  Hypothesis Hgc : group_cfw g.
  Hypothesis Heq : graph_equiv g g'.
  Hypothesis Hfree : kf_tfs_choice ord g = false.
  Hypothesis Hfree' : kf_tfs_choice ord' g' = false.

  Let Hok' : graph_ok g' := ge_graph_ok g g' Heq Hok.
  Let Hgc' : group_cfw g' := group_cfw_equiv g g' (proj1 Hok) Heq Hgc.

  Local Notation R := (raw_plan ord g).
  Local Notation R' := (raw_plan ord' g').
  Local Notation P := (raw_plan_B ord g).
  Local Notation P' := (raw_plan_B ord' g').
  Local Notation tb := (tbase g).
  Local Notation Rel := (bstep_equiv tb P P').

  (* the skeletons correspond (Stage A's determinism, through erase) *)
  Lemma skeleton_equiv : exists M, Forall2 step_equiv R M /\ Permutation M R'.
  Proof.
    pose proof (graph_ok_erase g Hok) as Eok. pose proof (graph_ok_erase g' Hok') as Eok'.
    pose proof (erase_equiv g g' Heq) as Eeq.
    exists (flat_map (block ord' (erase g')) (map fst (planned_queue (erase g) (queue_of (erase g))))). split.
    - rewrite <- (raw_plan_erase ord g Hord Hok Hgc). rewrite (raw_as_blocks ord (erase g) Hord Eok (strict_erase g)).
      apply Forall2_flat_map. intros k _. unfold block.
      apply (Forall2_map2 _ _ _ _ _ _ _ _ (det_glevels ord ord' (erase g) (erase g') Hord Hord' Eok Eeq k)).
      intros x y Hxy. apply (det_step ord ord' (erase g) (erase g') Hord Hord' Eok Eeq). exact Hxy.
    - rewrite <- (raw_plan_erase ord' g' Hord' Hok' Hgc'). rewrite (raw_as_blocks ord' (erase g') Hord' Eok' (strict_erase g')).
      apply Permutation_flat_map. exact (det_keys (erase g) (erase g') Eok Eeq).
  Qed.

  (* corresponding steps construct transform steps for the same parents, with the same frameworks and groups *)
  Lemma same_step_cfw : forall s a b, In s R -> In a (uuids s) -> In b (uuids s) -> cfw_of g a = cfw_of g b /\ grp_of g a = grp_of g b.
  Proof.
    intros s a b Hs Ha Hb. destruct (raw_facts ord g Hord Hok Hgc) as (_ & _ & F3 & _ & F5).
    pose proof (F5 s a b Hs Ha Hb) as Eg. split; [|exact Eg].
    apply (cfw_same_group g Hok Hgc); [| |exact Eg]; apply F3; apply in_flat_map; exists s; split; assumption.
  Qed.

  Lemma dem_equiv : forall s s', In s R -> In s' R' -> Permutation (uuids s) (uuids s') ->
    Permutation (dem ord g s) (dem ord' g' s') /\
    cfw_of g (any_of s) = cfw_of g' (any_of s') /\ grp_of g (any_of s) = grp_of g' (any_of s').
  Proof.
    intros s s' Hs Hs' Hu.
    pose proof (any_in_step ord g Hord Hok Hgc s Hs) as Ha. pose proof (any_in_step ord' g' Hord' Hok' Hgc' s' Hs') as Ha'.
    assert (Ha2 : In (any_of s') (uuids s)) by (apply (Permutation_in _ (Permutation_sym Hu)); exact Ha').
    destruct (same_step_cfw s (any_of s) (any_of s') Hs Ha Ha2) as [Ec Eg].
    assert (Ecf : cfw_of g (any_of s) = cfw_of g' (any_of s')) by (rewrite Ec; apply (ge_cfw g g' Heq (proj1 Hok))).
    assert (Egr : grp_of g (any_of s) = grp_of g' (any_of s')) by (rewrite Eg; apply (ge_node_fields g g' Heq (proj1 Hok))).
    split; [|split; assumption].
    assert (Hanc : forall x, anc g' x (any_of s') <-> anc g x (any_of s)).
    { intros x. rewrite <- (ge_anc g g' Heq x (any_of s')). exact (one_uniform ord g Hok Hfree s (any_of s') x Hs Ha2). }
    apply NoDup_Permutation; [apply (dem_nodup ord g Hord) | apply (dem_nodup ord' g' Hord')|].
    intros p. rewrite (dem_spec ord g Hord Hok), (dem_spec ord' g' Hord' Hok'). rewrite Hanc, <- Ecf, <- (ge_cfw g g' Heq (proj1 Hok) p).
    split; intros (A1 & A2 & A3); (split; [exact A1|]; split; [|exact A3]); intros v Hv Hpv.
    - apply (A2 v); [apply Hanc; exact Hv | apply (ge_anc g g' Heq); exact Hpv].
    - apply (A2 v); [apply Hanc; exact Hv | apply (ge_anc g g' Heq); exact Hpv].
  Qed.

  (* the blocks of corresponding steps are the same up to a permutation of their transform steps *)
  Lemma block_equiv : forall x x', In x (E0 ord g) -> In x' (E0 ord' g') -> step_equiv (fst x) (fst x') ->
    exists Q, Permutation (blk g x) Q /\ Forall2 Rel Q (blk g' x').
  Proof.
    intros x x' Hx Hx' (Sk & Su & Sr & Sq).
    destruct (E0_spec ord g) as (_ & _ & _ & S3). destruct (S3 x Hx) as (Hs & Hd & _).
    destruct (E0_spec ord' g') as (_ & _ & _ & S3'). destruct (S3' x' Hx') as (Hs' & Hd' & _).
    destruct (dem_equiv (fst x) (fst x') Hs Hs' Su) as (Dp & Dc & Dg).
    (* reorder the events of x like those of x' *)
    assert (Hpp : Permutation (map te_parent (snd x')) (map te_parent (snd x))) by (rewrite Hd, Hd'; apply Permutation_sym; exact Dp).
    destruct (Permutation_map_inv _ _ Hpp) as [evQ [Emap Hperm]].
    exists (map mk_tfs evQ ++ [mk_fg g (p2c_of g) (fst x) (snd x)]). split.
    - unfold blk. apply Permutation_app_tail. apply Permutation_map.
      rewrite (filter_all_true _ _ (snd x) (choice_all_new ord g Hfree x Hx)). exact Hperm.
    - unfold blk. rewrite (filter_all_true _ _ (snd x') (choice_all_new ord' g' Hfree' x' Hx')). apply Forall2_app.
      + (* the transform steps, pairwise with equal parents *)
        assert (Hall : forall l l', incl l (snd x) -> incl l' (snd x') -> map te_parent l' = map te_parent l -> Forall2 Rel (map mk_tfs l) (map mk_tfs l')).
        { induction l as [|e l IH]; intros l' Hl Hl' Em; destruct l' as [|e' l']; cbn in Em; try discriminate; [constructor|].
          injection Em as Ep Em. cbn [map]. constructor.
          - pose proof (Hl e (or_introl eq_refl)) as He. pose proof (Hl' e' (or_introl eq_refl)) as He'.
            destruct (one_tfs_reqs ord g Hord Hok Hgc x e Hx He) as [Fr Tr].
            destruct (one_tfs_reqs ord' g' Hord' Hok' Hgc' x' e' Hx' He') as [Fr' Tr'].
            pose proof (one_tfs_desc ord g x e Hx He) as De. pose proof (one_tfs_desc ord' g' x' e' Hx' He') as De'.
            unfold tfs_desc in De, De'. injection De as D1 D2 D3 D4 _. injection De' as D1' D2' D3' D4' _.
            unfold bstep_equiv. rewrite !kind_mk_tfs.
            assert (Ereq : requested (bs (mk_tfs e)) = requested (bs (mk_tfs e'))).
            { unfold mk_tfs. destruct (te_key e) as [[[? ?] ?] ?]. destruct (te_key e') as [[[? ?] ?] ?]. reflexivity. }
            split; [reflexivity|]. split; [exact Ereq|].
            rewrite D1, D2, D3, D4, D1', D2', D3', D4', Ep.
            split; [rewrite <- Dc; reflexivity|]. split; [apply (ge_cfw g g' Heq (proj1 Hok))|]. split; [rewrite <- Dg; reflexivity|].
            split; [apply (ge_node_fields g g' Heq (proj1 Hok))|].
            split; [intros Hf; rewrite is_tfs_mk_tfs in Hf; discriminate|].
            rewrite <- (ge_tbase g g' Heq) in Fr', Tr'. rewrite Fr, Fr', Tr, Tr', Ep.
            split; [apply Permutation_refl|]. exists []. split; constructor.
          - apply IH; [intros z Hz; apply Hl; right; exact Hz | intros z Hz; apply Hl'; right; exact Hz | exact Em]. }
        apply Hall; [intros z Hz; exact (Permutation_in _ (Permutation_sym Hperm) Hz) | apply incl_refl | exact Emap].
      + (* the feature-group steps *)
        constructor; [|constructor]. unfold bstep_equiv. cbn [bs mk_fg skind requested b_cfw b_from b_grp b_fgrp uuids b_tfs].
        split; [reflexivity|]. split; [exact Sq|]. split; [exact Dc|]. split; [reflexivity|]. split; [exact Dg|]. split; [reflexivity|].
        split.
        { intros _. split; [exact Su|]. rewrite !map_length, <- (map_length te_parent (snd x)), <- (map_length te_parent (snd x')), Hd, Hd'.
          apply Permutation_length. exact Dp. }
        rewrite (one_fg_feat_req ord g Hord Hok Hgc x Hx).
        pose proof (one_fg_feat_req ord' g' Hord' Hok' Hgc' x' Hx') as Fq'. rewrite <- (ge_tbase g g' Heq) in Fq'. rewrite Fq'.
        split; [exact Sr|].
        rewrite (one_fg_tfs_req ord g Hord Hok Hgc Hfree x Hx).
        pose proof (one_fg_tfs_req ord' g' Hord' Hok' Hgc' Hfree' x' Hx') as Tq'. rewrite <- (ge_tbase g g' Heq) in Tq'. rewrite Tq'.
        exists (map (fun e => tfs_desc (mk_tfs e)) evQ). split; [apply Permutation_map; exact Hperm|].
        assert (Hall : forall l l', incl l (snd x) -> incl l' (snd x') -> map te_parent l' = map te_parent l ->
                 Forall2 tdesc_equiv (map (fun e => tfs_desc (mk_tfs e)) l) (map (fun e => tfs_desc (mk_tfs e)) l')).
        { induction l as [|e l IH]; intros l' Hl Hl' Em; destruct l' as [|e' l']; cbn in Em; try discriminate; [constructor|].
          injection Em as Ep Em. cbn [map]. constructor.
          - rewrite (one_tfs_desc ord g x e Hx (Hl e (or_introl eq_refl))), (one_tfs_desc ord' g' x' e' Hx' (Hl' e' (or_introl eq_refl))).
            rewrite Ep. unfold tdesc_equiv. split; [apply (ge_cfw g g' Heq (proj1 Hok))|]. split; [exact Dc|].
            split; [apply (ge_node_fields g g' Heq (proj1 Hok))|]. split; [exact Dg | apply Permutation_refl].
          - apply IH; [intros z Hz; apply Hl; right; exact Hz | intros z Hz; apply Hl'; right; exact Hz | exact Em]. }
        apply Hall; [intros z Hz; exact (Permutation_in _ (Permutation_sym Hperm) Hz) | apply incl_refl | exact Emap].
  Qed.

  Theorem raw_plans_equiv : exists q, Permutation P q /\ Forall2 Rel q P'.
  Proof.
    destruct skeleton_equiv as [M [HF HP]].
    destruct (E0_spec ord g) as (_ & S1 & _ & _). destruct (E0_spec ord' g') as (_ & S1' & _ & _).
    rewrite <- S1' in HP. destruct (Permutation_map_inv _ _ HP) as [EM [EMeq EMperm]].
    rewrite <- S1, EMeq in HF. apply Forall2_map_both in HF.
    assert (HB : Forall2 (fun B B' => exists Q, Permutation B Q /\ Forall2 Rel Q B') (map (blk g) (E0 ord g)) (map (blk g') EM)).
    { apply (Forall2_map2 _ _ _ _ _ _ _ _ (Forall2_impl_in _ _ _ (fun x y => In x (E0 ord g) /\ In y EM /\ step_equiv (fst x) (fst y)) _ _
               (fun x y Hx Hy Hxy => conj Hx (conj Hy Hxy)) HF)).
      intros x y (Hx & Hy & Hxy). exact (block_equiv x y Hx (Permutation_in _ (Permutation_sym EMperm) Hy) Hxy). }
    destruct (concat_blocks _ Rel _ _ HB) as [q [Hq1 Hq2]].
    rewrite <- !flat_map_concat_map in Hq1, Hq2. rewrite <- (raw_plan_B_blocks ord g) in Hq1.
    assert (HPM : Permutation (flat_map (blk g') EM) P').
    { rewrite (raw_plan_B_blocks ord' g'). apply Permutation_flat_map. apply Permutation_sym. exact EMperm. }
    destruct (Permutation_Forall2 HPM (Forall2_flip _ _ _ _ _ Hq2)) as [q' [Hq'1 Hq'2]].
    exists q'. split; [exact (Permutation_trans Hq1 Hq'1) | apply Forall2_flip in Hq'2; exact Hq'2].
  Qed.
End Two.

(* ---------- numbering the steps changes nothing ---------- *)
Lemma tfs_with_bnumber : forall p i u, map tfs_desc (tfs_with (bnumber i p) u) = map tfs_desc (tfs_with p u).
Proof.
  intros p. induction p as [|b p IH]; intros i u; [reflexivity|]. unfold tfs_with in *. cbn [bnumber filter].
  assert (E : is_tfs (bset_sid i b) && mem u (uuids (bs (bset_sid i b))) = is_tfs b && mem u (uuids (bs b))) by reflexivity.
  rewrite E. destruct (is_tfs b && mem u (uuids (bs b))); cbn [map]; [change (tfs_desc (bset_sid i b)) with (tfs_desc b); f_equal; apply IH | apply IH].
Qed.

Lemma tfs_req_bnumber : forall tb p i j b, tfs_req tb (bnumber i p) (bset_sid j b) = tfs_req tb p b.
Proof.
  intros tb p i j b. unfold tfs_req. cbn [bs bset_sid req set_sid]. apply flat_map_ext_in. intros u _. apply tfs_with_bnumber.
Qed.

Lemma bstep_equiv_sid : forall tb p p' b b' i i' j j', bstep_equiv tb p p' b b' ->
  bstep_equiv tb (bnumber i p) (bnumber i' p') (bset_sid j b) (bset_sid j' b').
Proof.
  intros tb p p' b b' i i' j j' H. unfold bstep_equiv in *. rewrite !tfs_req_bnumber. exact H.
Qed.

Lemma bnumber_rel : forall p i, Forall2 (fun b b2 => exists j, b2 = bset_sid j b) p (bnumber i p).
Proof. intros p. induction p as [|b p IH]; intros i; cbn; constructor; [exists i; reflexivity | apply IH]. Qed.

Theorem plan_deterministic_partial : forall ord ord' g g', ord_ok ord -> ord_ok ord' -> graph_ok g -> group_cfw g ->
  graph_equiv g g' -> kf_tfs_choice ord g = false -> kf_tfs_choice ord' g' = false ->
  bplan_equiv (tbase g) (plan_B ord g) (plan_B ord' g').
Proof.
  intros ord ord' g g' Hord Hord' Hok Hgc Heq Hfree Hfree'.
  destruct (raw_plans_equiv ord ord' g g' Hord Hord' Hok Hgc Heq Hfree Hfree') as [q [Hq1 Hq2]].
  unfold plan_B, bplan_equiv.
  destruct (Permutation_Forall2 Hq1 (bnumber_rel (raw_plan_B ord g) 0)) as [q2 [Hp2 Hf2]].
  exists q2. split; [exact Hp2|].
  apply (Forall2_three _ _ (fun b b2 => exists j, b2 = bset_sid j b) _ _ q q2 (raw_plan_B ord' g') (bnumber 0 (raw_plan_B ord' g')) Hf2 Hq2
           (bnumber_rel (raw_plan_B ord' g') 0)).
  intros a b c d [j Eb] Hac [j' Ed]. subst b d. apply bstep_equiv_sid. exact Hac.
Qed.
