From Coq Require Import List Bool ZArith Arith Lia Permutation Sorting.Sorted.
Import ListNotations.
Require Import MV.Model.Extender MV.Spec.ExtenderSpec.

(* ---------- counting ---------- *)
Lemma count_app : forall p a b, count p (a ++ b) = count p a + count p b.
Proof. intros. unfold count. rewrite filter_app, app_length. reflexivity. Qed.
Lemma count_cons : forall p x a, count p (x :: a) = (if p x then 1 else 0) + count p a.
Proof. intros. unfold count. cbn [filter]. destruct (p x); reflexivity. Qed.
Lemma enter_ids_app : forall a b, enter_ids (a ++ b) = enter_ids a ++ enter_ids b.
Proof. intros. unfold enter_ids. apply flat_map_app. Qed.
Lemma exit_ids_app : forall a b, exit_ids (a ++ b) = exit_ids a ++ exit_ids b.
Proof. intros. unfold exit_ids. apply flat_map_app. Qed.

Definition occ (i : nat) (es : list extender) : nat := List.length (filter (fun e => Nat.eqb i (eid e)) es).

Lemma occ_nodup : forall es e, NoDup (map eid es) -> In e es -> occ (eid e) es = 1.
Proof.
  induction es as [|x t IH]; intros e Hnd Hin; [destruct Hin|].
  cbn in Hnd. inversion Hnd as [|? ? Hnotin Hnd']; subst.
  unfold occ. cbn [filter]. destruct Hin as [->|Hin].
  - rewrite Nat.eqb_refl. cbn [List.length]. f_equal.
    assert (H : filter (fun e0 => Nat.eqb (eid e) (eid e0)) t = []).
    { clear IH Hnd Hnd'. induction t as [|y t IHt]; [reflexivity|]. cbn [filter].
      destruct (Nat.eqb (eid e) (eid y)) eqn:E.
      - apply Nat.eqb_eq in E. exfalso. apply Hnotin. cbn. left. symmetry; exact E.
      - apply IHt. intros H. apply Hnotin. cbn. right; exact H. }
    rewrite H. reflexivity.
  - destruct (Nat.eqb (eid e) (eid x)) eqn:E.
    + apply Nat.eqb_eq in E. exfalso. apply Hnotin. rewrite <- E. apply in_map. exact Hin.
    + apply IH; assumption.
Qed.

Lemma occ_filter_le : forall i p es, List.length (filter (fun e => Nat.eqb i (eid e)) (filter p es)) <= occ i es.
Proof.
  intros i p es. unfold occ. induction es as [|x t IH]; [cbn; lia|]. cbn [filter].
  destruct (p x); cbn [filter]; destruct (Nat.eqb i (eid x)); cbn [List.length]; lia.
Qed.

(* ---------- ideal trace satisfies the trace-level property ---------- *)
Lemma ideal_calls : forall es ok, calls (ideal_trace es ok) = 1.
Proof.
  induction es as [|e r IH]; intros ok; [reflexivity|]. cbn [ideal_trace]. unfold calls in *.
  destruct (beh e); repeat (rewrite ?count_cons, ?count_app); cbn [is_call]; rewrite IH; destruct ok; cbn; lia.
Qed.

Lemma ideal_enters : forall es ok i, enters i (ideal_trace es ok) = occ i es.
Proof.
  induction es as [|e r IH]; intros ok i; [reflexivity|]. cbn [ideal_trace]. unfold enters, occ in *. cbn [filter].
  destruct (beh e); repeat (rewrite ?count_cons, ?count_app); cbn [is_enter is_call]; rewrite IH;
    destruct (Nat.eqb i (eid e)); destruct ok; cbn; lia.
Qed.

Lemma ideal_exits : forall es ok i,
  exits i (ideal_trace es ok) = if ok then List.length (filter (fun e => Nat.eqb i (eid e)) (filter passes es)) else 0.
Proof.
  induction es as [|e r IH]; intros ok i; [destruct ok; reflexivity|]. cbn [ideal_trace filter]. unfold exits, passes in *.
  destruct (beh e); cbn [filter]; repeat (rewrite ?count_cons, ?count_app); cbn [is_exit]; rewrite IH;
    destruct ok; cbn [count filter List.length is_exit]; try destruct (Nat.eqb i (eid e)); cbn; lia.
Qed.

Definition raiser (ok : bool) (e : extender) : bool := raises_before e || (ok && raises_after e).

Lemma ideal_loggeds : forall es ok i,
  loggeds i (ideal_trace es ok) = List.length (filter (fun e => Nat.eqb i (eid e)) (filter (raiser ok) es)).
Proof.
  induction es as [|e r IH]; intros ok i; [reflexivity|]. cbn [ideal_trace filter].
  unfold loggeds, raiser, raises_before, raises_after in *.
  destruct (beh e); cbn [orb andb filter]; repeat (rewrite ?count_cons, ?count_app); cbn [is_logged]; rewrite IH;
    destruct ok; cbn [count filter List.length is_logged andb orb]; try destruct (Nat.eqb i (eid e)); cbn; lia.
Qed.

Lemma ideal_enter_ids : forall es ok, enter_ids (ideal_trace es ok) = map eid es.
Proof.
  induction es as [|e r IH]; intros ok; [reflexivity|]. cbn [ideal_trace map].
  destruct (beh e); destruct ok; cbn [enter_ids flat_map app]; fold (enter_ids (ideal_trace r true));
    fold (enter_ids (ideal_trace r false)); rewrite ?enter_ids_app; cbn [enter_ids flat_map];
    rewrite ?app_nil_r; fold (enter_ids (ideal_trace r true)); fold (enter_ids (ideal_trace r false));
    rewrite IH; reflexivity.
Qed.

Lemma ideal_exit_ids : forall es ok,
  exit_ids (ideal_trace es ok) = if ok then rev (map eid (filter passes es)) else [].
Proof.
  induction es as [|e r IH]; intros ok; [destruct ok; reflexivity|]. cbn [ideal_trace filter]. unfold passes in *.
  destruct (beh e); destruct ok; cbn [exit_ids flat_map app map rev];
    fold (exit_ids (ideal_trace r true)); fold (exit_ids (ideal_trace r false)); rewrite ?exit_ids_app;
    cbn [exit_ids flat_map]; rewrite ?app_nil_r;
    fold (exit_ids (ideal_trace r true)); fold (exit_ids (ideal_trace r false)); rewrite IH; reflexivity.
Qed.

Lemma filter_occ_one : forall (p : extender -> bool) es e, NoDup (map eid es) -> In e es ->
  List.length (filter (fun x => Nat.eqb (eid e) (eid x)) (filter p es)) = if p e then 1 else 0.
Proof.
  induction es as [|x t IH]; intros e Hnd Hin; [destruct Hin|].
  cbn in Hnd. inversion Hnd as [|? ? Hnotin Hnd']; subst.
  assert (Hz : forall y, In y t -> Nat.eqb (eid x) (eid y) = false).
  { intros y Hy. apply Nat.eqb_neq. intros E. apply Hnotin. rewrite E. apply in_map; exact Hy. }
  destruct Hin as [->|Hin].
  - cbn [filter]. assert (H0 : List.length (filter (fun x => Nat.eqb (eid e) (eid x)) (filter p t)) = 0).
    { clear IH Hnd Hnd' Hnotin. induction t as [|y t IHt]; [reflexivity|]. cbn [filter].
      assert (Ey := Hz y (or_introl eq_refl)).
      destruct (p y); cbn [filter]; rewrite ?Ey; apply IHt; intros z Hzz; apply Hz; right; exact Hzz. }
    destruct (p e); cbn [filter]; rewrite ?Nat.eqb_refl; cbn [List.length]; rewrite H0; reflexivity.
  - cbn [filter]. assert (E : Nat.eqb (eid e) (eid x) = false).
    { rewrite Nat.eqb_sym. apply Hz; exact Hin. }
    destruct (p x); cbn [filter]; rewrite ?E; apply IH; assumption.
Qed.

Lemma ideal_sees_once_l : forall es ok, NoDup (map eid es) -> sees_once es ok (ideal_trace es ok).
Proof.
  intros es ok Hnd. constructor.
  - apply ideal_calls.
  - intros e Hin. rewrite ideal_enters. apply occ_nodup; assumption.
  - intros e Hin. rewrite ideal_exits. destruct ok; cbn [andb]; [|reflexivity]. apply filter_occ_one; assumption.
  - intros e Hin. rewrite ideal_loggeds. rewrite (filter_occ_one (raiser ok) es e Hnd Hin). reflexivity.
  - apply ideal_enter_ids.
  - apply ideal_exit_ids.
Qed.

Lemma ideal_passthrough : forall es, (forall e, In e es -> beh e = Pass) ->
  ideal_trace es true = passthrough_trace (map eid es).
Proof.
  induction es as [|e r IH]; intros H; [reflexivity|]. cbn [ideal_trace]. rewrite (H e (or_introl eq_refl)).
  rewrite IH by (intros x Hx; apply H; right; exact Hx). unfold passthrough_trace. cbn [map rev app].
  rewrite map_app. cbn [map]. rewrite <- !app_assoc. reflexivity.
Qed.

(* ---------- the composite ---------- *)
Section Chain.
  Context {A : Type}.

  (* the composite IS the ideal computation: every chain, every behaviour assignment, every wrapped outcome *)
  Lemma chain_ideal_l : forall es (w : result A), chain es (wrapped w) = ideal es w.
  Proof.
    induction es as [|e r IH]; intros w; [reflexivity|]. cbn [chain]. rewrite (IH w).
    unfold ideal, wrapper, ext_call, calls_through. cbn [ideal_trace fst snd].
    destruct (beh e); destruct w; cbn [is_ok fst snd app]; rewrite ?app_nil_r; try reflexivity.
    all: rewrite <- ?app_assoc; reflexivity.
  Qed.

  Lemma chain_result_l : forall es (w : result A), snd (chain es (wrapped w)) = w.
  Proof. intros. rewrite chain_ideal_l. reflexivity. Qed.

  Lemma chain_calls_l : forall es (w : result A), calls (fst (chain es (wrapped w))) = 1.
  Proof. intros. rewrite chain_ideal_l. apply ideal_calls. Qed.
End Chain.

(* ---------- sorting ---------- *)
Lemma insert_perm : forall x l, Permutation (insert x l) (x :: l).
Proof.
  induction l as [|y t IH]; [reflexivity|]. cbn [insert]. destruct (Z.leb (prio x) (prio y)); [reflexivity|].
  rewrite IH. apply perm_swap.
Qed.
Lemma isort_perm : forall l, Permutation (isort l) l.
Proof. induction l as [|x t IH]; [reflexivity|]. cbn [isort]. rewrite insert_perm. constructor. exact IH. Qed.

Lemma insert_sorted : forall x l, by_priority l -> by_priority (insert x l).
Proof.
  unfold by_priority. induction l as [|y t IH]; intros Hs; cbn [insert].
  - constructor; constructor.
  - inversion Hs as [|? ? Hst Hall]; subst. destruct (Z.leb (prio x) (prio y)) eqn:E.
    + apply Z.leb_le in E. constructor; [exact Hs|]. constructor; [exact E|].
      eapply Forall_impl; [|exact Hall]. intros z Hz. unfold ple in *. lia.
    + apply Z.leb_gt in E. constructor; [apply IH; exact Hst|].
      eapply Permutation_Forall; [symmetry; apply insert_perm|]. constructor; [unfold ple; lia | exact Hall].
Qed.
Lemma isort_sorted : forall l, by_priority (isort l).
Proof. induction l as [|x t IH]; [constructor|]. cbn [isort]. apply insert_sorted. exact IH. Qed.

Lemma isort_id : forall l, by_priority l -> isort l = l.
Proof.
  unfold by_priority. induction l as [|x t IH]; intros Hs; [reflexivity|]. inversion Hs as [|? ? Hst Hall]; subst.
  cbn [isort]. rewrite (IH Hst). destruct t as [|y t']; [reflexivity|]. cbn [insert].
  inversion Hall as [|? ? Hxy _]; subst. unfold ple in Hxy. apply Z.leb_le in Hxy. rewrite Hxy. reflexivity.
Qed.
Lemma isort_idem : forall l, isort (isort l) = isort l.
Proof. intros. apply isort_id, isort_sorted. Qed.

Lemma insert_stable : forall p x l,
  filter (same_prio p) (insert x l) = if same_prio p x then x :: filter (same_prio p) l else filter (same_prio p) l.
Proof.
  induction l as [|y t IH]; [reflexivity|]. cbn [insert]. destruct (Z.leb (prio x) (prio y)) eqn:E.
  - reflexivity.
  - apply Z.leb_gt in E. cbn [filter]. rewrite IH. unfold same_prio in *.
    destruct (Z.eqb (prio x) p) eqn:Ex; [|reflexivity].
    apply Z.eqb_eq in Ex. destruct (Z.eqb (prio y) p) eqn:Ey; [|reflexivity]. apply Z.eqb_eq in Ey. lia.
Qed.
Lemma isort_stable : forall l, stable_wrt l (isort l).
Proof.
  unfold stable_wrt. induction l as [|x t IH]; intros p; [reflexivity|]. cbn [isort filter].
  rewrite insert_stable, IH. reflexivity.
Qed.

(* two lists sorted by priority that are permutations of each other, all priorities distinct, are equal *)
Definition plt (a b : extender) : Prop := (prio a < prio b)%Z.
Lemma sorted_strict : forall l, by_priority l -> NoDup (map prio l) -> StronglySorted plt l.
Proof.
  unfold by_priority. induction l as [|x t IH]; intros Hs Hnd; [constructor|].
  inversion Hs as [|? ? Hst Hall]; subst. cbn in Hnd. inversion Hnd as [|? ? Hnotin Hnd']; subst.
  constructor; [apply IH; assumption|]. rewrite Forall_forall in *. intros y Hy. specialize (Hall y Hy).
  unfold ple, plt in *. assert (prio x <> prio y). { intros E. apply Hnotin. rewrite E. apply in_map; exact Hy. } lia.
Qed.
Lemma strict_sorted_unique : forall l1 l2, StronglySorted plt l1 -> StronglySorted plt l2 -> Permutation l1 l2 -> l1 = l2.
Proof.
  induction l1 as [|a l1 IH]; intros l2 H1 H2 Hp.
  - apply Permutation_nil in Hp. symmetry; exact Hp.
  - destruct l2 as [|b l2]; [apply Permutation_sym, Permutation_nil in Hp; discriminate|].
    inversion H1 as [|? ? H1t H1a]; subst. inversion H2 as [|? ? H2t H2b]; subst.
    assert (Hab : a = b).
    { assert (Ha : In a (b :: l2)) by (eapply Permutation_in; [exact Hp | left; reflexivity]).
      assert (Hb : In b (a :: l1)) by (eapply Permutation_in; [symmetry; exact Hp | left; reflexivity]).
      destruct Ha as [Ha|Ha]; [symmetry; exact Ha|]. destruct Hb as [Hb|Hb]; [exact Hb|].
      rewrite Forall_forall in H1a, H2b. specialize (H1a b Hb). specialize (H2b a Ha). unfold plt in *. lia. }
    subst b. f_equal. apply IH; [assumption | assumption |]. eapply Permutation_cons_inv; exact Hp.
Qed.

Lemma isort_perm_unique : forall l l', Permutation l l' -> NoDup (map prio l) -> isort l = isort l'.
Proof.
  intros l l' Hp Hnd. apply strict_sorted_unique.
  - apply sorted_strict; [apply isort_sorted|]. eapply Permutation_NoDup; [|exact Hnd].
    apply Permutation_map. symmetry. apply isort_perm.
  - apply sorted_strict; [apply isort_sorted|]. eapply Permutation_NoDup; [|exact Hnd].
    apply Permutation_map. etransitivity; [exact Hp | symmetry; apply isort_perm].
  - rewrite !isort_perm. exact Hp.
Qed.

Lemma filter_perm : forall (p : extender -> bool) l l', Permutation l l' -> Permutation (filter p l) (filter p l').
Proof.
  intros p l l' H. induction H as [|x l l' H IH|x y l|l l' l'' H1 IH1 H2 IH2]; cbn [filter].
  - constructor.
  - destruct (p x); [constructor|]; exact IH.
  - destruct (p x); destruct (p y); try reflexivity. apply perm_swap.
  - etransitivity; eassumption.
Qed.

(* ---------- get_function_extender + wrapped call ---------- *)
Lemma dispatch_perm_l : forall {A} l l' (f : comp A), Permutation l l' -> NoDup (map prio l) -> dispatch l f = dispatch l' f.
Proof.
  intros A l l' f Hp Hnd. destruct l as [|a [|b r]].
  - apply Permutation_nil in Hp. subst. reflexivity.
  - apply Permutation_length_1_inv in Hp. subst. reflexivity.
  - assert (Hlen := Permutation_length Hp). destruct l' as [|a' [|b' r']]; try (cbn in Hlen; lia).
    unfold dispatch, composite_call, composite_order. rewrite !isort_idem.
    rewrite (isort_perm_unique _ _ Hp Hnd). reflexivity.
Qed.

Lemma dispatch_chain_l : forall {A} l (f : comp A), 2 <= List.length l -> dispatch l f = chain (isort l) f.
Proof.
  intros A l f H. destruct l as [|a [|b r]]; cbn in H; try lia.
  unfold dispatch, composite_call, composite_order. rewrite !isort_idem. reflexivity.
Qed.

Lemma chain_order_eq : forall h order, chain_order h order = isort (matching h order).
Proof. intros. unfold chain_order. apply isort_idem. Qed.

(* pass-through transparency, any number of extenders (0, 1 or a chain) *)
Lemma passthrough_transparent_l : forall {A} h order (a : A),
  (forall e, In e (matching h order) -> beh e = Pass) ->
  let l := chain_order h order in
  run_wrapped h order (wrapped (Ok a)) = (passthrough_trace (map eid l), Ok a)
  /\ calls (fst (run_wrapped h order (wrapped (Ok a)))) = 1
  /\ by_priority l /\ Permutation l (matching h order).
Proof.
  intros A h order a Hall l. subst l. rewrite chain_order_eq.
  assert (Hall' : forall e, In e (isort (matching h order)) -> beh e = Pass).
  { intros e He. apply Hall. eapply Permutation_in; [apply isort_perm | exact He]. }
  assert (Hrun : run_wrapped h order (wrapped (Ok a)) = (passthrough_trace (map eid (isort (matching h order))), Ok a)).
  { unfold run_wrapped. destruct (matching h order) as [|x [|y r]] eqn:Em.
    - reflexivity.
    - cbn [dispatch isort insert map]. unfold ext_call, wrapped. rewrite (Hall x (or_introl eq_refl)). reflexivity.
    - rewrite dispatch_chain_l by (cbn; lia). rewrite chain_ideal_l.
      unfold ideal. cbn [is_ok]. rewrite ideal_passthrough by exact Hall'. reflexivity. }
  split; [exact Hrun|]. split; [|split; [apply isort_sorted | apply isort_perm]].
  rewrite Hrun. cbn [fst]. unfold passthrough_trace, calls. rewrite !count_app.
  assert (He : forall ids, count is_call (map Enter ids) = 0) by (induction ids; [reflexivity | rewrite map_cons, count_cons; cbn; assumption]).
  assert (Hx : forall ids, count is_call (map Exit ids) = 0) by (induction ids; [reflexivity | rewrite map_cons, count_cons; cbn; assumption]).
  rewrite He, Hx. reflexivity.
Qed.

(* the order used for nesting: sorted by priority, a permutation of the matching extenders, stable w.r.t. the
   iteration order actually taken; with distinct priorities the whole wrapped call is independent of that order *)
Lemma order_respects_priority_l : forall h order order', Permutation order order' ->
  let l' := chain_order h order' in
  by_priority l' /\ Permutation l' (matching h order) /\ stable_wrt (matching h order') l'
  /\ (NoDup (map prio (matching h order)) ->
      l' = chain_order h order /\ forall A (f : comp A), run_wrapped h order' f = run_wrapped h order f).
Proof.
  intros h order order' Hp l'. subst l'. rewrite !chain_order_eq.
  assert (Hm : Permutation (matching h order) (matching h order')) by (apply filter_perm; exact Hp).
  split; [apply isort_sorted|]. split; [rewrite isort_perm; symmetry; exact Hm|]. split; [apply isort_stable|].
  intros Hnd. split.
  - symmetry. apply isort_perm_unique; assumption.
  - intros A f. unfold run_wrapped. symmetry. apply dispatch_perm_l; assumption.
Qed.

(* a chain behaves ideally: all behaviours, all outcomes of the wrapped function *)
Lemma chain_run_ideal_l : forall {A} h order (w : result A),
  2 <= List.length (matching h order) ->
  run_wrapped h order (wrapped w) = ideal (chain_order h order) w.
Proof.
  intros A h order w Hlen. unfold run_wrapped. rewrite dispatch_chain_l by exact Hlen. rewrite chain_order_eq.
  apply chain_ideal_l.
Qed.

Lemma composite_ideal_l : forall {A} l (w : result A), composite_call l (wrapped w) = ideal (composite_order l) w.
Proof. intros. unfold composite_call. apply chain_ideal_l. Qed.

Lemma chain_order_nodup : forall h order, NoDup (map eid (matching h order)) -> NoDup (map eid (chain_order h order)).
Proof.
  intros h order Hnd. rewrite chain_order_eq. eapply Permutation_NoDup; [|exact Hnd].
  apply Permutation_map. symmetry. apply isort_perm.
Qed.

Lemma chain_sees_once_l : forall {A} h order (w : result A),
  2 <= List.length (matching h order) -> NoDup (map eid (matching h order)) ->
  snd (run_wrapped h order (wrapped w)) = w /\
  sees_once (chain_order h order) (is_ok w) (fst (run_wrapped h order (wrapped w))).
Proof.
  intros A h order w Hlen Hnd. rewrite chain_run_ideal_l by assumption. unfold ideal. cbn [fst snd].
  split; [reflexivity|]. apply ideal_sees_once_l. apply chain_order_nodup. exact Hnd.
Qed.

Lemma raise_before_skipped_l : forall {A} h order (a : A),
  2 <= List.length (matching h order) -> NoDup (map eid (matching h order)) ->
  snd (run_wrapped h order (wrapped (Ok a))) = Ok a /\
  sees_once (chain_order h order) true (fst (run_wrapped h order (wrapped (Ok a)))).
Proof. intros A h order a Hlen Hnd. exact (chain_sees_once_l h order (Ok a) Hlen Hnd). Qed.

Lemma call_count_l : forall {A} h order (w : result A), 2 <= List.length (matching h order) ->
  calls (fst (run_wrapped h order (wrapped w))) = 1.
Proof. intros A h order w Hlen. rewrite chain_run_ideal_l by exact Hlen. apply ideal_calls. Qed.

Lemma wrapped_call_not_lost_l : forall {A} h order (w : result A),
  2 <= List.length (matching h order) ->
  snd (run_wrapped h order (wrapped w)) = w /\
  calls (fst (run_wrapped h order (wrapped w))) = 1 /\
  (NoDup (map eid (matching h order)) ->
   forall e, In e (matching h order) -> enters (eid e) (fst (run_wrapped h order (wrapped w))) = 1).
Proof.
  intros A h order w Hlen. split; [|split].
  - rewrite chain_run_ideal_l by exact Hlen. reflexivity.
  - apply call_count_l. exact Hlen.
  - intros Hnd e He. destruct (chain_sees_once_l h order w Hlen Hnd) as [_ Hs].
    apply (so_enter _ _ _ Hs). rewrite chain_order_eq. eapply Permutation_in; [symmetry; apply isort_perm | exact He].
Qed.

Lemma filter_length_perm : forall (p : extender -> bool) l l', Permutation l l' ->
  List.length (filter p l) = List.length (filter p l').
Proof. intros. apply Permutation_length, filter_perm. assumption. Qed.

(* a single matching extender is not protected by try/except *)
Lemma single_extender_unprotected_l : forall {A} h order e (w : result A), matching h order = [e] ->
  run_wrapped h order (wrapped w) = ext_call e (wrapped w).
Proof. intros A h order e w H. unfold run_wrapped. rewrite H. reflexivity. Qed.

(* ---------- plans ---------- *)
Lemma run_ideal_l : forall {A} h order (w : result A),
  run_wrapped h order (wrapped w) = ideal_run_wrapped h order w.
Proof.
  intros A h order w. destruct (matching h order) as [|x [|y r]] eqn:Em.
  - unfold run_wrapped, ideal_run_wrapped. rewrite Em. reflexivity.
  - unfold run_wrapped, ideal_run_wrapped. rewrite Em. reflexivity.
  - rewrite chain_run_ideal_l; [| rewrite Em; cbn; lia].
    unfold ideal_run_wrapped. rewrite chain_order_eq, Em. reflexivity.
Qed.

Lemma run_calls_ideal_l : forall order fails cs, run_calls order fails cs = ideal_run_calls order fails cs.
Proof.
  intros order fails cs. induction cs as [|c r IH]; [reflexivity|]. cbn [run_calls ideal_run_calls].
  rewrite run_ideal_l, IH. reflexivity.
Qed.

Lemma run_calls_pass_l : forall order fails cs, (forall e, In e order -> beh e = Pass) ->
  (forall c, In c cs -> fails c = false) ->
  run_calls order fails cs =
  (map (fun c => (c, passthrough_trace (map eid (chain_order (kind_hook (snd c)) order)))) cs, false).
Proof.
  intros order fails cs Hall. induction cs as [|c r IH]; intros Hf; [reflexivity|]. cbn [run_calls map].
  destruct (passthrough_transparent_l (kind_hook (snd c)) order tt) as [Hrun _].
  { intros e He. apply Hall. unfold matching in He. apply filter_In in He. tauto. }
  unfold call_result. rewrite (Hf c (or_introl eq_refl)). rewrite Hrun, IH; [reflexivity|].
  intros c' Hc'. apply Hf. right; exact Hc'.
Qed.

Lemma passthrough_enters : forall ids i, enters i (passthrough_trace ids) = List.length (filter (Nat.eqb i) ids).
Proof.
  intros ids i. unfold passthrough_trace, enters. rewrite !count_app.
  assert (Hx : forall l, count (is_enter i) (map Exit l) = 0) by (induction l; [reflexivity | rewrite map_cons, count_cons; cbn; assumption]).
  rewrite Hx. cbn [count filter is_enter List.length]. rewrite !Nat.add_0_r.
  induction ids as [|j t IH]; [reflexivity|]. rewrite map_cons, count_cons. cbn [is_enter filter].
  destruct (Nat.eqb i j); cbn [List.length]; rewrite IH; lia.
Qed.

Lemma every_declared_call_seen_l : forall order fails cs e c t,
  (forall x, In x order -> beh x = Pass) -> (forall c, In c cs -> fails c = false) ->
  NoDup (map eid order) -> In e order ->
  In (c, t) (fst (run_calls order fails cs)) ->
  enters (eid e) t = if declares e c then 1 else 0.
Proof.
  intros order fails cs e c t Hall Hf Hnd He Hin. rewrite run_calls_pass_l in Hin by assumption. cbn [fst] in Hin.
  apply in_map_iff in Hin. destruct Hin as [c' [Heq _]]. inversion Heq; subst c' t. clear Heq.
  rewrite passthrough_enters, chain_order_eq. unfold declares.
  set (h := kind_hook (snd c)).
  assert (Hl : List.length (filter (Nat.eqb (eid e)) (map eid (isort (matching h order))))
               = List.length (filter (fun x => Nat.eqb (eid e) (eid x)) (matching h order))).
  { transitivity (List.length (filter (fun x => Nat.eqb (eid e) (eid x)) (isort (matching h order)))).
    - generalize (isort (matching h order)). intros l. induction l as [|x l IHl]; [reflexivity|]. cbn [map filter].
      destruct (Nat.eqb (eid e) (eid x)); cbn [List.length]; rewrite IHl; reflexivity.
    - apply filter_length_perm, isort_perm. }
  rewrite Hl. unfold matching. apply filter_occ_one; assumption.
Qed.

Lemma all_calls_run_l : forall order fails cs, (forall e, In e order -> beh e = Pass) ->
  (forall c, In c cs -> fails c = false) ->
  map fst (fst (run_calls order fails cs)) = cs /\ snd (run_calls order fails cs) = false.
Proof.
  intros order fails cs Hall Hf. rewrite run_calls_pass_l by assumption. cbn [fst snd]. split; [|reflexivity].
  rewrite map_map. cbn [fst]. apply map_id.
Qed.

(* ---------- witnesses ---------- *)
Definition mk (i : nat) (p : Z) (b : behaviour) : extender := {| eid := i; prio := p; hooks := [HCalc]; beh := b |}.
Definition wit_ra : list extender := [mk 0 1 Pass; mk 1 2 RaiseAfter; mk 2 3 Pass].
Definition wit_fail : list extender := [mk 0 1 Pass; mk 1 2 Pass; mk 2 3 Pass].

(* the two former defect witnesses (fixed in /repo by 50d7ec2) now behave ideally *)
Lemma former_witnesses_l :
  run_wrapped HCalc wit_ra (wrapped (Ok 7)) =
    ([Enter 0; Enter 1; Enter 2; Call; Exit 2; Logged 1; Exit 0], Ok 7) /\
  run_wrapped HCalc wit_fail (wrapped (@Err nat WrappedExn)) = ([Enter 0; Enter 1; Enter 2; Call], Err WrappedExn).
Proof. vm_compute. split; reflexivity. Qed.

Lemma tie_order_matters_l :
  let a := mk 0 5 Pass in let b := mk 1 5 Pass in
  fst (run_wrapped HCalc [a; b] (wrapped (Ok 7))) = [Enter 0; Enter 1; Call; Exit 1; Exit 0] /\
  fst (run_wrapped HCalc [b; a] (wrapped (Ok 7))) = [Enter 1; Enter 0; Call; Exit 0; Exit 1].
Proof. vm_compute. split; reflexivity. Qed.

Lemma single_raiser_loses_call_l :
  run_wrapped HCalc [mk 0 1 RaiseBefore] (wrapped (Ok 7)) = ([Enter 0], Err (ExtExn 0)).
Proof. reflexivity. Qed.

(* ---------- execution modes ---------- *)
Require Import MV.Model.Modes.

Lemma run_calls_in_sync_l : forall order copy fails cs, run_calls_in MSync order copy fails cs = run_calls order fails cs.
Proof.
  intros order copy fails cs. induction cs as [|c r IH]; [reflexivity|].
  cbn [run_calls_in run_calls held shares_objects]. rewrite IH. reflexivity.
Qed.

Lemma run_wrapped_perm_l : forall {A} h order order' (f : comp A), Permutation order order' ->
  NoDup (map prio (matching h order)) -> run_wrapped h order' f = run_wrapped h order f.
Proof.
  intros A h order order' f P N. unfold run_wrapped. symmetry. apply dispatch_perm_l; [|exact N].
  unfold matching. apply filter_perm. exact P.
Qed.

Lemma held_perm : forall m order copy s, Permutation order (copy s) -> Permutation order (held m order copy s).
Proof. intros m order copy s P. unfold held. destruct (shares_objects m); [apply Permutation_refl | exact P]. Qed.

(* distinct priorities on every hook: the whole run is the SYNC run, whatever the mode and the copies' orders *)
Lemma run_calls_mode_independent_l : forall m order copy fails cs,
  (forall s, Permutation order (copy s)) -> (forall h, NoDup (map prio (matching h order))) ->
  run_calls_in m order copy fails cs = run_calls order fails cs.
Proof.
  intros m order copy fails cs P N. induction cs as [|c r IH]; [reflexivity|].
  cbn [run_calls_in run_calls].
  rewrite (run_wrapped_perm_l (kind_hook (snd c)) order (held m order copy (fst c))); [|apply held_perm, P | apply N].
  rewrite IH. reflexivity.
Qed.

(* any priorities (ties included): every mode's run is the ideal run over the orders actually held *)
Lemma run_calls_in_ideal_l : forall m order copy fails cs,
  run_calls_in m order copy fails cs = ideal_run_calls_at (held m order copy) fails cs.
Proof.
  intros m order copy fails cs. induction cs as [|c r IH]; [reflexivity|].
  cbn [run_calls_in ideal_run_calls_at]. rewrite run_ideal_l. rewrite IH. reflexivity.
Qed.

(* the property for one wrapped call in any mode: the chain held by the object of step s consists of exactly the
   registered extenders that declare the hook, is sorted by priority, and sees the call exactly once *)
Lemma any_mode_sees_once_l : forall {A} m order copy s h (w : result A),
  Permutation order (copy s) ->
  2 <= List.length (matching h order) -> NoDup (map eid (matching h order)) ->
  let o := held m order copy s in
  snd (run_wrapped h o (wrapped w)) = w /\
  sees_once (chain_order h o) (is_ok w) (fst (run_wrapped h o (wrapped w))) /\
  by_priority (chain_order h o) /\ Permutation (chain_order h o) (matching h order).
Proof.
  intros A m order copy s h w P L N o.
  assert (PM : Permutation (matching h order) (matching h o)).
  { unfold matching. apply filter_perm. apply held_perm. exact P. }
  assert (L' : 2 <= List.length (matching h o)) by (rewrite <- (Permutation_length PM); exact L).
  assert (N' : NoDup (map eid (matching h o))).
  { eapply Permutation_NoDup; [apply Permutation_map; exact PM | exact N]. }
  destruct (chain_sees_once_l h o w L' N') as [R S].
  split; [exact R|]. split; [exact S|]. split.
  - rewrite chain_order_eq. apply isort_sorted.
  - rewrite chain_order_eq. eapply Permutation_trans; [apply isort_perm | apply Permutation_sym; exact PM].
Qed.
