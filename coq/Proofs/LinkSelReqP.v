(* Order independence of link selection (C04): the links selected for a pair, and the joins of a whole request, are a
   function of the link SET; the first-of-minimal variant is not. *)
From Coq Require Import List Bool ZArith String Arith Lia Permutation.
Import ListNotations.
Require Import MV.Model.LinkSel MV.Model.LinkSelReq.
Open Scope Z_scope.

Lemma filter_perm {A} (f : A -> bool) : forall l l', Permutation l l' -> Permutation (filter f l) (filter f l').
Proof.
  induction 1; cbn.
  - constructor.
  - destruct (f x); [constructor|]; assumption.
  - destruct (f x), (f y); first [apply perm_swap | apply Permutation_refl].
  - eapply Permutation_trans; eassumption.
Qed.

Section Sel.
  Variable mro : cls -> list cls.

  Lemma min_dist_perm : forall lf rf ls ls', Permutation ls ls' -> min_dist mro lf rf ls = min_dist mro lf rf ls'.
  Proof.
    intros lf rf. induction 1; cbn.
    - reflexivity.
    - rewrite IHPermutation. reflexivity.
    - destruct (sel_dist mro lf rf x) as [a|], (sel_dist mro lf rf y) as [b|], (min_dist mro lf rf l) as [m|];
        try reflexivity; f_equal; lia.
    - congruence.
  Qed.

  Lemma select_perm : forall lf rf ls ls', Permutation ls ls' ->
    Permutation (select_most_specific mro ls lf rf) (select_most_specific mro ls' lf rf).
  Proof.
    intros lf rf ls ls' H. unfold select_most_specific. rewrite (min_dist_perm lf rf _ _ H).
    destruct (min_dist mro lf rf ls'); [apply filter_perm; exact H | constructor].
  Qed.

  Lemma find_matching_perm_l : forall ls ls' lf rf, Permutation ls ls' ->
    Permutation (find_matching mro ls lf rf) (find_matching mro ls' lf rf).
  Proof.
    intros ls ls' lf rf H. unfold find_matching.
    pose proof (filter_perm (fun l => matches_exact l lf rf) _ _ H) as HE.
    destruct (filter (fun l => matches_exact l lf rf) ls) as [|e es];
      destruct (filter (fun l => matches_exact l lf rf) ls') as [|e' es'].
    - apply select_perm, filter_perm, H.
    - apply Permutation_nil in HE. discriminate.
    - apply Permutation_sym, Permutation_nil in HE. discriminate.
    - exact HE.
  Qed.

  Lemma find_matching_in_perm_l : forall ls ls' lf rf l, Permutation ls ls' ->
    In l (find_matching mro ls lf rf) <-> In l (find_matching mro ls' lf rf).
  Proof.
    intros ls ls' lf rf l H. pose proof (find_matching_perm_l ls ls' lf rf H) as P. split; intros Hin.
    - eapply Permutation_in; eassumption.
    - eapply Permutation_in; [apply Permutation_sym|]; eassumption.
  Qed.

  Lemma find_matching_set_l : forall ls ls' lf rf, NoDup ls -> NoDup ls' -> (forall x, In x ls <-> In x ls') ->
    Permutation (find_matching mro ls lf rf) (find_matching mro ls' lf rf).
  Proof. intros. apply find_matching_perm_l, NoDup_Permutation; assumption. Qed.

  Lemma find_matching_length_perm_l : forall ls ls' lf rf, Permutation ls ls' ->
    List.length (find_matching mro ls lf rf) = List.length (find_matching mro ls' lf rf).
  Proof. intros. apply Permutation_length, find_matching_perm_l; assumption. Qed.

  Lemma flat_map_pointwise_perm {A B} (f g : A -> list B) : (forall a, Permutation (f a) (g a)) ->
    forall l, Permutation (flat_map f l) (flat_map g l).
  Proof. intros H; induction l; cbn; [constructor | apply Permutation_app; auto]. Qed.

  Lemma request_joins_perm_l : forall ls ls' ps ps', Permutation ls ls' -> Permutation ps ps' ->
    Permutation (request_joins mro ls ps) (request_joins mro ls' ps').
  Proof.
    intros ls ls' ps ps' Hl Hp. unfold request_joins.
    eapply Permutation_trans; [apply Permutation_flat_map; exact Hp|].
    apply flat_map_pointwise_perm. intros ab. unfold pair_joins. apply Permutation_map, find_matching_perm_l, Hl.
  Qed.

  (* what a join of the request is: a pair of the request and a link selected for it *)
  Lemma request_joins_in_l : forall ls ps ab l,
    In (ab, l) (request_joins mro ls ps) <-> In ab ps /\ In l (find_matching mro ls (fst ab) (snd ab)).
  Proof.
    intros ls ps ab l. unfold request_joins, pair_joins. rewrite in_flat_map. split.
    - intros [ab' [Hin Hm]]. apply in_map_iff in Hm. destruct Hm as [l' [Heq Hl']]. injection Heq as <- <-. auto.
    - intros [Hin Hl]. exists ab. split; [exact Hin|]. apply in_map. exact Hl.
  Qed.

  (* the first-of-minimal variant returns one of the links the code returns (so it is not caught by soundness checks) *)
  Lemma first_min_some : forall lf rf ls l d, first_min mro lf rf ls = Some (l, d) ->
    In l ls /\ sel_dist mro lf rf l = Some d /\ min_dist mro lf rf ls = Some d.
  Proof.
    intros lf rf. induction ls as [|x t IH]; intros l d H; [discriminate|]. cbn in H |- *.
    destruct (sel_dist mro lf rf x) as [dx|] eqn:Ex.
    - destruct (first_min mro lf rf t) as [[l' m]|] eqn:Et.
      + destruct (IH _ _ eq_refl) as [Hin [Hs Hm]]. rewrite Hm.
        destruct (Z.leb dx m) eqn:El; injection H as <- <-.
        * apply Z.leb_le in El. repeat split; auto. f_equal; lia.
        * apply Z.leb_gt in El. repeat split; auto. f_equal; lia.
      + injection H as <- <-. assert (min_dist mro lf rf t = None) as ->.
        { clear -Et. induction t as [|y t IH]; [reflexivity|]. cbn in Et |- *.
          destruct (sel_dist mro lf rf y); [destruct (first_min mro lf rf t) as [[? ?]|]; [destruct (Z.leb _ _)|]; discriminate|].
          apply IH, Et. }
        repeat split; auto.
    - destruct (IH _ _ H) as [Hin [Hs Hm]]. repeat split; auto.
  Qed.

  Lemma first_subset_l : forall ls lf rf l, In l (find_matching_first mro ls lf rf) -> In l (find_matching mro ls lf rf).
  Proof.
    intros ls lf rf l. unfold find_matching_first, find_matching.
    destruct (filter (fun l0 => matches_exact l0 lf rf) ls); [|auto].
    destruct (first_min mro lf rf _) as [[l' d]|] eqn:E; [|intros []].
    intros [<-|[]]. destruct (first_min_some _ _ _ _ _ E) as [Hin [Hs Hm]].
    unfold select_most_specific. rewrite Hm. apply filter_In. split; [exact Hin|].
    unfold has_dist. rewrite Hs. apply Z.eqb_refl.
  Qed.
End Sel.

(* witness: BaseCustomers(0) <- Customers(2), BaseOrders(1) <- Orders(3);
   INNER(BaseCustomers, Orders) and LEFT(Customers, BaseOrders) both match (Customers, Orders) at distance 1 *)
Definition tie_mro : cls -> list cls := mro_of [(0, [0]); (1, [1]); (2, [2; 0]); (3, [3; 1])]%nat.
Definition tie_inner : link := {| jt := INNER; lfg := 0%nat; rfg := 3%nat; lidx := ["k"%string]; ridx := ["k"%string] |}.
Definition tie_left : link := {| jt := LEFT; lfg := 2%nat; rfg := 1%nat; lidx := ["k"%string]; ridx := ["k"%string] |}.

Lemma first_refuted_l :
  Permutation [tie_inner; tie_left] [tie_left; tie_inner] /\
  validate_rejects [tie_inner; tie_left] = false /\
  find_matching_first tie_mro [tie_inner; tie_left] 2%nat 3%nat = [tie_inner] /\
  find_matching_first tie_mro [tie_left; tie_inner] 2%nat 3%nat = [tie_left] /\
  ~ Permutation (find_matching_first tie_mro [tie_inner; tie_left] 2%nat 3%nat)
                (find_matching_first tie_mro [tie_left; tie_inner] 2%nat 3%nat) /\
  find_matching tie_mro [tie_inner; tie_left] 2%nat 3%nat = [tie_inner; tie_left] /\
  find_matching tie_mro [tie_left; tie_inner] 2%nat 3%nat = [tie_left; tie_inner].
Proof.
  split; [constructor|]. vm_compute. repeat split; try reflexivity.
  intros H. apply Permutation_length_1_inv in H. discriminate.
Qed.
