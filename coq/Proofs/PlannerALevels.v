(* The dependency levels of one feature group (ExecutionPlan._split_features_by_dependency_levels), Model/PlannerA.v.

     split_levels_spec   on acyclic input the `ready = remaining` fallback is never taken, the levels are non-empty,
                         partition the features, and every intra-group ancestor of a feature lies in an EARLIER level
     lv_ok_lidx          ... stated with level indices
     split_levels_perm   the levels do not depend on the iteration orders (level by level, up to permutation) *)
From Coq Require Import List Bool Arith Lia Permutation.
Import ListNotations.
Require Import MV.Model.Orch MV.Model.OrchCheck MV.Model.PlannerA MV.Spec.PlannerASpec.
Require Import MV.Proofs.OrchP MV.Proofs.OrchTermP MV.Proofs.PlannerASets.

Lemma filter_true : forall (A : Type) (l : list A), filter (fun _ => true) l = l.
Proof. intros A l. induction l as [|x l IH]; cbn; [reflexivity | rewrite IH; reflexivity]. Qed.

Lemma filter_len_lt : forall (f : nat -> bool) l x, In x l -> f x = false -> List.length (filter f l) < List.length l.
Proof.
  intros f l x Hx Hf. rewrite <- (filter_true nat l) at 2. apply filter_len_strict; [intros; reflexivity|].
  exists x. repeat split; assumption.
Qed.

Lemma mem_filter : forall (P : nat -> bool) l x, In x l -> mem x (filter P l) = P x.
Proof.
  intros P l x Hx. destruct (P x) eqn:E.
  - apply mem_In. apply filter_In. split; assumption.
  - apply mem_false. intros H. apply filter_In in H. destruct H as [_ H]. congruence.
Qed.

(* every intra-group ancestor of a feature of a level lies in `before` or in an earlier level *)
Fixpoint lv_ok (intra : nat -> list nat) (before : list nat) (levels : list (list nat)) : Prop :=
  match levels with
  | [] => True
  | l :: t => (forall f, In f l -> incl (intra f) before) /\ lv_ok intra (before ++ l) t
  end.

Lemma lv_ok_snoc : forall intra levels b l, lv_ok intra b levels ->
  (forall f, In f l -> incl (intra f) (b ++ concat levels)) -> lv_ok intra b (levels ++ [l]).
Proof.
  intros intra levels. induction levels as [|l0 t IH]; intros b l Hok Hl; cbn.
  - cbn in Hl. split; [|exact I]. intros f Hf. specialize (Hl f Hf). rewrite app_nil_r in Hl. exact Hl.
  - destruct Hok as [H0 Ht]. split; [exact H0|]. apply IH; [exact Ht|].
    intros f Hf. specialize (Hl f Hf). cbn in Hl. rewrite app_assoc in Hl. exact Hl.
Qed.

(* index of the level that contains f *)
Fixpoint lidx (levels : list (list nat)) (f : nat) : nat :=
  match levels with [] => 0 | l :: t => if mem f l then 0 else S (lidx t f) end.

Lemma lidx_le : forall levels f, lidx levels f <= List.length levels.
Proof. intros levels f. induction levels as [|l t IH]; cbn; [lia|]. destruct (mem f l); lia. Qed.

Lemma lv_ok_lidx : forall intra levels b, lv_ok intra b levels ->
  forall f a, In f (concat levels) -> In a (intra f) ->
  In a b \/ (In a (concat levels) /\ lidx levels a < lidx levels f).
Proof.
  intros intra levels. induction levels as [|l t IH]; intros b Hok f a Hf Ha; [destruct Hf|].
  destruct Hok as [Hl Ht]. cbn [concat lidx] in *. destruct (mem f l) eqn:Ef.
  - left. apply mem_In in Ef. exact (Hl f Ef a Ha).
  - apply mem_false in Ef. apply in_app_iff in Hf. destruct Hf as [Hf|Hf]; [contradiction|].
    destruct (IH (b ++ l) Ht f a Hf Ha) as [H|[H1 H2]].
    + apply in_app_iff in H. destruct H as [H|H]; [left; exact H|]. right. split; [apply in_or_app; left; exact H|].
      apply mem_In in H. rewrite H. lia.
    + right. split; [apply in_or_app; right; exact H1|]. destruct (mem a l); lia.
Qed.

Lemma lidx_nth : forall levels k l f, NoDup (concat levels) -> nth_error levels k = Some l -> In f l -> lidx levels f = k.
Proof.
  intros levels. induction levels as [|l0 t IH]; intros k l f Hnd Hk Hf; [destruct k; discriminate|].
  cbn [concat] in Hnd. destruct k as [|k]; cbn in Hk; cbn [lidx].
  - injection Hk as Hk. subst l0. apply mem_In in Hf. rewrite Hf. reflexivity.
  - assert (Hft : In f (concat t)).
    { apply in_concat. exists l. split; [exact (nth_error_In _ _ Hk) | exact Hf]. }
    destruct (mem f l0) eqn:E.
    + exfalso. apply mem_In in E. exact (NoDup_app_disj _ _ f Hnd E Hft).
    + rewrite (IH k l f (NoDup_app_tail _ _ Hnd) Hk Hf). reflexivity.
Qed.

Lemma lv_loop_nil : forall fuel intra placed levels fb, lv_loop fuel intra [] placed levels fb = (levels, fb).
Proof. intros fuel intra placed levels fb. destruct fuel; reflexivity. Qed.

Lemma lv_loop_S : forall f intra remaining placed levels fb, remaining <> [] ->
  lv_loop (S f) intra remaining placed levels fb =
  lv_loop f intra
    (remove_all (match filter (fun u => subset (intra u) placed) remaining with [] => remaining | _ :: _ => filter (fun u => subset (intra u) placed) remaining end) remaining)
    (placed ++ match filter (fun u => subset (intra u) placed) remaining with [] => remaining | _ :: _ => filter (fun u => subset (intra u) placed) remaining end)
    (levels ++ [match filter (fun u => subset (intra u) placed) remaining with [] => remaining | _ :: _ => filter (fun u => subset (intra u) placed) remaining end])
    (match filter (fun u => subset (intra u) placed) remaining with [] => true | _ :: _ => fb end).
Proof. intros f intra remaining placed levels fb H. destruct remaining as [|r rt]; [congruence | reflexivity]. Qed.

Section Levels.
  Variables (intra : nat -> list nat) (F : list nat) (rk : nat -> nat).
  Hypothesis intra_in : forall u a, In a (intra u) -> In a F.
  Hypothesis intra_rk : forall u a, In u F -> In a (intra u) -> rk a < rk u.

  Lemma exists_min : forall l : list nat, l <> [] -> exists u, In u l /\ forall v, In v l -> rk u <= rk v.
  Proof.
    intros l. induction l as [|x l IH]; intros H; [congruence|].
    destruct l as [|y l'].
    - exists x. split; [left; reflexivity|]. intros v [Hv|[]]. subst v. lia.
    - destruct IH as [u [Hu Hmin]]; [discriminate|].
      destruct (le_lt_dec (rk x) (rk u)) as [Hle|Hlt].
      + exists x. split; [left; reflexivity|]. intros v [Hv|Hv]; [subst v; lia | specialize (Hmin v Hv); lia].
      + exists u. split; [right; exact Hu|]. intros v [Hv|Hv]; [subst v; lia | exact (Hmin v Hv)].
  Qed.

  Lemma ready_nonempty : forall remaining placed, remaining <> [] -> incl remaining F ->
    (forall x, In x F -> In x placed \/ In x remaining) ->
    filter (fun u => subset (intra u) placed) remaining <> [].
  Proof.
    intros remaining placed Hne Hsub Hcov Hnil. destruct (exists_min remaining Hne) as [u [Hu Hmin]].
    assert (Hsubu : subset (intra u) placed = true).
    { apply subset_incl. intros a Ha. destruct (Hcov a (intra_in u a Ha)) as [H|H]; [exact H|]. exfalso.
      pose proof (intra_rk u a (Hsub u Hu) Ha) as H1. specialize (Hmin a H). lia. }
    assert (Hin : In u (filter (fun u0 => subset (intra u0) placed) remaining)) by (apply filter_In; split; assumption).
    rewrite Hnil in Hin. destruct Hin.
  Qed.

  Lemma lv_loop_spec : forall fuel remaining placed levels, List.length remaining <= fuel ->
    Permutation (placed ++ remaining) F -> concat levels = placed -> (forall l, In l levels -> l <> []) ->
    lv_ok intra [] levels ->
    snd (lv_loop fuel intra remaining placed levels false) = false /\
    Permutation (concat (fst (lv_loop fuel intra remaining placed levels false))) F /\
    (forall l, In l (fst (lv_loop fuel intra remaining placed levels false)) -> l <> []) /\
    lv_ok intra [] (fst (lv_loop fuel intra remaining placed levels false)).
  Proof.
    intros fuel. induction fuel as [|f IH]; intros remaining placed levels Hlen Hperm Hcat Hne Hok.
    - destruct remaining as [|r rt]; [|cbn in Hlen; lia]. cbn. rewrite app_nil_r in Hperm. rewrite Hcat.
      repeat split; assumption.
    - destruct remaining as [|r0 rt0] eqn:Erem.
      + rewrite lv_loop_nil. cbn. rewrite app_nil_r in Hperm. rewrite Hcat. repeat split; assumption.
      + rewrite <- Erem in *. assert (Hrne : remaining <> []) by (rewrite Erem; discriminate).
        rewrite lv_loop_S by exact Hrne.
        assert (Hsub : incl remaining F).
        { intros x Hx. apply (Permutation_in _ Hperm). apply in_or_app. right. exact Hx. }
        assert (Hcov : forall x, In x F -> In x placed \/ In x remaining).
        { intros x Hx. apply (Permutation_in _ (Permutation_sym Hperm)) in Hx. apply in_app_iff in Hx. exact Hx. }
        pose proof (ready_nonempty remaining placed Hrne Hsub Hcov) as Hready.
        assert (Hspec : forall x, In x (filter (fun u => subset (intra u) placed) remaining) <->
                                  In x remaining /\ subset (intra x) placed = true) by (intros x; apply filter_In).
        assert (Hrest : remove_all (filter (fun u => subset (intra u) placed) remaining) remaining =
                        filter (fun x => negb (subset (intra x) placed)) remaining).
        { unfold remove_all. apply filter_ext_in. intros x Hx. rewrite (mem_filter _ _ _ Hx). reflexivity. }
        destruct (filter (fun u => subset (intra u) placed) remaining) as [|q0 qt] eqn:Eready; [congruence|].
        rewrite <- Eready in *. set (ready := filter (fun u => subset (intra u) placed) remaining) in *.
        apply IH.
        * rewrite Hrest.
          assert (Hq : In q0 ready) by (rewrite Eready; left; reflexivity).
          apply Hspec in Hq. destruct Hq as [Hq1 Hq2].
          assert (Hlt : List.length (filter (fun x => negb (subset (intra x) placed)) remaining) < List.length remaining).
          { apply (filter_len_lt _ remaining q0 Hq1). rewrite Hq2. reflexivity. }
          lia.
        * rewrite Hrest. rewrite <- app_assoc. apply (Permutation_trans (l' := placed ++ remaining)); [|exact Hperm].
          apply Permutation_app_head. unfold ready. apply filter_split_perm.
        * rewrite concat_app. cbn. rewrite app_nil_r, Hcat. reflexivity.
        * intros l Hl. apply in_app_iff in Hl. destruct Hl as [Hl|[Hl|[]]]; [exact (Hne l Hl)|]. subst l. exact Hready.
        * apply lv_ok_snoc; [exact Hok|]. intros x Hx. cbn. rewrite Hcat. apply Hspec in Hx. apply subset_incl. apply Hx.
  Qed.
End Levels.

(* ---------- the whole function ---------- *)
Theorem split_levels_spec : forall (cl : nat -> list nat) (F : list nat) (rk : nat -> nat),
  F <> [] -> (forall u a, In u F -> In a (cl u) -> rk a < rk u) ->
  snd (split_levels cl F) = false /\
  Permutation (concat (fst (split_levels cl F))) F /\
  (forall l, In l (fst (split_levels cl F)) -> l <> []) /\
  lv_ok (intra_of cl F) [] (fst (split_levels cl F)).
Proof.
  intros cl F rk HF Hrk. unfold split_levels. destruct (no_deps (intra_of cl F) F) eqn:End.
  - cbn. rewrite app_nil_r. repeat split.
    + apply Permutation_refl.
    + intros l [Hl|[]]. subst l. exact HF.
    + intros f Hf. unfold no_deps in End. rewrite forallb_forall in End. specialize (End f Hf).
      destruct (intra_of cl F f) as [|x t]; [intros a [] | discriminate].
  - apply (lv_loop_spec (intra_of cl F) F rk).
    + intros u a Ha. unfold intra_of in Ha. apply filter_In in Ha. apply mem_In. apply Ha.
    + intros u a Hu Ha. unfold intra_of in Ha. apply filter_In in Ha. apply (Hrk u a Hu). apply Ha.
    + apply le_n.
    + cbn. apply Permutation_refl.
    + reflexivity.
    + intros l [].
    + exact I.
Qed.

(* ---------- independence of the iteration orders ---------- *)
Lemma nil_iff : forall (l : list nat), l = [] <-> forall x, ~ In x l.
Proof.
  intros l. split; [intros E x H; subst l; destruct H|]. intros H. destruct l as [|x t]; [reflexivity|].
  exfalso. apply (H x). left. reflexivity.
Qed.

Lemma lv_loop_perm : forall fuel intra intra' rem rem' pl pl' lv lv' fb fb2,
  (forall u a, In a (intra u) <-> In a (intra' u)) -> Permutation rem rem' -> Permutation pl pl' ->
  Forall2 (@Permutation nat) lv lv' ->
  Forall2 (@Permutation nat) (fst (lv_loop fuel intra rem pl lv fb)) (fst (lv_loop fuel intra' rem' pl' lv' fb2)).
Proof.
  intros fuel. induction fuel as [|f IH]; intros intra intra' rem rem' pl pl' lv lv' fb fb2 Hin Hrem Hpl Hlv.
  - cbn. exact Hlv.
  - destruct rem as [|r0 rt0] eqn:Erem.
    + apply Permutation_nil in Hrem. subst rem'. rewrite !lv_loop_nil. cbn. exact Hlv.
    + rewrite <- Erem in *. assert (Hne : rem <> []) by (rewrite Erem; discriminate).
      assert (Hne' : rem' <> []).
      { intros E. subst rem'. apply Permutation_sym, Permutation_nil in Hrem. contradiction. }
      rewrite (lv_loop_S f intra rem pl lv fb Hne), (lv_loop_S f intra' rem' pl' lv' fb2 Hne').
      assert (Hready : Permutation (filter (fun u => subset (intra u) pl) rem) (filter (fun u => subset (intra' u) pl') rem')).
      { apply filter_perm; [exact Hrem|]. intros x _. apply subset_ext; [intros y; apply Hin|].
        intros y. split; intros H; [apply (Permutation_in _ Hpl) | apply (Permutation_in _ (Permutation_sym Hpl))]; exact H. }
      set (ready := filter (fun u => subset (intra u) pl) rem) in *.
      set (ready' := filter (fun u => subset (intra' u) pl') rem') in *.
      assert (HR : Permutation (match ready with [] => rem | _ :: _ => ready end) (match ready' with [] => rem' | _ :: _ => ready' end)).
      { destruct ready as [|a t] eqn:E1.
        - apply Permutation_nil in Hready. rewrite Hready. exact Hrem.
        - destruct ready' as [|a' t'] eqn:E2; [apply Permutation_sym, Permutation_nil in Hready; discriminate | exact Hready]. }
      apply IH.
      * exact Hin.
      * unfold remove_all. apply filter_perm; [exact Hrem|]. intros x _. rewrite (mem_perm x _ _ HR). reflexivity.
      * apply Permutation_app; assumption.
      * apply Forall2_app; [exact Hlv|]. constructor; [exact HR | constructor].
Qed.

Theorem split_levels_perm : forall cl cl' F F', (forall u a, In a (cl u) <-> In a (cl' u)) -> Permutation F F' ->
  Forall2 (@Permutation nat) (fst (split_levels cl F)) (fst (split_levels cl' F')).
Proof.
  intros cl cl' F F' Hcl HF.
  assert (Hin : forall u a, In a (intra_of cl F u) <-> In a (intra_of cl' F' u)).
  { intros u a. unfold intra_of. rewrite !filter_In, (mem_perm a F F' HF), Hcl. tauto. }
  assert (Hnd : no_deps (intra_of cl F) F = no_deps (intra_of cl' F') F').
  { assert (Hempty : forall u, (match intra_of cl F u with [] => true | _ :: _ => false end) =
                               (match intra_of cl' F' u with [] => true | _ :: _ => false end)).
    { intros u. destruct (intra_of cl F u) as [|x t] eqn:E1; destruct (intra_of cl' F' u) as [|x' t'] eqn:E2; try reflexivity.
      - exfalso. assert (H : In x' (intra_of cl F u)) by (apply Hin; rewrite E2; left; reflexivity). rewrite E1 in H. destruct H.
      - exfalso. assert (H : In x (intra_of cl' F' u)) by (apply Hin; rewrite E1; left; reflexivity). rewrite E2 in H. destruct H. }
    unfold no_deps. destruct (forallb (fun u => match intra_of cl F u with [] => true | _ :: _ => false end) F) eqn:E.
    - symmetry. apply forallb_forall. intros u Hu. rewrite <- Hempty. rewrite forallb_forall in E. apply E.
      apply (Permutation_in _ (Permutation_sym HF)). exact Hu.
    - symmetry. destruct (forallb (fun u => match intra_of cl' F' u with [] => true | _ :: _ => false end) F') eqn:E'; [|reflexivity].
      exfalso. assert (H : forallb (fun u => match intra_of cl F u with [] => true | _ :: _ => false end) F = true).
      { apply forallb_forall. intros u Hu. rewrite Hempty. rewrite forallb_forall in E'. apply E'. apply (Permutation_in _ HF). exact Hu. }
      rewrite H in E. discriminate. }
  unfold split_levels. rewrite <- Hnd. destruct (no_deps (intra_of cl F) F).
  - cbn. constructor; [exact HF | constructor].
  - rewrite (Permutation_length HF). apply lv_loop_perm; [exact Hin | exact HF | constructor | constructor].
Qed.
