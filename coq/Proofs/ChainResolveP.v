(* C16 — malformed names, and resolution of chained names over a universe of groups. *)
From Coq Require Import List Bool Ascii Arith Lia.
Import ListNotations.
Require Import MV.Model.ChainParser MV.Spec.ChainName MV.Proofs.ChainParserP.
Open Scope list_scope.

(* ---------------------------------------------------------------------------------------------------------- *)
(* several patterns: the first one that matches decides                                                        *)
Lemma parse_list_parsed : forall sufs name op src, parse_feature_name sufs name = Parsed op src ->
  exists suf, In suf sufs /\ parse_feature_name [suf] name = Parsed op src.
Proof.
  induction sufs as [|suf sufs IH]; intros name op src H; cbn [parse_feature_name] in H; [discriminate|].
  destruct (re_match suf name) as [g|] eqn:R.
  - exists suf; split; [left; auto|]. cbn [parse_feature_name]. rewrite R. exact H.
  - destruct (IH _ _ _ H) as (s' & I & P). exists s'; split; [right; auto | exact P].
Qed.

Lemma parse_never_empty_source : forall sufs name op src, parse_feature_name sufs name = Parsed op src ->
  src <> [] /\ op <> [] /\ wordb op = true /\ exists b, name = src ++ us :: us :: b /\ has_dunder (us :: b) = false.
Proof.
  intros sufs name op src H. destruct (parse_list_parsed _ _ _ _ H) as (suf & _ & P).
  destruct (parse_sound _ _ _ _ P) as (A & B & C & D & _). auto.
Qed.

(* empty source: never a parse *)
Lemma empty_source_rejected_l : forall sufs b op src, has_dunder (us :: b) = false ->
  parse_feature_name sufs (us :: us :: b) <> Parsed op src.
Proof.
  intros sufs b op src Hb H. destruct (parse_never_empty_source _ _ _ _ H) as (N & _ & _ & b' & E & Hb').
  assert (R : rsplit (us :: us :: b) = Some ([], b)) by (apply (rsplit_complete [] b Hb)).
  assert (R' : rsplit (us :: us :: b) = Some (src, b')) by (rewrite E; apply rsplit_complete; exact Hb').
  rewrite R in R'. injection R' as <- _. congruence.
Qed.

(* ... and with an otherwise valid operation and suffix it is the ValueError *)
Lemma empty_source_raises_l : forall suf op, wf_suf suf = true -> wf_op op = true ->
  parse_feature_name [suf] (render [] op suf) = PErr.
Proof.
  intros suf op Hs Ho. pose proof (op_suf_no_dunder op suf Ho Hs) as D.
  destruct (wf_op_parts _ Ho) as (Wo & No & _). destruct (wf_suf_parts _ Hs) as (Ws & _).
  unfold render; cbn [app parse_feature_name].
  assert (R : re_match suf (us :: us :: op ++ us :: suf) = Some op).
  { pose proof (re_match_complete suf [] op [] Ws (fun f => f) Wo No (or_introl eq_refl)) as K.
    rewrite !app_nil_r in K. apply K. apply re_match_no_dunder; exact D. }
  rewrite R. pose proof (rsplit_complete [] (op ++ us :: suf) D) as Q. cbn [app] in Q. rewrite Q. reflexivity.
Qed.

Lemma app_eq_split : forall (a b x y : str), a ++ x = b ++ y -> List.length a < List.length b ->
  exists d, d <> [] /\ b = a ++ d /\ x = d ++ y.
Proof.
  induction a as [|c a IH]; intros b x y E L.
  - destruct b as [|c' b]; cbn in L; [lia|]. exists (c' :: b). repeat split; auto. discriminate.
  - destruct b as [|c' b]; cbn in L; [lia|]. cbn in E. injection E as <- E.
    destruct (IH b x y E ltac:(lia)) as (d & N & -> & ->). exists d; auto.
Qed.

(* the operation before the last separator is not a word: no parse *)
Lemma bad_operation_rejected_l : forall suf src op, wordb suf = true ->
  has_dunder (us :: op ++ us :: suf) = false -> wordb op = false ->
  parse_feature_name [suf] (render src op suf) = NoParse.
Proof.
  intros suf src op Ws D Wo. cbn [parse_feature_name].
  destruct (re_match suf (render src op suf)) as [g|] eqn:R; auto. exfalso.
  apply re_match_sound in R as (pre & e & (E & He & Hn & Ng & Wg)). unfold render in E.
  destruct (Nat.lt_trichotomy (List.length src) (List.length pre)) as [Lt|[Eq|Gt]].
  - pose proof (later_occurrence _ _ _ _ E Lt) as K. congruence.
  - destruct (app_eq_len _ _ _ _ Eq E) as [_ E2]. injection E2 as E2.
    replace (op ++ us :: suf) with (op ++ us :: suf ++ []) in E2 by (rewrite app_nil_r; reflexivity).
    apply tail_unique in E2 as [-> _]; auto; [congruence | left; reflexivity].
  - symmetry in E. destruct (app_eq_split _ _ _ _ E Gt) as (d & Nd & _ & E2).
    assert (E3 : (us :: us :: g) ++ us :: suf ++ e = (d ++ us :: us :: op) ++ us :: suf ++ []).
    { rewrite app_nil_r. cbn [app]. rewrite E2. rewrite <- app_assoc. reflexivity. }
    apply tail_unique in E3 as [E3 _]; auto; [|left; reflexivity].
    assert (W : wordb (d ++ us :: us :: op) = true) by (rewrite <- E3; unfold wordb; cbn; exact Wg).
    rewrite wordb_app in W. apply andb_true_iff in W as [_ W]. unfold wordb in W; cbn [forallb] in W.
    rewrite us_word in W. cbn [andb] in W. unfold wordb in Wo. congruence.
Qed.

(* the name does not end with "_" suf (nor with that and a newline): no parse *)
Lemma wrong_suffix_rejected_l : forall suf name,
  (forall x e, nlopt e -> name <> x ++ us :: suf ++ e) -> parse_feature_name [suf] name = NoParse.
Proof.
  intros suf name H. cbn [parse_feature_name].
  destruct (re_match suf name) as [g|] eqn:R; auto. exfalso.
  apply re_match_sound in R as (pre & e & (E & He & _)).
  apply (H (pre ++ us :: us :: g) e He). rewrite E, <- app_assoc. reflexivity.
Qed.

Lemma in_removelast : forall (x : ascii) l, In x (removelast l) -> In x l.
Proof.
  induction l as [|a l IH]; cbn; auto. destruct l as [|b l]; [contradiction|].
  intros [->|H]; [left; auto | right; apply IH; exact H].
Qed.

(* a newline anywhere but at the very end: no parse *)
Lemma newline_rejected_l : forall suf name, wordb suf = true -> In nl (removelast name) ->
  parse_feature_name [suf] name = NoParse.
Proof.
  intros suf name Ws I. cbn [parse_feature_name].
  destruct (re_match suf name) as [g|] eqn:R; auto. exfalso.
  apply re_match_sound in R as (pre & e & (E & He & Hn & Ng & Wg)).
  assert (NY : ~ In nl (pre ++ us :: us :: g ++ us :: suf)).
  { intros J. apply in_app_or in J as [J|[J|[J|J]]]; try contradiction; try discriminate.
    apply in_app_or in J as [J|[J|J]]; try discriminate.
    - apply wordb_no_nl in Wg; contradiction.
    - apply wordb_no_nl in Ws; contradiction. }
  destruct He as [->| ->].
  - rewrite app_nil_r in E. subst name. apply in_removelast in I. contradiction.
  - replace (pre ++ us :: us :: g ++ us :: suf ++ [nl]) with ((pre ++ us :: us :: g ++ us :: suf) ++ [nl]) in E.
    + subst name. rewrite removelast_last in I. contradiction.
    + rewrite <- app_assoc. cbn. rewrite <- app_assoc. reflexivity.
Qed.

(* ---------------------------------------------------------------------------------------------------------- *)
(* suffixes of different groups                                                                                *)
Lemma starts_with_refl_app : forall p x, starts_with p (p ++ x) = true.
Proof. induction p as [|a p IH]; intros x; cbn; auto. rewrite Ascii.eqb_refl, IH; reflexivity. Qed.

Lemma prefix_comparable : forall (p q x y : str), p ++ x = q ++ y -> starts_with p q = true \/ starts_with q p = true.
Proof.
  induction p as [|a p IH]; intros q x y E; [left; reflexivity|].
  destruct q as [|b q]; [right; reflexivity|].
  cbn in E. injection E as <- E. destruct (IH _ _ _ E) as [H|H]; [left|right]; cbn; rewrite Ascii.eqb_refl, H; reflexivity.
Qed.

Lemma suffix_comparable : forall (x y a b : str), x ++ a = y ++ b -> is_suffix a b = true \/ is_suffix b a = true.
Proof.
  intros x y a b E. apply (f_equal (@rev ascii)) in E. rewrite !rev_app_distr in E.
  unfold is_suffix. eapply prefix_comparable; eauto.
Qed.

Lemma ends_not_nl : forall suf (p q : str), wordb suf = true -> p ++ us :: suf = q ++ [nl] -> False.
Proof.
  intros suf p q W F. apply (f_equal (@rev ascii)) in F. rewrite !rev_app_distr in F. cbn [rev app] in F.
  destruct (rev suf) as [|x s] eqn:R.
  - cbn in F. injection F as F _. discriminate.
  - cbn in F. injection F as F _. subst x.
    assert (I : In nl suf) by (apply in_rev; rewrite R; left; auto).
    apply wordb_no_nl in W; contradiction.
Qed.

Lemma other_suffix_no_match : forall s1 s2 src op, wordb s1 = true ->
  is_suffix (us :: s1) (us :: s2) = false -> is_suffix (us :: s2) (us :: s1) = false ->
  re_match s2 (render src op s1) = None.
Proof.
  intros s1 s2 src op W1 A B. destruct (re_match s2 (render src op s1)) as [g|] eqn:R; auto. exfalso.
  apply re_match_sound in R as (pre & e & (E & He & _)). unfold render in E.
  destruct He as [->| ->].
  - rewrite app_nil_r in E.
    assert (E' : (src ++ us :: us :: op) ++ us :: s1 = (pre ++ us :: us :: g) ++ us :: s2)
      by (rewrite <- !app_assoc; exact E).
    destruct (suffix_comparable _ _ _ _ E') as [H|H]; congruence.
  - assert (E' : (src ++ us :: us :: op) ++ us :: s1 = (pre ++ us :: us :: g ++ us :: s2) ++ [nl]).
    { rewrite <- !app_assoc. cbn [app]. rewrite E. f_equal. f_equal. f_equal. rewrite <- app_assoc. reflexivity. }
    eapply ends_not_nl; eauto.
Qed.

(* ---------------------------------------------------------------------------------------------------------- *)
(* resolution over a universe                                                                                  *)
Lemma check_defaults_empty : forall ks, check_defaults ks [] [] = Ok true.
Proof. induction ks as [|k ks IH]; cbn; auto. Qed.

Lemma validate_options_empty : forall g, validate_options g [] [] = Ok false.
Proof. intros g; unfold validate_options; cbn. rewrite check_defaults_empty. reflexivity. Qed.

Fixpoint idx_true (k : nat) (bs : list bool) : list nat :=
  match bs with [] => [] | b :: t => if b then k :: idx_true (S k) t else idx_true (S k) t end.

Lemma claims_spec : forall gs bs k name gr cx,
  Forall2 (fun g b => match_criteria g name gr cx = Ok b) gs bs -> claims gs k name gr cx = Ok (idx_true k bs).
Proof.
  induction gs as [|g gs IH]; intros bs k name gr cx F; inversion F; subst; cbn; auto.
  rewrite H1. rewrite (IH _ (S k) _ _ _ H3). destruct y; reflexivity.
Qed.

Definition onehot (n i : nat) : list bool := map (fun j => Nat.eqb j i) (seq 0 n).

Lemma idx_true_shift : forall bs k, idx_true (S k) bs = map S (idx_true k bs).
Proof. induction bs as [|b bs IH]; intros k; cbn; auto. destruct b; cbn; rewrite IH; reflexivity. Qed.

Lemma idx_true_map_eqb : forall n s i k, s <= i -> i < s + n ->
  idx_true k (map (fun j => Nat.eqb j i) (seq s n)) = [k + (i - s)].
Proof.
  induction n as [|n IH]; intros s i k L U; [lia|]. cbn [seq map idx_true].
  destruct (Nat.eqb s i) eqn:E.
  - apply Nat.eqb_eq in E; subst s. replace (i - i) with 0 by lia. rewrite Nat.add_0_r. f_equal.
    clear IH. assert (Z : forall m t k', i < t -> idx_true k' (map (fun j => Nat.eqb j i) (seq t m)) = []).
    { induction m as [|m IHm]; intros t k' Lt; cbn; auto.
      destruct (Nat.eqb t i) eqn:E; [apply Nat.eqb_eq in E; lia|]. apply IHm; lia. }
    apply Z; lia.
  - apply Nat.eqb_neq in E. rewrite (IH (S s) i (S k)) by lia. f_equal. lia.
Qed.

Lemma idx_true_onehot : forall n i, i < n -> idx_true 0 (onehot n i) = [i].
Proof. intros n i L. unfold onehot. rewrite (idx_true_map_eqb n 0 i 0) by lia. f_equal. lia. Qed.

Lemma Forall2_onehot : forall (gs : list grp) (P : grp -> bool -> Prop) i,
  (forall j g, nth_error gs j = Some g -> P g (Nat.eqb j i)) -> Forall2 P gs (onehot (List.length gs) i).
Proof.
  intros gs P i H. unfold onehot.
  assert (G : forall s, (forall j g, nth_error gs j = Some g -> P g (Nat.eqb (s + j) i)) ->
                        Forall2 P gs (map (fun j => Nat.eqb j i) (seq s (List.length gs)))).
  { clear H. induction gs as [|g gs IH]; intros s H; cbn; constructor.
    - specialize (H 0 g eq_refl). rewrite Nat.add_0_r in H. exact H.
    - apply IH. intros j g' N. specialize (H (S j) g' N). replace (S s + j) with (s + S j) by lia. exact H. }
  apply (G 0). intros j g N. cbn. apply H; exact N.
Qed.

(* facts drawn from universe_ok *)
Lemma forallb_nth_error : forall {A} (p : A -> bool) l i x, forallb p l = true -> nth_error l i = Some x -> p x = true.
Proof. intros A p l i x F N. rewrite forallb_forall in F. apply F. eapply nth_error_In; eauto. Qed.

Lemma pairwise_nth : forall {A} (p : A -> A -> bool) l i j x y, pairwise p l = true -> i <> j ->
  nth_error l i = Some x -> nth_error l j = Some y -> p x y = true.
Proof.
  intros A p; induction l as [|a l IH]; intros i j x y P D Ni Nj; [destruct i; discriminate|].
  cbn in P. apply andb_true_iff in P as [P P3]. apply andb_true_iff in P as [P1 P2].
  destruct i as [|i], j as [|j]; cbn in Ni, Nj; try congruence.
  - injection Ni as <-. rewrite forallb_forall in P1. apply P1. eapply nth_error_In; eauto.
  - injection Nj as <-. rewrite forallb_forall in P2. apply (P2 x). eapply nth_error_In; eauto.
  - apply (IH i j x y P3); auto.
Qed.

Lemma group_ok_parts : forall g, group_ok g = true ->
  exists s, g_sufs g = [s] /\ wf_suf s = true /\ str_eqb (g_key g) k_in_features = false /\
            existsb (str_eqb (g_key g)) (g_defaults g) = false /\ count_ok g 1 = true /\
            existsb (str_eqb k_in_features) (g_defaults g) = false.
Proof.
  unfold group_ok; intros g H. repeat (apply andb_true_iff in H as [H ?]).
  destruct (g_sufs g) as [|s [|? ?]] eqn:S; try discriminate. exists s. repeat split; auto.
  - apply negb_true_iff; auto.
  - apply negb_true_iff; auto.
  - unfold count_ok. rewrite H2. destruct (g_max g); auto.
  - apply negb_true_iff; auto.
Qed.

Lemma grp_at_nth_error : forall gs i, i < List.length gs -> nth_error gs i = Some (grp_at gs i).
Proof. intros gs i L. unfold grp_at. apply nth_error_nth'. exact L. Qed.

Lemma split_on_none : forall c x, contains c x = false -> split_on c x = [x].
Proof.
  induction x as [|a x IH]; cbn; intros H; auto.
  apply orb_false_iff in H as [H1 H2]. rewrite H1. rewrite (IH H2). reflexivity.
Qed.

(* a name of group i (well-formed pieces, single input): exactly group i claims it, and it resolves to (op, src) *)
Lemma resolve_step_name : forall gs i src op, universe_ok gs = true -> i < List.length gs ->
  wf_src src = true -> contains amp src = false -> op_ok gs (i, op) = true ->
  resolve_step gs (feat (render src op (g_suf (grp_at gs i)))) = SOne i (PStr op) [feat src].
Proof.
  intros gs i src op U L Hs Ha Ho.
  unfold universe_ok in U. apply andb_true_iff in U as [Ug Up].
  pose proof (grp_at_nth_error gs i L) as Ni.
  destruct (group_ok_parts _ (forallb_nth_error _ _ _ _ Ug Ni)) as (s & Ss & Ws & _ & _ & C1 & _).
  unfold op_ok in Ho; cbn [fst snd] in Ho. apply andb_true_iff in Ho as [Ho Hv]. apply andb_true_iff in Ho as [_ Ho].
  assert (Gs : g_suf (grp_at gs i) = s) by (unfold g_suf; rewrite Ss; reflexivity). rewrite Gs.
  set (name := render src op s).
  assert (P : parse_feature_name [s] name = Parsed op src) by (apply roundtrip_l; auto).
  assert (CL : claims gs 0 name [] [] = Ok [i]).
  { rewrite (claims_spec gs (onehot (List.length gs) i)); [rewrite idx_true_onehot; auto|].
    apply Forall2_onehot. intros j g Nj. unfold match_criteria.
    destruct (Nat.eqb j i) eqn:E.
    - apply Nat.eqb_eq in E; subst j. rewrite Ni in Nj. injection Nj as <-. rewrite Ss, P. reflexivity.
    - apply Nat.eqb_neq in E.
      destruct (group_ok_parts _ (forallb_nth_error _ _ _ _ Ug Nj)) as (s' & Ss' & Ws' & _).
      pose proof (pairwise_nth _ _ _ _ _ _ Up E Nj Ni) as A1.
      pose proof (pairwise_nth _ _ _ _ _ _ Up (not_eq_sym E) Ni Nj) as A2.
      unfold groups_apart in A1, A2. repeat (apply andb_true_iff in A1 as [A1 ?]). repeat (apply andb_true_iff in A2 as [A2 ?]).
      apply negb_true_iff in A1, A2. unfold g_suf in A1, A2. rewrite Ss, Ss' in A1, A2.
      destruct (wf_suf_parts _ Ws) as (W1 & _).
      rewrite Ss'. cbn [parse_feature_name]. unfold name. rewrite (other_suffix_no_match s s' src op W1 A2 A1).
      rewrite validate_options_empty. reflexivity. }
  unfold resolve_step, feat. rewrite CL. rewrite Ni.
  unfold input_features, extract_op. rewrite Ss, P.
  destruct (wf_src_parts _ Hs) as (Ns & _). destruct src as [|c src']; [congruence|].
  rewrite (split_on_none amp (c :: src') Ha). cbn [List.length]. rewrite C1. cbn [map dedup existsb].
  apply orb_true_iff in Hv as [Hv|Hv].
  - apply negb_true_iff in Hv. rewrite Hv. cbn [andb]. reflexivity.
  - rewrite Hv. cbn [negb]. rewrite andb_false_r. reflexivity.
Qed.

(* a plain source is claimed by no group *)
Lemma resolve_step_atom : forall gs src, has_dunder src = false -> resolve_step gs (feat src) = SNone.
Proof.
  intros gs src H. unfold resolve_step, feat.
  assert (CL : forall k, claims gs k src [] [] = Ok []).
  { induction gs as [|g gs IH]; intros k; cbn [claims]; auto.
    unfold match_criteria. rewrite (parse_no_separator _ _ H), validate_options_empty. rewrite IH. reflexivity. }
  rewrite CL. reflexivity.
Qed.

Lemma render_chain_app : forall src a b, render_chain src (a ++ b) = render_chain (render_chain src a) b.
Proof. intros src a; revert src; induction a as [|[o s] a IH]; intros src b; cbn; auto. Qed.

Lemma contains_app : forall c a b, contains c (a ++ b) = contains c a || contains c b.
Proof. induction a as [|x a IH]; intros b; cbn; auto. rewrite IH, orb_assoc. reflexivity. Qed.

Lemma wordb_contains : forall c x, is_word c = false -> wordb x = true -> contains c x = false.
Proof.
  intros c x Hc W. destruct (contains c x) eqn:E; auto. apply contains_In in E.
  unfold wordb in W. rewrite forallb_forall in W. apply W in E. congruence.
Qed.

Lemma render_props : forall c src op suf, is_word c = false -> Ascii.eqb us c = false ->
  wordb op = true -> wordb suf = true ->
  contains c (render src op suf) = contains c src.
Proof.
  intros c src op suf Hc Hu Wo Ws. unfold render. rewrite contains_app. cbn [contains]. rewrite contains_app. cbn [contains].
  rewrite Hu, (wordb_contains c op Hc Wo), (wordb_contains c suf Hc Ws). cbn. rewrite orb_false_r. reflexivity.
Qed.

Lemma render_nonempty : forall src op suf, render src op suf <> [].
Proof. intros src op suf. unfold render. destruct src; discriminate. Qed.

(* names of well-formed chains stay well-formed single-input sources *)
Lemma chain_name_wf : forall gs, forallb group_ok gs = true -> forall ops src, chain_ok gs ops = true ->
  wf_src src = true -> contains amp src = false ->
  wf_src (chain_name gs src ops) = true /\ contains amp (chain_name gs src ops) = false.
Proof.
  intros gs Ug ops. unfold chain_name. induction ops as [|[i op] ops IH]; intros src C Hs Ha; cbn [map render_chain]; auto.
  cbn [chain_ok forallb] in C. apply andb_true_iff in C as [Co C]. cbn [fst snd].
  unfold op_ok in Co; cbn [fst snd] in Co. apply andb_true_iff in Co as [Co _]. apply andb_true_iff in Co as [Li Wo].
  apply Nat.ltb_lt in Li. pose proof (grp_at_nth_error gs i Li) as Ni.
  destruct (group_ok_parts _ (forallb_nth_error _ _ _ _ Ug Ni)) as (s & Ss & Ws & _).
  assert (Gs : g_suf (grp_at gs i) = s) by (unfold g_suf; rewrite Ss; reflexivity). rewrite Gs.
  destruct (wf_op_parts _ Wo) as (Wop & _). destruct (wf_suf_parts _ Ws) as (Wsf & _).
  apply IH; auto.
  - unfold wf_src. apply andb_true_iff; split.
    + pose proof (render_nonempty src op s). destruct (render src op s); [congruence | reflexivity].
    + apply negb_true_iff. rewrite (render_props nl src op s eq_refl eq_refl Wop Wsf).
      unfold wf_src in Hs. apply andb_true_iff in Hs as [_ Hs]. apply negb_true_iff in Hs. exact Hs.
  - rewrite (render_props amp src op s eq_refl eq_refl Wop Wsf). exact Ha.
Qed.

Lemma resolve_chain_S : forall gs n f,
  resolve_chain gs (S n) f =
  match resolve_step gs f with
  | SNone => WEnd [] f
  | SOne gi op [i] => walk_cons (gi, op) (resolve_chain gs n i)
  | s => WStuck [] s
  end.
Proof. reflexivity. Qed.

Lemma chain_left_to_right_l : forall gs ops src, universe_ok gs = true -> chain_ok gs ops = true -> wf_atom src = true ->
  resolve_chain gs (S (List.length ops)) (feat (chain_name gs src ops)) = expected_walk ops src.
Proof.
  intros gs ops src U. revert src. induction ops as [|[i op] ops IH] using rev_ind; intros src C A.
  - unfold wf_atom in A. apply andb_true_iff in A as [A _]. apply andb_true_iff in A as [_ A]. apply negb_true_iff in A.
    cbn [List.length resolve_chain chain_name map render_chain]. rewrite (resolve_step_atom gs src A). reflexivity.
  - unfold chain_ok in C. rewrite forallb_app in C. apply andb_true_iff in C as [C Co]. cbn [forallb] in Co.
    rewrite andb_true_r in Co.
    pose proof U as U'. unfold universe_ok in U'. apply andb_true_iff in U' as [Ug _].
    pose proof A as A'. unfold wf_atom in A'. apply andb_true_iff in A' as [A' Aa]. apply andb_true_iff in A' as [As _].
    apply negb_true_iff in Aa.
    destruct (chain_name_wf gs Ug ops src C As Aa) as (Wn & An).
    unfold chain_name. rewrite map_app, render_chain_app. cbn [map render_chain fst snd].
    fold (chain_name gs src ops).
    rewrite app_length. cbn [List.length]. replace (List.length ops + 1) with (S (List.length ops)) by lia.
    rewrite resolve_chain_S.
    pose proof Co as Co'. unfold op_ok in Co'. cbn [fst snd] in Co'. apply andb_true_iff in Co' as [Co' _].
    apply andb_true_iff in Co' as [Li _]. apply Nat.ltb_lt in Li.
    rewrite (resolve_step_name gs i (chain_name gs src ops) op U Li Wn An Co).
    rewrite (IH src C A). unfold expected_walk, walk_cons. rewrite map_app, rev_app_distr. reflexivity.
Qed.

(* ---------------------------------------------------------------------------------------------------------- *)
(* sub-columns                                                                                                 *)
Lemma split_on_first : forall c b rest, contains c b = false ->
  exists ps, split_on c (b ++ c :: rest) = b :: ps.
Proof.
  induction b as [|a b IH]; intros rest H.
  - cbn [app split_on]. rewrite Ascii.eqb_refl. eauto.
  - cbn in H. apply orb_false_iff in H as [H1 H2]. cbn [app split_on]. rewrite H1.
    destruct (IH rest H2) as (ps & ->). eauto.
Qed.

Lemma column_base_tilde : forall b rest, contains tilde b = false -> column_base (b ++ tilde :: rest) = b.
Proof. intros b rest H. unfold column_base. destruct (split_on_first tilde b rest H) as (ps & ->). reflexivity. Qed.

Lemma column_base_plain : forall b, contains tilde b = false -> column_base b = b.
Proof. intros b H. unfold column_base. rewrite (split_on_none tilde b H). reflexivity. Qed.

(* the producer of `b` claims every name that starts with b~ — whatever follows, a column index or a whole chain *)
Lemma root_claims_tilde : forall sup b rest, contains tilde b = false ->
  root_claims sup (b ++ tilde :: rest) = existsb (str_eqb b) sup.
Proof. intros sup b rest H. unfold root_claims. rewrite (column_base_tilde b rest H). reflexivity. Qed.
