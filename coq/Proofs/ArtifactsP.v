(* Proofs about Model/Artifacts.v: the accessor evaluated by the finally block before join() returns in EVERY state of the
   register, hence the crash point CArtifacts of Model/Worker.v is unreachable when the protocol runs together with the
   register, and Worker_exit_cleanup_partial applies to every exit path. *)
From Coq Require Import List Bool Arith.
Import ListNotations.
Require Import MV.Model.Orch MV.Model.Worker MV.Spec.WorkerSpec MV.Proofs.WorkerP MV.Proofs.WorkerExitP MV.Model.Artifacts.

Lemma artifacts_call_never_raises_l : forall r d, get_artifacts r = Some (a_arts r) /\ finally_artifacts get_artifacts r d = Some (a_arts r).
Proof. intros r d. split; reflexivity. Qed.

(* which guarded accessors are safe: exactly those whose guard is never true *)
Lemma guarded_total_iff_l : forall guard, (forall r, get_artifacts_guarded guard r <> None) <-> (forall r, guard r = false).
Proof.
  intros guard. unfold get_artifacts_guarded. split; intros H r.
  - specialize (H r). destruct (guard r); [exfalso; apply H; reflexivity | reflexivity].
  - rewrite (H r). discriminate.
Qed.

Definition fcrash (q : opc) : bool :=
  match q with
  | PFinally XFinallyCrash | PTerm XFinallyCrash _ | PJoin XFinallyCrash _ | PDrop XFinallyCrash | PExited XFinallyCrash => true
  | _ => false
  end.

Ltac desA S := repeat (dm S; try discriminate S).

Lemma step_no_crash : forall c st l st', step c st l = Some st' -> fcrash (pc st) = false -> l <> OArtifacts false ->
  fcrash (pc st') = false.
Proof.
  intros c st l st' S H NL. destruct l; cbn in S; unfold submit, next in S;
    try (desA S; inv_some S; cbn in *; try rewrite Heqo in H; cbn in *; solve [auto | congruence]).
Qed.

Lemma step_a_step : forall g c art s l s', step_a g c art s l = Some s' -> step c (a_st s) l = Some (a_st s').
Proof.
  intros g c art s l s' S. unfold step_a in S. destruct (step c (a_st s) l) as [st'|]; [|discriminate S].
  destruct l; desA S; inv_some S; reflexivity.
Qed.

Lemma step_a_label : forall g c art s l s', (forall r, g r <> None) -> step_a g c art s l = Some s' -> l <> OArtifacts false.
Proof.
  intros g c art s l s' T S E. subst l. unfold step_a, finally_artifacts in S.
  destruct (step c (a_st s) (OArtifacts false)); [|discriminate S].
  destruct (g (a_reg s)) eqn:G; [discriminate S | exact (T _ G)].
Qed.

Lemma exec_a_exec : forall g c art tr s s', exec_a g c art s tr = Some s' -> exec c (a_st s) tr = Some (a_st s').
Proof.
  intros g c art tr. induction tr as [|l t IH]; intros s s' E; cbn in *.
  - inv_some E. reflexivity.
  - destruct (step_a g c art s l) as [s1|] eqn:S; [|discriminate E]. rewrite (step_a_step _ _ _ _ _ _ S). apply IH. exact E.
Qed.

Lemma exec_a_no_crash : forall g c art, (forall r, g r <> None) -> forall tr s s', exec_a g c art s tr = Some s' ->
  fcrash (pc (a_st s)) = false -> fcrash (pc (a_st s')) = false.
Proof.
  intros g c art T tr. induction tr as [|l t IH]; intros s s' E H; cbn in *.
  - inv_some E. exact H.
  - destruct (step_a g c art s l) as [s1|] eqn:S; [|discriminate E]. apply (IH s1 s' E).
    apply (step_no_crash c (a_st s) l); [apply (step_a_step _ _ _ _ _ _ S) | exact H | apply (step_a_label _ _ _ _ _ _ T S)].
Qed.

(* the crash point CArtifacts is unreachable for every accessor that never raises *)
Lemma crash_unreachable_l : forall g c art, (forall r, g r <> None) -> forall tr s, exec_a g c art ainit tr = Some s ->
  pc (a_st s) <> PExited XFinallyCrash.
Proof.
  intros g c art T tr s E X. pose proof (exec_a_no_crash g c art T tr ainit s E eq_refl) as H. rewrite X in H. discriminate H.
Qed.

Lemma get_artifacts_total : forall r, get_artifacts r <> None.
Proof. intros r. discriminate. Qed.

Lemma every_exit_path_cleans_up_l : forall c art tr s x, exec_a get_artifacts c art ainit tr = Some s -> pc (a_st s) = PExited x ->
  x <> XFinallyCrash /\
  all_joined c (a_st s) /\ no_live_worker (a_st s) /\ tasks_are_the_started_workers (a_st s) /\
  (mp c = false -> flight (a_st s) = []) /\ (mp c = true -> dropfail (a_st s) = false -> flight (a_st s) = []).
Proof.
  intros c art tr s x E X.
  assert (NX : x <> XFinallyCrash).
  { intros ->. exact (crash_unreachable_l get_artifacts c art get_artifacts_total tr s E X). }
  split; [exact NX|]. apply (exit_cleanup_l c (a_st s) x); [|exact X|exact NX].
  exists tr. exact (exec_a_exec _ _ _ _ _ _ E).
Qed.

(* what the session reports after the call is what the register held when the finally block ran (every exit path) *)
Lemma step_a_dlm : forall g c art s l s', step_a g c art s l = Some s' ->
  a_dlm s' = a_dlm s \/ (l = OArtifacts true /\ g (a_reg s) = Some (a_dlm s') /\ a_reg s' = a_reg s).
Proof.
  intros g c art s l s' S. unfold step_a, finally_artifacts in S. destruct (step c (a_st s) l); [|discriminate S].
  destruct l; desA S; inv_some S; cbn; auto.
Qed.

(* ---- witness: three independent requested steps; 0 and 1 on worker 5, 2 on worker 6; step 0 saves artifact (0, 7);
   step 1 raises in its calculation while step 2 is still running ---- *)
Definition fgA (i : nat) (us : list nat) : Orch.step := {| sid := i; skind := KFG; uuids := us; req := []; requested := true |}.
Definition wpA : plan := [fgA 0 [1]; fgA 1 [2]; fgA 2 [3]].
Definition wcA : cfg :=
  {| cplan := wpA; mp := true; cstream := false; wof := fun s => if Nat.eqb s 2 then 6 else 5; wdrop := fun s => if Nat.eqb s 2 then 6 else 5;
     children := fun _ => [1; 2; 3]; wfail := fun s => if Nat.eqb s 1 then Some CCalc else None |}.
Definition artA (s : nat) : option (nat * nat) := if Nat.eqb s 0 then Some (0, 7) else None.
Definition trA_prefix : list label :=
  [OHead; OExec true; OExec true; OExec true; OEndScan; WTake 5; WUpload 5; WDone 5; WTake 5; WFail 5 CCalc; WTake 6; OHead].

Definition g_seed : getter := get_artifacts_guarded guard_failed_partial.

Lemma artifacts_guarded_refuted_l :
  exists s, exec_a g_seed wcA artA ainit (trA_prefix ++ [OArtifacts false]) = Some s /\
    pc (a_st s) = PExited XFinallyCrash /\ a_error (a_reg s) = true /\ a_arts (a_reg s) = [(0, 7)] /\
    alive (phase (ws (a_st s) 6)) = true /\ terminated (ws (a_st s) 6) = false /\ joined (ws (a_st s) 6) = false /\
    joined (ws (a_st s) 5) = false /\ flight (a_st s) = [5] /\ a_dlm s = [].
Proof. eexists. split; [vm_compute; reflexivity|]. vm_compute. repeat split. Qed.

(* the same history under the accessor as it is: the raising branch is not a transition, the run goes on to join and drop *)
Lemma artifacts_same_history_cleans_l :
  exec_a get_artifacts wcA artA ainit (trA_prefix ++ [OArtifacts false]) = None /\
  exists s, exec_a get_artifacts wcA artA ainit
              (trA_prefix ++ [OArtifacts true; OTerminate 5; OJoin 5; OTerminate 6; OJoin 6; OClose; ODropAll true]) = Some s /\
    pc (a_st s) = PExited XRaisedHead /\ flight (a_st s) = [] /\ phase (ws (a_st s) 6) = WKilled /\ joined (ws (a_st s) 6) = true /\
    a_dlm s = [(0, 7)].
Proof. split; [vm_compute; reflexivity|]. eexists. split; [vm_compute; reflexivity|]. vm_compute. repeat split. Qed.

(* the guard of the refuted accessor fires exactly on failed runs that saved something *)
Lemma guard_failed_partial_spec_l : forall r, g_seed r = None <-> (a_error r = true /\ a_arts r <> []).
Proof.
  intros r. unfold g_seed, get_artifacts_guarded, guard_failed_partial. destruct (a_error r); destruct (a_arts r); cbn; split;
    try discriminate; try (intros [? ?]; congruence); intros _; split; congruence.
Qed.
