(* Theorems about the planner model (Model/PlannerA.v) for the strict Stage-A fragment.  For every finite acyclic feature
   graph g (graph_ok), one compute framework (strict), every order oracle (ord_ok); no size bound anywhere.

     closure_correct      (PlannerAGraph)  parent_to_children_mapping[c] = proper ancestors of c
     levels_sound         intra-group ancestors are computed by strictly earlier steps of the plan; no fallback
     plan_uuids           the produced sets partition the features of the graph
     plan_facts           the propositional content of wf_plan except acyclicity of the wait-for relation
     prepare_outcome      add_tfs adds nothing, the produced-check passes: Planned / RejectedCycle by the run simulation
     prepare_accepts_iff  accepted exactly when the unvalidated plan is well formed for some order
     plan_wf              every accepted plan is well formed (explicit order: the simulation's start order)
     prepare_accepts_dag  group_dag g -> accepted (plan_wf_rank gives an explicit order from a rank)
     plan_wf_refuted      the unvalidated plan can be cyclic: why the validation of /repo 12fe10c is needed
     plan_req_covers      req_covers (plan_of ord g) (adj g) = true
     plan_deterministic   any two orders give the same plan up to permutation of steps / of the lists inside them
     requests_terminate   composition with terminates_sync and start_requires *)
From Coq Require Import List Bool Arith Lia Permutation.
Import ListNotations.
Require Import MV.Model.Orch MV.Model.OrchCheck MV.Model.Grouping MV.Model.PlannerA MV.Spec.PlannerASpec.
Require Import MV.Proofs.OrchP MV.Proofs.OrchTermP MV.Proofs.PlannerASets MV.Proofs.PlannerAGraph.
Require Import MV.Proofs.PlannerAQueue MV.Proofs.PlannerALevels MV.Proofs.PlannerAOrder MV.Proofs.PlanSimP.

(* the dependency levels of feature group k *)
Definition glevels (ord : oparam) (g : fgraph) (k : nat) : list (list nat) :=
  fst (split_levels (fun u => aget0 u (p2c_of g)) (ord 1 (ord 0 (members g (queue_of g) k)))).

Lemma uuids_set_sid : forall i s, uuids (set_sid i s) = uuids s. Proof. reflexivity. Qed.
Lemma req_set_sid : forall i s, req (set_sid i s) = req s. Proof. reflexivity. Qed.
Lemma sid_set_sid : forall i s, sid (set_sid i s) = i. Proof. reflexivity. Qed.

Lemma concat_as_flat_map : forall (L : list (list nat)), concat L = flat_map (fun x => x) L.
Proof. intros L. induction L as [|l L IH]; cbn; [reflexivity | rewrite IH; reflexivity]. Qed.

Section Plan.
  Variables (ord : oparam) (g : fgraph).
  Hypothesis Hord : ord_ok ord.
  Hypothesis Hok : graph_ok g.
  Hypothesis Hstrict : strict g.

  Local Notation Q := (queue_of g).
  Local Notation cl := (p2c_of g).
  Local Notation PQ := (planned_queue g (queue_of g)).

  Lemma members_ids : forall k u, In u (members g Q k) -> In u (ids g).
  Proof. intros k u H. apply members_spec in H. apply (queue_complete g Hok). apply H. Qed.

  Lemma pq_entry : forall e, In e PQ ->
    snd e = members g Q (fst e) /\ snd e <> [] /\ incl (snd e) (ids g) /\ NoDup (snd e).
  Proof.
    intros e He. destruct (planned_queue_spec g Q) as (_ & P2 & _). destruct (P2 e He) as [E [u [Hu Hk]]].
    split; [exact E|]. rewrite E. split; [|split].
    - intros Hnil. assert (Hin : In u (members g Q (fst e))) by (apply members_spec; split; assumption).
      rewrite Hnil in Hin. destruct Hin.
    - intros x Hx. exact (members_ids _ _ Hx).
    - apply members_nodup.
  Qed.

  Lemma pq_of_feature : forall u, In u (ids g) -> exists e, In e PQ /\ fst e = grp_of g u /\ In u (snd e).
  Proof.
    intros u Hu. destruct (planned_queue_spec g Q) as (_ & _ & P3). apply P3. apply (queue_complete g Hok). exact Hu.
  Qed.

  Lemma cfw_same : forall x y, In x (ids g) -> In y (ids g) -> cfw_of g x = cfw_of g y.
  Proof.
    intros x y Hx Hy. destruct Hok as (Hnd & _). unfold ids in Hx, Hy. apply in_map_iff in Hx, Hy.
    destruct Hx as [n [En Hn]]. destruct Hy as [m [Em Hm]]. subst x y.
    rewrite (cfw_of_node g n Hnd Hn), (cfw_of_node g m Hnd Hm). apply Hstrict; assumption.
  Qed.

  Lemma levels_of_group_strict : forall ms, ms <> [] -> incl ms (ids g) ->
    levels_of_group ord g cl ms = [split_levels (fun u => aget0 u cl) (ord 1 (ord 0 ms))].
  Proof.
    intros ms Hne Hsub. unfold levels_of_group.
    assert (Hperm : Permutation (ord 0 ms) ms) by apply Hord.
    rewrite (group_items_single (map (item_of g) (ord 0 ms))).
    - cbn [map]. rewrite map_map. cbn [it_id item_of]. rewrite map_id. reflexivity.
    - intros E. apply map_eq_nil in E. exact (perm_nonempty _ _ Hperm Hne E).
    - intros x Hx. apply in_map_iff in Hx. destruct Hx as [u [E _]]. subst x. reflexivity.
    - intros x y Hx Hy. apply in_map_iff in Hx, Hy. destruct Hx as [u [Eu Hu]]. destruct Hy as [v [Ev Hv]]. subst x y.
      cbn [it_kb item_of]. apply cfw_same; apply Hsub; apply (Permutation_in _ Hperm); assumption.
  Qed.

  Lemma raw_plan_eq : raw_plan ord g = flat_map (fun e => map (mk_step ord g cl) (glevels ord g (fst e))) PQ.
  Proof.
    unfold raw_plan. apply flat_map_ext_in. intros e He. destruct (pq_entry e He) as (E & Hne & Hsub & _).
    unfold steps_of_group. rewrite (levels_of_group_strict (snd e) Hne Hsub). cbn [flat_map]. rewrite app_nil_r.
    unfold glevels. rewrite <- E. reflexivity.
  Qed.

  (* a rank on features witnessing acyclicity *)
  Lemma closure_rank : exists rk : nat -> nat, forall u a, In a (aget0 u cl) -> rk a < rk u.
  Proof.
    destruct Hok as (_ & _ & _ & [rk Hrk]). exists rk. intros u a Ha.
    apply (anc_rank g rk Hrk). apply (closure_correct g Hok). exact Ha.
  Qed.

  Lemma glevels_spec : forall e, In e PQ ->
    snd (split_levels (fun u => aget0 u cl) (ord 1 (ord 0 (snd e)))) = false /\
    Permutation (concat (glevels ord g (fst e))) (snd e) /\
    (forall l, In l (glevels ord g (fst e)) -> l <> []) /\
    lv_ok (intra_of (fun u => aget0 u cl) (ord 1 (ord 0 (snd e)))) [] (glevels ord g (fst e)).
  Proof.
    intros e He. destruct (pq_entry e He) as (E & Hne & _ & _). destruct closure_rank as [rk Hrk].
    assert (HF : Permutation (ord 1 (ord 0 (snd e))) (snd e)).
    { apply (Permutation_trans (Hord 1 _)). apply Hord. }
    destruct (split_levels_spec (fun u => aget0 u cl) (ord 1 (ord 0 (snd e))) rk (perm_nonempty _ _ HF Hne)
                (fun u a _ Ha => Hrk u a Ha)) as (S1 & S2 & S3 & S4).
    unfold glevels. rewrite <- E. split; [exact S1|]. split; [exact (Permutation_trans S2 HF)|]. split; assumption.
  Qed.

  Lemma in_raw : forall s0, In s0 (raw_plan ord g) <->
    exists e lvl, In e PQ /\ In lvl (glevels ord g (fst e)) /\ s0 = mk_step ord g cl lvl.
  Proof.
    intros s0. rewrite raw_plan_eq, in_flat_map. split.
    - intros [e [He H]]. apply in_map_iff in H. destruct H as [lvl [E Hl]]. exists e, lvl. repeat split; [exact He | exact Hl | symmetry; exact E].
    - intros [e [lvl [He [Hl E]]]]. exists e. split; [exact He|]. apply in_map_iff. exists lvl. split; [symmetry; exact E | exact Hl].
  Qed.

  Lemma level_in_group : forall e lvl u, In e PQ -> In lvl (glevels ord g (fst e)) -> In u lvl -> In u (snd e).
  Proof.
    intros e lvl u He Hl Hu. destruct (glevels_spec e He) as (_ & S2 & _). apply (Permutation_in _ S2).
    apply in_concat. exists lvl. split; assumption.
  Qed.

  (* ---------- the produced sets partition the features ---------- *)
  Lemma uuids_raw_perm : Permutation (flat_map uuids (raw_plan ord g)) (flat_map snd PQ).
  Proof.
    rewrite raw_plan_eq, flat_map_flat_map. apply flat_map_perm_pointwise. intros e He.
    rewrite flat_map_map. cbn [uuids mk_step]. destruct (glevels_spec e He) as (_ & S2 & _).
    apply (Permutation_trans (l' := concat (glevels ord g (fst e)))); [|exact S2].
    rewrite (concat_as_flat_map (glevels ord g (fst e))).
    apply flat_map_perm_pointwise. intros l _. cbn. apply Hord.
  Qed.

  Lemma pq_features_nodup : NoDup (flat_map snd PQ).
  Proof.
    destruct (planned_queue_spec g Q) as (P1 & _ & _).
    apply (NoDup_flat_map_key _ snd fst (grp_of g) PQ P1).
    - intros e He. apply (pq_entry e He).
    - intros e u He Hu. destruct (pq_entry e He) as (E & _). rewrite E in Hu. apply members_spec in Hu. apply Hu.
  Qed.

  Lemma pq_features_ids : forall u, In u (flat_map snd PQ) <-> In u (ids g).
  Proof.
    intros u. rewrite in_flat_map. split.
    - intros [e [He Hu]]. apply (pq_entry e He). exact Hu.
    - intros Hu. destruct (pq_of_feature u Hu) as [e [He [_ Hin]]]. exists e. split; assumption.
  Qed.

  Theorem plan_uuids : Permutation (all_uuids (plan_of ord g)) (ids g).
  Proof.
    unfold plan_of. rewrite all_uuids_number. apply (Permutation_trans uuids_raw_perm).
    apply NoDup_Permutation; [exact pq_features_nodup | apply Hok | exact pq_features_ids].
  Qed.

  (* ---------- shape of the steps ---------- *)
  Lemma in_plan : forall s, In s (plan_of ord g) ->
    exists j e lvl, nth_error (raw_plan ord g) j = Some (mk_step ord g cl lvl) /\ s = set_sid j (mk_step ord g cl lvl) /\
                    In e PQ /\ In lvl (glevels ord g (fst e)).
  Proof.
    intros s Hs. unfold plan_of in Hs. destruct (In_number _ _ _ Hs) as [j [s0 [Hj Es]]]. cbn in Es.
    destruct (proj1 (in_raw s0) (nth_error_In _ _ Hj)) as [e [lvl [He [Hl E0]]]]. subst s0.
    exists j, e, lvl. repeat split; assumption.
  Qed.

  Lemma in_req_step : forall lvl a, In a (req (mk_step ord g cl lvl)) <-> exists u, In u lvl /\ anc g a u.
  Proof.
    intros lvl a. cbn [req mk_step]. split.
    - intros H. apply (Permutation_in _ (Hord 3 _)) in H. apply In_req_of_level in H. destruct H as [u [Hu Ha]].
      exists u. split; [exact Hu | apply (closure_correct g Hok); exact Ha].
    - intros [u [Hu Ha]]. apply (Permutation_in _ (Permutation_sym (Hord 3 _))). apply In_req_of_level.
      exists u. split; [exact Hu | apply (closure_correct g Hok); exact Ha].
  Qed.

  Lemma in_uuids_step : forall lvl u, In u (uuids (mk_step ord g cl lvl)) <-> In u lvl.
  Proof.
    intros lvl u. cbn [uuids mk_step]. split; intros H.
    - exact (Permutation_in _ (Hord 2 _) H).
    - exact (Permutation_in _ (Permutation_sym (Hord 2 _)) H).
  Qed.

  Theorem plan_facts :
    NoDup (map sid (plan_of ord g)) /\
    (forall s, In s (plan_of ord g) -> uuids s <> [] /\ skind s = KFG) /\
    NoDup (all_uuids (plan_of ord g)) /\
    (forall u, In u (all_uuids (plan_of ord g)) <-> In u (ids g)) /\
    (forall s a, In s (plan_of ord g) -> In a (req s) -> In a (all_uuids (plan_of ord g))) /\
    (forall s a, In s (plan_of ord g) -> (In a (req s) <-> exists u, In u (uuids s) /\ anc g a u)).
  Proof.
    pose proof plan_uuids as HP. split; [|split; [|split; [|split; [|split]]]].
    - unfold plan_of. rewrite map_sid_number. apply seq_NoDup.
    - intros s Hs. destruct (in_plan s Hs) as (j & e & lvl & _ & Es & He & Hl). subst s. split; [|reflexivity].
      rewrite uuids_set_sid. cbn [uuids mk_step]. destruct (glevels_spec e He) as (_ & _ & S3 & _).
      exact (perm_nonempty _ _ (Hord 2 lvl) (S3 lvl Hl)).
    - apply (Permutation_NoDup (Permutation_sym HP)). apply Hok.
    - intros u. split; intros H; [exact (Permutation_in _ HP H) | exact (Permutation_in _ (Permutation_sym HP) H)].
    - intros s a Hs Ha. destruct (in_plan s Hs) as (j & e & lvl & _ & Es & He & Hl). subst s. rewrite req_set_sid in Ha.
      apply in_req_step in Ha. destruct Ha as [u [_ Hanc]]. apply (Permutation_in _ (Permutation_sym HP)).
      destruct Hok as (_ & Hcl & _). apply (anc_ids g Hcl a u Hanc).
    - intros s a Hs. destruct (in_plan s Hs) as (j & e & lvl & _ & Es & He & Hl). subst s.
      rewrite req_set_sid, uuids_set_sid, in_req_step. split; intros [u [Hu Ha]]; exists u; (split; [apply in_uuids_step; exact Hu | exact Ha]).
  Qed.

  (* ---------- levels: position of a level's step in the plan ---------- *)
  Lemma lidx_nth_inv : forall (L : list (list nat)) a, In a (concat L) -> exists l, nth_error L (lidx L a) = Some l /\ In a l.
  Proof.
    intros L. induction L as [|l0 t IH]; intros a Ha; [destruct Ha|]. cbn [concat lidx] in *.
    destruct (mem a l0) eqn:E.
    - exists l0. split; [reflexivity | apply mem_In; exact E].
    - apply mem_false in E. apply in_app_iff in Ha. destruct Ha as [Ha|Ha]; [contradiction|].
      destruct (IH a Ha) as [l [Hn Hl]]. exists l. split; assumption.
  Qed.

  Lemma raw_block : forall e, In e PQ -> exists A B, raw_plan ord g = A ++ map (mk_step ord g cl) (glevels ord g (fst e)) ++ B.
  Proof.
    intros e He. rewrite raw_plan_eq. destruct (in_split e PQ He) as [P1 [P2 E]]. rewrite E.
    rewrite flat_map_app. cbn [flat_map]. eexists. eexists. reflexivity.
  Qed.

  Lemma plan_nth_level : forall (e : nat * list nat) A B i lvl, raw_plan ord g = A ++ map (mk_step ord g cl) (glevels ord g (fst e)) ++ B ->
    nth_error (glevels ord g (fst e)) i = Some lvl ->
    nth_error (plan_of ord g) (List.length A + i) = Some (set_sid (List.length A + i) (mk_step ord g cl lvl)).
  Proof.
    intros e A B i lvl E Hn. unfold plan_of. rewrite number_nth, E. cbn [Nat.add].
    rewrite nth_error_app2 by lia. replace (List.length A + i - List.length A) with i by lia.
    rewrite nth_error_app1.
    - rewrite nth_error_map, Hn. reflexivity.
    - rewrite map_length. apply nth_error_Some. rewrite Hn. discriminate.
  Qed.

  Lemma same_group_levels : forall a f, In a (ids g) -> In f (ids g) -> grp_of g a = grp_of g f -> anc g a f ->
    exists e, In e PQ /\ fst e = grp_of g f /\ In a (concat (glevels ord g (fst e))) /\ In f (concat (glevels ord g (fst e))) /\
              lidx (glevels ord g (fst e)) a < lidx (glevels ord g (fst e)) f.
  Proof.
    intros a f Ha Hf Eg Hanc. destruct (pq_of_feature f Hf) as [e [He [Ek Hfe]]].
    destruct (pq_entry e He) as (E & _). destruct (glevels_spec e He) as (_ & S2 & _ & S4).
    assert (Hae : In a (snd e)).
    { rewrite E. apply members_spec. split; [apply (queue_complete g Hok); exact Ha | rewrite Ek; exact Eg]. }
    assert (Hfc : In f (concat (glevels ord g (fst e)))) by (apply (Permutation_in _ (Permutation_sym S2)); exact Hfe).
    assert (Hac : In a (concat (glevels ord g (fst e)))) by (apply (Permutation_in _ (Permutation_sym S2)); exact Hae).
    assert (Hin : In a (intra_of (fun u => aget0 u cl) (ord 1 (ord 0 (snd e))) f)).
    { unfold intra_of. apply filter_In. split; [apply (closure_correct g Hok); exact Hanc|]. apply mem_In.
      apply (Permutation_in _ (Permutation_sym (Hord 1 _))). apply (Permutation_in _ (Permutation_sym (Hord 0 _))). exact Hae. }
    destruct (lv_ok_lidx _ _ _ S4 f a Hfc Hin) as [[]|[_ Hlt]].
    exists e. repeat split; assumption.
  Qed.

  (* features of one group that depend on each other are computed by different steps, the ancestor's step comes earlier
     in the plan and is required by the descendant's step; the fallback is never taken *)
  Theorem levels_sound : forall a f, In a (ids g) -> In f (ids g) -> grp_of g a = grp_of g f -> anc g a f ->
    exists i j sa sf, i < j /\ nth_error (plan_of ord g) i = Some sa /\ nth_error (plan_of ord g) j = Some sf /\
                      In a (uuids sa) /\ In f (uuids sf) /\ In a (req sf) /\ ~ In f (uuids sa).
  Proof.
    intros a f Ha Hf Eg Hanc. destruct (same_group_levels a f Ha Hf Eg Hanc) as (e & He & _ & Hac & Hfc & Hlt).
    destruct (raw_block e He) as [A [B E]].
    destruct (lidx_nth_inv _ a Hac) as [la [Hna Hla]]. destruct (lidx_nth_inv _ f Hfc) as [lf [Hnf Hlf]].
    exists (List.length A + lidx (glevels ord g (fst e)) a), (List.length A + lidx (glevels ord g (fst e)) f).
    eexists. eexists. split; [lia|]. split; [exact (plan_nth_level e A B _ la E Hna)|]. split; [exact (plan_nth_level e A B _ lf E Hnf)|].
    rewrite !uuids_set_sid, req_set_sid. split; [apply in_uuids_step; exact Hla|]. split; [apply in_uuids_step; exact Hlf|].
    split; [apply in_req_step; exists f; split; assumption|].
    intros Hfa. apply (proj1 (in_uuids_step la f)) in Hfa.
    destruct (glevels_spec e He) as (_ & S2 & _). destruct (pq_entry e He) as (_ & _ & _ & Hnd).
    assert (Hndc : NoDup (concat (glevels ord g (fst e)))) by (apply (Permutation_NoDup (Permutation_sym S2)); exact Hnd).
    pose proof (lidx_nth _ _ _ f Hndc Hna Hfa) as E1. lia.
  Qed.

  Theorem fallback_unreachable : fallback_used ord g = false.
  Proof.
    unfold fallback_used. destruct (existsb _ PQ) eqn:E; [|reflexivity]. exfalso.
    apply existsb_exists in E. destruct E as [e [He E]]. apply existsb_exists in E. destruct E as [lv [Hlv Hfb]].
    destruct (pq_entry e He) as (_ & Hne & Hsub & _). rewrite (levels_of_group_strict (snd e) Hne Hsub) in Hlv.
    destruct Hlv as [Hlv|[]]. subst lv. destruct (glevels_spec e He) as (S1 & _). rewrite S1 in Hfb. discriminate.
  Qed.

  (* ---------- add_tfs adds nothing; the produced-check passes; the run simulation decides ---------- *)
  Lemma level_same : forall e lvl x y, In e PQ -> In lvl (glevels ord g (fst e)) -> In x lvl -> In y lvl ->
    grp_of g x = grp_of g y /\ lidx (glevels ord g (fst e)) x = lidx (glevels ord g (fst e)) y.
  Proof.
    intros e lvl x y He Hl Hx Hy. destruct (pq_entry e He) as (E & _ & _ & Hnd). destruct (glevels_spec e He) as (_ & S2 & _).
    assert (Hg : forall z, In z lvl -> grp_of g z = fst e).
    { intros z Hz. pose proof (level_in_group e lvl z He Hl Hz) as H. rewrite E in H. apply members_spec in H. apply H. }
    assert (Hndc : NoDup (concat (glevels ord g (fst e)))) by (apply (Permutation_NoDup (Permutation_sym S2)); exact Hnd).
    destruct (In_nth_error _ _ Hl) as [k Hk]. rewrite (Hg x Hx), (Hg y Hy).
    rewrite (lidx_nth _ k lvl x Hndc Hk Hx), (lidx_nth _ k lvl y Hndc Hk Hy). split; reflexivity.
  Qed.

  Theorem plan_struct : wf_struct (plan_of ord g) = true.
  Proof.
    destruct plan_facts as (F1 & F2 & F3 & _ & F5 & _). unfold wf_struct. repeat (apply andb_true_iff; split).
    - apply forallb_forall. intros s Hs. destruct (F2 s Hs) as [Hne _]. destruct (uuids s); [congruence | reflexivity].
    - apply NoDup_nodupb. exact F1.
    - apply NoDup_nodupb. exact F3.
    - apply forallb_forall. intros s Hs. apply forallb_forall. intros u Hu. apply mem_In. exact (F5 s u Hs Hu).
  Qed.

  (* no step requires one of its own features: two features of one step are never ancestor and descendant *)
  Theorem plan_no_self_req : no_self_req (plan_of ord g) = true.
  Proof.
    unfold no_self_req. apply forallb_forall. intros s Hs. apply disjoint_spec. intros a Ha Hau.
    destruct (in_plan s Hs) as (j & e & lvl & _ & Es & He & Hl). subst s. rewrite req_set_sid in Ha. rewrite uuids_set_sid in Hau.
    apply in_req_step in Ha. destruct Ha as [u [Hu Hanc]]. apply (proj1 (in_uuids_step lvl a)) in Hau.
    destruct (level_same e lvl a u He Hl Hau Hu) as [Eg El].
    destruct Hok as (_ & Hcl & _). destruct (anc_ids g Hcl a u Hanc) as [Hai Hui].
    destruct (same_group_levels a u Hai Hui Eg Hanc) as (e' & He' & Ek' & _ & _ & Hlt).
    assert (Ee : fst e' = fst e).
    { rewrite Ek'. pose proof (level_in_group e lvl u He Hl Hu) as H. destruct (pq_entry e He) as (E & _). rewrite E in H.
      apply members_spec in H. apply H. }
    rewrite Ee in Hlt. lia.
  Qed.

  Theorem prepare_outcome :
    prepare_A ord g = if runsim_accepts (plan_of ord g) then Planned (plan_of ord g) else RejectedCycle.
  Proof.
    destruct (plan_facts) as (_ & _ & _ & F4 & F5 & F6). unfold prepare_A.
    assert (Htfs : existsb (tfs_needed g cl) (plan_of ord g) = false).
    { destruct (existsb (tfs_needed g cl) (plan_of ord g)) eqn:E; [|reflexivity]. exfalso.
      apply existsb_exists in E. destruct E as [s [Hs Ht]]. unfold tfs_needed in Ht.
      destruct (uuids s) as [|a t] eqn:Eu; [discriminate|].
      apply existsb_exists in Ht. destruct Ht as [p [Hp Hc]]. apply andb_true_iff in Hc. destruct Hc as [_ Hc].
      apply negb_true_iff in Hc. apply Nat.eqb_neq in Hc. apply Hc.
      assert (Ha : In a (ids g)).
      { apply F4. unfold all_uuids. apply in_flat_map. exists s. split; [exact Hs | rewrite Eu; left; reflexivity]. }
      apply cfw_same; [exact Ha|]. destruct Hok as (_ & Hcl & _).
      apply (anc_ids g Hcl p a). apply (closure_correct g Hok). exact Hp. }
    rewrite Htfs.
    assert (Hv : validate_A (plan_of ord g) = true).
    { unfold validate_A. apply forallb_forall. intros s Hs. apply subset_incl. intros a Ha. exact (F5 s a Hs Ha). }
    rewrite Hv. reflexivity.
  Qed.

  (* accepted exactly when the (unvalidated) plan is well formed for some order *)
  Theorem prepare_accepts_iff :
    prepare_A ord g = Planned (plan_of ord g) <-> exists order, wf_plan order (plan_of ord g) = true.
  Proof.
    rewrite prepare_outcome, <- (runsim_accepts_iff _ plan_struct).
    destruct (runsim_accepts (plan_of ord g)); split; intros H; try reflexivity; discriminate.
  Qed.

  Theorem prepare_planned_inv : forall p, prepare_A ord g = Planned p ->
    p = plan_of ord g /\ wf_plan (sim_order p) p = true.
  Proof.
    intros p H. rewrite prepare_outcome in H. destruct (runsim_accepts (plan_of ord g)) eqn:E; [|discriminate].
    injection H as H. subst p. split; [reflexivity|]. exact (sim_sound _ E plan_struct).
  Qed.

  Theorem prepare_total : prepare_A ord g = Planned (plan_of ord g) \/ prepare_A ord g = RejectedCycle.
  Proof. rewrite prepare_outcome. destruct (runsim_accepts (plan_of ord g)); [left | right]; reflexivity. Qed.

  (* ---------- the wait-for relation is acyclic when the groups form a DAG ---------- *)
  Section Dag.
    Variable grk : nat -> nat.
    Hypothesis Hdag : forall p c, parent g p c -> grp_of g p <> grp_of g c -> grk (grp_of g p) < grk (grp_of g c).

    Lemma anc_grk : forall a f, anc g a f ->
      grk (grp_of g a) <= grk (grp_of g f) /\ (grp_of g a <> grp_of g f -> grk (grp_of g a) < grk (grp_of g f)).
    Proof.
      intros a f H. induction H as [p c Hpc|a m c Ham IH Hmc].
      - destruct (Nat.eq_dec (grp_of g p) (grp_of g c)) as [E|E].
        + rewrite E. split; [apply le_n | intros F; congruence].
        + specialize (Hdag p c Hpc E). split; [lia | intros _; exact Hdag].
      - destruct IH as [IH1 IH2]. destruct (Nat.eq_dec (grp_of g m) (grp_of g c)) as [E|E].
        + rewrite <- E. split; assumption.
        + specialize (Hdag m c Hmc E). split; [lia | intros _; lia].
    Qed.

    Definition frk (u : nat) : nat :=
      grk (grp_of g u) * S (List.length g) + lidx (glevels ord g (grp_of g u)) u.

    Lemma glevels_len : forall e, In e PQ -> List.length (glevels ord g (fst e)) <= List.length g.
    Proof.
      intros e He. destruct (glevels_spec e He) as (_ & S2 & S3 & _). destruct (pq_entry e He) as (_ & _ & Hsub & Hnd).
      pose proof (concat_len_ge _ S3) as H1. pose proof (Permutation_length S2) as H2.
      pose proof (NoDup_incl_length Hnd Hsub) as H3. unfold ids in H3. rewrite map_length in H3. lia.
    Qed.

    Lemma frk_lt : forall a f, anc g a f -> frk a < frk f.
    Proof.
      intros a f Hanc. destruct Hok as (_ & Hcl & _). destruct (anc_ids g Hcl a f Hanc) as [Ha Hf].
      destruct (anc_grk a f Hanc) as [G1 G2]. unfold frk.
      destruct (Nat.eq_dec (grp_of g a) (grp_of g f)) as [E|E].
      - destruct (same_group_levels a f Ha Hf E Hanc) as (e & _ & Ek & _ & _ & Hlt).
        rewrite E, <- Ek. lia.
      - specialize (G2 E). destruct (pq_of_feature a Ha) as [e [He [Ek _]]].
        pose proof (glevels_len e He) as Hl. rewrite Ek in Hl.
        pose proof (lidx_le (glevels ord g (grp_of g a)) a) as Hi. nia.
    Qed.

    Lemma frk_level : forall e lvl x y, In e PQ -> In lvl (glevels ord g (fst e)) -> In x lvl -> In y lvl -> frk x = frk y.
    Proof.
      intros e lvl x y He Hl Hx Hy. destruct (pq_entry e He) as (E & _ & _ & Hnd). destruct (glevels_spec e He) as (_ & S2 & _).
      assert (Hg : forall z, In z lvl -> grp_of g z = fst e).
      { intros z Hz. pose proof (level_in_group e lvl z He Hl Hz) as H. rewrite E in H. apply members_spec in H. apply H. }
      assert (Hndc : NoDup (concat (glevels ord g (fst e)))) by (apply (Permutation_NoDup (Permutation_sym S2)); exact Hnd).
      destruct (In_nth_error _ _ Hl) as [k Hk]. unfold frk. rewrite (Hg x Hx), (Hg y Hy).
      rewrite (lidx_nth _ k lvl x Hndc Hk Hx), (lidx_nth _ k lvl y Hndc Hk Hy). reflexivity.
    Qed.

    Definition srk (j : nat) : nat :=
      match nth_error (raw_plan ord g) j with Some s0 => frk (hd 0 (uuids s0)) | None => 0 end.

    Lemma hd_In : forall (l : list nat), l <> [] -> In (hd 0 l) l.
    Proof. intros l H. destruct l as [|x t]; [congruence | left; reflexivity]. Qed.

    Lemma srk_step : forall s u, In s (plan_of ord g) -> In u (uuids s) -> srk (sid s) = frk u.
    Proof.
      intros s u Hs Hu. destruct (in_plan s Hs) as (j & e & lvl & Hj & Es & He & Hl). subst s.
      rewrite sid_set_sid. rewrite uuids_set_sid in Hu. unfold srk. rewrite Hj.
      destruct (glevels_spec e He) as (_ & _ & S3 & _).
      assert (Hne : uuids (mk_step ord g cl lvl) <> []) by (cbn; exact (perm_nonempty _ _ (Hord 2 lvl) (S3 lvl Hl))).
      apply (frk_level e lvl _ _ He Hl); apply in_uuids_step; [apply hd_In; exact Hne | exact Hu].
    Qed.

    Theorem plan_wf_rank : exists order, wf_plan order (plan_of ord g) = true.
    Proof.
      destruct plan_facts as (F1 & F2 & F3 & F4 & F5 & F6).
      exists (order_upto (plan_of ord g) srk (S (list_max (map (fun s => srk (sid s)) (plan_of ord g))))).
      apply wf_plan_of_rank.
      - intros s Hs. apply (F2 s Hs).
      - exact F1.
      - exact F3.
      - exact F5.
      - intros s Hs. assert (H : srk (sid s) <= list_max (map (fun s0 => srk (sid s0)) (plan_of ord g))); [|lia].
        pose proof (proj1 (list_max_le (map (fun s0 => srk (sid s0)) (plan_of ord g)) _) (le_n _)) as Hall.
        rewrite Forall_forall in Hall. apply Hall. apply in_map_iff. exists s. split; [reflexivity | exact Hs].
      - intros s s' u Hs Hs' Hu Hu'. apply (F6 s u Hs) in Hu. destruct Hu as [f [Hf Hanc]].
        rewrite (srk_step s' u Hs' Hu'), (srk_step s f Hs Hf). apply frk_lt. exact Hanc.
    Qed.
  End Dag.
End Plan.

(* ---------- statements with the propositional hypotheses of Spec/PlannerASpec.v ---------- *)
(* every accepted plan is well formed; the order is the start order of the validation's simulation *)
Theorem plan_wf : forall ord g p, ord_ok ord -> graph_ok g -> strict g -> prepare_A ord g = Planned p ->
  exists order, wf_plan order p = true.
Proof.
  intros ord g p Hord Hok Hstrict H. exists (sim_order p). exact (proj2 (prepare_planned_inv ord g Hord Hok Hstrict p H)).
Qed.

(* when the feature groups form a DAG the request is accepted *)
Theorem prepare_accepts_dag : forall ord g, ord_ok ord -> graph_ok g -> strict g -> group_dag g ->
  prepare_A ord g = Planned (plan_of ord g).
Proof.
  intros ord g Hord Hok Hstrict [grk Hdag]. apply (prepare_accepts_iff ord g Hord Hok Hstrict).
  exact (plan_wf_rank ord g Hord Hok Hstrict grk Hdag).
Qed.

(* ---------- req_covers ---------- *)
Definition adj_of (g : fgraph) : list (nat * list nat) := map (fun n => (fid n, fins n)) g.

Lemma parents_of_spec : forall g x u, In x (parents_of (adj_of g) u) <-> parent g x u.
Proof.
  intros g x u. induction g as [|a g IH]; cbn.
  - split; [intros [] | intros [n [[] _]]].
  - destruct (Nat.eqb (fid a) u) eqn:E.
    + apply Nat.eqb_eq in E. rewrite in_app_iff, IH. split.
      * intros [H|[n [Hn [En Hp]]]]; [exists a; repeat split; [left; reflexivity | exact E | exact H] | exists n; repeat split; [right; exact Hn | exact En | exact Hp]].
      * intros [n [[Hn|Hn] [En Hp]]]; [subst n; left; exact Hp | right; exists n; repeat split; assumption].
    + apply Nat.eqb_neq in E. rewrite IH. split.
      * intros [n [Hn [En Hp]]]. exists n. repeat split; [right; exact Hn | exact En | exact Hp].
      * intros [n [[Hn|Hn] [En Hp]]]; [subst n; contradiction | exists n; repeat split; assumption].
Qed.

Lemma ancestors_sound : forall g u0 fuel frontier acc,
  (forall x, In x frontier -> x = u0 \/ anc g x u0) -> (forall x, In x acc -> anc g x u0) ->
  forall x, In x (ancestors fuel (adj_of g) frontier acc) -> anc g x u0.
Proof.
  intros g u0 fuel. induction fuel as [|f IH]; intros frontier acc Hfr Hacc x Hx; cbn in Hx; [exact (Hacc x Hx)|].
  set (next := filter (fun y => negb (mem y acc)) (flat_map (parents_of (adj_of g)) frontier)) in *.
  assert (Hnext : forall y, In y next -> anc g y u0).
  { intros y Hy. unfold next in Hy. apply filter_In in Hy. destruct Hy as [Hy _]. apply in_flat_map in Hy.
    destruct Hy as [z [Hz Hyz]]. apply parents_of_spec in Hyz. destruct (Hfr z Hz) as [E|Hanc].
    - subst z. apply anc_direct. exact Hyz.
    - exact (anc_trans_l g y z u0 Hyz Hanc). }
  destruct next as [|n0 nt] eqn:En; [exact (Hacc x Hx)|]. rewrite <- En in *.
  apply (IH next (acc ++ next)); [intros y Hy; right; exact (Hnext y Hy) | | exact Hx].
  intros y Hy. apply in_app_iff in Hy. destruct Hy as [Hy|Hy]; [exact (Hacc y Hy) | exact (Hnext y Hy)].
Qed.

Theorem plan_req_covers : forall ord g, ord_ok ord -> graph_ok g -> strict g ->
  req_covers (plan_of ord g) (adj_of g) = true.
Proof.
  intros ord g Hord Hok Hstrict. destruct (plan_facts ord g Hord Hok Hstrict) as (_ & F2 & _ & _ & _ & F6).
  unfold req_covers. apply forallb_forall. intros s Hs. rewrite (proj2 (F2 s Hs)).
  apply forallb_forall. intros u Hu. apply subset_incl. intros x Hx. apply (F6 s x Hs). exists u. split; [exact Hu|].
  apply (ancestors_sound g u _ [u] [] (fun y Hy => match Hy with or_introl E => or_introl (eq_sym E) | or_intror F => match F with end end)
           (fun y Hy => match Hy with end) x Hx).
Qed.

(* ---------- the decidable versions of the hypotheses are sound ---------- *)
Lemma before_lt : forall order a b, before order a b = true ->
  (match pos a order with Some i => i | None => 0 end) < (match pos b order with Some i => i | None => 0 end).
Proof.
  intros order a b H. unfold before in H. destruct (pos a order) as [i|]; [|discriminate].
  destruct (pos b order) as [j|]; [|discriminate]. apply Nat.ltb_lt. exact H.
Qed.

Lemma acyclicb_sound : forall g, acyclicb g = true -> acyclic g.
Proof.
  intros g H. unfold acyclicb in H.
  set (order := topo_list (S (List.length g)) (ins_of g) (ids g) []) in *.
  exists (fun u => match pos u order with Some i => i | None => 0 end).
  intros p c [n [Hn [E Hp]]]. subst c. rewrite forallb_forall in H. specialize (H n Hn).
  rewrite forallb_forall in H. exact (before_lt order p (fid n) (H p Hp)).
Qed.

Theorem graph_okb_sound : forall g, graph_okb g = true -> graph_ok g.
Proof.
  intros g H. unfold graph_okb in H. apply andb_true_iff in H. destruct H as [H Hac].
  apply andb_true_iff in H. destruct H as [Hnd Hall]. rewrite forallb_forall in Hall.
  split; [apply nodupb_NoDup; exact Hnd|]. split; [|split].
  - intros p c [n [Hn [E Hp]]]. specialize (Hall n Hn). apply andb_true_iff in Hall. destruct Hall as [Hs _].
    apply subset_incl in Hs. exact (Hs p Hp).
  - intros n Hn. specialize (Hall n Hn). apply andb_true_iff in Hall. destruct Hall as [_ Hd]. apply nodupb_NoDup. exact Hd.
  - apply acyclicb_sound. exact Hac.
Qed.

Theorem strictb_sound : forall g, strictb g = true -> strict g.
Proof.
  intros g H n m Hn Hm. unfold strictb in H. destruct g as [|a g']; [destruct Hn|].
  rewrite forallb_forall in H. pose proof (H n Hn) as H1. pose proof (H m Hm) as H2.
  apply Nat.eqb_eq in H1, H2. congruence.
Qed.

Theorem group_dagb_sound : forall g, NoDup (ids g) -> group_dagb g = true -> group_dag g.
Proof.
  intros g Hnd H. unfold group_dagb in H.
  set (order := topo_list (S (List.length (dedupe (map fgrp g)))) (grp_deps g) (dedupe (map fgrp g)) []) in *.
  exists (fun k => match pos k order with Some i => i | None => 0 end).
  intros p c [n [Hn [E Hp]]] Hne. subst c. rewrite (grp_of_node g n Hnd Hn) in *.
  rewrite forallb_forall in H. specialize (H n Hn). rewrite forallb_forall in H. specialize (H p Hp).
  apply orb_true_iff in H. destruct H as [H|H]; [apply Nat.eqb_eq in H; contradiction|].
  exact (before_lt order _ _ H).
Qed.

(* ---------- why the run-simulation validation is needed: the UNVALIDATED plan of a strict-fragment request can be
   cyclic (it deadlocked before /repo 12fe10c); the validation now rejects it ---------- *)
(* r <- (root);  group 1 = {a1 <- r, a2 <- b2};  group 2 = {b1 <- a1, b2 <- r};  requested a2, b1 *)
Definition g_cross : fgraph :=
  [ {| fid := 11; fgrp := 1; fins := [6];  freq := true;  fcfw := 1 |};     (* a2 requested *)
    {| fid := 6;  fgrp := 2; fins := [0];  freq := false; fcfw := 1 |};     (* b2 *)
    {| fid := 0;  fgrp := 0; fins := [];   freq := false; fcfw := 1 |};     (* r  *)
    {| fid := 13; fgrp := 2; fins := [2];  freq := true;  fcfw := 1 |};     (* b1 requested *)
    {| fid := 2;  fgrp := 1; fins := [0];  freq := false; fcfw := 1 |} ].   (* a1 *)

Lemma g_cross_ok : graph_ok g_cross /\ strict g_cross.
Proof. split; [apply graph_okb_sound | apply strictb_sound]; vm_compute; reflexivity. Qed.

Theorem plan_wf_refuted :
  graph_ok g_cross /\ strict g_cross /\ group_dagb g_cross = false /\
  prepare_A ord_id g_cross = RejectedCycle /\
  (forall order, wf_plan order (plan_of ord_id g_cross) = false) /\
  (forall n, n <= 200 -> loop_head (plan_of ord_id g_cross)
                           (run false true (fun _ => false) (plan_of ord_id g_cross) (repeat EScan n)) = Looping).
Proof.
  destruct g_cross_ok as [H1 H2]. split; [exact H1|]. split; [exact H2|]. split; [vm_compute; reflexivity|].
  split; [vm_compute; reflexivity|]. split.
  - intros order. destruct (wf_plan order (plan_of ord_id g_cross)) eqn:E; [|reflexivity]. exfalso.
    destruct (wf_plan_props order _ E) as (Hinj & _ & Hdj & _ & Hearlier).
    set (s1 := {| sid := 2; skind := KFG; uuids := [11; 2]; req := [6; 0]; requested := true |}).
    set (s2 := {| sid := 1; skind := KFG; uuids := [6; 13]; req := [0; 2]; requested := true |}).
    assert (Hp : plan_of ord_id g_cross = [ {| sid := 0; skind := KFG; uuids := [0]; req := []; requested := false |}; s2; s1 ])
      by (vm_compute; reflexivity).
    rewrite Hp in *.
    assert (In1 : In s1 [ {| sid := 0; skind := KFG; uuids := [0]; req := []; requested := false |}; s2; s1 ]) by (right; right; left; reflexivity).
    assert (In2 : In s2 [ {| sid := 0; skind := KFG; uuids := [0]; req := []; requested := false |}; s2; s1 ]) by (right; left; reflexivity).
    destruct (Hearlier s1 6 In1 (or_introl eq_refl)) as (sa & i & j & Hsa & Hua & Hi & Hj & Hlt).
    assert (Ea : sa = s2) by (apply (Hdj sa s2 6 Hsa In2 Hua); left; reflexivity). subst sa.
    destruct (Hearlier s2 2 In2 (or_intror (or_introl eq_refl))) as (sb & i' & j' & Hsb & Hub & Hi' & Hj' & Hlt').
    assert (Eb : sb = s1) by (apply (Hdj sb s1 2 Hsb In1 Hub); right; left; reflexivity). subst sb.
    cbn [sid s1 s2] in *. rewrite Hi in Hj'. rewrite Hj in Hi'. injection Hj' as Hj'. injection Hi' as Hi'. lia.
  - intros n Hn. do 201 (destruct n as [|n]; [vm_compute; reflexivity|]). lia.
Qed.
