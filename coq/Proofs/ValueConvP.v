(* Proofs for the value-level model of the framework conversions (Model/ValueConv.v against Spec/ValueConv.v).

   Structure: each of the four transformer functions maps valid tables to valid tables and relates the views:
       d2a_ok   python-dict -> Arrow    the view is EQUAL                     (valid_d: schema check passes, typed columns)
       a2d_ok   Arrow -> python-dict    the view is EQUAL                     (outside kf_empty: 0 rows lose the columns)
       a2p_pres Arrow -> pandas         pres                                  (outside kf_widening_exact), shape always
       p2a_ok   pandas -> Arrow         pres
   pres is reflexive and transitive and the two loss domains move along pres, so the six routes and the twelve round trips
   follow by composition (forward_l, roundtrip_l). *)
From Coq Require Import List Bool Arith ZArith String SpecFloat Lia.
Import ListNotations.
Require Import MV.Model.ValueConv MV.Spec.ValueConv MV.Proofs.ValueConvFloatP.
Open Scope Z_scope.

(* ---------- forall2b ---------- *)
Lemma forall2b_refl {A} (p : A -> A -> bool) l : (forall a, In a l -> p a a = true) -> forall2b p l l = true.
Proof. induction l; simpl; auto. intros H. rewrite H by auto. simpl. apply IHl. auto. Qed.

Lemma forall2b_trans {A B C} (p : A -> B -> bool) (q : B -> C -> bool) (r : A -> C -> bool) l1 :
  forall l2 l3, (forall a b c, In a l1 -> p a b = true -> q b c = true -> r a c = true) ->
  forall2b p l1 l2 = true -> forall2b q l2 l3 = true -> forall2b r l1 l3 = true.
Proof.
  induction l1; intros [|b l2] [|c l3] H P Q; simpl in *; try discriminate; auto.
  apply andb_true_iff in P. apply andb_true_iff in Q. destruct P, Q.
  rewrite (H a b c) by auto. simpl. eapply IHl1; eauto.
Qed.

Lemma forall2b_map_r {A B} (p : A -> B -> bool) (f : A -> B) l :
  (forall a, In a l -> p a (f a) = true) -> forall2b p l (map f l) = true.
Proof. induction l; simpl; auto. intros H. rewrite H by auto. simpl. auto. Qed.

Lemma forall2b_map_map {A B C} (p : B -> C -> bool) (f : A -> B) (g : A -> C) l :
  (forall a, In a l -> p (f a) (g a) = true) -> forall2b p (map f l) (map g l) = true.
Proof. induction l; simpl; auto. intros H. rewrite H by auto. simpl. auto. Qed.

Lemma forall2b_length {A B} (p : A -> B -> bool) l : forall l', forall2b p l l' = true -> List.length l = List.length l'.
Proof. induction l; intros [|b l'] H; simpl in *; try discriminate; auto. apply andb_true_iff in H. destruct H. f_equal. auto. Qed.

Lemma forall2b_weaken {A B} (p q : A -> B -> bool) l : forall l',
  (forall a b, In a l -> p a b = true -> q a b = true) -> forall2b p l l' = true -> forall2b q l l' = true.
Proof.
  induction l; intros [|b l'] H P; simpl in *; try discriminate; auto.
  apply andb_true_iff in P. destruct P. rewrite (H a b) by auto. simpl. apply IHl; auto.
Qed.

(* ---------- floats: structural equality ---------- *)
Lemma sf_eqb_refl f : sf_eqb f f = true.
Proof. destruct f; simpl; auto using eqb_reflx. rewrite eqb_reflx, Pos.eqb_refl, Z.eqb_refl. reflexivity. Qed.

Lemma sf_eqb_eq f g : sf_eqb f g = true -> f = g.
Proof.
  destruct f, g; simpl; try discriminate; auto; intros H.
  - apply eqb_prop in H. congruence.
  - apply eqb_prop in H. congruence.
  - apply andb_true_iff in H. destruct H as [H H3]. apply andb_true_iff in H. destruct H as [H1 H2].
    apply eqb_prop in H1. apply Pos.eqb_eq in H2. apply Z.eqb_eq in H3. congruence.
Qed.

(* ---------- cells ---------- *)
Lemma norm_idem c : norm (norm c) = norm c.
Proof. destruct c as [| |[]| |]; reflexivity. Qed.

Lemma norm_not_nan c : norm c <> VFloat S754_nan.
Proof. destruct c as [| |[]| |]; simpl; discriminate. Qed.

(* what cell_pres says *)
Definition widened (b : bool) (c c' : cell) : Prop :=
  exists a, norm c = VInt a /\ norm c' = VFloat (z2f a) /\ b = true /\ f2z (z2f a) = Some a.

Lemma cell_pres_inv b c c' : cell_pres b c c' = true -> norm c = norm c' \/ widened b c c'.
Proof.
  unfold cell_pres, widened. pose proof (norm_not_nan c). pose proof (norm_not_nan c').
  destruct (norm c) as [|a|f|s|x], (norm c') as [|a'|f'|s'|x']; try discriminate; intros E; auto.
  - apply Z.eqb_eq in E. left. congruence.
  - right. apply andb_true_iff in E. destruct E as [E E3]. apply andb_true_iff in E. destruct E as [E1 E2].
    apply sf_eqb_eq in E2. subst f'. exists a. repeat split; auto.
    destruct (f2z (z2f a)); try discriminate. apply Z.eqb_eq in E3. congruence.
  - apply sf_eqb_eq in E. left. congruence.
  - apply String.eqb_eq in E. left. congruence.
  - apply eqb_prop in E. left. congruence.
Qed.

Lemma cell_pres_eq b c c' : norm c = norm c' -> cell_pres b c c' = true.
Proof.
  unfold cell_pres. intros E. rewrite <- E. pose proof (norm_not_nan c).
  destruct (norm c); auto using Z.eqb_refl, sf_eqb_refl, String.eqb_refl, eqb_reflx.
Qed.

Lemma cell_pres_widen c c' a : norm c = VInt a -> norm c' = VFloat (z2f a) -> f2z (z2f a) = Some a -> cell_pres true c c' = true.
Proof. unfold cell_pres. intros E1 E2 E3. rewrite E1, E2, E3, sf_eqb_refl, Z.eqb_refl. reflexivity. Qed.

Lemma cell_pres_refl b c : cell_pres b c c = true.
Proof. apply cell_pres_eq. reflexivity. Qed.

Lemma cell_pres_null b c c' : cell_pres b c c' = true -> is_null c = is_null c'.
Proof.
  intros H. apply cell_pres_inv in H. unfold is_null. destruct H as [E|[a [E1 [E2 _]]]].
  - rewrite E. reflexivity.
  - rewrite E1, E2. reflexivity.
Qed.

Lemma cell_pres_trans b c1 c2 c3 : cell_pres b c1 c2 = true -> cell_pres b c2 c3 = true -> cell_pres b c1 c3 = true.
Proof.
  intros H1 H2. apply cell_pres_inv in H1. apply cell_pres_inv in H2.
  destruct H1 as [E1|[a [A1 [A2 [A3 A4]]]]], H2 as [E2|[a' [B1 [B2 [B3 B4]]]]].
  - apply cell_pres_eq. congruence.
  - subst b. eapply cell_pres_widen; eauto. congruence.
  - subst b. eapply cell_pres_widen; eauto. congruence.
  - congruence.
Qed.

Lemma cells_pres_nullable b cs : forall cs', forall2b (cell_pres b) cs cs' = true -> existsb is_null cs = existsb is_null cs'.
Proof.
  induction cs; intros [|c' cs'] H; simpl in *; try discriminate; auto.
  apply andb_true_iff in H. destruct H as [H1 H2]. rewrite (cell_pres_null _ _ _ H1). f_equal. auto.
Qed.

(* ---------- columns, views ---------- *)
Lemma col_pres_refl c : col_pres c c = true.
Proof. unfold col_pres. rewrite String.eqb_refl. simpl. apply forall2b_refl. intros. apply cell_pres_refl. Qed.

Lemma col_pres_trans c1 c2 c3 : col_pres c1 c2 = true -> col_pres c2 c3 = true -> col_pres c1 c3 = true.
Proof.
  unfold col_pres. intros H1 H2. apply andb_true_iff in H1. apply andb_true_iff in H2. destruct H1 as [N1 P1], H2 as [N2 P2].
  apply String.eqb_eq in N1. apply String.eqb_eq in N2. rewrite N1, N2, String.eqb_refl. simpl.
  rewrite <- (cells_pres_nullable _ _ _ P1) in P2.
  eapply forall2b_trans; [|exact P1|exact P2]. intros. eapply cell_pres_trans; eauto.
Qed.

Lemma pres_refl v : pres v v = true.
Proof. apply forall2b_refl. intros. apply col_pres_refl. Qed.

Lemma pres_trans v1 v2 v3 : pres v1 v2 = true -> pres v2 v3 = true -> pres v1 v3 = true.
Proof. unfold pres. intros. eapply forall2b_trans; [|eassumption|eassumption]. intros. eapply col_pres_trans; eauto. Qed.

Lemma pres_shape v : forall v', pres v v' = true -> shape v = shape v'.
Proof.
  unfold pres. induction v as [|c v]; intros [|c' v'] H; simpl in *; try discriminate; auto.
  apply andb_true_iff in H. destruct H as [H1 H2]. unfold col_pres in H1. apply andb_true_iff in H1. destruct H1 as [N P].
  apply String.eqb_eq in N. apply forall2b_length in P. f_equal; [congruence|auto].
Qed.

(* ---------- what depends on the shape only ---------- *)
Lemma names_shape v : names v = map fst (shape v).
Proof. unfold names, shape. rewrite map_map. reflexivity. Qed.

Lemma same_len_shape v v' : shape v = shape v' -> same_len v = same_len v'.
Proof.
  unfold same_len. destruct v as [|c v], v' as [|c' v']; simpl; try discriminate; auto.
  intros H. injection H as H0 H1 H2. rewrite H1. clear H0 H1. revert v' H2.
  induction v as [|d v]; intros [|d' v'] H2; simpl in *; try discriminate; auto.
  injection H2 as _ L T. rewrite L. f_equal. auto.
Qed.

Lemma kf_empty_shape v v' : shape v = shape v' -> kf_empty v = kf_empty v'.
Proof.
  unfold kf_empty. destruct v as [|c v], v' as [|c' v']; simpl; try discriminate; auto.
  intros H. injection H as _ L _. destruct (snd c), (snd c'); simpl in L; try discriminate; auto.
Qed.

(* ---------- the widening domains move along pres ---------- *)
Lemma cell_pres_int b c c' z : cell_pres b c c' = true -> c' = VInt z -> c = VInt z.
Proof.
  intros H E. subst c'. apply cell_pres_inv in H. destruct H as [H|[a [_ [H _]]]]; [|discriminate].
  destruct c as [| |[]| |]; simpl in H; try discriminate; auto.
Qed.

Lemma cells_pres_existsb_int (P : cell -> bool) b cs :
  (forall c, P c = true -> exists z, c = VInt z) ->
  forall cs', forall2b (cell_pres b) cs cs' = true -> existsb P cs' = true -> existsb P cs = true.
Proof.
  intros HP. induction cs; intros [|c' cs'] H E; simpl in *; try discriminate.
  apply andb_true_iff in H. destruct H as [H1 H2]. apply orb_true_iff in E. apply orb_true_iff. destruct E as [E|E].
  - left. destruct (HP _ E) as [z Z]. rewrite (cell_pres_int _ _ _ _ H1 Z). congruence.
  - right. eauto.
Qed.

Lemma big_int_is_int c : big_int c = true -> exists z, c = VInt z.
Proof. destruct c; simpl; try discriminate; eauto. Qed.
Lemma lossy_int_is_int c : lossy_int c = true -> exists z, c = VInt z.
Proof. destruct c; simpl; try discriminate; eauto. Qed.

Lemma pres_kf_gen (P : cell -> bool) (HP : forall c, P c = true -> exists z, c = VInt z) v : forall v',
  pres v v' = true ->
  existsb (fun c => existsb is_null (snd c) && existsb P (snd c)) v = false ->
  existsb (fun c => existsb is_null (snd c) && existsb P (snd c)) v' = false.
Proof.
  unfold pres. induction v as [|c v]; intros [|c' v'] H K; simpl in *; try discriminate; auto.
  apply andb_true_iff in H. destruct H as [H1 H2]. apply orb_false_iff in K. destruct K as [K1 K2].
  apply orb_false_iff. split; [|eauto].
  unfold col_pres in H1. apply andb_true_iff in H1. destruct H1 as [_ P1].
  rewrite <- (cells_pres_nullable _ _ _ P1).
  destruct (existsb is_null (snd c)) eqn:EN; auto. simpl in *.
  destruct (existsb P (snd c')) eqn:EP; auto.
  rewrite (cells_pres_existsb_int P _ _ HP _ P1 EP) in K1. discriminate.
Qed.

Lemma pres_kf_widening v v' : pres v v' = true -> kf_widening v = false -> kf_widening v' = false.
Proof. apply pres_kf_gen. apply big_int_is_int. Qed.
Lemma pres_kf_widening_exact v v' : pres v v' = true -> kf_widening_exact v = false -> kf_widening_exact v' = false.
Proof. apply pres_kf_gen. apply lossy_int_is_int. Qed.

(* the 2^53 domain contains the exact one *)
Lemma lossy_big c : lossy_int c = true -> big_int c = true.
Proof.
  destruct c; simpl; try discriminate. intros H. apply Z.ltb_lt.
  destruct (Z_lt_le_dec (2 ^ 53) (Z.abs z)); auto. rewrite representable_small in H by auto. discriminate.
Qed.

Lemma existsb_impl {A} (p q : A -> bool) l : (forall a, p a = true -> q a = true) -> existsb p l = true -> existsb q l = true.
Proof. intros H E. apply existsb_exists in E. destruct E as [a [I E]]. apply existsb_exists. eauto. Qed.

Lemma kf_exact_in_kf v : kf_widening v = false -> kf_widening_exact v = false.
Proof.
  intros K. destruct (kf_widening_exact v) eqn:E; auto. rewrite <- K. symmetry.
  unfold kf_widening. eapply existsb_impl; [|exact E]. intros c H. apply andb_true_iff in H. destruct H.
  apply andb_true_iff. split; auto. eapply existsb_impl; [|eassumption]. apply lossy_big.
Qed.

(* ---------- type inference ---------- *)
Definition uniform (k : kind) (cs : list cell) : Prop := forall c, In c cs -> cell_kind c = None \/ cell_kind c = Some k.

Lemma kind_eqb_eq a b : kind_eqb a b = true -> a = b.
Proof. destruct a, b; simpl; try discriminate; auto. Qed.
Lemma kind_eqb_refl a : kind_eqb a a = true.
Proof. destruct a; auto. Qed.

Lemma cell_kind_none c : cell_kind c = None -> c = VNull.
Proof. destruct c; simpl; try discriminate; auto. Qed.

Lemma infer_null cs : infer cs = InfNull -> forall c, In c cs -> c = VNull.
Proof.
  induction cs as [|c cs]; cbn [infer]; [simpl; tauto|]. intros H.
  assert (cell_kind c = None /\ infer cs = InfNull) as [E1 E2].
  { destruct (cell_kind c) as [kc|]; [|auto]. destruct (infer cs) as [|k'|]; try discriminate. destruct (kind_eqb kc k'); discriminate. }
  intros x [E|I]; [subst x; apply cell_kind_none; auto|auto].
Qed.

Lemma infer_kind cs k : infer cs = InfKind k -> uniform k cs.
Proof.
  induction cs as [|c cs]; cbn [infer]; [discriminate|]. intros H x [E|I].
  - subst x. destruct (cell_kind c) as [kc|]; auto. right.
    destruct (infer cs) as [|k'|]; try discriminate; [congruence|].
    destruct (kind_eqb kc k') eqn:K; try discriminate. congruence.
  - destruct (cell_kind c) as [kc|] eqn:CK.
    + destruct (infer cs) as [|k'|] eqn:IC; try discriminate.
      * left. rewrite (infer_null cs IC x I). reflexivity.
      * destruct (kind_eqb kc k') eqn:K; try discriminate. apply kind_eqb_eq in K. apply IHcs; auto. congruence.
    + apply IHcs; auto.
Qed.

Lemma uniform_infer k cs : uniform k cs -> infer cs = InfNull \/ infer cs = InfKind k.
Proof.
  induction cs as [|c cs]; cbn [infer]; auto. intros U.
  assert (U' : uniform k cs) by (intros x I; apply U; simpl; auto).
  destruct (U c ltac:(simpl; auto)) as [E|E]; rewrite E; auto.
  destruct (IHcs U') as [I|I]; rewrite I; auto. rewrite kind_eqb_refl. auto.
Qed.

Lemma all_null_repeat cs : (forall c, In c cs -> c = VNull) -> repeat VNull (List.length cs) = cs.
Proof. induction cs as [|c cs]; simpl; auto. intros H. rewrite (H c) by auto. f_equal. apply IHcs. auto. Qed.

Lemma uniform_map (k : kind) {A} (f : cell -> option A) (g : option A -> cell) cs :
  (forall c, cell_kind c = None \/ cell_kind c = Some k -> g (f c) = c) -> uniform k cs -> map g (map f cs) = cs.
Proof.
  intros H U. rewrite map_map. rewrite <- (map_id cs) at 2. apply map_ext_in. intros c I. apply H. apply U. exact I.
Qed.

Lemma build_acol_ok cs : typed cs = true -> exists c, build_acol cs = Ok c /\ acol_cells c = cs.
Proof.
  unfold typed, build_acol. intros T. apply andb_true_iff in T. destruct T as [T1 T2].
  destruct (infer cs) as [|k|] eqn:I; try discriminate.
  - eexists. split; eauto. simpl. apply all_null_repeat. apply infer_null. exact I.
  - apply infer_kind in I. destruct k.
    + rewrite T2. eexists. split; eauto. simpl. apply (uniform_map KInt); auto.
      intros c [E|E]; destruct c; simpl in *; try discriminate; auto.
    + eexists. split; eauto. simpl. apply (uniform_map KFloat); auto.
      intros c [E|E]; destruct c; simpl in *; try discriminate; auto.
    + eexists. split; eauto. simpl. apply (uniform_map KStr); auto.
      intros c [E|E]; destruct c; simpl in *; try discriminate; auto.
    + eexists. split; eauto. simpl. apply (uniform_map KBool); auto.
      intros c [E|E]; destruct c; simpl in *; try discriminate; auto.
Qed.

(* every Arrow column is typed *)
Lemma acol_uniform c : exists k, uniform k (acol_cells c).
Proof.
  destruct c as [n|l|l|l|l]; simpl.
  - exists KInt. intros c I. apply repeat_spec in I. subst. auto.
  - exists KInt. intros c I. apply in_map_iff in I. destruct I as [[z|] [E _]]; subst; simpl; auto.
  - exists KFloat. intros c I. apply in_map_iff in I. destruct I as [[z|] [E _]]; subst; simpl; auto.
  - exists KStr. intros c I. apply in_map_iff in I. destruct I as [[z|] [E _]]; subst; simpl; auto.
  - exists KBool. intros c I. apply in_map_iff in I. destruct I as [[z|] [E _]]; subst; simpl; auto.
Qed.

Lemma uniform_typed k cs : uniform k cs -> forallb cell_int64 cs = true -> typed cs = true.
Proof. intros U H. unfold typed. rewrite H. destruct (uniform_infer k cs U) as [E|E]; rewrite E; reflexivity. Qed.

Lemma acol_typed c : forallb cell_int64 (acol_cells c) = true -> typed (acol_cells c) = true.
Proof. destruct (acol_uniform c) as [k U]. apply (uniform_typed k); auto. Qed.

(* nan_to_null *)
Lemma nan_to_null_int64 c : cell_int64 (nan_to_null c) = cell_int64 c.
Proof. destruct c as [| |[]| |]; reflexivity. Qed.

Lemma nan_to_null_nofloat cs : (forall c, In c cs -> forall f, c <> VFloat f) -> map nan_to_null cs = cs.
Proof.
  intros H. rewrite <- (map_id cs) at 2. apply map_ext_in. intros c I. specialize (H c I).
  destruct c as [| |f| |]; auto. exfalso. eapply H; eauto.
Qed.

Lemma res_all_map_ok {A B} (f : A -> res B) (g : A -> B) l :
  (forall a, In a l -> f a = Ok (g a)) -> res_all (map f l) = Ok (map g l).
Proof. induction l; simpl; auto. intros H. rewrite H by auto. simpl. rewrite IHl by auto. reflexivity. Qed.

(* ================= Arrow -> pandas ================= *)
Definition wide_ok (cs : list cell) : Prop :=
  existsb is_null cs = true -> forall z, In (VInt z) cs -> f2z (z2f z) = Some z.

Lemma all_some_cells {A} (f : option A -> cell) (g : A -> cell) (d : A) l :
  (forall a, f (Some a) = g a) -> all_some l = true ->
  map g (map (fun o => match o with Some a => a | None => d end) l) = map f l.
Proof.
  intros H. induction l as [|[a|] l]; simpl; auto; try discriminate. intros S. rewrite H. f_equal. auto.
Qed.

Lemma not_all_some_null {A} (f : option A -> cell) l :
  f None = VNull -> all_some l = false -> existsb is_null (map f l) = true.
Proof.
  intros H. induction l as [|[a|] l]; simpl; try discriminate; auto.
  - intros S. rewrite IHl by auto. apply orb_true_r.
  - intros _. rewrite H. reflexivity.
Qed.

Lemma f2z_some_not_nan f z : f2z f = Some z -> f <> S754_nan.
Proof. intros H E. subst f. discriminate. Qed.

Lemma norm_float f : f <> S754_nan -> norm (VFloat f) = VFloat f.
Proof. destruct f; simpl; auto. congruence. Qed.

Lemma a2p_col_pres c : wide_ok (acol_cells c) ->
  forall2b (cell_pres (existsb is_null (acol_cells c))) (acol_cells c) (pcol_cells (a2p_col c)) = true.
Proof.
  intros W. destruct c as [n|l|l|l|l]; cbn [a2p_col].
  - apply forall2b_refl. intros. apply cell_pres_refl.
  - destruct (all_some l) eqn:S; cbn [pcol_cells acol_cells].
    + rewrite (all_some_cells of_oint VInt 0 l) by auto. apply forall2b_refl. intros. apply cell_pres_refl.
    + cbn [acol_cells] in W. pose proof (not_all_some_null of_oint l eq_refl S) as N. rewrite N. rewrite map_map.
      apply forall2b_map_map. intros [z|] I; [|reflexivity].
      assert (F : f2z (z2f z) = Some z) by (apply W; auto; apply in_map_iff; exists (Some z); auto).
      eapply cell_pres_widen; [reflexivity| |exact F]. apply norm_float. eapply f2z_some_not_nan; eauto.
  - cbn [pcol_cells acol_cells]. rewrite map_map. apply forall2b_map_map. intros [f|] I; [apply cell_pres_refl|reflexivity].
  - apply forall2b_refl. intros. apply cell_pres_refl.
  - destruct (all_some l) eqn:S; cbn [pcol_cells acol_cells].
    + rewrite (all_some_cells of_obool VBool false l) by auto. apply forall2b_refl. intros. apply cell_pres_refl.
    + apply forall2b_refl. intros. apply cell_pres_refl.
Qed.

Lemma a2p_col_len c : List.length (pcol_cells (a2p_col c)) = List.length (acol_cells c).
Proof.
  destruct c as [n|l|l|l|l]; cbn [a2p_col]; try destruct (all_some l); cbn [pcol_cells acol_cells]; rewrite ?map_length; reflexivity.
Qed.

Lemma int64_map_VInt l : forallb cell_int64 (map of_oint l) = true -> all_some l = true ->
  forallb cell_int64 (map VInt (map (fun o => match o with Some z => z | None => 0 end) l)) = true.
Proof. intros H S. rewrite (all_some_cells of_oint VInt 0 l) by auto. exact H. Qed.

Lemma forallb_map_const {A} (p : cell -> bool) (f : A -> cell) l : (forall a, p (f a) = true) -> forallb p (map f l) = true.
Proof. intros H. induction l; simpl; auto. rewrite H. auto. Qed.

Lemma a2p_col_ok c : forallb cell_int64 (acol_cells c) = true -> pcol_ok (a2p_col c) = true.
Proof.
  intros H. destruct c as [n|l|l|l|l]; cbn [a2p_col].
  - unfold pcol_ok. rewrite nan_to_null_nofloat.
    + apply (uniform_typed KInt). * intros c I. apply repeat_spec in I. subst. auto. * apply forallb_forall. intros c I. apply repeat_spec in I. subst. auto.
    + intros c I. apply repeat_spec in I. subst. discriminate.
  - destruct (all_some l) eqn:S; unfold pcol_ok; cbn [pcol_cells].
    + apply int64_map_VInt; auto.
    + rewrite map_map. apply forallb_map_const. reflexivity.
  - unfold pcol_ok; cbn [pcol_cells]. rewrite map_map. apply forallb_map_const. reflexivity.
  - unfold pcol_ok; cbn [pcol_cells]. apply forallb_map_const. intros [s|]; reflexivity.
  - destruct (all_some l) eqn:S; unfold pcol_ok; cbn [pcol_cells].
    + rewrite map_map. apply forallb_map_const. reflexivity.
    + rewrite nan_to_null_nofloat.
      * apply (uniform_typed KBool). -- intros c I. apply in_map_iff in I. destruct I as [[b|] [E _]]; subst; simpl; auto.
        -- apply forallb_map_const. intros [b|]; reflexivity.
      * intros c I. apply in_map_iff in I. destruct I as [[b|] [E _]]; subst; discriminate.
Qed.

Lemma forallb_map' {A B} (p : B -> bool) (f : A -> B) l : forallb p (map f l) = forallb (fun a => p (f a)) l.
Proof. induction l; simpl; auto. rewrite IHl. reflexivity. Qed.

Lemma view_p_a2p t : view_p (a2p t) = map (fun nc => (fst nc, pcol_cells (a2p_col (snd nc)))) t.
Proof. unfold view_p, a2p. rewrite map_map. reflexivity. Qed.

Lemma a2p_shape t : shape (view_p (a2p t)) = shape (view_a t).
Proof.
  rewrite view_p_a2p. unfold shape, view_a. rewrite !map_map. apply map_ext. intros nc. cbn [fst snd]. rewrite a2p_col_len. reflexivity.
Qed.

Lemma a2p_pres t : (forall nc, In nc t -> wide_ok (acol_cells (snd nc))) -> pres (view_a t) (view_p (a2p t)) = true.
Proof.
  intros W. rewrite view_p_a2p. unfold pres, view_a. apply forall2b_map_map. intros nc I.
  unfold col_pres. cbn [fst snd]. rewrite String.eqb_refl. simpl. apply a2p_col_pres. auto.
Qed.

(* the exact loss domain gives wide_ok *)
Lemma wide_ok_of_kf t : valid_a t = true -> kf_widening_exact (view_a t) = false -> forall nc, In nc t -> wide_ok (acol_cells (snd nc)).
Proof.
  unfold valid_a. intros V K nc I N z Z.
  apply andb_true_iff in V. destruct V as [_ V]. rewrite forallb_forall in V.
  assert (IV : In (fst nc, acol_cells (snd nc)) (view_a t)) by (unfold view_a; apply in_map_iff; eauto).
  specialize (V _ IV). cbn [snd] in V. rewrite forallb_forall in V. specialize (V _ Z). cbn [cell_int64] in V.
  apply z2f_exact_iff_l; auto.
  unfold kf_widening_exact in K. destruct (representable z) eqn:R; auto. exfalso.
  assert (existsb (fun c => existsb is_null (snd c) && existsb lossy_int (snd c)) (view_a t) = true); [|congruence].
  apply existsb_exists. eexists. split; [exact IV|]. cbn [snd]. rewrite N. simpl.
  apply existsb_exists. exists (VInt z). split; auto. simpl. rewrite R. reflexivity.
Qed.

Lemma valid_a_shape t v : valid_a t = true -> shape v = shape (view_a t) -> nodupb (names v) = true /\ same_len v = true.
Proof.
  unfold valid_a. intros V S. apply andb_true_iff in V. destruct V as [V _]. apply andb_true_iff in V. destruct V as [V1 V2].
  rewrite names_shape, S, <- names_shape. rewrite (same_len_shape _ _ S). auto.
Qed.

Lemma a2p_valid t : valid_a t = true -> valid_p (a2p t) = true.
Proof.
  intros V. destruct (valid_a_shape t (view_p (a2p t)) V (a2p_shape t)) as [N L].
  unfold valid_p. rewrite N, L. simpl. unfold a2p. rewrite forallb_map'. apply forallb_forall. intros nc I. cbn [snd].
  apply a2p_col_ok. unfold valid_a in V. apply andb_true_iff in V. destruct V as [_ V]. rewrite forallb_forall in V.
  apply (V (fst nc, acol_cells (snd nc))). unfold view_a. apply in_map_iff. eauto.
Qed.

(* ================= pandas -> Arrow ================= *)
Definition p2a_col' (c : pcol) : acol := match p2a_col c with Ok c' => c' | _ => ANull 0 end.

Lemma forallb_int64_nan_to_null cs : forallb cell_int64 (map nan_to_null cs) = forallb cell_int64 cs.
Proof. induction cs; simpl; auto. rewrite nan_to_null_int64, IHcs. reflexivity. Qed.

Lemma p2a_col_ok c : pcol_ok c = true ->
  p2a_col c = Ok (p2a_col' c) /\
  (forall b, forall2b (cell_pres b) (pcol_cells c) (acol_cells (p2a_col' c)) = true) /\
  forallb cell_int64 (acol_cells (p2a_col' c)) = true.
Proof.
  unfold p2a_col'. destruct c as [l|l|l|l|l]; cbn [p2a_col pcol_ok pcol_cells]; intros H.
  - split; auto. cbn [acol_cells]. rewrite map_map. cbn [of_oint]. split; auto. intros b. apply forall2b_refl. intros. apply cell_pres_refl.
  - split; auto. cbn [acol_cells]. rewrite map_map. split.
    + intros b. apply forall2b_map_map. intros f _. destruct f; reflexivity || apply cell_pres_refl.
    + apply forallb_map_const. intros f. destruct (is_nan f); reflexivity.
  - split; auto. cbn [acol_cells]. rewrite map_map. cbn [of_obool]. split; [|apply forallb_map_const; reflexivity].
    intros b. apply forall2b_refl. intros. apply cell_pres_refl.
  - split; auto. cbn [acol_cells]. split; [|apply forallb_map_const; intros [s|]; reflexivity].
    intros b. apply forall2b_refl. intros. apply cell_pres_refl.
  - destruct (build_acol_ok _ H) as [c' [E C]]. rewrite E. split; auto. rewrite C. split.
    + intros b. apply forall2b_map_r. intros c _. apply cell_pres_eq. unfold norm. destruct c as [| |[]| |]; reflexivity.
    + unfold typed in H. apply andb_true_iff in H. tauto.
Qed.

Definition p2a' (t : ptable) : atable := map (fun nc => (fst nc, p2a_col' (snd nc))) t.

Lemma p2a_ok t : valid_p t = true -> p2a t = Ok (p2a' t) /\ pres (view_p t) (view_a (p2a' t)) = true /\ valid_a (p2a' t) = true.
Proof.
  unfold valid_p. intros V. apply andb_true_iff in V. destruct V as [V V3]. apply andb_true_iff in V. destruct V as [V1 V2].
  rewrite forallb_forall in V3.
  assert (P : pres (view_p t) (view_a (p2a' t)) = true).
  { unfold pres, view_p, view_a, p2a'. rewrite map_map. apply forall2b_map_map. intros nc I. unfold col_pres. cbn [fst snd].
    rewrite String.eqb_refl. simpl. apply p2a_col_ok. auto. }
  split; [|split; auto].
  - unfold p2a, p2a'. apply res_all_map_ok. intros nc I. destruct (p2a_col_ok (snd nc) (V3 _ I)) as [E _]. rewrite E. reflexivity.
  - pose proof (pres_shape _ _ P) as S. unfold valid_a.
    rewrite names_shape, <- S, <- names_shape, V1. rewrite <- (same_len_shape _ _ S), V2. simpl.
    unfold view_a, p2a'. rewrite map_map. rewrite forallb_map'. apply forallb_forall. intros nc I. cbn [snd]. apply p2a_col_ok. auto.
Qed.

(* ================= python-dict -> Arrow ================= *)
Definition col_of (cs : list cell) : acol := match build_acol cs with Ok c => c | _ => ANull 0 end.
Definition d2a' (rows : dtable) : atable :=
  match rows with [] => [] | r0 :: _ => map (fun k => (k, col_of (map (dcell k) rows))) (keys r0) end.

Lemma col_of_ok cs : typed cs = true -> build_acol cs = Ok (col_of cs) /\ acol_cells (col_of cs) = cs.
Proof. intros T. unfold col_of. destruct (build_acol_ok cs T) as [c [E C]]. rewrite E. auto. Qed.

Lemma typed_int64 cs : typed cs = true -> forallb cell_int64 cs = true.
Proof. unfold typed. intros H. apply andb_true_iff in H. tauto. Qed.

Lemma same_len_const (v : view) n : (forall c, In c v -> List.length (snd c) = n) -> same_len v = true.
Proof.
  unfold same_len. destruct v as [|c v]; auto. intros H. apply forallb_forall. intros c' I.
  rewrite (H c') by (simpl; auto). rewrite (H c) by (simpl; auto). apply Nat.eqb_refl.
Qed.

Lemma d2a_ok rows : valid_d rows = true ->
  d2a rows = Ok (d2a' rows) /\ view_a (d2a' rows) = view_d rows /\ valid_a (d2a' rows) = true.
Proof.
  destruct rows as [|r0 rest]; [intros _; repeat split; reflexivity|].
  set (rows := r0 :: rest). unfold valid_d. fold rows. intros V.
  apply andb_true_iff in V. destruct V as [V V4]. apply andb_true_iff in V. destruct V as [V V3].
  apply andb_true_iff in V. destruct V as [V1 V2].
  assert (T : forall k, In k (keys r0) -> typed (map (dcell k) rows) = true).
  { intros k I. rewrite forallb_forall in V4. apply (V4 (k, map (dcell k) rows)). unfold view_d, rows. apply in_map_iff. eauto. }
  assert (VW : view_a (d2a' rows) = view_d rows).
  { unfold view_a, d2a', view_d, rows. fold rows. rewrite map_map. apply map_ext_in. intros k I. cbn [fst snd].
    f_equal. apply col_of_ok. auto. }
  split; [|split; auto].
  - unfold d2a, rows. fold rows. rewrite V3. unfold from_pylist, d2a', rows. fold rows. apply res_all_map_ok.
    intros k I. destruct (col_of_ok _ (T k I)) as [E _]. rewrite E. reflexivity.
  - unfold valid_a. rewrite VW.
    assert (N : names (view_d rows) = keys r0).
    { unfold names, view_d, rows. rewrite map_map. cbn [fst]. apply map_id. }
    rewrite N. rewrite forallb_forall in V2. rewrite (V2 r0) by (unfold rows; simpl; auto). simpl.
    rewrite (same_len_const _ (List.length rows)).
    + simpl. apply forallb_forall. intros c I. apply typed_int64. rewrite forallb_forall in V4. auto.
    + intros c I. unfold view_d, rows in I. fold rows in I. apply in_map_iff in I. destruct I as [k [E _]]. subst c. cbn [snd]. unfold rows. simpl. rewrite map_length. reflexivity.
Qed.

(* ================= Arrow -> python-dict ================= *)
Lemma nth_seq_map {A} (l : list A) d : map (fun i => nth i l d) (seq 0 (List.length l)) = l.
Proof.
  induction l; simpl; auto. f_equal. rewrite <- seq_shift. rewrite map_map. exact IHl.
Qed.

Lemma mem_in k l : mem k l = true <-> In k l.
Proof.
  unfold mem. rewrite existsb_exists. split.
  - intros [x [I E]]. apply String.eqb_eq in E. subst. auto.
  - intros I. exists k. split; auto. apply String.eqb_refl.
Qed.

Lemma dget_map_nodup {A} (g : string * A -> cell) (t : list (string * A)) nc :
  nodupb (map fst t) = true -> In nc t -> dget (map (fun x => (fst x, g x)) t) (fst nc) = Some (g nc).
Proof.
  induction t as [|x t]; simpl; [tauto|]. intros N I. apply andb_true_iff in N. destruct N as [N1 N2].
  destruct (String.eqb (fst x) (fst nc)) eqn:E.
  - destruct I as [I|I]; [subst; auto|]. exfalso. apply String.eqb_eq in E.
    apply negb_true_iff in N1. assert (mem (fst x) (map fst t) = true); [|congruence].
    apply mem_in. rewrite E. apply in_map. exact I.
  - destruct I as [I|I]; [subst; rewrite String.eqb_refl in E; discriminate|]. auto.
Qed.

Definition rowf (t : atable) (i : nat) : drow := map (fun nc : string * acol => (fst nc, nth i (acol_cells (snd nc)) VNull)) t.

Lemma a2d_rows t : a2d t = map (rowf t) (seq 0 (a_nrows t)).
Proof. reflexivity. Qed.

Lemma keys_rowf t i : keys (rowf t i) = map fst t.
Proof. unfold keys, rowf. rewrite map_map. reflexivity. Qed.

Lemma same_len_all (t : atable) : same_len (view_a t) = true -> forall nc, In nc t -> List.length (acol_cells (snd nc)) = a_nrows t.
Proof.
  destruct t as [|[n0 c0] t]; [simpl; tauto|]. unfold same_len. cbn [view_a map fst snd a_nrows acol_len].
  intros H nc [I|I]; [subst; reflexivity|]. rewrite forallb_forall in H.
  specialize (H (fst nc, acol_cells (snd nc))). cbn [snd] in H. apply Nat.eqb_eq. apply H.
  fold (view_a t). unfold view_a. apply in_map_iff. eauto.
Qed.

Lemma same_keys_eq r r0 : keys r = keys r0 -> same_keys r r0 = true.
Proof.
  unfold same_keys. intros E. rewrite E. rewrite andb_diag. apply forallb_forall. intros k I. apply mem_in. exact I.
Qed.

Lemma a2d_ok t : valid_a t = true -> kf_empty (view_a t) = false ->
  view_d (a2d t) = view_a t /\ valid_d (a2d t) = true.
Proof.
  destruct t as [|[n0 c0] t']; [intros _ _; split; reflexivity|].
  set (t := (n0, c0) :: t'). unfold valid_a. intros V K.
  apply andb_true_iff in V. destruct V as [V V3]. apply andb_true_iff in V. destruct V as [V1 V2].
  assert (NM : names (view_a t) = map fst t) by (unfold names, view_a; rewrite map_map; reflexivity).
  rewrite NM in V1.
  (* at least one row *)
  assert (exists n, a_nrows t = S n) as [n RN].
  { unfold kf_empty, t in K. cbn [view_a map snd] in K. unfold t. cbn [a_nrows acol_len].
    unfold acol_len. destruct (acol_cells c0); [discriminate|]. simpl. eauto. }
  rewrite a2d_rows, RN. cbn [seq map]. set (rows := rowf t 0 :: map (rowf t) (seq 1 n)).
  assert (RS : rows = map (rowf t) (seq 0 (a_nrows t))) by (rewrite RN; reflexivity).
  assert (VW : view_d rows = view_a t).
  { unfold view_d, rows. fold rows. rewrite keys_rowf. unfold view_a. rewrite map_map. apply map_ext_in. intros nc I. f_equal.
    rewrite RS, map_map.
    transitivity (map (fun i => nth i (acol_cells (snd nc)) VNull) (seq 0 (a_nrows t))).
    - apply map_ext. intros i. unfold dcell, rowf. rewrite (dget_map_nodup (fun x => nth i (acol_cells (snd x)) VNull) t nc V1 I). reflexivity.
    - rewrite <- (same_len_all t V2 nc I). apply nth_seq_map. }
  split; auto.
  unfold valid_d, rows. fold rows. rewrite keys_rowf. unfold t at 1. cbn [map negb].
  assert (KR : forall r, In r rows -> keys r = map fst t).
  { intros r I. rewrite RS in I. apply in_map_iff in I. destruct I as [i [E _]]. subst r. apply keys_rowf. }
  replace (forallb (fun r => nodupb (keys r)) rows) with true.
  2:{ symmetry. apply forallb_forall. intros r I. rewrite (KR r I). exact V1. }
  replace (schema_ok rows) with true.
  2:{ symmetry. unfold schema_ok, rows. fold rows. apply forallb_forall. intros r I. apply same_keys_eq. rewrite (KR r I). symmetry. apply keys_rowf. }
  cbn [andb]. rewrite VW. unfold view_a. rewrite forallb_map'. apply forallb_forall. intros nc I. cbn [snd]. apply acol_typed.
  rewrite forallb_forall in V3. apply (V3 (fst nc, acol_cells (snd nc))). unfold view_a. apply in_map_iff. eauto.
Qed.

(* a valid list of dicts always shows its columns: the empty-table loss cannot start from python-dict *)
Lemma valid_d_not_empty rows : valid_d rows = true -> kf_empty (view_d rows) = false.
Proof.
  destruct rows as [|r0 rest]; auto. unfold valid_d. intros V. apply andb_true_iff in V. destruct V as [V _].
  apply andb_true_iff in V. destruct V as [V _]. apply andb_true_iff in V. destruct V as [V _].
  unfold kf_empty, view_d. destruct (keys r0); [discriminate|]. reflexivity.
Qed.

(* ================= the four transformer functions on tables of any framework ================= *)
Lemma step_d2a x : valid_of FDict x = true -> valid_of FArrow (cv_d2a x) = true /\ view_of (cv_d2a x) = view_of x.
Proof.
  destruct x as [t|t|t|r]; simpl; try discriminate. intros V.
  destruct (d2a_ok t V) as [E [W VA]]. unfold cv_d2a. rewrite E. simpl. auto.
Qed.

Lemma step_a2d x : valid_of FArrow x = true -> kf_empty (view_of x) = false ->
  valid_of FDict (cv_a2d x) = true /\ view_of (cv_a2d x) = view_of x.
Proof.
  destruct x as [t|t|t|r]; simpl; try discriminate. intros V K.
  destruct (a2d_ok t V K) as [W VD]. auto.
Qed.

Lemma step_a2p x : valid_of FArrow x = true ->
  valid_of FPandas (cv_a2p x) = true /\ shape (view_of (cv_a2p x)) = shape (view_of x) /\
  (kf_widening_exact (view_of x) = false -> pres (view_of x) (view_of (cv_a2p x)) = true).
Proof.
  destruct x as [t|t|t|r]; simpl; try discriminate. intros V.
  split; [apply a2p_valid; auto|]. split; [apply a2p_shape|]. intros K. apply a2p_pres. apply wide_ok_of_kf; auto.
Qed.

Lemma step_p2a x : valid_of FPandas x = true ->
  valid_of FArrow (cv_p2a x) = true /\ pres (view_of x) (view_of (cv_p2a x)) = true.
Proof.
  destruct x as [t|t|t|r]; simpl; try discriminate. intros V.
  destruct (p2a_ok t V) as [E [P VA]]. unfold cv_p2a. rewrite E. simpl. auto.
Qed.

(* ================= one way ================= *)
Lemma forward_l a b x : a <> b -> valid_of a x = true -> kf_route_exact a b (view_of x) = false ->
  valid_of b (conv a b x) = true /\ pres (view_of x) (view_of (conv a b x)) = true.
Proof.
  intros NE V K. unfold kf_route_exact in K. apply orb_false_iff in K. destruct K as [K1 K2].
  destruct a, b; try congruence; cbn [conv uses_pandas fwk_eqb orb andb] in *.
  - (* dict -> Arrow *) destruct (step_d2a x V) as [V' W]. rewrite W. split; auto. apply pres_refl.
  - (* dict -> pandas *) destruct (step_d2a x V) as [V' W]. destruct (step_a2p _ V') as [V'' [_ P]]. rewrite W in P. auto.
  - (* Arrow -> dict *) destruct (step_a2d x V K2) as [V' W]. rewrite W. split; auto. apply pres_refl.
  - (* Arrow -> pandas *) destruct (step_a2p x V) as [V' [_ P]]. auto.
  - (* pandas -> dict *) destruct (step_p2a x V) as [V' P].
    assert (K' : kf_empty (view_of (cv_p2a x)) = false) by (rewrite <- (kf_empty_shape _ _ (pres_shape _ _ P)); auto).
    destruct (step_a2d _ V' K') as [V'' W]. rewrite W. auto.
  - (* pandas -> Arrow *) apply step_p2a; auto.
Qed.

Lemma uses_pandas_sym a b : uses_pandas a b = uses_pandas b a.
Proof. destruct a, b; reflexivity. Qed.

Lemma valid_dict_not_empty x : valid_of FDict x = true -> kf_empty (view_of x) = false.
Proof. destruct x; simpl; try discriminate. apply valid_d_not_empty. Qed.

(* ================= there and back ================= *)
Lemma roundtrip_l a b x : a <> b -> valid_of a x = true -> kf_route_exact a b (view_of x) = false ->
  valid_of b (conv a b x) = true /\ pres (view_of x) (view_of (conv a b x)) = true /\
  valid_of a (conv b a (conv a b x)) = true /\ pres (view_of x) (view_of (conv b a (conv a b x))) = true.
Proof.
  intros NE V K. destruct (forward_l a b x NE V K) as [V1 P1].
  assert (K' : kf_route_exact b a (view_of (conv a b x)) = false).
  { unfold kf_route_exact in *. apply orb_false_iff in K. destruct K as [K1 K2]. apply orb_false_iff. split.
    - rewrite uses_pandas_sym. destruct (uses_pandas a b); auto. simpl in *. eapply pres_kf_widening_exact; eauto.
    - destruct a; auto. cbn [fwk_eqb andb]. rewrite <- (kf_empty_shape _ _ (pres_shape _ _ P1)). apply valid_dict_not_empty. auto. }
  destruct (forward_l b a _ (not_eq_sym NE) V1 K') as [V2 P2].
  repeat split; auto. eapply pres_trans; eauto.
Qed.

Lemma kf_route_exact_in a b v : kf_route a b v = false -> kf_route_exact a b v = false.
Proof.
  unfold kf_route, kf_route_exact. intros K. apply orb_false_iff in K. destruct K as [K1 K2]. rewrite K2, orb_false_r.
  destruct (uses_pandas a b); auto. simpl in *. apply kf_exact_in_kf. auto.
Qed.

(* the same under the broader, simpler domain |z| > 2^53 *)
Lemma forward_kf_l a b x : a <> b -> valid_of a x = true -> kf_route a b (view_of x) = false ->
  valid_of b (conv a b x) = true /\ pres (view_of x) (view_of (conv a b x)) = true.
Proof. intros NE V K. apply forward_l; auto. apply kf_route_exact_in; auto. Qed.

Lemma roundtrip_kf_l a b x : a <> b -> valid_of a x = true -> kf_route a b (view_of x) = false ->
  valid_of b (conv a b x) = true /\ pres (view_of x) (view_of (conv a b x)) = true /\
  valid_of a (conv b a (conv a b x)) = true /\ pres (view_of x) (view_of (conv b a (conv a b x))) = true.
Proof. intros NE V K. apply roundtrip_l; auto. apply kf_route_exact_in; auto. Qed.

(* ================= names and row counts, also where a value is lost ================= *)
Lemma shape_l a b x : a <> b -> valid_of a x = true -> (b = FDict -> kf_empty (view_of x) = false) ->
  valid_of b (conv a b x) = true /\ shape (view_of (conv a b x)) = shape (view_of x).
Proof.
  intros NE V K.
  destruct a, b; try congruence; cbn [conv].
  - destruct (step_d2a x V) as [V' W]. rewrite W. auto.
  - destruct (step_d2a x V) as [V' W]. destruct (step_a2p _ V') as [V'' [S _]]. rewrite W in S. auto.
  - destruct (step_a2d x V (K eq_refl)) as [V' W]. rewrite W. auto.
  - destruct (step_a2p x V) as [V' [S _]]. auto.
  - destruct (step_p2a x V) as [V' P]. pose proof (pres_shape _ _ P) as S.
    assert (K' : kf_empty (view_of (cv_p2a x)) = false) by (rewrite <- (kf_empty_shape _ _ S); auto).
    destruct (step_a2d _ V' K') as [V'' W]. rewrite W. auto.
  - destruct (step_p2a x V) as [V' P]. split; auto. symmetry. apply pres_shape. auto.
Qed.

(* ================= the schema check ================= *)
Lemma same_keys_spec r r0 : same_keys r r0 = true <-> (forall k, In k (keys r) <-> In k (keys r0)).
Proof.
  unfold same_keys. rewrite andb_true_iff, !forallb_forall. split.
  - intros [H1 H2] k. split; intros I; apply mem_in; auto.
  - intros H. split; intros k I; apply mem_in; apply H; auto.
Qed.

Lemma res_all_not_rejected {A} (l : list (res A)) : (forall r, In r l -> r <> Rejected) -> res_all l <> Rejected.
Proof.
  induction l as [|r l]; simpl; [discriminate|]. intros H.
  destruct r as [a| |]; simpl; [|exfalso; apply (H Rejected); auto|discriminate].
  destruct (res_all l) eqn:E; simpl; try discriminate. exfalso. apply IHl; auto.
Qed.

Lemma build_acol_not_rejected cs : build_acol cs <> Rejected.
Proof. unfold build_acol. destruct (infer cs) as [|[]|]; try discriminate. destruct (forallb cell_int64 cs); discriminate. Qed.

Lemma from_pylist_not_rejected rows : from_pylist rows <> Rejected.
Proof.
  destruct rows as [|r0 rest]; simpl; [discriminate|]. apply res_all_not_rejected. intros r I.
  apply in_map_iff in I. destruct I as [k [E _]]. subst r. pose proof (build_acol_not_rejected (map (dcell k) (r0 :: rest))).
  destruct (build_acol _); simpl; congruence.
Qed.

(* the transformer raises its ValueError exactly when some row's key SET differs from the first row's *)
Lemma schema_reject_iff_l rows :
  d2a rows = Rejected <-> exists r0 rest r, rows = r0 :: rest /\ In r rows /\ ~ (forall k, In k (keys r) <-> In k (keys r0)).
Proof.
  destruct rows as [|r0 rest].
  - simpl. split; [discriminate|]. intros [? [? [? [E _]]]]. discriminate.
  - cbn [d2a]. destruct (schema_ok (r0 :: rest)) eqn:S.
    + split; [intros E; exfalso; eapply from_pylist_not_rejected; eauto|].
      intros [r0' [rest' [r [E [I N]]]]]. injection E as E1 E2. subst r0' rest'. exfalso. apply N.
      apply same_keys_spec. unfold schema_ok in S. rewrite forallb_forall in S. auto.
    + split; auto. intros _. exists r0, rest.
      unfold schema_ok in S. assert (exists r, In r (r0 :: rest) /\ same_keys r r0 = false) as [r [I F]].
      { clear -S. induction (r0 :: rest) as [|a l]; simpl in *; [discriminate|]. apply andb_false_iff in S. destruct S as [S|S]; eauto.
        destruct (IHl S) as [r [I F]]. eauto. }
      exists r. repeat split; auto. intros H. apply same_keys_spec in H. congruence.
Qed.

(* with the check passed and unique keys, the view (columns of the first row, cells looked up by name) shows every
   (key, value) of every row: nothing is invented, nothing is dropped *)
Lemma dget_in r k v : nodupb (keys r) = true -> In (k, v) r -> dget r k = Some v.
Proof.
  induction r as [|[k' v'] r]; simpl; [tauto|]. intros N I. apply andb_true_iff in N. destruct N as [N1 N2].
  destruct (String.eqb k' k) eqn:E.
  - destruct I as [I|I]; [congruence|]. exfalso. apply String.eqb_eq in E. subst k'. apply negb_true_iff in N1.
    assert (mem k (keys r) = true); [|congruence]. apply mem_in. unfold keys. apply in_map_iff. exists (k, v). auto.
  - destruct I as [I|I]; [injection I as I1 I2; subst; rewrite String.eqb_refl in E; discriminate|auto].
Qed.

Lemma view_d_complete_l rows r k v : valid_d rows = true -> In r rows -> In (k, v) r ->
  exists cs, In (k, cs) (view_d rows) /\ In v cs.
Proof.
  destruct rows as [|r0 rest]; [simpl; tauto|]. set (rows := r0 :: rest). unfold valid_d. fold rows. intros V I IK.
  apply andb_true_iff in V. destruct V as [V _]. apply andb_true_iff in V. destruct V as [V V3].
  apply andb_true_iff in V. destruct V as [_ V2]. rewrite forallb_forall in V2.
  unfold schema_ok, rows in V3. fold rows in V3. rewrite forallb_forall in V3.
  assert (K0 : In k (keys r0)).
  { apply (proj1 (same_keys_spec r r0) (V3 r I)). unfold keys. apply in_map_iff. exists (k, v). auto. }
  exists (map (dcell k) rows). split.
  - unfold view_d, rows. fold rows. apply in_map_iff. eauto.
  - apply in_map_iff. exists r. split; auto. unfold dcell. rewrite (dget_in r k v); auto.
Qed.

(* ================= the exact behaviour: a route through pandas IS the widening (up to null/NaN) ================= *)
Lemma cell_same_iff c c' : cell_pres false c c' = true <-> norm c = norm c'.
Proof.
  split; [|apply cell_pres_eq]. intros H. apply cell_pres_inv in H. destruct H as [H|[a [_ [_ [H _]]]]]; auto. discriminate.
Qed.

Lemma same_refl v : same v v = true.
Proof. apply forall2b_refl. intros c _. unfold same_col. rewrite String.eqb_refl. apply forall2b_refl. intros. apply cell_pres_refl. Qed.

Lemma forall2b_sym {A} (p : A -> A -> bool) l : forall l', (forall a b, p a b = true -> p b a = true) ->
  forall2b p l l' = true -> forall2b p l' l = true.
Proof.
  induction l; intros [|b l'] H P; simpl in *; try discriminate; auto.
  apply andb_true_iff in P. destruct P. rewrite H by auto. simpl. auto.
Qed.

Lemma same_col_sym c c' : same_col c c' = true -> same_col c' c = true.
Proof.
  unfold same_col. intros H. apply andb_true_iff in H. destruct H as [N P]. apply String.eqb_eq in N. rewrite N, String.eqb_refl. simpl.
  apply forall2b_sym; auto. intros a b E. apply cell_same_iff. symmetry. apply cell_same_iff. auto.
Qed.

Lemma same_sym v v' : same v v' = true -> same v' v = true.
Proof. apply forall2b_sym. apply same_col_sym. Qed.

Lemma same_col_trans c1 c2 c3 : same_col c1 c2 = true -> same_col c2 c3 = true -> same_col c1 c3 = true.
Proof.
  unfold same_col. intros H1 H2. apply andb_true_iff in H1. apply andb_true_iff in H2. destruct H1 as [N1 P1], H2 as [N2 P2].
  apply String.eqb_eq in N1. apply String.eqb_eq in N2. rewrite N1, N2, String.eqb_refl. simpl.
  eapply forall2b_trans; [|exact P1|exact P2]. intros. eapply cell_pres_trans; eauto.
Qed.

Lemma same_trans v1 v2 v3 : same v1 v2 = true -> same v2 v3 = true -> same v1 v3 = true.
Proof. unfold same. intros. eapply forall2b_trans; [|eassumption|eassumption]. intros. eapply same_col_trans; eauto. Qed.

(* pres only looks at cells up to null/NaN *)
Lemma col_pres_same_r c c' c'' : same_col c' c'' = true -> col_pres c c' = true -> col_pres c c'' = true.
Proof.
  unfold same_col, col_pres. intros S P. apply andb_true_iff in S. apply andb_true_iff in P. destruct S as [N1 S], P as [N2 P].
  apply String.eqb_eq in N1. apply String.eqb_eq in N2. rewrite <- N1, N2, String.eqb_refl. simpl.
  eapply forall2b_trans; [|exact P|exact S]. intros a b c0 _ H1 H2. apply cell_same_iff in H2.
  apply cell_pres_inv in H1. destruct H1 as [E|[z [E1 [E2 [E3 E4]]]]].
  - apply cell_pres_eq. congruence.
  - rewrite E3. eapply cell_pres_widen; eauto. congruence.
Qed.

Lemma pres_same_r v v' v'' : same v' v'' = true -> pres v v' = true -> pres v v'' = true.
Proof. unfold same, pres. intros S P. eapply forall2b_trans; [|exact P|exact S]. intros a b c _ H1 H2. eapply col_pres_same_r; eauto. Qed.

Lemma pres_same_r_eq v v' v'' : same v' v'' = true -> pres v v' = pres v v''.
Proof.
  intros S. destruct (pres v v') eqn:E1, (pres v v'') eqn:E2; auto.
  - rewrite (pres_same_r _ _ _ S E1) in E2. discriminate.
  - rewrite (pres_same_r _ _ _ (same_sym _ _ S) E2) in E1. discriminate.
Qed.

Lemma same_pres v v' : same v v' = true -> pres v v' = true.
Proof. intros S. eapply pres_same_r; eauto. apply pres_refl. Qed.

(* widening respects "same" *)
Lemma widen_cell_norm c c' : norm c = norm c' -> norm (widen_cell c) = norm (widen_cell c').
Proof.
  destruct c as [| |[]| |], c' as [| |[]| |]; simpl; intros E; try discriminate; auto; try congruence.
  all: injection E as E; subst; reflexivity.
Qed.

Lemma same_widened v : forall v', same v v' = true -> same (widened_view v) (widened_view v') = true.
Proof.
  unfold same, widened_view. induction v as [|c v]; intros [|c' v'] H; simpl in *; try discriminate; auto.
  apply andb_true_iff in H. destruct H as [H1 H2]. rewrite IHv by auto. rewrite andb_true_r.
  unfold same_col in *. cbn [fst snd]. apply andb_true_iff in H1. destruct H1 as [N P]. rewrite N. simpl.
  rewrite <- (cells_pres_nullable _ _ _ P). destruct (existsb is_null (snd c)); auto.
  clear -P. revert P. generalize (snd c) (snd c'). induction l as [|a l]; intros [|b l'] P; simpl in *; try discriminate; auto.
  apply andb_true_iff in P. destruct P as [P1 P2]. rewrite IHl by auto. rewrite andb_true_r.
  apply cell_same_iff. apply widen_cell_norm. apply cell_same_iff. auto.
Qed.

Lemma same_shape v v' : same v v' = true -> shape v = shape v'.
Proof. intros S. apply pres_shape. apply same_pres. auto. Qed.

Lemma widened_shape v : shape (widened_view v) = shape v.
Proof.
  unfold shape, widened_view. rewrite map_map. apply map_ext. intros c. cbn [fst snd].
  destruct (existsb is_null (snd c)); auto. rewrite map_length. reflexivity.
Qed.

(* ---------- Arrow -> pandas is the widening, up to null/NaN; the other three keep the view ---------- *)
Lemma widen_noint cs : (forall c z, In c cs -> c <> VInt z) -> map widen_cell cs = cs.
Proof.
  intros H. rewrite <- (map_id cs) at 2. apply map_ext_in. intros c I. destruct c; auto. exfalso. eapply H; eauto.
Qed.

Lemma all_some_no_null {A} (f : option A -> cell) l :
  (forall a, is_null (f (Some a)) = false) -> all_some l = true -> existsb is_null (map f l) = false.
Proof. intros H. induction l as [|[a|] l]; simpl; try discriminate; auto. intros S. rewrite H. simpl. auto. Qed.

Lemma a2p_col_same c :
  forall2b (cell_pres false) (if existsb is_null (acol_cells c) then map widen_cell (acol_cells c) else acol_cells c)
           (pcol_cells (a2p_col c)) = true.
Proof.
  assert (R : forall cs, forall2b (cell_pres false) cs cs = true) by (intros; apply forall2b_refl; intros; apply cell_pres_refl).
  destruct c as [n|l|l|l|l]; cbn [a2p_col acol_cells].
  - rewrite widen_noint. + destruct (existsb _ _); apply R. + intros c z I. apply repeat_spec in I. subst. discriminate.
  - destruct (all_some l) eqn:S; cbn [pcol_cells].
    + rewrite (all_some_no_null of_oint l) by auto. rewrite (all_some_cells of_oint VInt 0 l) by auto. apply R.
    + rewrite (not_all_some_null of_oint l eq_refl S). rewrite !map_map. apply forall2b_map_map. intros [z|] _; [|reflexivity].
      cbn [of_oint widen_cell]. apply cell_pres_refl.
  - cbn [pcol_cells]. rewrite widen_noint.
    + assert (forall2b (cell_pres false) (map of_ofloat l) (map VFloat (map (fun o => match o with Some f => f | None => S754_nan end) l)) = true).
      { rewrite map_map. apply forall2b_map_map. intros [f|] _; [apply cell_pres_refl|reflexivity]. }
      destruct (existsb _ _); auto.
    + intros c z I. apply in_map_iff in I. destruct I as [[f|] [E _]]; subst; discriminate.
  - cbn [pcol_cells]. rewrite widen_noint. + destruct (existsb _ _); apply R.
    + intros c z I. apply in_map_iff in I. destruct I as [[f|] [E _]]; subst; discriminate.
  - rewrite widen_noint.
    + destruct (all_some l) eqn:S; cbn [pcol_cells].
      * rewrite (all_some_cells of_obool VBool false l) by auto. destruct (existsb _ _); apply R.
      * destruct (existsb _ _); apply R.
    + intros c z I. apply in_map_iff in I. destruct I as [[f|] [E _]]; subst; discriminate.
Qed.

Lemma a2p_same t : same (widened_view (view_a t)) (view_p (a2p t)) = true.
Proof.
  rewrite view_p_a2p. unfold same, widened_view, view_a. rewrite map_map. apply forall2b_map_map. intros nc _.
  unfold same_col. cbn [fst snd]. rewrite String.eqb_refl. simpl. apply a2p_col_same.
Qed.

Lemma p2a_same t : valid_p t = true -> same (view_p t) (view_a (p2a' t)) = true.
Proof.
  unfold valid_p. intros V. apply andb_true_iff in V. destruct V as [_ V3]. rewrite forallb_forall in V3.
  unfold same, view_p, view_a, p2a'. rewrite map_map. apply forall2b_map_map. intros nc I. unfold same_col. cbn [fst snd].
  rewrite String.eqb_refl. simpl. apply p2a_col_ok. auto.
Qed.

(* ---------- what a route does to the view, exactly (up to null/NaN): the widening iff it ends in pandas ---------- *)

Lemma forward_same_l a b x : a <> b -> valid_of a x = true -> (b = FDict -> kf_empty (view_of x) = false) ->
  valid_of b (conv a b x) = true /\ same (expected (to_pandas b) (view_of x)) (view_of (conv a b x)) = true.
Proof.
  intros NE V K. destruct a, b; try congruence; cbn [conv to_pandas fwk_eqb expected].
  - destruct (step_d2a x V) as [V' W]. rewrite W. split; auto. apply same_refl.
  - destruct (step_d2a x V) as [V' W]. destruct (step_a2p _ V') as [V'' _]. split; auto. rewrite <- W.
    destruct (cv_d2a x) as [t|t|t|r]; simpl in V'; try discriminate. apply a2p_same.
  - destruct (step_a2d x V (K eq_refl)) as [V' W]. rewrite W. split; auto. apply same_refl.
  - destruct (step_a2p x V) as [V' _]. split; auto. destruct x as [t|t|t|r]; simpl in V; try discriminate. apply a2p_same.
  - destruct (step_p2a x V) as [V' P].
    assert (S : same (view_of x) (view_of (cv_p2a x)) = true).
    { destruct x as [t|t|t|r]; simpl in V; try discriminate. destruct (p2a_ok t V) as [E _]. unfold cv_p2a. rewrite E. apply p2a_same. auto. }
    assert (K' : kf_empty (view_of (cv_p2a x)) = false) by (rewrite <- (kf_empty_shape _ _ (same_shape _ _ S)); auto).
    destruct (step_a2d _ V' K') as [V'' W]. rewrite W. auto.
  - destruct (step_p2a x V) as [V' P]. split; auto.
    destruct x as [t|t|t|r]; simpl in V; try discriminate. destruct (p2a_ok t V) as [E _]. unfold cv_p2a. rewrite E. apply p2a_same. auto.
Qed.

(* widening twice is widening once is not needed: every round trip contains exactly one Arrow -> pandas step *)
Lemma roundtrip_same_l a b x : a <> b -> valid_of a x = true -> (b = FDict -> kf_empty (view_of x) = false) ->
  valid_of a (conv b a (conv a b x)) = true /\
  same (expected (uses_pandas a b) (view_of x)) (view_of (conv b a (conv a b x))) = true.
Proof.
  intros NE V K. destruct (forward_same_l a b x NE V K) as [V1 S1].
  assert (K' : a = FDict -> kf_empty (view_of (conv a b x)) = false).
  { intros E. subst a. rewrite <- (kf_empty_shape _ _ (same_shape _ _ S1)).
    destruct (to_pandas b); cbn [expected]; [rewrite (kf_empty_shape _ _ (widened_shape _))|]; apply valid_dict_not_empty; auto. }
  destruct (forward_same_l b a _ (not_eq_sym NE) V1 K') as [V2 S2]. split; auto.
  destruct a, b; try congruence; cbn [to_pandas fwk_eqb expected uses_pandas orb] in *.
  - eapply same_trans; eauto.
  - eapply same_trans; eauto.
  - eapply same_trans; eauto.
  - eapply same_trans; eauto.
  - eapply same_trans; [|exact S2]. apply same_widened. auto.
  - eapply same_trans; [|exact S2]. apply same_widened. auto.
Qed.

(* ---------- when is the widened view "preserved"?  exactly outside the sharp loss domain ---------- *)
Definition ints_ok (v : view) : bool := forallb (fun c => forallb cell_int64 (snd c)) v.

Lemma cell_pres_widen_iff z : int64_ok z = true ->
  (cell_pres true (VInt z) (widen_cell (VInt z)) = true <-> representable z = true).
Proof.
  intros I. cbn [widen_cell]. rewrite <- (z2f_exact_iff_l z I). split.
  - intros H. apply cell_pres_inv in H. destruct H as [H|[a [E1 [_ [_ E4]]]]].
    + exfalso. simpl in H. destruct (z2f z); discriminate.
    + simpl in E1. injection E1 as E1. subst a. auto.
  - intros F. eapply cell_pres_widen; [reflexivity| |exact F]. apply norm_float. eapply f2z_some_not_nan; eauto.
Qed.

Lemma cells_widen_iff cs : forallb cell_int64 cs = true ->
  (forall2b (cell_pres true) cs (map widen_cell cs) = true <-> existsb lossy_int cs = false).
Proof.
  induction cs as [|c cs]; simpl; [tauto|]. intros I. apply andb_true_iff in I. destruct I as [I1 I2].
  rewrite andb_true_iff, orb_false_iff, (IHcs I2).
  assert (cell_pres true c (widen_cell c) = true <-> lossy_int c = false); [|tauto].
  destruct c as [|z|f|s|b]; try (split; intros; [reflexivity|apply cell_pres_refl]).
  rewrite (cell_pres_widen_iff z I1). cbn [lossy_int]. destruct (representable z); simpl; split; auto; discriminate.
Qed.

Lemma pres_widened_iff v : ints_ok v = true -> (pres v (widened_view v) = true <-> kf_widening_exact v = false).
Proof.
  unfold pres, widened_view, kf_widening_exact, ints_ok. induction v as [|c v]; simpl; [tauto|]. intros I.
  apply andb_true_iff in I. destruct I as [I1 I2]. rewrite andb_true_iff, orb_false_iff, (IHv I2).
  assert (col_pres c (fst c, if existsb is_null (snd c) then map widen_cell (snd c) else snd c) = true
          <-> existsb is_null (snd c) && existsb lossy_int (snd c) = false); [|tauto].
  unfold col_pres. cbn [fst snd]. rewrite String.eqb_refl. cbn [andb].
  destruct (existsb is_null (snd c)) eqn:N; cbn [andb].
  - apply cells_widen_iff. auto.
  - split; auto. intros _. apply forall2b_refl. intros. apply cell_pres_refl.
Qed.

Lemma valid_ints_ok a x : valid_of a x = true -> ints_ok (view_of x) = true.
Proof.
  destruct a, x as [t|t|t|r]; simpl; try discriminate; intros V.
  - (* dict *) destruct t as [|r0 rest]; auto. unfold valid_d in V. apply andb_true_iff in V. destruct V as [_ V].
    unfold ints_ok. apply forallb_forall. intros c I. rewrite forallb_forall in V. apply typed_int64. auto.
  - unfold valid_a in V. apply andb_true_iff in V. tauto.
  - unfold valid_p in V. apply andb_true_iff in V. destruct V as [_ V]. unfold ints_ok, view_p. rewrite forallb_map'.
    apply forallb_forall. intros nc I. rewrite forallb_forall in V. specialize (V nc I). cbn [snd].
    destruct (snd nc) as [l|l|l|l|l]; unfold pcol_ok in V; auto. cbn [pcol_cells].
    apply typed_int64 in V. rewrite forallb_int64_nan_to_null in V. auto.
Qed.

(* ---------- the round trip is preserved EXACTLY outside the sharp loss domain ---------- *)
Lemma roundtrip_iff_l a b x : a <> b -> valid_of a x = true -> (b = FDict -> kf_empty (view_of x) = false) ->
  (pres (view_of x) (view_of (conv b a (conv a b x))) = true <-> kf_route_exact a b (view_of x) = false).
Proof.
  intros NE V K. destruct (roundtrip_same_l a b x NE V K) as [_ S]. rewrite <- (pres_same_r_eq _ _ _ S).
  unfold kf_route_exact.
  assert (KE : fwk_eqb b FDict && kf_empty (view_of x) = false) by (destruct b; auto; simpl; auto).
  rewrite KE, orb_false_r. destruct (uses_pandas a b); cbn [expected andb].
  - apply pres_widened_iff. eapply valid_ints_ok; eauto.
  - split; auto. intros _. apply pres_refl.
Qed.

Lemma forward_iff_l a b x : a <> b -> valid_of a x = true -> (b = FDict -> kf_empty (view_of x) = false) ->
  (pres (view_of x) (view_of (conv a b x)) = true <-> (to_pandas b && kf_widening_exact (view_of x)) = false).
Proof.
  intros NE V K. destruct (forward_same_l a b x NE V K) as [_ S]. rewrite <- (pres_same_r_eq _ _ _ S).
  destruct (to_pandas b); cbn [expected andb].
  - apply pres_widened_iff. eapply valid_ints_ok; eauto.
  - split; auto. intros _. apply pres_refl.
Qed.
