(* Lemmas about Model/Naming.v (C03). *)
From Coq Require Import List Bool String Ascii Arith NArith Lia Permutation Sorting.Sorted.
Import ListNotations.
Require Import MV.Model.Naming MV.Spec.Columns.
Open Scope string_scope.
Open Scope list_scope.

(* ---------- strings ---------- *)
Lemma str_app_assoc : forall a b c : string, ((a ++ b) ++ c = a ++ b ++ c)%string.
Proof. induction a as [|x a IH]; intros b c; cbn; [reflexivity | rewrite IH; reflexivity]. Qed.

Lemma starts_with_spec : forall p s, starts_with p s = true <-> exists t, s = (p ++ t)%string.
Proof.
  induction p as [|a p IH]; intros s.
  - destruct s; cbn; (split; [intros _; eexists; reflexivity | reflexivity]).
  - destruct s as [|b s]; cbn.
    + split; [discriminate | intros [t H]; discriminate].
    + rewrite andb_true_iff, Ascii.eqb_eq, IH. split.
      * intros [Hab [t Ht]]. subst. exists t. reflexivity.
      * intros [t H]. injection H as Hb Hs. subst. split; [reflexivity | exists t; reflexivity].
Qed.

Lemma owns_spec : forall f c, owns f c = true <-> owner f c.
Proof.
  intros f c. unfold owns, owner. rewrite orb_true_iff, String.eqb_eq, starts_with_spec. split.
  - intros [H|[t H]]; [left; exact H | right; exists t; rewrite H; apply str_app_assoc].
  - intros [H|[t H]]; [left; exact H | right; exists t; rewrite H; symmetry; apply str_app_assoc].
Qed.

Lemma owns_refl : forall f, owns f f = true.
Proof. intros f. apply owns_spec. left. reflexivity. Qed.

(* ---------- selection ---------- *)
Lemma select_spec_l : forall cols req c, In c (select cols req) <-> wanted cols req c.
Proof.
  intros cols req c. unfold select, wanted. rewrite filter_In, existsb_exists.
  split; intros [H [f [Hf Ho]]]; (split; [exact H | exists f; split; [exact Hf | apply owns_spec; exact Ho]]).
Qed.

Lemma select_expanded_l : forall cols req c,
  In c (select cols req) <-> In c cols /\ exists f, In f req /\ (c = f \/ exists s, c = (f ++ "~" ++ s)%string).
Proof. exact select_spec_l. Qed.

Lemma select_nodup : forall cols req, NoDup cols -> NoDup (select cols req).
Proof. intros. apply NoDup_filter. assumption. Qed.

Lemma select_perm : forall cols cols' req, Permutation cols cols' -> Permutation (select cols req) (select cols' req).
Proof.
  intros cols cols' req H. unfold select. induction H; cbn.
  - constructor.
  - destruct (existsb _ req); [constructor|]; assumption.
  - destruct (existsb (fun f => owns f x) req), (existsb (fun f => owns f y) req); try apply Permutation_refl.
    apply perm_swap.
  - eapply Permutation_trans; eassumption.
Qed.

Lemma select_req_equiv : forall cols req req', (forall f, In f req <-> In f req') -> select cols req = select cols req'.
Proof.
  intros cols req req' H. unfold select. apply filter_ext. intros c.
  apply eq_true_iff_eq. rewrite !existsb_exists. split; intros [f [Hf Ho]]; exists f; (split; [apply H; exact Hf | exact Ho]).
Qed.

(* ---------- order on strings ---------- *)
Lemma ascii_compare_refl : forall a, Ascii.compare a a = Eq.
Proof. intros a. unfold Ascii.compare. apply N.compare_refl. Qed.

Lemma ascii_lt_trans : forall x y z, Ascii.compare x y = Lt -> Ascii.compare y z = Lt -> Ascii.compare x z = Lt.
Proof. unfold Ascii.compare. intros x y z. rewrite !N.compare_lt_iff. lia. Qed.

Lemma compare_refl : forall s, String.compare s s = Eq.
Proof. induction s as [|a s IH]; cbn; [reflexivity | rewrite ascii_compare_refl; exact IH]. Qed.

Lemma compare_le_trans : forall a b c,
  String.compare a b <> Gt -> String.compare b c <> Gt -> String.compare a c <> Gt.
Proof.
  induction a as [|x a IH]; intros b c H1 H2.
  - destruct c; cbn; discriminate.
  - destruct b as [|y b]; [cbn in H1; congruence|]. destruct c as [|z c]; [cbn in H2; congruence|].
    cbn in *. destruct (Ascii.compare x y) eqn:E1; destruct (Ascii.compare y z) eqn:E2; try congruence.
    + apply Ascii.compare_eq_iff in E1, E2. subst. rewrite ascii_compare_refl. eapply IH; eassumption.
    + apply Ascii.compare_eq_iff in E1. subst. rewrite E2. discriminate.
    + apply Ascii.compare_eq_iff in E2. subst. rewrite E1. discriminate.
    + rewrite (ascii_lt_trans _ _ _ E1 E2). discriminate.
Qed.

Lemma leb_trans : forall a b c, String.leb a b = true -> String.leb b c = true -> String.leb a c = true.
Proof.
  unfold String.leb. intros a b c H1 H2.
  assert (A : String.compare a b <> Gt) by (destruct (String.compare a b); congruence).
  assert (B : String.compare b c <> Gt) by (destruct (String.compare b c); congruence).
  pose proof (compare_le_trans _ _ _ A B) as C. destruct (String.compare a c); congruence.
Qed.

Lemma leb_refl : forall a, String.leb a a = true.
Proof. intros a. unfold String.leb. rewrite compare_refl. reflexivity. Qed.

Lemma ltb_leb_neq : forall a b, String.ltb a b = true <-> String.leb a b = true /\ a <> b.
Proof.
  intros a b. unfold String.ltb, String.leb. destruct (String.compare a b) eqn:E.
  - apply String.compare_eq_iff in E. split; [discriminate | intros [_ H]; contradiction].
  - split; [intros _; split; [reflexivity|] | reflexivity]. intros ->. rewrite compare_refl in E. discriminate.
  - split; [discriminate | intros [H _]; discriminate].
Qed.

(* ---------- sorting ---------- *)
Lemma insert_sorted_perm : forall x l, Permutation (insert_sorted x l) (x :: l).
Proof.
  induction l as [|y t IH]; cbn; [apply Permutation_refl|].
  destruct (String.leb x y); [apply Permutation_refl|].
  eapply Permutation_trans; [apply perm_skip; exact IH | apply perm_swap].
Qed.

Lemma sort_str_perm : forall l, Permutation (sort_str l) l.
Proof.
  induction l as [|x t IH]; cbn; [constructor|].
  eapply Permutation_trans; [apply insert_sorted_perm | apply perm_skip; exact IH].
Qed.

Lemma sort_str_in : forall l c, In c (sort_str l) <-> In c l.
Proof.
  intros l c. split; apply Permutation_in; [apply sort_str_perm | apply Permutation_sym, sort_str_perm].
Qed.

Lemma insert_sorted_sorted : forall x l, StronglySorted str_le l -> StronglySorted str_le (insert_sorted x l).
Proof.
  induction l as [|y t IH]; intros Hs; cbn.
  - constructor; constructor.
  - inversion Hs as [|? ? Ht Hy]; subst. destruct (String.leb x y) eqn:E.
    + constructor; [exact Hs|]. constructor; [exact E|].
      rewrite Forall_forall in *. intros z Hz. eapply leb_trans; [exact E | apply Hy; exact Hz].
    + constructor; [apply IH; exact Ht|]. rewrite Forall_forall in *. intros z Hz.
      apply (Permutation_in _ (insert_sorted_perm x t)) in Hz. destruct Hz as [<-|Hz]; [|apply Hy; exact Hz].
      destruct (String.leb_total x y) as [H|H]; [congruence | exact H].
Qed.

Lemma sort_str_sorted : forall l, StronglySorted str_le (sort_str l).
Proof. induction l as [|x t IH]; cbn; [constructor | apply insert_sorted_sorted; exact IH]. Qed.

Lemma sorted_perm_eq : forall l l', StronglySorted str_le l -> StronglySorted str_le l' -> Permutation l l' -> l = l'.
Proof.
  induction l as [|a l IH]; intros l' Hs Hs' Hp.
  - apply Permutation_nil in Hp. subst. reflexivity.
  - destruct l' as [|b l']; [apply Permutation_sym, Permutation_nil in Hp; discriminate|].
    inversion Hs as [|? ? Hl Ha]; subst. inversion Hs' as [|? ? Hl' Hb]; subst.
    rewrite Forall_forall in Ha, Hb.
    assert (Hab : a = b).
    { assert (In b (a :: l)) as [E|Hin] by (eapply Permutation_in; [apply Permutation_sym; exact Hp | left; reflexivity]);
        [exact E|].
      assert (In a (b :: l')) as [E|Hin'] by (eapply Permutation_in; [exact Hp | left; reflexivity]);
        [symmetry; exact E|].
      apply String.leb_antisym; [apply Ha; exact Hin | apply Hb; exact Hin']. }
    subst b. f_equal. apply IH; try assumption. eapply Permutation_cons_inv; exact Hp.
Qed.

Lemma sort_str_perm_eq : forall l l', Permutation l l' -> sort_str l = sort_str l'.
Proof.
  intros l l' H. apply sorted_perm_eq; try apply sort_str_sorted.
  eapply Permutation_trans; [apply sort_str_perm|]. eapply Permutation_trans; [exact H|].
  apply Permutation_sym, sort_str_perm.
Qed.

Lemma sorted_strict : forall l, NoDup l -> StronglySorted str_le l -> StronglySorted (fun a b => String.ltb a b = true) l.
Proof.
  induction l as [|a l IH]; intros Hn Hs; [constructor|].
  inversion Hn as [|? ? Hni Hn']; subst. inversion Hs as [|? ? Hl Ha]; subst.
  constructor; [apply IH; assumption|]. rewrite Forall_forall in *. intros z Hz.
  apply ltb_leb_neq. split; [apply Ha; exact Hz | intros ->; contradiction].
Qed.

Lemma strict_sorted_le : forall l, StronglySorted (fun a b => String.ltb a b = true) l -> StronglySorted str_le l /\ NoDup l.
Proof.
  induction l as [|a l IH]; intros Hs; [split; constructor|].
  inversion Hs as [|? ? Hl Ha]; subst. destruct (IH Hl) as [H1 H2]. rewrite Forall_forall in Ha. split.
  - constructor; [exact H1|]. rewrite Forall_forall. intros z Hz. apply (ltb_leb_neq a z), Ha, Hz.
  - constructor; [|exact H2]. intros Hin. apply Ha, ltb_leb_neq in Hin. destruct Hin as [_ Hne]. contradiction.
Qed.

(* two strictly sorted lists with the same elements are equal *)
Lemma strict_sorted_same : forall l l',
  StronglySorted (fun a b => String.ltb a b = true) l -> StronglySorted (fun a b => String.ltb a b = true) l' ->
  (forall c, In c l <-> In c l') -> l = l'.
Proof.
  intros l l' H H' Hin. destruct (strict_sorted_le _ H) as [S N]. destruct (strict_sorted_le _ H') as [S' N'].
  apply sorted_perm_eq; try assumption. apply NoDup_Permutation; assumption.
Qed.

Lemma alpha_sorted_l : forall sel, alphabetical (order_alpha sel) /\ Permutation (order_alpha sel) sel.
Proof. intros sel. split; [apply sort_str_sorted | apply sort_str_perm]. Qed.

Lemma alpha_order_independent_l : forall sel sel', Permutation sel sel' -> order_alpha sel = order_alpha sel'.
Proof. exact sort_str_perm_eq. Qed.

(* ---------- request order ---------- *)
Lemma block_in : forall cols iter f c, In f iter ->
  (In c (sort_str (filter (owns f) (select cols iter))) <-> wanted cols [f] c).
Proof.
  intros cols iter f c Hf. rewrite sort_str_in, filter_In, select_spec_l. unfold wanted. split.
  - intros [[Hc _] Ho]. split; [exact Hc|]. exists f. split; [left; reflexivity | apply owns_spec; exact Ho].
  - intros [Hc [g [[<-|[]] Ho]]]. split; [split; [exact Hc | exists f; split; assumption] | apply owns_spec; exact Ho].
Qed.

Lemma follows_request_gen : forall cols iter l, NoDup cols -> (forall f, In f l -> In f iter) ->
  Forall2 (block_of cols) l (map (fun f => sort_str (filter (owns f) (select cols iter))) l).
Proof.
  intros cols iter l Hn. induction l as [|f l IH]; intros Hsub; cbn; constructor.
  - split.
    + apply sorted_strict; [|apply sort_str_sorted].
      eapply Permutation_NoDup; [apply Permutation_sym, sort_str_perm|]. apply NoDup_filter, select_nodup, Hn.
    + intros c. apply block_in. apply Hsub. left. reflexivity.
  - apply IH. intros g Hg. apply Hsub. right. exact Hg.
Qed.

Lemma request_order_follows_l : forall cols iter, NoDup cols ->
  follows_request cols iter (order_request iter (select cols iter)).
Proof.
  intros cols iter Hn. unfold follows_request, order_request.
  exists (map (fun f => sort_str (filter (owns f) (select cols iter))) iter). split.
  - apply flat_map_concat_map.
  - apply follows_request_gen; auto.
Qed.

Lemma follows_request_unique : forall cols req out out',
  follows_request cols req out -> follows_request cols req out' -> out = out'.
Proof.
  intros cols req out out' [bs [-> H]] [bs' [-> H']]. f_equal.
  revert bs' H'. induction H as [|f b req bs Hb H IH]; intros bs' H'; inversion H' as [|? b' ? bs'' Hb' H'']; subst.
  - reflexivity.
  - f_equal; [|apply IH; exact H'']. destruct Hb as [S I]. destruct Hb' as [S' I'].
    apply strict_sorted_same; try assumption. intros c. rewrite I, I'. reflexivity.
Qed.

Lemma order_request_elements : forall iter sel c,
  In c (order_request iter sel) <-> In c sel /\ exists f, In f iter /\ owns f c = true.
Proof.
  intros iter sel c. unfold order_request. rewrite in_flat_map. split.
  - intros [f [Hf Hc]]. apply sort_str_in, filter_In in Hc. destruct Hc as [Hc Ho]. split; [exact Hc | exists f; auto].
  - intros [Hc [f [Hf Ho]]]. exists f. split; [exact Hf|]. apply sort_str_in, filter_In. auto.
Qed.

Lemma order_request_sel_perm : forall iter sel sel', Permutation sel sel' -> order_request iter sel = order_request iter sel'.
Proof.
  intros iter sel sel' H. unfold order_request. induction iter as [|f t IH]; cbn; [reflexivity|].
  rewrite IH. f_equal. apply sort_str_perm_eq. unfold select. clear IH.
  induction H; cbn.
  - constructor.
  - destruct (owns f x); [constructor|]; assumption.
  - destruct (owns f x), (owns f y); try apply Permutation_refl. apply perm_swap.
  - eapply Permutation_trans; eassumption.
Qed.

(* request order and duplicates *)
Lemma NoDup_app_intro : forall (l1 l2 : list string), NoDup l1 -> NoDup l2 -> (forall x, In x l1 -> ~ In x l2) -> NoDup (l1 ++ l2).
Proof.
  induction l1 as [|a l1 IH]; intros l2 H1 H2 Hd; cbn; [exact H2|].
  inversion H1; subst. constructor.
  - rewrite in_app_iff. intros [H|H]; [contradiction | apply (Hd a); [left; reflexivity | exact H]].
  - apply IH; try assumption. intros x Hx. apply Hd. right. exact Hx.
Qed.

Lemma flat_blocks_nodup : forall sel l, NoDup sel -> NoDup l ->
  (forall f g c, In f l -> In g l -> In c sel -> owns f c = true -> owns g c = true -> f = g) ->
  NoDup (flat_map (fun f => sort_str (filter (owns f) sel)) l).
Proof.
  intros sel l Hs. induction l as [|f l IH]; intros Hl Hov; cbn; [constructor|].
  inversion Hl as [|? ? Hnf Hl']; subst. apply NoDup_app_intro.
  - eapply Permutation_NoDup; [apply Permutation_sym, sort_str_perm|]. apply NoDup_filter, Hs.
  - apply IH; [exact Hl'|]. intros a b c Ha Hb. apply Hov; right; assumption.
  - intros x Hx Hx'. apply sort_str_in, filter_In in Hx. destruct Hx as [Hxs Hxo].
    apply in_flat_map in Hx'. destruct Hx' as [g [Hg Hxg]]. apply sort_str_in, filter_In in Hxg.
    destruct Hxg as [_ Hgo]. assert (f = g) by (apply (Hov f g x); auto; [left; reflexivity | right; exact Hg]).
    subst g. contradiction.
Qed.

Lemma request_order_nodup_l : forall iter cols, NoDup cols -> NoDup iter -> kf_overlap iter cols = false ->
  NoDup (order_request iter (select cols iter)).
Proof.
  intros iter cols Hc Hi Hk. unfold order_request. apply flat_blocks_nodup; [apply select_nodup, Hc | exact Hi |].
  intros f g c Hf Hg Hcs Hof Hog. destruct (String.eqb f g) eqn:E; [apply String.eqb_eq; exact E|]. exfalso.
  unfold kf_overlap in Hk. rewrite <- not_true_iff_false in Hk. apply Hk. apply existsb_exists. exists c. split.
  - apply select_spec_l in Hcs. destruct Hcs as [H _]. exact H.
  - apply existsb_exists. exists f. split; [exact Hf|]. apply existsb_exists. exists g. split; [exact Hg|].
    rewrite E, Hof, Hog. reflexivity.
Qed.

(* ---------- identify ---------- *)
Lemma identify_elements_l : forall iter cols o, o <> OInvalid ->
  forall c, In c (elements (identify iter cols o)) <-> wanted cols iter c.
Proof.
  intros iter cols o Ho c. rewrite <- select_spec_l. unfold identify.
  destruct (select cols iter) as [|x sel] eqn:E.
  - destruct o; cbn; tauto.
  - destruct o; cbn [elements]; try tauto; try congruence.
    + unfold order_alpha. apply sort_str_in.
    + rewrite order_request_elements. split; [tauto|]. intros H. split; [exact H|].
      rewrite <- E in H. unfold select in H. apply filter_In in H. destruct H as [_ H].
      apply existsb_exists in H. exact H.
Qed.

Lemma identify_err_l : forall iter cols o, identify iter cols o = RErr <-> o = OInvalid \/ select cols iter = [].
Proof.
  intros iter cols o. unfold identify. destruct (select cols iter) eqn:E; destruct o; split;
    try (intros [H|H]; congruence); try discriminate; auto.
Qed.

Lemma identify_alpha_l : forall iter cols out, identify iter cols OAlpha = RList out ->
  alphabetical out /\ Permutation out (select cols iter).
Proof.
  intros iter cols out. unfold identify. destruct (select cols iter) as [|x sel] eqn:E; [discriminate|].
  intros H. injection H as <-. exact (alpha_sorted_l (x :: sel)).
Qed.

Lemma identify_request_follows_l : forall iter cols out, NoDup cols ->
  identify iter cols ORequest = RList out -> follows_request cols iter out.
Proof.
  intros iter cols out Hn. unfold identify. destruct (select cols iter) as [|x sel] eqn:E; [discriminate|].
  intros H. injection H as <-. rewrite <- E. apply request_order_follows_l, Hn.
Qed.

Lemma identify_cols_perm_l : forall iter cols cols' o, Permutation cols cols' ->
  match identify iter cols o, identify iter cols' o with
  | RErr, RErr => True
  | RSet a, RSet b => Permutation a b
  | RList a, RList b => a = b
  | _, _ => False
  end.
Proof.
  intros iter cols cols' o Hp. pose proof (select_perm _ _ iter Hp) as Hs. unfold identify.
  destruct (select cols iter) as [|x sel] eqn:E; destruct (select cols' iter) as [|x' sel'] eqn:E'.
  - destruct o; exact I.
  - apply Permutation_nil in Hs. discriminate.
  - apply Permutation_sym, Permutation_nil in Hs. discriminate.
  - destruct o; try exact I; [exact Hs | apply alpha_order_independent_l, Hs | apply order_request_sel_perm, Hs].
Qed.

Lemma nodup_ab : NoDup ["a"; "b"].
Proof. constructor; [intros [H|[]]; discriminate | constructor; [intros [] | constructor]]. Qed.

Lemma request_order_refuted_l : exists req iter cols,
  Permutation iter req /\ NoDup req /\ NoDup cols /\
  ~ follows_request cols req (elements (identify iter cols ORequest)).
Proof.
  exists ["a"; "b"], ["b"; "a"], ["a"; "b"]. split; [apply perm_swap|]. split; [exact nodup_ab|]. split; [exact nodup_ab|].
  intros H. pose proof (request_order_follows_l ["a"; "b"] ["a"; "b"] nodup_ab) as H0.
  pose proof (follows_request_unique _ _ _ _ H H0) as E. vm_compute in E. discriminate E.
Qed.

Lemma request_order_dup_refuted_l : exists iter cols,
  NoDup iter /\ NoDup cols /\ kf_overlap iter cols = true /\ ~ NoDup (elements (identify iter cols ORequest)).
Proof.
  exists ["m"; "m~1"], ["m~0"; "m~1"]. repeat split.
  - constructor; [intros [H|[]]; discriminate | constructor; [intros [] | constructor]].
  - constructor; [intros [H|[]]; discriminate | constructor; [intros [] | constructor]].
  - vm_compute. intros H. inversion H as [|? ? _ Ht]. inversion Ht as [|? ? Hni _]. apply Hni. left. reflexivity.
Qed.

(* ---------- sub-column names ---------- *)
Lemma base_feature_no_tilde : forall s, no_tilde (base_feature s).
Proof.
  induction s as [|c t IH]; cbn; [exact I|]. destruct (Ascii.eqb c "~") eqn:E; cbn; [exact I|].
  split; [apply Ascii.eqb_neq; exact E | exact IH].
Qed.

Lemma base_feature_split : forall s, s = base_feature s \/ exists r, s = (base_feature s ++ "~" ++ r)%string.
Proof.
  induction s as [|c t IH]; cbn; [left; reflexivity|]. destruct (Ascii.eqb c "~") eqn:E.
  - apply Ascii.eqb_eq in E. subst c. right. exists t. reflexivity.
  - destruct IH as [IH|[r IH]]; [left; f_equal; exact IH | right; exists r; cbn; f_equal; exact IH].
Qed.

Lemma base_feature_spec_l : forall s,
  no_tilde (base_feature s) /\ (s = base_feature s \/ exists r, s = (base_feature s ++ "~" ++ r)%string).
Proof. intros s. split; [apply base_feature_no_tilde | apply base_feature_split]. Qed.

Lemma base_feature_sub : forall f x, no_tilde f -> base_feature (f ++ "~" ++ x) = f.
Proof.
  induction f as [|c f IH]; intros x H; cbn; [reflexivity|]. destruct H as [Hc Hf].
  apply Ascii.eqb_neq in Hc. rewrite Hc. f_equal. apply IH, Hf.
Qed.

Lemma base_feature_id : forall f, no_tilde f -> base_feature f = f.
Proof.
  induction f as [|c f IH]; intros H; cbn; [reflexivity|]. destruct H as [Hc Hf].
  apply Ascii.eqb_neq in Hc. rewrite Hc. f_equal. apply IH, Hf.
Qed.

Lemma set_feature_name_keep_l : forall sup n, kf_subcolumn sup n = false -> set_feature_name sup n = n.
Proof. intros sup n H. unfold set_feature_name. unfold kf_subcolumn in H. rewrite H. reflexivity. Qed.

Lemma set_feature_name_norm_l : forall sup n, kf_subcolumn sup n = true -> set_feature_name sup n = base_feature n.
Proof. intros sup n H. unfold set_feature_name. unfold kf_subcolumn in H. rewrite H. reflexivity. Qed.

Lemma set_feature_name_plain_l : forall sup n, no_tilde n -> set_feature_name sup n = n.
Proof.
  intros sup n H. apply set_feature_name_keep_l. unfold kf_subcolumn. rewrite (base_feature_id _ H), String.eqb_refl.
  reflexivity.
Qed.

Lemma subcolumn_only_partial_l : forall sup n, kf_subcolumn sup n = false ->
  forall cols c, In c (select cols [set_feature_name sup n]) <-> In c cols /\ owner n c.
Proof.
  intros sup n H cols c. rewrite (set_feature_name_keep_l _ _ H), select_spec_l. unfold wanted. split.
  - intros [Hc [f [[<-|[]] Ho]]]. auto.
  - intros [Hc Ho]. split; [exact Hc|]. exists n. split; [left; reflexivity | exact Ho].
Qed.

Lemma subcolumn_refuted_l : exists sup n cols c,
  kf_subcolumn sup n = true /\ In c (select cols [set_feature_name sup n]) /\ ~ owner n c.
Proof.
  exists ["d"], "d~1", ["d~0"; "d~1"], "d~0". split; [reflexivity|]. split; [vm_compute; left; reflexivity|].
  intros [H|[s H]]; [discriminate H | cbn in H; discriminate H].
Qed.
