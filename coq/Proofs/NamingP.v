(* Lemmas about Model/Naming.v (C03). *)
From Coq Require Import List Bool String Ascii Arith NArith Lia Permutation Sorting.Sorted.
Import ListNotations.
Require Import MV.Model.Naming MV.Spec.Columns.
Open Scope string_scope.
Open Scope list_scope.

(* ---------- strings ---------- *)
Lemma str_app_assoc : forall a b c : string, ((a ++ b) ++ c = a ++ b ++ c)%string.
Proof. induction a as [|x a IH]; intros b c; cbn; [reflexivity | rewrite IH; reflexivity]. Qed.

Lemma starts_with_spec : forall p s, starts_with p s = true <-> exists t, s = (p ++ t)%string.
Proof.
  induction p as [|a p IH]; intros s.
  - destruct s; cbn; (split; [intros _; eexists; reflexivity | reflexivity]).
  - destruct s as [|b s]; cbn.
    + split; [discriminate | intros [t H]; discriminate].
    + rewrite andb_true_iff, Ascii.eqb_eq, IH. split.
      * intros [Hab [t Ht]]. subst. exists t. reflexivity.
      * intros [t H]. injection H as Hb Hs. subst. split; [reflexivity | exists t; reflexivity].
Qed.

Lemma owns_spec : forall f c, owns f c = true <-> owner f c.
Proof.
  intros f c. unfold owns, owner. rewrite orb_true_iff, String.eqb_eq, starts_with_spec. split.
  - intros [H|[t H]]; [left; exact H | right; exists t; rewrite H; apply str_app_assoc].
  - intros [H|[t H]]; [left; exact H | right; exists t; rewrite H; symmetry; apply str_app_assoc].
Qed.

Lemma owns_refl : forall f, owns f f = true.
Proof. intros f. apply owns_spec. left. reflexivity. Qed.

(* ---------- selection ---------- *)
Lemma select_spec_l : forall cols req c, In c (select cols req) <-> wanted cols req c.
Proof.
  intros cols req c. unfold select, wanted. rewrite filter_In, existsb_exists.
  split; intros [H [f [Hf Ho]]]; (split; [exact H | exists f; split; [exact Hf | apply owns_spec; exact Ho]]).
Qed.

Lemma select_expanded_l : forall cols req c,
  In c (select cols req) <-> In c cols /\ exists f, In f req /\ (c = f \/ exists s, c = (f ++ "~" ++ s)%string).
Proof. exact select_spec_l. Qed.

Lemma select_nodup : forall cols req, NoDup cols -> NoDup (select cols req).
Proof. intros. apply NoDup_filter. assumption. Qed.

Lemma select_perm : forall cols cols' req, Permutation cols cols' -> Permutation (select cols req) (select cols' req).
Proof.
  intros cols cols' req H. unfold select. induction H; cbn.
  - constructor.
  - destruct (existsb _ req); [constructor|]; assumption.
  - destruct (existsb (fun f => owns f x) req), (existsb (fun f => owns f y) req); try apply Permutation_refl.
    apply perm_swap.
  - eapply Permutation_trans; eassumption.
Qed.

Lemma select_req_equiv : forall cols req req', (forall f, In f req <-> In f req') -> select cols req = select cols req'.
Proof.
  intros cols req req' H. unfold select. apply filter_ext. intros c.
  apply eq_true_iff_eq. rewrite !existsb_exists. split; intros [f [Hf Ho]]; exists f; (split; [apply H; exact Hf | exact Ho]).
Qed.

(* ---------- order on strings ---------- *)
Lemma ascii_compare_refl : forall a, Ascii.compare a a = Eq.
Proof. intros a. unfold Ascii.compare. apply N.compare_refl. Qed.

Lemma ascii_lt_trans : forall x y z, Ascii.compare x y = Lt -> Ascii.compare y z = Lt -> Ascii.compare x z = Lt.
Proof. unfold Ascii.compare. intros x y z. rewrite !N.compare_lt_iff. lia. Qed.

Lemma compare_refl : forall s, String.compare s s = Eq.
Proof. induction s as [|a s IH]; cbn; [reflexivity | rewrite ascii_compare_refl; exact IH]. Qed.

Lemma compare_le_trans : forall a b c,
  String.compare a b <> Gt -> String.compare b c <> Gt -> String.compare a c <> Gt.
Proof.
  induction a as [|x a IH]; intros b c H1 H2.
  - destruct c; cbn; discriminate.
  - destruct b as [|y b]; [cbn in H1; congruence|]. destruct c as [|z c]; [cbn in H2; congruence|].
    cbn in *. destruct (Ascii.compare x y) eqn:E1; destruct (Ascii.compare y z) eqn:E2; try congruence.
    + apply Ascii.compare_eq_iff in E1, E2. subst. rewrite ascii_compare_refl. eapply IH; eassumption.
    + apply Ascii.compare_eq_iff in E1. subst. rewrite E2. discriminate.
    + apply Ascii.compare_eq_iff in E2. subst. rewrite E1. discriminate.
    + rewrite (ascii_lt_trans _ _ _ E1 E2). discriminate.
Qed.

Lemma leb_trans : forall a b c, String.leb a b = true -> String.leb b c = true -> String.leb a c = true.
Proof.
  unfold String.leb. intros a b c H1 H2.
  assert (A : String.compare a b <> Gt) by (destruct (String.compare a b); congruence).
  assert (B : String.compare b c <> Gt) by (destruct (String.compare b c); congruence).
  pose proof (compare_le_trans _ _ _ A B) as C. destruct (String.compare a c); congruence.
Qed.

Lemma leb_refl : forall a, String.leb a a = true.
Proof. intros a. unfold String.leb. rewrite compare_refl. reflexivity. Qed.

Lemma ltb_leb_neq : forall a b, String.ltb a b = true <-> String.leb a b = true /\ a <> b.
Proof.
  intros a b. unfold String.ltb, String.leb. destruct (String.compare a b) eqn:E.
  - apply String.compare_eq_iff in E. split; [discriminate | intros [_ H]; contradiction].
  - split; [intros _; split; [reflexivity|] | reflexivity]. intros ->. rewrite compare_refl in E. discriminate.
  - split; [discriminate | intros [H _]; discriminate].
Qed.

(* ---------- sorting ---------- *)
Lemma insert_sorted_perm : forall x l, Permutation (insert_sorted x l) (x :: l).
Proof.
  induction l as [|y t IH]; cbn; [apply Permutation_refl|].
  destruct (String.leb x y); [apply Permutation_refl|].
  eapply Permutation_trans; [apply perm_skip; exact IH | apply perm_swap].
Qed.

Lemma sort_str_perm : forall l, Permutation (sort_str l) l.
Proof.
  induction l as [|x t IH]; cbn; [constructor|].
  eapply Permutation_trans; [apply insert_sorted_perm | apply perm_skip; exact IH].
Qed.

Lemma sort_str_in : forall l c, In c (sort_str l) <-> In c l.
Proof.
  intros l c. split; apply Permutation_in; [apply sort_str_perm | apply Permutation_sym, sort_str_perm].
Qed.

Lemma insert_sorted_sorted : forall x l, StronglySorted str_le l -> StronglySorted str_le (insert_sorted x l).
Proof.
  induction l as [|y t IH]; intros Hs; cbn.
  - constructor; constructor.
  - inversion Hs as [|? ? Ht Hy]; subst. destruct (String.leb x y) eqn:E.
    + constructor; [exact Hs|]. constructor; [exact E|].
      rewrite Forall_forall in *. intros z Hz. eapply leb_trans; [exact E | apply Hy; exact Hz].
    + constructor; [apply IH; exact Ht|]. rewrite Forall_forall in *. intros z Hz.
      apply (Permutation_in _ (insert_sorted_perm x t)) in Hz. destruct Hz as [<-|Hz]; [|apply Hy; exact Hz].
      destruct (String.leb_total x y) as [H|H]; [congruence | exact H].
Qed.

Lemma sort_str_sorted : forall l, StronglySorted str_le (sort_str l).
Proof. induction l as [|x t IH]; cbn; [constructor | apply insert_sorted_sorted; exact IH]. Qed.

Lemma sorted_perm_eq : forall l l', StronglySorted str_le l -> StronglySorted str_le l' -> Permutation l l' -> l = l'.
Proof.
  induction l as [|a l IH]; intros l' Hs Hs' Hp.
  - apply Permutation_nil in Hp. subst. reflexivity.
  - destruct l' as [|b l']; [apply Permutation_sym, Permutation_nil in Hp; discriminate|].
    inversion Hs as [|? ? Hl Ha]; subst. inversion Hs' as [|? ? Hl' Hb]; subst.
    rewrite Forall_forall in Ha, Hb.
    assert (Hab : a = b).
    { assert (In b (a :: l)) as [E|Hin] by (eapply Permutation_in; [apply Permutation_sym; exact Hp | left; reflexivity]);
        [exact E|].
      assert (In a (b :: l')) as [E|Hin'] by (eapply Permutation_in; [exact Hp | left; reflexivity]);
        [symmetry; exact E|].
      apply String.leb_antisym; [apply Ha; exact Hin | apply Hb; exact Hin']. }
    subst b. f_equal. apply IH; try assumption. eapply Permutation_cons_inv; exact Hp.
Qed.

Lemma sort_str_perm_eq : forall l l', Permutation l l' -> sort_str l = sort_str l'.
Proof.
  intros l l' H. apply sorted_perm_eq; try apply sort_str_sorted.
  eapply Permutation_trans; [apply sort_str_perm|]. eapply Permutation_trans; [exact H|].
  apply Permutation_sym, sort_str_perm.
Qed.

Lemma sorted_strict : forall l, NoDup l -> StronglySorted str_le l -> StronglySorted (fun a b => String.ltb a b = true) l.
Proof.
  induction l as [|a l IH]; intros Hn Hs; [constructor|].
  inversion Hn as [|? ? Hni Hn']; subst. inversion Hs as [|? ? Hl Ha]; subst.
  constructor; [apply IH; assumption|]. rewrite Forall_forall in *. intros z Hz.
  apply ltb_leb_neq. split; [apply Ha; exact Hz | intros ->; contradiction].
Qed.

Lemma strict_sorted_le : forall l, StronglySorted (fun a b => String.ltb a b = true) l -> StronglySorted str_le l /\ NoDup l.
Proof.
  induction l as [|a l IH]; intros Hs; [split; constructor|].
  inversion Hs as [|? ? Hl Ha]; subst. destruct (IH Hl) as [H1 H2]. rewrite Forall_forall in Ha. split.
  - constructor; [exact H1|]. rewrite Forall_forall. intros z Hz. apply (ltb_leb_neq a z), Ha, Hz.
  - constructor; [|exact H2]. intros Hin. apply Ha, ltb_leb_neq in Hin. destruct Hin as [_ Hne]. contradiction.
Qed.

(* two strictly sorted lists with the same elements are equal *)
Lemma strict_sorted_same : forall l l',
  StronglySorted (fun a b => String.ltb a b = true) l -> StronglySorted (fun a b => String.ltb a b = true) l' ->
  (forall c, In c l <-> In c l') -> l = l'.
Proof.
  intros l l' H H' Hin. destruct (strict_sorted_le _ H) as [S N]. destruct (strict_sorted_le _ H') as [S' N'].
  apply sorted_perm_eq; try assumption. apply NoDup_Permutation; assumption.
Qed.

Lemma alpha_sorted_l : forall sel, alphabetical (order_alpha sel) /\ Permutation (order_alpha sel) sel.
Proof. intros sel. split; [apply sort_str_sorted | apply sort_str_perm]. Qed.

Lemma alpha_order_independent_l : forall sel sel', Permutation sel sel' -> order_alpha sel = order_alpha sel'.
Proof. exact sort_str_perm_eq. Qed.

(* ---------- request order ---------- *)
Lemma NoDup_app_intro : forall (l1 l2 : list string), NoDup l1 -> NoDup l2 -> (forall x, In x l1 -> ~ In x l2) -> NoDup (l1 ++ l2).
Proof.
  induction l1 as [|a l1 IH]; intros l2 H1 H2 Hd; cbn; [exact H2|].
  inversion H1; subst. constructor.
  - rewrite in_app_iff. intros [H|H]; [contradiction | apply (Hd a); [left; reflexivity | exact H]].
  - apply IH; try assumption. intros x Hx. apply Hd. right. exact Hx.
Qed.

Lemma mem_str_in : forall x l, mem_str x l = true <-> In x l.
Proof.
  intros x l. unfold mem_str. rewrite existsb_exists. split.
  - intros [y [Hy E]]. apply String.eqb_eq in E. subst. exact Hy.
  - intros H. exists x. split; [exact H | apply String.eqb_refl].
Qed.

Lemma extend_new_in : forall block res c, In c (extend_new res block) <-> In c res \/ In c block.
Proof.
  induction block as [|b t IH]; intros res c; cbn; [tauto|]. rewrite IH. destruct (mem_str b res) eqn:E.
  - apply mem_str_in in E. split; [tauto|]. intros [H|[<-|H]]; auto.
  - rewrite in_app_iff. cbn. tauto.
Qed.

Lemma extend_new_nodup : forall block res, NoDup res -> NoDup (extend_new res block).
Proof.
  induction block as [|b t IH]; intros res H; cbn; [exact H|]. apply IH. destruct (mem_str b res) eqn:E; [exact H|].
  apply NoDup_app_intro; [exact H | constructor; [intros [] | constructor] |].
  intros x Hx [<-|[]]. apply mem_str_in in Hx. congruence.
Qed.

(* on a duplicate-free block the lazily evaluated generator is a plain filter *)
Lemma extend_new_filter : forall block res, NoDup block ->
  extend_new res block = res ++ filter (fun c => negb (mem_str c res)) block.
Proof.
  induction block as [|b t IH]; intros res Hn; cbn; [rewrite app_nil_r; reflexivity|].
  inversion Hn as [|? ? Hb Ht]; subst. destruct (mem_str b res) eqn:E; cbn.
  - apply IH, Ht.
  - rewrite (IH _ Ht), <- app_assoc. cbn. f_equal. f_equal. apply filter_ext_in. intros c Hc.
    f_equal. unfold mem_str. rewrite existsb_app. cbn. rewrite orb_false_r.
    destruct (String.eqb c b) eqn:Ecb; [apply String.eqb_eq in Ecb; subst; contradiction | apply orb_false_r].
Qed.

Definition ro_step (sel : list string) (r : list string) (f : string) : list string :=
  extend_new r (sort_str (filter (owns f) sel)).

Lemma order_request_unfold : forall iter sel, order_request iter sel = fold_left (ro_step sel) iter [].
Proof. reflexivity. Qed.

Lemma ro_fold_elements : forall sel l res c,
  In c (fold_left (ro_step sel) l res) <-> In c res \/ (In c sel /\ exists f, In f l /\ owns f c = true).
Proof.
  induction l as [|f t IH]; intros res c; cbn.
  - split; [auto|]. intros [H|[_ [f [[] _]]]]. exact H.
  - rewrite IH. unfold ro_step. rewrite extend_new_in, sort_str_in, filter_In. split.
    + intros [[H|[H1 H2]]|[H [g [Hg Ho]]]];
        [left; exact H | right; split; [exact H1 | exists f; auto] | right; split; [exact H | exists g; auto]].
    + intros [H|[H [g [[<-|Hg] Ho]]]]; [auto | left; right; auto | right; split; [exact H | exists g; auto]].
Qed.

Lemma order_request_elements : forall iter sel c,
  In c (order_request iter sel) <-> In c sel /\ exists f, In f iter /\ owns f c = true.
Proof.
  intros iter sel c. rewrite order_request_unfold, ro_fold_elements. split; [intros [[]|H]; exact H | auto].
Qed.

(* no column is returned twice, for all inputs *)
Lemma request_order_nodup_l : forall iter sel, NoDup (order_request iter sel).
Proof.
  intros iter sel. rewrite order_request_unfold.
  assert (G : forall l res, NoDup res -> NoDup (fold_left (ro_step sel) l res)).
  { induction l as [|f t IH]; intros res H; cbn; [exact H | apply IH, extend_new_nodup, H]. }
  apply G. constructor.
Qed.

Lemma filter_perm : forall (p : string -> bool) l l', Permutation l l' -> Permutation (filter p l) (filter p l').
Proof.
  intros p l l' H. induction H; cbn.
  - constructor.
  - destruct (p x); [constructor|]; assumption.
  - destruct (p x), (p y); try apply Permutation_refl. apply perm_swap.
  - eapply Permutation_trans; eassumption.
Qed.

Lemma order_request_sel_perm : forall iter sel sel', Permutation sel sel' -> order_request iter sel = order_request iter sel'.
Proof.
  intros iter sel sel' H. rewrite !order_request_unfold. generalize (@nil string) as res.
  induction iter as [|f t IH]; intros res; cbn; [reflexivity|]. rewrite IH. f_equal. unfold ro_step. f_equal.
  apply sort_str_perm_eq, filter_perm, H.
Qed.

Lemma strongly_sorted_filter : forall (R : string -> string -> Prop) p l,
  StronglySorted R l -> StronglySorted R (filter p l).
Proof.
  intros R p l H. induction H as [|a l Hl IH Ha]; cbn; [constructor|]. destruct (p a); [|exact IH].
  constructor; [exact IH|]. rewrite Forall_forall in *. intros x Hx. apply filter_In in Hx. apply Ha, Hx.
Qed.

Lemma block_in : forall cols iter f c, In f iter ->
  (In c (sort_str (filter (owns f) (select cols iter))) <-> wanted cols [f] c).
Proof.
  intros cols iter f c Hf. rewrite sort_str_in, filter_In, select_spec_l. unfold wanted. split.
  - intros [[Hc _] Ho]. split; [exact Hc|]. exists f. split; [left; reflexivity | apply owns_spec; exact Ho].
  - intros [Hc [g [[<-|[]] Ho]]]. split; [split; [exact Hc | exists f; split; assumption] | apply owns_spec; exact Ho].
Qed.

Lemma follows_gen : forall cols iter, NoDup cols ->
  forall l earlier res, (forall f, In f l -> In f iter) ->
  (forall c, In c res <-> In c (select cols iter) /\ exists g, In g earlier /\ owns g c = true) ->
  exists out, fold_left (ro_step (select cols iter)) l res = res ++ out /\ follows_from cols earlier l out.
Proof.
  intros cols iter Hn. set (sel := select cols iter).
  induction l as [|f t IH]; intros earlier res Hsub Hres; cbn.
  - exists []. split; [rewrite app_nil_r; reflexivity | constructor].
  - set (block := sort_str (filter (owns f) sel)).
    assert (Hnb : NoDup block).
    { eapply Permutation_NoDup; [apply Permutation_sym, sort_str_perm|]. apply NoDup_filter, select_nodup, Hn. }
    assert (Hf : In f iter) by (apply Hsub; left; reflexivity).
    set (b := filter (fun c => negb (mem_str c res)) block).
    assert (Estep : ro_step sel res f = res ++ b) by (unfold ro_step; fold block; apply extend_new_filter, Hnb).
    assert (Hb : forall c, In c b <-> In c block /\ ~ In c res).
    { intros c. unfold b. rewrite filter_In, negb_true_iff, <- not_true_iff_false, mem_str_in. tauto. }
    assert (Hblock : block_of cols earlier f b).
    { split.
      - unfold b. apply strongly_sorted_filter. apply sorted_strict; [exact Hnb | apply sort_str_sorted].
      - intros c. rewrite Hb. unfold block, sel. rewrite (block_in cols iter f c Hf), Hres. split.
        + intros [Hw Hnot]. split; [exact Hw|]. intros [g [Hg Ho]]. apply Hnot. split.
          * apply select_spec_l. destruct Hw as [Hc [h [[<-|[]] Hh]]]. split; [exact Hc | exists f; auto].
          * exists g. split; [exact Hg | apply owns_spec; exact Ho].
        + intros [Hw Hnot]. split; [exact Hw|]. intros [_ [g [Hg Ho]]]. apply Hnot. exists g.
          split; [exact Hg | apply owns_spec; exact Ho]. }
    destruct (IH (earlier ++ [f]) (res ++ b)) as [out [Eo Fo]].
    + intros g Hg. apply Hsub. right. exact Hg.
    + intros c. rewrite in_app_iff, Hb, Hres. unfold block. rewrite sort_str_in, filter_In. split.
      * intros [[Hs [g [Hg Ho]]]|[[Hs Ho] _]].
        -- split; [exact Hs|]. exists g. split; [apply in_or_app; left; exact Hg | exact Ho].
        -- split; [exact Hs|]. exists f. split; [apply in_or_app; right; left; reflexivity | exact Ho].
      * intros [Hs [g [Hg Ho]]]. apply in_app_or in Hg. destruct Hg as [Hg|[<-|[]]].
        -- left. split; [exact Hs | exists g; auto].
        -- destruct (mem_str c res) eqn:Em.
           ++ apply mem_str_in, Hres in Em. left. exact Em.
           ++ right. split; [split; assumption|]. intros Hin. apply Hres in Hin. apply mem_str_in in Hin. congruence.
    + exists (b ++ out). split; [rewrite Estep, Eo, app_assoc; reflexivity | constructor; assumption].
Qed.

Lemma request_order_follows_l : forall cols iter, NoDup cols ->
  follows_request cols iter (order_request iter (select cols iter)).
Proof.
  intros cols iter Hn. unfold follows_request. rewrite order_request_unfold.
  destruct (follows_gen cols iter Hn iter [] []) as [out [E F]].
  - auto.
  - intros c. split; [intros [] | intros [_ [g [[] _]]]].
  - rewrite E. exact F.
Qed.

Lemma follows_from_unique : forall cols earlier req out out',
  follows_from cols earlier req out -> follows_from cols earlier req out' -> out = out'.
Proof.
  intros cols earlier req out out' H. revert out'.
  induction H as [|earlier f req b out Hb H IH]; intros out' H'; inversion H' as [|? ? ? b' out'' Hb' H'']; subst.
  - reflexivity.
  - f_equal; [|apply IH; exact H'']. destruct Hb as [S I]. destruct Hb' as [S' I'].
    apply strict_sorted_same; try assumption. intros c. rewrite I, I'. reflexivity.
Qed.

Lemma follows_request_unique : forall cols req out out',
  follows_request cols req out -> follows_request cols req out' -> out = out'.
Proof. intros cols req out out'. apply follows_from_unique. Qed.

(* when no column is owned by two requested names, the blocks are simply each name's columns *)
Lemma follows_from_blocks_in : forall cols earlier req out, follows_from cols earlier req out ->
  forall c, In c out -> exists f, In f req /\ wanted cols [f] c.
Proof.
  intros cols earlier req out H. induction H as [|earlier f req b out Hb H IH]; intros c Hc; [destruct Hc|].
  apply in_app_or in Hc. destruct Hc as [Hc|Hc].
  - exists f. split; [left; reflexivity|]. apply Hb in Hc. tauto.
  - destruct (IH _ Hc) as [g [Hg Hw]]. exists g. split; [right; exact Hg | exact Hw].
Qed.

(* ---------- identify ---------- *)
Lemma identify_elements_l : forall iter cols o, o <> OInvalid ->
  forall c, In c (elements (identify iter cols o)) <-> wanted cols iter c.
Proof.
  intros iter cols o Ho c. rewrite <- select_spec_l. unfold identify.
  destruct (select cols iter) as [|x sel] eqn:E.
  - destruct o; cbn; tauto.
  - destruct o; cbn [elements]; try tauto; try congruence.
    + unfold order_alpha. apply sort_str_in.
    + rewrite order_request_elements. split; [tauto|]. intros H. split; [exact H|].
      rewrite <- E in H. unfold select in H. apply filter_In in H. destruct H as [_ H].
      apply existsb_exists in H. exact H.
Qed.

Lemma identify_err_l : forall iter cols o, identify iter cols o = RErr <-> o = OInvalid \/ select cols iter = [].
Proof.
  intros iter cols o. unfold identify. destruct (select cols iter) eqn:E; destruct o; split;
    try (intros [H|H]; congruence); try discriminate; auto.
Qed.

Lemma identify_alpha_l : forall iter cols out, identify iter cols OAlpha = RList out ->
  alphabetical out /\ Permutation out (select cols iter).
Proof.
  intros iter cols out. unfold identify. destruct (select cols iter) as [|x sel] eqn:E; [discriminate|].
  intros H. injection H as <-. exact (alpha_sorted_l (x :: sel)).
Qed.

Lemma identify_request_follows_l : forall iter cols out, NoDup cols ->
  identify iter cols ORequest = RList out -> follows_request cols iter out.
Proof.
  intros iter cols out Hn. unfold identify. destruct (select cols iter) as [|x sel] eqn:E; [discriminate|].
  intros H. injection H as <-. rewrite <- E. apply request_order_follows_l, Hn.
Qed.

Lemma identify_cols_perm_l : forall iter cols cols' o, Permutation cols cols' ->
  match identify iter cols o, identify iter cols' o with
  | RErr, RErr => True
  | RSet a, RSet b => Permutation a b
  | RList a, RList b => a = b
  | _, _ => False
  end.
Proof.
  intros iter cols cols' o Hp. pose proof (select_perm _ _ iter Hp) as Hs. unfold identify.
  destruct (select cols iter) as [|x sel] eqn:E; destruct (select cols' iter) as [|x' sel'] eqn:E'.
  - destruct o; exact I.
  - apply Permutation_nil in Hs. discriminate.
  - apply Permutation_sym, Permutation_nil in Hs. discriminate.
  - destruct o; try exact I; [exact Hs | apply alpha_order_independent_l, Hs | apply order_request_sel_perm, Hs].
Qed.

Lemma nodup_ab : NoDup ["a"; "b"].
Proof. constructor; [intros [H|[]]; discriminate | constructor; [intros [] | constructor]]. Qed.

Lemma request_order_refuted_l : exists req iter cols,
  Permutation iter req /\ NoDup req /\ NoDup cols /\
  ~ follows_request cols req (elements (identify iter cols ORequest)).
Proof.
  exists ["a"; "b"], ["b"; "a"], ["a"; "b"]. split; [apply perm_swap|]. split; [exact nodup_ab|]. split; [exact nodup_ab|].
  intros H. pose proof (request_order_follows_l ["a"; "b"] ["a"; "b"] nodup_ab) as H0.
  pose proof (follows_request_unique _ _ _ _ H H0) as E. vm_compute in E. discriminate E.
Qed.

(* ---------- sub-column names ---------- *)
Lemma base_feature_no_tilde : forall s, no_tilde (base_feature s).
Proof.
  induction s as [|c t IH]; cbn; [exact I|]. destruct (Ascii.eqb c "~") eqn:E; cbn; [exact I|].
  split; [apply Ascii.eqb_neq; exact E | exact IH].
Qed.

Lemma base_feature_split : forall s, s = base_feature s \/ exists r, s = (base_feature s ++ "~" ++ r)%string.
Proof.
  induction s as [|c t IH]; cbn; [left; reflexivity|]. destruct (Ascii.eqb c "~") eqn:E.
  - apply Ascii.eqb_eq in E. subst c. right. exists t. reflexivity.
  - destruct IH as [IH|[r IH]]; [left; f_equal; exact IH | right; exists r; cbn; f_equal; exact IH].
Qed.

Lemma base_feature_spec_l : forall s,
  no_tilde (base_feature s) /\ (s = base_feature s \/ exists r, s = (base_feature s ++ "~" ++ r)%string).
Proof. intros s. split; [apply base_feature_no_tilde | apply base_feature_split]. Qed.

Lemma base_feature_sub : forall f x, no_tilde f -> base_feature (f ++ "~" ++ x) = f.
Proof.
  induction f as [|c f IH]; intros x H; cbn; [reflexivity|]. destruct H as [Hc Hf].
  apply Ascii.eqb_neq in Hc. rewrite Hc. f_equal. apply IH, Hf.
Qed.

Lemma base_feature_id : forall f, no_tilde f -> base_feature f = f.
Proof.
  induction f as [|c f IH]; intros H; cbn; [reflexivity|]. destruct H as [Hc Hf].
  apply Ascii.eqb_neq in Hc. rewrite Hc. f_equal. apply IH, Hf.
Qed.

Lemma set_feature_name_keep_l : forall sup n, kf_subcolumn sup n = false -> set_feature_name sup n = n.
Proof. intros sup n H. unfold set_feature_name. unfold kf_subcolumn in H. rewrite H. reflexivity. Qed.

Lemma set_feature_name_norm_l : forall sup n, kf_subcolumn sup n = true -> set_feature_name sup n = base_feature n.
Proof. intros sup n H. unfold set_feature_name. unfold kf_subcolumn in H. rewrite H. reflexivity. Qed.

Lemma set_feature_name_plain_l : forall sup n, no_tilde n -> set_feature_name sup n = n.
Proof.
  intros sup n H. apply set_feature_name_keep_l. unfold kf_subcolumn. rewrite (base_feature_id _ H), String.eqb_refl.
  reflexivity.
Qed.

Lemma subcolumn_only_partial_l : forall sup n, kf_subcolumn sup n = false ->
  forall cols c, In c (select cols [set_feature_name sup n]) <-> In c cols /\ owner n c.
Proof.
  intros sup n H cols c. rewrite (set_feature_name_keep_l _ _ H), select_spec_l. unfold wanted. split.
  - intros [Hc [f [[<-|[]] Ho]]]. auto.
  - intros [Hc Ho]. split; [exact Hc|]. exists n. split; [left; reflexivity | exact Ho].
Qed.

Lemma subcolumn_refuted_l : exists sup n cols c,
  kf_subcolumn sup n = true /\ In c (select cols [set_feature_name sup n]) /\ ~ owner n c.
Proof.
  exists ["d"], "d~1", ["d~0"; "d~1"], "d~0". split; [reflexivity|]. split; [vm_compute; left; reflexivity|].
  intros [H|[s H]]; [discriminate H | cbn in H; discriminate H].
Qed.
