(* Proofs about Model/ArgsLinks.v: frame of the caller's Link objects, reuse of a polymorphic Link over any history. *)
From Coq Require Import List Bool ZArith String Arith Lia.
Import ListNotations.
Require Import MV.Model.LinkSel MV.Model.ArgsLinks.

Definition read_only (wb : writeback) : Prop := forall l lf rf, wb l lf rf = l.

Lemma wb_none_read_only : read_only wb_none.
Proof. intros l lf rf; reflexivity. Qed.

Section RO.
  Variable mro : cls -> list cls.
  Variable wb : writeback.
  Hypothesis RO : read_only wb.

  Lemma wr_ro : forall s m lf rf h i, wr wb s m lf rf i h = h.
  Proof.
    intros s m lf rf h; induction h as [|l t IH]; intros i; cbn [wr]; [reflexivity|].
    rewrite IH, RO. destruct (existsb (Nat.eqb i) s && link_in l m); reflexivity.
  Qed.

  Lemma resolve_pair_ro : forall s h p,
    resolve_pair mro wb s h p = (h, find_matching mro (map (lget h) s) (fst p) (snd p)).
  Proof.
    intros s h p; unfold resolve_pair. rewrite wr_ro. f_equal.
    rewrite (map_ext _ (fun l => l)) by (intros; apply RO). apply map_id.
  Qed.

  Lemma resolve_pairs_ro : forall s h ps,
    resolve_pairs mro wb s h ps = (h, map (fun p => find_matching mro (map (lget h) s) (fst p) (snd p)) ps).
  Proof.
    intros s h ps; induction ps as [|p t IH]; cbn [resolve_pairs map]; [reflexivity|].
    rewrite resolve_pair_ro, IH. reflexivity.
  Qed.

  Lemma eng_add_vals : forall h s a, map (lget h) (eng_add h s a) = vals_add (map (lget h) s) (lget h a).
  Proof.
    intros h s a; unfold eng_add, vals_add. destruct (link_in (lget h a) (map (lget h) s)); [reflexivity|].
    rewrite map_app; reflexivity.
  Qed.

  Lemma eng_fold_vals : forall h f s,
    map (lget h) (fold_left (eng_add h) f s) = fold_left vals_add (map (lget h) f) (map (lget h) s).
  Proof.
    intros h f; induction f as [|a t IH]; intros s; cbn [fold_left map]; [reflexivity|].
    rewrite IH, eng_add_vals; reflexivity.
  Qed.

  (* every call leaves every Link object of the store as it was *)
  Lemma links_frame_l : forall h c, fst (plan_links mro wb h c) = h.
  Proof.
    intros h c; unfold plan_links. destruct (validate_rejects _); [reflexivity|].
    rewrite resolve_pairs_ro; reflexivity.
  Qed.

  Lemma links_frame_history_l : forall cs h, run_calls mro wb h cs = h.
  Proof.
    intros cs; induction cs as [|c t IH]; intros h; cbn [run_calls fold_left]; [reflexivity|].
    rewrite links_frame_l. apply IH.
  Qed.

  (* the outcome of a call is a function of the VALUES of the Link objects it is given *)
  Lemma plan_links_reads_values_l : forall h c,
    snd (plan_links mro wb h c)
    = plan_vals mro (map (lget h) (lc_set c)) (map (lget h) (lc_feat c)) (lc_pairs c).
  Proof.
    intros h c; unfold plan_links, plan_vals. destruct (validate_rejects _); [reflexivity|].
    rewrite resolve_pairs_ro. cbn [snd]. unfold eng_set. rewrite eng_fold_vals. reflexivity.
  Qed.

  (* after any history, the same objects behave as ANY equal-valued objects in any store *)
  Lemma polymorphic_link_reuse_l : forall h0 pre c h' c',
    map (lget h') (lc_set c') = map (lget h0) (lc_set c) ->
    map (lget h') (lc_feat c') = map (lget h0) (lc_feat c) ->
    lc_pairs c' = lc_pairs c ->
    snd (plan_links mro wb (run_calls mro wb h0 pre) c) = snd (plan_links mro wb h' c').
  Proof.
    intros h0 pre c h' c' Hs Hf Hp. rewrite links_frame_history_l, !plan_links_reads_values_l, Hs, Hf, Hp. reflexivity.
  Qed.

  Lemma lget_shift : forall hp h l, map (lget (hp ++ h)) (map (Nat.add (List.length hp)) l) = map (lget h) l.
  Proof.
    intros hp h l; rewrite map_map. apply map_ext; intros a. unfold lget. apply app_nth2_plus.
  Qed.

  (* ... in particular as the call whose Link objects are allocated anew (fresh equal Links) behind the current store *)
  Lemma polymorphic_link_reuse_fresh_l : forall h0 pre c,
    let h := run_calls mro wb h0 pre in
    snd (plan_links mro wb h c) = snd (plan_links mro wb (h ++ h0) (shift_call (List.length h) c))
    /\ fst (plan_links mro wb h c) = h0.
  Proof.
    intros h0 pre c h. split.
    - unfold h. apply polymorphic_link_reuse_l; cbn [shift_call lc_set lc_feat lc_pairs];
        rewrite ?links_frame_history_l; try apply lget_shift; reflexivity.
    - unfold h. rewrite links_frame_l. apply links_frame_history_l.
  Qed.
End RO.

(* ---------- the in-place bind (seeded/C07_r6) ---------- *)
(* classes: 0 BaseA, 1 BaseB, 2 A1 <: BaseA, 3 B1 <: BaseB, 4 A2 <: BaseA, 5 B2 <: BaseB *)
Definition demo_hier : list (cls * list cls) :=
  [(2, [2; 0]); (3, [3; 1]); (4, [4; 0]); (5, [5; 1])]%nat.
Definition demo_link : link := {| jt := INNER; lfg := 0%nat; rfg := 1%nat; lidx := ["_idx"%string]; ridx := ["_idx"%string] |}.
Definition demo_call (a b : cls) : lcall := {| lc_set := [0%nat]; lc_feat := []; lc_pairs := [(a, b); (b, a)] |}.

Lemma inplace_bind_refuted_l :
  let mro := mro_of demo_hier in
  let c1 := demo_call 2%nat 3%nat in
  let c2 := demo_call 4%nat 5%nat in
  fst (plan_links mro wb_bind [demo_link] c1) <> [demo_link]
  /\ snd (plan_links mro wb_bind (run_calls mro wb_bind [demo_link] [c1]) c2) = LPlanned [[]; []]
  /\ snd (plan_links mro wb_bind [demo_link] c2)
     = LPlanned [[{| jt := INNER; lfg := 4%nat; rfg := 5%nat; lidx := ["_idx"%string]; ridx := ["_idx"%string] |}]; []]
  /\ snd (plan_links mro wb_none (run_calls mro wb_none [demo_link] [c1]) c2) = LPlanned [[demo_link]; []].
Proof. vm_compute. repeat split; try reflexivity. discriminate. Qed.

(* the model-level reason: a read-only resolver is NECESSARY -- any write-back that changes some matched link is observable *)
Lemma writeback_visible_l : forall mro (wb : writeback) l lf rf,
  validate_rejects [l] = false -> In l (find_matching mro [l] lf rf) -> wb l lf rf <> l ->
  fst (plan_links mro wb [l] {| lc_set := [0%nat]; lc_feat := []; lc_pairs := [(lf, rf)] |}) <> [l].
Proof.
  intros mro wb l lf rf Hv Hin Hw. unfold plan_links. cbn [lc_set lc_feat lc_pairs map lget nth eng_set fold_left].
  rewrite Hv. cbn [resolve_pairs resolve_pair fst snd map lget nth wr existsb Nat.eqb orb andb].
  assert (Hl : link_in l (find_matching mro [l] lf rf) = true).
  { unfold link_in. apply existsb_exists. exists l; split; [exact Hin|].
    unfold link_eqb. rewrite !Nat.eqb_refl.
    assert (Hj : jt_eqb (jt l) (jt l) = true) by (destruct (jt l); reflexivity).
    assert (Hi : forall i, idx_eqb i i = true) by (induction i; cbn; [reflexivity| rewrite String.eqb_refl; assumption]).
    rewrite Hj, !Hi. reflexivity. }
  rewrite Hl. cbn [fst]. intros E. inversion E. contradiction.
Qed.
