(* Source-text tie, C01/C04: the two tests of the polling loop regenerated from runtime/run.py (Gen/Src.v) are the tests
   Model/Orch.v's `visit` performs. *)
From Coq Require Import List Bool ZArith Arith.
Import ListNotations.
Require Import MV.Model.PySem MV.Gen.Src.
Require MV.Model.Orch.

Lemma py_in_mem : forall x l, py_in Nat.eqb x l = Orch.mem x l.
Proof. reflexivity. Qed.

Lemma py_issubset_subset : forall a b, py_issubset Nat.eqb a b = Orch.subset a b.
Proof. reflexivity. Qed.

Lemma is_step_done_src : forall uuids finished, Orch_is_step_done uuids finished = Orch.subset uuids finished.
Proof. reflexivity. Qed.

Lemma no_intersection_disjoint : forall a b, negb (py_nonempty (py_inter Nat.eqb a b)) = Orch.disjoint a b.
Proof.
  intros a b. unfold py_inter, Orch.disjoint. induction a as [|x a IH]; [reflexivity|].
  cbn [filter forallb]. rewrite py_in_mem. destruct (Orch.mem x b); cbn [negb andb py_nonempty]; [reflexivity|exact IH].
Qed.

Lemma can_run_step_src : forall req uuids finished running,
  fst (Orch_can_run_step req uuids finished running) = (Orch.subset req finished && Orch.disjoint uuids running)%bool.
Proof.
  intros. unfold Orch_can_run_step. rewrite no_intersection_disjoint, py_issubset_subset.
  destruct (Orch.subset req finished && Orch.disjoint uuids running)%bool; reflexivity.
Qed.

Lemma mem_app : forall x a b, Orch.mem x (a ++ b) = (Orch.mem x a || Orch.mem x b)%bool.
Proof. intros. unfold Orch.mem. apply existsb_app. Qed.

Lemma mem_diff : forall x a b, Orch.mem x (py_diff Nat.eqb a b) = (Orch.mem x a && negb (Orch.mem x b))%bool.
Proof.
  intros x a b. unfold py_diff, py_in, Orch.mem. induction a as [|y a IH]; [reflexivity|].
  cbn [filter existsb]. destruct (existsb (Nat.eqb y) b) eqn:Eyb; cbn [negb existsb]; rewrite IH;
    destruct (Nat.eqb x y) eqn:Exy; cbn [orb]; try reflexivity;
    apply Nat.eqb_eq in Exy; subst y; rewrite Eyb; cbn [negb andb]; rewrite ?andb_false_r; reflexivity.
Qed.

(* the set left in currently_running_steps, up to membership (a Python set is a list here) *)
Lemma can_run_step_running_src : forall req uuids finished running x,
  Orch.mem x (snd (Orch_can_run_step req uuids finished running))
  = Orch.mem x (if (Orch.subset req finished && Orch.disjoint uuids running)%bool then uuids ++ running else running).
Proof.
  intros. unfold Orch_can_run_step. rewrite no_intersection_disjoint, py_issubset_subset.
  destruct (Orch.subset req finished && Orch.disjoint uuids running)%bool; cbn [snd]; [|reflexivity].
  unfold py_union. rewrite !mem_app, mem_diff.
  destruct (Orch.mem x running), (Orch.mem x uuids); reflexivity.
Qed.

(* the same two tests, read off `visit`: a step that is neither finished nor running is started exactly when the source's
   _can_run_step says so, and `running` then holds what the source leaves in currently_running_steps *)
Lemma visit_uses_source_tests : forall inline fails st s,
  Orch_is_step_done (Orch.uuids s) (Orch.finished st) = false -> Orch.cur_running s st = false ->
  (fst (Orch_can_run_step (Orch.req s) (Orch.uuids s) (Orch.finished st) (Orch.running st)) = false ->
     Orch.visit inline fails st s = st) /\
  (fst (Orch_can_run_step (Orch.req s) (Orch.uuids s) (Orch.finished st) (Orch.running st)) = true ->
     forall x, Orch.mem x (Orch.running (Orch.visit inline fails st s))
               = Orch.mem x (snd (Orch_can_run_step (Orch.req s) (Orch.uuids s) (Orch.finished st) (Orch.running st)))).
Proof.
  intros inline fails st s Hd Hr. rewrite is_step_done_src in Hd.
  split; intros H.
  - rewrite can_run_step_src in H. unfold Orch.visit. rewrite Hd, Hr, H. reflexivity.
  - intros x. rewrite can_run_step_running_src. rewrite can_run_step_src in H.
    unfold Orch.visit. rewrite Hd, Hr, H. reflexivity.
Qed.
