(* Star requests, stage 1: link_trekker.data, get_ordered_data, the link queue and the planned queue - for every number of
   roots, every framework assignment, every Link set, every oracle. *)
From Coq Require Import List Bool Arith Lia Permutation String.
Import ListNotations.
Require Import MV.Model.Orch MV.Model.OrchCheck MV.Model.Grouping MV.Model.PlannerA MV.Model.LinkSel MV.Model.PlannerL.
Require Import MV.Spec.PlannerASpec MV.Spec.PlannerLSpec.
Require Import MV.Proofs.PlannerASets MV.Proofs.PlannerAOrder MV.Proofs.PlannerAGraph MV.Proofs.LinkSelP.
Require Import MV.Proofs.PlannerLBase MV.Proofs.PlannerLStar MV.Proofs.PlannerLStages.
Open Scope nat_scope.
Open Scope list_scope.

Lemma jt_eqb_refl : forall j, jt_eqb j j = true.
Proof. intros j. destruct j; reflexivity. Qed.
Lemma idx_eqb_refl : forall i, idx_eqb i i = true.
Proof. intros i. induction i as [|x i IH]; cbn; [reflexivity | rewrite String.eqb_refl, IH; reflexivity]. Qed.
Lemma link_eqb_refl : forall l, link_eqb l l = true.
Proof. intros l. unfold link_eqb. rewrite jt_eqb_refl, !Nat.eqb_refl, !idx_eqb_refl. reflexivity. Qed.
Lemma link_eqb_classes : forall a b, link_eqb a b = true -> lfg a = lfg b /\ rfg a = rfg b.
Proof.
  intros a b H. unfold link_eqb in H. apply andb_true_iff in H. destruct H as [H _]. apply andb_true_iff in H. destruct H as [H _].
  apply andb_true_iff in H. destruct H as [H Hr]. apply andb_true_iff in H. destruct H as [_ Hl].
  split; apply Nat.eqb_eq; assumption.
Qed.

Section StarData.
  Variables (ord : oparam) (mro : cls -> list cls) (links : list plink).
  Variables (rs : list sroot) (f C cc : nat) (ps : list nat).
  Hypothesis Hord : ord_ok ord.
  Hypothesis Hok : star_ok rs f C ps.
  Hypothesis Hlinks : links_ok links (f :: map sr_id rs).
  Hypothesis Hflat : flat_roots mro rs.
  Let g := star_g rs f C cc ps.

  Lemma g_grp_root : forall r, In r rs -> grp_of g (sr_id r) = sr_grp r. Proof. exact (star_grp_root rs f C cc ps Hok). Qed.
  Lemma g_cfw_root : forall r, In r rs -> cfw_of g (sr_id r) = sr_cfw r. Proof. exact (star_cfw_root rs f C cc ps Hok). Qed.
  Lemma g_grp_f : grp_of g f = C. Proof. exact (star_grp_f rs f C cc ps). Qed.
  Lemma g_members_root : forall r, In r rs -> members g (queue_of g) (sr_grp r) = [sr_id r]. Proof. exact (star_members_root rs f C cc ps Hok). Qed.
  Lemma g_members_C : members g (queue_of g) C = [f]. Proof. exact (star_members_C rs f C cc ps Hok). Qed.
  Lemma g_queue : queue_of g = ps ++ [f]. Proof. exact (star_queue rs f C cc ps Hok). Qed.
  Lemma g_p2c : p2c_of g = [(f, ps)]. Proof. exact (star_p2c rs f C cc ps Hok). Qed.

  Definition pso : list nat := ord (site_par f) ps.

  Lemma pso_In : forall p, In p pso <-> In p ps.
  Proof. intros p. apply ord_In. exact Hord. Qed.
  Lemma pso_nodup : NoDup pso.
  Proof. apply (Permutation_NoDup (Permutation_sym (Hord (site_par f) ps))). exact (ps_nodup rs f C ps Hok). Qed.

  (* ---------- list(self.links) and _find_matching_links on root classes ---------- *)
  Lemma plink_of_In : forall l, In l links -> plink_of links (pl_uid l) = Some l.
  Proof.
    intros l Hl. destruct Hlinks as (Hnd & _). unfold plink_of. clear - Hnd Hl.
    induction links as [|x t IH]; [destruct Hl|]. cbn in Hnd. apply NoDup_cons_iff in Hnd. destruct Hnd as [Hx Hnd].
    cbn [find]. destruct (Nat.eqb (pl_uid x) (pl_uid l)) eqn:E.
    - apply Nat.eqb_eq in E. destruct Hl as [Hl|Hl]; [subst x; reflexivity|].
      exfalso. apply Hx. rewrite E. apply in_map. exact Hl.
    - destruct Hl as [Hl|Hl]; [subst x; rewrite Nat.eqb_refl in E; discriminate | apply IH; assumption].
  Qed.
  Lemma plink_of_Some : forall u l, plink_of links u = Some l -> In l links /\ pl_uid l = u.
  Proof.
    intros u l H. unfold plink_of in H. apply find_some in H. destruct H as [H E]. apply Nat.eqb_eq in E. split; assumption.
  Qed.

  Lemma links_iter_In : forall l, In l (links_iter ord links) <-> In l links.
  Proof.
    intros l. unfold links_iter. rewrite in_flat_map. split.
    - intros [u [Hu Hl]]. destruct (plink_of links u) as [l'|] eqn:E; [|destruct Hl].
      destruct Hl as [Hl|[]]. subst l'. apply plink_of_Some in E. apply E.
    - intros Hl. exists (pl_uid l). split.
      + apply (ord_In ord _ _ _ Hord). apply in_map. exact Hl.
      + rewrite (plink_of_In l Hl). left. reflexivity.
  Qed.

  Lemma issub_flat : forall r p, In r rs -> issub mro (sr_grp r) p = Nat.eqb p (sr_grp r).
  Proof. intros r p Hr. unfold issub. rewrite (Hflat r Hr). cbn [existsb]. apply orb_false_r. Qed.

  Lemma find_matching_flat : forall L ri rj, In ri rs -> In rj rs ->
    find_matching mro L (sr_grp ri) (sr_grp rj) = filter (fun l => matches_exact l (sr_grp ri) (sr_grp rj)) L.
  Proof.
    intros L ri rj Hi Hj. unfold find_matching.
    destruct (filter (fun l => matches_exact l (sr_grp ri) (sr_grp rj)) L) as [|e es] eqn:E; [|reflexivity].
    assert (Hp : filter (fun l => matches_poly mro l (sr_grp ri) (sr_grp rj)) L = []).
    { rewrite <- E. apply filter_ext. intros l. unfold matches_poly, matches_exact.
      rewrite (issub_flat ri _ Hi), (issub_flat rj _ Hj). reflexivity. }
    rewrite Hp. reflexivity.
  Qed.

  Lemma matched_In : forall ri rj ml, In ri rs -> In rj rs ->
    (In ml (matched ord mro links (sr_grp ri) (sr_grp rj)) <->
     In ml links /\ lfg (pl_l ml) = sr_grp ri /\ rfg (pl_l ml) = sr_grp rj).
  Proof.
    intros ri rj ml Hi Hj. unfold matched. rewrite (find_matching_flat _ ri rj Hi Hj). rewrite filter_In, links_iter_In. split.
    - intros [Hl Hex]. split; [exact Hl|]. apply existsb_exists in Hex. destruct Hex as [m [Hm Em]].
      apply filter_In in Hm. destruct Hm as [_ Hm]. unfold matches_exact in Hm. apply andb_true_iff in Hm.
      destruct Hm as [H1 H2]. apply Nat.eqb_eq in H1, H2. destruct (link_eqb_classes _ _ Em) as [E1 E2]. split; congruence.
    - intros [Hl [E1 E2]]. split; [exact Hl|]. apply existsb_exists. exists (pl_l ml). split; [|apply link_eqb_refl].
      apply filter_In. split.
      + apply in_map. apply links_iter_In. exact Hl.
      + unfold matches_exact. rewrite E1, E2, !Nat.eqb_refl. reflexivity.
  Qed.

  Lemma matched_nodup : forall lf rf, NoDup (matched ord mro links lf rf).
  Proof.
    intros lf rf. unfold matched. apply NoDup_filter. unfold links_iter.
    assert (Hnd : NoDup (ord site_links (map pl_uid links))).
    { apply (Permutation_NoDup (Permutation_sym (Hord _ _))). apply Hlinks. }
    revert Hnd. generalize (ord site_links (map pl_uid links)). intros us. induction us as [|u us IH]; intros Hnd; cbn [flat_map]; [constructor|].
    apply NoDup_cons_iff in Hnd. destruct Hnd as [Hu Hnd]. destruct (plink_of links u) as [l|] eqn:E; [|apply IH; exact Hnd].
    cbn [app]. constructor; [|apply IH; exact Hnd]. intros Hin. apply in_flat_map in Hin. destruct Hin as [u' [Hu' Hl]].
    destruct (plink_of links u') as [l'|] eqn:E'; [|destruct Hl]. destruct Hl as [Hl|[]]. subst l'.
    apply plink_of_Some in E, E'. destruct E as [_ E], E' as [_ E']. apply Hu. congruence.
  Qed.

  (* ---------- go_through_each_child_and_its_parents_and_look_for_links ---------- *)
  Definition key_for (pin pout : nat) (ml : plink) : lkey := (pl_uid ml, (cfw_of g pin, cfw_of g pout)).
  Definition adds : list lkey :=
    flat_map (fun pin => flat_map (fun pout =>
        if Nat.eqb pin pout then [] else map (key_for pin pout) (matched ord mro links (grp_of g pin) (grp_of g pout))) pso) pso.
  Definition ks : list lkey := kdedupe adds.

  Lemma star_trek_data : links <> [] -> trek_data ord g mro links = tsingle f ks.
  Proof.
    intros Hne. unfold trek_data. destruct links as [|l0 lt] eqn:El; [contradiction|]. rewrite <- El.
    rewrite g_p2c. cbn [fold_left]. unfold trek_child. cbn [fst snd]. fold pso.
    unfold ks, adds. change (@nil (lkey * list nat)) with (tsingle f []).
    rewrite <- (fold_tadd_tsingle f _ []). fold (kdedupe adds).
    rewrite fold_left_flat_map. apply fold_left_ext. intros d1 pin.
    rewrite fold_left_flat_map. apply fold_left_ext. intros d2 pout.
    unfold trek_pair. destruct (Nat.eqb pin pout); [reflexivity|].
    rewrite fold_left_map. reflexivity.
  Qed.

  Lemma ks_nodup : NoDup ks.
  Proof. apply kdedupe_nodup. Qed.

  Lemma ks_In : forall k, In k ks <->
    exists l ri rj, In l links /\ needed_by rs l ri rj /\ k = (pl_uid l, (sr_cfw ri, sr_cfw rj)).
  Proof.
    intros k. unfold ks. rewrite kdedupe_In. unfold adds. rewrite in_flat_map. split.
    - intros [pin [Hpin Hk]]. apply in_flat_map in Hk. destruct Hk as [pout [Hpout Hk]].
      destruct (Nat.eqb pin pout) eqn:E; [destruct Hk|]. apply in_map_iff in Hk. destruct Hk as [ml [Ek Hml]].
      apply pso_In in Hpin, Hpout. apply (in_ps_root rs f C ps Hok) in Hpin, Hpout.
      destruct Hpin as [ri [Hri Ei]], Hpout as [rj [Hrj Ej]]. subst pin pout.
      rewrite (g_grp_root ri Hri), (g_grp_root rj Hrj) in Hml.
      apply (matched_In ri rj ml Hri Hrj) in Hml. destruct Hml as [Hl [E1 E2]].
      exists ml, ri, rj. split; [exact Hl|]. split; [repeat split; assumption|]. subst k. unfold key_for.
      rewrite (g_cfw_root ri Hri), (g_cfw_root rj Hrj). reflexivity.
    - intros [l [ri [rj [Hl [[Hri [Hrj [E1 E2]]] Ek]]]]].
      assert (Hne : sr_id ri <> sr_id rj).
      { intros E. pose proof (root_by_id_unique rs f C ps Hok ri rj Hri Hrj E). subst rj.
        destruct Hlinks as (_ & _ & _ & Hself & _). apply (Hself l Hl). congruence. }
      exists (sr_id ri). split; [apply pso_In; apply (in_ps_root rs f C ps Hok); exists ri; split; [exact Hri | reflexivity]|].
      apply in_flat_map. exists (sr_id rj). split; [apply pso_In; apply (in_ps_root rs f C ps Hok); exists rj; split; [exact Hrj | reflexivity]|].
      apply Nat.eqb_neq in Hne. rewrite Hne. apply in_map_iff. exists l. split.
      + subst k. unfold key_for. rewrite (g_cfw_root ri Hri), (g_cfw_root rj Hrj). reflexivity.
      + rewrite (g_grp_root ri Hri), (g_grp_root rj Hrj).
        apply (matched_In ri rj l Hri Hrj). repeat split; assumption.
  Qed.

  (* a needed Link determines its two roots *)
  Lemma needed_unique : forall l ri rj ri' rj', needed_by rs l ri rj -> needed_by rs l ri' rj' -> ri = ri' /\ rj = rj'.
  Proof.
    intros l ri rj ri' rj' (H1 & H2 & E1 & E2) (H1' & H2' & E1' & E2'). split.
    - apply (root_by_grp_unique rs f C ps Hok); [assumption | assumption | congruence].
    - apply (root_by_grp_unique rs f C ps Hok); [assumption | assumption | congruence].
  Qed.

  (* one trekker key per needed Link: the link uuids of the keys are distinct *)
  Lemma ks_uids_nodup : NoDup (map k_uid ks).
  Proof.
    pose proof ks_nodup as Hnd. assert (Hin : forall k, In k ks -> In k ks) by auto. revert Hnd Hin.
    generalize ks at 1 2 4. intros l. induction l as [|k l IH]; intros Hnd Hin; cbn [map]; [constructor|].
    apply NoDup_cons_iff in Hnd. destruct Hnd as [Hk Hnd]. constructor.
    - intros Hu. apply in_map_iff in Hu. destruct Hu as [k' [Eu Hk']]. apply Hk.
      assert (E : k' = k); [|subst k'; exact Hk'].
      destruct (proj1 (ks_In k) (Hin k (or_introl eq_refl))) as [a [ri [rj [Ha [Hn Ek]]]]].
      destruct (proj1 (ks_In k') (Hin k' (or_intror Hk'))) as [a' [ri' [rj' [Ha' [Hn' Ek']]]]].
      subst k k'. unfold k_uid in Eu. cbn [fst] in Eu.
      assert (Ea : a' = a).
      { destruct Hlinks as (Hnd' & _). exact (nodup_map_inj plink pl_uid links Hnd' a' a Ha' Ha Eu). }
      subst a'. destruct (needed_unique a ri rj ri' rj' Hn Hn') as [-> ->]. reflexivity.
    - apply IH; [exact Hnd | intros x Hx; apply Hin; right; exact Hx].
  Qed.

  Lemma ks_plink : forall k, In k ks -> exists l, plink_of links (k_uid k) = Some l /\ In l links.
  Proof.
    intros k Hk. apply ks_In in Hk. destruct Hk as [l [ri [rj [Hl [_ Ek]]]]]. exists l. subst k. unfold k_uid. cbn [fst].
    split; [apply plink_of_In; exact Hl | exact Hl].
  Qed.

  (* ---------- the queue stages ---------- *)
  Lemma star_link_queue : link_queue (queue_of g) (tsingle f ks) = map QF ps ++ map QL ks ++ [QF f].
  Proof.
    rewrite g_queue. apply link_queue_single_child; [exact (f_notin_ps rs f C ps Hok) | exact ks_nodup].
  Qed.

  Definition pg_root (p : nat) : pitem := PG (grp_of g p) [p].

  Lemma star_planned_queue : planned_queue_L g (queue_of g) (map QF ps ++ map QL ks ++ [QF f])
                             = map pg_root ps ++ map PL ks ++ [PG C [f]].
  Proof.
    unfold planned_queue_L.
    set (step := fun (st : list nat * list pitem) it =>
           match it with
           | QL k => (fst st, snd st ++ [PL k])
           | QF u => if mem u (fst st) then st
                     else let ms := members g (queue_of g) (grp_of g u) in (fst st ++ ms, snd st ++ [PG (grp_of g u) ms])
           end).
    assert (H1 : forall l vis out, incl l ps -> NoDup l -> (forall x, In x l -> ~ In x vis) ->
              fold_left step (map QF l) (vis, out) = (vis ++ l, out ++ map pg_root l)).
    { intros l. induction l as [|p l IH]; intros vis out Hsub Hnd Hvis; cbn [map fold_left].
      - rewrite !app_nil_r. reflexivity.
      - apply NoDup_cons_iff in Hnd. destruct Hnd as [Hp Hnd].
        assert (Hm : mem p vis = false) by (apply mem_false; apply Hvis; left; reflexivity).
        unfold step at 2. cbn [fst snd]. rewrite Hm.
        assert (Hpr : In p ps) by (apply Hsub; left; reflexivity). apply (in_ps_root rs f C ps Hok) in Hpr. destruct Hpr as [r [Hr Er]]. subst p.
        cbv zeta. rewrite (g_grp_root r Hr). rewrite (g_members_root r Hr).
        rewrite IH.
        + rewrite <- !app_assoc. cbn [app map]. unfold pg_root at 2. rewrite (g_grp_root r Hr). reflexivity.
        + intros y Hy. apply Hsub. right. exact Hy.
        + exact Hnd.
        + intros x Hx Hin. apply in_app_iff in Hin. destruct Hin as [Hin|[E|[]]]; [exact (Hvis x (or_intror Hx) Hin) | subst x; contradiction]. }
    assert (H2 : forall l vis out, fold_left step (map QL l) (vis, out) = (vis, out ++ map PL l)).
    { intros l. induction l as [|k l IH]; intros vis out; cbn [map fold_left]; [rewrite app_nil_r; reflexivity|].
      unfold step at 2. cbn [fst snd]. rewrite IH, <- app_assoc. reflexivity. }
    rewrite !fold_left_app. rewrite H1; [|apply incl_refl | exact (ps_nodup rs f C ps Hok) | intros x _ []].
    rewrite H2. cbn [fold_left app]. unfold step. cbn [fst snd].
    assert (Hm : mem f ps = false) by (apply mem_false; exact (f_notin_ps rs f C ps Hok)). rewrite Hm.
    cbv zeta. rewrite g_grp_f, g_members_C. cbn [snd]. rewrite <- app_assoc. reflexivity.
  Qed.
End StarData.
