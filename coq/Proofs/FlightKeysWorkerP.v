(* The runs of the protocol model (Model/Worker.v) are runs of the key model (Model/FlightKeys.v): whatever keys `kap` gives the
   objects of a run (new ones, or plan-derived ones that earlier runs of the session used as well),
     - every store action of a worker concerns the key of an object in `tasks`,
     - a run that exits through a finally block whose first statement did not raise and whose final drop did not raise has
       carried out exactly one sweep, successfully, as its last action,
   hence on a store that outlives the run it leaves what it found minus the keys of its own objects.  Worker.v's run-local
   `flight` is the key model's store started empty. *)
From Coq Require Import List Bool Arith Lia.
Import ListNotations.
Require Import MV.Model.Orch MV.Proofs.OrchP MV.Model.Worker MV.Spec.WorkerSpec MV.Proofs.WorkerP MV.Proofs.WorkerExitP.
Require Import MV.Model.Session MV.Model.FlightKeys MV.Spec.FlightKeysSpec MV.Proofs.FlightKeysP MV.Proofs.WorkerWitP.

Section Bridge.
  Variable c : cfg.
  Variable kap : nat -> nat.
  Notation p := (cplan c).

  Ltac des S := repeat (dm S; try discriminate S).

  Lemma exec_app : forall tr1 tr2 st, Worker.exec c st (tr1 ++ tr2) = match Worker.exec c st tr1 with Some st1 => Worker.exec c st1 tr2 | None => None end.
  Proof.
    induction tr1 as [|l t IH]; intros tr2 st; [reflexivity|]. cbn. destruct (step c st l); [apply IH | reflexivity].
  Qed.

  (* ---- tasks only grow ---- *)
  Lemma step_tasks_incl : forall st l st', step c st l = Some st' -> incl (tasks st) (tasks st').
  Proof.
    intros st l st' S. destruct (is_worker_label l) eqn:Hl.
    { destruct (worker_step_shape c st l st' Hl S) as [w (_ & _ & Et & _)]. rewrite Et. apply incl_refl. }
    destruct l; try discriminate Hl; cbn in S;
      try (des S; inv_some S; cbn; apply incl_refl).
    - (* OExec *)
      destruct (pc st) eqn:Epc; try discriminate S. destruct (nth_error p i) as [s|]; [|discriminate S].
      destruct (negb (is_fin s (o st)) && negb (cur_running s (o st)) && can_run s (o st)); [|discriminate S].
      destruct ok; [|inv_some S; cbn; apply incl_refl].
      unfold submit in S. destruct (mp c); [destruct (spawned (phase (ws st (wof c (sid s)))))|]; inv_some S; cbn;
        first [apply incl_refl | apply incl_appl, incl_refl].
    - (* OSendFail *)
      des S; inv_some S; cbn; first [apply incl_refl | apply incl_appl, incl_refl].
  Qed.

  Lemma exec_tasks_incl : forall tr st st', Worker.exec c st tr = Some st' -> incl (tasks st) (tasks st').
  Proof.
    induction tr as [|l t IH]; intros st st' E; cbn in E; [inversion E; apply incl_refl|].
    destruct (step c st l) as [st1|] eqn:S; [|discriminate]. eapply incl_tran; [eapply step_tasks_incl; eauto | eapply IH; eauto].
  Qed.

  Lemma exec_FInv : forall tr st st', FInv c st -> Worker.exec c st tr = Some st' -> FInv c st'.
  Proof.
    induction tr as [|l t IH]; intros st st' F E; cbn in E; [inversion E; subst; exact F|].
    destruct (step c st l) as [st1|] eqn:S; [|discriminate]. eapply IH; [eapply step_FInv; eauto | exact E].
  Qed.

  (* ---- every store action of a worker is about the key of a live worker, i.e. of an object in tasks ---- *)
  Lemma sev_of_alive : forall st l st' e, step c st l = Some st' -> In e (sev_of kap c st l) ->
    exists w, sev_key e = kap w /\ alive (phase (ws st w)) = true.
  Proof.
    intros st l st' e S H. destruct l; cbn in H; try contradiction.
    - destruct (phase (ws st w)) eqn:Eph; try contradiction. destruct (mp c); [|contradiction]. destruct H as [<-|[]].
      exists w. rewrite Eph. split; reflexivity.
    - destruct last; [|contradiction]. destruct dropped; [|contradiction]. destruct H as [<-|[]]. exists w. split; [reflexivity|].
      cbn in S. destruct (phase (ws st w)); try discriminate S. reflexivity.
  Qed.

  Lemma sevs_in_tasks : forall tr st st', FInv c st -> Worker.exec c st tr = Some st' -> evs_in (map kap (tasks st')) (sevs kap c st tr).
  Proof.
    induction tr as [|l t IH]; intros st st' F E e H; cbn in *; [contradiction|].
    destruct (step c st l) as [st1|] eqn:S; [|discriminate]. apply in_app_or in H. destruct H as [H|H].
    - destruct (sev_of_alive st l st1 e S H) as [w [Ek A]]. rewrite Ek. apply in_map.
      destruct F as (F1 & _). apply (exec_tasks_incl (l :: t) st st'); [cbn; rewrite S; exact E|]. apply F1, alive_spawned, A.
    - eapply IH; [eapply step_FInv; eauto | exact E | exact H].
  Qed.

  (* ---- how a run ends ---- *)
  Lemma exited_step : forall st l st' x, step c st l = Some st' -> pc st' = PExited x -> x <> XFinallyCrash ->
    pc st = PExited x \/ (exists ok, l = ODropAll ok /\ pc st = PDrop x).
  Proof.
    intros st l st' x S E Hx. destruct (is_worker_label l) eqn:Hl.
    { destruct (worker_step_shape c st l st' Hl S) as [w (_ & Epc & _)]. left. congruence. }
    destruct l; try discriminate Hl; cbn in S.
    all: try solve [des S; inv_some S; cbn in E; discriminate E].
    - (* OExec *)
      destruct (pc st) eqn:Epc; try discriminate S. destruct (nth_error p i) as [s|]; [|discriminate S].
      destruct (negb (is_fin s (o st)) && negb (cur_running s (o st)) && can_run s (o st)); [|discriminate S].
      destruct ok; [|inv_some S; cbn in E; discriminate E].
      unfold submit in S. destruct (mp c); [destruct (spawned (phase (ws st (wof c (sid s)))))|]; inv_some S; cbn in E; discriminate E.
    - (* OArtifacts *) des S; inv_some S; cbn in E; try discriminate E. inversion E. subst x. contradiction.
    - (* ODropAll *) destruct (pc st) eqn:Epc; try discriminate S. right. exists ok. split; [reflexivity|].
      destruct (mp c); [destruct ok|destruct ok; [|discriminate S]]; inv_some S; cbn in E; inversion E; reflexivity.
  Qed.

  Lemma exited_absorbing_step : forall st l st' x, step c st l = Some st' -> pc st = PExited x -> pc st' = PExited x.
  Proof.
    intros st l st' x S E. destruct (is_worker_label l) eqn:Hl.
    { destruct (worker_step_shape c st l st' Hl S) as [w (_ & Epc & _)]. congruence. }
    destruct l; try discriminate Hl; cbn in S; rewrite E in S; discriminate S.
  Qed.

  Lemma exited_absorbing : forall tr st st' x, Worker.exec c st tr = Some st' -> pc st = PExited x -> pc st' = PExited x.
  Proof.
    induction tr as [|l t IH]; intros st st' x E H; cbn in E; [inversion E; subst; exact H|].
    destruct (step c st l) as [st1|] eqn:S; [|discriminate]. eapply IH; [exact E | eapply exited_absorbing_step; eauto].
  Qed.

  Lemma dropall_exits : forall st ok st', step c st (ODropAll ok) = Some st' -> exists x, pc st' = PExited x.
  Proof.
    intros st ok st' S. cbn in S. destruct (pc st); try discriminate S.
    destruct (mp c); [destruct ok|destruct ok; [|discriminate S]]; inv_some S; eexists; reflexivity.
  Qed.

  Lemma no_dropall_before : forall tr st st', Worker.exec c st tr = Some st' -> (forall x, pc st' <> PExited x) ->
    forall ok, ~ In (ODropAll ok) tr.
  Proof.
    induction tr as [|l t IH]; intros st st' E Hn ok H; [destruct H|]. cbn in E.
    destruct (step c st l) as [st1|] eqn:S; [|discriminate]. destruct H as [->|H].
    - destruct (dropall_exits st ok st1 S) as [x Hx]. apply (Hn x). eapply exited_absorbing; eauto.
    - exact (IH st1 st' E Hn ok H).
  Qed.

  Lemma sweep_of_snoc : forall tr ok, (forall ok', ~ In (ODropAll ok') tr) -> sweep_of (tr ++ [ODropAll ok]) = Some ok.
  Proof.
    induction tr as [|l t IH]; intros ok H; [reflexivity|].
    assert (Ht : forall ok', ~ In (ODropAll ok') t) by (intros ok' X; apply (H ok'); right; exact X).
    destruct l; cbn; try (apply IH, Ht). exfalso. apply (H ok0). left. reflexivity.
  Qed.

  Lemma sweep_of_none : forall tr, (forall ok, ~ In (ODropAll ok) tr) -> sweep_of tr = None.
  Proof.
    induction tr as [|l t IH]; intros H; [reflexivity|].
    assert (Ht : forall ok', ~ In (ODropAll ok') t) by (intros ok' X; apply (H ok'); right; exact X).
    destruct l; cbn; try (apply IH, Ht). exfalso. apply (H ok). left. reflexivity.
  Qed.

  (* a run that has exited (not through a crashed finally block) did so by ONE sweep, its last action *)
  Lemma exit_decompose : forall tr st x, Worker.exec c pinit tr = Some st -> pc st = PExited x -> x <> XFinallyCrash ->
    exists tr' st' ok, tr = tr' ++ [ODropAll ok] /\ Worker.exec c pinit tr' = Some st' /\ pc st' = PDrop x /\
                       step c st' (ODropAll ok) = Some st /\ (forall ok', ~ In (ODropAll ok') tr').
  Proof.
    intros tr st x E Hpc Hx. destruct (@exists_last _ tr) as [tr' [l ->]].
    { intros ->. cbn in E. inversion E; subst. discriminate Hpc. }
    rewrite exec_app in E. destruct (Worker.exec c pinit tr') as [st'|] eqn:E'; [|discriminate]. cbn in E.
    destruct (step c st' l) as [st2|] eqn:S; [|discriminate]. inversion E; subst st2.
    destruct (exited_step st' l st x S Hpc Hx) as [H|[ok [-> H]]].
    - exfalso. assert (R : reach c st') by (exists tr'; exact E').
      rewrite (exited_terminal_l c st' x l R H Hx) in S. discriminate.
    - exists tr', st', ok. repeat split; auto. eapply no_dropall_before; [exact E'|]. intros y Hy. congruence.
  Qed.

  Lemma dropall_facts : forall st ok st', step c st (ODropAll ok) = Some st' -> mp c = true ->
    tasks st' = tasks st /\ (ok = false -> dropfail st' = true).
  Proof.
    intros st ok st' S Em. cbn in S. destruct (pc st); try discriminate S. rewrite Em in S.
    destruct ok; inv_some S; cbn; split; auto; discriminate.
  Qed.

  Lemma sevs_app : forall tr1 tr2 st st1, Worker.exec c st tr1 = Some st1 -> sevs kap c st (tr1 ++ tr2) = sevs kap c st tr1 ++ sevs kap c st1 tr2.
  Proof.
    induction tr1 as [|l t IH]; intros tr2 st st1 E; cbn in *; [inversion E; reflexivity|].
    destruct (step c st l) as [st2|] eqn:S; [|discriminate]. rewrite <- app_assoc. f_equal. apply IH, E.
  Qed.

  Variable stab : list nat.

  Lemma run_of_keys : forall tr st k, In k (r_keys (run_of kap stab c tr st)) <-> In k (map kap (tasks st)).
  Proof.
    intros tr st k. unfold r_keys, run_of; cbn. rewrite in_app_iff, !filter_In. split.
    - intros [[X _]|[X _]]; exact X.
    - intros X. destruct (mem k stab) eqn:E; [right | left]; split; auto.
  Qed.

  (* every protocol trace: the workers' store actions concern keys of the run's objects *)
  Lemma worker_run_body_ok_l : forall tr st, Worker.exec c pinit tr = Some st -> body_okb (run_of kap stab c tr st) = true.
  Proof.
    intros tr st E. apply body_okb_spec. intros e H. apply run_of_keys.
    exact (sevs_in_tasks tr pinit st (FInv_init c) E e H).
  Qed.

  (* every exit path but the two recorded ones: the run has swept, successfully *)
  Lemma worker_run_swept_l : forall tr st x, Worker.exec c pinit tr = Some st -> pc st = PExited x -> x <> XFinallyCrash ->
    mp c = true -> dropfail st = false -> r_sweep (run_of kap stab c tr st) = Some true.
  Proof.
    intros tr st x E Hpc Hx Em Hd. destruct (exit_decompose tr st x E Hpc Hx) as (tr' & st' & ok & -> & E' & Hp' & S & Hn).
    cbn. rewrite sweep_of_snoc by exact Hn. destruct ok; [reflexivity|].
    destruct (dropall_facts st' false st S Em) as [_ D]. rewrite D in Hd by reflexivity. discriminate.
  Qed.


  (* on a store that outlives the run: what it held before, minus the keys of the run's objects - for EVERY key assignment,
     in particular when some of the keys were already used (and swept) by earlier runs *)
  Lemma worker_run_store_l : forall tr st x h, Worker.exec c pinit tr = Some st -> pc st = PExited x -> x <> XFinallyCrash ->
    mp c = true -> dropfail st = false ->
    store (exec_krun CDirect h (run_of kap stab c tr st)) = remove_all (map kap (tasks st)) (store h).
  Proof.
    intros tr st x h E Hpc Hx Em Hd. rewrite direct_run_exact_l.
    - apply remove_all_ext. intros k. apply run_of_keys.
    - apply worker_run_body_ok_l, E.
    - eapply worker_run_swept_l; eauto.
  Qed.
End Bridge.

(* ---- Worker.v's run-local `flight` IS the key model's store, started empty, with key = worker id ---- *)
Section Flight.
  Variable c : cfg.
  Notation p := (cplan c).
  Ltac des S := repeat (dm S; try discriminate S).

  Lemma step_flight : forall st l st' wm, step c st l = Some st' -> (forall ok, l <> ODropAll ok) ->
    flight st' = snd (body CDirect wm (flight st) (sev_of (fun w => w) c st l)).
  Proof.
    intros st l st' wm S Hl. destruct l; cbn in S; cbn [sev_of body snd].
    all: try solve [des S; inv_some S; reflexivity].
    - (* OExec *)
      destruct (pc st) eqn:Epc; try discriminate S. destruct (nth_error p i) as [s|]; [|discriminate S].
      destruct (negb (is_fin s (o st)) && negb (cur_running s (o st)) && can_run s (o st)); [|discriminate S].
      destruct ok; [|inv_some S; reflexivity].
      unfold submit in S. destruct (mp c); [destruct (spawned (phase (ws st (wof c (sid s)))))|]; inv_some S; reflexivity.
    - (* ODropAll *) exfalso. apply (Hl ok). reflexivity.
    - (* WUpload *)
      destruct (phase (ws st w)); try discriminate S. destruct (mp c); [|discriminate S]. inv_some S. reflexivity.
  Qed.

  Lemma flight_is_store_l : forall tr st0 st wm, Worker.exec c st0 tr = Some st -> (forall ok, ~ In (ODropAll ok) tr) ->
    flight st = snd (body CDirect wm (flight st0) (sevs (fun w => w) c st0 tr)).
  Proof.
    induction tr as [|l t IH]; intros st0 st wm E Hn; cbn in E; [inversion E; reflexivity|].
    cbn [sevs]. destruct (step c st0 l) as [st1|] eqn:S; [|discriminate]. rewrite body_app.
    rewrite (IH st1 st (fst (body CDirect wm (flight st0) (sev_of (fun w => w) c st0 l))) E)
      by (intros ok X; apply (Hn ok); right; exact X).
    f_equal. f_equal. apply step_flight; [exact S|]. intros ok ->. apply (Hn ok). left. reflexivity.
  Qed.

  (* ... and the sweep is the key model's sweep over the keys of `tasks` *)
  Lemma flight_sweep_l : forall st ok st', step c st (ODropAll ok) = Some st' -> mp c = true ->
    flight st' = snd (if ok then c_drop CDirect [] (tasks st) (flight st) else ([], flight st)).
  Proof.
    intros st ok st' S Em. cbn in S. destruct (pc st); try discriminate S. rewrite Em in S. destruct ok; inv_some S; reflexivity.
  Qed.
End Flight.

(* ---- histories of protocol runs against one store ----
   a session that is run again and again: every run has its own configuration (mode flags, failure oracle, stream or batch), its
   own trace (interleaving, exit path) and its own key assignment - in which the objects of transform steps get the SAME key in
   every run *)
Lemma krun_of_ok : forall stab r, prun_clean r -> body_okb (krun_of stab r) = true /\ r_sweep (krun_of stab r) = Some true.
Proof.
  intros stab r (E & (x & Hpc & Hx) & Em & Hd). split; [apply worker_run_body_ok_l, E | eapply worker_run_swept_l; eauto].
Qed.

Lemma protocol_history_store_l : forall stab prs h, (forall r, In r prs -> prun_clean r) ->
  store (exec_khist CDirect h (map (krun_of stab) prs)) = remove_all (flat_map prun_keys prs) (store h).
Proof.
  intros stab prs h H. rewrite direct_hist_exact_l.
  - apply remove_all_ext. intros k. rewrite !in_flat_map. split.
    + intros [r [Hr Hk]]. apply in_map_iff in Hr. destruct Hr as [q [<- Hq]]. exists q. split; [exact Hq|].
      apply (run_of_keys (pr_cfg q) (pr_kap q) stab (pr_tr q) (pr_st q) k). exact Hk.
    + intros [q [Hq Hk]]. exists (krun_of stab q). split; [apply in_map, Hq|].
      apply (run_of_keys (pr_cfg q) (pr_kap q) stab (pr_tr q) (pr_st q) k). exact Hk.
  - intros r Hr. apply in_map_iff in Hr. destruct Hr as [q [<- Hq]]. apply krun_of_ok, H, Hq.
Qed.

(* after every run of such a history: none of its keys is in the store, and nothing the store did not hold before *)
Lemma protocol_history_every_run_clean_l : forall stab prs h, (forall r, In r prs -> prun_clean r) ->
  forall pre r post, prs = pre ++ r :: post ->
  (forall k, In k (prun_keys r) -> ~ In k (store (exec_khist CDirect h (map (krun_of stab) (pre ++ [r]))))) /\
  incl (store (exec_khist CDirect h (map (krun_of stab) (pre ++ [r])))) (store h).
Proof.
  intros stab prs h H pre r post E.
  assert (H1 : forall q, In q (pre ++ [r]) -> prun_clean q).
  { intros q X. apply H. rewrite E. apply in_app_or in X. apply in_or_app. destruct X as [X|[<-|[]]]; [left; exact X | right; left; reflexivity]. }
  rewrite protocol_history_store_l by exact H1. split.
  - intros k Hk X. apply remove_all_In in X. destruct X as [_ X]. apply X. rewrite flat_map_app. apply in_or_app. right. cbn.
    rewrite app_nil_r. exact Hk.
  - intros k X. apply remove_all_In in X. tauto.
Qed.

(* ---- non-vacuity: three protocol runs of one session whose only object is transform-created (key 7 in EVERY run) ----
   run 1 completes (the worker's last drop removes the dataset), run 2 fails in a worker after the upload (only the sweep removes
   the dataset), run 3 cannot send its second command (exception in the loop body).  The store held [9; 7] before: 9 is foreign and
   stays, 7 - a stale copy of the session's own key - goes with the first sweep. *)
Definition tr_mp_fail_after_upload : list label :=
  [OHead; OExec true; OExec true; OEndScan; WTake 5; WUpload 5; WDone 5; WTake 5; WFail 5 CCalc;
   OHead; OArtifacts true; OTerminate 5; OJoin 5; OClose; ODropAll true].

Definition ex_state (c : cfg) (tr : list label) : pst := match Worker.exec c pinit tr with Some st => st | None => pinit end.
Definition ex_prun (c : cfg) (tr : list label) : prun := {| pr_cfg := c; pr_kap := fun _ => 7; pr_tr := tr; pr_st := ex_state c tr |}.
Definition ex_history : list prun := [ex_prun (wc_mp nof) tr_mp_ok; ex_prun (wc_mp fail1) tr_mp_fail_after_upload; ex_prun (wc_mp nof) tr_sendfail].

Lemma ex_history_clean : forall r, In r ex_history -> prun_clean r.
Proof.
  intros r [<-|[<-|[<-|[]]]]; (split; [vm_compute; reflexivity|]); (split; [eexists; split; [vm_compute; reflexivity | discriminate]|]);
    split; vm_compute; reflexivity.
Qed.

Lemma protocol_history_example_l :
  map (fun r => r_body (krun_of [7] r)) ex_history = [[SUp 7; SWDrop 7]; [SUp 7]; []] /\
  map (fun r => r_stable (krun_of [7] r)) ex_history = [[7]; [7]; [7]] /\
  stores CDirect {| store := [9; 7]; memo := [] |} (map (krun_of [7]) ex_history) = [[9]; [9]; [9]] /\
  stores CMemo {| store := [9; 7]; memo := [] |} (map (krun_of [7]) ex_history) = [[9]; [7; 9]; [7; 9]].
Proof. vm_compute. repeat split; reflexivity. Qed.
