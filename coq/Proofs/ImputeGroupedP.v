(* C19 lemmas: the grouped loops of python_dict.py (_perform_grouped_imputation: a dict of row-index lists, in-place
   updates of `result` by index) compute the grouped specification. *)
From Coq Require Import QArith List Bool Arith ZArith Lia.
Import ListNotations.
Require Import MV.Spec.Builtins MV.Model.MissingValuePyDict MV.Proofs.ImputeP.
Open Scope Q_scope.

(* ---------------------------------------------------------------------------------------------------------- *)
(* in-place updates                                                                                           *)
Lemma set_nth_length : forall r i v, List.length (set_nth i v r) = List.length r.
Proof.
  induction r as [|x t IH]; intros i v. rewrite set_nth_nil. reflexivity.
  destruct i. reflexivity. rewrite set_nth_S. cbn. f_equal. apply IH.
Qed.

Lemma nth_set_nth : forall r i v j, (i < List.length r)%nat ->
  nth j (set_nth i v r) None = if Nat.eqb j i then v else nth j r None.
Proof.
  induction r as [|x t IH]; intros i v j H; cbn in H. lia.
  destruct i.
  - rewrite set_nth_0. destruct j; reflexivity.
  - rewrite set_nth_S. destruct j. reflexivity. cbn [nth]. rewrite IH by lia. reflexivity.
Qed.

Definition mem_nat (j : nat) (l : list nat) : bool := existsb (Nat.eqb j) l.
Lemma mem_nat_true : forall j l, mem_nat j l = true <-> In j l.
Proof.
  intros. unfold mem_nat. rewrite existsb_exists. split.
  - intros [x [H E]]. apply Nat.eqb_eq in E. subst. exact H.
  - intros H. exists j. split; auto. apply Nat.eqb_refl.
Qed.
Lemma mem_nat_false : forall j l, mem_nat j l = false <-> ~ In j l.
Proof. intros. rewrite <- mem_nat_true. destruct (mem_nat j l); split; intros; congruence. Qed.

Definition keep_or (x v : cell) : cell := match x with None => v | Some q => Some q end.

Lemma fill_indices_length : forall v idxs r, List.length (fill_indices v idxs r) = List.length r.
Proof. intros. apply (proj1 (fill_indices_preserves v idxs r)). Qed.

Definition fill_step (v : cell) (i : nat) (r : col) : col :=
  match nth i r None with None => set_nth i v r | Some _ => r end.
Lemma fill_indices_cons : forall v i t r, fill_indices v (i :: t) r = fill_indices v t (fill_step v i r).
Proof. reflexivity. Qed.

Lemma fill_indices_nth : forall v idxs r j, (forall i, In i idxs -> (i < List.length r)%nat) ->
  nth j (fill_indices v idxs r) None = if mem_nat j idxs then keep_or (nth j r None) v else nth j r None.
Proof.
  intros v. induction idxs as [|i t IH]; intros r j H. reflexivity.
  rewrite fill_indices_cons. set (r1 := fill_step v i r).
  assert (L1 : List.length r1 = List.length r).
  { unfold r1, fill_step. destruct (nth i r None). reflexivity. apply set_nth_length. }
  assert (Hi : (i < List.length r)%nat) by (apply H; left; auto).
  assert (N1 : forall j', nth j' r1 None = if Nat.eqb j' i then keep_or (nth i r None) v else nth j' r None).
  { intros j'. unfold r1, fill_step. destruct (nth i r None) eqn:E.
    - destruct (Nat.eqb j' i) eqn:Ej; auto. apply Nat.eqb_eq in Ej. subst. rewrite E. reflexivity.
    - rewrite nth_set_nth by auto. reflexivity. }
  rewrite IH by (intros; rewrite L1; apply H; right; auto).
  unfold mem_nat. cbn [existsb]. fold (mem_nat j t). rewrite (N1 j).
  destruct (Nat.eqb j i) eqn:Ej.
  - apply Nat.eqb_eq in Ej. subst j. cbn [orb]. destruct (mem_nat i t); auto.
    destruct (nth i r None) eqn:E; cbn [keep_or]; auto. destruct v; reflexivity.
  - cbn [orb]. reflexivity.
Qed.

(* ---- forward fill along a list of row numbers ---- *)
Fixpoint before (j : nat) (l : list nat) : list nat :=
  match l with [] => [] | x :: t => if Nat.eqb x j then [] else x :: before j t end.

Lemma group_ffill_length : forall idxs lv r, List.length (group_ffill lv idxs r) = List.length r.
Proof. intros. apply (proj1 (group_ffill_preserves idxs lv r)). Qed.

Lemma or_else_assoc_some : forall a v lv, or_else (or_else a (Some v)) lv = or_else a (Some v).
Proof. intros [x|] v lv; reflexivity. Qed.

Lemma map_nth_set_other : forall (l : list nat) i v r, ~ In i l -> (i < List.length r)%nat ->
  map (fun j => nth j (set_nth i v r) None) l = map (fun j => nth j r None) l.
Proof.
  intros l i v r H Hi. apply map_ext_in. intros j Hj. rewrite nth_set_nth by auto.
  destruct (Nat.eqb j i) eqn:E; auto. apply Nat.eqb_eq in E. subst. contradiction.
Qed.

Lemma in_before : forall j l x, In x (before j l) -> In x l.
Proof.
  induction l as [|y t IH]; intros x H; cbn in H. contradiction.
  destruct (Nat.eqb y j). contradiction. destruct H as [<-|H]. left; auto. right; auto.
Qed.

Lemma group_ffill_nth : forall idxs lv r j, NoDup idxs -> (forall i, In i idxs -> (i < List.length r)%nat) ->
  nth j (group_ffill lv idxs r) None =
  if mem_nat j idxs
  then or_else (nth j r None) (or_else (last_some (map (fun i => nth i r None) (before j idxs))) lv)
  else nth j r None.
Proof.
  induction idxs as [|i t IH]; intros lv r j ND H. reflexivity.
  inversion ND as [|? ? Hnotin ND']; subst.
  assert (Hi : (i < List.length r)%nat) by (apply H; left; auto).
  assert (Ht : forall i', In i' t -> (i' < List.length r)%nat) by (intros; apply H; right; auto).
  cbn [group_ffill]. unfold mem_nat. cbn [existsb before]. fold (mem_nat j t).
  rewrite (Nat.eqb_sym i j).
  destruct (nth i r None) as [v|] eqn:E.
  - rewrite IH by auto. destruct (Nat.eqb j i) eqn:Ej.
    + apply Nat.eqb_eq in Ej. subst j. cbn [orb]. rewrite (proj2 (mem_nat_false i t) Hnotin). rewrite E. reflexivity.
    + cbn [orb]. destruct (mem_nat j t); auto. cbn [map]. rewrite E. rewrite last_some_cons_some.
      f_equal. destruct (last_some (map (fun i0 => nth i0 r None) (before j t))); reflexivity.
  - destruct lv as [v|].
    + rewrite IH; auto. 2: (intros; rewrite set_nth_length; auto).
      rewrite nth_set_nth by auto. destruct (Nat.eqb j i) eqn:Ej.
      * apply Nat.eqb_eq in Ej. subst j. cbn [orb]. rewrite (proj2 (mem_nat_false i t) Hnotin). rewrite E. reflexivity.
      * cbn [orb]. destruct (mem_nat j t) eqn:Em; auto. cbn [map]. rewrite E, last_some_cons_none.
        rewrite map_nth_set_other; auto. intro Hin. apply Hnotin. eapply in_before; eauto.
    + rewrite IH by auto. destruct (Nat.eqb j i) eqn:Ej.
      * apply Nat.eqb_eq in Ej. subst j. cbn [orb]. rewrite (proj2 (mem_nat_false i t) Hnotin). rewrite E. reflexivity.
      * cbn [orb]. destruct (mem_nat j t); auto. cbn [map]. rewrite E, last_some_cons_none. reflexivity.
Qed.

(* ---------------------------------------------------------------------------------------------------------- *)
(* the groups dict: every key once, with the ascending list of its row numbers                                *)
Definition idx_from (off : nat) (pre keys : list key) (k : key) : list nat :=
  filter (fun j => key_eqb k (nth j (pre ++ keys) [])) (seq off (List.length keys)).
Definition idx_of (keys : list key) (k : key) : list nat := idx_from 0 [] keys k.

Lemma key_eqb_sym : forall a b, key_eqb a b = key_eqb b a.
Proof.
  intros. destruct (key_eqb a b) eqn:E1, (key_eqb b a) eqn:E2; auto.
  - apply key_eqb_eq in E1. subst. rewrite key_eqb_refl in E2. discriminate.
  - apply key_eqb_eq in E2. subst. rewrite key_eqb_refl in E1. discriminate.
Qed.

Lemma idx_of_snoc : forall keys k' k,
  idx_of (keys ++ [k']) k = idx_of keys k ++ (if key_eqb k k' then [List.length keys] else []).
Proof.
  intros. unfold idx_of, idx_from. cbn [app]. rewrite app_length. cbn [List.length]. rewrite Nat.add_1_r, seq_S.
  rewrite filter_app. cbn [filter Nat.add]. rewrite nth_middle. f_equal.
  apply filter_ext_in. intros j Hj. apply in_seq in Hj. rewrite app_nth1 by lia. reflexivity.
Qed.

Lemma in_idx_of : forall keys k i, In i (idx_of keys k) <-> (i < List.length keys)%nat /\ nth i keys [] = k.
Proof.
  intros. unfold idx_of, idx_from. cbn [app]. rewrite filter_In, in_seq. rewrite key_eqb_eq. split.
  - intros [H E]. split. lia. auto.
  - intros [H E]. split. lia. auto.
Qed.

Lemma build_groups_snoc : forall keys k,
  build_groups (keys ++ [k]) = add_idx k (List.length keys) (build_groups keys).
Proof.
  intros. unfold build_groups. rewrite app_length. cbn [List.length]. rewrite Nat.add_1_r, seq_S.
  rewrite combine_snoc by (rewrite seq_length; reflexivity). rewrite fold_left_app. reflexivity.
Qed.

Lemma add_idx_notin : forall k n g, ~ In k (map fst g) -> add_idx k n g = g ++ [(k, [n])].
Proof.
  induction g as [|[k' idxs] t IH]; intros H. reflexivity.
  cbn [add_idx]. destruct (key_eqb k' k) eqn:E.
  - apply key_eqb_eq in E. subst. exfalso. apply H. left. reflexivity.
  - cbn [app]. f_equal. apply IH. intro Hin. apply H. right. exact Hin.
Qed.
Lemma map_inc_noop : forall k n (t : list (key * list nat)), ~ In k (map fst t) ->
  map (fun p => if key_eqb (fst p) k then (fst p, snd p ++ [n]) else p) t = t.
Proof.
  induction t as [|[k2 i2] t IHt]; intros Hn. reflexivity. cbn [map fst snd].
  destruct (key_eqb k2 k) eqn:E2.
  - apply key_eqb_eq in E2. subst. exfalso. apply Hn. left. reflexivity.
  - f_equal. apply IHt. intro; apply Hn; right; auto.
Qed.
Lemma add_idx_in : forall k n g, NoDup (map fst g) -> In k (map fst g) ->
  add_idx k n g = map (fun p => if key_eqb (fst p) k then (fst p, snd p ++ [n]) else p) g.
Proof.
  induction g as [|[k' idxs] t IH]; intros ND H. contradiction.
  inversion ND as [|? ? Hn ND']; subst. cbn [add_idx map fst snd]. destruct (key_eqb k' k) eqn:E.
  - f_equal. apply key_eqb_eq in E. subst k'. symmetry. apply map_inc_noop. exact Hn.
  - f_equal. apply IH; auto. destruct H as [H|H]; auto. cbn in H. subst. rewrite key_eqb_refl in E. discriminate.
Qed.

Lemma map_fst_inc : forall k n (g : list (key * list nat)),
  map fst (map (fun p => if key_eqb (fst p) k then (fst p, snd p ++ [n]) else p) g) = map fst g.
Proof. intros. rewrite map_map. apply map_ext. intros [k1 i1]. cbn. destruct (key_eqb k1 k); reflexivity. Qed.

Lemma NoDup_app_snoc : forall {A} (l : list A) x, NoDup l -> ~ In x l -> NoDup (l ++ [x]).
Proof.
  intros A l x ND H. apply NoDup_rev in ND. rewrite <- (rev_involutive (l ++ [x])). apply NoDup_rev.
  rewrite rev_app_distr. cbn. constructor; auto. intro Hin. apply H. apply in_rev. exact Hin.
Qed.

Record ginv (keys : list key) (g : list (key * list nat)) : Prop := {
  gi_idx : forall k idxs, In (k, idxs) g -> idxs = idx_of keys k;
  gi_nodup : NoDup (map fst g);
  gi_cover : forall i, (i < List.length keys)%nat -> In (nth i keys []) (map fst g) }.

Lemma build_groups_inv : forall keys, ginv keys (build_groups keys).
Proof.
  induction keys as [|k keys IH] using rev_ind.
  - constructor; cbn; intros; try contradiction; try lia. constructor.
  - rewrite build_groups_snoc. destruct IH as [I1 I2 I3]. set (g := build_groups keys) in *. set (n := List.length keys).
    destruct (in_dec (fun a b => list_eq_dec (fun x y : option Z => ltac:(decide equality; apply Z.eq_dec)) a b) k (map fst g)) as [Hin|Hnot].
    + rewrite add_idx_in by auto. constructor.
      * intros k0 idxs0 H. apply in_map_iff in H. destruct H as [[k1 i1] [E H]]. cbn [fst snd] in E.
        rewrite idx_of_snoc. specialize (I1 _ _ H).
        destruct (key_eqb k1 k) eqn:E1; inversion E; subst; rewrite E1; rewrite ?app_nil_r; reflexivity.
      * rewrite map_fst_inc. exact I2.
      * intros i Hi. rewrite map_fst_inc.
        rewrite app_length in Hi. cbn in Hi. destruct (Nat.eq_dec i n) as [->|Hne].
        -- unfold n. rewrite nth_middle. exact Hin.
        -- rewrite app_nth1 by (fold n; lia). apply I3. fold n. lia.
    + rewrite add_idx_notin by auto. constructor.
      * intros k0 idxs0 H. rewrite idx_of_snoc. apply in_app_or in H. destruct H as [H|[E|[]]].
        -- specialize (I1 _ _ H). assert (key_eqb k0 k = false).
           { destruct (key_eqb k0 k) eqn:E; auto. apply key_eqb_eq in E. subst. exfalso. apply Hnot.
             apply (in_map fst) in H. exact H. }
           rewrite H0, app_nil_r. exact I1.
        -- inversion E; subst. rewrite key_eqb_refl.
           assert (idx_of keys k0 = []).
           { destruct (idx_of keys k0) as [|i t] eqn:Ei; auto. exfalso.
             assert (In i (idx_of keys k0)) by (rewrite Ei; left; auto). apply in_idx_of in H. destruct H as [H1 H2].
             apply Hnot. rewrite <- H2. apply I3. exact H1. }
           rewrite H. reflexivity.
      * rewrite map_app. cbn. apply NoDup_app_snoc. exact I2. exact Hnot.
      * intros i Hi. rewrite map_app. cbn. rewrite app_length in Hi. cbn in Hi. apply in_or_app.
        destruct (Nat.eq_dec i n) as [->|Hne].
        -- right. unfold n. rewrite nth_middle. left. reflexivity.
        -- left. rewrite app_nth1 by (fold n; lia). apply I3. fold n. lia.
Qed.

(* ---------------------------------------------------------------------------------------------------------- *)
(* folding a step that reads and writes only the rows of its own group, over pairwise disjoint groups         *)
Fixpoint disjoint_groups (gs : list (list nat)) : Prop :=
  match gs with
  | [] => True
  | g0 :: t => (forall g1, In g1 t -> forall i, In i g0 -> ~ In i g1) /\ disjoint_groups t
  end.

Section FoldLocal.
  Variable good : list nat -> Prop.
  Variable step : list nat -> col -> col.
  Variable val : list nat -> col -> nat -> cell.
  Hypothesis step_len : forall idxs r, List.length (step idxs r) = List.length r.
  Hypothesis step_nth : forall idxs r j, good idxs -> (forall i, In i idxs -> (i < List.length r)%nat) ->
    nth j (step idxs r) None = if mem_nat j idxs then val idxs r j else nth j r None.
  Hypothesis val_local : forall idxs r r' j, In j idxs -> (forall i, In i idxs -> nth i r None = nth i r' None) ->
    val idxs r j = val idxs r' j.

  Lemma fold_local_length : forall gs r, List.length (fold_left (fun r idxs => step idxs r) gs r) = List.length r.
  Proof. induction gs as [|g0 t IH]; intros r; cbn. reflexivity. rewrite IH. apply step_len. Qed.

  Lemma fold_local : forall gs c r,
    (forall idxs, In idxs gs -> good idxs /\ forall i, In i idxs -> (i < List.length c)%nat) ->
    disjoint_groups gs -> List.length r = List.length c ->
    (forall idxs, In idxs gs -> forall i, In i idxs -> nth i r None = nth i c None) ->
    forall j, nth j (fold_left (fun r idxs => step idxs r) gs r) None =
              match find (mem_nat j) gs with Some idxs => val idxs c j | None => nth j r None end.
  Proof.
    induction gs as [|g0 t IH]; intros c r HG HD L HA j. reflexivity.
    cbn [fold_left find]. destruct HD as [HD0 HD]. destruct (HG g0 (or_introl eq_refl)) as [Hgood Hlt].
    assert (Hlt' : forall i, In i g0 -> (i < List.length r)%nat) by (intros; rewrite L; auto).
    rewrite (IH c (step g0 r)).
    - destruct (mem_nat j g0) eqn:Ej.
      + assert (find (mem_nat j) t = None).
        { destruct (find (mem_nat j) t) eqn:Ef; auto. apply find_some in Ef. destruct Ef as [Hin Hm].
          apply mem_nat_true in Hm. apply mem_nat_true in Ej. exfalso. eapply HD0; eauto. }
        rewrite H. rewrite step_nth, Ej by auto. apply val_local. apply mem_nat_true; exact Ej.
        intros i Hi. apply (HA g0). left; auto. exact Hi.
      + destruct (find (mem_nat j) t); auto. rewrite step_nth, Ej by auto. reflexivity.
    - intros; apply HG; right; auto.
    - exact HD.
    - rewrite step_len. exact L.
    - intros idxs Hin i Hi. rewrite step_nth by auto.
      assert (mem_nat i g0 = false).
      { apply mem_nat_false. intro Hi0. eapply HD0; eauto. }
      rewrite H. apply (HA idxs). right; auto. exact Hi.
  Qed.
End FoldLocal.

(* ---- rows of a key: positions and cells ---- *)
Lemma members_cons : forall k' keys x c k,
  members (k' :: keys) k (x :: c) = (if key_eqb k k' then [x] else []) ++ members keys k c.
Proof. intros. unfold members. cbn [combine filter fst]. destruct (key_eqb k k'); reflexivity. Qed.

Lemma members_idx_from : forall keys c pre pc k, List.length keys = List.length c -> List.length pre = List.length pc ->
  map (fun j => nth j (pc ++ c) None) (idx_from (List.length pre) pre keys k) = members keys k c.
Proof.
  induction keys as [|k' keys IH]; intros [|x c] pre pc k L Lp; cbn in L; try lia. reflexivity.
  unfold idx_from. cbn [List.length seq filter]. rewrite nth_middle. rewrite members_cons.
  assert (R : filter (fun j => key_eqb k (nth j (pre ++ k' :: keys) [])) (seq (S (List.length pre)) (List.length keys))
              = idx_from (List.length (pre ++ [k'])) (pre ++ [k']) keys k).
  { unfold idx_from. rewrite app_length. cbn [List.length]. rewrite Nat.add_1_r. apply filter_ext. intros j.
    rewrite <- app_assoc. reflexivity. }
  destruct (key_eqb k k').
  - cbn [map app]. rewrite Lp at 1. rewrite nth_middle. f_equal. rewrite R.
    replace (pc ++ x :: c) with ((pc ++ [x]) ++ c) by (rewrite <- app_assoc; reflexivity).
    apply IH. lia. rewrite !app_length. cbn. lia.
  - cbn [app]. rewrite R. replace (pc ++ x :: c) with ((pc ++ [x]) ++ c) by (rewrite <- app_assoc; reflexivity).
    apply IH. lia. rewrite !app_length. cbn. lia.
Qed.

Lemma members_idx_of : forall keys c k, List.length keys = List.length c ->
  map (fun j => nth j c None) (idx_of keys k) = members keys k c.
Proof. intros. apply (members_idx_from keys c [] [] k); auto. Qed.

(* split the positions of key k at row i = |K1| (whose key is k) *)
Lemma idx_of_split : forall K1 k K2,
  idx_of (K1 ++ k :: K2) k = idx_of K1 k ++ List.length K1 :: idx_from (List.length (K1 ++ [k])) (K1 ++ [k]) K2 k.
Proof.
  intros. unfold idx_of, idx_from. cbn [app]. rewrite app_length. cbn [List.length].
  replace (List.length K1 + S (List.length K2))%nat with (List.length K1 + (1 + List.length K2))%nat by lia.
  rewrite seq_app, filter_app. cbn [Nat.add]. f_equal.
  - apply filter_ext_in. intros j Hj. apply in_seq in Hj. rewrite app_nth1 by lia. reflexivity.
  - cbn [seq filter Nat.add]. rewrite nth_middle, key_eqb_refl. f_equal.
    rewrite app_length. cbn [List.length]. rewrite Nat.add_1_r. apply filter_ext. intros j. rewrite <- app_assoc. reflexivity.
Qed.

Lemma idx_of_lt : forall keys k i, In i (idx_of keys k) -> (i < List.length keys)%nat.
Proof. intros. apply in_idx_of in H. tauto. Qed.
Lemma idx_from_ge : forall off pre keys k i, In i (idx_from off pre keys k) -> (off <= i)%nat.
Proof. intros. unfold idx_from in H. apply filter_In in H. destruct H as [H _]. apply in_seq in H. lia. Qed.

Lemma before_app_here : forall a j b, ~ In j a -> before j (a ++ j :: b) = a.
Proof.
  induction a as [|x t IH]; intros j b H; cbn. rewrite Nat.eqb_refl. reflexivity.
  destruct (Nat.eqb x j) eqn:E. apply Nat.eqb_eq in E. subst. exfalso. apply H. left; auto.
  f_equal. apply IH. intro; apply H; right; auto.
Qed.

Lemma idx_of_nodup : forall keys k, NoDup (idx_of keys k).
Proof. intros. unfold idx_of, idx_from. apply NoDup_filter. apply seq_NoDup. Qed.

(* ---------------------------------------------------------------------------------------------------------- *)
(* the groups of build_groups: disjoint, and row i belongs to the group of its key                            *)
Lemma groups_disjoint : forall keys (g : list (key * list nat)),
  (forall k idxs, In (k, idxs) g -> idxs = idx_of keys k) -> NoDup (map fst g) -> disjoint_groups (map snd g).
Proof.
  induction g as [|[k0 i0] t IH]; intros H ND. exact I.
  inversion ND as [|? ? Hn ND']; subst. cbn [map snd disjoint_groups]. split.
  - intros g1 Hg1 i Hi Hi1. apply in_map_iff in Hg1. destruct Hg1 as [[k1 i1] [E Hin]]. cbn in E. subst g1.
    rewrite (H k0 i0 (or_introl eq_refl)) in Hi. rewrite (H k1 i1 (or_intror Hin)) in Hi1.
    apply in_idx_of in Hi, Hi1. apply Hn. apply (in_map fst) in Hin. cbn in Hin.
    destruct Hi as [_ E0], Hi1 as [_ E1]. rewrite <- E0, E1. exact Hin.
  - apply IH; auto. intros; apply H; right; auto.
Qed.

Lemma find_group : forall keys i, (i < List.length keys)%nat ->
  find (mem_nat i) (map snd (build_groups keys)) = Some (idx_of keys (nth i keys [])).
Proof.
  intros keys i Hi. pose proof (build_groups_inv keys) as [I1 I2 I3]. set (g := build_groups keys) in *.
  destruct (find (mem_nat i) (map snd g)) as [idxs|] eqn:Ef.
  - apply find_some in Ef. destruct Ef as [Hin Hm]. apply mem_nat_true in Hm.
    apply in_map_iff in Hin. destruct Hin as [[k1 i1] [E Hin]]. cbn in E. subst i1.
    rewrite (I1 _ _ Hin) in Hm |- *. apply in_idx_of in Hm. destruct Hm as [_ E]. rewrite E. reflexivity.
  - exfalso. specialize (I3 i Hi). apply in_map_iff in I3. destruct I3 as [[k1 i1] [E Hin]]. cbn in E.
    assert (Hs : In i1 (map snd g)) by (apply in_map_iff; exists (k1, i1); auto).
    pose proof (find_none _ _ Ef _ Hs) as Hf. apply mem_nat_false in Hf. apply Hf.
    rewrite (I1 _ _ Hin). apply in_idx_of. split; auto.
Qed.

Lemma groups_good : forall keys (c : col) idxs, List.length keys = List.length c -> In idxs (map snd (build_groups keys)) ->
  NoDup idxs /\ forall i, In i idxs -> (i < List.length c)%nat.
Proof.
  intros keys c idxs L Hin. pose proof (build_groups_inv keys) as [I1 _ _].
  apply in_map_iff in Hin. destruct Hin as [[k1 i1] [E Hin]]. cbn in E. subst i1. rewrite (I1 _ _ Hin). split.
  apply idx_of_nodup. intros i Hi. rewrite <- L. eapply idx_of_lt; eauto.
Qed.

Lemma split_at : forall {A} (l : list A) i d, (i < List.length l)%nat -> l = firstn i l ++ nth i l d :: skipn (S i) l.
Proof.
  intros. rewrite <- (firstn_skipn i l) at 1. f_equal. apply skipn_nth_cons. exact H.
Qed.

Lemma fill_stat_nth : forall stat keys c i, List.length keys = List.length c -> (i < List.length c)%nat ->
  nth i (fill_stat stat keys c) None = keep_or (nth i c None) (stat_fb stat keys c (nth i keys [])).
Proof.
  intros stat keys c i L Hi. unfold fill_stat.
  set (f := fun p : key * cell => match snd p with Some _ => snd p | None => stat_fb stat keys c (fst p) end).
  rewrite (nth_indep _ None (f ([], None))) by (rewrite map_length, combine_length; lia).
  rewrite map_nth. rewrite combine_nth by auto. unfold f. cbv beta. cbn [snd fst]. unfold cell in *.
  destruct (nth i c None); reflexivity.
Qed.

(* ---- statistics (mean / median / mode) by group ---- *)
Definition stat_val (stat : list Q -> option Q) (overall : option Q) (idxs : list nat) (r : col) (j : nat) : cell :=
  keep_or (nth j r None)
          (match stat (vals (map (fun i => nth i r None) idxs)) with Some v => Some v | None => overall end).

Lemma group_stat_nth : forall stat overall idxs r j, (forall i, In i idxs -> (i < List.length r)%nat) ->
  nth j (group_stat stat overall idxs r) None = if mem_nat j idxs then stat_val stat overall idxs r j else nth j r None.
Proof.
  intros. unfold group_stat, stat_val. destruct (stat (vals (map (fun i => nth i r None) idxs))); apply fill_indices_nth; auto.
Qed.
Lemma group_stat_length : forall stat overall idxs r, List.length (group_stat stat overall idxs r) = List.length r.
Proof. intros. apply (proj1 (group_stat_preserves stat overall idxs r)). Qed.

Lemma grouped_stat_refines : forall (pstat sstat : list Q -> option Q) keys c,
  (forall l, pstat l = sstat l) -> List.length keys = List.length c ->
  fold_left (fun r idxs => group_stat pstat (pstat (vals c)) idxs r) (map snd (build_groups keys)) c = fill_stat sstat keys c.
Proof.
  intros pstat sstat keys c Hs L.
  pose proof (build_groups_inv keys) as [I1 I2 I3].
  pose proof (fold_local_length (group_stat pstat (pstat (vals c))) (group_stat_length pstat (pstat (vals c)))) as FL.
  apply nth_ext with (d := None) (d' := None).
  - rewrite FL. unfold fill_stat. rewrite map_length, combine_length. lia.
  - intros j Hj. rewrite FL in Hj.
    rewrite (fold_local (fun _ => True) (group_stat pstat (pstat (vals c))) (stat_val pstat (pstat (vals c)))) with (c := c).
    + rewrite find_group by lia. rewrite fill_stat_nth by auto. unfold stat_val, stat_fb.
      rewrite members_idx_of by auto. rewrite !Hs. reflexivity.
    + apply group_stat_length.
    + intros. apply group_stat_nth. auto.
    + intros idxs r r' j' Hj' H. unfold stat_val, cell in *. rewrite (map_ext_in _ _ idxs H). rewrite (H _ Hj'). reflexivity.
    + intros idxs Hin. split. exact I. apply (groups_good keys c idxs L Hin).
    + apply (groups_disjoint keys); auto.
    + reflexivity.
    + reflexivity.
Qed.

Ltac nlia := unfold col, cell, key in *; lia.

(* ---- forward / backward fill by group ---- *)
Definition ffill_val (idxs : list nat) (r : col) (j : nat) : cell :=
  or_else (nth j r None) (or_else (last_some (map (fun i => nth i r None) (before j idxs))) None).
Definition bfill_val (idxs : list nat) (r : col) (j : nat) : cell := ffill_val (rev idxs) r j.

Lemma or_else_none_r : forall a, or_else a None = a.
Proof. intros [x|]; reflexivity. Qed.
Lemma last_some_snoc_gen : forall a x, last_some (a ++ [x]) = or_else x (last_some a).
Proof.
  intros a [v|]. apply last_some_snoc. unfold last_some. rewrite vals_app. cbn. rewrite app_nil_r. reflexivity.
Qed.
Lemma first_some_cons : forall x l, first_some (x :: l) = or_else x (first_some l).
Proof. intros [v|] l; reflexivity. Qed.

Lemma map_nth_app1 : forall (l : list nat) (a b : col), (forall i, In i l -> (i < List.length a)%nat) ->
  map (fun i => nth i (a ++ b) None) l = map (fun i => nth i a None) l.
Proof. intros. apply map_ext_in. intros i Hi. apply app_nth1. auto. Qed.

Lemma ffill_point : forall K1 k K2 C1 x C2, List.length K1 = List.length C1 ->
  ffill_val (idx_of (K1 ++ k :: K2) k) (C1 ++ x :: C2) (List.length K1) =
  last_some (members (firstn (S (List.length K1)) (K1 ++ k :: K2)) k (firstn (S (List.length K1)) (C1 ++ x :: C2))).
Proof.
  intros K1 k K2 C1 x C2 L. unfold ffill_val, col, cell, key in *. rewrite idx_of_split.
  rewrite before_app_here. 2: (intro H; apply idx_of_lt in H; nlia).
  rewrite L at 1. rewrite nth_middle.
  rewrite map_nth_app1. 2: { intros i Hi. apply idx_of_lt in Hi. nlia. }
  rewrite members_idx_of by exact L. rewrite or_else_none_r.
  rewrite !firstn_app. rewrite (firstn_all2 K1) by nlia. rewrite (firstn_all2 C1) by nlia. rewrite <- L.
  replace (S (List.length K1) - List.length K1)%nat with 1%nat by nlia. cbn [firstn].
  rewrite members_snoc_same by exact L. rewrite last_some_snoc_gen. reflexivity.
Qed.

Lemma not_in_rev_from : forall off pre keys k j, (j < off)%nat -> ~ In j (rev (idx_from off pre keys k)).
Proof. intros off pre keys k j H Hin. apply in_rev in Hin. apply idx_from_ge in Hin. lia. Qed.

Lemma bfill_point : forall K1 k K2 C1 x C2, List.length K1 = List.length C1 -> List.length K2 = List.length C2 ->
  bfill_val (idx_of (K1 ++ k :: K2) k) (C1 ++ x :: C2) (List.length K1) =
  first_some (members (skipn (List.length K1) (K1 ++ k :: K2)) k (skipn (List.length K1) (C1 ++ x :: C2))).
Proof.
  intros K1 k K2 C1 x C2 L L2. unfold bfill_val, ffill_val, col, cell, key in *. rewrite idx_of_split.
  rewrite rev_app_distr. cbn [rev]. rewrite <- app_assoc. cbn [app].
  rewrite before_app_here by (apply not_in_rev_from; rewrite app_length; cbn; nlia).
  rewrite L at 1. rewrite nth_middle. rewrite or_else_none_r.
  rewrite map_rev, last_some_rev.
  rewrite !skipn_app. rewrite (skipn_all2 K1) by nlia. rewrite (skipn_all2 C1) by nlia. rewrite <- L. rewrite Nat.sub_diag. cbn [skipn app].
  rewrite members_cons, key_eqb_refl. cbn [app]. rewrite first_some_cons.
  replace (C1 ++ x :: C2) with ((C1 ++ [x]) ++ C2) by (rewrite <- app_assoc; reflexivity).
  pose proof (members_idx_from K2 C2 (K1 ++ [k]) (C1 ++ [x]) k L2 ltac:(rewrite !app_length; cbn; nlia)) as M.
  unfold col, cell, key in *. rewrite M. reflexivity.
Qed.

Lemma mem_nat_rev : forall j l, mem_nat j (rev l) = mem_nat j l.
Proof.
  intros. destruct (mem_nat j l) eqn:E.
  - apply mem_nat_true. apply mem_nat_true in E. apply (proj1 (in_rev l j)). exact E.
  - apply mem_nat_false. apply mem_nat_false in E. intro H. apply E. apply (proj2 (in_rev l j)). exact H.
Qed.

Lemma ffill_val_local : forall idxs r r' j, In j idxs -> (forall i, In i idxs -> nth i r None = nth i r' None) ->
  ffill_val idxs r j = ffill_val idxs r' j.
Proof.
  intros idxs r r' j Hj H. unfold ffill_val, cell in *. rewrite (H _ Hj). f_equal. f_equal. f_equal.
  apply map_ext_in. intros i Hi. apply H. eapply in_before; eauto.
Qed.

Lemma grouped_fill_refines : forall (fwd : bool) keys c, List.length keys = List.length c ->
  fold_left (fun r idxs => group_ffill None (if fwd then idxs else rev idxs) r) (map snd (build_groups keys)) c
  = impute_grouped_spec (if fwd then IFfill else IBfill) keys c.
Proof.
  intros fwd keys c L.
  pose proof (build_groups_inv keys) as [I1 I2 I3].
  set (step := fun idxs r => group_ffill None (if fwd then idxs else rev idxs) r).
  assert (SL : forall idxs r, List.length (step idxs r) = List.length r) by (intros; apply group_ffill_length).
  pose proof (fold_local_length step SL) as FL.
  change (fold_left (fun r idxs => step idxs r) (map snd (build_groups keys)) c
          = impute_grouped_spec (if fwd then IFfill else IBfill) keys c).
  apply nth_ext with (d := None) (d' := None).
  - rewrite FL. destruct fwd; cbn [impute_grouped_spec]; rewrite map_length, seq_length; reflexivity.
  - intros j Hj. rewrite FL in Hj.
    rewrite (fold_local (@NoDup nat) step (if fwd then ffill_val else bfill_val)) with (c := c).
    + rewrite find_group by lia.
      assert (Hk : (j < List.length keys)%nat) by lia.
      pose proof (split_at keys j [] Hk) as EK. pose proof (split_at c j None Hj) as EC.
      set (k := nth j keys []) in *. set (x := nth j c None) in *.
      set (K1 := firstn j keys) in *. set (K2 := skipn (S j) keys) in *.
      set (C1 := firstn j c) in *. set (C2 := skipn (S j) c) in *.
      assert (LK1 : List.length K1 = j) by (unfold K1; rewrite firstn_length; lia).
      assert (LC1 : List.length C1 = j) by (unfold C1; rewrite firstn_length; lia).
      assert (LK2 : List.length K2 = List.length C2) by (unfold K2, C2; rewrite !skipn_length; lia).
      destruct fwd.
      * pose proof (ffill_point K1 k K2 C1 x C2 ltac:(lia)) as P. rewrite <- EK, <- EC, LK1 in P. rewrite P.
        cbn [impute_grouped_spec]. rewrite nth_map_seq by auto. reflexivity.
      * pose proof (bfill_point K1 k K2 C1 x C2 ltac:(lia) LK2) as P. rewrite <- EK, <- EC, LK1 in P. rewrite P.
        cbn [impute_grouped_spec]. rewrite nth_map_seq by auto. reflexivity.
    + exact SL.
    + intros idxs r j' ND Hlt. unfold step. destruct fwd.
      * rewrite group_ffill_nth by auto. unfold ffill_val. reflexivity.
      * rewrite group_ffill_nth. rewrite mem_nat_rev. unfold bfill_val, ffill_val. reflexivity.
        apply NoDup_rev; auto. intros i Hi. apply Hlt. apply (proj2 (in_rev idxs i)). exact Hi.
    + intros idxs r r' j' Hj' H. destruct fwd. apply ffill_val_local; auto.
      unfold bfill_val. apply ffill_val_local. apply (proj1 (in_rev idxs j')). exact Hj'.
      intros i Hi. apply H. apply (proj2 (in_rev idxs i)). exact Hi.
    + intros idxs Hin. apply (groups_good keys c idxs L Hin).
    + apply (groups_disjoint keys); auto.
    + reflexivity.
    + reflexivity.
Qed.

(* ---------------------------------------------------------------------------------------------------------- *)
Lemma py_mean_spec : forall l, py_mean l = mean_l l.
Proof. intros [|x t]; reflexivity. Qed.
Lemma py_median_spec : forall l, py_median_o l = median_l l.
Proof. intros [|x t]. reflexivity. symmetry. apply median_refines_l. Qed.
Lemma py_mode_spec : forall l, py_mode_o l = mode_l l.
Proof. intros. apply mode_refines_l. Qed.

Lemma pydict_grouped_refines_l : forall m keys c, List.length keys = List.length c ->
  py_grouped m keys c = impute_grouped_spec m keys c.
Proof.
  intros [| | |k| |] keys c L; unfold py_grouped; cbn [impute_grouped_spec].
  - apply (grouped_stat_refines py_mean mean_l keys c py_mean_spec L).
  - apply (grouped_stat_refines py_median_o median_l keys c py_median_spec L).
  - apply (grouped_stat_refines py_mode_o mode_l keys c py_mode_spec L).
  - reflexivity.
  - apply (grouped_fill_refines true keys c L).
  - apply (grouped_fill_refines false keys c L).
Qed.

(* _perform_imputation with group_by_features = the grouped spec (early return included) *)
Lemma pydict_perform_grouped_refines_l : forall m keys c, List.length keys = List.length c ->
  py_perform_imputation m (Some keys) c = impute_grouped_spec m keys c.
Proof.
  intros m keys c L. unfold py_perform_imputation. destruct (has_null c) eqn:E; cbn [negb].
  - apply pydict_grouped_refines_l. exact L.
  - symmetry. apply preserves_no_null_id; auto. apply impute_grouped_spec_preserves; auto.
Qed.
