(* The run-time execution of JoinSteps (Model/PlannerLRun.v: registry lookup, merge pointers, merge) computes the
   component-wise relational join of Spec/PlannerLJoinSpec.v, for every registry, every list of joins that forms a forest
   and every table assignment. *)
From Coq Require Import List Bool Arith Lia.
Import ListNotations.
Require Import MV.Model.Orch MV.Model.OrchCheck MV.Model.LinkSel MV.Model.PlannerL MV.Model.PlannerLRun.
Require Import MV.Spec.PlannerLJoinSpec.
Require Import MV.Proofs.PlannerLStar.
Open Scope nat_scope.

Lemma st_get_set_same : forall x t s, st_get x (st_set x t s) = Some t.
Proof.
  intros x t s. induction s as [|[k t'] s IH]; cbn [st_set st_get]; [rewrite Nat.eqb_refl; reflexivity|].
  destruct (Nat.eqb k x) eqn:E; cbn [st_get]; rewrite E; [reflexivity | exact IH].
Qed.
Lemma st_get_set_other : forall x y t s, y <> x -> st_get y (st_set x t s) = st_get y s.
Proof.
  intros x y t s Hne. induction s as [|[k t'] s IH]; cbn [st_set st_get].
  - apply Nat.eqb_neq in Hne. rewrite Nat.eqb_sym in Hne. rewrite Hne. reflexivity.
  - destruct (Nat.eqb k x) eqn:E; cbn [st_get].
    + apply Nat.eqb_eq in E. subst k. assert (E' : Nat.eqb x y = false) by (apply Nat.eqb_neq; auto). rewrite E'. reflexivity.
    + destruct (Nat.eqb k y); [reflexivity | exact IH].
Qed.
Lemma st_get_In : forall s x t, NoDup (map fst s) -> In (x, t) s -> st_get x s = Some t.
Proof.
  intros s x t. induction s as [|[k t'] s IH]; intros Hnd Hin; [destruct Hin|]. cbn in Hnd. apply NoDup_cons_iff in Hnd. destruct Hnd as [Hk Hnd].
  cbn [st_get]. destruct Hin as [E|Hin].
  - injection E as -> ->. rewrite Nat.eqb_refl. reflexivity.
  - destruct (Nat.eqb k x) eqn:E; [|apply IH; assumption]. apply Nat.eqb_eq in E. subst k. exfalso. apply Hk.
    apply in_map_iff. exists (x, t). split; [reflexivity | exact Hin].
Qed.

Lemma rt_leftmost_snoc : forall h r l x,
  rt_leftmost (h ++ [(r, l)]) x = if Nat.eqb (rt_leftmost h x) r then l else rt_leftmost h x.
Proof. intros h r l x. unfold rt_leftmost. rewrite fold_left_app. reflexivity. Qed.

(* every component has a representative object: all its members lead to it and it holds the component's table;
   components do not overlap *)
Definition inv (h : hist) (s : store) (cs : list comp) : Prop :=
  (forall c1 c2 x, In c1 cs -> In c2 cs -> In x (fst c1) -> In x (fst c2) -> c1 = c2) /\
  (forall c, In c cs -> exists r, In r (fst c) /\ (forall x, In x (fst c) -> rt_leftmost h x = r) /\ st_get r s = Some (snd c)).

Lemma find_comp_unique : forall cs c x, (forall c1 c2 y, In c1 cs -> In c2 cs -> In y (fst c1) -> In y (fst c2) -> c1 = c2) ->
  In c cs -> In x (fst c) -> find_comp cs x = Some c.
Proof.
  intros cs c x Hdis Hc Hx. unfold find_comp. destruct (find (fun c0 => mem x (fst c0)) cs) as [c'|] eqn:E.
  - apply find_some in E. destruct E as [Hc' Hm]. apply mem_In in Hm. rewrite (Hdis c' c x Hc' Hc Hm Hx). reflexivity.
  - exfalso. apply (find_none _ _ E c) in Hc. apply mem_In in Hx. rewrite Hx in Hc. discriminate.
Qed.

Lemma inv_read : forall h s cs x c, inv h s cs -> In c cs -> In x (fst c) ->
  st_get (rt_leftmost h x) s = Some (snd c) /\ comp_table cs x = Some (snd c).
Proof.
  intros h s cs x c [Hdis Hrep] Hc Hx. destruct (Hrep c Hc) as [r [_ [Hl Hs]]]. split.
  - rewrite (Hl x Hx). exact Hs.
  - unfold comp_table. rewrite (find_comp_unique cs c x Hdis Hc Hx). reflexivity.
Qed.

Lemma inv_init : forall s0, NoDup (map fst s0) -> inv [] s0 (map (fun xt => ([fst xt], snd xt)) s0).
Proof.
  intros s0 Hnd. split.
  - intros c1 c2 x H1 H2 Hx1 Hx2. apply in_map_iff in H1, H2. destruct H1 as [[x1 t1] [<- H1]], H2 as [[x2 t2] [<- H2]].
    cbn in Hx1, Hx2. destruct Hx1 as [E1|[]], Hx2 as [E2|[]]. subst x1 x2. cbn [fst snd].
    pose proof (st_get_In s0 x t1 Hnd H1) as G1. pose proof (st_get_In s0 x t2 Hnd H2) as G2. congruence.
  - intros c Hc. apply in_map_iff in Hc. destruct Hc as [[x t] [<- Hc]]. cbn [fst snd]. exists x. split; [left; reflexivity|]. split.
    + intros y [<-|[]]. reflexivity.
    + exact (st_get_In s0 x t Hnd Hc).
Qed.

Lemma inv_step : forall objs h s cs j sj cs',
  inv h s cs -> resolve objs j = Some sj ->
  apply_join cs (sj_jt sj) (sj_lk sj) (sj_rk sj) (sj_a sj) (sj_b sj) = Some cs' ->
  exists h' s', rt_join objs (h, s) j = Some (h', s') /\ inv h' s' cs'.
Proof.
  intros objs h s cs j sj cs' [Hdis Hrep] Hres Happ. unfold resolve in Hres. unfold rt_join.
  destruct (rj_left_obj objs j) as [a|]; [|discriminate]. destruct (rj_right_obj objs j) as [b|]; [|discriminate].
  injection Hres as <-. cbn [sj_jt sj_lk sj_rk sj_a sj_b] in Happ. unfold apply_join in Happ.
  destruct (find_comp cs a) as [ca|] eqn:Ea; [|discriminate]. destruct (find_comp cs b) as [cb|] eqn:Eb; [|discriminate].
  destruct (mem b (fst ca)) eqn:Ebm; [discriminate|]. injection Happ as <-.
  unfold find_comp in Ea, Eb. apply find_some in Ea, Eb. destruct Ea as [Hca Haa], Eb as [Hcb Hbb]. apply mem_In in Haa, Hbb.
  apply mem_false in Ebm.
  destruct (Hrep ca Hca) as [ra [Hra [Hla Hsa]]], (Hrep cb Hcb) as [rb [Hrb [Hlb Hsb]]].
  cbn [fst snd]. rewrite (Hla a Haa), (Hlb b Hbb), Hsa, Hsb.
  eexists. eexists. split; [reflexivity|].
  assert (Hab : ca <> cb) by (intros E; subst cb; contradiction).
  assert (Hrab : ra <> rb).
  { intros E. subst rb. apply Hab. exact (Hdis ca cb ra Hca Hcb Hra Hrb). }
  set (P := fun c : comp => negb (mem a (fst c)) && negb (mem b (fst c))).
  assert (HP : forall c, In c (filter P cs) <-> In c cs /\ c <> ca /\ c <> cb).
  { intros c. rewrite filter_In. unfold P. rewrite andb_true_iff, !negb_true_iff. split.
    - intros [Hc [H1 H2]]. apply mem_false in H1, H2. split; [exact Hc|]. split; intros E; subst c; contradiction.
    - intros [Hc [H1 H2]]. split; [exact Hc|]. split; apply mem_false; intros Hin.
      + apply H1. exact (Hdis c ca a Hc Hca Hin Haa).
      + apply H2. exact (Hdis c cb b Hc Hcb Hin Hbb). }
  split.
  - intros c1 c2 x H1 H2 Hx1 Hx2. destruct H1 as [<-|H1], H2 as [<-|H2].
    + reflexivity.
    + exfalso. apply HP in H2. destruct H2 as [H2 [N1 N2]]. cbn [fst] in Hx1. apply in_app_iff in Hx1.
      destruct Hx1 as [Hx1|Hx1]; [apply N1; exact (Hdis c2 ca x H2 Hca Hx2 Hx1) | apply N2; exact (Hdis c2 cb x H2 Hcb Hx2 Hx1)].
    + exfalso. apply HP in H1. destruct H1 as [H1 [N1 N2]]. cbn [fst] in Hx2. apply in_app_iff in Hx2.
      destruct Hx2 as [Hx2|Hx2]; [apply N1; exact (Hdis c1 ca x H1 Hca Hx1 Hx2) | apply N2; exact (Hdis c1 cb x H1 Hcb Hx1 Hx2)].
    + apply HP in H1, H2. exact (Hdis c1 c2 x (proj1 H1) (proj1 H2) Hx1 Hx2).
  - intros c [<-|Hc].
    + exists ra. cbn [fst snd]. split; [apply in_app_iff; left; exact Hra|]. split.
      * intros x Hx. rewrite rt_leftmost_snoc. apply in_app_iff in Hx. destruct Hx as [Hx|Hx].
        -- rewrite (Hla x Hx). apply Nat.eqb_neq in Hrab. rewrite Hrab. reflexivity.
        -- rewrite (Hlb x Hx), Nat.eqb_refl. reflexivity.
      * apply st_get_set_same.
    + apply HP in Hc. destruct Hc as [Hc [N1 N2]]. destruct (Hrep c Hc) as [r [Hr [Hl Hs]]]. exists r. split; [exact Hr|].
      assert (Hr1 : r <> ra) by (intros E; subst r; apply N1; exact (Hdis c ca ra Hc Hca Hr Hra)).
      assert (Hr2 : r <> rb) by (intros E; subst r; apply N2; exact (Hdis c cb rb Hc Hcb Hr Hrb)).
      split.
      * intros x Hx. rewrite rt_leftmost_snoc, (Hl x Hx). apply Nat.eqb_neq in Hr2. rewrite Hr2. reflexivity.
      * rewrite st_get_set_other by exact Hr1. exact Hs.
Qed.

Theorem rt_run_spec : forall objs joins s0 sjs cs,
  NoDup (map fst s0) -> resolve_all objs joins = Some sjs -> join_in_order s0 sjs = Some cs ->
  exists h s, rt_run objs joins s0 = Some (h, s) /\
    forall x c, In c cs -> In x (fst c) -> st_get (rt_leftmost h x) s = Some (snd c) /\ comp_table cs x = Some (snd c).
Proof.
  intros objs joins s0 sjs cs Hnd Hres Hspec. unfold rt_run, join_in_order in *.
  assert (H : forall js sjs0 h s cs0 cs1, inv h s cs0 -> resolve_all objs js = Some sjs0 ->
            fold_left (fun cs j => match cs with Some c => apply_join c (sj_jt j) (sj_lk j) (sj_rk j) (sj_a j) (sj_b j) | None => None end)
                      sjs0 (Some cs0) = Some cs1 ->
            exists h' s', fold_left (fun st j => match st with Some s1 => rt_join objs s1 j | None => None end) js (Some (h, s)) = Some (h', s')
                          /\ inv h' s' cs1).
  { intros js. induction js as [|j js IH]; intros sjs0 h s cs0 cs1 Hinv Hr Hf; cbn [resolve_all] in Hr.
    - injection Hr as <-. cbn in Hf. injection Hf as <-. exists h, s. split; [reflexivity | exact Hinv].
    - destruct (resolve objs j) as [sj|] eqn:Ej; [|discriminate]. destruct (resolve_all objs js) as [r|] eqn:Er; [|discriminate].
      injection Hr as <-. cbn [fold_left] in Hf |- *.
      destruct (apply_join cs0 (sj_jt sj) (sj_lk sj) (sj_rk sj) (sj_a sj) (sj_b sj)) as [cs0'|] eqn:Ea.
      + destruct (inv_step objs h s cs0 j sj cs0' Hinv Ej Ea) as [h' [s' [Ert Hinv']]]. rewrite Ert.
        exact (IH r h' s' cs0' cs1 Hinv' eq_refl Hf).
      + exfalso. clear - Hf. induction r as [|x r IHr]; cbn in Hf; [discriminate | exact (IHr Hf)]. }
  destruct (H joins sjs [] s0 _ cs (inv_init s0 Hnd) Hres Hspec) as [h [s [E Hinv]]].
  exists h, s. split; [exact E|]. intros x c Hc Hx. exact (inv_read h s cs x c Hinv Hc Hx).
Qed.

(* ---------- find_leftmost (dict + while loop) = replaying the merge history ---------- *)
Definition mroot (r : mrel) (y : nat) : Prop := mget y r = None \/ mget y r = Some y.

Lemma mfollow_root : forall n r y, mroot r y -> mfollow n r y = y.
Proof. intros n r y [H|H]; destruct n; cbn; rewrite ?H, ?Nat.eqb_refl; reflexivity. Qed.

Lemma mget_madd_right : forall c fr r, mget fr (madd c fr r) = Some c.
Proof.
  intros c fr r. unfold madd. cbn [mget]. destruct (Nat.eqb fr c) eqn:E.
  - cbn [mget]. rewrite Nat.eqb_refl. reflexivity.
  - destruct (mget c r); cbn [mget].
    + rewrite Nat.eqb_refl. reflexivity.
    + rewrite (Nat.eqb_sym c fr), E, Nat.eqb_refl. reflexivity.
Qed.
Lemma mget_madd_left : forall c fr r, mroot r c -> mget c (madd c fr r) = Some c.
Proof.
  intros c fr r Hc. destruct (Nat.eqb fr c) eqn:E.
  - apply Nat.eqb_eq in E. subst fr. apply mget_madd_right.
  - unfold madd. cbn [mget]. rewrite E. destruct Hc as [H|H]; rewrite H; cbn [mget]; rewrite ?Nat.eqb_refl, ?E; [reflexivity | exact H].
Qed.
Lemma mget_madd_other : forall c fr r y, y <> c -> y <> fr -> mget y (madd c fr r) = mget y r.
Proof.
  intros c fr r y H1 H2. unfold madd. cbn [mget].
  assert (E1 : Nat.eqb fr y = false) by (apply Nat.eqb_neq; auto). assert (E2 : Nat.eqb c y = false) by (apply Nat.eqb_neq; auto).
  destruct (if Nat.eqb fr c then Some c else mget c r); cbn [mget]; rewrite ?E1, ?E2; reflexivity.
Qed.

Lemma mfollow_step : forall c fr r, mroot r c -> mroot r fr ->
  forall n x, mroot r (mfollow n r x) ->
    mfollow (S n) (madd c fr r) x = if Nat.eqb (mfollow n r x) fr then c else mfollow n r x.
Proof.
  intros c fr r Hc Hfr.
  assert (Hc' : forall k, mfollow k (madd c fr r) c = c).
  { intros k. apply mfollow_root. right. apply mget_madd_left. exact Hc. }
  assert (Hbase : forall x k, mroot r x -> mfollow (S k) (madd c fr r) x = if Nat.eqb x fr then c else x).
  { intros x k Hx. cbn [mfollow]. destruct (Nat.eqb x fr) eqn:E.
    - apply Nat.eqb_eq in E. subst x. rewrite mget_madd_right. destruct (Nat.eqb c fr) eqn:E'; [apply Nat.eqb_eq in E'; symmetry; exact E' | apply Hc'].
    - apply Nat.eqb_neq in E. destruct (Nat.eq_dec x c) as [->|Hn].
      + rewrite (mget_madd_left c fr r Hc), Nat.eqb_refl. reflexivity.
      + rewrite (mget_madd_other c fr r x Hn E). destruct Hx as [H|H]; rewrite H, ?Nat.eqb_refl; reflexivity. }
  intros n. induction n as [|n IH]; intros x Hx.
  - cbn [mfollow] in Hx |- *. exact (Hbase x 0 Hx).
  - cbn [mfollow] in Hx. change (mfollow (S n) r x) with (match mget x r with None => x | Some y => if Nat.eqb y x then x else mfollow n r y end).
    destruct (mget x r) as [y|] eqn:Ex.
    + destruct (Nat.eqb y x) eqn:Eyx.
      * apply Hbase. exact Hx.
      * (* x is not a root of r, hence neither c nor fr *)
        assert (Hxc : x <> c).
        { intros ->. destruct Hc as [H|H]; rewrite H in Ex; [discriminate | injection Ex as <-; rewrite Nat.eqb_refl in Eyx; discriminate]. }
        assert (Hxf : x <> fr).
        { intros ->. destruct Hfr as [H|H]; rewrite H in Ex; [discriminate | injection Ex as <-; rewrite Nat.eqb_refl in Eyx; discriminate]. }
        change (mfollow (S (S n)) (madd c fr r) x)
          with (match mget x (madd c fr r) with None => x | Some y0 => if Nat.eqb y0 x then x else mfollow (S n) (madd c fr r) y0 end).
        rewrite (mget_madd_other c fr r x Hxc Hxf), Ex, Eyx. apply IH. exact Hx.
    + apply Hbase. left. exact Ex.
Qed.

Lemma mrel_of_snoc : forall h fr c, mrel_of (h ++ [(fr, c)]) = madd c fr (mrel_of h).
Proof. intros h fr c. unfold mrel_of. rewrite fold_left_app. reflexivity. Qed.

Lemma mfollow_replay_rev : forall hr, roots_hist_rev hr ->
  forall x, mfollow (List.length (rev hr)) (mrel_of (rev hr)) x = rt_leftmost (rev hr) x /\ mroot (mrel_of (rev hr)) (rt_leftmost (rev hr) x).
Proof.
  intros hr. induction hr as [|[fr c] t IH]; intros Hr x.
  - cbn. split; [reflexivity | left; reflexivity].
  - cbn [roots_hist_rev] in Hr. destruct Hr as (Ht & Efr & Ec). specialize (IH Ht).
    cbn [rev]. rewrite app_length, mrel_of_snoc, rt_leftmost_snoc. cbn [List.length]. rewrite Nat.add_1_r.
    assert (Hc : mroot (mrel_of (rev t)) c) by (rewrite <- Ec; apply IH).
    assert (Hf : mroot (mrel_of (rev t)) fr) by (rewrite <- Efr; apply IH).
    destruct (IH x) as [E Hroot]. rewrite (mfollow_step c fr _ Hc Hf (List.length (rev t)) x) by (rewrite E; exact Hroot).
    rewrite E. split; [reflexivity|].
    destruct (Nat.eqb (rt_leftmost (rev t) x) fr) eqn:Eq.
    + right. apply mget_madd_left. exact Hc.
    + apply Nat.eqb_neq in Eq. destruct (Nat.eq_dec (rt_leftmost (rev t) x) c) as [E'|Hn].
      * rewrite E'. right. apply mget_madd_left. exact Hc.
      * unfold mroot. rewrite (mget_madd_other c fr _ _ Hn Eq). exact Hroot.
Qed.
Theorem mfollow_replay : forall h, roots_hist h ->
  forall x, mfollow (List.length h) (mrel_of h) x = rt_leftmost h x /\ mroot (mrel_of h) (rt_leftmost h x).
Proof.
  intros h Hr x. unfold roots_hist in Hr. pose proof (mfollow_replay_rev (rev h) Hr x) as H. rewrite rev_involutive in H. exact H.
Qed.

(* the histories rt_run produces are such histories *)
Lemma rt_leftmost_idem : forall h, roots_hist h -> forall x, rt_leftmost h (rt_leftmost h x) = rt_leftmost h x.
Proof.
  intros h Hr x. destruct (mfollow_replay h Hr (rt_leftmost h x)) as [E _]. rewrite <- E.
  apply mfollow_root. apply (mfollow_replay h Hr x).
Qed.
Lemma roots_hist_snoc : forall h fr c, roots_hist h -> rt_leftmost h fr = fr -> rt_leftmost h c = c -> roots_hist (h ++ [(fr, c)]).
Proof.
  intros h fr c Hr E1 E2. unfold roots_hist. rewrite rev_app_distr. cbn [rev app roots_hist_rev]. rewrite rev_involutive. auto.
Qed.
Theorem rt_run_roots_hist : forall objs joins s0 h s, rt_run objs joins s0 = Some (h, s) -> roots_hist h.
Proof.
  intros objs joins s0. unfold rt_run.
  assert (H : forall js h0 s1 h s, roots_hist h0 ->
            fold_left (fun st j => match st with Some s2 => rt_join objs s2 j | None => None end) js (Some (h0, s1)) = Some (h, s) -> roots_hist h).
  { intros js. induction js as [|j js IH]; intros h0 s1 h s Hr Hf; cbn [fold_left] in Hf.
    - injection Hf as <- <-. exact Hr.
    - destruct (rt_join objs (h0, s1) j) as [[h1 s2]|] eqn:Ej.
      + apply (IH h1 s2 h s); [|exact Hf]. unfold rt_join in Ej. destruct (rj_left_obj objs j) as [a|]; [|discriminate].
        destruct (rj_right_obj objs j) as [b|]; [|discriminate]. cbn [fst snd] in Ej.
        destruct (st_get (rt_leftmost h0 a) s1); [|discriminate]. destruct (st_get (rt_leftmost h0 b) s1); [|discriminate].
        injection Ej as <- <-. apply roots_hist_snoc; [exact Hr | apply rt_leftmost_idem; exact Hr | apply rt_leftmost_idem; exact Hr].
      + exfalso. clear - Hf. induction js as [|x js IHj]; cbn in Hf; [discriminate | exact (IHj Hf)]. }
  intros h s Hf. exact (H joins [] s0 h s I Hf).
Qed.
