(* What the consumer of compute_stream receives (Model/Worker.v PYield / ONext / OResume / OAbandon, ghost `undelivered`):
   the drain hands its items over one at a time; a consumer that closes the stream in the middle of a drain has received the
   items before and including the one it holds, the rest of that drain - and nothing else - is lost.
   The structural part needs no hypothesis about the plan. *)
From Coq Require Import List Bool Arith Lia.
Import ListNotations.
Require Import MV.Model.Orch MV.Proofs.OrchP MV.Model.Worker MV.Spec.WorkerSpec MV.Proofs.WorkerP.

Lemma ovisit_yielded : forall a s, yielded (ovisit a s) = yielded a.
Proof. intros a s. unfold ovisit. destruct (visit_cases false nofail a s); reflexivity. Qed.

Lemma poll_yielded : forall taken f a f' a', poll f a taken = Some (f', a') -> yielded a' = yielded a.
Proof.
  induction taken as [|[w m] t IH]; intros f a f' a' P; cbn in P.
  - inversion P; subst. reflexivity.
  - destruct (spawned (phase (f w))); [|discriminate]. destruct (take_msg (f w) m) as [x|]; [|discriminate].
    rewrite (IH _ _ _ _ P). destruct m; reflexivity.
Qed.

Section Stream.
  Variable c : cfg.
  Notation p := (cplan c).

  Ltac des S := repeat (dm S; try discriminate S).

  Definition DInv (st : pst) : Prop :=
    (forall pend, pc st = PYield pend ->
       pend <> [] /\ undelivered st = [] /\ exists pre rest, yielded (o st) = pre ++ pend ++ rest) /\
    (undelivered st <> [] ->
       (xk (pc st) = Some XAbandon \/ pc st = PExited XFinallyCrash) /\
       exists pre rest, pre <> [] /\ yielded (o st) = pre ++ undelivered st ++ rest).

  Lemma DInv_keep : forall st st', DInv st -> yielded (o st') = yielded (o st) -> undelivered st' = undelivered st ->
    (forall pend, pc st' = PYield pend -> pc st = PYield pend) ->
    (xk (pc st) = Some XAbandon \/ pc st = PExited XFinallyCrash -> xk (pc st') = Some XAbandon \/ pc st' = PExited XFinallyCrash) -> DInv st'.
  Proof.
    intros st st' [D1 D2] Ey Eu Hy Hx. split.
    - intros pend X. rewrite Ey, Eu. apply D1, Hy, X.
    - rewrite Ey, Eu. intros X. destruct (D2 X) as [A B]. split; [apply Hx, A | exact B].
  Qed.

  Lemma DInv_no_undelivered : forall st, DInv st -> xk (pc st) = None -> undelivered st = [].
  Proof.
    intros st [_ D2] X. destruct (undelivered st) as [|u t] eqn:E; [reflexivity|]. exfalso.
    assert (N : u :: t <> []) by discriminate. destruct (D2 N) as [[A|A] _]; [rewrite X in A; discriminate | rewrite A in X; discriminate].
  Qed.

  Ltac keep H :=
    apply (DInv_keep _ _ H); cbn; rewrite ?ovisit_yielded; auto;
    repeat match goal with E : pc _ = _ |- _ => rewrite E; clear E end; cbn;
    first [ reflexivity | (intros ? X; first [discriminate X | exact X])
          | (intros [X|X]; first [discriminate X | (left; exact X) | (right; exact X) | idtac]) | idtac ].

  Lemma step_DInv : forall st l st', DInv st -> step c st l = Some st' -> DInv st'.
  Proof.
    intros st l st' H S. destruct l; cbn in S.
    - (* OHead *) des S; inv_some S; keep H.
    - (* OVisit *) des S; inv_some S; keep H.
    - (* OPoll *)
      destruct (pc st) eqn:Epc; try discriminate S. destruct (nth_error p i); [|discriminate S].
      destruct (_ && _ && _ && _); [|discriminate S]. destruct (poll (ws st) (o st) taken) as [[f a']|] eqn:P; [|discriminate S].
      inv_some S. apply (DInv_keep _ _ H); cbn; auto; [eapply poll_yielded; eauto | intros ? X; discriminate X | rewrite Epc; intros [X|X]; discriminate X].
    - (* OCollect *) des S; inv_some S; keep H.
    - (* ORequeue *) des S; inv_some S; keep H.
    - (* OGot *) des S; inv_some S; keep H.
    - (* OTimeout *) des S; inv_some S; keep H.
    - (* OExec *) unfold submit in S. des S; inv_some S; keep H.
    - (* OEndScan *)
      destruct (pc st) eqn:Epc; try discriminate S. destruct (nth_error p i); [discriminate S|].
      assert (U : undelivered st = []) by (apply DInv_no_undelivered; [exact H | rewrite Epc; reflexivity]).
      destruct (cstream c); inv_some S.
      + split; cbn.
        * intros pend X. destruct (results (o st)) as [|r rs] eqn:Er; [discriminate X|]. inversion X; subst pend.
          split; [discriminate|]. split; [exact U|]. exists [], (yielded (o st)). reflexivity.
        * rewrite U. intros X. congruence.
      + keep H.
    - (* OResume *) des S; inv_some S; keep H.
    - (* OAbandon *)
      destruct (pc st) as [| | | |pend| | | | |] eqn:Epc; try discriminate S. destruct pend as [|h t]; [discriminate S|]. inv_some S.
      destruct H as [D1 _]. destruct (D1 _ Epc) as (_ & _ & pre & rest & Ey). split; cbn.
      * intros pend X. discriminate X.
      * intros _. split; [left; reflexivity|]. exists (pre ++ [h]), rest. split; [destruct pre; discriminate|].
        rewrite Ey, <- app_assoc. reflexivity.
    - (* OArtifacts: a raising set_artifacts ends in XFinallyCrash: the ghost stays, the exit kind changes *)
      destruct (pc st) eqn:Epc; try discriminate S. inv_some S. apply (DInv_keep _ _ H); cbn; auto.
      + intros pend X. destruct ok; discriminate X.
      + rewrite Epc. cbn. intros [X|X]; [|discriminate X]. destruct ok; cbn; [left; exact X | right; reflexivity].
    - (* OTerminate *) des S; inv_some S; keep H.
    - (* OJoin *) des S; inv_some S; keep H.
    - (* OClose *) des S; inv_some S; keep H.
    - (* ODropAll *) des S; inv_some S; keep H.
    - (* WTake *) des S; inv_some S; keep H.
    - (* WUpload *) des S; inv_some S; keep H.
    - (* WDone *) des S; inv_some S; keep H.
    - (* WFail *) des S; inv_some S; keep H.
    - (* WDropAck *) des S; inv_some S; keep H.
    - (* WDropCrash *) des S; inv_some S; keep H.
    - (* OSendFail *) des S; inv_some S; keep H.
    - (* ONext *)
      destruct (pc st) as [| | | |pend| | | | |] eqn:Epc; try discriminate S. destruct pend as [|h [|x t]]; try discriminate S. inv_some S.
      destruct H as [D1 D2]. destruct (D1 _ Epc) as (_ & U & pre & rest & Ey). split; cbn.
      * intros pend X. inversion X; subst pend. split; [discriminate|]. split; [exact U|]. exists (pre ++ [h]), rest.
        rewrite Ey, <- app_assoc. reflexivity.
      * rewrite U. intros X. congruence.
  Qed.

  Lemma DInv_init : DInv pinit.
  Proof. split; cbn; [intros pend X; discriminate X | intros X; congruence]. Qed.

  Lemma reach_DInv : forall st, reach c st -> DInv st.
  Proof.
    intros st [tr E].
    assert (G : forall tr' st0 st1, DInv st0 -> exec c st0 tr' = Some st1 -> DInv st1).
    { clear E. induction tr' as [|l tr' IH]; intros st0 st1 D0 E; cbn in E; [inversion E; subst; exact D0|].
      destruct (step c st0 l) as [st2|] eqn:S; [|discriminate]. eapply IH; [eapply step_DInv; eauto | exact E]. }
    apply (G tr pinit st); [apply DInv_init | exact E].
  Qed.

  Lemma stream_delivery_l : forall st, reach c st ->
    (forall pend, pc st = PYield pend ->
       pend <> [] /\ undelivered st = [] /\ exists pre rest, yielded (o st) = pre ++ pend ++ rest) /\
    (undelivered st <> [] ->
       (xk (pc st) = Some XAbandon \/ pc st = PExited XFinallyCrash) /\
       exists pre rest, pre <> [] /\ yielded (o st) = pre ++ undelivered st ++ rest).
  Proof. exact reach_DInv. Qed.

  (* what is lost was collected properly, and was not ALSO delivered *)
  Lemma undelivered_sound_l : plan_ok p -> forall st, reach c st -> forall x, In x (undelivered st) ->
    NoDup (yielded (o st)) /\ In x (yielded (o st)) /\
    exists s, In s p /\ sid s = x /\ collects s = true /\ In x (done (o st)) /\ incl (uuids s) (finished (o st)).
  Proof.
    intros Hp st R x Hx. destruct (results_sound_protocol_l c Hp st R) as [Nd H5].
    assert (Ne : undelivered st <> []) by (intros E; rewrite E in Hx; destruct Hx).
    destruct (proj2 (reach_DInv st R) Ne) as (_ & pre & rest & _ & Ey).
    assert (Iy : In x (yielded (o st))) by (rewrite Ey; apply in_or_app; right; apply in_or_app; left; exact Hx).
    split; [eapply NoDup_app_r; exact Nd|]. split; [exact Iy|]. apply H5. apply in_or_app. right. exact Iy.
  Qed.
End Stream.
