(* Source-text tie, C18: the definitions regenerated from index.py / link_validator.py / link.py (Gen/Src.v) equal the
   hand-written models of Model/LinkSel.v.  Lemmas with proofs; statements are repeated in Props/SrcTie.v. *)
From Coq Require Import List Bool ZArith String Arith Lia.
Import ListNotations.
Require Import MV.Model.PySem MV.Model.LinkSel MV.Gen.Src.
Open Scope Z_scope.

(* ---------- t[i] ---------- *)
Lemma py_len_app : forall (A : Type) (a b : list A), py_len (a ++ b) = py_len a + py_len b.
Proof. intros. unfold py_len. rewrite app_length. lia. Qed.

Lemma py_len_nonneg : forall (A : Type) (a : list A), 0 <= py_len a.
Proof. intros. unfold py_len. lia. Qed.

Lemma py_getitem_middle : forall (A : Type) (pre suf : list A) (x : A),
  py_getitem (pre ++ x :: suf) (py_len pre) = Ok x.
Proof.
  intros. unfold py_getitem.
  pose proof (py_len_nonneg A pre) as H.
  destruct (Z.ltb (py_len pre) 0) eqn:E; [apply Z.ltb_lt in E; lia|].
  rewrite E. unfold py_len. rewrite Nat2Z.id.
  rewrite nth_error_app2 by lia. rewrite Nat.sub_diag. reflexivity.
Qed.

(* ---------- Index.is_a_part_of_ ---------- *)
Lemma part_loop_src : forall other pre suf,
  Index_is_a_part_of__loop1 (pre ++ suf) (py_len (pre ++ suf)) other (py_len pre)
  = if part_loop suf other then Fall tt else Exit (Ok false).
Proof.
  induction other as [|y other IH]; intros pre suf.
  - destruct suf; reflexivity.
  - destruct suf as [|x suf].
    + cbn [Index_is_a_part_of__loop1 part_loop]. rewrite app_nil_r.
      destruct (Z.ltb (py_len pre - 1) (py_len pre)) eqn:E; [reflexivity|].
      apply Z.ltb_ge in E. lia.
    + cbn [Index_is_a_part_of__loop1 part_loop].
      destruct (Z.ltb (py_len (pre ++ x :: suf) - 1) (py_len pre)) eqn:E.
      { apply Z.ltb_lt in E. rewrite py_len_app in E. unfold py_len in E. cbn [List.length] in E. lia. }
      rewrite py_getitem_middle.
      destruct (String.eqb y x) eqn:Eyx; cbn [negb]; [|reflexivity].
      specialize (IH (pre ++ [x]) suf).
      rewrite <- app_assoc in IH. cbn [app] in IH.
      replace (py_len (pre ++ [x])) with (py_len pre + 1) in IH
        by (rewrite py_len_app; unfold py_len; cbn [List.length]; lia).
      exact IH.
Qed.

Lemma index_is_a_part_of_src : forall self other, Index_is_a_part_of_ self other = Ok (is_a_part_of self other).
Proof.
  intros self other. unfold Index_is_a_part_of_, is_a_part_of.
  assert (Hlt : Z.ltb (py_len other) (py_len self) = Nat.ltb (List.length other) (List.length self)).
  { unfold py_len. destruct (Nat.ltb (List.length other) (List.length self)) eqn:E.
    - apply Nat.ltb_lt in E. apply Z.ltb_lt. lia.
    - apply Nat.ltb_ge in E. apply Z.ltb_ge. lia. }
  cbv zeta. rewrite Hlt.
  destruct (Nat.ltb (List.length other) (List.length self)); [reflexivity|].
  pose proof (part_loop_src other [] self) as H. cbn [app] in H.
  change (py_len []) with 0 in H. rewrite H.
  destruct (part_loop self other); reflexivity.
Qed.

(* ---------- Index.is_multi_index ---------- *)
Lemma index_is_multi_index_src : forall i, Index_is_multi_index i = true <-> exists a b r, i = a :: b :: r.
Proof.
  intros i. unfold Index_is_multi_index, py_len. split.
  - intros H. apply Z.ltb_lt in H. destruct i as [|a [|b r]]; cbn [List.length] in H; try lia. eauto.
  - intros (a & b & r & ->). apply Z.ltb_lt. cbn [List.length]. lia.
Qed.

Lemma index_is_multi_index_len : forall i, Index_is_multi_index i = Nat.ltb 1 (List.length i).
Proof.
  intros i. unfold Index_is_multi_index, py_len.
  destruct (Nat.ltb 1 (List.length i)) eqn:E.
  - apply Nat.ltb_lt in E. apply Z.ltb_lt. lia.
  - apply Nat.ltb_ge in E. apply Z.ltb_ge. lia.
Qed.

(* ---------- Link.matches_exact ---------- *)
Lemma link_matches_exact_src : forall l lf rf, Link_matches_exact l lf rf = matches_exact l lf rf.
Proof. reflexivity. Qed.

(* ---------- LinkValidator: the three pair checks ---------- *)
Definition raises_iff (b : bool) : res unit := if b then Raise ValueError else Ok tt.

Lemma non_set_jt_src : forall j, negb (py_in jt_eqb j [APPEND; UNION]) = non_set_jt j.
Proof. destruct j; reflexivity. Qed.

Lemma double_join_inner : forall i l,
  LinkValidator_validate_no_double_joins_loop2 i l
  = if existsb (double_join i) l then Exit (Raise ValueError) else Fall tt.
Proof.
  intros i. induction l as [|j l IH]; [reflexivity|].
  cbn [LinkValidator_validate_no_double_joins_loop2 existsb]. unfold double_join at 1.
  rewrite non_set_jt_src.
  destruct (link_eqb i j); cbn [negb andb orb]; [exact IH|].
  destruct (Nat.eqb (lfg i) (rfg j)); cbn [andb orb]; [|exact IH].
  destruct (Nat.eqb (rfg i) (lfg j)); cbn [andb orb]; [|exact IH].
  destruct (non_set_jt (jt i)); cbn [andb orb]; [reflexivity|exact IH].
Qed.

Lemma double_join_outer : forall links l,
  LinkValidator_validate_no_double_joins_loop1 links l
  = if existsb (fun i => existsb (fun j => double_join i j) links) l then Exit (Raise ValueError) else Fall tt.
Proof.
  intros links. induction l as [|i l IH]; [reflexivity|].
  cbn [LinkValidator_validate_no_double_joins_loop1 existsb]. rewrite double_join_inner.
  change (fun j => double_join i j) with (double_join i).
  destruct (existsb (double_join i) links); cbn [orb]; [reflexivity|exact IH].
Qed.

Lemma validate_no_double_joins_src : forall ls,
  LinkValidator_validate_no_double_joins ls = raises_iff (any_pair double_join ls).
Proof.
  intros ls. unfold LinkValidator_validate_no_double_joins, any_pair, raises_iff. rewrite double_join_outer.
  destruct (existsb _ ls); reflexivity.
Qed.

Lemma conflicting_inner : forall i l,
  LinkValidator_validate_no_conflicting_join_types_loop2 i l
  = if existsb (conflicting_jt i) l then Exit (Raise ValueError) else Fall tt.
Proof.
  intros i. induction l as [|j l IH]; [reflexivity|].
  cbn [LinkValidator_validate_no_conflicting_join_types_loop2 existsb]. unfold conflicting_jt at 1.
  destruct (link_eqb i j); cbn [negb andb orb]; [exact IH|].
  destruct (Nat.eqb (lfg i) (lfg j)); cbn [andb orb]; [|exact IH].
  destruct (Nat.eqb (rfg i) (rfg j)); cbn [andb orb]; [|exact IH].
  destruct (jt_eqb (jt i) (jt j)); cbn [negb andb orb]; [exact IH|reflexivity].
Qed.

Lemma conflicting_outer : forall links l,
  LinkValidator_validate_no_conflicting_join_types_loop1 links l
  = if existsb (fun i => existsb (fun j => conflicting_jt i j) links) l then Exit (Raise ValueError) else Fall tt.
Proof.
  intros links. induction l as [|i l IH]; [reflexivity|].
  cbn [LinkValidator_validate_no_conflicting_join_types_loop1 existsb]. rewrite conflicting_inner.
  change (fun j => conflicting_jt i j) with (conflicting_jt i).
  destruct (existsb (conflicting_jt i) links); cbn [orb]; [reflexivity|exact IH].
Qed.

Lemma validate_no_conflicting_join_types_src : forall ls,
  LinkValidator_validate_no_conflicting_join_types ls = raises_iff (any_pair conflicting_jt ls).
Proof.
  intros ls. unfold LinkValidator_validate_no_conflicting_join_types, any_pair, raises_iff. rewrite conflicting_outer.
  destruct (existsb _ ls); reflexivity.
Qed.

Lemma right_inner : forall i l, jt_eqb (jt i) RIGHT = true ->
  LinkValidator_validate_right_join_constraints_loop2 i l
  = if existsb (right_conflict i) l then Exit (Raise ValueError) else Fall tt.
Proof.
  intros i l Hr. induction l as [|j l IH]; [reflexivity|].
  cbn [LinkValidator_validate_right_join_constraints_loop2 existsb]. unfold right_conflict at 1. rewrite Hr.
  destruct (link_eqb i j); cbn [negb andb orb]; [exact IH|].
  destruct (Nat.eqb (lfg i) (lfg j) || Nat.eqb (lfg i) (rfg j))%bool; cbn [orb]; [reflexivity|exact IH].
Qed.

Lemma right_conflict_not_right : forall i l, jt_eqb (jt i) RIGHT = false -> existsb (right_conflict i) l = false.
Proof.
  intros i l Hr. induction l as [|j l IH]; [reflexivity|].
  cbn [existsb]. unfold right_conflict at 1. rewrite Hr. cbn [andb orb]. exact IH.
Qed.

Lemma right_outer : forall links l,
  LinkValidator_validate_right_join_constraints_loop1 links l
  = if existsb (fun i => existsb (fun j => right_conflict i j) links) l then Exit (Raise ValueError) else Fall tt.
Proof.
  intros links. induction l as [|i l IH]; [reflexivity|].
  cbn [LinkValidator_validate_right_join_constraints_loop1 existsb].
  change (fun j => right_conflict i j) with (right_conflict i).
  destruct (jt_eqb (jt i) RIGHT) eqn:Hr.
  - rewrite (right_inner i links Hr).
    destruct (existsb (right_conflict i) links); cbn [orb]; [reflexivity|exact IH].
  - rewrite (right_conflict_not_right i links Hr). cbn [orb]. exact IH.
Qed.

Lemma validate_right_join_constraints_src : forall ls,
  LinkValidator_validate_right_join_constraints ls = raises_iff (any_pair right_conflict ls).
Proof.
  intros ls. unfold LinkValidator_validate_right_join_constraints, any_pair, raises_iff. rewrite right_outer.
  destruct (existsb _ ls); reflexivity.
Qed.

(* validate_links runs the three checks in this order; it raises exactly when Model/LinkSel.v's validate_rejects says so *)
Lemma validate_links_src : forall ls,
  validate_rejects ls = true <->
  (LinkValidator_validate_no_double_joins ls <> Ok tt \/ LinkValidator_validate_no_conflicting_join_types ls <> Ok tt
   \/ LinkValidator_validate_right_join_constraints ls <> Ok tt).
Proof.
  intros ls. rewrite validate_no_double_joins_src, validate_no_conflicting_join_types_src,
    validate_right_join_constraints_src. unfold validate_rejects, raises_iff.
  destruct (any_pair double_join ls), (any_pair conflicting_jt ls), (any_pair right_conflict ls); cbn [orb];
    split; intros H; try reflexivity; try discriminate;
    try (left; discriminate); try (right; left; discriminate); try (right; right; discriminate);
    destruct H as [H|[H|H]]; exfalso; apply H; reflexivity.
Qed.
