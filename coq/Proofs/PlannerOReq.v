(* The request -> graph stage of Model/PlannerO.v (Engine._process_feature recursion with merge_options and de-duplication by
   Feature.__eq__), for EVERY request of the fragment, every iteration order of input_features() and every number of option
   values:
     feq_refl                 a feature with well-formed options equals itself
     process_spec / collect_spec   the stored features are closed under "merged inputs", pairwise unequal, all descend from a
                              requested feature, all are option instances of the request; request flags are on the requested
     collect_no_depth_error   the recursion depth (fuel) is never exhausted on acyclic definitions
     collect_error_cases      a rejection is the duplicate-request error or the failing merge of an input of an instance
     request_graph_ok_O       the resulting labelled graph satisfies graph_ok and strict: all graph-level theorems apply *)
From Coq Require Import List Bool Arith Lia Permutation String ZArith.
Import ListNotations.
Require Import MV.Model.Orch MV.Model.OrchCheck MV.Model.Options MV.Model.Identity MV.Model.Grouping MV.Model.PlannerA MV.Model.PlannerO.
Require Import MV.Spec.OptionsSpec MV.Spec.GroupingSpec MV.Spec.PlannerASpec MV.Spec.PlannerOSpec.
Require Import MV.Proofs.OptionsP MV.Proofs.GroupingP MV.Proofs.PlannerASets MV.Proofs.PlannerAGraph MV.Proofs.PlannerADet MV.Proofs.PlannerOLabel.
Open Scope list_scope.
Open Scope nat_scope.

(* ---------- a well-formed dictionary equals itself ---------- *)
Lemma find_self : forall (d : dict) kv, nodupk (dkeys d) -> In kv d ->
  find (fun kv' => key_eqb (fst kv) (fst kv')) d = Some kv.
Proof.
  intros d kv. induction d as [|x t IH]; intros Hnd Hin; [destruct Hin|].
  unfold nodupk in Hnd. cbn in Hnd. apply andb_true_iff in Hnd. destruct Hnd as [Hx Ht]. apply negb_true_iff in Hx. cbn [find].
  destruct Hin as [E|Hin].
  - subst x. rewrite key_eqb_refl. reflexivity.
  - destruct (key_eqb (fst kv) (fst x)) eqn:E.
    + exfalso. assert (H : kmem (fst x) (dkeys t) = true).
      { apply kmem_true. exists (fst kv). split; [unfold dkeys; apply in_map; exact Hin | rewrite key_eqb_sym; exact E]. }
      destruct x as [k v]. cbn [fst] in H, Hx. unfold dkeys in H. rewrite H in Hx. discriminate.
    + apply IH; assumption.
Qed.

Lemma refl_dictb_spec : forall d, refl_dictb d = true -> nodupk (dkeys d) /\ forall kv, In kv d -> py_eq (snd kv) (snd kv) = true.
Proof.
  intros d H. unfold refl_dictb in H. apply andb_true_iff in H. destruct H as [H1 H2]. split; [exact H1|].
  intros kv Hin. rewrite forallb_forall in H2. exact (H2 kv Hin).
Qed.

Lemma refl_dictb_intro : forall d, nodupk (dkeys d) -> (forall kv, In kv d -> py_eq (snd kv) (snd kv) = true) -> refl_dictb d = true.
Proof. intros d H1 H2. unfold refl_dictb. apply andb_true_iff. split; [exact H1 | apply forallb_forall; exact H2]. Qed.

Lemma py_eq_dict_refl : forall d, refl_dictb d = true -> py_eq (VDict d) (VDict d) = true.
Proof.
  intros d H. destruct (refl_dictb_spec d H) as [Hnd Hv]. cbn [py_eq]. rewrite Nat.eqb_refl. cbn [andb].
  apply forallb_forall. intros kv Hin. rewrite (find_self d kv Hnd Hin). exact (Hv kv Hin).
Qed.

(* ---------- preserved by the dictionary operations of update_with_protected_keys ---------- *)
Lemma vals_dset : forall (Q : pyval -> Prop) k v d, (forall kv, In kv d -> Q (snd kv)) -> Q v -> forall kv, In kv (dset k v d) -> Q (snd kv).
Proof.
  intros Q k v d. induction d as [|[k' v'] t IH]; intros Hd Hv kv Hin; cbn in Hin.
  - destruct Hin as [E|[]]. subst kv. exact Hv.
  - destruct (key_eqb k k').
    + destruct Hin as [E|Hin]; [subst kv; exact Hv | apply Hd; right; exact Hin].
    + destruct Hin as [E|Hin]; [subst kv; apply (Hd (k', v')); left; reflexivity|].
      apply IH; [intros x Hx; apply Hd; right; exact Hx | exact Hv | exact Hin].
Qed.

Lemma vals_dupdate : forall (Q : pyval -> Prop) o d, (forall kv, In kv d -> Q (snd kv)) -> (forall kv, In kv o -> Q (snd kv)) ->
  forall kv, In kv (dupdate d o) -> Q (snd kv).
Proof.
  intros Q o. induction o as [|[k v] t IH]; intros d Hd Ho kv Hin; [exact (Hd kv Hin)|].
  rewrite dupdate_cons in Hin. apply (IH (dset k v d)); [|intros x Hx; apply Ho; right; exact Hx | exact Hin].
  apply vals_dset; [exact Hd | apply (Ho (k, v)); left; reflexivity].
Qed.

Lemma refl_dupdate : forall d o, refl_dictb d = true -> (forall kv, In kv o -> py_eq (snd kv) (snd kv) = true) -> refl_dictb (dupdate d o) = true.
Proof.
  intros d o Hd Ho. destruct (refl_dictb_spec d Hd) as [Hnd Hv]. apply refl_dictb_intro; [apply nodupk_dupdate; exact Hnd|].
  apply (vals_dupdate (fun v => py_eq v v = true)); assumption.
Qed.

Lemma ogood_update : forall other prot s, ogoodb other = true -> ogoodb s = true -> ogoodb (fst (o_update other prot s)) = true.
Proof.
  intros other prot s Ho Hs. unfold ogoodb in *. apply andb_true_iff in Ho, Hs. destruct Ho as [Hog Hoc]. destruct Hs as [Hsg Hsc].
  destruct (refl_dictb_spec _ Hog) as [_ Vog]. destruct (refl_dictb_spec _ Hoc) as [_ Voc].
  unfold o_update. destruct (match prot with Some p => Some p | None => default_protected s end) as [pk|]; cbn [fst og oc]; [|rewrite Hsg, Hsc; reflexivity].
  set (ogc := filter (fun kv => negb (kmem (fst kv) pk)) (og other)).
  assert (Vogc : forall kv, In kv ogc -> py_eq (snd kv) (snd kv) = true) by (intros kv H; apply filter_In in H; apply Vog; apply H).
  destruct (existsb _ (dkeys ogc)); cbn [fst og oc]; [rewrite Hsg, Hsc; reflexivity|].
  assert (Hg' : refl_dictb (dupdate (og s) ogc) = true) by (apply refl_dupdate; assumption).
  destruct (is_nil (opk other)); cbn [fst og oc]; [rewrite Hg', Hsc; reflexivity|].
  set (pr := filter _ (oc other)).
  assert (Vpr : forall kv, In kv pr -> py_eq (snd kv) (snd kv) = true) by (intros kv H; apply filter_In in H; apply Voc; apply H).
  destruct (existsb _ (dkeys pr)); cbn [fst og oc]; [rewrite Hg', Hsc; reflexivity|].
  destruct (existsb _ pr); cbn [fst og oc]; [rewrite Hg', Hsc; reflexivity|].
  rewrite Hg'. cbn [andb]. apply refl_dupdate; assumption.
Qed.

Lemma ogood_merge : forall child s, ogoodb child = true -> ogoodb s = true -> ogoodb (fst (o_merge child s)) = true.
Proof.
  intros child s Hc Hs. unfold o_merge. destruct (default_protected s); [|exact Hs].
  destruct (existsb _ (o_items child)); [exact Hs | apply ogood_update; assumption].
Qed.

Lemma ogood_empty : ogoodb empty_opt = true. Proof. reflexivity. Qed.
Lemma ogood_norm_child : forall s, ogoodb s = true -> ogoodb (norm_child s) = true.
Proof. intros s H. unfold norm_child. destruct (is_nil (og s) && is_nil (oc s)); [reflexivity | exact H]. Qed.

(* ---------- Feature.__eq__ is reflexive on features with well-formed options ---------- *)
Definition fgood (f : feat) : Prop :=
  f_domain f = None /\ f_child_inf f = None /\ ogoodb (f_opt f) = true /\ match f_child f with Some c => ogoodb c = true | None => True end.

Lemma py_eq_cfw_refl : forall c, py_eq (cfw_val c) (cfw_val c) = true.
Proof.
  intros [l|]; [|reflexivity]. unfold cfw_val, opt_val. cbn [py_eq]. rewrite Nat.eqb_refl. cbn [andb].
  apply forallb_forall. intros e He. apply existsb_exists. exists e. split; [exact He|].
  apply in_map_iff in He. destruct He as [n [E _]]. subst e. cbn. apply Z.eqb_refl.
Qed.

Lemma py_eq_dtype_refl : forall d, py_eq (dtype_val d) (dtype_val d) = true.
Proof. intros [n|]; [|reflexivity]. unfold dtype_val, opt_val. cbn. rewrite Z.eqb_refl. reflexivity. Qed.

Theorem feq_refl : forall f, fgood f -> feq f f = true.
Proof.
  intros f (Hd & Hi & Ho & Hc). unfold ogoodb in Ho. apply andb_true_iff in Ho. destruct Ho as [Hg Hx].
  unfold feq, feat_eq. rewrite String.eqb_refl. cbn [negb]. unfold opt_eq. rewrite (py_eq_dict_refl _ Hg). cbn [negb].
  rewrite (py_eq_dict_refl _ Hx). cbn [negb]. rewrite Hd. cbn [dom_eq]. rewrite py_eq_cfw_refl, py_eq_dtype_refl. cbn [andb].
  unfold child_eq. rewrite Hi. destruct (f_child f) as [c|]; [|reflexivity].
  unfold ogoodb in Hc. apply andb_true_iff in Hc. destruct Hc as [Hcg _]. unfold opt_eq. rewrite (py_eq_dict_refl _ Hcg). reflexivity.
Qed.

Lemma feq_name : forall a b, feq a b = true -> f_name a = f_name b.
Proof.
  intros a b H. unfold feq, feat_eq in H. destruct (String.eqb (f_name a) (f_name b)) eqn:E; [apply String.eqb_eq; exact E|].
  cbn in H. discriminate.
Qed.

Lemma feq_child_mismatch : forall a b c, f_child a = None -> f_child b = Some c -> feq a b = false.
Proof.
  intros a b c Ha Hb. unfold feq, feat_eq.
  destruct (negb (String.eqb (f_name a) (f_name b))); [reflexivity|].
  destruct (negb (opt_eq (f_opt a) (f_opt b))); [reflexivity|].
  destruct (negb (py_eq (VDict (oc (f_opt a))) (VDict (oc (f_opt b))))); [reflexivity|].
  destruct (dom_eq (f_domain a) (f_domain b)) as [[|]|]; try reflexivity.
  unfold child_eq. rewrite Ha, Hb. rewrite andb_false_r. reflexivity.
Qed.

(* ---------- monotonicity ---------- *)
Lemma holds_mono : forall st e p, holds st p -> holds (st ++ e) p.
Proof. intros st e p [r [Hr H]]. exists r. split; [apply in_or_app; left; exact Hr | exact H]. Qed.

Lemma closed1_mono : forall defs st e r, closed1 defs st r -> closed1 defs (st ++ e) r.
Proof.
  intros defs st e r (d & H1 & H2 & H3 & ins & H4 & H5 & H6). exists d. repeat split; try assumption.
  exists ins. repeat split; try assumption. intros p Hp. apply holds_mono. exact (H6 p Hp).
Qed.

Lemma desc_mono : forall st e f r, desc st f r -> desc (st ++ e) f r.
Proof.
  intros st e f r H. induction H as [f r Hr E|f r p r' H IH Hp Hr' E].
  - apply desc_self; [apply in_or_app; left; exact Hr | exact E].
  - apply (desc_step _ f r p r'); [exact IH | exact Hp | apply in_or_app; left; exact Hr' | exact E].
Qed.

Lemma desc_In : forall st f r, desc st f r -> In r st.
Proof. intros st f r H. destruct H; assumption. Qed.

Lemma desc_below : forall st f rf0 p r, In rf0 st -> rf rf0 = f -> In p (rparents rf0) -> desc st p r -> desc st f r.
Proof.
  intros st f rf0 p r H0 E0 Hp H. induction H as [q r Hr E|q r p' r' H IH Hp' Hr' E].
  - apply (desc_step st f rf0 q r); [apply desc_self; assumption | exact Hp | exact Hr | exact E].
  - apply (desc_step st f r p' r'); [apply IH; exact Hp | exact Hp' | exact Hr' | exact E].
Qed.

Lemma nodup_feq_snoc_inv : forall l y, nodup_feq (l ++ [y]) -> nodup_feq l /\ forall x, In x l -> feq y x = false.
Proof.
  intros l y H. inversion H as [E|l' y' H1 H2 E].
  - destruct l; discriminate.
  - apply app_inj_tail in E. destruct E as [E1 E2]. subst l' y'. split; assumption.
Qed.

(* ---------- Features.__init__ over the inputs ---------- *)
Lemma merge_class_values : forall c s, merge_class c s = 0 \/ merge_class c s = 3 \/ merge_class c s = 4 \/ merge_class c s = 5.
Proof.
  intros c s. unfold merge_class. destruct (default_protected s); [|right; right; right; reflexivity].
  destruct (existsb _ (o_items c)); [right; left; reflexivity|].
  destruct (snd (o_update c None s)) as [[|]|]; [right; right; left; reflexivity | right; right; right; reflexivity | left; reflexivity].
Qed.

Definition built (defs : list odef) (c : ostate) (i : oin) : feat :=
  mk_feat (oi_name i) (fst (o_merge c (oi_opt i))) (cfw_for defs (oi_name i)) (oi_ty i) (Some c).

Lemma input_of_inl : forall defs f i p, input_of defs f i = inl p <->
  merge_class (norm_child (f_opt f)) (oi_opt i) = 0 /\ p = built defs (norm_child (f_opt f)) i.
Proof.
  intros defs f i p. unfold input_of, built. destruct (merge_class (norm_child (f_opt f)) (oi_opt i)) as [|e]; split.
  - intros H. injection H as H. split; [reflexivity | symmetry; exact H].
  - intros [_ E]. subst p. reflexivity.
  - discriminate.
  - intros [H _]. discriminate.
Qed.

Lemma build_inputs_spec : forall defs c ins ps, build_inputs defs c ins = inl ps ->
  Forall2 (fun i p => merge_class c (oi_opt i) = 0 /\ p = built defs c i) ins ps.
Proof.
  intros defs c ins. induction ins as [|i t IH]; intros ps H; cbn [build_inputs] in H.
  - injection H as H. subst ps. constructor.
  - destruct (merge_class c (oi_opt i)) as [|e] eqn:E; [|discriminate].
    destruct (build_inputs defs c t) as [fs|e'] eqn:Et; [|discriminate]. injection H as H. subst ps.
    constructor; [split; [exact E | reflexivity] | apply IH; reflexivity].
Qed.

Lemma build_inputs_err : forall defs c ins e, build_inputs defs c ins = inr e ->
  exists i, In i ins /\ merge_class c (oi_opt i) = e /\ e <> 0.
Proof.
  intros defs c ins. induction ins as [|i t IH]; intros e H; cbn [build_inputs] in H; [discriminate|].
  destruct (merge_class c (oi_opt i)) as [|e0] eqn:E.
  - destruct (build_inputs defs c t) as [fs|e'] eqn:Et; [discriminate|]. injection H as H. subst e'.
    destruct (IH e eq_refl) as [j [Hj R]]. exists j. split; [right; exact Hj | exact R].
  - injection H as H. subst e. exists i. split; [left; reflexivity|]. split; [exact E | discriminate].
Qed.

Lemma built_to_input_of : forall defs f ins ps,
  Forall2 (fun i p => merge_class (norm_child (f_opt f)) (oi_opt i) = 0 /\ p = built defs (norm_child (f_opt f)) i) ins ps ->
  Forall2 (fun i p => input_of defs f i = inl p) ins ps.
Proof. intros defs f ins ps H. induction H as [|i p li lp Hip _ IH]; constructor; [apply input_of_inl; exact Hip | exact IH]. Qed.

Lemma built_fgood : forall defs c i, ogoodb c = true -> ogoodb (oi_opt i) = true -> fgood (built defs c i).
Proof.
  intros defs c i Hc Hi. unfold fgood, built, mk_feat. cbn. repeat split; try reflexivity; [apply ogood_merge; assumption | exact Hc].
Qed.

(* ---------- the recursion ---------- *)
Section Req.
  Variables (iord : nat -> list oin -> list oin) (defs : list odef).
  Hypothesis Hiord : iord_ok iord.
  Hypothesis Hdecl : forall d i, In d defs -> In i (od_ins d) -> ogoodb (oi_opt i) = true.

  Definition pstep (n : nat) (acc : list rnode + nat) (p : feat) : list rnode + nat :=
    match acc with inl s => process n iord defs s p false | inr e => inr e end.
  Definition plist (n : nat) (acc : list rnode + nat) (ps : list feat) : list rnode + nat := fold_left (pstep n) ps acc.

  Lemma process_S : forall n st f flag, process (S n) iord defs st f flag =
    match odef_of defs (f_name f) with
    | None => inr 7
    | Some d =>
      if existsb (fun r => feq f (rf r)) st then inl st
      else match build_inputs defs (norm_child (f_opt f)) (iord (List.length st) (od_ins d)) with
           | inr e => inr e
           | inl ps => plist n (inl (st ++ [{| rf := f; rgrp := od_grp d; rcfw := od_cfw d; rreq := flag; rparents := ps |}])) ps
           end
    end.
  Proof. reflexivity. Qed.

  Lemma plist_inr : forall n ps e, plist n (inr e) ps = inr e.
  Proof. intros n ps e. induction ps as [|p t IH]; [reflexivity | exact IH]. Qed.

  Lemma odef_of_In : forall x d, odef_of defs x = Some d -> In d defs /\ od_name d = x.
  Proof.
    intros x d H. unfold odef_of in H. apply find_some in H. destruct H as [H1 H2]. split; [exact H1 | apply String.eqb_eq; exact H2].
  Qed.

  Definition PostP (st : list rnode) (f : feat) (flag : bool) (st' : list rnode) : Prop :=
    exists ext, st' = st ++ ext /\ holds st' f /\
      (forall r, In r ext -> fgood (rf r) /\ closed1 defs st' r /\ desc st' f r) /\
      (ext = [] \/ exists r0 rest, ext = r0 :: rest /\ rf r0 = f /\ rreq r0 = flag /\ forall r, In r rest -> rreq r = false) /\
      (ext = [] -> existsb (fun r => feq f (rf r)) st = true) /\
      (nodup_feq (map rf st) -> nodup_feq (map rf st')).
  Definition PostL (st : list rnode) (ps : list feat) (st' : list rnode) : Prop :=
    exists ext, st' = st ++ ext /\ (forall p, In p ps -> holds st' p) /\
      (forall r, In r ext -> fgood (rf r) /\ closed1 defs st' r /\ exists p, In p ps /\ desc st' p r) /\
      (forall r, In r ext -> rreq r = false) /\
      (nodup_feq (map rf st) -> nodup_feq (map rf st')).

  Lemma list_from_proc : forall n,
    (forall st f st', fgood f -> process n iord defs st f false = inl st' -> PostP st f false st') ->
    forall ps st st', (forall p, In p ps -> fgood p) -> plist n (inl st) ps = inl st' -> PostL st ps st'.
  Proof.
    intros n IHn ps. induction ps as [|p t IH]; intros st st' Hg H.
    - cbn in H. injection H as H. subst st'. exists []. rewrite app_nil_r. split; [reflexivity|].
      split; [intros ? []|]. split; [intros ? []|]. split; [intros ? [] | auto].
    - cbn [plist fold_left pstep] in H. fold (plist n (process n iord defs st p false) t) in H.
      destruct (process n iord defs st p false) as [s1|e] eqn:E1; [|rewrite plist_inr in H; discriminate].
      destruct (IHn st p s1 (Hg p (or_introl eq_refl)) E1) as (ext1 & E & Hh & Hn & Hf & _ & Hd). subst s1.
      destruct (IH (st ++ ext1) st' (fun q Hq => Hg q (or_intror Hq)) H) as (ext2 & E' & Hh2 & Hn2 & Hf2 & Hd2). subst st'.
      exists (ext1 ++ ext2). rewrite app_assoc. split; [reflexivity|]. split; [|split; [|split]].
      + intros q [Eq|Hq]; [subst q; apply holds_mono; exact Hh | exact (Hh2 q Hq)].
      + intros r Hr. apply in_app_iff in Hr. destruct Hr as [Hr|Hr].
        * destruct (Hn r Hr) as (A & B & C). split; [exact A|]. split; [apply closed1_mono; exact B|].
          exists p. split; [left; reflexivity | apply desc_mono; exact C].
        * destruct (Hn2 r Hr) as (A & B & q & Hq & C). split; [exact A|]. split; [exact B|]. exists q. split; [right; exact Hq | exact C].
      + intros r Hr. apply in_app_iff in Hr. destruct Hr as [Hr|Hr]; [|exact (Hf2 r Hr)].
        destruct Hf as [Hf|(r0 & rest & Ee & _ & F0 & Fr)]; [subst ext1; destruct Hr|]. subst ext1.
        destruct Hr as [Hr|Hr]; [subst r; exact F0 | exact (Fr r Hr)].
      + intros Hnd. apply Hd2. apply Hd. exact Hnd.
  Qed.

  Theorem process_spec : forall n st f flag st', fgood f -> process n iord defs st f flag = inl st' -> PostP st f flag st'.
  Proof.
    intros n. induction n as [|n IHn]; intros st f flag st' Hg H; [discriminate|].
    rewrite process_S in H. destruct (odef_of defs (f_name f)) as [d|] eqn:Ed; [|discriminate].
    destruct (existsb (fun r => feq f (rf r)) st) eqn:Ex.
    - injection H as H. subst st'. exists []. rewrite app_nil_r. split; [reflexivity|]. split.
      + apply existsb_exists in Ex. destruct Ex as [r [Hr Hf]]. exists r. split; [exact Hr | right; exact Hf].
      + split; [intros ? []|]. split; [left; reflexivity|]. split; [intros _; exact Ex | auto].
    - destruct (build_inputs defs (norm_child (f_opt f)) (iord (List.length st) (od_ins d))) as [ps|e] eqn:Eb; [|discriminate].
      set (r_f := {| rf := f; rgrp := od_grp d; rcfw := od_cfw d; rreq := flag; rparents := ps |}) in *.
      destruct (odef_of_In _ _ Ed) as [Hdin Hdn].
      pose proof (build_inputs_spec _ _ _ _ Eb) as Hb.
      assert (Hc : ogoodb (norm_child (f_opt f)) = true) by (apply ogood_norm_child; apply Hg).
      assert (Hgp : forall p, In p ps -> fgood p).
      { intros p Hp. destruct (Forall2_In_r _ _ _ _ _ p Hb Hp) as [i [Hi [_ E]]]. subst p. apply built_fgood; [exact Hc|].
        apply (Hdecl d i Hdin). exact (Permutation_in _ (Hiord _ _) Hi). }
      destruct (list_from_proc n (fun s g s' Hgg Hp => IHn s g false s' Hgg Hp) ps (st ++ [r_f]) st' Hgp H) as (ext2 & E & Hh & Hn & Hf & Hd).
      subst st'. exists (r_f :: ext2). rewrite <- app_assoc. cbn [app]. split; [reflexivity|].
      assert (Hrf : In r_f (st ++ r_f :: ext2)) by (apply in_or_app; right; left; reflexivity).
      rewrite <- app_assoc in Hh, Hn, Hd. cbn [app] in Hh, Hn, Hd.
      split; [exists r_f; split; [exact Hrf | left; reflexivity]|]. split; [|split; [|split]].
      + intros r [Er|Hr].
        * subst r. split; [exact Hg|]. split; [|apply desc_self; [exact Hrf | reflexivity]].
          exists d. cbn [rf rgrp rcfw rparents r_f]. split; [exact Ed|]. split; [reflexivity|]. split; [reflexivity|].
          exists (iord (List.length st) (od_ins d)). split; [apply Hiord|]. split; [|exact Hh].
          exact (built_to_input_of defs f _ _ Hb).
        * destruct (Hn r Hr) as (A & B & p & Hp & C). split; [exact A|]. split; [exact B|].
          exact (desc_below _ f r_f p r Hrf eq_refl Hp C).
      + right. exists r_f, ext2. repeat split; try reflexivity. exact Hf.
      + discriminate.
      + intros Hnd. apply Hd. rewrite map_app. cbn [map rf r_f]. apply nd_snoc; [exact Hnd|].
        intros x Hx. apply in_map_iff in Hx. destruct Hx as [r [E Hr]]. subst x.
        destruct (feq f (rf r)) eqn:Ef; [|reflexivity]. exfalso.
        assert (X : existsb (fun r0 => feq f (rf r0)) st = true) by (apply existsb_exists; exists r; split; assumption). congruence.
  Qed.
End Req.

(* ---------- the requested list ---------- *)
Lemma has_dup_from_spec : forall l seen, has_dup_from seen l = false ->
  forall a x b, l = a ++ x :: b -> forall e, In e (seen ++ a) -> feq x e = false.
Proof.
  intros l. induction l as [|y t IH]; intros seen H a x b E e He; [destruct a; discriminate|].
  cbn [has_dup_from] in H. apply orb_false_iff in H. destruct H as [H1 H2]. destruct a as [|a0 a'].
  - cbn in E. injection E as E1 E2. subst y t. rewrite app_nil_r in He.
    destruct (feq x e) eqn:F; [|reflexivity]. assert (X : existsb (feq x) seen = true) by (apply existsb_exists; exists e; split; assumption). congruence.
  - cbn in E. injection E as E1 E2. subst y. apply (IH (seen ++ [a0]) H2 a' x b E2 e). rewrite <- app_assoc. exact He.
Qed.

Lemma parent_child_some : forall defs st r p, closed1 defs st r -> In p (rparents r) ->
  (exists c, f_child p = Some c) /\ exists d i, odef_of defs (f_name (rf r)) = Some d /\ In i (od_ins d) /\ input_of defs (rf r) i = inl p /\ f_name p = oi_name i.
Proof.
  intros defs st r p (d & Hd & _ & _ & ins & Hperm & Hf2 & _) Hp.
  destruct (Forall2_In_r _ _ _ _ _ p Hf2 Hp) as [i [Hi Hin]]. pose proof Hin as Hin'. apply input_of_inl in Hin. destruct Hin as [_ E].
  split; [subst p; eexists; reflexivity|]. exists d, i. split; [exact Hd|]. split; [exact (Permutation_in _ Hperm Hi)|]. split; [exact Hin' | subst p; reflexivity].
Qed.

Lemma desc_cases : forall defs st f r, (forall r0, In r0 st -> closed1 defs st r0) -> desc st f r ->
  rf r = f \/ exists c, f_child (rf r) = Some c.
Proof.
  intros defs st f r Hcl H. destruct H as [f r Hr E|f r p r' H Hp Hr' E]; [left; exact E|]. right.
  rewrite E. exact (proj1 (parent_child_some defs st r p (Hcl r (desc_In _ _ _ H)) Hp)).
Qed.

Lemma desc_inst : forall defs st rq f r, (forall r0, In r0 st -> closed1 defs st r0) -> In f rq -> desc st f r -> inst defs rq (rf r).
Proof.
  intros defs st rq f r Hcl Hf H. induction H as [f r Hr E|f r p r' H IH Hp Hr' E]; [rewrite E; apply inst_req; exact Hf|].
  destruct (parent_child_some defs st r p (Hcl r (desc_In _ _ _ H)) Hp) as (_ & d & i & Hd & Hi & Hin & _).
  rewrite E. exact (inst_in defs rq (rf r) d i p (IH Hf) Hd Hi Hin).
Qed.

Section Collect.
  Variables (iord : nat -> list oin -> list oin) (defs : list odef).
  Hypothesis Hiord : iord_ok iord.
  Hypothesis Hdecl : forall d i, In d defs -> In i (od_ins d) -> ogoodb (oi_opt i) = true.

  Definition cstep (acc : list rnode + nat) (f : feat) : list rnode + nat :=
    match acc with inl s => process (S (List.length defs)) iord defs s f true | inr e => inr e end.
  Definition clist (acc : list rnode + nat) (fs : list feat) : list rnode + nat := fold_left cstep fs acc.

  Lemma clist_inr : forall fs e, clist (inr e) fs = inr e.
  Proof. intros fs e. induction fs as [|f t IH]; [reflexivity | exact IH]. Qed.

  Record CInv (done : list feat) (st : list rnode) : Prop := {
    ci_nodes : forall r, In r st -> fgood (rf r) /\ closed1 defs st r /\ exists f, In f done /\ desc st f r;
    ci_nodup : nodup_feq (map rf st);
    ci_req : forall f, In f done -> exists r, In r st /\ rf r = f /\ rreq r = true;
    ci_flag : forall r, In r st -> rreq r = true -> In (rf r) done;
    ci_kind : forall r, In r st -> In (rf r) done \/ exists c, f_child (rf r) = Some c
  }.

  Lemma cinv_nil : CInv [] [].
  Proof. split; try (intros ? []). constructor. Qed.

  Lemma cinv_step : forall done st f st', CInv done st -> fgood f -> f_child f = None -> (forall e, In e done -> feq f e = false) ->
    process (S (List.length defs)) iord defs st f true = inl st' -> CInv (done ++ [f]) st'.
  Proof.
    intros done st f st' [I1 I2 I3 I4 I5] Hg Hc Hne H.
    destruct (process_spec iord defs Hiord Hdecl _ st f true st' Hg H) as (ext & E & Hh & Hn & Hf & Hx & Hd). subst st'.
    assert (Hext : exists r0 rest, ext = r0 :: rest /\ rf r0 = f /\ rreq r0 = true /\ forall r, In r rest -> rreq r = false).
    { destruct Hf as [Hf|Hf]; [|exact Hf]. exfalso. apply Hx in Hf. apply existsb_exists in Hf. destruct Hf as [r [Hr Hfr]].
      destruct (I5 r Hr) as [Hin|[c Hcs]]; [rewrite (Hne _ Hin) in Hfr; discriminate|].
      rewrite (feq_child_mismatch f (rf r) c Hc Hcs) in Hfr. discriminate. }
    destruct Hext as (r0 & rest & Ee & F0 & Fq & Fr).
    assert (N1 : forall r, In r (st ++ ext) -> fgood (rf r) /\ closed1 defs (st ++ ext) r /\ exists g, In g (done ++ [f]) /\ desc (st ++ ext) g r).
    { intros r Hr. apply in_app_iff in Hr. destruct Hr as [Hr|Hr].
      - destruct (I1 r Hr) as (A & B & g & Hg' & C). split; [exact A|]. split; [apply closed1_mono; exact B|].
        exists g. split; [apply in_or_app; left; exact Hg' | apply desc_mono; exact C].
      - destruct (Hn r Hr) as (A & B & C). split; [exact A|]. split; [exact B|]. exists f. split; [apply in_or_app; right; left; reflexivity | exact C]. }
    split.
    - exact N1.
    - exact (Hd I2).
    - intros g Hgin. apply in_app_iff in Hgin. destruct Hgin as [Hgin|[Eg|[]]].
      + destruct (I3 g Hgin) as (r & Hr & A & B). exists r. split; [apply in_or_app; left; exact Hr | split; assumption].
      + subst g. exists r0. split; [apply in_or_app; right; rewrite Ee; left; reflexivity | split; assumption].
    - intros r Hr Hq. apply in_app_iff in Hr. destruct Hr as [Hr|Hr]; [apply in_or_app; left; exact (I4 r Hr Hq)|].
      rewrite Ee in Hr. destruct Hr as [Er|Hr]; [subst r; rewrite F0; apply in_or_app; right; left; reflexivity|].
      rewrite (Fr r Hr) in Hq. discriminate.
    - intros r Hr. apply in_app_iff in Hr. destruct Hr as [Hr|Hr].
      + destruct (I5 r Hr) as [A|A]; [left; apply in_or_app; left; exact A | right; exact A].
      + destruct (Hn r Hr) as (_ & _ & C).
        destruct (desc_cases defs (st ++ ext) f r (fun r1 H1 => proj1 (proj2 (N1 r1 H1))) C) as [A|A];
          [left; rewrite A; apply in_or_app; right; left; reflexivity | right; exact A].
  Qed.

  Lemma clist_spec : forall todo done st stf, CInv done st -> (forall f, In f todo -> fgood f /\ f_child f = None) ->
    has_dup_from done todo = false -> clist (inl st) todo = inl stf -> CInv (done ++ todo) stf.
  Proof.
    intros todo. induction todo as [|f t IH]; intros done st stf HI Hg Hdup H.
    - cbn in H. injection H as H. subst stf. rewrite app_nil_r. exact HI.
    - cbn [clist fold_left cstep] in H. fold (clist (process (S (List.length defs)) iord defs st f true) t) in H.
      destruct (process (S (List.length defs)) iord defs st f true) as [s1|e] eqn:E1; [|rewrite clist_inr in H; discriminate].
      destruct (Hg f (or_introl eq_refl)) as [Gf Cf].
      assert (Hne : forall e, In e done -> feq f e = false).
      { intros e He. apply (has_dup_from_spec (f :: t) done Hdup [] f t eq_refl). rewrite app_nil_r. exact He. }
      pose proof (cinv_step done st f s1 HI Gf Cf Hne E1) as HI1.
      cbn [has_dup_from] in Hdup. apply orb_false_iff in Hdup. destruct Hdup as [_ Hdup].
      pose proof (IH (done ++ [f]) s1 stf HI1 (fun g Hgt => Hg g (or_intror Hgt)) Hdup H) as R.
      rewrite <- app_assoc in R. exact R.
  Qed.
End Collect.

Lemma collect_unfold : forall iord defs rq, collect iord defs rq =
  if has_dup (map (req_feat defs) rq) then inr 6 else clist iord defs (inl []) (map (req_feat defs) rq).
Proof. reflexivity. Qed.

Lemma req_feat_good : forall defs r, ogoodb (rq_opt r) = true -> fgood (req_feat defs r) /\ f_child (req_feat defs r) = None.
Proof. intros defs r H. unfold req_feat, mk_feat, fgood. cbn. repeat split; try reflexivity. exact H. Qed.

(* EVERY accepted request, every iteration order: what the stored features are *)
Theorem collect_spec : forall iord defs rq st, iord_ok iord -> decl_ok defs rq -> collect iord defs rq = inl st ->
  let fs := map (req_feat defs) rq in
  (forall r, In r st -> closed1 defs st r) /\
  (forall r, In r st -> inst defs fs (rf r)) /\
  (forall r, In r st -> exists f, In f fs /\ desc st f r) /\
  nodup_feq (map rf st) /\
  (forall f, In f fs -> exists r, In r st /\ rf r = f /\ rreq r = true) /\
  (forall r, In r st -> rreq r = true -> In (rf r) fs) /\
  (forall r, In r st -> fgood (rf r)).
Proof.
  intros iord defs rq st Hiord [Hd1 Hd2] H fs. rewrite collect_unfold in H. fold fs in H.
  destruct (has_dup fs) eqn:Edup; [discriminate|].
  assert (Hg : forall f, In f fs -> fgood f /\ f_child f = None).
  { intros f Hf. unfold fs in Hf. apply in_map_iff in Hf. destruct Hf as [r [E Hr]]. subst f. apply req_feat_good. exact (Hd2 r Hr). }
  destruct (clist_spec iord defs Hiord Hd1 fs [] [] st (cinv_nil defs) Hg Edup H) as [I1 I2 I3 I4 I5]. cbn [app] in *.
  assert (Hcl : forall r, In r st -> closed1 defs st r) by (intros r Hr; apply (I1 r Hr)).
  split; [exact Hcl|]. split; [|split; [|split; [|split; [|split]]]].
  - intros r Hr. destruct (I1 r Hr) as (_ & _ & f & Hf & Hdesc). exact (desc_inst defs st fs f r Hcl Hf Hdesc).
  - intros r Hr. apply (I1 r Hr).
  - exact I2.
  - exact I3.
  - exact I4.
  - intros r Hr. apply (I1 r Hr).
Qed.

(* ---------- rejections; the recursion depth is never exhausted ---------- *)
Inductive reachF (defs : list odef) : feat -> feat -> Prop :=
  | rf_refl : forall f, reachF defs f f
  | rf_step : forall f d i p g, odef_of defs (f_name f) = Some d -> In i (od_ins d) -> input_of defs f i = inl p ->
                                reachF defs p g -> reachF defs f g.

Lemma inst_reach : forall defs rq f g, inst defs rq f -> reachF defs f g -> inst defs rq g.
Proof.
  intros defs rq f g Hi Hr. induction Hr as [f|f d i p g Hd Hin Hp _ IH]; [exact Hi|].
  apply IH. exact (inst_in defs rq f d i p Hi Hd Hin Hp).
Qed.

Section Errors.
  Variables (iord : nat -> list oin -> list oin) (defs : list odef) (rk : string -> nat).
  Hypothesis Hiord : iord_ok iord.
  Hypothesis Hdefd : forall d i, In d defs -> In i (od_ins d) -> exists d', odef_of defs (oi_name i) = Some d'.
  Hypothesis Hrk : forall d i, In d defs -> In i (od_ins d) -> rk (oi_name i) < rk (od_name d).

  Lemma plist_err : forall n ps s e, plist iord defs n (inl s) ps = inr e ->
    exists p s', In p ps /\ process n iord defs s' p false = inr e.
  Proof.
    intros n ps. induction ps as [|p t IH]; intros s e H; [discriminate|].
    cbn [plist fold_left pstep] in H. fold (plist iord defs n (process n iord defs s p false) t) in H.
    destruct (process n iord defs s p false) as [s1|e1] eqn:E1.
    - destruct (IH s1 e H) as [q [s' [Hq Hp]]]. exists q, s'. split; [right; exact Hq | exact Hp].
    - rewrite plist_inr in H. injection H as H. subst e1. exists p, s. split; [left; reflexivity | exact E1].
  Qed.

  Definition failing (f : feat) (e : nat) : Prop :=
    exists g d i, reachF defs f g /\ odef_of defs (f_name g) = Some d /\ In i (od_ins d) /\ input_of defs g i = inr e.

  Lemma process_err : forall n st f flag e, rk (f_name f) < n -> (exists d, odef_of defs (f_name f) = Some d) ->
    process n iord defs st f flag = inr e -> failing f e.
  Proof.
    intros n. induction n as [|n IHn]; intros st f flag e Hlt [d Hd] H; [lia|].
    rewrite process_S in H. rewrite Hd in H. destruct (existsb (fun r => feq f (rf r)) st); [discriminate|].
    destruct (odef_of_In defs _ _ Hd) as [Hdin Hdn].
    destruct (build_inputs defs (norm_child (f_opt f)) (iord (List.length st) (od_ins d))) as [ps|e0] eqn:Eb.
    - destruct (plist_err n ps _ e H) as [p [s' [Hp Hpe]]].
      pose proof (build_inputs_spec _ _ _ _ Eb) as Hb. destruct (Forall2_In_r _ _ _ _ _ p Hb Hp) as [i [Hi Hip]].
      assert (Hin : In i (od_ins d)) by exact (Permutation_in _ (Hiord _ _) Hi).
      assert (Hnm : f_name p = oi_name i) by (destruct Hip as [_ E]; subst p; reflexivity).
      assert (Hlt' : rk (f_name p) < n) by (rewrite Hnm; pose proof (Hrk d i Hdin Hin) as X; rewrite Hdn in X; lia).
      assert (Hdp : exists d', odef_of defs (f_name p) = Some d') by (rewrite Hnm; exact (Hdefd d i Hdin Hin)).
      destruct (IHn s' p false e Hlt' Hdp Hpe) as (g & d' & i' & R & A & B & C).
      exists g, d', i'. split; [|split; [exact A | split; [exact B | exact C]]].
      apply (rf_step defs f d i p g Hd Hin); [apply input_of_inl; exact Hip | exact R].
    - injection H as H. subst e0. destruct (build_inputs_err _ _ _ _ Eb) as [i [Hi [Hm Hne]]].
      exists f, d, i. split; [apply rf_refl|]. split; [exact Hd|]. split; [exact (Permutation_in _ (Hiord _ _) Hi)|].
      unfold input_of. rewrite Hm. destruct e as [|e']; [congruence | reflexivity].
  Qed.

  Lemma clist_err : forall fs s e, clist iord defs (inl s) fs = inr e ->
    exists f s', In f fs /\ process (S (List.length defs)) iord defs s' f true = inr e.
  Proof.
    intros fs. induction fs as [|f t IH]; intros s e H; [discriminate|].
    cbn [clist fold_left cstep] in H. fold (clist iord defs (process (S (List.length defs)) iord defs s f true) t) in H.
    destruct (process (S (List.length defs)) iord defs s f true) as [s1|e1] eqn:E1.
    - destruct (IH s1 e H) as [q [s' [Hq Hp]]]. exists q, s'. split; [right; exact Hq | exact Hp].
    - rewrite clist_inr in H. injection H as H. subst e1. exists f, s. split; [left; reflexivity | exact E1].
  Qed.
End Errors.

Lemma input_of_err_values : forall defs f i e, input_of defs f i = inr e -> e = 3 \/ e = 4 \/ e = 5.
Proof.
  intros defs f i e H. unfold input_of in H. destruct (merge_class_values (norm_child (f_opt f)) (oi_opt i)) as [E|[E|[E|E]]]; rewrite E in H;
    [discriminate | injection H as H; left; auto | injection H as H; right; left; auto | injection H as H; right; right; auto].
Qed.

(* a rejection of the graph stage is the duplicate-request error, or the failing merge (codes 3, 4, 5) of a declared input of an
   option instance of the request; the recursion depth is never exhausted and no name is undefined (codes 9, 7) *)
Theorem collect_error_cases : forall iord defs rq e, iord_ok iord -> odefs_ok defs rq -> collect iord defs rq = inr e ->
  let fs := map (req_feat defs) rq in
  (e = 6 /\ has_dup fs = true) \/
  ((e = 3 \/ e = 4 \/ e = 5) /\
   exists g d i, inst defs fs g /\ odef_of defs (f_name g) = Some d /\ In i (od_ins d) /\ input_of defs g i = inr e).
Proof.
  intros iord defs rq e Hiord (Hnd & Hin & Hdefd & Hreq & rk & Hb & Hrk) H fs. rewrite collect_unfold in H. fold fs in H.
  destruct (has_dup fs) eqn:Edup; [injection H as H; left; split; [symmetry; exact H | reflexivity]|]. right.
  destruct (clist_err iord defs fs [] e H) as [f [s' [Hf Hp]]].
  assert (Hfr : exists r, In r rq /\ f = req_feat defs r) by (unfold fs in Hf; apply in_map_iff in Hf; destruct Hf as [r [E Hr]]; exists r; split; [exact Hr | symmetry; exact E]).
  destruct Hfr as [r [Hr Ef]]. destruct (Hreq r Hr) as [d Hd].
  assert (Hname : f_name f = rq_name r) by (subst f; reflexivity).
  assert (Hlt : rk (f_name f) < S (List.length defs)).
  { rewrite Hname. destruct (odef_of_In defs _ _ Hd) as [Hdi Hdn]. rewrite <- Hdn. pose proof (Hb d Hdi). lia. }
  assert (Hdd : exists d0, odef_of defs (f_name f) = Some d0) by (rewrite Hname; exists d; exact Hd).
  destruct (process_err iord defs rk Hiord Hdefd Hrk _ s' f true e Hlt Hdd Hp) as (g & d' & i' & R & A & B & C).
  split; [exact (input_of_err_values defs g i' e C)|]. exists g, d', i'. split; [|split; [exact A | split; [exact B | exact C]]].
  exact (inst_reach defs fs f g (inst_req defs fs f Hf) R).
Qed.

(* ---------- the resulting graph satisfies the hypotheses of the graph-level theorems ---------- *)
Lemma NoDup_map_via : forall (A : Type) (h : A -> nat) (nm : A -> string) (l : list A),
  NoDup (map nm l) -> (forall x y, In x l -> In y l -> h x = h y -> nm x = nm y) -> NoDup (map h l).
Proof.
  intros A h nm l. induction l as [|x t IH]; intros Hnd Hinj; cbn; [constructor|].
  cbn in Hnd. apply NoDup_cons_iff in Hnd. destruct Hnd as [Hx Ht]. constructor.
  - intros Hin. apply in_map_iff in Hin. destruct Hin as [y [E Hy]]. apply Hx. apply in_map_iff. exists y.
    split; [apply (Hinj y x); [right; exact Hy | left; reflexivity | exact E] | exact Hy].
  - apply IH; [exact Ht | intros a b Ha Hb; apply Hinj; right; assumption].
Qed.

Lemma Forall2_names : forall defs f ins ps, Forall2 (fun i p => input_of defs f i = inl p) ins ps -> map f_name ps = map oi_name ins.
Proof.
  intros defs f ins ps H. induction H as [|i p li lp Hip _ IH]; [reflexivity|]. cbn. rewrite IH. f_equal.
  apply input_of_inl in Hip. destruct Hip as [_ E]. subst p. reflexivity.
Qed.

Section GraphOk.
  Variables (defs : list odef) (st : list rnode) (rk : string -> nat).
  Hypothesis Hcl : forall r, In r st -> closed1 defs st r.
  Hypothesis Hgood : forall r, In r st -> fgood (rf r).
  Hypothesis Hinnd : forall d, In d defs -> NoDup (map oi_name (od_ins d)).
  Hypothesis Hrk : forall d i, In d defs -> In i (od_ins d) -> rk (oi_name i) < rk (od_name d).

  Lemma held_idx : forall p, holds st p -> idx_of st p < List.length st /\
    exists r', nth_error st (idx_of st p) = Some r' /\ feq p (rf r') = true.
  Proof.
    intros p [r [Hr Hm]].
    assert (Hf : feq p (rf r) = true) by (destruct Hm as [E|E]; [rewrite <- E; apply feq_refl; rewrite E; rewrite <- E; apply Hgood; exact Hr | exact E]).
    pose proof (first_idx_lt _ (fun r0 => feq p (rf r0)) st r Hr Hf) as Hlt. split; [exact Hlt|].
    pose proof (first_idx_nth _ (fun r0 => feq p (rf r0)) st r Hlt) as Hn. cbv beta in Hn.
    exists (nth (idx_of st p) st r). split; [apply nth_error_nth'; exact Hlt | exact Hn].
  Qed.

  Lemma xg_nth : forall k x, nth_error (xgraph_of st) k = Some x -> exists r, nth_error st k = Some r /\ x = xnode_of st r.
  Proof.
    intros k x H. unfold xgraph_of in H. rewrite nth_error_map in H. destruct (nth_error st k) as [r|]; [|discriminate].
    injection H as H. exists r. split; [reflexivity | symmetry; exact H].
  Qed.

  Lemma xg_parent : forall p c, parent (base (label_graph (xgraph_of st))) p c ->
    exists r q, nth_error st c = Some r /\ In q (rparents r) /\ p = idx_of st q.
  Proof.
    intros p c [n [Hn [Hc Hp]]]. apply base_label_In in Hn. destruct Hn as [k [x [Hk En]]]. subst n. cbn in Hc, Hp. subst k.
    destruct (xg_nth c x Hk) as [r [Hr Ex]]. subst x. cbn in Hp. apply in_map_iff in Hp. destruct Hp as [q [E Hq]].
    exists r, q. split; [exact Hr|]. split; [exact Hq | symmetry; exact E].
  Qed.

  Theorem xgraph_ok : graph_ok (base (label_graph (xgraph_of st))).
  Proof.
    set (g := label_graph (xgraph_of st)).
    assert (Hids : ids (base g) = seq 0 (List.length st)) by (unfold g; rewrite ids_label; unfold xgraph_of; rewrite map_length; reflexivity).
    split; [rewrite Hids; apply seq_NoDup|]. split; [|split].
    - intros p c Hpc. destruct (xg_parent p c Hpc) as (r & q & Hr & Hq & Ep). subst p. rewrite Hids. apply in_seq.
      destruct (Hcl r (nth_error_In _ _ Hr)) as (_ & _ & _ & _ & _ & _ & _ & Hh). destruct (held_idx q (Hh q Hq)) as [Hlt _]. lia.
    - intros n Hn. apply base_label_In in Hn. destruct Hn as [k [x [Hk En]]]. subst n. cbn [fins].
      destruct (xg_nth k x Hk) as [r [Hr Ex]]. subst x. cbn [xins xnode_of].
      pose proof (Hcl r (nth_error_In _ _ Hr)) as (d & Hd & _ & _ & ins & Hperm & Hf2 & Hh).
      apply (NoDup_map_via _ (idx_of st) f_name).
      + rewrite (Forall2_names defs (rf r) ins (rparents r) Hf2). apply (Permutation_NoDup (Permutation_sym (Permutation_map oi_name Hperm))).
        apply Hinnd. exact (proj1 (odef_of_In defs _ _ Hd)).
      + intros a b Ha Hb E. destruct (held_idx a (Hh a Ha)) as [_ [ra [Na Fa]]]. destruct (held_idx b (Hh b Hb)) as [_ [rb [Nb Fb]]].
        rewrite E in Na. rewrite Na in Nb. injection Nb as Nb. subst rb. rewrite (feq_name _ _ Fa), (feq_name _ _ Fb). reflexivity.
    - exists (fun k => match nth_error st k with Some r => rk (f_name (rf r)) | None => 0 end).
      intros p c Hpc. destruct (xg_parent p c Hpc) as (r & q & Hr & Hq & Ep). subst p. rewrite Hr.
      pose proof (Hcl r (nth_error_In _ _ Hr)) as Hclr. destruct (parent_child_some defs st r q Hclr Hq) as (_ & d & i & Hd & Hi & _ & Hnm).
      destruct Hclr as (_ & _ & _ & _ & _ & _ & _ & Hh). destruct (held_idx q (Hh q Hq)) as [_ [r' [Nr Fr]]]. rewrite Nr.
      rewrite <- (feq_name _ _ Fr), Hnm. destruct (odef_of_In defs _ _ Hd) as [Hdi Hdn]. rewrite <- Hdn. exact (Hrk d i Hdi Hi).
  Qed.

  Theorem xgraph_strict : one_cfw defs -> strict (base (label_graph (xgraph_of st))).
  Proof.
    intros H1 n m Hn Hm. apply base_label_In in Hn, Hm. destruct Hn as [k [x [Hk En]]]. destruct Hm as [j [y [Hj Em]]]. subst n m. cbn [fcfw].
    destruct (xg_nth k x Hk) as [r [Hr Ex]]. destruct (xg_nth j y Hj) as [s [Hs Ey]]. subst x y. cbn [xcfw xnode_of].
    destruct (Hcl r (nth_error_In _ _ Hr)) as (d & Hd & _ & Hc & _). destruct (Hcl s (nth_error_In _ _ Hs)) as (e & He & _ & Hc' & _).
    rewrite Hc, Hc'. apply H1; [exact (proj1 (odef_of_In defs _ _ Hd)) | exact (proj1 (odef_of_In defs _ _ He))].
  Qed.
End GraphOk.

(* EVERY accepted request of the fragment yields a finite acyclic one-framework graph: all graph-level theorems apply *)
Theorem request_graph_ok_O : forall iord defs rq g, iord_ok iord -> decl_ok defs rq -> odefs_ok defs rq -> one_cfw defs ->
  request_graph_O iord defs rq = inl g -> graph_ok (base g) /\ strict (base g).
Proof.
  intros iord defs rq g Hiord Hdecl (Hnd & Hin & Hdefd & Hreq & rk & Hb & Hrk) H1 H.
  unfold request_graph_O, request_xgraph in H. destruct (collect iord defs rq) as [st|e] eqn:Ec; [|discriminate]. injection H as H. subst g.
  destruct (collect_spec iord defs rq st Hiord Hdecl Ec) as (Hcl & _ & _ & _ & _ & _ & Hgood).
  split; [exact (xgraph_ok defs st rk Hcl Hgood Hin Hrk) | exact (xgraph_strict defs st Hcl H1)].
Qed.
