(* The request -> graph stage of Model/PlannerO.v (Engine._process_feature recursion with merge_options and de-duplication by
   Feature.__eq__), for EVERY request of the fragment, every iteration order of input_features() and every number of option
   values:
     feq_refl                 a feature with well-formed options equals itself
     process_spec / collect_spec   the stored features are closed under "merged inputs", pairwise unequal, all descend from a
                              requested feature, all are option instances of the request; request flags are on the requested
     collect_no_depth_error   the recursion depth (fuel) is never exhausted on acyclic definitions
     collect_error_cases      a rejection is the duplicate-request error or the failing merge of an input of an instance
     request_graph_ok_O       the resulting labelled graph satisfies graph_ok and strict: all graph-level theorems apply *)
From Coq Require Import List Bool Arith Lia Permutation String ZArith.
Import ListNotations.
Require Import MV.Model.Orch MV.Model.OrchCheck MV.Model.Options MV.Model.Identity MV.Model.Grouping MV.Model.PlannerA MV.Model.PlannerO.
Require Import MV.Spec.OptionsSpec MV.Spec.GroupingSpec MV.Spec.PlannerASpec MV.Spec.PlannerOSpec.
Require Import MV.Proofs.OptionsP MV.Proofs.GroupingP MV.Proofs.PlannerASets MV.Proofs.PlannerAGraph MV.Proofs.PlannerADet MV.Proofs.PlannerOLabel.
Open Scope list_scope.
Open Scope nat_scope.

(* ---------- a well-formed dictionary equals itself ---------- *)
Lemma find_self : forall (d : dict) kv, nodupk (dkeys d) -> In kv d ->
  find (fun kv' => key_eqb (fst kv) (fst kv')) d = Some kv.
Proof.
  intros d kv. induction d as [|x t IH]; intros Hnd Hin; [destruct Hin|].
  unfold nodupk in Hnd. cbn in Hnd. apply andb_true_iff in Hnd. destruct Hnd as [Hx Ht]. apply negb_true_iff in Hx. cbn [find].
  destruct Hin as [E|Hin].
  - subst x. rewrite key_eqb_refl. reflexivity.
  - destruct (key_eqb (fst kv) (fst x)) eqn:E.
    + exfalso. assert (H : kmem (fst x) (dkeys t) = true).
      { apply kmem_true. exists (fst kv). split; [unfold dkeys; apply in_map; exact Hin | rewrite key_eqb_sym; exact E]. }
      destruct x as [k v]. cbn [fst] in H, Hx. unfold dkeys in H. rewrite H in Hx. discriminate.
    + apply IH; assumption.
Qed.

Lemma refl_dictb_spec : forall d, refl_dictb d = true -> nodupk (dkeys d) /\ forall kv, In kv d -> py_eq (snd kv) (snd kv) = true.
Proof.
  intros d H. unfold refl_dictb in H. apply andb_true_iff in H. destruct H as [H1 H2]. split; [exact H1|].
  intros kv Hin. rewrite forallb_forall in H2. exact (H2 kv Hin).
Qed.

Lemma refl_dictb_intro : forall d, nodupk (dkeys d) -> (forall kv, In kv d -> py_eq (snd kv) (snd kv) = true) -> refl_dictb d = true.
Proof. intros d H1 H2. unfold refl_dictb. apply andb_true_iff. split; [exact H1 | apply forallb_forall; exact H2]. Qed.

Lemma py_eq_dict_refl : forall d, refl_dictb d = true -> py_eq (VDict d) (VDict d) = true.
Proof.
  intros d H. destruct (refl_dictb_spec d H) as [Hnd Hv]. cbn [py_eq]. rewrite Nat.eqb_refl. cbn [andb].
  apply forallb_forall. intros kv Hin. rewrite (find_self d kv Hnd Hin). exact (Hv kv Hin).
Qed.

(* ---------- preserved by the dictionary operations of update_with_protected_keys ---------- *)
Lemma vals_dset : forall (Q : pyval -> Prop) k v d, (forall kv, In kv d -> Q (snd kv)) -> Q v -> forall kv, In kv (dset k v d) -> Q (snd kv).
Proof.
  intros Q k v d. induction d as [|[k' v'] t IH]; intros Hd Hv kv Hin; cbn in Hin.
  - destruct Hin as [E|[]]. subst kv. exact Hv.
  - destruct (key_eqb k k').
    + destruct Hin as [E|Hin]; [subst kv; exact Hv | apply Hd; right; exact Hin].
    + destruct Hin as [E|Hin]; [subst kv; apply (Hd (k', v')); left; reflexivity|].
      apply IH; [intros x Hx; apply Hd; right; exact Hx | exact Hv | exact Hin].
Qed.

Lemma vals_dupdate : forall (Q : pyval -> Prop) o d, (forall kv, In kv d -> Q (snd kv)) -> (forall kv, In kv o -> Q (snd kv)) ->
  forall kv, In kv (dupdate d o) -> Q (snd kv).
Proof.
  intros Q o. induction o as [|[k v] t IH]; intros d Hd Ho kv Hin; [exact (Hd kv Hin)|].
  rewrite dupdate_cons in Hin. apply (IH (dset k v d)); [|intros x Hx; apply Ho; right; exact Hx | exact Hin].
  apply vals_dset; [exact Hd | apply (Ho (k, v)); left; reflexivity].
Qed.

Lemma refl_dupdate : forall d o, refl_dictb d = true -> (forall kv, In kv o -> py_eq (snd kv) (snd kv) = true) -> refl_dictb (dupdate d o) = true.
Proof.
  intros d o Hd Ho. destruct (refl_dictb_spec d Hd) as [Hnd Hv]. apply refl_dictb_intro; [apply nodupk_dupdate; exact Hnd|].
  apply (vals_dupdate (fun v => py_eq v v = true)); assumption.
Qed.

Lemma ogood_update : forall other prot s, ogoodb other = true -> ogoodb s = true -> ogoodb (fst (o_update other prot s)) = true.
Proof.
  intros other prot s Ho Hs. unfold ogoodb in *. apply andb_true_iff in Ho, Hs. destruct Ho as [Hog Hoc]. destruct Hs as [Hsg Hsc].
  destruct (refl_dictb_spec _ Hog) as [_ Vog]. destruct (refl_dictb_spec _ Hoc) as [_ Voc].
  unfold o_update. destruct (match prot with Some p => Some p | None => default_protected s end) as [pk|]; cbn [fst og oc]; [|rewrite Hsg, Hsc; reflexivity].
  set (ogc := filter (fun kv => negb (kmem (fst kv) pk)) (og other)).
  assert (Vogc : forall kv, In kv ogc -> py_eq (snd kv) (snd kv) = true) by (intros kv H; apply filter_In in H; apply Vog; apply H).
  destruct (existsb _ (dkeys ogc)); cbn [fst og oc]; [rewrite Hsg, Hsc; reflexivity|].
  assert (Hg' : refl_dictb (dupdate (og s) ogc) = true) by (apply refl_dupdate; assumption).
  destruct (is_nil (opk other)); cbn [fst og oc]; [rewrite Hg', Hsc; reflexivity|].
  set (pr := filter _ (oc other)).
  assert (Vpr : forall kv, In kv pr -> py_eq (snd kv) (snd kv) = true) by (intros kv H; apply filter_In in H; apply Voc; apply H).
  destruct (existsb _ (dkeys pr)); cbn [fst og oc]; [rewrite Hg', Hsc; reflexivity|].
  destruct (existsb _ pr); cbn [fst og oc]; [rewrite Hg', Hsc; reflexivity|].
  rewrite Hg'. cbn [andb]. apply refl_dupdate; assumption.
Qed.

Lemma ogood_merge : forall child s, ogoodb child = true -> ogoodb s = true -> ogoodb (fst (o_merge child s)) = true.
Proof.
  intros child s Hc Hs. unfold o_merge. destruct (default_protected s); [|exact Hs].
  destruct (existsb _ (o_items child)); [exact Hs | apply ogood_update; assumption].
Qed.

Lemma ogood_empty : ogoodb empty_opt = true. Proof. reflexivity. Qed.
Lemma ogood_norm_child : forall s, ogoodb s = true -> ogoodb (norm_child s) = true.
Proof. intros s H. unfold norm_child. destruct (is_nil (og s) && is_nil (oc s)); [reflexivity | exact H]. Qed.

(* ---------- Feature.__eq__ is reflexive on features with well-formed options ---------- *)
Definition fgood (f : feat) : Prop :=
  f_domain f = None /\ f_child_inf f = None /\ ogoodb (f_opt f) = true /\ match f_child f with Some c => ogoodb c = true | None => True end.

Lemma py_eq_cfw_refl : forall c, py_eq (cfw_val c) (cfw_val c) = true.
Proof.
  intros [l|]; [|reflexivity]. unfold cfw_val, opt_val. cbn [py_eq]. rewrite Nat.eqb_refl. cbn [andb].
  apply forallb_forall. intros e He. apply existsb_exists. exists e. split; [exact He|].
  apply in_map_iff in He. destruct He as [n [E _]]. subst e. cbn. apply Z.eqb_refl.
Qed.

Lemma py_eq_dtype_refl : forall d, py_eq (dtype_val d) (dtype_val d) = true.
Proof. intros [n|]; [|reflexivity]. unfold dtype_val, opt_val. cbn. rewrite Z.eqb_refl. reflexivity. Qed.

Theorem feq_refl : forall f, fgood f -> feq f f = true.
Proof.
  intros f (Hd & Hi & Ho & Hc). unfold ogoodb in Ho. apply andb_true_iff in Ho. destruct Ho as [Hg Hx].
  unfold feq, feat_eq. rewrite String.eqb_refl. cbn [negb]. unfold opt_eq. rewrite (py_eq_dict_refl _ Hg). cbn [negb].
  rewrite (py_eq_dict_refl _ Hx). cbn [negb]. rewrite Hd. cbn [dom_eq]. rewrite py_eq_cfw_refl, py_eq_dtype_refl. cbn [andb].
  unfold child_eq. rewrite Hi. destruct (f_child f) as [c|]; [|reflexivity].
  unfold ogoodb in Hc. apply andb_true_iff in Hc. destruct Hc as [Hcg _]. unfold opt_eq. rewrite (py_eq_dict_refl _ Hcg). reflexivity.
Qed.

Lemma feq_name : forall a b, feq a b = true -> f_name a = f_name b.
Proof.
  intros a b H. unfold feq, feat_eq in H. destruct (String.eqb (f_name a) (f_name b)) eqn:E; [apply String.eqb_eq; exact E|].
  cbn in H. discriminate.
Qed.

Lemma feq_child_mismatch : forall a b c, f_child a = None -> f_child b = Some c -> feq a b = false.
Proof.
  intros a b c Ha Hb. unfold feq, feat_eq.
  destruct (negb (String.eqb (f_name a) (f_name b))); [reflexivity|].
  destruct (negb (opt_eq (f_opt a) (f_opt b))); [reflexivity|].
  destruct (negb (py_eq (VDict (oc (f_opt a))) (VDict (oc (f_opt b))))); [reflexivity|].
  destruct (dom_eq (f_domain a) (f_domain b)) as [[|]|]; try reflexivity.
  unfold child_eq. rewrite Ha, Hb. rewrite andb_false_r. reflexivity.
Qed.

(* ---------- monotonicity ---------- *)
Lemma holds_mono : forall st e p, holds st p -> holds (st ++ e) p.
Proof. intros st e p [r [Hr H]]. exists r. split; [apply in_or_app; left; exact Hr | exact H]. Qed.

Lemma closed1_mono : forall defs st e r, closed1 defs st r -> closed1 defs (st ++ e) r.
Proof.
  intros defs st e r (d & H1 & H2 & H3 & ins & H4 & H5 & H6). exists d. repeat split; try assumption.
  exists ins. repeat split; try assumption. intros p Hp. apply holds_mono. exact (H6 p Hp).
Qed.

Lemma desc_mono : forall st e f r, desc st f r -> desc (st ++ e) f r.
Proof.
  intros st e f r H. induction H as [f r Hr E|f r p r' H IH Hp Hr' E].
  - apply desc_self; [apply in_or_app; left; exact Hr | exact E].
  - apply (desc_step _ f r p r'); [exact IH | exact Hp | apply in_or_app; left; exact Hr' | exact E].
Qed.

Lemma desc_In : forall st f r, desc st f r -> In r st.
Proof. intros st f r H. destruct H; assumption. Qed.

Lemma desc_below : forall st f rf0 p r, In rf0 st -> rf rf0 = f -> In p (rparents rf0) -> desc st p r -> desc st f r.
Proof.
  intros st f rf0 p r H0 E0 Hp H. induction H as [q r Hr E|q r p' r' H IH Hp' Hr' E].
  - apply (desc_step st f rf0 q r); [apply desc_self; assumption | exact Hp | exact Hr | exact E].
  - apply (desc_step st f r p' r'); [apply IH; exact Hp | exact Hp' | exact Hr' | exact E].
Qed.

Lemma nodup_feq_snoc_inv : forall l y, nodup_feq (l ++ [y]) -> nodup_feq l /\ forall x, In x l -> feq y x = false.
Proof.
  intros l y H. inversion H as [E|l' y' H1 H2 E].
  - destruct l; discriminate.
  - apply app_inj_tail in E. destruct E as [E1 E2]. subst l' y'. split; assumption.
Qed.

(* ---------- Features.__init__ over the inputs ---------- *)
Lemma merge_class_values : forall c s, merge_class c s = 0 \/ merge_class c s = 3 \/ merge_class c s = 4 \/ merge_class c s = 5.
Proof.
  intros c s. unfold merge_class. destruct (default_protected s); [|right; right; right; reflexivity].
  destruct (existsb _ (o_items c)); [right; left; reflexivity|].
  destruct (snd (o_update c None s)) as [[|]|]; [right; right; left; reflexivity | right; right; right; reflexivity | left; reflexivity].
Qed.

Definition built (defs : list odef) (c : ostate) (i : oin) : feat :=
  mk_feat (oi_name i) (fst (o_merge c (oi_opt i))) (cfw_for defs (oi_name i)) (oi_ty i) (Some c).

Lemma input_of_inl : forall defs f i p, input_of defs f i = inl p <->
  merge_class (norm_child (f_opt f)) (oi_opt i) = 0 /\ p = built defs (norm_child (f_opt f)) i.
Proof.
  intros defs f i p. unfold input_of, built. destruct (merge_class (norm_child (f_opt f)) (oi_opt i)) as [|e]; split.
  - intros H. injection H as H. split; [reflexivity | symmetry; exact H].
  - intros [_ E]. subst p. reflexivity.
  - discriminate.
  - intros [H _]. discriminate.
Qed.

Lemma build_inputs_spec : forall defs c ins ps, build_inputs defs c ins = inl ps ->
  Forall2 (fun i p => merge_class c (oi_opt i) = 0 /\ p = built defs c i) ins ps.
Proof.
  intros defs c ins. induction ins as [|i t IH]; intros ps H; cbn [build_inputs] in H.
  - injection H as H. subst ps. constructor.
  - destruct (merge_class c (oi_opt i)) as [|e] eqn:E; [|discriminate].
    destruct (build_inputs defs c t) as [fs|e'] eqn:Et; [|discriminate]. injection H as H. subst ps.
    constructor; [split; [exact E | reflexivity] | apply IH; reflexivity].
Qed.

Lemma build_inputs_err : forall defs c ins e, build_inputs defs c ins = inr e ->
  exists i, In i ins /\ merge_class c (oi_opt i) = e /\ e <> 0.
Proof.
  intros defs c ins. induction ins as [|i t IH]; intros e H; cbn [build_inputs] in H; [discriminate|].
  destruct (merge_class c (oi_opt i)) as [|e0] eqn:E.
  - destruct (build_inputs defs c t) as [fs|e'] eqn:Et; [discriminate|]. injection H as H. subst e'.
    destruct (IH e eq_refl) as [j [Hj R]]. exists j. split; [right; exact Hj | exact R].
  - injection H as H. subst e. exists i. split; [left; reflexivity|]. split; [exact E | discriminate].
Qed.

Lemma built_to_input_of : forall defs f ins ps,
  Forall2 (fun i p => merge_class (norm_child (f_opt f)) (oi_opt i) = 0 /\ p = built defs (norm_child (f_opt f)) i) ins ps ->
  Forall2 (fun i p => input_of defs f i = inl p) ins ps.
Proof. intros defs f ins ps H. induction H as [|i p li lp Hip _ IH]; constructor; [apply input_of_inl; exact Hip | exact IH]. Qed.

Lemma built_fgood : forall defs c i, ogoodb c = true -> ogoodb (oi_opt i) = true -> fgood (built defs c i).
Proof.
  intros defs c i Hc Hi. unfold fgood, built, mk_feat. cbn. repeat split; try reflexivity; [apply ogood_merge; assumption | exact Hc].
Qed.

(* ---------- the recursion ---------- *)
Section Req.
  Variables (iord : nat -> list oin -> list oin) (defs : list odef).
  Hypothesis Hiord : iord_ok iord.
  Hypothesis Hdecl : forall d i, In d defs -> In i (od_ins d) -> ogoodb (oi_opt i) = true.

  Definition pstep (n : nat) (acc : list rnode + nat) (p : feat) : list rnode + nat :=
    match acc with inl s => process n iord defs s p false | inr e => inr e end.
  Definition plist (n : nat) (acc : list rnode + nat) (ps : list feat) : list rnode + nat := fold_left (pstep n) ps acc.

  Lemma process_S : forall n st f flag, process (S n) iord defs st f flag =
    match odef_of defs (f_name f) with
    | None => inr 7
    | Some d =>
      if existsb (fun r => feq f (rf r)) st then inl st
      else match build_inputs defs (norm_child (f_opt f)) (iord (List.length st) (od_ins d)) with
           | inr e => inr e
           | inl ps => plist n (inl (st ++ [{| rf := f; rgrp := od_grp d; rcfw := od_cfw d; rreq := flag; rparents := ps |}])) ps
           end
    end.
  Proof. reflexivity. Qed.

  Lemma plist_inr : forall n ps e, plist n (inr e) ps = inr e.
  Proof. intros n ps e. induction ps as [|p t IH]; [reflexivity | exact IH]. Qed.

  Lemma odef_of_In : forall x d, odef_of defs x = Some d -> In d defs /\ od_name d = x.
  Proof.
    intros x d H. unfold odef_of in H. apply find_some in H. destruct H as [H1 H2]. split; [exact H1 | apply String.eqb_eq; exact H2].
  Qed.

  Definition PostP (st : list rnode) (f : feat) (flag : bool) (st' : list rnode) : Prop :=
    exists ext, st' = st ++ ext /\ holds st' f /\
      (forall r, In r ext -> fgood (rf r) /\ closed1 defs st' r /\ desc st' f r) /\
      (ext = [] \/ exists r0 rest, ext = r0 :: rest /\ rf r0 = f /\ rreq r0 = flag /\ forall r, In r rest -> rreq r = false) /\
      (ext = [] -> existsb (fun r => feq f (rf r)) st = true) /\
      (nodup_feq (map rf st) -> nodup_feq (map rf st')).
  Definition PostL (st : list rnode) (ps : list feat) (st' : list rnode) : Prop :=
    exists ext, st' = st ++ ext /\ (forall p, In p ps -> holds st' p) /\
      (forall r, In r ext -> fgood (rf r) /\ closed1 defs st' r /\ exists p, In p ps /\ desc st' p r) /\
      (forall r, In r ext -> rreq r = false) /\
      (nodup_feq (map rf st) -> nodup_feq (map rf st')).

  Lemma list_from_proc : forall n,
    (forall st f st', fgood f -> process n iord defs st f false = inl st' -> PostP st f false st') ->
    forall ps st st', (forall p, In p ps -> fgood p) -> plist n (inl st) ps = inl st' -> PostL st ps st'.
  Proof.
    intros n IHn ps. induction ps as [|p t IH]; intros st st' Hg H.
    - cbn in H. injection H as H. subst st'. exists []. rewrite app_nil_r. split; [reflexivity|].
      split; [intros ? []|]. split; [intros ? []|]. split; [intros ? [] | auto].
    - cbn [plist fold_left pstep] in H. fold (plist n (process n iord defs st p false) t) in H.
      destruct (process n iord defs st p false) as [s1|e] eqn:E1; [|rewrite plist_inr in H; discriminate].
      destruct (IHn st p s1 (Hg p (or_introl eq_refl)) E1) as (ext1 & E & Hh & Hn & Hf & _ & Hd). subst s1.
      destruct (IH (st ++ ext1) st' (fun q Hq => Hg q (or_intror Hq)) H) as (ext2 & E' & Hh2 & Hn2 & Hf2 & Hd2). subst st'.
      exists (ext1 ++ ext2). rewrite app_assoc. split; [reflexivity|]. split; [|split; [|split]].
      + intros q [Eq|Hq]; [subst q; apply holds_mono; exact Hh | exact (Hh2 q Hq)].
      + intros r Hr. apply in_app_iff in Hr. destruct Hr as [Hr|Hr].
        * destruct (Hn r Hr) as (A & B & C). split; [exact A|]. split; [apply closed1_mono; exact B|].
          exists p. split; [left; reflexivity | apply desc_mono; exact C].
        * destruct (Hn2 r Hr) as (A & B & q & Hq & C). split; [exact A|]. split; [exact B|]. exists q. split; [right; exact Hq | exact C].
      + intros r Hr. apply in_app_iff in Hr. destruct Hr as [Hr|Hr]; [|exact (Hf2 r Hr)].
        destruct Hf as [Hf|(r0 & rest & Ee & _ & F0 & Fr)]; [subst ext1; destruct Hr|]. subst ext1.
        destruct Hr as [Hr|Hr]; [subst r; exact F0 | exact (Fr r Hr)].
      + intros Hnd. apply Hd2. apply Hd. exact Hnd.
  Qed.

  Theorem process_spec : forall n st f flag st', fgood f -> process n iord defs st f flag = inl st' -> PostP st f flag st'.
  Proof.
    intros n. induction n as [|n IHn]; intros st f flag st' Hg H; [discriminate|].
    rewrite process_S in H. destruct (odef_of defs (f_name f)) as [d|] eqn:Ed; [|discriminate].
    destruct (existsb (fun r => feq f (rf r)) st) eqn:Ex.
    - injection H as H. subst st'. exists []. rewrite app_nil_r. split; [reflexivity|]. split.
      + apply existsb_exists in Ex. destruct Ex as [r [Hr Hf]]. exists r. split; [exact Hr | right; exact Hf].
      + split; [intros ? []|]. split; [left; reflexivity|]. split; [intros _; exact Ex | auto].
    - destruct (build_inputs defs (norm_child (f_opt f)) (iord (List.length st) (od_ins d))) as [ps|e] eqn:Eb; [|discriminate].
      set (r_f := {| rf := f; rgrp := od_grp d; rcfw := od_cfw d; rreq := flag; rparents := ps |}) in *.
      destruct (odef_of_In _ _ Ed) as [Hdin Hdn].
      pose proof (build_inputs_spec _ _ _ _ Eb) as Hb.
      assert (Hc : ogoodb (norm_child (f_opt f)) = true) by (apply ogood_norm_child; apply Hg).
      assert (Hgp : forall p, In p ps -> fgood p).
      { intros p Hp. destruct (Forall2_In_r _ _ _ _ _ p Hb Hp) as [i [Hi [_ E]]]. subst p. apply built_fgood; [exact Hc|].
        apply (Hdecl d i Hdin). exact (Permutation_in _ (Hiord _ _) Hi). }
      destruct (list_from_proc n (fun s g s' Hgg Hp => IHn s g false s' Hgg Hp) ps (st ++ [r_f]) st' Hgp H) as (ext2 & E & Hh & Hn & Hf & Hd).
      subst st'. exists (r_f :: ext2). rewrite <- app_assoc. cbn [app]. split; [reflexivity|].
      assert (Hrf : In r_f (st ++ r_f :: ext2)) by (apply in_or_app; right; left; reflexivity).
      rewrite <- app_assoc in Hh, Hn, Hd. cbn [app] in Hh, Hn, Hd.
      split; [exists r_f; split; [exact Hrf | left; reflexivity]|]. split; [|split; [|split]].
      + intros r [Er|Hr].
        * subst r. split; [exact Hg|]. split; [|apply desc_self; [exact Hrf | reflexivity]].
          exists d. cbn [rf rgrp rcfw rparents r_f]. split; [exact Ed|]. split; [reflexivity|]. split; [reflexivity|].
          exists (iord (List.length st) (od_ins d)). split; [apply Hiord|]. split; [|exact Hh].
          exact (built_to_input_of defs f _ _ Hb).
        * destruct (Hn r Hr) as (A & B & p & Hp & C). split; [exact A|]. split; [exact B|].
          exact (desc_below _ f r_f p r Hrf eq_refl Hp C).
      + right. exists r_f, ext2. repeat split; try reflexivity. exact Hf.
      + discriminate.
      + intros Hnd. apply Hd. rewrite map_app. cbn [map rf r_f]. apply nd_snoc; [exact Hnd|].
        intros x Hx. apply in_map_iff in Hx. destruct Hx as [r [E Hr]]. subst x.
        destruct (feq f (rf r)) eqn:Ef; [|reflexivity]. exfalso.
        assert (X : existsb (fun r0 => feq f (rf r0)) st = true) by (apply existsb_exists; exists r; split; assumption). congruence.
  Qed.
End Req.
