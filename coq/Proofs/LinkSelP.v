From Coq Require Import List Bool ZArith String Arith Lia Permutation.
Import ListNotations.
Require Import MV.Model.LinkSel MV.Spec.LinkRule.
Open Scope Z_scope.

(* ---------- index prefix rule ---------- *)
Lemma part_loop_prefix : forall a b, (List.length a <= List.length b)%nat ->
  (part_loop a b = true <-> exists s, b = a ++ s).
Proof.
  induction a as [|x a IH]; intros b Hlen.
  - cbn. split; [intros _; exists b; reflexivity | reflexivity].
  - destruct b as [|y b]; [cbn in Hlen; lia|]. cbn [part_loop].
    destruct (String.eqb y x) eqn:E.
    + apply String.eqb_eq in E; subst y. cbn in Hlen. rewrite IH by lia.
      split; intros [s Hs]; exists s; [cbn; f_equal; exact Hs | cbn in Hs; injection Hs; auto].
    + apply String.eqb_neq in E. split; [discriminate|]. intros [s Hs]. cbn in Hs. injection Hs; intros _ H. congruence.
Qed.

Lemma is_a_part_of_prefix_l : forall a b, is_a_part_of a b = true <-> exists s, b = a ++ s.
Proof.
  intros a b. unfold is_a_part_of. destruct (Nat.ltb_spec (List.length b) (List.length a)) as [H|H].
  - split; [discriminate|]. intros [s ->]. rewrite app_length in H. lia.
  - apply part_loop_prefix; exact H.
Qed.

Lemma supports_index_spec_l : forall cols i,
  supports_index cols i = match cols with
                          | None => None
                          | Some l => Some (existsb (fun c => is_a_part_of i c) l)
                          end.
Proof. reflexivity. Qed.

Lemma supports_index_true_l : forall l i,
  supports_index (Some l) i = Some true <-> exists c s, In c l /\ c = i ++ s.
Proof.
  intros l i. cbn. split.
  - intros H. injection H as H. apply existsb_exists in H. destruct H as [c [Hin Hp]].
    apply is_a_part_of_prefix_l in Hp. destruct Hp as [s ->]. exists (i ++ s), s. auto.
  - intros (c & s & Hin & ->). f_equal. apply existsb_exists. exists (i ++ s). split; [exact Hin|].
    apply is_a_part_of_prefix_l. exists s; reflexivity.
Qed.

(* ---------- selection ---------- *)
Section Sel.
  Variable mro : cls -> list cls.
  Notation sel_dist := (sel_dist mro).
  Notation min_dist := (min_dist mro).

  Lemma min_dist_none : forall lf rf ls, min_dist lf rf ls = None -> forall l, In l ls -> sel_dist lf rf l = None.
  Proof.
    induction ls as [|x t IH]; intros H l Hin; [destruct Hin|]. cbn in H.
    destruct (sel_dist lf rf x) eqn:Ex; [destruct (min_dist lf rf t); discriminate|].
    destruct Hin as [->|Hin]; [exact Ex | apply IH; assumption].
  Qed.

  Lemma min_dist_some : forall lf rf ls m, min_dist lf rf ls = Some m ->
    (exists l, In l ls /\ sel_dist lf rf l = Some m) /\
    (forall l d, In l ls -> sel_dist lf rf l = Some d -> m <= d).
  Proof.
    induction ls as [|x t IH]; intros m H; [discriminate|]. cbn in H.
    destruct (sel_dist lf rf x) as [d|] eqn:Ex; destruct (min_dist lf rf t) as [m'|] eqn:Et.
    - injection H as <-. destruct (IH m' eq_refl) as [[l [Hl Hd]] Hmin]. split.
      + destruct (Z.min_spec d m') as [[_ ->]|[_ ->]]; [exists x; cbn; auto | exists l; cbn; auto].
      + intros l0 d0 [->|Hin] Hs; [rewrite Ex in Hs; injection Hs as <-; lia | specialize (Hmin _ _ Hin Hs); lia].
    - injection H as <-. split; [exists x; cbn; auto|].
      intros l0 d0 [->|Hin] Hs; [rewrite Ex in Hs; injection Hs as <-; lia|].
      rewrite (min_dist_none _ _ _ Et _ Hin) in Hs; discriminate.
    - injection H as <-. destruct (IH m' eq_refl) as [[l [Hl Hd]] Hmin]. split; [exists l; cbn; auto|].
      intros l0 d0 [->|Hin] Hs; [rewrite Ex in Hs; discriminate | eauto].
    - discriminate.
  Qed.

  (* characterisation of select_most_specific for every list *)
  Lemma select_char : forall ls lf rf l,
    In l (select_most_specific mro ls lf rf) <->
    In l ls /\ exists d, sel_dist lf rf l = Some d /\ forall l' d', In l' ls -> sel_dist lf rf l' = Some d' -> d <= d'.
  Proof.
    intros ls lf rf l. unfold select_most_specific. destruct (min_dist lf rf ls) as [m|] eqn:Em.
    - destruct (min_dist_some _ _ _ _ Em) as [[l0 [Hl0 Hd0]] Hmin]. rewrite filter_In. unfold has_dist. split.
      + intros [Hin Hh]. split; [exact Hin|]. destruct (sel_dist lf rf l) as [d|] eqn:Ed; [|discriminate].
        apply Z.eqb_eq in Hh; subst d. exists m; split; [reflexivity|]. exact Hmin.
      + intros [Hin [d [Hd Hle]]]. split; [exact Hin|]. rewrite Hd. apply Z.eqb_eq.
        specialize (Hmin _ _ Hin Hd). specialize (Hle _ _ Hl0 Hd0). lia.
    - split; [intros []|]. intros [Hin [d [Hd _]]]. rewrite (min_dist_none _ _ _ Em _ Hin) in Hd; discriminate.
  Qed.

  Lemma exact_filter_iff : forall links lf rf l,
    In l (filter (fun l => matches_exact l lf rf) links) <-> In l links /\ exact lf rf l.
  Proof.
    intros. rewrite filter_In. unfold matches_exact, exact. rewrite andb_true_iff, !Nat.eqb_eq. tauto.
  Qed.

  (* exact links take priority: when one exists, exactly the exact links are returned *)
  Lemma exact_priority_l : forall links lf rf l0, In l0 links -> exact lf rf l0 ->
    forall l, In l (find_matching mro links lf rf) <-> In l links /\ exact lf rf l.
  Proof.
    intros links lf rf l0 Hin Hex l. unfold find_matching.
    destruct (filter (fun l => matches_exact l lf rf) links) as [|e es] eqn:Ef.
    - exfalso. assert (H : In l0 []) by (rewrite <- Ef; apply exact_filter_iff; auto). destruct H.
    - rewrite <- Ef. apply exact_filter_iff.
  Qed.

  (* without an exact link the result is select_most_specific over the polymorphic matches *)
  Lemma no_exact_l : forall links lf rf, (forall l, In l links -> ~ exact lf rf l) ->
    find_matching mro links lf rf = select_most_specific mro (filter (fun l => matches_poly mro l lf rf) links) lf rf.
  Proof.
    intros links lf rf H. unfold find_matching.
    destruct (filter (fun l => matches_exact l lf rf) links) as [|e es] eqn:Ef; [reflexivity|].
    exfalso. assert (Hin : In e (e :: es)) by (left; reflexivity). rewrite <- Ef in Hin.
    apply exact_filter_iff in Hin. destruct Hin as [Hi He]. exact (H _ Hi He).
  Qed.

  (* sel_dist on a polymorphic match that is not in the asymmetric (known-finding) domain *)
  Lemma sel_dist_balanced : forall lf rf l, matches_poly mro l lf rf = true -> asymmetric mro lf rf l = false ->
    sel_dist lf rf l = if balanced mro lf rf l then Some (dist mro lf (lfg l)) else None.
  Proof.
    intros lf rf l Hp Ha. unfold matches_poly in Hp. apply andb_true_iff in Hp. destruct Hp as [Hl Hr].
    unfold LinkSel.sel_dist, balanced, asymmetric, is_self in *. rewrite Hl, Hr in *. cbn [andb] in *.
    destruct (Nat.eqb (lfg l) (rfg l)) eqn:Eself; cbn [negb andb] in *.
    - destruct (Nat.eqb lf rf); destruct (Z.eqb (dist mro lf (lfg l)) (dist mro rf (rfg l))); reflexivity.
    - destruct (Z.eqb (dist mro lf (lfg l)) (dist mro rf (rfg l))) eqn:Ed; cbn [negb andb] in *; [reflexivity|].
      rewrite Ha. reflexivity.
  Qed.

  Lemma balanced_poly : forall lf rf l, balanced mro lf rf l = true -> matches_poly mro l lf rf = true.
  Proof.
    intros lf rf l H. unfold balanced in H. unfold matches_poly.
    repeat (apply andb_true_iff in H; destruct H as [H ?]). rewrite H; assumption.
  Qed.

  (* Main refinement: outside the asymmetric domain the links found are exactly those of the documented rule *)
  Lemma find_matching_rule_partial_l : forall links lf rf,
    (forall l, In l links -> asymmetric mro lf rf l = false) ->
    forall l, In l (find_matching mro links lf rf) <-> rule mro links lf rf l.
  Proof.
    intros links lf rf Hna l. unfold rule.
    destruct (filter (fun l => matches_exact l lf rf) links) as [|e es] eqn:Ef.
    - assert (Hno : forall l, In l links -> ~ exact lf rf l).
      { intros l1 Hin Hex. assert (H : In l1 []) by (rewrite <- Ef; apply exact_filter_iff; auto). destruct H. }
      rewrite (no_exact_l _ _ _ Hno), select_char, filter_In. split.
      + intros [[Hin Hp] [d [Hd Hmin]]]. split; [exact Hin|]. right. split; [exact Hno|].
        rewrite (sel_dist_balanced _ _ _ Hp (Hna _ Hin)) in Hd.
        destruct (balanced mro lf rf l) eqn:Eb; [|discriminate]. injection Hd as <-. split; [reflexivity|].
        intros l' Hin' Hb'. apply (Hmin l' (dist mro lf (lfg l'))).
        * apply filter_In; split; [exact Hin' | apply balanced_poly; exact Hb'].
        * rewrite (sel_dist_balanced _ _ _ (balanced_poly _ _ _ Hb') (Hna _ Hin')), Hb'. reflexivity.
      + intros [Hin [Hex|[_ [Hb Hmin]]]]; [exfalso; exact (Hno _ Hin Hex)|].
        split; [split; [exact Hin | apply balanced_poly; exact Hb]|].
        exists (dist mro lf (lfg l)). split.
        * rewrite (sel_dist_balanced _ _ _ (balanced_poly _ _ _ Hb) (Hna _ Hin)), Hb. reflexivity.
        * intros l' d' Hin' Hd'. apply filter_In in Hin'. destruct Hin' as [Hin' Hp'].
          rewrite (sel_dist_balanced _ _ _ Hp' (Hna _ Hin')) in Hd'.
          destruct (balanced mro lf rf l') eqn:Eb'; [|discriminate]. injection Hd' as <-. apply Hmin; assumption.
    - assert (He : In e links /\ exact lf rf e).
      { apply exact_filter_iff. rewrite Ef. left; reflexivity. }
      destruct He as [Hein Heex]. rewrite (exact_priority_l _ _ _ _ Hein Heex). split.
      + intros [Hin Hex]. auto.
      + intros [Hin [Hex|[Hno _]]]; [auto | exfalso; exact (Hno _ Hein Heex)].
  Qed.

  (* never a sibling mismatch: a self link (same class on both sides) is never used for two different classes *)
  Lemma no_sibling_mismatch_l : forall links lf rf l, lf <> rf -> lfg l = rfg l -> ~ In l (find_matching mro links lf rf).
  Proof.
    intros links lf rf l Hne Hself Hin. unfold find_matching in Hin.
    destruct (filter (fun l => matches_exact l lf rf) links) as [|e es] eqn:Ef.
    - apply select_char in Hin. destruct Hin as [_ [d [Hd _]]]. unfold LinkSel.sel_dist in Hd.
      rewrite Hself, Nat.eqb_refl in Hd. apply Nat.eqb_neq in Hne. rewrite Hne in Hd. discriminate.
    - rewrite <- Ef in Hin. apply exact_filter_iff in Hin. destruct Hin as [_ [H1 H2]]. congruence.
  Qed.

  (* the closest link wins *)
  Lemma closest_wins_l : forall links lf rf l l' d d',
    (forall x, In x links -> ~ exact lf rf x) ->
    In l' links -> matches_poly mro l' lf rf = true -> sel_dist lf rf l' = Some d' ->
    sel_dist lf rf l = Some d -> d' < d -> ~ In l (find_matching mro links lf rf).
  Proof.
    intros links lf rf l l' d d' Hno Hin' Hp' Hd' Hd Hlt Hin. rewrite (no_exact_l _ _ _ Hno) in Hin.
    apply select_char in Hin. destruct Hin as [_ [d0 [Hd0 Hmin]]]. rewrite Hd in Hd0. injection Hd0 as <-.
    assert (d <= d') by (apply (Hmin l'); [apply filter_In; auto | exact Hd']). lia.
  Qed.

  (* every returned link is one of the given links and matches (exactly or polymorphically) *)
  Lemma find_matching_sound_l : forall links lf rf l, In l (find_matching mro links lf rf) ->
    In l links /\ (exact lf rf l \/ matches_poly mro l lf rf = true).
  Proof.
    intros links lf rf l Hin. unfold find_matching in Hin.
    destruct (filter (fun l => matches_exact l lf rf) links) as [|e es] eqn:Ef.
    - apply select_char in Hin. destruct Hin as [Hin _]. apply filter_In in Hin. tauto.
    - rewrite <- Ef in Hin. apply exact_filter_iff in Hin. tauto.
  Qed.
End Sel.

(* the asymmetric acceptance refutes the documented rule: Link(Base=0, Other=2) is used for (Child=1, Other=2) *)
Definition wit_mro : cls -> list cls := mro_of [(0, [0]); (1, [1; 0]); (2, [2])]%nat.
Definition wit_link : link := {| jt := INNER; lfg := 0%nat; rfg := 2%nat; lidx := ["k"%string]; ridx := ["k"%string] |}.
Lemma asymmetric_refutes_rule_l :
  In wit_link (find_matching wit_mro [wit_link] 1%nat 2%nat) /\ ~ rule wit_mro [wit_link] 1%nat 2%nat wit_link.
Proof.
  split; [vm_compute; auto|]. intros [_ [[H _]|[_ [H _]]]]; [vm_compute in H; discriminate | vm_compute in H; discriminate].
Qed.

(* ---------- validation ---------- *)
Lemma any_pair_exists : forall p ls, any_pair p ls = true <-> exists i j, In i ls /\ In j ls /\ p i j = true.
Proof.
  intros p ls. unfold any_pair. rewrite existsb_exists. split.
  - intros [i [Hi H]]. apply existsb_exists in H. destruct H as [j [Hj H]]. exists i, j; auto.
  - intros (i & j & Hi & Hj & H). exists i. split; [exact Hi|]. apply existsb_exists. exists j; auto.
Qed.

Lemma validate_rejects_spec_l : forall ls,
  validate_rejects ls = true <->
  exists i j, In i ls /\ In j ls /\ (double_join i j = true \/ conflicting_jt i j = true \/ right_conflict i j = true).
Proof.
  intros ls. unfold validate_rejects. rewrite !orb_true_iff, !any_pair_exists. split.
  - intros [[(i & j & Hi & Hj & H)|(i & j & Hi & Hj & H)]|(i & j & Hi & Hj & H)]; exists i, j; auto.
  - intros (i & j & Hi & Hj & [H|[H|H]]); [left; left | left; right | right]; exists i, j; auto.
Qed.

(* the verdict cannot depend on the iteration order of the Python set of links *)
Lemma validate_perm_invariant_l : forall ls ls', Permutation ls ls' -> validate_rejects ls = validate_rejects ls'.
Proof.
  intros ls ls' HP. apply eq_true_iff_eq. rewrite !validate_rejects_spec_l.
  split; intros (i & j & Hi & Hj & H); exists i, j; repeat split; auto;
    try (eapply Permutation_in; [|eassumption]; auto using Permutation_sym).
Qed.
