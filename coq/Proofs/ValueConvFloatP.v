(* Lemmas about int64 -> binary64 conversion (Model/ValueConv.z2f = SpecFloat.binary_normalize 53 1024, round to nearest
   even) and the integer a double denotes (Spec/ValueConv.f2z).  Pure Z arithmetic over the stdlib's SpecFloat definitions:
   no reals, no Flocq, no axioms.

   Main results:  z2f_exact_iff_l    for int64 z:  f2z (z2f z) = Some z  <->  representable z   (at most 53 significant bits)
                  z2f_exact_small_l  |z| <= 2^53  ->  f2z (z2f z) = Some z
   Route: digits2_pos = Pos.size (bounds 2^(d-1) <= p < 2^d); iter_pos shr_1 n = division by 2^n plus "something was
   shifted out" (shr_iter); binary_round on an integer with d <= 53 bits is an exact left alignment (br_small); with
   d = 53 + n bits it is q or q+1 times 2^n for q = p / 2^n, and q exactly when p mod 2^n = 0 (br_big). *)
From Coq Require Import List Bool Arith ZArith String SpecFloat Lia.
Import ListNotations.
Require Import MV.Model.ValueConv MV.Spec.ValueConv.
Open Scope Z_scope.

Lemma digits2_size p : digits2_pos p = Pos.size p.
Proof. induction p; simpl; congruence. Qed.

Lemma digits_bounds p : 2 ^ (Zpos (digits2_pos p) - 1) <= Zpos p < 2 ^ Zpos (digits2_pos p).
Proof.
  rewrite digits2_size. split.
  - pose proof (Pos.size_le p) as H.
    assert (2 ^ Zpos (Pos.size p) <= 2 * Zpos p).
    { change (2 * Zpos p) with (Zpos (p~0)). rewrite <- Pos2Z.inj_pow. apply Pos2Z.pos_le_pos. exact H. }
    replace (Zpos (Pos.size p)) with (1 + (Zpos (Pos.size p) - 1)) in H0 by lia.
    rewrite Z.pow_add_r in H0 by lia. change (2 ^ 1) with 2 in H0. lia.
  - pose proof (Pos.size_gt p) as H. rewrite <- Pos2Z.inj_pow. apply Pos2Z.pos_lt_pos. exact H.
Qed.

Lemma digits_unique p d : 2 ^ (d - 1) <= Zpos p < 2 ^ d -> Zpos (digits2_pos p) = d.
Proof.
  intros [H1 H2]. pose proof (digits_bounds p) as [B1 B2].
  assert (0 < d). { destruct (Z_lt_le_dec 0 d); auto. assert (2 ^ d <= 1). { destruct (Z.eq_dec d 0); [subst; simpl; lia|]. rewrite Z.pow_neg_r by lia. lia. } lia. }
  set (e := Zpos (digits2_pos p)) in *.
  assert (0 < e) by (unfold e; lia).
  destruct (Z.lt_trichotomy e d) as [L|[E|G]]; auto.
  - assert (2 ^ e <= 2 ^ (d - 1)) by (apply Z.pow_le_mono_r; lia). lia.
  - assert (2 ^ d <= 2 ^ (e - 1)) by (apply Z.pow_le_mono_r; lia). lia.
Qed.

Lemma niter_add {A} (f : A -> A) n m x : Nat.iter (n + m) f x = Nat.iter n f (Nat.iter m f x).
Proof. induction n; simpl; congruence. Qed.
Lemma niter_succ_r {A} (f : A -> A) n x : Nat.iter (S n) f x = Nat.iter n f (f x).
Proof. induction n; simpl in *; congruence. Qed.

Lemma iter_pos_nat {A} (f : A -> A) p x : iter_pos f p x = Nat.iter (Pos.to_nat p) f x.
Proof.
  revert x. induction p; intros x; cbn [iter_pos].
  - rewrite !IHp. rewrite Pos2Nat.inj_xI. rewrite <- niter_succ_r. rewrite <- niter_add. f_equal. lia.
  - rewrite !IHp. rewrite Pos2Nat.inj_xO. rewrite <- niter_add. f_equal. lia.
  - reflexivity.
Qed.

Lemma shr_1_nonneg m r s : 0 <= m -> shr_1 (Build_shr_record m r s) = Build_shr_record (m / 2) (Z.odd m) (r || s).
Proof.
  intros H. destruct m as [|p|p]; try lia.
  - reflexivity.
  - destruct p; simpl shr_1.
    + f_equal. rewrite Pos2Z.inj_xI. apply Z.div_unique with 1; lia.
    + f_equal. rewrite Pos2Z.inj_xO. apply Z.div_unique with 0; lia.
    + reflexivity.
Qed.

(* after n >= 1 steps: the quotient, and "something was shifted out" *)
Lemma shr_iter n m : 0 <= m ->
  let x := Nat.iter (S n) shr_1 (Build_shr_record m false false) in
  shr_m x = m / 2 ^ Z.of_nat (S n) /\ (shr_r x || shr_s x) = negb (m mod 2 ^ Z.of_nat (S n) =? 0).
Proof.
  intros Hm. induction n.
  - change (Nat.iter 1 shr_1 ?x) with (shr_1 x). rewrite shr_1_nonneg by auto. simpl. change (Z.pow_pos 2 1) with 2. split; auto.
    rewrite orb_false_r. rewrite Zmod_odd. destruct (Z.odd m); reflexivity.
  - cbv zeta in *. remember (S n) as k. change (Nat.iter (S k) shr_1 ?x) with (shr_1 (Nat.iter k shr_1 x)).
    destruct (Nat.iter k shr_1 _) as [mm r s]. simpl in IHn. destruct IHn as [E1 E2]. subst mm.
    assert (0 < 2 ^ Z.of_nat k) by (apply Z.pow_pos_nonneg; lia).
    rewrite shr_1_nonneg by (apply Z.div_pos; lia). cbn [shr_m shr_r shr_s].
    replace (Z.of_nat (S k)) with (Z.of_nat k + 1) by lia. rewrite Z.pow_add_r by lia. change (2 ^ 1) with 2.
    split.
    + rewrite Z.div_div by lia. reflexivity.
    + rewrite E2. rewrite Z.rem_mul_r by lia. rewrite (Zmod_odd (m / 2 ^ Z.of_nat k)).
      pose proof (Z.mod_pos_bound m (2 ^ Z.of_nat k) H).
      destruct (Z.odd (m / 2 ^ Z.of_nat k)); simpl.
      * symmetry. apply negb_true_iff. apply Z.eqb_neq. lia.
      * rewrite Z.mul_0_r, Z.add_0_r. reflexivity.
Qed.

Definition D (p : positive) : Z := Zpos (digits2_pos p).

Lemma D_pos p : 1 <= D p. Proof. unfold D. lia. Qed.

Lemma shift_pos_val k p : Zpos (shift_pos k p) = Zpos p * 2 ^ Zpos k.
Proof. rewrite shift_pos_correct. rewrite Zpower_pos_is_exp_pos || idtac. change (Zpower_pos 2 k) with (2 ^ Zpos k). lia. Qed.

Lemma fexp_val e : -1021 <= e -> fexp 53 1024 e = e - 53.
Proof. intros. unfold fexp, emin. lia. Qed.

Lemma shr_fexp_0 m e l : fexp 53 1024 (Zdigits2 m + e) = e -> shr_fexp 53 1024 m e l = (shr_record_of_loc m l, e).
Proof. intros H. unfold shr_fexp. rewrite H, Z.sub_diag. reflexivity. Qed.

Lemma bra_exact s mz ez : D mz = 53 -> -1074 <= ez <= 971 ->
  binary_round_aux 53 1024 s (Zpos mz) ez loc_Exact = S754_finite s mz ez.
Proof.
  intros HD He. unfold binary_round_aux.
  assert (F : fexp 53 1024 (Zdigits2 (Zpos mz) + ez) = ez).
  { cbn [Zdigits2]. fold (D mz). rewrite HD. unfold fexp, emin. lia. }
  rewrite shr_fexp_0 by exact F. cbn [shr_record_of_loc loc_of_shr_record shr_m round_nearest_even].
  rewrite shr_fexp_0 by exact F. cbn [shr_record_of_loc shr_m].
  replace (Zle_bool ez (1024 - 53)) with true; auto. symmetry. apply Z.leb_le. lia.
Qed.

Lemma br_small s p : D p <= 53 ->
  exists mz, binary_round 53 1024 s p 0 = S754_finite s mz (D p - 53) /\ Zpos mz = Zpos p * 2 ^ (53 - D p).
Proof.
  intros H. pose proof (D_pos p) as P. unfold binary_round.
  replace (Zpos (digits2_pos p) + 0) with (D p) by (unfold D; lia).
  rewrite fexp_val by lia. unfold shl_align.
  destruct (D p - 53 - 0) as [|k|k] eqn:E; try lia.
  - exists p. assert (D p = 53) by lia. rewrite bra_exact by lia. rewrite H0. split; auto. simpl. lia.
  - pose proof (shift_pos_val k p) as V.
    assert (DS : D (shift_pos k p) = 53).
    { apply digits_unique. rewrite V. pose proof (digits_bounds p) as [B1 B2]. fold (D p) in B1, B2.
      assert (Zpos k = 53 - D p) by lia. rewrite H0.
      replace (2 ^ (53 - 1)) with (2 ^ (D p - 1) * 2 ^ (53 - D p)) by (rewrite <- Z.pow_add_r by lia; f_equal; lia).
      replace (2 ^ 53) with (2 ^ (D p) * 2 ^ (53 - D p)) by (rewrite <- Z.pow_add_r by lia; f_equal; lia).
      assert (0 < 2 ^ (53 - D p)) by (apply Z.pow_pos_nonneg; lia).
      split; [apply Z.mul_le_mono_nonneg_r; lia|apply Z.mul_lt_mono_pos_r; lia]. }
    exists (shift_pos k p). rewrite bra_exact by lia. split; auto. rewrite V. f_equal. f_equal. lia.
Qed.

Lemma br_big s p n : D p = 53 + Z.of_nat (S n) -> Z.of_nat (S n) <= 970 ->
  let N := Z.of_nat (S n) in
  let q := Zpos p / 2 ^ N in
  exists m2 e2, binary_round 53 1024 s p 0 = S754_finite s m2 e2 /\ 0 <= e2 /\
    (Zpos m2 * 2 ^ e2 = q * 2 ^ N \/ Zpos m2 * 2 ^ e2 = (q + 1) * 2 ^ N) /\
    (Zpos p mod 2 ^ N = 0 -> Zpos m2 * 2 ^ e2 = q * 2 ^ N).
Proof.
  intros HD HN N q. fold N in HD, HN. assert (NP : 0 < N) by (unfold N; lia).
  unfold binary_round.
  replace (Zpos (digits2_pos p) + 0) with (D p) by (unfold D; lia).
  rewrite fexp_val by lia. unfold shl_align.
  destruct (D p - 53 - 0) as [|k|k] eqn:E; try lia.
  assert (KN : Zpos k = N) by lia.
  unfold binary_round_aux at 1.
  unfold shr_fexp at 1. cbn [Zdigits2]. fold (D p). rewrite fexp_val by lia.
  replace (D p + 0 - 53 - 0) with (Zpos k) by lia. cbn [shr shr_record_of_loc].
  rewrite iter_pos_nat. replace (Pos.to_nat k) with (S n) by lia.
  pose proof (shr_iter n (Zpos p) ltac:(lia)) as I. cbv zeta in I. fold N in I.
  destruct (Nat.iter (S n) shr_1 _) as [mm r t]. cbn [shr_m shr_r shr_s] in I. destruct I as [I1 I2]. fold q in I1. subst mm.
  (* bounds on q *)
  pose proof (digits_bounds p) as [B1 B2]. fold (D p) in B1, B2. rewrite HD in B1, B2.
  assert (P2 : 0 < 2 ^ N) by (apply Z.pow_pos_nonneg; lia).
  assert (Q1 : 2 ^ 52 <= q).
  { unfold q. apply Z.div_le_lower_bound; auto. replace (53 + N - 1) with (N + 52) in B1 by lia. rewrite Z.pow_add_r in B1 by lia. lia. }
  assert (Q2 : q < 2 ^ 53).
  { unfold q. apply Z.div_lt_upper_bound; auto. replace (53 + N) with (N + 53) in B2 by lia. rewrite Z.pow_add_r in B2 by lia. lia. }
  set (m2z := round_nearest_even q (loc_of_shr_record {| shr_m := q; shr_r := r; shr_s := t |})).
  assert (M : (m2z = q \/ m2z = q + 1) /\ (Zpos p mod 2 ^ N = 0 -> m2z = q)).
  { unfold m2z. destruct r, t; cbn [loc_of_shr_record round_nearest_even].
    - split; auto. intros Z0. rewrite Z0 in I2. discriminate.
    - split; [destruct (Z.even q); auto|]. intros Z0. rewrite Z0 in I2. discriminate.
    - split; auto.
    - split; auto. }
  destruct M as [M1 M2]. cbn [shr_m]. fold m2z. clearbody m2z.
  replace (0 + Zpos k) with N by lia.
  destruct (Z.eq_dec m2z (2 ^ 53)) as [E53|NE53].
  - (* carry: 2^53 needs one more shift *)
    assert (m2z = q + 1) by (destruct M1; lia).
    subst m2z. unfold shr_fexp. change (Zdigits2 (2 ^ 53)) with 54. rewrite fexp_val by lia.
    replace (54 + N - 53 - N) with 1 by lia. cbn [shr shr_record_of_loc iter_pos]. 
    change (shr_1 {| shr_m := 2 ^ 53; shr_r := false; shr_s := false |}) with {| shr_m := 2 ^ 52; shr_r := false; shr_s := false |}.
    cbn [shr_m]. change (2 ^ 52) with (Zpos (2 ^ 52)%positive) at 1. cbv iota beta.
    replace (Zle_bool (N + 1) (1024 - 53)) with true by (symmetry; apply Z.leb_le; lia).
    exists (2 ^ 52)%positive, (N + 1). split; auto. split; [lia|].
    assert (V : Zpos (2 ^ 52) * 2 ^ (N + 1) = (q + 1) * 2 ^ N).
    { rewrite Z.pow_add_r by lia. rewrite <- H. change (2 ^ 1) with 2. change (2 ^ 53) with (Zpos (2 ^ 52) * 2). lia. }
    split; [right; exact V|]. intros Z0. specialize (M2 Z0). lia.
  - assert (L : 2 ^ 52 <= m2z < 2 ^ 53) by (destruct M1; lia).
    destruct m2z as [|pm|pm]; try lia.
    assert (DM : D pm = 53) by (apply digits_unique; exact L).
    rewrite shr_fexp_0.
    2:{ cbn [Zdigits2]. fold (D pm). rewrite DM. rewrite fexp_val by lia. lia. }
    cbn [shr_record_of_loc shr_m].
    replace (Zle_bool N (1024 - 53)) with true by (symmetry; apply Z.leb_le; lia).
    exists pm, N. split; auto. split; [lia|]. split.
    + destruct M1 as [M1|M1]; rewrite M1; auto.
    + intros Z0. rewrite (M2 Z0). reflexivity.
Qed.
Lemma log2_D p : Z.log2 (Zpos p) = D p - 1.
Proof.
  pose proof (digits_bounds p) as [B1 B2]. fold (D p) in B1, B2. pose proof (D_pos p).
  apply Z.log2_unique; [lia|]. replace (Z.succ (D p - 1)) with (D p) by lia. lia.
Qed.

Lemma cond_Zopp_inj s a b : 0 < a -> 0 < b -> (Some (cond_Zopp s a) = Some (cond_Zopp s b) <-> a = b).
Proof. intros. destruct s; simpl; split; intros E; try injection E; try lia; subst; auto. Qed.

Lemma f2z_round s p : D p <= 1000 ->
  (f2z (binary_round 53 1024 s p 0) = Some (cond_Zopp s (Zpos p)) <-> representable (Zpos p) = true).
Proof.
  intros HD. unfold representable. cbn [Z.abs]. rewrite log2_D. replace (D p - 1 + 1 - 53) with (D p - 53) by lia.
  destruct (Z_le_gt_dec (D p) 53) as [S|B].
  - rewrite Z.max_l by lia. change (2 ^ 0) with 1. rewrite Z.mod_1_r. split; auto. intros _.
    destruct (br_small s p S) as [mz [E V]]. rewrite E. unfold f2z.
    destruct (Z.leb_spec 0 (D p - 53)).
    + assert (D p = 53) by lia. rewrite V, H0. simpl. f_equal. f_equal. lia.
    + assert (P2 : 0 < 2 ^ (53 - D p)) by (apply Z.pow_pos_nonneg; lia).
      replace (- (D p - 53)) with (53 - D p) by lia. rewrite V. rewrite Z.mod_mul by lia. rewrite Z.eqb_refl.
      rewrite Z.div_mul by lia. reflexivity.
  - rewrite Z.max_r by lia.
    set (n := Z.to_nat (D p - 53 - 1)).
    assert (EN : D p - 53 = Z.of_nat (S n)) by (unfold n; lia).
    destruct (br_big s p n ltac:(lia) ltac:(lia)) as [m2 [e2 [E [He [V1 V2]]]]]. cbv zeta in V1, V2. rewrite <- EN in V1, V2.
    rewrite E. unfold f2z. destruct (Z.leb_spec 0 e2); [|lia].
    assert (P2 : 0 < 2 ^ (D p - 53)) by (apply Z.pow_pos_nonneg; lia).
    assert (PE : 0 < 2 ^ e2) by (apply Z.pow_pos_nonneg; lia).
    rewrite cond_Zopp_inj by (try apply Z.mul_pos_pos; lia).
    pose proof (Z.div_mod (Zpos p) (2 ^ (D p - 53)) ltac:(lia)) as DM.
    pose proof (Z.mod_pos_bound (Zpos p) (2 ^ (D p - 53)) P2) as MB.
    split.
    + intros EQ. apply Z.eqb_eq. destruct V1 as [V|V]; rewrite V in EQ; lia.
    + intros R. apply Z.eqb_eq in R. rewrite (V2 R). rewrite R in DM. lia.
Qed.

Lemma int64_D p : Zpos p <= 2 ^ 63 -> D p <= 64.
Proof.
  intros H. pose proof (digits_bounds p) as [B1 _]. fold (D p) in B1.
  destruct (Z_le_gt_dec (D p) 64); auto.
  assert (2 ^ 64 <= 2 ^ (D p - 1)) by (apply Z.pow_le_mono_r; lia). lia.
Qed.

Lemma representable_opp z : representable (- z) = representable z.
Proof. unfold representable. rewrite Z.abs_opp. reflexivity. Qed.

Lemma z2f_exact_iff_l z : int64_ok z = true -> (f2z (z2f z) = Some z <-> representable z = true).
Proof.
  unfold int64_ok. intros H. apply andb_true_iff in H. destruct H as [H1 H2]. apply Z.leb_le in H1. apply Z.ltb_lt in H2.
  destruct z as [|p|p].
  - simpl. split; auto.
  - unfold z2f, binary_normalize. apply (f2z_round false p). pose proof (int64_D p ltac:(lia)). lia.
  - unfold z2f, binary_normalize. change (Zneg p) with (- Zpos p). rewrite representable_opp.
    apply (f2z_round true p). pose proof (int64_D p ltac:(lia)). lia.
Qed.

Lemma representable_small z : Z.abs z <= 2 ^ 53 -> representable z = true.
Proof.
  intros H. unfold representable. apply Z.eqb_eq.
  destruct (Z.eq_dec (Z.abs z) (2 ^ 53)) as [E|NE].
  - rewrite E. reflexivity.
  - assert (L : Z.log2 (Z.abs z) < 53).
    { destruct (Z.eq_dec (Z.abs z) 0) as [Z0|NZ]; [rewrite Z0; simpl; lia|]. apply Z.log2_lt_pow2; lia. }
    rewrite Z.max_l by lia. apply Z.mod_1_r.
Qed.

Lemma z2f_exact_small_l z : Z.abs z <= 2 ^ 53 -> f2z (z2f z) = Some z.
Proof.
  intros H. apply z2f_exact_iff_l; [|apply representable_small; auto].
  unfold int64_ok. apply andb_true_iff. split; [apply Z.leb_le|apply Z.ltb_lt]; lia.
Qed.

