(* Source-text tie, C11 (round 3): ExecutionPlan.add_single_filters_to_feature_set regenerated from prepare/execution_plan.py
   (Gen/SrcFilter.v) against Model/FilterAttach.v (which steps get which single filters).  The final call
   feature_set.add_filters(relevant_filters) is a PARAMETER of the generated definition.  The two == tests are normalised with
   eqb_sym first, so the proofs do not depend on which side of an == the source writes. *)
From Coq Require Import List Bool ZArith Arith String.
Import ListNotations.
Require Import MV.Model.PySem MV.Gen.SrcFilter.
Require Import MV.Model.PyObjR3 MV.Model.FilterAttach.
Require MV.Model.FilterPath.
Open Scope list_scope.

Definition names_of (fs : fset) : list string := map ft_name (fs_features fs).

Lemma py_set_eqb_set_eqb : forall a b, py_set_eqb Nat.eqb a b = set_eqb a b.
Proof. reflexivity. Qed.

Lemma mem_refl_incl : forall (a l : list nat), (forall x, In x a -> In x l) -> forallb (fun x => existsb (Nat.eqb x) l) a = true.
Proof.
  intros a l H. apply forallb_forall. intros x Hx. apply existsb_exists. exists x. split; [apply H, Hx|apply Nat.eqb_refl].
Qed.

Lemma set_eqb_refl : forall a, set_eqb a a = true.
Proof. intros a. unfold set_eqb. rewrite mem_refl_incl by auto. reflexivity. Qed.

Lemma nonempty_is_empty : forall (l : list nat), negb (py_nonempty l) = is_empty l.
Proof. intros [|x l]; reflexivity. Qed.

(* `feature.name == filtered_feature_name` for SOME feature of the set = the name is among the names of the set *)
Lemma exists_name : forall n l, existsb (fun f => String.eqb (ft_name f) n) l = existsb (String.eqb n) (map ft_name l).
Proof.
  intros n l. induction l as [|f l IH]; [reflexivity|]. cbn [existsb map]. rewrite IH, (String.eqb_sym n). reflexivity.
Qed.

(* the inner loop `for feature in feature_set.features`: several features of that name do what one does *)
Lemma filter_loop2_src : forall fs n sf l rel,
  ExecutionPlan_add_single_filters_to_feature_set_loop2 fs n sf l rel
  = if existsb (fun f => String.eqb (ft_name f) n) l then
      if is_empty rel then Fall sf
      else if set_eqb rel sf then Fall rel else Exit (Raise ValueError, fs)
    else Fall rel.
Proof.
  intros fs n sf l. induction l as [|f l IH]; intros rel; [reflexivity|].
  cbn [ExecutionPlan_add_single_filters_to_feature_set_loop2 existsb]. rewrite ?(String.eqb_sym n (ft_name f)).
  destruct (String.eqb (ft_name f) n); cbn [orb]; [|apply IH].
  rewrite nonempty_is_empty, py_set_eqb_set_eqb. destruct (is_empty rel) eqn:Er.
  - cbv zeta. rewrite IH, set_eqb_refl. destruct (existsb _ l); [destruct (is_empty sf)|]; reflexivity.
  - destruct (set_eqb rel sf) eqn:Es; cbn [negb]; [|reflexivity].
    rewrite IH, Er, Es. destruct (existsb _ l); reflexivity.
Qed.

(* the outer loop over GlobalFilter.collection.items() = attach_from *)
Lemma filter_loop1_src : forall fg fs l rel,
  ExecutionPlan_add_single_filters_to_feature_set_loop1 fg fs l rel
  = match attach_from fg (names_of fs) rel l with
    | Some r => Fall r
    | None => Exit (Raise ValueError, fs)
    end.
Proof.
  intros fg fs l. induction l as [|[[g n] sf] l IH]; intros rel; [reflexivity|].
  cbn [ExecutionPlan_add_single_filters_to_feature_set_loop1 attach_from]. unfold attach_step, attach_gate. cbn [fst snd].
  rewrite ?(Nat.eqb_sym fg g). destruct (Nat.eqb g fg); cbn [andb]; [|apply IH].
  rewrite filter_loop2_src, exists_name. fold (names_of fs).
  destruct (existsb (String.eqb n) (names_of fs)); [|apply IH].
  destruct (is_empty rel); [apply IH|]. destruct (set_eqb rel sf); [apply IH|reflexivity].
Qed.

(* for EVERY callee add_filters: nothing happens without a GlobalFilter or with an empty collection; ValueError with the feature
   set untouched when two gated entries hold different filter sets; otherwise add_filters receives FilterAttach.attach *)
Lemma add_single_filters_to_feature_set_src : forall (add_filters : fset -> list nat -> res unit * fset) gf fg fs,
  ExecutionPlan_add_single_filters_to_feature_set add_filters gf fg fs
  = match gf with
    | None => (Ok tt, fs)
    | Some [] => (Ok tt, fs)
    | Some c => match attach c fg (names_of fs) with
                | None => (Raise ValueError, fs)
                | Some s => add_filters fs s
                end
    end.
Proof.
  intros add_filters gf fg fs. unfold ExecutionPlan_add_single_filters_to_feature_set. cbv zeta.
  destruct gf as [c|]; [|reflexivity]. destruct c as [|e c]; [reflexivity|].
  change (Z.eqb (py_len (py_dict_keys (e :: c))) 0) with false. cbv iota.
  unfold py_dict_items. rewrite filter_loop1_src. unfold attach.
  destruct (attach_from fg (names_of fs) [] (e :: c)) as [s|]; [|reflexivity].
  destruct (add_filters fs s) as [[[]|x] fs']; reflexivity.
Qed.

(* with the callee as FeatureSet.add_filters behaves on a fresh feature set (filters is None: the validators pass) *)
Definition add_filters_model (fs : fset) (s : list nat) : res unit * fset :=
  match fs_filters fs with
  | None => (Ok tt, {| fs_features := fs_features fs; fs_filters := Some s |})
  | Some _ => (Raise ValueError, fs)
  end.

Lemma add_single_filters_to_feature_set_model : forall c fg feats s,
  c <> [] -> attach c fg (map ft_name feats) = Some s ->
  ExecutionPlan_add_single_filters_to_feature_set add_filters_model (Some c) fg {| fs_features := feats; fs_filters := None |}
  = (Ok tt, {| fs_features := feats; fs_filters := Some s |}).
Proof.
  intros c fg feats s Hc H. rewrite add_single_filters_to_feature_set_src. destruct c as [|e c]; [congruence|].
  unfold names_of. cbn [fs_features]. rewrite H. reflexivity.
Qed.

(* ---------- what the model says: which entries reach a step ---------- *)
(* the gate: the entry's group is the step's group and its feature name is the name of SOME feature of the step's feature set
   (requested or not) - the membership test FilterPath.gate uses for apply_single_filters *)
Lemma attach_gate_iff : forall fg names k, attach_gate fg names k = true <-> fst k = fg /\ In (snd k) names.
Proof.
  intros fg names [g n]. unfold attach_gate. cbn [fst snd]. rewrite andb_true_iff, Nat.eqb_eq, existsb_exists. split.
  - intros [H1 [x [Hx He]]]. apply String.eqb_eq in He. subst x. auto.
  - intros [H1 H2]. split; [exact H1|]. exists n. split; [exact H2|apply String.eqb_refl].
Qed.

Lemma attach_gate_mem : forall fg names k, attach_gate fg names k = (Nat.eqb (fst k) fg && FilterPath.mem (snd k) names)%bool.
Proof. reflexivity. Qed.

(* a matched copy m collected under (g, n) reaches the step of group g through the same test, on the entry's feature name, that
   lets it pass the engine's gate on its own (renamed) feature name *)
Lemma attach_gate_filterpath_gate : forall g names m,
  attach_gate g names (g, FilterPath.ff_name (FilterPath.m_feature m)) = FilterPath.gate names m.
Proof. intros g names m. unfold attach_gate, FilterPath.gate, FilterPath.mem. cbn [fst snd]. rewrite Nat.eqb_refl. reflexivity. Qed.

(* no gated entry: the step gets the empty set *)
Lemma attach_from_none_gated : forall fg names c rel,
  (forall e, In e c -> attach_gate fg names (fst e) = false) -> attach_from fg names rel c = Some rel.
Proof.
  intros fg names c. induction c as [|e c IH]; intros rel H; [reflexivity|].
  cbn [attach_from]. unfold attach_step. rewrite (H e (or_introl eq_refl)). apply IH. intros e' He'. apply H. right. exact He'.
Qed.

Lemma attach_none_gated : forall fg names c,
  (forall e, In e c -> attach_gate fg names (fst e) = false) -> attach c fg names = Some [].
Proof. intros. apply attach_from_none_gated. assumption. Qed.

Lemma set_eqb_trans_l : forall a b c, set_eqb a b = true -> set_eqb a c = true -> set_eqb b c = true.
Proof.
  intros a b c. unfold set_eqb. rewrite !andb_true_iff, !forallb_forall. intros [Hab Hba] [Hac Hca].
  assert (M : forall x l, existsb (Nat.eqb x) l = true <-> In x l).
  { intros x l. rewrite existsb_exists. split; [intros [y [Hy He]]; apply Nat.eqb_eq in He; subst; exact Hy|].
    intros Hx. exists x. split; [exact Hx|apply Nat.eqb_refl]. }
  split; intros x Hx; apply M.
  - apply M, Hac, M, Hba, Hx.
  - apply M, Hab, M, Hca, Hx.
Qed.

(* every gated entry with a non-empty set reaches the step: the step's filters are that set (as a set) *)
Lemma attach_from_sound : forall fg names c rel s,
  attach_from fg names rel c = Some s ->
  (rel <> [] -> set_eqb rel s = true) /\
  forall e, In e c -> attach_gate fg names (fst e) = true -> snd e <> [] -> set_eqb s (snd e) = true.
Proof.
  intros fg names c. induction c as [|e c IH]; intros rel s H.
  - cbn in H. injection H as <-. split; [intros _; apply set_eqb_refl|intros e []].
  - cbn [attach_from] in H. unfold attach_step in H. destruct (attach_gate fg names (fst e)) eqn:G.
    + destruct (is_empty rel) eqn:Er.
      * destruct rel; [|discriminate]. destruct (IH _ _ H) as [I1 I2]. split; [congruence|].
        intros e' [<-|He'] Ge Ne; [|apply I2; assumption].
        specialize (I1 Ne). unfold set_eqb in *. rewrite andb_comm. exact I1.
      * destruct (set_eqb rel (snd e)) eqn:Es; [|discriminate]. destruct (IH _ _ H) as [I1 I2].
        assert (Nr : rel <> []) by (destruct rel; [discriminate|congruence]).
        split; [intros _; apply I1, Nr|]. intros e' [<-|He'] Ge Ne; [|apply I2; assumption].
        apply (set_eqb_trans_l rel); [apply I1, Nr|exact Es].
    + destruct (IH _ _ H) as [I1 I2]. split; [exact I1|]. intros e' [<-|He'] Ge Ne; [congruence|apply I2; assumption].
Qed.

Lemma attach_sound : forall c fg names s e,
  attach c fg names = Some s -> In e c -> attach_gate fg names (fst e) = true -> snd e <> [] -> set_eqb s (snd e) = true.
Proof. intros c fg names s e H. apply (attach_from_sound fg names c [] s H). Qed.
