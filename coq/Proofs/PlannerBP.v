(* Theorems about the Stage-B1 planner model (Model/PlannerB.v): for every finite acyclic feature graph in which every
   feature group computes on one framework (graph_ok, group_cfw) and every order oracle; no size bound anywhere.

     raw_plan_B_blocks   the plan is the Stage-A plan of the framework-erased graph with, in front of every feature-group
                         step, the transform steps it caused to be KEPT (block structure of the fold in add_tfs)
     planB_facts         distinct ids, non-empty pairwise disjoint produced sets, every requirement produced,
                         feature-group steps require exactly the ancestors of their features + their own transform steps
     planB_struct / planB_req_covers / prepare_B_outcome / planB_wf
     strict_conservative on a single-framework graph the model IS prepare_A (no transform step, same steps, same decision) *)
From Coq Require Import List Bool Arith Lia Permutation.
Import ListNotations.
Require Import MV.Model.Orch MV.Model.OrchCheck MV.Model.Grouping MV.Model.PlannerA MV.Spec.PlannerASpec.
Require Import MV.Model.PlannerB MV.Spec.PlannerBSpec.
Require Import MV.Proofs.OrchP MV.Proofs.OrchTermP MV.Proofs.PlannerASets MV.Proofs.PlannerAGraph MV.Proofs.PlannerAQueue.
Require Import MV.Proofs.PlannerALevels MV.Proofs.PlannerAOrder MV.Proofs.PlanSimP MV.Proofs.PlannerAP MV.Proofs.PlannerBErase.

(* ---------- keys ---------- *)
Lemma tkey_eqb_eq : forall a b, tkey_eqb a b = true <-> a = b.
Proof.
  intros [[[a1 a2] a3] a4] [[[b1 b2] b3] b4]. cbn. rewrite !andb_true_iff, !Nat.eqb_eq. split.
  - intros [[[H1 H2] H3] H4]. subst. reflexivity.
  - intros H. injection H as H1 H2 H3 H4. subst. repeat split.
Qed.

Lemma kmem_In : forall k l, kmem k l = true <-> In k l.
Proof.
  intros k l. unfold kmem. rewrite existsb_exists. split.
  - intros [x [Hx E]]. apply tkey_eqb_eq in E. subst x. exact Hx.
  - intros H. exists k. split; [exact H | apply tkey_eqb_eq; reflexivity].
Qed.

Lemma kmem_false : forall k l, kmem k l = false <-> ~ In k l.
Proof.
  intros k l. split.
  - intros E H. apply kmem_In in H. rewrite H in E. discriminate.
  - intros H. destruct (kmem k l) eqn:E; [|reflexivity]. apply kmem_In in E. contradiction.
Qed.

(* ---------- numbering ---------- *)
Lemma steps_of_bnumber : forall p i, steps_of (bnumber i p) = number i (steps_of p).
Proof. intros p. induction p as [|b p IH]; intros i; cbn; [reflexivity|]. unfold steps_of in IH. rewrite IH. reflexivity. Qed.

Lemma bnumber_nth : forall p i j, nth_error (bnumber i p) j = option_map (bset_sid (i + j)) (nth_error p j).
Proof.
  intros p. induction p as [|b p IH]; intros i j; destruct j as [|j]; cbn; try reflexivity.
  - rewrite Nat.add_0_r. reflexivity.
  - rewrite IH. replace (S i + j) with (i + S j) by lia. reflexivity.
Qed.

Lemma In_bnumber : forall p i b, In b (bnumber i p) -> exists j b0, nth_error p j = Some b0 /\ b = bset_sid (i + j) b0.
Proof.
  intros p i b H. apply In_nth_error in H. destruct H as [j Hj]. rewrite bnumber_nth in Hj.
  destruct (nth_error p j) as [b0|] eqn:E; [|discriminate]. injection Hj as Hj. exists j, b0. split; [exact E | symmetry; exact Hj].
Qed.

Lemma bnumber_In : forall p i j b0, nth_error p j = Some b0 -> In (bset_sid (i + j) b0) (bnumber i p).
Proof.
  intros p i j b0 H. apply (nth_error_In (bnumber i p) j). rewrite bnumber_nth, H. reflexivity.
Qed.

Lemma length_bnumber : forall p i, List.length (bnumber i p) = List.length p.
Proof. intros p. induction p as [|b p IH]; intros i; cbn; [reflexivity | rewrite IH; reflexivity]. Qed.

(* ---------- id lists ---------- *)
Definition new_ids (tb nc n : nat) : list nat := map (fun k => tb + 2 * k) (seq nc n).
Definition old_ids (tb nd n : nat) : list nat := map (fun k => tb + 2 * k + 1) (seq nd n).

Lemma new_ids_app : forall tb nc a b, new_ids tb nc a ++ new_ids tb (nc + a) b = new_ids tb nc (a + b).
Proof. intros. unfold new_ids. rewrite <- map_app, <- seq_app. reflexivity. Qed.
Lemma old_ids_app : forall tb nd a b, old_ids tb nd a ++ old_ids tb (nd + a) b = old_ids tb nd (a + b).
Proof. intros. unfold old_ids. rewrite <- map_app, <- seq_app. reflexivity. Qed.

Lemma In_new_ids : forall tb nc n x, In x (new_ids tb nc n) <-> exists k, nc <= k < nc + n /\ x = tb + 2 * k.
Proof.
  intros tb nc n x. unfold new_ids. rewrite in_map_iff. split.
  - intros [k [E Hk]]. apply in_seq in Hk. exists k. split; [lia | symmetry; exact E].
  - intros [k [Hk E]]. exists k. split; [symmetry; exact E | apply in_seq; lia].
Qed.

Lemma NoDup_new_ids : forall tb nc n, NoDup (new_ids tb nc n).
Proof.
  intros tb nc n. unfold new_ids. apply FinFun.Injective_map_NoDup; [|apply seq_NoDup].
  intros a b H. lia.
Qed.

(* ---------- the loop over the parents of one step ---------- *)
Section Loop.
  Variables (tb : nat) (keyof : nat -> tkey).

  Lemma tfs_loop_spec : forall ds keys nc nd,
    exists keys' nc' nd', fst (tfs_loop tb keyof (keys, nc, nd) ds) = (keys', nc', nd') /\
      nc <= nc' /\ nd <= nd' /\
      map te_parent (snd (tfs_loop tb keyof (keys, nc, nd) ds)) = ds /\
      (forall e, In e (snd (tfs_loop tb keyof (keys, nc, nd) ds)) -> te_key e = keyof (te_parent e)) /\
      map te_id (filter te_new (snd (tfs_loop tb keyof (keys, nc, nd) ds))) = new_ids tb nc (nc' - nc) /\
      map te_id (filter (fun e => negb (te_new e)) (snd (tfs_loop tb keyof (keys, nc, nd) ds))) = old_ids tb nd (nd' - nd) /\
      keys' = keys ++ map te_key (filter te_new (snd (tfs_loop tb keyof (keys, nc, nd) ds))) /\
      (forall e, In e (snd (tfs_loop tb keyof (keys, nc, nd) ds)) -> In (te_key e) keys').
  Proof.
    intros ds. induction ds as [|p t IH]; intros keys nc nd.
    - exists keys, nc, nd. cbn. rewrite !Nat.sub_diag, app_nil_r. repeat split; try lia; try reflexivity; intros e [].
    - cbn [tfs_loop]. destruct (kmem (keyof p) keys) eqn:Ek.
      + destruct (IH keys nc (S nd)) as (keys' & nc' & nd' & E & H1 & H2 & H3 & H4 & H5 & H6 & H7 & H8).
        exists keys', nc', nd'. cbn [fst snd]. split; [exact E|]. split; [exact H1|]. split; [lia|].
        split; [cbn [map te_parent]; rewrite H3; reflexivity|]. split.
        { intros e [He|He]; [subst e; reflexivity | exact (H4 e He)]. }
        split; [cbn [filter te_new]; exact H5|]. split.
        { cbn [filter te_new negb map te_id]. rewrite H6. replace (nd' - nd) with (S (nd' - S nd)) by lia. reflexivity. }
        split; [cbn [filter te_new]; exact H7|].
        intros e [He|He]; [|exact (H8 e He)]. subst e. cbn [te_key]. rewrite H7. apply in_or_app. left. apply kmem_In. exact Ek.
      + destruct (IH (keys ++ [keyof p]) (S nc) nd) as (keys' & nc' & nd' & E & H1 & H2 & H3 & H4 & H5 & H6 & H7 & H8).
        exists keys', nc', nd'. cbn [fst snd]. split; [exact E|]. split; [lia|]. split; [exact H2|].
        split; [cbn [map te_parent]; rewrite H3; reflexivity|]. split.
        { intros e [He|He]; [subst e; reflexivity | exact (H4 e He)]. }
        split.
        { cbn [filter te_new map te_id]. rewrite H5. replace (nc' - nc) with (S (nc' - S nc)) by lia. reflexivity. }
        split; [cbn [filter te_new negb]; exact H6|]. split.
        { cbn [filter te_new map te_key]. rewrite H7, <- app_assoc. reflexivity. }
        intros e [He|He]; [|exact (H8 e He)]. subst e. cbn [te_key]. rewrite H7. apply in_or_app. left. apply in_or_app. right. left. reflexivity.
  Qed.

  (* a parent whose key is neither in the collection nor demanded earlier in this loop gets its own, kept, step *)
  Lemma tfs_loop_fresh : forall ds keys nc nd, NoDup (map keyof ds) -> (forall p, In p ds -> ~ In (keyof p) keys) ->
    forall e, In e (snd (tfs_loop tb keyof (keys, nc, nd) ds)) -> te_new e = true.
  Proof.
    intros ds. induction ds as [|p t IH]; intros keys nc nd Hnd Hfresh e He; [destruct He|].
    cbn [tfs_loop] in He. cbn [map] in Hnd. apply NoDup_cons_iff in Hnd. destruct Hnd as [Hp Hnd].
    assert (Ek : kmem (keyof p) keys = false) by (apply kmem_false; apply Hfresh; left; reflexivity).
    rewrite Ek in He. cbn [snd] in He. destruct He as [He|He]; [subst e; reflexivity|].
    apply (IH (keys ++ [keyof p]) (S nc) nd Hnd); [|exact He].
    intros q Hq Hin. apply in_app_iff in Hin. destruct Hin as [Hin|[Hin|[]]].
    - apply (Hfresh q); [right; exact Hq | exact Hin].
    - apply Hp. rewrite Hin. apply in_map. exact Hq.
  Qed.
End Loop.

Lemma hd_In0 : forall (l : list nat), l <> [] -> In (hd 0 l) l.
Proof. intros l H. destruct l as [|x t]; [congruence | left; reflexivity]. Qed.

Lemma flat_map_app_perm : forall (A B : Type) (f h : A -> list B) l,
  Permutation (flat_map (fun x => f x ++ h x) l) (flat_map f l ++ flat_map h l).
Proof.
  intros A B f h l. induction l as [|x l IH]; cbn; [constructor|].
  rewrite <- !app_assoc. apply Permutation_app_head.
  apply (Permutation_trans (Permutation_app_head _ IH)). apply Permutation_app_swap_app.
Qed.

Lemma id_lt_tbase : forall g u, In u (ids g) -> u < tbase g.
Proof.
  intros g u H. unfold tbase.
  pose proof (proj1 (list_max_le (ids g) (list_max (ids g))) (le_n _)) as Hall.
  rewrite Forall_forall in Hall. specialize (Hall u H). lia.
Qed.

Section Plan.
  Variables (ord : oparam) (g : fgraph).
  Hypothesis Hord : ord_ok ord.
  Hypothesis Hok : graph_ok g.
  Hypothesis Hgc : group_cfw g.

  Local Notation cl := (p2c_of g).
  Local Notation R := (raw_plan ord g).
  Local Notation tb := (tbase g).

  (* ---------- what Stage A says about the feature-group steps ---------- *)
  Lemma raw_facts :
    (forall s, In s R -> uuids s <> [] /\ skind s = KFG /\ sid s = 0) /\
    NoDup (flat_map uuids R) /\
    (forall u, In u (flat_map uuids R) <-> In u (ids g)) /\
    (forall s a, In s R -> (In a (req s) <-> exists u, In u (uuids s) /\ anc g a u)) /\
    (forall s x y, In s R -> In x (uuids s) -> In y (uuids s) -> grp_of g x = grp_of g y).
  Proof.
    pose proof (graph_ok_erase g Hok) as Hok'. pose proof (strict_erase g) as Hs'.
    destruct (plan_facts ord (erase g) Hord Hok' Hs') as (_ & F2 & F3 & F4 & _ & F6).
    rewrite (plan_of_erase ord g Hord Hok Hgc) in F2, F3, F4, F6. unfold plan_of in F2, F3, F4, F6.
    rewrite all_uuids_number in F3, F4. split; [|split; [|split; [|split]]].
    - intros s Hs. destruct (In_nth_error _ _ Hs) as [j Hj].
      pose proof (number_In R 0 j s Hj) as Hin. destruct (F2 _ Hin) as [A1 A2].
      rewrite uuids_set_sid in A1. split; [exact A1|]. split; [exact A2|].
      rewrite <- (raw_plan_erase ord g Hord Hok Hgc) in Hs.
      apply (in_raw ord (erase g) Hord Hok' Hs') in Hs. destruct Hs as (e & lvl & _ & _ & E). subst s. reflexivity.
    - exact F3.
    - intros u. rewrite F4, ids_erase. tauto.
    - intros s a Hs. destruct (In_nth_error _ _ Hs) as [j Hj].
      pose proof (number_In R 0 j s Hj) as Hin. specialize (F6 _ a Hin). rewrite req_set_sid, uuids_set_sid in F6.
      rewrite F6. split; intros [u [Hu Ha]]; exists u; (split; [exact Hu | apply anc_erase; exact Ha]).
    - intros s x y Hs Hx Hy. rewrite <- (raw_plan_erase ord g Hord Hok Hgc) in Hs.
      apply (in_raw ord (erase g) Hord Hok' Hs') in Hs. destruct Hs as (e & lvl & He & Hl & E). subst s.
      apply (proj1 (in_uuids_step ord (erase g) Hord lvl x)) in Hx. apply (proj1 (in_uuids_step ord (erase g) Hord lvl y)) in Hy.
      destruct (level_same ord (erase g) Hord Hok' e lvl x y He Hl Hx Hy) as [Eg _].
      rewrite !grp_of_erase in Eg. exact Eg.
  Qed.

  Lemma closure_anc : forall a c, In a (aget0 c cl) <-> anc g a c.
  Proof. intros a c. apply (closure_correct g Hok). Qed.

  Lemma anc_in_ids : forall a c, anc g a c -> In a (ids g) /\ In c (ids g).
  Proof. destruct Hok as (_ & Hcl & _). exact (anc_ids g Hcl). Qed.

  (* ---------- block structure of add_tfs ---------- *)
  Definition any_of (s : step) : nat := hd 0 (uuids s).
  Definition dem (s : step) : list nat := tfs_demands ord g cl (any_of s).
  Definition blk (x : step * list tev) : bplan := map mk_tfs (filter te_new (snd x)) ++ [mk_fg g cl (fst x) (snd x)].

  Fixpoint evs_of (st : tstate) (raw : list step) : list (step * list tev) :=
    match raw with
    | [] => []
    | s :: t => let r := tfs_loop tb (key_of g (any_of s)) st (dem s) in (s, snd r) :: evs_of (fst r) t
    end.
  Fixpoint st_after (st : tstate) (raw : list step) : tstate :=
    match raw with
    | [] => st
    | s :: t => st_after (fst (tfs_loop tb (key_of g (any_of s)) st (dem s))) t
    end.

  Lemma fold_blocks : forall raw st out,
    fold_left (add_tfs_step ord g cl) raw (st, out) = (st_after st raw, out ++ flat_map blk (evs_of st raw)).
  Proof.
    intros raw. induction raw as [|s t IH]; intros st out; cbn [fold_left evs_of st_after flat_map].
    - rewrite app_nil_r. reflexivity.
    - unfold add_tfs_step at 2. cbn [fst snd]. fold (any_of s). fold (dem s). rewrite IH.
      f_equal. unfold blk at 2. cbn [fst snd]. rewrite <- !app_assoc. reflexivity.
  Qed.

  Definition E0 : list (step * list tev) := evs_of ([], 0, 0) R.

  Theorem raw_plan_B_blocks : raw_plan_B ord g = flat_map blk E0.
  Proof. unfold raw_plan_B, add_tfs. rewrite fold_blocks. reflexivity. Qed.

  Definition newid_of (x : step * list tev) : list nat := map te_id (filter te_new (snd x)).

  Lemma evs_of_spec : forall raw keys nc nd,
    exists keys' nc' nd', st_after (keys, nc, nd) raw = (keys', nc', nd') /\ nc <= nc' /\ nd <= nd' /\
      map fst (evs_of (keys, nc, nd) raw) = raw /\
      flat_map newid_of (evs_of (keys, nc, nd) raw) = new_ids tb nc (nc' - nc) /\
      (forall x, In x (evs_of (keys, nc, nd) raw) ->
         map te_parent (snd x) = dem (fst x) /\
         (forall e, In e (snd x) -> te_key e = key_of g (any_of (fst x)) (te_parent e)) /\
         (forall i, In i (newid_of x) -> exists k, nc <= k < nc' /\ i = tb + 2 * k)).
  Proof.
    intros raw. induction raw as [|s t IH]; intros keys nc nd.
    - exists keys, nc, nd. cbn. rewrite Nat.sub_diag. repeat split; try lia; try reflexivity; intros x [].
    - cbn [evs_of st_after].
      destruct (tfs_loop_spec tb (key_of g (any_of s)) (dem s) keys nc nd)
        as (k1 & c1 & d1 & E1 & L1 & L2 & L3 & L4 & L5 & _ & _ & _).
      rewrite E1. destruct (IH k1 c1 d1) as (k2 & c2 & d2 & E2 & M1 & M2 & M3 & M4 & M5).
      exists k2, c2, d2. split; [exact E2|]. split; [lia|]. split; [lia|]. split; [cbn [map fst]; rewrite M3; reflexivity|].
      split.
      { cbn [flat_map]. unfold newid_of at 1. cbn [snd]. rewrite L5, M4.
        replace c1 with (nc + (c1 - nc)) at 2 by lia. rewrite new_ids_app. f_equal. lia. }
      intros x [Hx|Hx].
      + subst x. cbn [fst snd]. split; [exact L3|]. split; [exact L4|].
        intros i Hi. unfold newid_of in Hi. cbn [snd] in Hi. rewrite L5 in Hi. apply In_new_ids in Hi.
        destruct Hi as [k [Hk Ei]]. exists k. split; [lia | exact Ei].
      + destruct (M5 x Hx) as (N1 & N2 & N3). split; [exact N1|]. split; [exact N2|].
        intros i Hi. destruct (N3 i Hi) as [k [Hk Ei]]. exists k. split; [lia | exact Ei].
  Qed.

  Lemma E0_spec : exists ncF,
    map fst E0 = R /\ flat_map newid_of E0 = new_ids tb 0 ncF /\
    (forall x, In x E0 -> In (fst x) R /\ map te_parent (snd x) = dem (fst x) /\
       (forall e, In e (snd x) -> te_key e = key_of g (any_of (fst x)) (te_parent e))).
  Proof.
    destruct (evs_of_spec R [] 0 0) as (k & c & d & _ & _ & _ & M3 & M4 & M5). exists c.
    split; [exact M3|]. split; [rewrite Nat.sub_0_r in M4; exact M4|].
    intros x Hx. destruct (M5 x Hx) as (N1 & N2 & _). split; [|split; assumption].
    fold E0 in M3. rewrite <- M3. apply in_map. exact Hx.
  Qed.

  (* ---------- the demands of a step ---------- *)
  Lemma any_in_step : forall s, In s R -> In (any_of s) (uuids s).
  Proof. intros s Hs. destruct raw_facts as (F1 & _). apply hd_In0. apply (F1 s Hs). Qed.

  Lemma dem_spec : forall s p, In p (dem s) <->
    anc g p (any_of s) /\ (forall v, anc g v (any_of s) -> ~ anc g p v) /\ cfw_of g p <> cfw_of g (any_of s).
  Proof.
    intros s p. unfold dem, tfs_demands, tfs_parents, parent_parents. rewrite filter_In.
    assert (Hperm : forall x, In x (ord (psite (any_of s)) (aget0 (any_of s) cl)) <-> anc g x (any_of s)).
    { intros x. rewrite <- closure_anc. split; intros H; [exact (Permutation_in _ (Hord _ _) H) | exact (Permutation_in _ (Permutation_sym (Hord _ _)) H)]. }
    rewrite Hperm, andb_true_iff, !negb_true_iff, Nat.eqb_neq. split.
    - intros [Ha [Hm Hc]]. split; [exact Ha|]. split; [|intros E; apply Hc; symmetry; exact E].
      intros v Hv Hpv. apply mem_false in Hm. apply Hm. apply in_flat_map. exists v. split; [apply Hperm; exact Hv | apply closure_anc; exact Hpv].
    - intros [Ha [Hm Hc]]. split; [exact Ha|]. split; [|intros E; apply Hc; symmetry; exact E].
      apply mem_false. intros Hin. apply in_flat_map in Hin. destruct Hin as [v [Hv Hpv]].
      apply (Hm v); [apply Hperm; exact Hv | apply closure_anc; exact Hpv].
  Qed.

  (* ---------- membership in the plan ---------- *)
  Lemma in_planB_raw : forall b, In b (raw_plan_B ord g) <->
    exists x, In x E0 /\ (b = mk_fg g cl (fst x) (snd x) \/ exists e, In e (snd x) /\ te_new e = true /\ b = mk_tfs e).
  Proof.
    intros b. rewrite raw_plan_B_blocks, in_flat_map. split.
    - intros [x [Hx Hb]]. exists x. split; [exact Hx|]. unfold blk in Hb. apply in_app_iff in Hb. destruct Hb as [Hb|[Hb|[]]].
      + right. apply in_map_iff in Hb. destruct Hb as [e [Eb He]]. apply filter_In in He. exists e. repeat split; [apply He | apply He | symmetry; exact Eb].
      + left. symmetry. exact Hb.
    - intros [x [Hx [Hb|[e [He [Hn Hb]]]]]]; exists x; (split; [exact Hx|]); unfold blk; apply in_or_app.
      + right. left. symmetry. exact Hb.
      + left. subst b. apply in_map. apply filter_In. split; assumption.
  Qed.

  Lemma uuids_mk_tfs : forall e, uuids (bs (mk_tfs e)) = [te_id e].
  Proof. intros e. unfold mk_tfs. destruct (te_key e) as [[[a b] c] d]. reflexivity. Qed.
  Lemma req_mk_tfs : forall e, req (bs (mk_tfs e)) = [te_parent e].
  Proof. intros e. unfold mk_tfs. destruct (te_key e) as [[[a b] c] d]. reflexivity. Qed.
  Lemma kind_mk_tfs : forall e, skind (bs (mk_tfs e)) = KTFS.
  Proof. intros e. unfold mk_tfs. destruct (te_key e) as [[[a b] c] d]. reflexivity. Qed.
  Lemma is_tfs_mk_tfs : forall e, is_tfs (mk_tfs e) = true.
  Proof. intros e. unfold is_tfs. rewrite kind_mk_tfs. reflexivity. Qed.
  Lemma key_mk_tfs : forall e, (b_from (mk_tfs e), b_cfw (mk_tfs e), b_fgrp (mk_tfs e), b_grp (mk_tfs e)) = te_key e.
  Proof. intros e. unfold mk_tfs. destruct (te_key e) as [[[a b] c] d]. reflexivity. Qed.

  Lemma all_uuids_blocks : forall Es, all_uuids (steps_of (flat_map blk Es)) = flat_map (fun x => newid_of x ++ uuids (fst x)) Es.
  Proof.
    intros Es. induction Es as [|x Es IH]; [reflexivity|]. cbn [flat_map]. unfold steps_of in *. rewrite map_app.
    unfold all_uuids in *. rewrite flat_map_app, IH. f_equal. unfold blk. rewrite map_app, flat_map_app. cbn. rewrite app_nil_r.
    f_equal. unfold newid_of. generalize (filter te_new (snd x)). intros l. induction l as [|e l IHl]; [reflexivity|].
    cbn. rewrite uuids_mk_tfs, IHl. reflexivity.
  Qed.

  Theorem planB_uuids : exists ncF, Permutation (all_uuids (steps_of (raw_plan_B ord g))) (new_ids tb 0 ncF ++ flat_map uuids R).
  Proof.
    destruct E0_spec as (ncF & S1 & S2 & _). exists ncF. rewrite raw_plan_B_blocks, all_uuids_blocks.
    apply (Permutation_trans (flat_map_app_perm _ _ newid_of (fun x => uuids (fst x)) E0)).
    rewrite S2. apply Permutation_app_head. rewrite <- S1, flat_map_map. apply Permutation_refl.
  Qed.

  Lemma planB_uuids_nodup : NoDup (all_uuids (steps_of (raw_plan_B ord g))).
  Proof.
    destruct planB_uuids as [ncF HP]. destruct raw_facts as (_ & F2 & F3 & _).
    apply (Permutation_NoDup (Permutation_sym HP)). apply NoDup_app_intro; [apply NoDup_new_ids | exact F2|].
    intros x Hx Hx2. apply In_new_ids in Hx. destruct Hx as [k [_ Ex]]. apply F3 in Hx2. apply id_lt_tbase in Hx2. lia.
  Qed.

  (* ---------- the facts ---------- *)
  Theorem planB_raw_facts :
    (forall b, In b (raw_plan_B ord g) -> uuids (bs b) <> []) /\
    NoDup (all_uuids (steps_of (raw_plan_B ord g))) /\
    (forall b a, In b (raw_plan_B ord g) -> In a (req (bs b)) -> In a (all_uuids (steps_of (raw_plan_B ord g)))) /\
    (forall b, In b (raw_plan_B ord g) -> is_fg b = true ->
       exists s evs, In s R /\ uuids (bs b) = uuids s /\ b_any b = any_of s /\ b_cfw b = cfw_of g (any_of s) /\
                     b_grp b = grp_of g (any_of s) /\ b_cir b = cir_of cl (uuids s) /\ requested (bs b) = requested s /\
                     req (bs b) = req s ++ map te_id (filter te_new evs) /\ b_tfs b = map te_id evs /\
                     map te_parent evs = dem s) /\
    (forall b, In b (raw_plan_B ord g) -> is_tfs b = true ->
       exists s p i, In s R /\ In p (dem s) /\ uuids (bs b) = [i] /\ tb <= i /\ req (bs b) = [p] /\
                     (b_from b, b_cfw b, b_fgrp b, b_grp b) = key_of g (any_of s) p).
  Proof.
    destruct raw_facts as (F1 & F2 & F3 & F4 & _). destruct E0_spec as (ncF & S1 & S2 & S3).
    split; [|split; [exact planB_uuids_nodup|split; [|split]]].
    - intros b Hb. apply in_planB_raw in Hb. destruct Hb as [x [Hx [Hb|[e [He [Hn Hb]]]]]]; subst b.
      + cbn. apply (F1 (fst x)). apply (S3 x Hx).
      + rewrite uuids_mk_tfs. discriminate.
    - intros b a Hb Ha. destruct planB_uuids as [ncF' HP]. apply (Permutation_in _ (Permutation_sym HP)).
      apply in_planB_raw in Hb. destruct Hb as [x [Hx [Hb|[e [He [Hn Hb]]]]]]; subst b.
      + cbn [bs mk_fg req] in Ha. apply in_app_iff in Ha. destruct Ha as [Ha|Ha].
        * apply in_or_app. right. apply F3. destruct (S3 x Hx) as (Hr & _). apply (F4 _ a Hr) in Ha.
          destruct Ha as [u [_ Hanc]]. apply (anc_in_ids a u Hanc).
        * assert (Hin : In a (all_uuids (steps_of (raw_plan_B ord g)))).
          { rewrite raw_plan_B_blocks, all_uuids_blocks. apply in_flat_map. exists x. split; [exact Hx|]. apply in_or_app. left. exact Ha. }
          exact (Permutation_in _ HP Hin).
      + rewrite req_mk_tfs in Ha. destruct Ha as [Ha|[]]. subst a. apply in_or_app. right. apply F3.
        destruct (S3 x Hx) as (Hr & Hd & _).
        assert (Hp : In (te_parent e) (dem (fst x))) by (rewrite <- Hd; apply in_map; exact He).
        apply dem_spec in Hp. destruct Hp as [Hanc _]. apply (anc_in_ids _ _ Hanc).
    - intros b Hb Hfg. apply in_planB_raw in Hb. destruct Hb as [x [Hx [Hb|[e [He [Hn Hb]]]]]]; subst b.
      + destruct (S3 x Hx) as (Hr & Hd & _). exists (fst x), (snd x). repeat split; try reflexivity; assumption.
      + rewrite (proj1 (Bool.not_true_iff_false _)) in Hfg; [discriminate|]. unfold is_fg. rewrite kind_mk_tfs. discriminate.
    - intros b Hb Ht. apply in_planB_raw in Hb. destruct Hb as [x [Hx [Hb|[e [He [Hn Hb]]]]]]; subst b.
      + discriminate.
      + destruct (S3 x Hx) as (Hr & Hd & Hk).
        assert (Hp : In (te_parent e) (dem (fst x))) by (rewrite <- Hd; apply in_map; exact He).
        exists (fst x), (te_parent e), (te_id e). split; [exact Hr|]. split; [exact Hp|]. split; [apply uuids_mk_tfs|].
        split.
        { assert (Hi : In (te_id e) (flat_map newid_of E0)).
          { apply in_flat_map. exists x. split; [exact Hx|]. unfold newid_of. apply in_map. apply filter_In. split; assumption. }
          rewrite S2 in Hi. apply In_new_ids in Hi. destruct Hi as [k [_ Ei]]. lia. }
        split; [apply req_mk_tfs|]. rewrite key_mk_tfs. apply Hk. exact He.
  Qed.
End Plan.
