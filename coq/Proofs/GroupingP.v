(* group_items partitions the features exactly as share_spec says, for every iteration order (C15). *)
From Coq Require Import List Bool Arith Lia ZArith String.
Import ListNotations.
Require Import MV.Model.Options MV.Model.Identity MV.Model.Grouping MV.Spec.GroupingSpec.
Local Open Scope nat_scope.

Lemma oty_eqb_eq : forall a b, oty_eqb a b = true <-> a = b.
Proof.
  intros [x|] [y|]; cbn; split; intros H; try discriminate; try reflexivity.
  - apply Nat.eqb_eq in H. congruence.
  - injection H as ->. apply Nat.eqb_refl.
Qed.
Lemma gkey_eqb_eq : forall a b, gkey_eqb a b = true <-> a = b.
Proof.
  intros [a1 a2] [b1 b2]. unfold gkey_eqb. cbn. rewrite andb_true_iff, Nat.eqb_eq, oty_eqb_eq.
  split; [intros [-> ->]; reflexivity | intros H; injection H as -> ->; auto].
Qed.
Lemma gkey_eqb_refl : forall a, gkey_eqb a a = true.
Proof. intros. apply gkey_eqb_eq. reflexivity. Qed.

(* ---------- coll_add ---------- *)
Lemma coll_add_in : forall k x c k' ms', In (k', ms') (coll_add k x c) ->
  (exists ms, In (k', ms) c /\ (ms' = ms \/ (k' = k /\ ms' = ms ++ [x]))) \/ (k' = k /\ ms' = [x]).
Proof.
  intros k x c; induction c as [|[k0 ms0] t IH]; cbn; intros k' ms' H.
  - destruct H as [H|[]]. injection H as <- <-. right. auto.
  - destruct (gkey_eqb k k0) eqn:E.
    + apply gkey_eqb_eq in E. subst k0. destruct H as [H|H].
      * injection H as <- <-. left. exists ms0. split; [left; reflexivity | right; auto].
      * left. exists ms'. split; [right; exact H | left; reflexivity].
    + destruct H as [H|H].
      * injection H as <- <-. left. exists ms0. split; [left; reflexivity | left; reflexivity].
      * destruct (IH _ _ H) as [(ms & Hin & Hm)|Hn]; [left; exists ms; split; [right; exact Hin | exact Hm] | right; exact Hn].
Qed.

Lemma coll_add_mono : forall k x c k' ms, In (k', ms) c -> exists ms', In (k', ms') (coll_add k x c) /\ incl ms ms'.
Proof.
  intros k x c; induction c as [|[k0 ms0] t IH]; cbn; intros k' ms H; [destruct H|].
  destruct (gkey_eqb k k0) eqn:E.
  - destruct H as [H|H].
    + injection H as <- <-. exists (ms0 ++ [x]). split; [left; reflexivity | apply incl_appl, incl_refl].
    + exists ms. split; [right; exact H | apply incl_refl].
  - destruct H as [H|H].
    + injection H as <- <-. exists ms0. split; [left; reflexivity | apply incl_refl].
    + destruct (IH _ _ H) as (ms' & Hin & Hi). exists ms'. split; [right; exact Hin | exact Hi].
Qed.

Lemma coll_add_has : forall k x c, exists ms', In (k, ms') (coll_add k x c) /\ In x ms'.
Proof.
  intros k x c; induction c as [|[k0 ms0] t IH]; cbn.
  - exists [x]. split; left; reflexivity.
  - destruct (gkey_eqb k k0) eqn:E.
    + apply gkey_eqb_eq in E. subst k0. exists (ms0 ++ [x]). split; [left; reflexivity | apply in_or_app; right; left; reflexivity].
    + destruct IH as (ms' & Hin & Hx). exists ms'. split; [right; exact Hin | exact Hx].
Qed.

Lemma coll_add_keys : forall k x c,
  map fst (coll_add k x c) = if existsb (gkey_eqb k) (map fst c) then map fst c else map fst c ++ [k].
Proof.
  intros k x c; induction c as [|[k0 ms0] t IH]; cbn; [reflexivity|].
  destruct (gkey_eqb k k0) eqn:E; cbn; [reflexivity|]. rewrite IH. destruct (existsb _ _); reflexivity.
Qed.

Lemma nodup_snoc : forall A (l : list A) k, NoDup l -> ~ In k l -> NoDup (l ++ [k]).
Proof.
  induction l as [|y l IH]; intros k H Hn; cbn.
  - constructor; [intros [] | constructor].
  - inversion H as [|? ? Hy Hl]; subst. constructor.
    + intros Hin. apply in_app_or in Hin. destruct Hin as [Hin|[Hin|[]]]; [exact (Hy Hin) | subst; apply Hn; left; reflexivity].
    + apply IH; [exact Hl | intros Hin; apply Hn; right; exact Hin].
Qed.

Lemma coll_add_nodup : forall k x c, NoDup (map fst c) -> NoDup (map fst (coll_add k x c)).
Proof.
  intros k x c H. rewrite coll_add_keys. destruct (existsb (gkey_eqb k) (map fst c)) eqn:E; [exact H|].
  apply nodup_snoc; [exact H|]. intros Hin.
  assert (existsb (gkey_eqb k) (map fst c) = true); [|congruence].
  apply existsb_exists. exists k. split; [exact Hin | apply gkey_eqb_refl].
Qed.

(* the first entry whose key satisfies q *)
Lemma coll_add_find : forall (q : gkey -> bool) k x c,
  option_map fst (find (fun g => q (fst g)) (coll_add k x c)) =
  match option_map fst (find (fun g => q (fst g)) c) with
  | Some k' => Some k'
  | None => if q k then Some k else None
  end.
Proof.
  intros q k x c; induction c as [|[k0 ms0] t IH]; cbn.
  - destruct (q k); reflexivity.
  - destruct (gkey_eqb k k0) eqn:E; cbn.
    + apply gkey_eqb_eq in E. subst k0. destruct (q k) eqn:Eq; cbn; [reflexivity|].
      destruct (option_map fst (find (fun g => q (fst g)) t)); reflexivity.
    + destruct (q k0); cbn; [reflexivity | exact IH].
Qed.

Definition key_base_is (b : nat) (g : gkey * list item) : bool := Nat.eqb (fst (fst g)) b.
Lemma coll_add_find_base : forall b k x c,
  option_map fst (find (key_base_is b) (coll_add k x c)) =
  match option_map fst (find (key_base_is b) c) with
  | Some k' => Some k'
  | None => if Nat.eqb (fst k) b then Some k else None
  end.
Proof. intros b k x c. exact (coll_add_find (fun k => Nat.eqb (fst k) b) k x c). Qed.

Lemma coll_add_nonempty : forall k x c, (forall g, In g c -> snd g <> []) -> forall g, In g (coll_add k x c) -> snd g <> [].
Proof.
  intros k x c H [k' ms'] Hin. cbn. destruct (coll_add_in _ _ _ _ _ Hin) as [(ms & Hc & [->|[_ ->]])|[_ ->]].
  - exact (H _ Hc).
  - destruct ms; discriminate.
  - discriminate.
Qed.

Lemma nodup_keys_inj : forall (c : coll) k ms ms', NoDup (map fst c) -> In (k, ms) c -> In (k, ms') c -> ms = ms'.
Proof.
  induction c as [|[k0 m0] t IH]; cbn; intros k ms ms' Hn H1 H2; [destruct H1|].
  inversion Hn as [|? ? Hk Ht]; subst.
  destruct H1 as [H1|H1], H2 as [H2|H2].
  - congruence.
  - injection H1 as <- <-. exfalso. apply Hk. apply (in_map fst) in H2. exact H2.
  - injection H2 as <- <-. exfalso. apply Hk. apply (in_map fst) in H1. exact H1.
  - eapply IH; eassumption.
Qed.

Lemma find_ext_in : forall A (p q : A -> bool) l, (forall x, In x l -> p x = q x) -> find p l = find q l.
Proof.
  intros A p q l; induction l as [|x t IH]; intros H; cbn; [reflexivity|].
  rewrite (H x (or_introl eq_refl)). destruct (q x); [reflexivity|]. apply IH. intros y Hy. apply H. right. exact Hy.
Qed.

(* ---------- the partition ---------- *)
Section Partition.
  Variable its : list item.

  (* the dict key under which x ends up *)
  Definition gk (x : item) : gkey :=
    match anchor its x with Some t => (it_kb t, it_ty t) | None => (it_kb x, None) end.
  Definition typed_with (b : nat) (t : item) : bool := is_typed t && Nat.eqb (it_kb t) b.

  Lemma gk_typed : forall x t, it_ty x = Some t -> gk x = (it_kb x, Some t).
  Proof. intros x t H. unfold gk, anchor, is_typed. rewrite H. rewrite H. reflexivity. Qed.
  Lemma gk_untyped : forall x, it_ty x = None ->
    gk x = match find (typed_with (it_kb x)) its with Some t => (it_kb t, it_ty t) | None => (it_kb x, None) end.
  Proof. intros x H. unfold gk, anchor, is_typed. rewrite H. reflexivity. Qed.
  Lemma gk_fst : forall x, fst (gk x) = it_kb x.
  Proof.
    intros x. unfold gk, anchor. destruct (is_typed x); [reflexivity|].
    destruct (find _ its) as [t|] eqn:E; [|reflexivity]. apply find_some in E. destruct E as [_ E].
    apply andb_true_iff in E. destruct E as [_ E]. apply Nat.eqb_eq in E. exact E.
  Qed.
  Lemma share_spec_gk : forall a b, share_spec its a b = gkey_eqb (gk a) (gk b).
  Proof.
    intros a b. unfold share_spec, gk.
    assert (Ht : forall x t, anchor its x = Some t -> exists ty, it_ty t = Some ty).
    { intros x t. unfold anchor. destruct (is_typed x) eqn:E.
      - intros H; injection H as <-. unfold is_typed in E. destruct (it_ty x); [eexists; reflexivity | discriminate].
      - intros H. apply find_some in H. destruct H as [_ H]. apply andb_true_iff in H. destruct H as [H _].
        unfold is_typed in H. destruct (it_ty t); [eexists; reflexivity | discriminate]. }
    destruct (anchor its a) as [s|] eqn:Ea, (anchor its b) as [t|] eqn:Eb; unfold gkey_eqb; cbn; try reflexivity.
    - destruct (Ht _ _ Ea) as (ty & ->). cbn. rewrite andb_false_r. reflexivity.
    - destruct (Ht _ _ Eb) as (ty & ->). cbn. rewrite andb_false_r. reflexivity.
    - rewrite andb_true_r. reflexivity.
  Qed.

  (* invariant of the collector *)
  Record cinv (c : coll) : Prop := {
    ci_sound : forall k ms m, In (k, ms) c -> In m ms -> gk m = k;
    ci_nodup : NoDup (map fst c);
    ci_nonempty : forall g, In g c -> snd g <> []
  }.

  Lemma cinv_nil : cinv [].
  Proof. split; [intros ? ? ? [] | constructor | intros ? []]. Qed.

  Lemma cinv_add : forall c x, cinv c -> cinv (coll_add (gk x) x c).
  Proof.
    intros c x [H1 H2 H3]. split.
    - intros k ms m Hin Hm. destruct (coll_add_in _ _ _ _ _ Hin) as [(ms0 & Hc & [->|[-> ->]])|[-> ->]].
      + exact (H1 _ _ _ Hc Hm).
      + apply in_app_or in Hm. destruct Hm as [Hm|[<-|[]]]; [exact (H1 _ _ _ Hc Hm) | reflexivity].
      + destruct Hm as [<-|[]]. reflexivity.
    - apply coll_add_nodup. exact H2.
    - apply coll_add_nonempty. exact H3.
  Qed.

  Lemma base_matches_key : forall c b, cinv c ->
    find (base_matches b) c = find (key_base_is b) c.
  Proof.
    intros c b [H1 _ H3]. apply find_ext_in. intros [k ms] Hin. unfold base_matches, key_base_is. cbn.
    destruct ms as [|m ms']; [exfalso; exact (H3 _ Hin eq_refl)|]. cbn.
    rewrite <- (H1 k (m :: ms') m Hin (or_introl eq_refl)), gk_fst. reflexivity.
  Qed.

  (* what the first pass has built after a prefix `pre` of the features *)
  Definition p1inv (pre : list item) (st : coll * list item) : Prop :=
    cinv (fst st) /\
    (forall x, In x pre -> is_typed x = true -> exists ms, In (gk x, ms) (fst st) /\ In x ms) /\
    snd st = filter (fun x => negb (is_typed x)) pre /\
    (forall b, option_map fst (find (key_base_is b) (fst st)) =
               option_map (fun t => (it_kb t, it_ty t)) (find (typed_with b) pre)).

  Lemma find_app : forall A (p : A -> bool) l1 l2,
    find p (l1 ++ l2) = match find p l1 with Some x => Some x | None => find p l2 end.
  Proof. intros A p l1 l2; induction l1 as [|x t IH]; cbn; [reflexivity|]. destruct (p x); [reflexivity | exact IH]. Qed.

  Lemma p1inv_step : forall pre st x, p1inv pre st -> p1inv (pre ++ [x]) (pass1_step st x).
  Proof.
    intros pre [c us] x (Hc & Hin & Hus & Hf). unfold pass1_step. cbn [fst snd] in *.
    destruct (it_ty x) as [t|] eqn:Et.
    - (* typed *)
      rewrite <- (gk_typed x t Et). unfold p1inv. cbn [fst snd]. split; [|split; [|split]].
      + apply cinv_add. exact Hc.
      + intros y Hy Hty. apply in_app_or in Hy. destruct Hy as [Hy|[<-|[]]].
        * destruct (Hin y Hy Hty) as (ms & Hm & Hym). destruct (coll_add_mono (gk x) x c _ _ Hm) as (ms' & Hm' & Hi).
          exists ms'. split; [exact Hm' | apply Hi; exact Hym].
        * apply coll_add_has.
      + rewrite filter_app. cbn. unfold is_typed at 2. rewrite Et. cbn. rewrite app_nil_r. exact Hus.
      + intros b. cbn [fst snd]. rewrite coll_add_find_base, Hf, find_app.
        destruct (find (typed_with b) pre); cbn; [reflexivity|].
        rewrite gk_fst. unfold typed_with, is_typed. rewrite Et. cbn.
        destruct (Nat.eqb (it_kb x) b); cbn; [rewrite (gk_typed x t Et), Et; reflexivity | reflexivity].
    - (* untyped: only remembered *)
      unfold p1inv. cbn [fst snd]. split; [exact Hc | split; [|split]].
      + intros y Hy Hty. apply in_app_or in Hy. destruct Hy as [Hy|[<-|[]]]; [exact (Hin y Hy Hty)|].
        unfold is_typed in Hty. rewrite Et in Hty. discriminate.
      + rewrite filter_app. cbn. unfold is_typed at 2. rewrite Et. cbn. rewrite Hus. reflexivity.
      + intros b. rewrite Hf, find_app. destruct (find (typed_with b) pre); [reflexivity|].
        cbn. unfold typed_with, is_typed. rewrite Et. reflexivity.
  Qed.

  Lemma p1inv_fold : forall l pre st, p1inv pre st -> p1inv (pre ++ l) (fold_left pass1_step l st).
  Proof.
    induction l as [|x t IH]; intros pre st H; cbn; [rewrite app_nil_r; exact H|].
    rewrite (app_assoc pre [x] t : pre ++ x :: t = (pre ++ [x]) ++ t). apply IH. apply p1inv_step. exact H.
  Qed.

  Lemma p1inv_pass1 : p1inv its (pass1 its).
  Proof.
    unfold pass1. apply (p1inv_fold its [] ([], [])). split; [exact cinv_nil | split; [intros ? [] | split; [reflexivity | reflexivity]]].
  Qed.

  (* second pass *)
  Definition p2inv (done : list item) (c : coll) : Prop :=
    cinv c /\
    (forall x, In x its -> is_typed x = true -> exists ms, In (gk x, ms) c /\ In x ms) /\
    (forall x, In x done -> exists ms, In (gk x, ms) c /\ In x ms) /\
    (forall b, match find (typed_with b) its with
               | Some t => option_map fst (find (key_base_is b) c) = Some (it_kb t, it_ty t)
               | None => forall g, find (key_base_is b) c = Some g -> fst g = (b, None)
               end).

  Lemma add_untyped_eq : forall c u,
    add_untyped c u = coll_add (match find (base_matches (it_kb u)) c with Some (k, _) => k | None => (it_kb u, None) end) u c.
  Proof. intros c u. unfold add_untyped. destruct (find _ c) as [[k ms]|]; reflexivity. Qed.

  Lemma target_of_find : forall (r : option (gkey * list item)) (A : option item) (u : item),
    match A with
    | Some t => option_map fst r = Some (it_kb t, it_ty t)
    | None => forall g, r = Some g -> fst g = (it_kb u, None)
    end ->
    match r with Some (k, _) => k | None => (it_kb u, None) end =
    match A with Some t => (it_kb t, it_ty t) | None => (it_kb u, None) end.
  Proof.
    intros r A u H. destruct A as [t|].
    - destruct r as [[k ms]|]; cbn in H; [|discriminate]. injection H as ->. reflexivity.
    - destruct r as [[k ms]|]; [|reflexivity]. exact (H _ eq_refl).
  Qed.

  Lemma add_untyped_target : forall done c u, p2inv done c -> it_ty u = None -> add_untyped c u = coll_add (gk u) u c.
  Proof.
    intros done c u (Hc & _ & _ & Hf) Hu. rewrite add_untyped_eq, (base_matches_key c (it_kb u) Hc), (gk_untyped u Hu).
    f_equal. apply target_of_find. exact (Hf (it_kb u)).
  Qed.

  Lemma p2inv_step : forall done c u, p2inv done c -> it_ty u = None -> p2inv (done ++ [u]) (add_untyped c u).
  Proof.
    intros done c u H Hu. rewrite (add_untyped_target done c u H Hu). destruct H as (Hc & Ht & Hd & Hf).
    split; [apply cinv_add; exact Hc | split; [|split]].
    - intros x Hx Hty. destruct (Ht x Hx Hty) as (ms & Hm & Hxm).
      destruct (coll_add_mono (gk u) u c _ _ Hm) as (ms' & Hm' & Hi). exists ms'. split; [exact Hm' | apply Hi; exact Hxm].
    - intros x Hx. apply in_app_or in Hx. destruct Hx as [Hx|[<-|[]]]; [|apply coll_add_has].
      destruct (Hd x Hx) as (ms & Hm & Hxm).
      destruct (coll_add_mono (gk u) u c _ _ Hm) as (ms' & Hm' & Hi). exists ms'. split; [exact Hm' | apply Hi; exact Hxm].
    - intros b. specialize (Hf b). pose proof (coll_add_find_base b (gk u) u c) as Hfind.
      destruct (find (typed_with b) its) as [t|] eqn:Eb.
      + rewrite Hfind, Hf. reflexivity.
      + intros g Hg. rewrite Hg in Hfind. cbn in Hfind.
        destruct (find (key_base_is b) c) as [g0|] eqn:E0; cbn in Hfind.
        * injection Hfind as ->. exact (Hf _ eq_refl).
        * rewrite gk_fst in Hfind. destruct (Nat.eqb (it_kb u) b) eqn:Eub; [|discriminate].
          injection Hfind as ->. apply Nat.eqb_eq in Eub. subst b.
          rewrite (gk_untyped u Hu), Eb. reflexivity.
  Qed.

  Lemma p2inv_fold : forall us done c, (forall u, In u us -> it_ty u = None) -> p2inv done c ->
    p2inv (done ++ us) (fold_left add_untyped us c).
  Proof.
    induction us as [|u t IH]; intros done c Hu H; cbn; [rewrite app_nil_r; exact H|].
    rewrite (app_assoc done [u] t : done ++ u :: t = (done ++ [u]) ++ t). apply IH.
    - intros v Hv. apply Hu. right. exact Hv.
    - apply p2inv_step; [exact H | apply Hu; left; reflexivity].
  Qed.

  Lemma group_coll_inv : p2inv (filter (fun x => negb (is_typed x)) its) (group_coll its).
  Proof.
    unfold group_coll. destruct p1inv_pass1 as (Hc & Hin & Hus & Hf). rewrite Hus.
    apply (p2inv_fold _ [] (fst (pass1 its))).
    - intros u Hu. apply filter_In in Hu. destruct Hu as [_ Hu]. unfold is_typed in Hu. destruct (it_ty u); [discriminate | reflexivity].
    - split; [exact Hc | split; [exact Hin | split; [intros ? [] |]]].
      intros b. specialize (Hf b). destruct (find (typed_with b) its) as [t|]; cbn in Hf.
      + exact Hf.
      + intros g Hg. rewrite Hg in Hf. discriminate.
  Qed.

  Lemma placed : forall x, In x its -> exists ms, In (gk x, ms) (group_coll its) /\ In x ms.
  Proof.
    intros x Hx. destruct group_coll_inv as (_ & Ht & Hd & _). destruct (is_typed x) eqn:E.
    - exact (Ht x Hx E).
    - apply Hd. apply filter_In. split; [exact Hx | rewrite E; reflexivity].
  Qed.

  (* main result: the partition is the one described by share_spec *)
  Lemma grouping_spec_l : forall a b, In a its -> In b its ->
    (same_group (group_items its) a b <-> share_spec its a b = true).
  Proof.
    intros a b Ha Hb. rewrite share_spec_gk, gkey_eqb_eq. destruct group_coll_inv as ([Hs Hn _] & _). split.
    - intros (g & Hg & Hag & Hbg). unfold group_items in Hg. apply in_map_iff in Hg. destruct Hg as ([k ms] & <- & Hin). cbn in *.
      rewrite (Hs _ _ _ Hin Hag), (Hs _ _ _ Hin Hbg). reflexivity.
    - intros Hk. destruct (placed a Ha) as (ms & Hm & Ham). destruct (placed b Hb) as (ms' & Hm' & Hbm).
      rewrite <- Hk in Hm'. rewrite <- (nodup_keys_inj _ _ _ _ Hn Hm Hm') in Hbm.
      exists ms. split; [|split; assumption]. unfold group_items. apply in_map_iff. exists (gk a, ms). split; [reflexivity | exact Hm].
  Qed.

  (* every member of a group has the base class of the group key: any_base does not depend on the member chosen *)
  Lemma group_members_agree_l : forall g a b, In g (group_items its) -> In a g -> In b g ->
    it_kb a = it_kb b /\ (is_typed a = true -> is_typed b = true -> it_ty a = it_ty b).
  Proof.
    intros g a b Hg Ha Hb. destruct group_coll_inv as ([Hs _ _] & _).
    unfold group_items in Hg. apply in_map_iff in Hg. destruct Hg as ([k ms] & <- & Hin). cbn in *.
    pose proof (Hs _ _ _ Hin Ha) as Ka. pose proof (Hs _ _ _ Hin Hb) as Kb. split.
    - rewrite <- (gk_fst a), <- (gk_fst b), Ka, Kb. reflexivity.
    - intros Ta Tb. unfold is_typed in Ta, Tb. destruct (it_ty a) as [ta|] eqn:Ea; [|discriminate]. destruct (it_ty b) as [tb|] eqn:Eb; [|discriminate].
      rewrite (gk_typed a ta Ea) in Ka. rewrite (gk_typed b tb Eb) in Kb. congruence.
  Qed.

  Lemma every_feature_placed_l : forall x, In x its -> exists g, In g (group_items its) /\ In x g.
  Proof.
    intros x Hx. destruct (placed x Hx) as (ms & Hm & Hxm). exists ms. split; [|exact Hxm].
    unfold group_items. apply in_map_iff. exists (gk x, ms). split; [reflexivity | exact Hm].
  Qed.
End Partition.

(* ---------- readable corollaries ---------- *)
Lemma typed_share_iff_l : forall its a b ta tb, In a its -> In b its -> it_ty a = Some ta -> it_ty b = Some tb ->
  (same_group (group_items its) a b <-> it_kb a = it_kb b /\ ta = tb).
Proof.
  intros its a b ta tb Ha Hb Ea Eb. rewrite (grouping_spec_l its a b Ha Hb). unfold share_spec, anchor, is_typed.
  rewrite Ea, Eb. cbn [oty_eqb]. rewrite Ea, Eb. cbn [oty_eqb]. rewrite andb_true_iff, !Nat.eqb_eq. reflexivity.
Qed.

Lemma untyped_joins_first_l : forall its u t, In u its -> it_ty u = None ->
  find (fun t => is_typed t && Nat.eqb (it_kb t) (it_kb u)) its = Some t ->
  same_group (group_items its) u t.
Proof.
  intros its u t Hu Eu Hf. pose proof (find_some _ _ Hf) as [Ht Hp]. apply andb_true_iff in Hp. destruct Hp as [Hty _].
  apply (grouping_spec_l its u t Hu Ht). unfold share_spec, anchor. rewrite Hty. unfold is_typed at 1. rewrite Eu, Hf.
  rewrite Nat.eqb_refl. cbn. apply oty_eqb_eq. reflexivity.
Qed.

Lemma untyped_alone_l : forall its u v, In u its -> In v its -> it_ty u = None ->
  find (fun t => is_typed t && Nat.eqb (it_kb t) (it_kb u)) its = None ->
  (same_group (group_items its) u v <-> it_ty v = None /\ it_kb u = it_kb v).
Proof.
  intros its u v Hu Hv Eu Hf. rewrite (grouping_spec_l its u v Hu Hv). unfold share_spec, anchor. unfold is_typed at 1. rewrite Eu, Hf.
  destruct (is_typed v) eqn:Ev.
  - split; [discriminate|]. intros [H _]. unfold is_typed in Ev. rewrite H in Ev. discriminate.
  - assert (Etv : it_ty v = None) by (unfold is_typed in Ev; destruct (it_ty v); [discriminate | reflexivity]).
    destruct (find (fun t => is_typed t && Nat.eqb (it_kb t) (it_kb v)) its) as [t|] eqn:Fv.
    + split; [discriminate|]. intros [_ Hk]. rewrite <- Hk in Fv. congruence.
    + rewrite Nat.eqb_eq. split; [intros H; split; [exact Etv | exact H] | intros [_ H]; exact H].
Qed.

(* context options are not read: features that differ only in context are grouped identically *)
Lemma base_class_ctx : forall fs fs' x x', Forall2 same_but_context fs fs' -> same_but_context x x' ->
  base_class fs x = base_class fs' x'.
Proof.
  intros fs fs' x x' H (_ & Hg & Hc & _). unfold base_class. induction H as [|y y' t t' (_ & Hg' & Hc' & _) _ IH]; cbn; [reflexivity|].
  assert (E : base_eqb y x = base_eqb y' x') by (unfold base_eqb, hash_eqb, opts_agree; rewrite Hg, Hc, Hg', Hc'; reflexivity).
  rewrite E. destruct (base_eqb y' x'); [reflexivity | rewrite IH; reflexivity].
Qed.

Lemma context_irrelevant_l : forall fs fs', Forall2 same_but_context fs fs' -> group_features fs = group_features fs'.
Proof.
  intros fs fs' H. unfold group_features. f_equal. f_equal.
  assert (Hgen : forall l l', Forall2 same_but_context l l' -> map (item_of fs) l = map (item_of fs') l').
  { intros l l' Hl. induction Hl as [|y y' t t' Hy _ IH]; cbn; [reflexivity|]. rewrite IH. f_equal.
    unfold item_of. rewrite (base_class_ctx fs fs' y y' H Hy). destruct Hy as (Hi & _ & _ & Ht). rewrite Hi, Ht. reflexivity. }
  apply Hgen. exact H.
Qed.

(* ---------- the literal property text ---------- *)
Lemma not_ambiguous : forall its, kf_ambiguous its = false ->
  forall u t1 t2, In u its -> In t1 its -> In t2 its -> is_typed u = false -> is_typed t1 = true -> is_typed t2 = true ->
  it_kb t1 = it_kb u -> it_kb t2 = it_kb u -> it_ty t1 = it_ty t2.
Proof.
  intros its H u t1 t2 Hu H1 H2 Tu T1 T2 K1 K2. unfold kf_ambiguous in H.
  destruct (oty_eqb (it_ty t1) (it_ty t2)) eqn:E; [apply oty_eqb_eq; exact E|]. exfalso.
  assert (existsb (fun u => negb (is_typed u) && existsb (fun t1 => existsb (fun t2 =>
      is_typed t1 && is_typed t2 && Nat.eqb (it_kb t1) (it_kb u) && Nat.eqb (it_kb t2) (it_kb u)
      && negb (oty_eqb (it_ty t1) (it_ty t2))) its) its) its = true); [|congruence].
  apply existsb_exists. exists u. split; [exact Hu|]. rewrite Tu. cbn.
  apply existsb_exists. exists t1. split; [exact H1|]. apply existsb_exists. exists t2. split; [exact H2|].
  rewrite T1, T2, K1, K2, Nat.eqb_refl, E. reflexivity.
Qed.

Lemma share_iff_agree_partial_l : forall its, kf_ambiguous its = false -> forall a b, In a its -> In b its ->
  (same_group (group_items its) a b <-> agreeb a b = true).
Proof.
  intros its Hk a b Ha Hb. rewrite (grouping_spec_l its a b Ha Hb). unfold share_spec, anchor, agreeb.
  assert (Hty : forall x, is_typed x = false -> it_ty x = None).
  { intros x H. unfold is_typed in H. destruct (it_ty x); [discriminate | reflexivity]. }
  assert (Hf : forall u t, In t its -> is_typed t = true -> it_kb t = it_kb u ->
               exists s, find (fun t => is_typed t && Nat.eqb (it_kb t) (it_kb u)) its = Some s).
  { intros u t Ht Tt Kt. destruct (find _ its) as [s|] eqn:E; [eexists; reflexivity|].
    pose proof (find_none _ _ E t Ht) as Hn. cbn in Hn. rewrite Tt, Kt, Nat.eqb_refl in Hn. discriminate. }
  destruct (is_typed a) eqn:Ta, (is_typed b) eqn:Tb.
  - unfold is_typed in Ta, Tb. destruct (it_ty a), (it_ty b); try discriminate. cbn. reflexivity.
  - (* a typed, b untyped *)
    rewrite (Hty b Tb). assert (Hsa : exists ta, it_ty a = Some ta) by (unfold is_typed in Ta; destruct (it_ty a); [eexists; reflexivity | discriminate]).
    destruct Hsa as (ta & Eta). rewrite Eta. rewrite andb_true_r.
    destruct (find _ its) as [s|] eqn:E.
    + pose proof (find_some _ _ E) as [Hs Hp]. apply andb_true_iff in Hp. destruct Hp as [Ts Ks]. apply Nat.eqb_eq in Ks.
      rewrite andb_true_iff, !Nat.eqb_eq, oty_eqb_eq. split.
      * intros [H1 _]. congruence.
      * intros H. split; [congruence|]. rewrite <- Eta. apply (not_ambiguous its Hk b a s Hb Ha Hs Tb Ta Ts H Ks).
    + split; [discriminate|]. intros H. apply Nat.eqb_eq in H. destruct (Hf b a Ha Ta H) as (s & Hs). congruence.
  - (* a untyped, b typed *)
    rewrite (Hty a Ta). cbn [andb]. rewrite andb_true_r.
    destruct (find _ its) as [s|] eqn:E.
    + pose proof (find_some _ _ E) as [Hs Hp]. apply andb_true_iff in Hp. destruct Hp as [Ts Ks]. apply Nat.eqb_eq in Ks.
      rewrite andb_true_iff, !Nat.eqb_eq, oty_eqb_eq. split.
      * intros [H1 _]. congruence.
      * intros H. split; [congruence|]. apply (not_ambiguous its Hk a s b Ha Hs Hb Ta Ts Tb Ks (eq_sym H)).
    + split; [discriminate|]. intros H. apply Nat.eqb_eq in H. destruct (Hf a b Hb Tb (eq_sym H)) as (s & Hs). congruence.
  - (* both untyped *)
    rewrite (Hty a Ta). cbn [andb]. rewrite andb_true_r.
    destruct (Nat.eqb (it_kb a) (it_kb b)) eqn:Ek.
    + apply Nat.eqb_eq in Ek. rewrite Ek. destruct (find _ its) as [s|]; [|tauto].
      rewrite Nat.eqb_refl. cbn. split; [reflexivity|]. intros _. apply oty_eqb_eq. reflexivity.
    + destruct (find (fun t => is_typed t && Nat.eqb (it_kb t) (it_kb a)) its) as [s|] eqn:Ea,
               (find (fun t => is_typed t && Nat.eqb (it_kb t) (it_kb b)) its) as [t|] eqn:Eb; try tauto.
      * pose proof (find_some _ _ Ea) as [_ Hp]. apply andb_true_iff in Hp. destruct Hp as [_ Ks]. apply Nat.eqb_eq in Ks.
        pose proof (find_some _ _ Eb) as [_ Hq]. apply andb_true_iff in Hq. destruct Hq as [_ Kt]. apply Nat.eqb_eq in Kt.
        rewrite Ks, Kt, Ek. cbn. tauto.
Qed.

Definition amb_t1 := {| it_id := 0; it_kb := 0; it_ty := Some 1 |}.
Definition amb_t2 := {| it_id := 1; it_kb := 0; it_ty := Some 3 |}.
Definition amb_u := {| it_id := 2; it_kb := 0; it_ty := None |}.
Lemma share_iff_agree_refuted_l :
  kf_ambiguous [amb_t1; amb_t2; amb_u] = true /\ agreeb amb_u amb_t2 = true /\
  ~ same_group (group_items [amb_t1; amb_t2; amb_u]) amb_u amb_t2 /\
  (* and with the other iteration order it is the other way round *)
  same_group (group_items [amb_t2; amb_t1; amb_u]) amb_u amb_t2.
Proof.
  split; [reflexivity | split; [reflexivity | split]].
  - intros H. apply (grouping_spec_l [amb_t1; amb_t2; amb_u] amb_u amb_t2) in H; [discriminate H | cbn; auto | cbn; auto].
  - apply (grouping_spec_l [amb_t2; amb_t1; amb_u] amb_u amb_t2); [cbn; auto | cbn; auto | reflexivity].
Qed.

(* ---------- hash classes vs equality of options ---------- *)
Require Import MV.Spec.OptionsSpec MV.Proofs.CanonP.
Local Open Scope nat_scope.

(* hnorm respects == *)
Lemma all2_map_hnorm : forall x y, Forall (fun a => forall b, py_eq a b = true -> py_eq (hnorm a) (hnorm b) = true) x ->
  all2 py_eq x y = true -> all2 py_eq (map hnorm x) (map hnorm y) = true.
Proof.
  induction x as [|a x IH]; destruct y as [|b y]; cbn; intros HF H; try discriminate; [reflexivity|].
  inversion HF as [|? ? Ha Hx]; subst. apply andb_true_iff in H. destruct H as [H1 H2]. rewrite (Ha b H1). cbn. apply IH; assumption.
Qed.
Lemma set_map_hnorm : forall x y, Forall (fun a => forall b, py_eq a b = true -> py_eq (hnorm a) (hnorm b) = true) x ->
  Nat.eqb (List.length x) (List.length y) && forallb (fun e => existsb (py_eq e) y) x = true ->
  Nat.eqb (List.length (map hnorm x)) (List.length (map hnorm y)) && forallb (fun e => existsb (py_eq e) (map hnorm y)) (map hnorm x) = true.
Proof.
  intros x y HF H. apply andb_true_iff in H. destruct H as [Hl Hall]. rewrite !map_length, Hl. cbn.
  apply forallb_forall. intros e He. apply in_map_iff in He. destruct He as (a & <- & Ha).
  rewrite forallb_forall in Hall. specialize (Hall a Ha). apply existsb_exists in Hall. destruct Hall as (b & Hb & Hab).
  apply existsb_exists. exists (hnorm b). split; [apply in_map; exact Hb|]. rewrite Forall_forall in HF. exact (HF a Ha b Hab).
Qed.
Lemma int_hash_b2z : forall b, int_hash (b2z b) = b2z b.
Proof. intros [|]; reflexivity. Qed.
Lemma hnorm_respects_eq : forall a b, py_eq a b = true -> py_eq (hnorm a) (hnorm b) = true.
Proof.
  induction a using pyval_ind'; intros v Heq.
  - destruct v; cbn in Heq; try discriminate. reflexivity.
  - destruct v; cbn in Heq; try discriminate; cbn [hnorm]; [exact Heq|].
    apply Z.eqb_eq in Heq. subst z. cbn [py_eq num_of]. rewrite int_hash_b2z. apply Z.eqb_refl.
  - destruct v; cbn in Heq; try discriminate; cbn [hnorm]; apply Z.eqb_eq in Heq; subst; cbn [py_eq num_of].
    + rewrite int_hash_b2z. apply Z.eqb_refl.
    + apply Z.eqb_refl.
  - destruct v; cbn in Heq; try discriminate; cbn [hnorm]. apply String.eqb_eq in Heq. subst s0.
    destruct (String.eqb s ""); [reflexivity | cbn; apply String.eqb_refl].
  - destruct v; cbn [py_eq] in Heq; try discriminate; cbn [hnorm py_eq]. apply all2_map_hnorm; assumption.
  - destruct v; cbn [py_eq] in Heq; try discriminate; cbn [hnorm py_eq]. apply all2_map_hnorm; assumption.
  - destruct v; cbn [py_eq] in Heq; try discriminate; cbn [hnorm py_eq]; apply set_map_hnorm; assumption.
  - destruct v; cbn [py_eq] in Heq; try discriminate; cbn [hnorm py_eq]; apply set_map_hnorm; assumption.
  - destruct v; cbn [py_eq] in Heq; try discriminate; cbn [hnorm]. exact Heq.
  - destruct v; cbn in Heq; try discriminate; cbn [hnorm]. apply Nat.eqb_eq in Heq. subst n0. cbn [py_eq]. apply String.eqb_refl.
Qed.

(* equal canonical forms have equal hashes ... *)
Lemma canon_eqb_hash_eqb : forall a b, canon_eqb a b = true -> hash_eqb a b = true.
Proof.
  intros a b H. unfold canon_eqb in H. unfold hash_eqb. apply andb_true_iff in H. destruct H as [H1 H2].
  destruct (hash_key (VDict (g_group a))) as [x|]; [|discriminate]. destruct (hash_key (VDict (g_group b))) as [y|]; [|discriminate].
  rewrite (hnorm_respects_eq _ _ H1), H2. reflexivity.
Qed.
(* ... and equal options have equal canonical forms *)
Lemma agree_canon_eqb : forall a b,
  wfv (VDict (g_group a)) -> wfv (VDict (g_group b)) -> nofs (VDict (g_group a)) -> nofs (VDict (g_group b)) ->
  hash_key (VDict (g_group a)) <> None -> hash_key (VDict (g_group b)) <> None ->
  opts_agree a b = true -> canon_eqb a b = true.
Proof.
  intros a b Wa Wb Na Nb Ha Hb H. unfold opts_agree in H. apply andb_true_iff in H. destruct H as [H1 H2].
  unfold canon_eqb. destruct (hash_key (VDict (g_group a))) as [x|] eqn:Ea; [|congruence].
  destruct (hash_key (VDict (g_group b))) as [y|] eqn:Eb; [|congruence].
  rewrite (hash_key_respects_eq_l _ _ x y Wa Wb Na Nb H1 Ea Eb), H2. reflexivity.
Qed.

(* features with equal (group options, frameworks) have the same hash integer, so a dict keyed by them never splits them *)
Lemma equal_options_same_hash_l : forall a b,
  wfv (VDict (g_group a)) -> wfv (VDict (g_group b)) -> nofs (VDict (g_group a)) -> nofs (VDict (g_group b)) ->
  hash_key (VDict (g_group a)) <> None -> hash_key (VDict (g_group b)) <> None ->
  opts_agree a b = true -> hash_eqb a b = true.
Proof. intros a b Wa Wb Na Nb Ha Hb H. apply canon_eqb_hash_eqb. apply agree_canon_eqb; assumption. Qed.
Lemma equal_options_same_class_l : forall a b,
  wfv (VDict (g_group a)) -> wfv (VDict (g_group b)) -> nofs (VDict (g_group a)) -> nofs (VDict (g_group b)) ->
  hash_key (VDict (g_group a)) <> None -> hash_key (VDict (g_group b)) <> None ->
  opts_agree a b = true -> base_eqb a b = true.
Proof. intros a b Wa Wb Na Nb Ha Hb H. unfold base_eqb. rewrite (equal_options_same_hash_l a b Wa Wb Na Nb Ha Hb H), H. reflexivity. Qed.
(* one dictionary key <-> equal (options, frameworks) *)
Lemma same_class_iff_equal_options_l : forall a b,
  wfv (VDict (g_group a)) -> wfv (VDict (g_group b)) -> nofs (VDict (g_group a)) -> nofs (VDict (g_group b)) ->
  hash_key (VDict (g_group a)) <> None -> hash_key (VDict (g_group b)) <> None ->
  (base_eqb a b = true <-> opts_agree a b = true).
Proof.
  intros a b Wa Wb Na Nb Ha Hb. split; [|apply equal_options_same_class_l; assumption].
  unfold base_eqb. intros H. apply andb_true_iff in H. exact (proj2 H).
Qed.

(* The converse fails for the hash INTEGER alone -- the former known findings, kept as regression witnesses: the repaired
   code computes them separately.  (1) one canonical form for unequal options: a list and a tuple with the same elements *)
Definition gf1 (i : nat) (v : pyval) : gfeat := {| g_id := i; g_group := [(KStr "c", v)]; g_ctx := []; g_cfw := None; g_ty := Some 1 |}.
Definition hc_a : gfeat := gf1 0 (VList [VInt 1%Z; VInt 2%Z]).
Definition hc_b : gfeat := gf1 1 (VTuple [VInt 1%Z; VInt 2%Z]).
Lemma hash_conflation_regression_l :
  opts_agree hc_a hc_b = false /\ canon_eqb hc_a hc_b = true /\ hash_eqb hc_a hc_b = true /\ base_eqb hc_a hc_b = false /\
  kf_canon_conflation [hc_a; hc_b] = true /\ kf_hash_collision [hc_a; hc_b] = false /\ kf_hash_conflation [hc_a; hc_b] = true /\
  group_features [hc_a; hc_b] = [[0]; [1]].
Proof. vm_compute. repeat split. Qed.

(* (2) different canonical forms with one hash integer: hash(-1) = hash(-2) *)
Definition hc_e : gfeat := gf1 0 (VInt (-1)%Z).
Definition hc_f : gfeat := gf1 1 (VInt (-2)%Z).
Lemma hash_collision_regression_l :
  opts_agree hc_e hc_f = false /\ canon_eqb hc_e hc_f = false /\ hash_eqb hc_e hc_f = true /\ base_eqb hc_e hc_f = false /\
  kf_hash_collision [hc_e; hc_f] = true /\ kf_canon_conflation [hc_e; hc_f] = false /\ kf_hash_conflation [hc_e; hc_f] = true /\
  group_features [hc_e; hc_f] = [[0]; [1]].
Proof. vm_compute. repeat split. Qed.
(* the other collisions of the modelled hash: "" / 0, z / z mod (2^61 - 1), an Enum member / its name, and the same
   inside a tuple, a list, a nested dict (each pair is replayed on the implementation by the harness) *)
Definition collide_pairs : list (pyval * pyval) :=
  [ (VStr "", VInt 0%Z); (VStr "", VBool false); (VInt 2305843009213693951%Z, VInt 0%Z); (VInt 2305843009213693952%Z, VBool true);
    (VInt (-2305843009213693952)%Z, VInt (-2)%Z); (VOpq 0 true, VStr "E0");
    (VTuple [VInt (-1)%Z], VTuple [VInt (-2)%Z]); (VList [VInt 1%Z; VInt (-1)%Z], VList [VInt 1%Z; VInt (-2)%Z]);
    (VDict [(KStr "q", VInt (-1)%Z)], VDict [(KStr "q", VInt (-2)%Z)]); (VDict [(KStr "", VInt 1%Z)], VDict [(KInt 0, VInt 1%Z)]);
    (VSet [VInt (-1)%Z], VSet [VInt (-2)%Z]) ].
Lemma hash_collision_pairs_l :
  forallb (fun p => let a := gf1 0 (fst p) in let b := gf1 1 (snd p) in
                    hash_eqb a b && negb (canon_eqb a b) && negb (opts_agree a b) && negb (base_eqb a b)
                    && all2 (all2 Nat.eqb) (group_features [a; b]) [[0]; [1]]) collide_pairs = true.
Proof. vm_compute. reflexivity. Qed.

(* when the hash-class relation is an equivalence on the request (it is: equality of hash integers), the class index
   of two features is the same iff they are related *)
Lemma first_idx_lt : forall A (p : A -> bool) l x, In x l -> p x = true -> first_idx p l < List.length l.
Proof.
  intros A p l x; induction l as [|y t IH]; cbn; intros Hin Hp; [destruct Hin|].
  destruct (p y) eqn:E; [lia|]. destruct Hin as [->|Hin]; [congruence|]. specialize (IH Hin Hp). lia.
Qed.
Lemma first_idx_nth : forall A (p : A -> bool) l d, first_idx p l < List.length l -> p (nth (first_idx p l) l d) = true.
Proof.
  intros A p l d; induction l as [|y t IH]; cbn; intros H; [lia|].
  destruct (p y) eqn:E; [exact E|]. apply IH. lia.
Qed.
Lemma first_idx_ext : forall A (p q : A -> bool) l, (forall x, In x l -> p x = q x) -> first_idx p l = first_idx q l.
Proof.
  intros A p q l; induction l as [|y t IH]; cbn; intros H; [reflexivity|].
  rewrite (H y (or_introl eq_refl)). destruct (q y); [reflexivity|]. f_equal. apply IH. intros x Hx. apply H. right. exact Hx.
Qed.

Lemma base_class_iff_l : forall fs a b,
  (forall x, In x fs -> base_eqb x x = true) ->
  (forall x y, In x fs -> In y fs -> base_eqb x y = true -> base_eqb y x = true) ->
  (forall x y z, In x fs -> In y fs -> In z fs -> base_eqb x y = true -> base_eqb y z = true -> base_eqb x z = true) ->
  In a fs -> In b fs -> (base_class fs a = base_class fs b <-> base_eqb a b = true).
Proof.
  intros fs a b Hr Hs Ht Ha Hb. unfold base_class. split.
  - intros H. pose proof (first_idx_lt _ (fun y => base_eqb y a) fs a Ha (Hr a Ha)) as Hlt.
    pose proof (first_idx_nth _ (fun y => base_eqb y a) fs a Hlt) as H1. cbv beta in H1.
    pose proof Hlt as Hlt'. rewrite H in Hlt'.
    pose proof (first_idx_nth _ (fun y => base_eqb y b) fs a Hlt') as H2. cbv beta in H2. rewrite <- H in H2.
    set (r := nth (first_idx (fun y => base_eqb y a) fs) fs a) in *.
    assert (Hin : In r fs) by (apply nth_In; exact Hlt).
    apply (Ht a r b Ha Hin Hb); [apply Hs; assumption | exact H2].
  - intros H. apply first_idx_ext. intros x Hx. cbv beta.
    destruct (base_eqb x a) eqn:E1, (base_eqb x b) eqn:E2; try reflexivity.
    + rewrite (Ht x a b Hx Ha Hb E1 H) in E2. discriminate.
    + rewrite (Ht x b a Hx Hb Ha E2 (Hs a b Ha Hb H)) in E1. discriminate.
Qed.

(* ---------- the code groups by equality of (group options, frameworks) ---------- *)
Lemma existsb_false_in : forall A (p : A -> bool) l x, existsb p l = false -> In x l -> p x = false.
Proof.
  intros A p l x H Hx. destruct (p x) eqn:E; [|reflexivity].
  assert (existsb p l = true) by (apply existsb_exists; exists x; split; assumption). congruence.
Qed.
Lemma grouping_by_equality_l : forall fs, hashable_request fs -> group_features fs = group_features_eq fs.
Proof.
  intros fs Hh. unfold group_features, group_features_eq. f_equal. f_equal. apply map_ext_in. intros x Hx.
  unfold item_of, item_of_eq. f_equal. unfold base_class, eq_class. apply first_idx_ext. intros y Hy. cbv beta.
  destruct (Hh y Hy) as (Wy & Ny & Hy'). destruct (Hh x Hx) as (Wx & Nx & Hx').
  pose proof (same_class_iff_equal_options_l y x Wy Wx Ny Nx Hy' Hx') as [H1 H2].
  destruct (base_eqb y x) eqn:E1, (opts_agree y x) eqn:E2; try reflexivity.
  - discriminate (H1 eq_refl).
  - discriminate (H2 eq_refl).
Qed.
(* the union of the two (former known-defect) domains is the whole domain where the hash integer conflates *)
Lemma kf_split_l : forall fs, hashable_request fs ->
  kf_hash_conflation fs = kf_canon_conflation fs || kf_hash_collision fs.
Proof.
  intros fs Hh. unfold kf_hash_conflation, kf_canon_conflation, kf_hash_collision.
  destruct (existsb _ fs) eqn:E at 1.
  - symmetry. apply existsb_exists in E. destruct E as (a & Ha & E). apply existsb_exists in E. destruct E as (b & Hb & E).
    apply andb_true_iff in E. destruct E as [E1 E2]. apply orb_true_iff.
    destruct (canon_eqb a b) eqn:Ec.
    + left. apply existsb_exists. exists a. split; [exact Ha|]. apply existsb_exists. exists b. split; [exact Hb|]. rewrite Ec, E2. reflexivity.
    + right. apply existsb_exists. exists a. split; [exact Ha|]. apply existsb_exists. exists b. split; [exact Hb|]. rewrite E1, Ec. reflexivity.
  - symmetry. apply orb_false_iff. split.
    + destruct (existsb _ fs) eqn:E' at 1; [|reflexivity]. exfalso.
      apply existsb_exists in E'. destruct E' as (a & Ha & E'). apply existsb_exists in E'. destruct E' as (b & Hb & E').
      apply andb_true_iff in E'. destruct E' as [E1 E2].
      pose proof (existsb_false_in _ _ _ a E Ha) as H1. cbv beta in H1. pose proof (existsb_false_in _ _ _ b H1 Hb) as H2. cbv beta in H2.
      rewrite (canon_eqb_hash_eqb a b E1), E2 in H2. discriminate.
    + destruct (existsb _ fs) eqn:E' at 1; [|reflexivity]. exfalso.
      apply existsb_exists in E'. destruct E' as (a & Ha & E'). apply existsb_exists in E'. destruct E' as (b & Hb & E').
      apply andb_true_iff in E'. destruct E' as [E1 E2].
      pose proof (existsb_false_in _ _ _ a E Ha) as H1. cbv beta in H1. pose proof (existsb_false_in _ _ _ b H1 Hb) as H2. cbv beta in H2.
      rewrite E1 in H2. cbn in H2. destruct (opts_agree a b) eqn:Eo; [|discriminate].
      destruct (Hh a Ha) as (Wa & Na & Ha'). destruct (Hh b Hb) as (Wb & Nb & Hb').
      rewrite (agree_canon_eqb a b Wa Wb Na Nb Ha' Hb' Eo) in E2. discriminate.
Qed.
