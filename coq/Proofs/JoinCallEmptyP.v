(* Proofs for Model/JoinCallEmpty.v: the relational operators and the JoinStep's engine call at the empty boundary (C12). *)
From Coq Require Import List Bool String Permutation ZArith.
Import ListNotations.
Require Import MV.Spec.Rel MV.Model.RoutingJ MV.Model.JoinCall MV.Model.JoinCallEmpty MV.Proofs.RelLemmas.
Open Scope list_scope.

(* ---- list helpers ---- *)
Lemma filter_none : forall (A : Type) (f : A -> bool) l, (forall x, In x l -> f x = false) -> filter f l = [].
Proof.
  induction l as [|a l IH]; simpl; intros H; auto.
  rewrite (H a (or_introl eq_refl)). apply IH. intros x Hx. apply H. now right.
Qed.
Lemma filter_all : forall (A : Type) (f : A -> bool) l, (forall x, In x l -> f x = true) -> filter f l = l.
Proof.
  induction l as [|a l IH]; simpl; intros H; auto.
  rewrite (H a (or_introl eq_refl)). f_equal. apply IH. intros x Hx. apply H. now right.
Qed.

(* ---- the operators with an empty right table (schema-less model) ---- *)
Lemma inner_rows_nil_r : forall lk rk L, inner_rows lk rk L [] = [].
Proof. intros lk rk L. unfold inner_rows. induction L as [|l L IH]; simpl; auto. Qed.

Lemma left_only_nil_r : forall lk rk L, left_only lk rk L [] = L.
Proof. intros lk rk L. unfold left_only. apply filter_all. intros x _. reflexivity. Qed.

Lemma right_only_nil_r : forall lk rk L, right_only lk rk L [] = [].
Proof. reflexivity. Qed.

Lemma pad_nil : forall r, pad [] r = r.
Proof. intros r. unfold pad. simpl. apply app_nil_r. Qed.

Lemma map_pad_nil : forall L, map (pad []) L = L.
Proof. induction L as [|r L IH]; simpl; auto. rewrite pad_nil. now f_equal. Qed.

Lemma rel_join_inner_empty_right_l : forall lk rk L, rel_join JInner lk rk L [] = [].
Proof. intros. simpl. unfold rel_inner. apply inner_rows_nil_r. Qed.

Lemma rel_join_right_empty_right_l : forall lk rk L, rel_join JRight lk rk L [] = [].
Proof. intros. simpl. unfold rel_right. rewrite inner_rows_nil_r, right_only_nil_r. reflexivity. Qed.

Lemma rel_join_left_empty_right_l : forall lk rk L, rel_join JLeft lk rk L [] = L.
Proof. intros. simpl. unfold rel_left. rewrite inner_rows_nil_r, left_only_nil_r. simpl. apply map_pad_nil. Qed.

Lemma rel_join_outer_empty_right_l : forall lk rk L, rel_join JOuter lk rk L [] = L.
Proof.
  intros. simpl. unfold rel_outer. rewrite inner_rows_nil_r, left_only_nil_r, right_only_nil_r. simpl.
  rewrite app_nil_r. apply map_pad_nil.
Qed.

Lemma rel_append_empty_right_l : forall L, rel_append L [] = L.
Proof. intros. unfold rel_append. apply app_nil_r. Qed.

Lemma rel_union_empty_right_l : forall L, rel_union L [] = distinct L.
Proof. intros. unfold rel_union. now rewrite app_nil_r. Qed.

(* union with the empty table is the identity exactly on duplicate-free tables *)
Lemma rel_union_empty_right_id_iff_l : forall L, rel_union L [] = L <-> NoDup (map canon L).
Proof.
  intros L. rewrite rel_union_empty_right_l. split.
  - intros H. rewrite <- H. unfold distinct. apply distinct_from_nodup.
  - intros H. unfold distinct. apply distinct_from_id; auto.
Qed.

Lemma left_outer_empty_right_schemaless_l : forall jt lk rk L,
  jt = JLeft \/ jt = JOuter \/ jt = JAppend -> rel_join jt lk rk L [] = L.
Proof.
  intros jt lk rk L [->|[->| ->]].
  - apply rel_join_left_empty_right_l.
  - apply rel_join_outer_empty_right_l.
  - apply rel_append_empty_right_l.
Qed.

(* ---- join_schema ---- *)
Lemma join_schema_in : forall lcols rcols c, In c (join_schema lcols rcols) <-> In c lcols \/ In c rcols.
Proof.
  intros lcols rcols c. unfold join_schema, new_cols. rewrite in_app_iff, filter_In. split.
  - intros [H|[H _]]; auto.
  - intros [H|H]; auto. destruct (mem c lcols) eqn:E.
    + left. now apply mem_in.
    + right. split; [exact H|reflexivity].
Qed.

(* ---- tables with schemas ---- *)
Lemma srel_join_cols_l : forall jt lk rk S T, st_cols (srel_join jt lk rk S T) = join_schema (st_cols S) (st_cols T).
Proof. reflexivity. Qed.

(* every row of every result binds every column of both input schemas *)
Lemma srel_join_binds_schema_l : forall jt lk rk S T r c,
  In r (st_rows (srel_join jt lk rk S T)) -> In c (st_cols S) \/ In c (st_cols T) -> has_col c r = true.
Proof.
  intros jt lk rk S T r c Hr Hc. unfold srel_join, st_rows in Hr. simpl in Hr.
  apply in_map_iff in Hr. destruct Hr as [r0 [<- _]]. apply pad_has_cols. now apply join_schema_in.
Qed.

(* the explicit padding does not change what the rows say: the rows are those of Spec/Rel.rel_join *)
Lemma map_pad_bag_eq : forall cs t, bag_eq (map (pad cs) t) t.
Proof.
  intros cs t. apply teq_bag_eq. induction t as [|r t IH]; simpl.
  - apply teq_nil.
  - apply teq_cons; auto. apply pad_equiv.
Qed.

Lemma srel_join_rows_l : forall jt lk rk S T,
  bag_eq (st_rows (srel_join jt lk rk S T)) (rel_join jt lk rk (st_rows S) (st_rows T)).
Proof. intros. unfold srel_join, st_rows. simpl. apply map_pad_bag_eq. Qed.

(* LEFT / OUTER / APPEND with an empty right table of schema rcols: the left rows, padded to the joint schema *)
Lemma srel_join_left_empty_right_l : forall jt lk rk lcols rcols L,
  jt = JLeft \/ jt = JOuter \/ jt = JAppend ->
  srel_join jt lk rk (lcols, L) (rcols, []) = (join_schema lcols rcols, map (pad (join_schema lcols rcols)) L).
Proof.
  intros. unfold srel_join, st_cols, st_rows. simpl fst. simpl snd.
  now rewrite left_outer_empty_right_schemaless_l.
Qed.

Lemma srel_join_inner_empty_right_l : forall jt lk rk lcols rcols L,
  jt = JInner \/ jt = JRight ->
  srel_join jt lk rk (lcols, L) (rcols, []) = (join_schema lcols rcols, []).
Proof.
  intros jt lk rk lcols rcols L [->| ->]; unfold srel_join, st_cols, st_rows; simpl fst; simpl snd.
  - now rewrite rel_join_inner_empty_right_l.
  - now rewrite rel_join_right_empty_right_l.
Qed.

Lemma srel_join_union_empty_right_l : forall lk rk lcols rcols L,
  srel_join JUnion lk rk (lcols, L) (rcols, []) = (join_schema lcols rcols, map (pad (join_schema lcols rcols)) (distinct L)).
Proof.
  intros. unfold srel_join, st_cols, st_rows. simpl fst. simpl snd.
  change (rel_join JUnion lk rk L []) with (rel_union L []). now rewrite rel_union_empty_right_l.
Qed.

(* padding a row that binds exactly lcols: the row followed by one null per new column *)
Lemma pad_uniform_row : forall lcols rcols r, row_cols r = lcols ->
  pad (join_schema lcols rcols) r = r ++ null_row (new_cols lcols rcols).
Proof.
  intros lcols rcols r H. unfold pad, null_row. f_equal. f_equal.
  unfold join_schema. rewrite filter_app.
  assert (HC : forall c, has_col c r = mem c lcols) by (intros c; unfold has_col; now rewrite H).
  rewrite filter_none.
  - simpl. apply filter_all. intros c Hc. rewrite HC. unfold new_cols in Hc. apply filter_In in Hc. apply Hc.
  - intros c Hc. rewrite HC. apply mem_in in Hc. now rewrite Hc.
Qed.

Lemma row_cols_null_row : forall cs, row_cols (null_row cs) = cs.
Proof. intros cs. unfold row_cols, null_row. rewrite map_map. simpl. apply map_id. Qed.

Lemma uniform_left_empty_right_l : forall jt lk rk lcols rcols L,
  jt = JLeft \/ jt = JOuter \/ jt = JAppend -> uniform (lcols, L) ->
  st_rows (srel_join jt lk rk (lcols, L) (rcols, [])) = map (fun r => r ++ null_row (new_cols lcols rcols)) L /\
  uniform (srel_join jt lk rk (lcols, L) (rcols, [])).
Proof.
  intros jt lk rk lcols rcols L Hjt HU. rewrite srel_join_left_empty_right_l; auto.
  assert (E : map (pad (join_schema lcols rcols)) L = map (fun r => r ++ null_row (new_cols lcols rcols)) L).
  { apply map_ext_in. intros r Hr. apply pad_uniform_row. now apply HU. }
  split.
  - exact E.
  - intros r Hr. unfold st_rows, st_cols in *. simpl in *. rewrite E in Hr.
    apply in_map_iff in Hr. destruct Hr as [r0 [<- Hr0]].
    unfold row_cols. rewrite map_app. fold (row_cols r0). fold (row_cols (null_row (new_cols lcols rcols))).
    rewrite row_cols_null_row. rewrite (HU r0 Hr0). reflexivity.
Qed.

(* the columns a LEFT / OUTER join with an empty right table ADDS are null in every row, the left values are kept *)
Lemma left_empty_right_values_l : forall jt lk rk lcols rcols L r,
  jt = JLeft \/ jt = JOuter \/ jt = JAppend -> uniform (lcols, L) ->
  In r (st_rows (srel_join jt lk rk (lcols, L) (rcols, []))) ->
  exists r0, In r0 L /\ (forall c, get c r = get c r0) /\
             (forall c, In c rcols -> mem c lcols = false -> lookup c r = Some VNull).
Proof.
  intros jt lk rk lcols rcols L r Hjt HU Hr.
  rewrite srel_join_left_empty_right_l in Hr; auto. unfold st_rows in Hr. simpl in Hr.
  apply in_map_iff in Hr. destruct Hr as [r0 [<- Hr0]]. exists r0. split; auto. split.
  - apply pad_equiv.
  - intros c Hc Hm. rewrite pad_uniform_row by (now apply HU).
    rewrite lookup_app.
    assert (HN : lookup c r0 = None).
    { apply lookup_none. unfold has_col. rewrite (HU r0 Hr0). exact Hm. }
    rewrite HN. unfold null_row. rewrite (lookup_map_fun (fun _ => VNull)).
    assert (HI : mem c (new_cols lcols rcols) = true).
    { apply mem_in. unfold new_cols. apply filter_In. split; auto. now rewrite Hm. }
    now rewrite HI.
Qed.

(* ---- the step's call ---- *)
Lemma merge_call_total_l : forall (E : engine) l target other,
  merge_data E l target other = E (ld_jt l) (ld_left l) (ld_right l) target other.
Proof. reflexivity. Qed.

Lemma smerge_call_total_l : forall (E : sengine) l target other,
  smerge_data E l target other = E (ld_jt l) (ld_left l) (ld_right l) target other.
Proof. reflexivity. Qed.

Lemma smerge_data_is_merge_data_l : forall l S T,
  st_cols (smerge_data srel_join l S T) = join_schema (st_cols S) (st_cols T) /\
  bag_eq (st_rows (smerge_data srel_join l S T)) (merge_data rel_join l (st_rows S) (st_rows T)).
Proof. intros. split; [reflexivity|]. unfold smerge_data, merge_data. apply srel_join_rows_l. Qed.

(* the early return is invisible whenever the other table has a row ... *)
Lemma skip_empty_same_nonempty_l : forall (E : sengine) l target other,
  st_rows other <> [] -> smerge_data_skip_empty E l target other = smerge_data E l target other.
Proof.
  intros E l target other H. unfold smerge_data_skip_empty.
  destruct (st_rows other); [contradiction|]. simpl. now rewrite andb_false_r.
Qed.

(* ... and, in the schema-less model, also for LEFT / OUTER / APPEND with an empty table: only UNION shows it there *)
Lemma skip_empty_schemaless_l : forall l L R,
  ld_jt l <> JUnion -> merge_data_skip_empty rel_join l L R = merge_data rel_join l L R.
Proof.
  intros l L R H. unfold merge_data_skip_empty.
  destruct (left_preserving (ld_jt l) && no_rows R) eqn:E; auto.
  apply andb_true_iff in E. destruct E as [E1 E2]. destruct R; [|discriminate].
  unfold merge_data. symmetry. apply left_outer_empty_right_schemaless_l.
  destruct (ld_jt l); try discriminate; auto. contradiction.
Qed.

Open Scope string_scope.
Lemma skip_empty_refuted_l :
  (* LEFT / OUTER: the right table's columns (incl. the differently named key) are missing *)
  st_cols (smerge_data srel_join we_left (we_lcols, we_L) (we_rcols, [])) = ["lid"; "lval"; "rid"; "rval"] /\
  st_cols (smerge_data_skip_empty srel_join we_left (we_lcols, we_L) (we_rcols, [])) = ["lid"; "lval"] /\
  forallb (fun r => has_col "rval" r && has_col "rid" r) (st_rows (smerge_data srel_join we_left (we_lcols, we_L) (we_rcols, []))) = true /\
  forallb (fun r => negb (has_col "rval" r) && negb (has_col "rid" r))
          (st_rows (smerge_data_skip_empty srel_join we_left (we_lcols, we_L) (we_rcols, []))) = true /\
  st_cols (smerge_data_skip_empty srel_join we_outer (we_lcols, we_L) (we_rcols, [])) = ["lid"; "lval"] /\
  (* UNION: the duplicate row of the left table is kept *)
  List.length (merge_data rel_join we_union we_L []) = 2%nat /\
  List.length (merge_data_skip_empty rel_join we_union we_L []) = 3%nat /\
  ~ bag_eq (merge_data_skip_empty rel_join we_union we_L []) (merge_data rel_join we_union we_L []).
Proof.
  repeat split; try (vm_compute; reflexivity).
  intros H. apply bag_eqb_spec in H. vm_compute in H. discriminate.
Qed.
