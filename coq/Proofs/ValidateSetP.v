From Coq Require Import List Bool String Arith.
Import ListNotations.
Require Import MV.Spec.Types MV.Model.Validate MV.Model.ValidateChain MV.Model.ValidateSet MV.Model.ValidateSetCheck.
Open Scope string_scope.
Open Scope list_scope.

(* ---- decidable equalities ---- *)
Lemma dtype_eqb_eq a b : dtype_eqb a b = true <-> a = b.
Proof. split; [destruct a, b; try discriminate; reflexivity | intros ->; destruct b; reflexivity]. Qed.
Lemma odtype_eqb_eq a b : odtype_eqb a b = true <-> a = b.
Proof.
  destruct a as [x|], b as [y|]; cbn; try (split; [discriminate | discriminate]); [|split; reflexivity].
  rewrite dtype_eqb_eq; split; [intros ->; reflexivity | intros H; injection H; trivial].
Qed.
Lemma strict_opt_eqb_eq a b : strict_opt_eqb a b = true <-> a = b.
Proof. split; [destruct a, b; try discriminate; reflexivity | intros ->; destruct b; reflexivity]. Qed.
Lemma entry_eqb_eq a b : entry_eqb a b = true <-> a = b.
Proof.
  destruct a as [g1 n1 t1 s1], b as [g2 n2 t2 s2]; unfold entry_eqb; cbn [e_group e_name e_type e_strict].
  rewrite !andb_true_iff, Nat.eqb_eq, String.eqb_eq, odtype_eqb_eq, strict_opt_eqb_eq. split.
  - intros [[[-> ->] ->] ->]; reflexivity.
  - intros H; injection H as -> -> -> ->; repeat split.
Qed.

(* ---- the collection is a set ---- *)
Lemma In_add_entry acc e x : In x (add_entry acc e) <-> In x acc \/ x = e.
Proof.
  unfold add_entry. destruct (existsb (entry_eqb e) acc) eqn:E.
  - apply existsb_exists in E as (y & Hy & Heq). apply entry_eqb_eq in Heq; subst y.
    split; [intros H; left; exact H | intros [H | ->]; assumption].
  - rewrite in_app_iff; cbn [In]. split.
    + intros [H | [<- | []]]; [left; exact H | right; reflexivity].
    + intros [H | ->]; [left; exact H | right; left; reflexivity].
Qed.

Lemma In_fold_add es : forall acc x, In x (fold_left add_entry es acc) <-> In x acc \/ In x es.
Proof.
  induction es as [|e t IH]; intros acc x; cbn [fold_left In].
  - split; [intros H; left; exact H | intros [H | []]; exact H].
  - rewrite IH, In_add_entry. split.
    + intros [[H | ->] | H]; auto.
    + intros [H | [<- | H]]; auto.
Qed.

Section WithIdx.
  Variable mkidx : nat -> list string -> entry -> entry.

  Lemma collect_from_In groups links filters us : forall acc coll,
    collect_from mkidx groups links filters us acc = Some coll ->
    forall x, In x coll <-> In x acc \/ exists u es, In u us /\ process_feature mkidx groups links filters u = Some es /\ In x es.
  Proof.
    induction us as [|u t IH]; intros acc coll H x; cbn [collect_from] in H.
    - injection H as <-. split; [intros Hx; left; exact Hx | intros [Hx | (u & es & [] & _)]; exact Hx].
    - destruct (process_feature mkidx groups links filters u) as [es|] eqn:Hp; [|discriminate].
      rewrite (IH _ _ H x), In_fold_add. split.
      + intros [[Hx | Hx] | (u' & es' & Hu & Hp' & Hx)]; auto.
        * right; exists u, es; repeat split; auto. left; reflexivity.
        * right; exists u', es'; repeat split; auto. right; exact Hu.
      + intros [Hx | (u' & es' & [<- | Hu] & Hp' & Hx)]; auto.
        * rewrite Hp in Hp'; injection Hp' as <-; auto.
        * right; exists u', es'; auto.
  Qed.

  Lemma collect_from_all_ok groups links filters us : forall acc coll,
    collect_from mkidx groups links filters us acc = Some coll ->
    forall u, In u us -> process_feature mkidx groups links filters u <> None.
  Proof.
    induction us as [|u t IH]; intros acc coll H u' Hu; [destruct Hu|]. cbn [collect_from] in H.
    destruct (process_feature mkidx groups links filters u) as [es|] eqn:Hp; [|discriminate].
    destruct Hu as [<- | Hu]; [rewrite Hp; discriminate | eapply IH; eauto].
  Qed.

  Lemma collect_from_none groups links filters us : forall acc,
    collect_from mkidx groups links filters us acc = None <->
    exists u, In u us /\ process_feature mkidx groups links filters u = None.
  Proof.
    induction us as [|u t IH]; intros acc; cbn [collect_from].
    - split; [discriminate | intros (u & [] & _)].
    - destruct (process_feature mkidx groups links filters u) as [es|] eqn:Hp.
      + rewrite IH. split; intros (u' & Hu & Hn); exists u'; split; auto.
        * right; exact Hu.
        * destruct Hu as [<- | Hu]; [rewrite Hp in Hn; discriminate | exact Hu].
      + split; [intros _; exists u; split; [left; reflexivity | exact Hp] | reflexivity].
  Qed.

  (* whether a feature is accepted does not depend on links, filters or the index constructor: only on the user's declaration *)
  Lemma process_feature_none groups links filters u :
    process_feature mkidx groups links filters u = None <-> declared_type groups u = None.
  Proof.
    unfold process_feature, declared_type. destruct (nth_error groups (u_group u)) as [g|]; [|split; reflexivity].
    destruct (set_data_type (u_decl u) (rule_of g (u_name u))); split; try discriminate; reflexivity.
  Qed.

  Lemma process_feature_some groups links filters u es :
    process_feature mkidx groups links filters u = Some es ->
    exists g t, nth_error groups (u_group u) = Some g /\ declared_type groups u = Some t /\
      es = user_entry u t :: add_filter_features (u_group u) g filters (user_entry u t)
                          ++ add_index_features mkidx (u_group u) g links (user_entry u t).
  Proof.
    unfold process_feature, declared_type. destruct (nth_error groups (u_group u)) as [g|]; [|discriminate].
    destruct (set_data_type (u_decl u) (rule_of g (u_name u))) as [t|]; [|discriminate].
    intros H; injection H as <-. exists g, t; repeat split.
  Qed.

  Hypothesis mkidx_untyped : forall gi idx owner, e_type (mkidx gi idx owner) = None.

  Lemma index_features_untyped gi g links owner e :
    In e (add_index_features mkidx gi g links owner) -> e_type e = None.
  Proof.
    unfold add_index_features. destruct links as [ks|]; [|intros []].
    intros H. apply in_flat_map in H as (idx & _ & H). unfold process_index in H.
    apply in_flat_map in H as (k & _ & H). apply in_app_iff in H as [H | H].
    - destruct (Nat.eqb (k_lg k) gi && index_eqb (k_lidx k) idx); [|destruct H].
      destruct H as [<- | []]; apply mkidx_untyped.
    - destruct (Nat.eqb (k_rg k) gi && index_eqb (k_ridx k) idx); [|destruct H].
      destruct H as [<- | []]; apply mkidx_untyped.
  Qed.

  (* every TYPED feature of the collection is a feature the user wrote, carrying the declaration that results for it, or the
     feature of a filter on which the user declared that type - never an index feature, however many links there are *)
  Lemma collect_typed_sound groups links filters us coll e d :
    collect_with mkidx groups links filters us = Some coll -> In e coll -> e_type e = Some d ->
    (exists u, In u us /\ declared_type groups u = Some (Some d) /\ e = user_entry u (Some d)) \/
    (exists f u g, In f filters /\ In u us /\ nth_error groups (u_group u) = Some g /\ filter_matches g f = true /\
                   f_decl f = Some d /\ e_group e = u_group u /\ e_name e = f_name f).
  Proof.
    intros H Hin Ht. unfold collect_with in H. apply (collect_from_In _ _ _ _ _ _ H) in Hin as [[] | (u & es & Hu & Hp & Hx)].
    apply process_feature_some in Hp as (g & t & Hg & Hd & ->). destruct Hx as [<- | Hx].
    - left. cbn [user_entry e_type] in Ht; subst t. exists u; auto.
    - apply in_app_iff in Hx as [Hx | Hx].
      + right. unfold add_filter_features in Hx. apply in_map_iff in Hx as (f & <- & Hf).
        apply filter_In in Hf as [Hf Hm]. exists f, u, g. cbn [filter_feature e_type e_group e_name] in *. auto 10.
      + apply index_features_untyped in Hx. congruence.
  Qed.

  (* ... and every feature the user wrote is there with its declaration *)
  Lemma collect_user_complete groups links filters us coll u :
    collect_with mkidx groups links filters us = Some coll -> In u us ->
    exists t, declared_type groups u = Some t /\ In (user_entry u t) coll.
  Proof.
    intros H Hu. unfold collect_with in H.
    destruct (process_feature mkidx groups links filters u) as [es|] eqn:Hp.
    - destruct (process_feature_some _ _ _ _ _ Hp) as (g & t & Hg & Hd & Hes). exists t; split; [exact Hd|].
      apply (collect_from_In _ _ _ _ _ _ H). right. exists u, es; repeat split; auto. rewrite Hes; left; reflexivity.
    - exfalso. exact (collect_from_all_ok _ _ _ _ _ _ H u Hu Hp).
  Qed.

  Lemma collect_typed_exact groups links filters us coll :
    undeclared_filters filters ->
    collect_with mkidx groups links filters us = Some coll ->
    forall e d, (In e coll /\ e_type e = Some d) <->
                exists u, In u us /\ declared_type groups u = Some (Some d) /\ e = user_entry u (Some d).
  Proof.
    intros Hf H e d. split.
    - intros [Hin Ht]. destruct (collect_typed_sound _ _ _ _ _ _ _ H Hin Ht) as [Hu | (f & u & g & Hfi & _ & _ & _ & Hd & _)]; [exact Hu|].
      rewrite (Hf f Hfi) in Hd; discriminate.
    - intros (u & Hu & Hd & ->). split; [|reflexivity].
      destruct (collect_user_complete _ _ _ _ _ _ H Hu) as (t & Hd' & Hin). rewrite Hd in Hd'; injection Hd' as <-. exact Hin.
  Qed.

  Lemma collect_with_none groups links filters us :
    collect_with mkidx groups links filters us = None <-> exists u, In u us /\ declared_type groups u = None.
  Proof.
    unfold collect_with. rewrite collect_from_none. split; intros (u & Hu & Hn); exists u; split; auto;
      apply (process_feature_none groups links filters u); exact Hn.
  Qed.

  Lemma validate_raises_entry strict lenient cols e :
    validate_raises strict lenient (entry_vcase cols e) = true <->
    exists d a, e_type e = Some d /\ assoc_s (e_name e) (nth (e_group e) cols []) = Some (Some a) /\
                (if strict_mode (e_strict e) then strict d a else lenient d a) = false.
  Proof.
    unfold validate_raises, entry_vcase; cbn [v_declared v_present v_actual v_strict].
    destruct (e_type e) as [d|]; [|split; [discriminate | intros (d & a & H & _); discriminate]].
    destruct (assoc_s (e_name e) (nth (e_group e) cols [])) as [[a|]|]; cbn [negb].
    - split.
      + intros H. exists d, a; repeat split. destruct (strict_mode (e_strict e)); apply negb_true_iff in H; exact H.
      + intros (d' & a' & Hd & Ha & Hc). injection Hd as <-; injection Ha as <-.
        destruct (strict_mode (e_strict e)); rewrite Hc; reflexivity.
    - split; [discriminate | intros (d' & a' & _ & Ha & _); discriminate].
    - split; [discriminate | intros (d' & a' & _ & Ha & _); discriminate].
  Qed.

  (* the run: rejected at prepare time iff some user declaration conflicts with its group's rule; otherwise it fails with a
     mismatch exactly when a feature THE USER DECLARED A TYPE FOR produced an incompatible column - for every number of links,
     indexes and (undeclared) filters *)
  Lemma run_set_decision strict lenient groups links filters us cols :
    undeclared_filters filters ->
    (run_set_with mkidx strict lenient groups links filters us cols = SReject <-> exists u, In u us /\ declared_type groups u = None) /\
    (run_set_with mkidx strict lenient groups links filters us cols = SMismatch <->
       (forall u, In u us -> declared_type groups u <> None) /\ exists u, In u us /\ user_incompatible strict lenient groups cols u).
  Proof.
    intros Hf. unfold run_set_with.
    destruct (collect_with mkidx groups links filters us) as [coll|] eqn:Hc.
    - assert (Hall : forall u, In u us -> declared_type groups u <> None).
      { intros u Hu. destruct (collect_user_complete _ _ _ _ _ _ Hc Hu) as (t & Hd & _); congruence. }
      split.
      + split; [destruct (run_mismatch strict lenient cols coll); discriminate|].
        intros (u & Hu & Hn). exfalso; exact (Hall u Hu Hn).
      + unfold run_mismatch. destruct (existsb _ coll) eqn:E.
        * split; [|reflexivity]. intros _. split; [exact Hall|].
          apply existsb_exists in E as (e & Hin & Hv). apply validate_raises_entry in Hv as (d & a & Ht & Ha & Hcmp).
          destruct (proj1 (collect_typed_exact _ _ _ _ _ Hf Hc e d) (conj Hin Ht)) as (u & Hu & Hd & ->).
          exists u; split; [exact Hu|]. exists d, a; auto.
        * split; [discriminate|]. intros (_ & u & Hu & d & a & Hd & Ha & Hcmp). exfalso.
          assert (Hin : In (user_entry u (Some d)) coll).
          { apply (collect_typed_exact _ _ _ _ _ Hf Hc (user_entry u (Some d)) d). exists u; auto. }
          assert (Hv : validate_raises strict lenient (entry_vcase cols (user_entry u (Some d))) = true).
          { apply validate_raises_entry. exists d, a; auto. }
          assert (Ht : existsb (fun e => validate_raises strict lenient (entry_vcase cols e)) coll = true).
          { apply existsb_exists. exists (user_entry u (Some d)); auto. }
          congruence.
    - apply collect_with_none in Hc. split; [split; auto|].
      split; [discriminate|]. intros (Hall & _). destruct Hc as (u & Hu & Hn). exfalso; exact (Hall u Hu Hn).
  Qed.
End WithIdx.

Lemma create_index_feature_untyped gi idx owner : e_type (create_index_feature gi idx owner) = None.
Proof. reflexivity. Qed.

Lemma set_outcome_cases (o1 o2 : set_outcome) :
  (o1 = SReject <-> o2 = SReject) -> (o1 = SMismatch <-> o2 = SMismatch) -> o1 = o2.
Proof. destruct o1, o2; intros [A B] [C D]; try reflexivity; try (discriminate (A eq_refl)); try (discriminate (B eq_refl));
  try (discriminate (C eq_refl)); try (discriminate (D eq_refl)). Qed.

(* links, indexes and undeclared filters never change the verdict of a run *)
Lemma run_set_added_irrelevant strict lenient groups links filters us cols :
  undeclared_filters filters ->
  run_set strict lenient groups links filters us cols = run_set strict lenient groups None [] us cols.
Proof.
  intros Hf. unfold run_set.
  destruct (run_set_decision _ create_index_feature_untyped strict lenient groups links filters us cols Hf) as [R1 M1].
  assert (Hn : undeclared_filters []) by (intros f []).
  destruct (run_set_decision _ create_index_feature_untyped strict lenient groups None [] us cols Hn) as [R2 M2].
  apply set_outcome_cases; [rewrite R1, R2 | rewrite M1, M2]; reflexivity.
Qed.

(* ---- the statement is not vacuous: an index feature that takes over its owner's declaration breaks it ---- *)
Definition wit_groups : list group :=
  [ {| g_cols := ["uid"; "age"]; g_index := [["uid"]]; g_rule := [] |};
    {| g_cols := ["uid"; "amount"]; g_index := [["uid"]]; g_rule := [] |} ].
Definition wit_links := Some [ {| k_lg := 0; k_lidx := ["uid"]; k_rg := 1; k_ridx := ["uid"] |} ].
Definition wit_us : list ufeat :=
  [ {| u_group := 0; u_name := "age"; u_decl := Some INT32; u_strict := SAbsent |};
    {| u_group := 1; u_name := "amount"; u_decl := Some DOUBLE; u_strict := SAbsent |} ].
Definition wit_cols : columns :=
  [ [("uid", Some STRING); ("age", Some INT32)]; [("uid", Some STRING); ("amount", Some DOUBLE)] ].

Lemma index_inherit_refuted_l :
  run_set_with index_inherit strict_spec lenient_spec wit_groups wit_links [] wit_us wit_cols = SMismatch
  /\ run_set strict_spec lenient_spec wit_groups wit_links [] wit_us wit_cols = SOk
  /\ run_set strict_spec lenient_spec wit_groups None [] wit_us wit_cols = SOk.
Proof. vm_compute; repeat split. Qed.

(* per-call flag on a depth-2 request: every user feature of the flattened request carries strict = True *)
Lemma flatten_deps_strict ds : (forall d, In d ds -> d_own d <> SFalse) ->
  exists us, flatten_deps STrue ds = Some us /\ forall u, In u us -> u_strict u = STrue.
Proof.
  induction ds as [|d t IH]; intros H; cbn [flatten_deps].
  - exists []; split; [reflexivity | intros u []].
  - destruct IH as (us & -> & Hs); [intros x Hx; apply H; right; exact Hx|].
    assert (Hm : merge_strict STrue (d_own d) = Some STrue).
    { specialize (H d (or_introl eq_refl)). destruct (d_own d); try reflexivity. congruence. }
    rewrite Hm. eexists; split; [reflexivity|]. intros u [<- | Hu]; [reflexivity | apply Hs; exact Hu].
Qed.

Lemma flatten_api_all_strict rs :
  (forall r, In r rs -> r_own r <> SFalse /\ forall d, In d (r_deps r) -> d_own d <> SFalse) ->
  exists us, flatten true rs = Some us /\ forall u, In u us -> u_strict u = STrue.
Proof.
  induction rs as [|r t IH]; intros H; cbn [flatten].
  - exists []; split; [reflexivity | intros u []].
  - destruct IH as (rest & Hr & Hs); [intros x Hx; apply H; right; exact Hx|].
    destruct (H r (or_introl eq_refl)) as [Ho Hd].
    assert (Hc : (true && match r_own r with SFalse => true | _ => false end) = false) by (destruct (r_own r); try reflexivity; congruence).
    rewrite Hc. cbn [propagate_strict].
    destruct (flatten_deps_strict (r_deps r) Hd) as (ds & -> & Hds). rewrite Hr.
    eexists; split; [reflexivity|]. intros u [<- | Hu]; [reflexivity|].
    apply in_app_iff in Hu as [Hu | Hu]; [apply Hds | apply Hs]; exact Hu.
Qed.

(* ---- the verdict of the engine model = the statement (spec_request), for ALL requests, links, indexes and filters ---- *)
Lemma untyped_never_raises strict lenient cols e : typed e = false -> validate_raises strict lenient (entry_vcase cols e) = false.
Proof. unfold typed, validate_raises, entry_vcase; cbn [v_declared]. destruct (e_type e); [discriminate | reflexivity]. Qed.

Lemma run_mismatch_typed_ext strict lenient cols l1 l2 :
  (forall e, typed e = true -> (In e l1 <-> In e l2)) -> run_mismatch strict lenient cols l1 = run_mismatch strict lenient cols l2.
Proof.
  intros H. unfold run_mismatch.
  assert (D : forall a b, (forall e, typed e = true -> (In e a <-> In e b)) ->
              existsb (fun e => validate_raises strict lenient (entry_vcase cols e)) a = true ->
              existsb (fun e => validate_raises strict lenient (entry_vcase cols e)) b = true).
  { intros a b Hab Ha. apply existsb_exists in Ha as (e & Hin & Hv). apply existsb_exists. exists e; split; [|exact Hv].
    apply Hab; [|exact Hin]. destruct (typed e) eqn:T; [reflexivity|]. rewrite (untyped_never_raises _ _ _ _ T) in Hv; discriminate. }
  destruct (existsb _ l1) eqn:E1, (existsb _ l2) eqn:E2; try reflexivity.
  - rewrite (D l1 l2 H E1) in E2; discriminate.
  - assert (H' : forall e, typed e = true -> (In e l2 <-> In e l1)) by (intros e T; symmetry; apply H; exact T).
    rewrite (D l2 l1 H' E2) in E1; discriminate.
Qed.

Lemma typed_collection_is_declared groups links filters us coll :
  collect groups links filters us = Some coll ->
  forall e, typed e = true -> (In e coll <-> In e (declared_entries groups filters us)).
Proof.
  intros H e T. unfold collect, collect_with in H. split.
  - intros Hin. apply (collect_from_In _ _ _ _ _ _ _ H) in Hin as [[] | (u & es & Hu & Hp & Hx)].
    apply process_feature_some in Hp as (g & t & Hg & Hd & ->).
    unfold declared_entries. apply in_flat_map. exists u; split; [exact Hu|]. rewrite Hg, Hd.
    apply filter_In; split; [|exact T].
    destruct Hx as [<- | Hx]; [left; reflexivity|]. apply in_app_iff in Hx as [Hx | Hx]; [right; exact Hx|].
    apply (index_features_untyped _ create_index_feature_untyped) in Hx. unfold typed in T; rewrite Hx in T; discriminate.
  - intros Hin. unfold declared_entries in Hin. apply in_flat_map in Hin as (u & Hu & Hin).
    destruct (nth_error groups (u_group u)) as [g|] eqn:Hg; [|destruct Hin].
    destruct (declared_type groups u) as [t|] eqn:Hd; [|destruct Hin].
    apply filter_In in Hin as [Hin _].
    destruct (process_feature create_index_feature groups links filters u) as [es|] eqn:Hp.
    + destruct (process_feature_some _ _ _ _ _ _ Hp) as (g' & t' & Hg' & Hd' & Hes).
      rewrite Hg in Hg'; injection Hg' as <-. rewrite Hd in Hd'; injection Hd' as <-.
      apply (collect_from_In _ _ _ _ _ _ _ H). right. exists u, es; repeat split; auto. rewrite Hes.
      destruct Hin as [<- | Hin]; [left; reflexivity | right; apply in_app_iff; left; exact Hin].
    + exfalso. exact (collect_from_all_ok _ _ _ _ _ _ _ H u Hu Hp).
Qed.

Lemma existsb_undeclarable groups us :
  existsb (undeclarable groups) us = true <-> exists u, In u us /\ declared_type groups u = None.
Proof.
  rewrite existsb_exists. unfold undeclarable. split; intros (u & Hu & H); exists u; split; auto.
  - destruct (declared_type groups u); [discriminate | reflexivity].
  - rewrite H; reflexivity.
Qed.

Lemma run_request_is_spec strict lenient groups links filters api rs cols :
  fst (run_request strict lenient groups links filters api rs cols) = spec_request strict lenient groups filters api rs cols.
Proof.
  unfold run_request, spec_request. destruct (api_conflict api rs); [reflexivity|].
  destruct (prepare_error groups api rs) as [o|]; [reflexivity|].
  destruct (flatten api rs) as [us|]; [|reflexivity].
  destruct (collect groups links filters us) as [coll|] eqn:Hc.
  - assert (E : existsb (undeclarable groups) us = false).
    { destruct (existsb (undeclarable groups) us) eqn:E; [|reflexivity].
      apply existsb_undeclarable in E. apply (collect_with_none create_index_feature groups links filters us) in E.
      unfold collect in Hc; rewrite Hc in E; discriminate. }
    rewrite E. rewrite (run_mismatch_typed_ext strict lenient cols coll (declared_entries groups filters us)
                          (typed_collection_is_declared _ _ _ _ _ Hc)).
    destruct (run_mismatch strict lenient cols (declared_entries groups filters us)); reflexivity.
  - unfold collect in Hc. apply collect_with_none in Hc. apply existsb_undeclarable in Hc. rewrite Hc. reflexivity.
Qed.

(* with filters given by column name the declarations are those on the user's features alone *)
Lemma declared_entries_undeclared_filters groups filters us e :
  undeclared_filters filters ->
  (In e (declared_entries groups filters us) <->
   exists u d, In u us /\ declared_type groups u = Some (Some d) /\ e = user_entry u (Some d)).
Proof.
  intros Hf. unfold declared_entries. rewrite in_flat_map. split.
  - intros (u & Hu & Hin). destruct (nth_error groups (u_group u)) as [g|] eqn:Hg; [|destruct Hin].
    destruct (declared_type groups u) as [t|] eqn:Hd; [|destruct Hin].
    apply filter_In in Hin as [Hin T]. destruct Hin as [<- | Hin].
    + unfold typed in T; cbn [user_entry e_type] in T. destruct t as [d|]; [|discriminate]. exists u, d; auto.
    + unfold add_filter_features in Hin. apply in_map_iff in Hin as (f & <- & Hfi). apply filter_In in Hfi as [Hfi _].
      unfold typed in T; cbn [filter_feature e_type] in T. rewrite (Hf f Hfi) in T; discriminate.
  - intros (u & d & Hu & Hd & ->). exists u; split; [exact Hu|].
    assert (Hg : exists g, nth_error groups (u_group u) = Some g).
    { unfold declared_type in Hd. destruct (nth_error groups (u_group u)) as [g|]; [exists g; reflexivity | discriminate]. }
    destruct Hg as (g & Hg). rewrite Hg, Hd. apply filter_In; split; [left; reflexivity | reflexivity].
Qed.

(* a request without prepare-time error flattens to user features that all have a resulting declaration (the remaining branches of
   run_request / spec_request are never taken) *)
Lemma prepare_ok_flatten groups api rs :
  api_conflict api rs = false -> prepare_error groups api rs = None ->
  exists us, flatten api rs = Some us /\ existsb (undeclarable groups) us = false.
Proof.
  induction rs as [|r t IH]; intros Ha Hp.
  - exists []; split; reflexivity.
  - unfold api_conflict in Ha. cbn [existsb] in Ha.
    assert (Ha1 : (api && match r_own r with SFalse => true | _ => false end) = false).
    { destruct api; [|reflexivity]. cbn in Ha |- *. apply orb_false_iff in Ha as [H _]; exact H. }
    assert (Ha2 : api_conflict api t = false).
    { unfold api_conflict. destruct api; [|reflexivity]. cbn in Ha |- *. apply orb_false_iff in Ha as [_ H]; exact H. }
    cbn [prepare_error] in Hp. cbn [flatten]. rewrite Ha1.
    set (e0 := propagate_strict api (r_decl r) (r_own r)) in *.
    destruct (undeclarable groups {| u_group := r_group r; u_name := r_name r; u_decl := r_decl r; u_strict := e0 |}) eqn:Hu; [discriminate|].
    destruct (flatten_deps e0 (r_deps r)) as [ds|]; [|discriminate].
    destruct (existsb (undeclarable groups) ds) eqn:Hd; [discriminate|].
    destruct (IH Ha2 Hp) as (rest & -> & Hr).
    eexists; split; [reflexivity|]. cbn [existsb]. rewrite Hu, existsb_app, Hd, Hr. reflexivity.
Qed.

Definition wit_rs_one_type : list rfeat :=
  [ {| r_group := 2; r_name := "score"; r_decl := Some DOUBLE; r_own := SAbsent;
       r_deps := [ {| d_group := 0; d_name := "a"; d_decl := Some INT64; d_own := SAbsent |};
                   {| d_group := 0; d_name := "b"; d_decl := None; d_own := SAbsent |};
                   {| d_group := 1; d_name := "c"; d_decl := Some DOUBLE; d_own := SAbsent |} ] |} ].
