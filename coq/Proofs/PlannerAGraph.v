(* The graph part of the planner model (Model/PlannerA.v): adjacency, direct parents, ancestor closure, DFS queue.

     pbd_correct       parents_by_direct_[c] is exactly the set of direct inputs of c
     closure_correct   parent_to_children_mapping[c] is exactly the set of proper ancestors of c (fuel never exhausted)
     queue_complete    the DFS queue contains exactly the nodes of the graph *)
From Coq Require Import List Bool Arith Lia Permutation.
Import ListNotations.
Require Import MV.Model.Orch MV.Model.OrchCheck MV.Model.PlannerA MV.Spec.PlannerASpec.
Require Import MV.Proofs.OrchP MV.Proofs.OrchTermP MV.Proofs.PlannerASets.

Lemma filter_nil_iff : forall (A : Type) (f : A -> bool) l, filter f l = [] <-> forall x, In x l -> f x = false.
Proof.
  intros A f l. induction l as [|a l IH]; cbn.
  - split; [intros _ x [] | reflexivity].
  - destruct (f a) eqn:E.
    + split; [discriminate | intros H; specialize (H a (or_introl eq_refl)); congruence].
    + rewrite IH. split; [intros H x [Hx|Hx]; [subst x; exact E | exact (H x Hx)] | intros H x Hx; apply H; right; exact Hx].
Qed.

(* ---------- nodes ---------- *)
Lemma node_of_In : forall g u n, node_of g u = Some n -> In n g /\ fid n = u.
Proof.
  intros g u n H. unfold node_of in H. apply find_some in H. destruct H as [Hin E].
  apply Nat.eqb_eq in E. split; assumption.
Qed.

Lemma node_of_complete : forall g, NoDup (ids g) -> forall n, In n g -> node_of g (fid n) = Some n.
Proof.
  intros g. induction g as [|a g IH]; intros Hnd n Hn; [destruct Hn|].
  cbn in Hnd. apply NoDup_cons_iff in Hnd. destruct Hnd as [Ha Hg]. unfold node_of. cbn.
  destruct Hn as [Hn|Hn].
  - subst a. rewrite Nat.eqb_refl. reflexivity.
  - destruct (Nat.eqb (fid a) (fid n)) eqn:E.
    + exfalso. apply Nat.eqb_eq in E. apply Ha. rewrite E. apply in_map. exact Hn.
    + apply IH; assumption.
Qed.

Lemma node_of_ids : forall g u, In u (ids g) -> exists n, node_of g u = Some n.
Proof.
  intros g u H. unfold ids in H. apply in_map_iff in H. destruct H as [n [E Hn]].
  destruct (node_of g u) as [m|] eqn:Em; [exists m; reflexivity|]. exfalso.
  unfold node_of in Em. apply (find_none _ _ Em) in Hn. rewrite E, Nat.eqb_refl in Hn. discriminate.
Qed.

Lemma grp_of_node : forall g n, NoDup (ids g) -> In n g -> grp_of g (fid n) = fgrp n.
Proof. intros g n Hnd Hn. unfold grp_of. rewrite (node_of_complete g Hnd n Hn). reflexivity. Qed.
Lemma cfw_of_node : forall g n, NoDup (ids g) -> In n g -> cfw_of g (fid n) = fcfw n.
Proof. intros g n Hnd Hn. unfold cfw_of. rewrite (node_of_complete g Hnd n Hn). reflexivity. Qed.
Lemma ins_of_node : forall g n, NoDup (ids g) -> In n g -> ins_of g (fid n) = fins n.
Proof. intros g n Hnd Hn. unfold ins_of. rewrite (node_of_complete g Hnd n Hn). reflexivity. Qed.

Lemma parent_child_id : forall g p c, parent g p c -> In c (ids g).
Proof. intros g p c [n [Hn [E _]]]. subst c. apply in_map. exact Hn. Qed.

Lemma ins_of_parent : forall g, NoDup (ids g) -> forall p c, In p (ins_of g c) <-> parent g p c.
Proof.
  intros g Hnd p c. split.
  - intros H. unfold ins_of in H. destruct (node_of g c) as [n|] eqn:E; [|destruct H].
    apply node_of_In in E. destruct E as [Hn E]. exists n. repeat split; assumption.
  - intros [n [Hn [E Hp]]]. subst c. rewrite (ins_of_node g n Hnd Hn). exact Hp.
Qed.

(* ---------- adjacency ---------- *)
Lemma edges_parent : forall g p c, In (p, c) (edges g) <-> parent g p c.
Proof.
  intros g p c. unfold edges, parent. rewrite in_flat_map. split.
  - intros [n [Hn H]]. apply in_map_iff in H. destruct H as [q [E Hq]]. injection E as E1 E2. subst q c.
    exists n. repeat split; assumption.
  - intros [n [Hn [E Hp]]]. exists n. split; [exact Hn|]. apply in_map_iff. exists p. subst c. split; [reflexivity | exact Hp].
Qed.

Lemma children_parent : forall g p c, In c (children g p) <-> parent g p c.
Proof.
  intros g p c. unfold children. rewrite in_map_iff. split.
  - intros [[p' c'] [E H]]. cbn in E. subst c'. apply filter_In in H. destruct H as [Hin Hp]. cbn in Hp.
    apply Nat.eqb_eq in Hp. subst p'. apply edges_parent. exact Hin.
  - intros H. exists (p, c). split; [reflexivity|]. apply filter_In. split; [apply edges_parent; exact H|].
    cbn. apply Nat.eqb_refl.
Qed.

Lemma adj_keys_spec : forall g p, In p (adj_keys g) <-> exists c, parent g p c.
Proof.
  intros g p. unfold adj_keys. rewrite In_dedupe, in_map_iff. split.
  - intros [[p' c] [E H]]. cbn in E. subst p'. exists c. apply edges_parent. exact H.
  - intros [c H]. exists (p, c). split; [reflexivity | apply edges_parent; exact H].
Qed.

Lemma indeg_zero : forall g u, indeg g u = 0 <-> forall p, ~ parent g p u.
Proof.
  intros g u. unfold indeg. rewrite length_zero_iff_nil, filter_nil_iff. split.
  - intros H p Hp. apply edges_parent in Hp. specialize (H (p, u) Hp). cbn in H. rewrite Nat.eqb_refl in H. discriminate.
  - intros H [p c] Hin. cbn. destruct (Nat.eqb c u) eqn:E; [|reflexivity]. exfalso. apply Nat.eqb_eq in E. subst c.
    apply (H p). apply edges_parent. exact Hin.
Qed.

Lemma node_order_spec : forall g u, In u (node_order g) <-> In u (ids g) \/ exists c, parent g u c.
Proof.
  intros g u. unfold node_order. rewrite In_dedupe, in_flat_map. split.
  - intros [n [Hn [H|H]]].
    + left. subst u. apply in_map. exact Hn.
    + right. exists (fid n). exists n. repeat split; assumption.
  - intros [H|[c [n [Hn [E Hp]]]]].
    + unfold ids in H. apply in_map_iff in H. destruct H as [n [E Hn]]. exists n. split; [exact Hn | left; exact E].
    + exists n. split; [exact Hn | right; exact Hp].
Qed.

(* ---------- ancestors ---------- *)
Lemma anc_trans_l : forall g x y c, parent g x y -> anc g y c -> anc g x c.
Proof.
  intros g x y c Hxy H. induction H as [p c Hpc|a m c Ham IH Hmc].
  - apply (anc_step g x p c); [apply anc_direct; exact Hxy | exact Hpc].
  - apply (anc_step g x m c); [apply IH; exact Hxy | exact Hmc].
Qed.

Lemma anc_trans : forall g a b c, anc g a b -> anc g b c -> anc g a c.
Proof.
  intros g a b c Hab Hbc. induction Hbc as [p c Hpc|b' m c Hbm IH Hmc].
  - apply (anc_step g a p c); assumption.
  - apply (anc_step g a m c); [apply IH; exact Hab | exact Hmc].
Qed.

Lemma anc_rank : forall g (rk : nat -> nat), (forall p c, parent g p c -> rk p < rk c) -> forall a c, anc g a c -> rk a < rk c.
Proof.
  intros g rk Hrk a c H. induction H as [p c Hpc|a m c Ham IH Hmc].
  - apply Hrk. exact Hpc.
  - specialize (Hrk m c Hmc). lia.
Qed.

Lemma anc_ids : forall g, (forall p c, parent g p c -> In p (ids g)) -> forall a c, anc g a c -> In a (ids g) /\ In c (ids g).
Proof.
  intros g Hcl a c H. induction H as [p c Hpc|a m c Ham IH Hmc].
  - split; [apply (Hcl p c Hpc) | apply (parent_child_id g p c Hpc)].
  - split; [apply IH | apply (parent_child_id g m c Hmc)].
Qed.

Lemma anc_irrefl : forall g, acyclic g -> forall a, ~ anc g a a.
Proof. intros g [rk Hrk] a H. pose proof (anc_rank g rk Hrk a a H) as Hlt. lia. Qed.

(* a rank bounded by the number of nodes *)
Lemma bounded_rank : forall g, graph_ok g ->
  exists rk : nat -> nat, (forall p c, parent g p c -> rk p < rk c) /\ (forall u, In u (ids g) -> rk u < List.length g).
Proof.
  intros g (Hnd & Hcl & _ & [rk Hrk]).
  exists (fun u => List.length (filter (fun v => Nat.ltb (rk v) (rk u)) (ids g))). split.
  - intros p c Hpc. apply filter_len_strict.
    + intros v _ Hv. apply Nat.ltb_lt in Hv. apply Nat.ltb_lt. specialize (Hrk p c Hpc). lia.
    + exists p. split; [apply (Hcl p c Hpc)|]. split; [apply Nat.ltb_irrefl | apply Nat.ltb_lt; apply Hrk; exact Hpc].
  - intros u Hu. replace (List.length g) with (List.length (filter (fun _ : nat => true) (ids g))).
    + apply filter_len_strict; [intros; reflexivity|]. exists u. split; [exact Hu|]. split; [apply Nat.ltb_irrefl | reflexivity].
    + assert (E : forall l : list nat, filter (fun _ => true) l = l).
      { intros l. induction l as [|x l IH]; cbn; [reflexivity | rewrite IH; reflexivity]. }
      rewrite E. unfold ids. apply map_length.
Qed.

(* ---------- parents_by_direct_ ---------- *)
Lemma gdp_nil : forall fuel g par acc, gdp fuel g par [] acc = acc.
Proof. intros fuel g par acc. destruct fuel; reflexivity. Qed.

Lemma gdp_cons : forall fuel g par c chs acc,
  gdp fuel g par (c :: chs) acc =
  gdp fuel g par chs (match fuel with 0 => aadd c par acc | S f => gdp f g c (children g c) (aadd c par acc) end).
Proof. intros fuel g par c chs acc. destruct fuel; reflexivity. Qed.

Definition gdp_rel (g : fgraph) (acc acc' : amap) : Prop :=
  (forall c p, In p (aget0 c acc') -> In p (aget0 c acc) \/ parent g p c) /\
  (forall c p, In p (aget0 c acc) -> In p (aget0 c acc')).

Lemma gdp_rel_refl : forall g acc, gdp_rel g acc acc.
Proof. intros g acc. split; [intros c p H; left; exact H | intros c p H; exact H]. Qed.

Lemma gdp_rel_trans : forall g a b c, gdp_rel g a b -> gdp_rel g b c -> gdp_rel g a c.
Proof.
  intros g a b c [S1 M1] [S2 M2]. split.
  - intros k p H. destruct (S2 k p H) as [H'|H']; [exact (S1 k p H') | right; exact H'].
  - intros k p H. apply M2, M1. exact H.
Qed.

Lemma gdp_rel_aadd : forall g acc c par, parent g par c -> gdp_rel g acc (aadd c par acc).
Proof.
  intros g acc c par Hp. split.
  - intros k p H. apply aget0_aadd in H. destruct H as [H|[Hk Hq]]; [left; exact H | right; subst k p; exact Hp].
  - intros k p H. apply aget0_aadd. left. exact H.
Qed.

Lemma gdp_spec : forall g fuel par chs acc, (forall c, In c chs -> parent g par c) ->
  gdp_rel g acc (gdp fuel g par chs acc) /\ (forall c, In c chs -> In par (aget0 c (gdp fuel g par chs acc))).
Proof.
  intros g fuel. induction fuel as [|f IHf]; intros par chs; induction chs as [|c chs IHc]; intros acc Hch.
  - rewrite gdp_nil. split; [apply gdp_rel_refl | intros c []].
  - rewrite gdp_cons.
    assert (Hc : parent g par c) by (apply Hch; left; reflexivity).
    destruct (IHc (aadd c par acc) (fun x Hx => Hch x (or_intror Hx))) as [R C].
    split; [exact (gdp_rel_trans g _ _ _ (gdp_rel_aadd g acc c par Hc) R)|].
    intros x [Hx|Hx]; [subst x; apply R; apply aget0_aadd; right; split; reflexivity | apply C; exact Hx].
  - rewrite gdp_nil. split; [apply gdp_rel_refl | intros c []].
  - rewrite gdp_cons.
    assert (Hc : parent g par c) by (apply Hch; left; reflexivity).
    destruct (IHf c (children g c) (aadd c par acc) (fun x Hx => proj1 (children_parent g c x) Hx)) as [R1 _].
    destruct (IHc (gdp f g c (children g c) (aadd c par acc)) (fun x Hx => Hch x (or_intror Hx))) as [R C].
    assert (R0 : gdp_rel g acc (gdp f g c (children g c) (aadd c par acc))).
    { exact (gdp_rel_trans g _ _ _ (gdp_rel_aadd g acc c par Hc) R1). }
    split; [exact (gdp_rel_trans g _ _ _ R0 R)|].
    intros x [Hx|Hx]; [subst x; apply R, R1; apply aget0_aadd; right; split; reflexivity | apply C; exact Hx].
Qed.

Lemma pbd_fold : forall g n keys acc,
  gdp_rel g acc (fold_left (fun a p => gdp n g p (children g p) a) keys acc) /\
  (forall k c, In k keys -> In c (children g k) -> In k (aget0 c (fold_left (fun a p => gdp n g p (children g p) a) keys acc))).
Proof.
  intros g n keys. induction keys as [|k keys IH]; intros acc; cbn.
  - split; [apply gdp_rel_refl | intros k c []].
  - destruct (gdp_spec g n k (children g k) acc (fun x Hx => proj1 (children_parent g k x) Hx)) as [R1 C1].
    destruct (IH (gdp n g k (children g k) acc)) as [R C].
    split; [exact (gdp_rel_trans g _ _ _ R1 R)|].
    intros k' c [Hk|Hk] Hc; [subst k'; apply R; apply C1; exact Hc | apply C; assumption].
Qed.

Theorem pbd_correct : forall g c p, In p (aget0 c (pbd_of g)) <-> parent g p c.
Proof.
  intros g c p. unfold pbd_of. destruct (pbd_fold g (List.length g) (adj_keys g) []) as [[S _] C]. split.
  - intros H. destruct (S c p H) as [H'|H']; [destruct H' | exact H'].
  - intros H. apply C; [apply adj_keys_spec; exists c; exact H | apply children_parent; exact H].
Qed.

(* ---------- parent_to_children_mapping ---------- *)
Lemma gap_nil : forall fuel pbd, gap fuel pbd [] = [].
Proof. intros fuel pbd. destruct fuel; reflexivity. Qed.

Lemma gap_S : forall f pbd ps, ps <> [] ->
  gap (S f) pbd ps = set_union ps (fold_left (fun rs p => set_union rs (gap f pbd (aget0 p pbd))) ps []).
Proof. intros f pbd ps H. destruct ps as [|p ps]; [congruence | reflexivity]. Qed.

Lemma gap_sound : forall g pbd, (forall c p, In p (aget0 c pbd) -> parent g p c) ->
  forall fuel ps a, In a (gap fuel pbd ps) -> In a ps \/ exists p, In p ps /\ anc g a p.
Proof.
  intros g pbd Hpbd fuel. induction fuel as [|f IH]; intros ps a H.
  - destruct ps as [|p ps]; [destruct H | left; exact H].
  - destruct ps as [|p0 ps0] eqn:Eps; [destruct H|]. rewrite <- Eps in *.
    rewrite gap_S in H by (rewrite Eps; discriminate).
    apply In_set_union in H. destruct H as [H|H]; [left; exact H|].
    apply In_fold_union in H. destruct H as [[]|[p [Hp Ha]]].
    right. exists p. split; [exact Hp|].
    destruct (IH _ _ Ha) as [Hd|[q [Hq Haq]]].
    + apply anc_direct. apply Hpbd. exact Hd.
    + apply (anc_step g a q p); [exact Haq | apply Hpbd; exact Hq].
Qed.

Lemma gap_complete : forall g pbd (rk : nat -> nat), (forall c p, In p (aget0 c pbd) <-> parent g p c) ->
  (forall p c, parent g p c -> rk p < rk c) ->
  forall fuel ps, (forall p, In p ps -> rk p < fuel) ->
  forall a, (In a ps \/ exists p, In p ps /\ anc g a p) -> In a (gap fuel pbd ps).
Proof.
  intros g pbd rk Hpbd Hrk fuel. induction fuel as [|f IH]; intros ps Hps a H.
  - destruct ps as [|p ps].
    + destruct H as [[]|[p [[] _]]].
    + specialize (Hps p (or_introl eq_refl)). lia.
  - destruct ps as [|p0 ps0] eqn:Eps.
    + destruct H as [[]|[p [[] _]]].
    + rewrite <- Eps in *. rewrite gap_S by (rewrite Eps; discriminate).
      apply In_set_union. destruct H as [H|[p [Hp Hap]]]; [left; exact H|]. right.
      apply In_fold_union. right. exists p. split; [exact Hp|].
      assert (Hlt : forall q, In q (aget0 p pbd) -> rk q < f).
      { intros q Hq. specialize (Hps p Hp). apply Hpbd in Hq. specialize (Hrk q p Hq). lia. }
      apply (IH _ Hlt).
      inversion Hap as [p' c' Hpc E1 E2 | a' m c' Ham Hmc E1 E2]; subst.
      * left. apply Hpbd. exact Hpc.
      * right. exists m. split; [apply Hpbd; exact Hmc | exact Ham].
Qed.

Theorem closure_correct : forall g, graph_ok g -> forall a c, In a (closure g c) <-> anc g a c.
Proof.
  intros g Hok a c. destruct (bounded_rank g Hok) as [rk [Hrk Hb]]. destruct Hok as (Hnd & Hcl & _ & _).
  pose proof (pbd_correct g) as Hpbd.
  assert (Hcl' : In a (closure g c) <->
                 In a (gap (S (List.length g)) (pbd_of g) (aget0 c (pbd_of g))) \/ In a (aget0 c (pbd_of g))).
  { unfold closure, p2c_of, aget0 at 1.
    rewrite (aget_map_snd (fun v => set_union (gap (S (List.length g)) (pbd_of g) v) v)).
    unfold aget0. destruct (aget c (pbd_of g)) as [v|]; cbn.
    - apply In_set_union.
    - try rewrite gap_nil. cbn. tauto. }
  rewrite Hcl'. split.
  - intros [H|H].
    + destruct (gap_sound g (pbd_of g) (fun c' p' Hp' => proj1 (Hpbd c' p') Hp') _ _ _ H) as [Hd|[p [Hp Hap]]].
      * apply anc_direct. apply Hpbd. exact Hd.
      * apply (anc_step g a p c); [exact Hap | apply Hpbd; exact Hp].
    + apply anc_direct. apply Hpbd. exact H.
  - intros H. left. apply (gap_complete g (pbd_of g) rk Hpbd Hrk).
    + intros p Hp. apply Hpbd in Hp. pose proof (Hb c (parent_child_id g p c Hp)) as H1. specialize (Hrk p c Hp). lia.
    + inversion H as [p' c' Hpc E1 E2 | a' m c' Ham Hmc E1 E2]; subst.
      * left. apply Hpbd. exact Hpc.
      * right. exists m. split; [apply Hpbd; exact Hmc | exact Ham].
Qed.
