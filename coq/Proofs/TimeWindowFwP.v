(* C19 lemmas: the Python glue of time_window/pyarrow.py, time_window/pandas.py and of the aggregation groups
   (Model/TimeWindowFw.v) computes the window / aggregation specification under the kernel contracts. *)
From Coq Require Import QArith List Bool Arith ZArith Lia Permutation Sorted.
Import ListNotations.
Require Import MV.Spec.Builtins MV.Model.MissingValuePyDict MV.Model.BuiltinsFw MV.Model.TimeWindowFw.
Require Import MV.Proofs.BuiltinsP MV.Proofs.ImputeP MV.Proofs.ImputeGroupedP MV.Proofs.WindowP.
Open Scope Q_scope.

(* ---------------------------------------------------------------------------------------------------------- *)
(* a stable ascending argsort is unique, and `time_order` is one                                              *)
Lemma sorted_perm_unique : forall (R : nat -> nat -> Prop), (forall a b, R a b -> R b a -> False) ->
  forall l1 l2, StronglySorted R l1 -> StronglySorted R l2 -> Permutation l1 l2 -> l1 = l2.
Proof.
  intros R AS. induction l1 as [|a t1 IH]; intros l2 S1 S2 P.
  - apply Permutation_nil in P. subst. reflexivity.
  - destruct l2 as [|b t2]. apply Permutation_sym, Permutation_nil in P. discriminate.
    apply StronglySorted_inv in S1. destruct S1 as [S1 F1]. apply StronglySorted_inv in S2. destruct S2 as [S2 F2].
    rewrite Forall_forall in F1, F2.
    assert (a = b).
    { destruct (Nat.eq_dec a b) as [E|NE]; auto. exfalso.
      assert (Ha : In a (b :: t2)) by (eapply Permutation_in; [exact P | left; reflexivity]).
      assert (Hb : In b (a :: t1)) by (eapply Permutation_in; [apply Permutation_sym; exact P | left; reflexivity]).
      destruct Ha as [Ha|Ha]; [congruence|]. destruct Hb as [Hb|Hb]; [congruence|].
      apply (AS a b); auto. }
    subst b. f_equal. apply IH; auto. eapply Permutation_cons_inv; eauto.
Qed.

Lemma time_lt_asym : forall times a b, time_lt times a b -> time_lt times b a -> False.
Proof. intros times a b [H|[H1 H2]] [G|[G1 G2]]; lia. Qed.

Definition pair_lt (p q : Z * nat) : Prop := (fst p < fst q)%Z \/ (fst p = fst q /\ (snd p < snd q)%nat).

Lemma tinsert_sorted : forall p l, StronglySorted pair_lt l -> (forall q, In q l -> (snd q < snd p)%nat) ->
  StronglySorted pair_lt (tinsert p l).
Proof.
  induction l as [|q t IH]; intros S H; cbn [tinsert]. repeat constructor.
  apply StronglySorted_inv in S. destruct S as [S F]. rewrite Forall_forall in F.
  destruct (fst p <? fst q)%Z eqn:C.
  - apply Z.ltb_lt in C. constructor. constructor; auto. apply Forall_forall; auto.
    apply Forall_forall. intros r [<-|Hr]. left; exact C.
    specialize (F r Hr). destruct F as [F|[F1 F2]]; left; lia.
  - apply Z.ltb_ge in C. constructor. apply IH; auto. intros; apply H; right; auto.
    apply Forall_forall. intros r Hr. apply (Permutation_in _ (tinsert_perm p t)) in Hr. destruct Hr as [<-|Hr]; auto.
    assert (snd q < snd p)%nat by (apply H; left; auto). unfold pair_lt. lia.
Qed.

Lemma fold_tinsert_sorted_gen : forall l acc, StronglySorted pair_lt acc ->
  StronglySorted (fun p q => (snd p < snd q)%nat) l -> (forall q p, In q acc -> In p l -> (snd q < snd p)%nat) ->
  StronglySorted pair_lt (fold_left (fun a p => tinsert p a) l acc).
Proof.
  induction l as [|p t IH]; intros acc SA SL H; cbn [fold_left]. exact SA.
  apply StronglySorted_inv in SL. destruct SL as [SL F]. rewrite Forall_forall in F.
  apply IH; auto.
  - apply tinsert_sorted; auto. intros q Hq. apply H; auto. left; auto.
  - intros q r Hq Hr. apply (Permutation_in _ (tinsert_perm p acc)) in Hq. destruct Hq as [<-|Hq]. apply F; auto.
    apply H; auto. right; auto.
Qed.

Lemma combine_seq_snd_sorted : forall (ts : list Z) s,
  StronglySorted (fun p q => (snd p < snd q)%nat) (combine ts (seq s (List.length ts))).
Proof.
  induction ts as [|t ts IH]; intros s; cbn [List.length seq combine]. constructor.
  constructor. apply IH. apply Forall_forall. intros [t' j] Hin. apply in_combine_r in Hin. apply in_seq in Hin. cbn. lia.
Qed.

Lemma in_combine_seq : forall (ts : list Z) s t j, In (t, j) (combine ts (seq s (List.length ts))) ->
  (s <= j)%nat /\ nth (j - s) ts 0%Z = t.
Proof.
  induction ts as [|t0 ts IH]; intros s t j H; cbn [List.length seq combine] in H. contradiction.
  destruct H as [H|H].
  - inversion H; subst. split. lia. rewrite Nat.sub_diag. reflexivity.
  - apply IH in H. destruct H as [H1 H2]. split. lia. replace (j - s)%nat with (S (j - S s)) by lia. exact H2.
Qed.

Lemma sorted_map_snd : forall times (l : list (Z * nat)), (forall p, In p l -> nth (snd p) times 0%Z = fst p) ->
  StronglySorted pair_lt l -> StronglySorted (time_lt times) (map snd l).
Proof.
  induction l as [|p t IH]; intros H S; cbn [map]. constructor.
  apply StronglySorted_inv in S. destruct S as [S F]. rewrite Forall_forall in F. constructor.
  - apply IH; auto. intros; apply H; right; auto.
  - apply Forall_forall. intros j Hj. apply in_map_iff in Hj. destruct Hj as [q [<- Hq]].
    unfold time_lt. rewrite (H p) by (left; auto). rewrite (H q) by (right; auto). apply F. exact Hq.
Qed.

Lemma time_order_stable : forall times, is_stable_argsort times (time_order times).
Proof.
  intros times. split. apply time_order_perm_l. unfold time_order. apply sorted_map_snd.
  - intros [t j] Hin. apply (Permutation_in _ (fold_tinsert_perm _ [])) in Hin. cbn [app] in Hin.
    apply in_combine_seq in Hin. destruct Hin as [_ Hn]. rewrite Nat.sub_0_r in Hn. exact Hn.
  - apply fold_tinsert_sorted_gen. constructor. apply combine_seq_snd_sorted. intros q p [].
Qed.

Lemma stable_argsort_unique : forall times idx, is_stable_argsort times idx -> idx = time_order times.
Proof.
  intros times idx [P S]. destruct (time_order_stable times) as [P' S'].
  apply (sorted_perm_unique (time_lt times) (time_lt_asym times)); auto.
  etransitivity. exact P. apply Permutation_sym. exact P'.
Qed.

Lemma list_nat_eqb_eq : forall a b, list_nat_eqb a b = true <-> a = b.
Proof.
  induction a as [|x a IH]; intros [|y b]; cbn; split; intros H; try discriminate; auto.
  - apply andb_true_iff in H. destruct H as [H1 H2]. apply Nat.eqb_eq in H1. apply IH in H2. subst. reflexivity.
  - inversion H; subst. rewrite Nat.eqb_refl. apply IH. reflexivity.
Qed.
Lemma stable_argsort_b_iff : forall times idx, stable_argsort_b times idx = true <-> is_stable_argsort times idx.
Proof.
  intros. unfold stable_argsort_b. rewrite list_nat_eqb_eq. split.
  - intros ->. apply time_order_stable.
  - apply stable_argsort_unique.
Qed.

(* ---------------------------------------------------------------------------------------------------------- *)
(* windows by position                                                                                        *)
Lemma take_seq : forall (l : col) len s, (s + len <= List.length l)%nat -> take l (seq s len) = firstn len (skipn s l).
Proof.
  intros l. induction len as [|len IH]; intros s H; cbn [seq]. reflexivity.
  unfold take in *. cbn [map]. rewrite (skipn_nth_cons l s None) by lia. cbn [firstn]. f_equal. apply IH. lia.
Qed.

Lemma window_at_take : forall w i (l : col), (i < List.length l)%nat ->
  take l (seq (i + 1 - w) (i + 1 - (i + 1 - w))) = window_at w i l.
Proof.
  intros w i l H. rewrite take_seq by lia. unfold window_at. rewrite Nat.add_1_r.
  rewrite firstn_skipn_comm. f_equal. f_equal. lia.
Qed.

Lemma window_at_length : forall w i (l : col), (i < List.length l)%nat ->
  List.length (window_at w i l) = (S i - (S i - w))%nat.
Proof. intros. unfold window_at. rewrite skipn_length, firstn_length. nlia. Qed.

Lemma take_length : forall c idx, List.length (take c idx) = List.length idx.
Proof. intros. apply map_length. Qed.

Lemma perm_seq_lt : forall idx n, Permutation idx (seq 0 n) -> forall i, In i idx -> (i < n)%nat.
Proof. intros idx n P i Hi. apply (Permutation_in _ P) in Hi. apply in_seq in Hi. lia. Qed.

(* ---------------------------------------------------------------------------------------------------------- *)
(* PyArrow windows                                                                                            *)
Section PaWindow.
Variable K : paw_kernels.
Hypothesis HK : paw_contracts K.

Lemma pa_win_agg_spec : forall op wv, pa_win_agg K op wv = win_agg_with agg_pop op wv.
Proof. intros [a| |] wv; cbn. apply (cw_agg K HK). reflexivity. reflexivity. Qed.

Lemma pa_window_is_window_pa : forall op w times c, (1 <= w)%nat -> List.length times = List.length c ->
  pa_window K op w times c = window_pa op w times c.
Proof.
  intros op w times c Hw L. unfold pa_window, window_pa, window_with.
  pose proof (cw_sort K HK times) as SA. rewrite (stable_argsort_unique _ _ SA).
  destruct (time_order_stable times) as [P _].
  rewrite (cw_take K HK) by (intros i Hi; apply (perm_seq_lt _ _ P) in Hi; lia).
  fold (take c (time_order times)). set (sorted := take c (time_order times)).
  assert (E : map (fun i => match pc_take K sorted (seq (i + 1 - w) (i + 1 - (i + 1 - w))) with
                            | [] => nth i sorted None
                            | _ :: _ => pa_win_agg K op (pc_take K sorted (seq (i + 1 - w) (i + 1 - (i + 1 - w))))
                            end) (seq 0 (List.length sorted))
              = map (fun i => win_agg_with agg_pop op (window_at w i sorted)) (seq 0 (List.length sorted))).
  { apply map_ext_in. intros i Hi. apply in_seq in Hi.
    rewrite (cw_take K HK) by (intros j Hj; apply in_seq in Hj; lia). rewrite window_at_take by lia.
    pose proof (window_at_length w i sorted ltac:(lia)) as WL.
    destruct (window_at w i sorted) eqn:EW. cbn [List.length] in WL; lia. apply pa_win_agg_spec. }
  rewrite E. rewrite map_length, seq_length. unfold sorted at 3. rewrite take_length.
  rewrite (Permutation_length P), seq_length, L. reflexivity.
Qed.

Lemma pa_aggregate_spec : forall op c, pa_aggregate K op c = repeat (agg_pop op c) (List.length c).
Proof. intros. unfold pa_aggregate. rewrite (cw_agg K HK). reflexivity. Qed.
End PaWindow.

(* ---------------------------------------------------------------------------------------------------------- *)
(* numpy index assignment with a permutation = reading through the inverse permutation                        *)
Lemma np_scatter_length : forall idx src dst, List.length (np_scatter dst idx src) = List.length dst.
Proof.
  unfold np_scatter. induction idx as [|a t IH]; intros src dst. reflexivity.
  destruct src as [|x s]. reflexivity. cbn [combine fold_left fst snd]. rewrite IH. apply set_nth_length.
Qed.

Lemma np_scatter_nth : forall idx src dst i, NoDup idx -> List.length src = List.length idx ->
  (forall j, In j idx -> (j < List.length dst)%nat) ->
  nth i (np_scatter dst idx src) None = if mem_nat i idx then nth (pos_of i idx) src None else nth i dst None.
Proof.
  unfold np_scatter. induction idx as [|a t IH]; intros src dst i ND L H. reflexivity.
  destruct src as [|x s]. discriminate. cbn [combine fold_left fst snd].
  inversion ND as [|? ? Hnotin ND']; subst.
  rewrite IH; auto. 2: (intros j Hj; rewrite set_nth_length; apply H; right; exact Hj).
  unfold mem_nat. cbn [existsb pos_of]. fold (mem_nat i t). rewrite (Nat.eqb_sym a i).
  destruct (Nat.eqb i a) eqn:E.
  - apply Nat.eqb_eq in E. subst i. rewrite (proj2 (mem_nat_false a t) Hnotin). cbn [orb nth].
    rewrite nth_set_nth by (apply H; left; reflexivity). rewrite Nat.eqb_refl. reflexivity.
  - cbn [orb]. destruct (mem_nat i t). reflexivity.
    rewrite nth_set_nth by (apply H; left; reflexivity). rewrite E. reflexivity.
Qed.

Lemma np_scatter_perm : forall idx values n, List.length values = n -> Permutation idx (seq 0 n) ->
  np_scatter values idx values = map (fun i => nth (pos_of i idx) values None) (seq 0 n).
Proof.
  intros idx values n LV P. apply nth_ext with (d := None) (d' := None).
  - rewrite np_scatter_length, map_length, seq_length. exact LV.
  - intros i Hi. rewrite np_scatter_length, LV in Hi. rewrite nth_map_seq by exact Hi.
    rewrite np_scatter_nth.
    + assert (M : mem_nat i idx = true).
      { apply mem_nat_true. apply (Permutation_in _ (Permutation_sym P)). apply in_seq. lia. }
      rewrite M. reflexivity.
    + apply (Permutation_NoDup (Permutation_sym P)). apply seq_NoDup.
    + rewrite (Permutation_length P), seq_length. exact LV.
    + intros j Hj. rewrite LV. apply (perm_seq_lt _ _ P). exact Hj.
Qed.

(* ---------------------------------------------------------------------------------------------------------- *)
(* pandas windows                                                                                             *)
Lemma vals_nil_hd_last : forall w : col, vals w = [] -> hd None w = None /\ last w None = None.
Proof.
  induction w as [|[q|] t IH]; cbn [vals]; intros H; try discriminate. split; reflexivity.
  destruct (IH H) as [H1 H2]. split. reflexivity. destruct t; auto.
Qed.

Section PdWindow.
Variable K : pdw_kernels.
Hypothesis HK : pdw_contracts K.

Lemma pd_rolling_result : forall op w sorted, (1 <= w)%nat ->
  match op with
  | WAgg a => pd_rolling K a w sorted
  | WFirst => pd_rolling_apply K (fun x => hd None x) w sorted
  | WLast => pd_rolling_apply K (fun x => last x None) w sorted
  end = windows_sorted op w sorted.
Proof.
  intros [a| |] w sorted Hw.
  - apply (cd_rolling K HK); auto.
  - rewrite (cd_apply K HK) by auto. unfold rolling_apply_ref, windows_sorted. apply map_ext. intros i. cbn [win_agg].
    destruct (vals (window_at w i sorted)) eqn:E; auto. symmetry. apply vals_nil_hd_last. exact E.
  - rewrite (cd_apply K HK) by auto. unfold rolling_apply_ref, windows_sorted. apply map_ext. intros i. cbn [win_agg].
    destruct (vals (window_at w i sorted)) eqn:E; auto. symmetry. apply vals_nil_hd_last. exact E.
Qed.

Lemma pd_window_is_spec : forall op w times c, (1 <= w)%nat -> List.length times = List.length c ->
  pd_window K op w times c = window_spec op w times c.
Proof.
  intros op w times c Hw L. unfold pd_window.
  pose proof (cd_argsort K HK times) as SA. rewrite (stable_argsort_unique _ _ SA).
  destruct (time_order_stable times) as [P _].
  rewrite (cd_iloc K HK) by (intros i Hi; apply (perm_seq_lt _ _ P) in Hi; lia).
  rewrite pd_rolling_result by exact Hw.
  set (values := windows_sorted op w (take c (time_order times))).
  assert (LW : List.length values = List.length c).
  { unfold values. rewrite windows_sorted_length, take_length, (Permutation_length P), seq_length. exact L. }
  rewrite (np_scatter_perm (time_order times) values (List.length c) LW) by (rewrite <- L; exact P).
  reflexivity.
Qed.

Lemma pd_aggregate_spec : forall op c, pd_aggregate K op c = repeat (agg_pd_sum0 op c) (List.length c).
Proof. intros. unfold pd_aggregate. rewrite (cd_agg K HK). reflexivity. Qed.
End PdWindow.

(* the reference kernels satisfy the contracts *)
Lemma ref_paw_contracts : paw_contracts ref_paw.
Proof. constructor; cbn; intros; auto. apply time_order_stable. Qed.
Lemma ref_pdw_contracts : pdw_contracts ref_pdw.
Proof. constructor; cbn; intros; auto. apply time_order_stable. Qed.

(* corollaries at the level of the specification *)
Lemma pa_window_partial_l : forall K, paw_contracts K -> forall op w times c, (1 <= w)%nat -> List.length times = List.length c ->
  op <> WAgg AStd -> op <> WAgg AVar -> pa_window K op w times c = window_spec op w times c.
Proof. intros. rewrite pa_window_is_window_pa by auto. apply window_pa_same_l; auto. Qed.

Lemma pa_pd_windows_agree_l : forall Ka Kd, paw_contracts Ka -> pdw_contracts Kd -> forall op w times c, (1 <= w)%nat ->
  List.length times = List.length c -> op <> WAgg AStd -> op <> WAgg AVar ->
  pa_window Ka op w times c = pd_window Kd op w times c.
Proof. intros. rewrite pa_window_partial_l, pd_window_is_spec by auto. reflexivity. Qed.

Lemma pa_window_std_refuted_l :
  nth 0 (pa_window ref_paw (WAgg AVar) 2 [0; 1; 2]%Z [Some 1; Some 2; Some 4]) None = Some 0 /\
  nth 0 (window_spec (WAgg AVar) 2 [0; 1; 2]%Z [Some 1; Some 2; Some 4]) None = None /\
  nth 0 (pd_window ref_pdw (WAgg AVar) 2 [0; 1; 2]%Z [Some 1; Some 2; Some 4]) None = None.
Proof. vm_compute. repeat split. Qed.

Lemma pa_aggregate_partial_l : forall K, paw_contracts K -> forall op c, op <> AStd -> op <> AVar ->
  pa_aggregate K op c = repeat (agg_spec op c) (List.length c).
Proof. intros. rewrite pa_aggregate_spec by auto. rewrite agg_pop_same_l by auto. reflexivity. Qed.
Lemma pd_aggregate_partial_l : forall K, pdw_contracts K -> forall op c, (op <> ASum \/ vals c <> []) ->
  pd_aggregate K op c = repeat (agg_spec op c) (List.length c).
Proof. intros. rewrite pd_aggregate_spec by auto. rewrite agg_pd_same_l by auto. reflexivity. Qed.
