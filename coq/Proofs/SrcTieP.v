(* Source-text tie: all lemmas (one file per group of targets so that a broken group is identified by its file). *)
Require Export MV.Proofs.SrcTieIndexP MV.Proofs.SrcTieRunP MV.Proofs.SrcTieTypesP MV.Proofs.SrcTieBaseP MV.Proofs.SrcTieChainP
  MV.Proofs.SrcTieLemP MV.Proofs.SrcTiePlanP MV.Proofs.SrcTieQueueP MV.Proofs.SrcTieTrekP MV.Proofs.SrcTieReorderP
  MV.Proofs.SrcTieOptP MV.Proofs.SrcTieUpdP MV.Proofs.SrcTieValidP MV.Proofs.SrcTieNameP
  MV.Proofs.SrcTieTfsP MV.Proofs.SrcTieFilterP MV.Proofs.SrcTieWorkerP.
