(* Source-text tie, C04 (planner, round 2): the LinkTrekker methods regenerated from resolve_links.py (Gen/SrcPlan.v) against
   Model/PlannerL.v.  A method the translated function calls on self and that is not itself translated is a PARAMETER of the
   generated definition (any function  trek -> res unit * trek : it may change the trekker and may raise); the lemmas hold for
   every such callee and are then instantiated with the model's own definition of the callee. *)
From Coq Require Import List Bool ZArith Arith Lia.
Import ListNotations.
Require Import MV.Model.PySem MV.Gen.SrcPlan.
Require Import MV.Model.Orch MV.Model.PlannerA MV.Model.PyObj MV.Proofs.SrcTieLemP.
Require Import MV.Model.PlannerL.
Open Scope nat_scope.

Local Notation Ok := PySem.Ok.
Local Notation res := PySem.res.

(* ---------- LinkTrekker.order_links_by_frameworks ---------- *)
(* if k not in self.order: self.order[k] = {x}  else: self.order[k].add(x)   is   aadd k x; the KeyError of the second
   branch cannot happen *)
Lemma order_add_src : forall (o : amap) k x,
  (if negb (py_dict_mem Nat.eqb k o) then Ok (py_dict_set Nat.eqb o k [x]) else py_dict_setadd Nat.eqb Nat.eqb o k x)
  = Ok (aadd k x o).
Proof.
  induction o as [|[k' v] o IH]; intros k x; [reflexivity|].
  unfold py_dict_mem in *. cbn [existsb fst py_dict_set py_dict_setadd aadd].
  destruct (Nat.eqb k k') eqn:E; cbn [orb negb].
  - rewrite py_union_add1. reflexivity.
  - specialize (IH k x). destruct (existsb (fun kv => Nat.eqb k (fst kv)) o); cbn [negb] in *.
    + rewrite IH. reflexivity.
    + injection IH as IH. rewrite IH. reflexivity.
Qed.

Definition olbf_inner (k : lkey) (o' : amap) (k' : lkey) : amap :=
  if Nat.eqb (k_uid k) (k_uid k') then o'
  else if Nat.eqb (k_r k) (k_l k') && Nat.eqb (k_l k') (k_l k) then o'
  else if Nat.eqb (k_r k) (k_l k') then aadd (k_uid k') (k_uid k) o' else o'.

Lemma olbf_loop2_src : forall k l self,
  LinkTrekker_order_links_by_frameworks_loop2 (k_uid k) (k_l k) (k_r k) l self
  = Fall (trek_set_order self (fold_left (olbf_inner k) (map fst l) (t_order self))).
Proof.
  intros k l. induction l as [|[k' us] l IH]; intros self.
  - cbn [LinkTrekker_order_links_by_frameworks_loop2 map fold_left]. rewrite trek_set_order_same. reflexivity.
  - cbn [LinkTrekker_order_links_by_frameworks_loop2 map fold_left fst]. cbv zeta. unfold olbf_inner at 2.
    destruct (Nat.eqb (k_uid k) (k_uid k')); [apply IH|].
    destruct (Nat.eqb (k_r k) (k_l k') && Nat.eqb (k_l k') (k_l k))%bool; [apply IH|].
    destruct (Nat.eqb (k_r k) (k_l k')); [|apply IH].
    pose proof (order_add_src (t_order self) (k_uid k') (k_uid k)) as H.
    destruct (negb (py_dict_mem Nat.eqb (k_uid k') (t_order self))).
    + injection H as H. rewrite H, IH. reflexivity.
    + rewrite H, IH. reflexivity.
Qed.

Lemma olbf_loop1_src : forall l self,
  LinkTrekker_order_links_by_frameworks_loop1 l self
  = Fall (trek_set_order self (fold_left (fun o k => fold_left (olbf_inner k) (tkeys (t_data self)) o) (map fst l) (t_order self))).
Proof.
  induction l as [|[k us] l IH]; intros self.
  - cbn [LinkTrekker_order_links_by_frameworks_loop1 map fold_left]. rewrite trek_set_order_same. reflexivity.
  - cbn [LinkTrekker_order_links_by_frameworks_loop1 map fold_left fst]. cbv zeta. unfold py_dict_items.
    rewrite olbf_loop2_src, IH. reflexivity.
Qed.

Lemma res_unit_eta : forall r : res unit, match r with Ok _ => Ok tt | Raise e => Raise e end = r.
Proof. destruct r as [[]|]; reflexivity. Qed.

(* for EVERY callee: the method is PlannerL.olbf on (data, order) followed by the call *)
Lemma order_links_by_frameworks_src : forall (drop : trek -> res unit * trek) self,
  LinkTrekker_order_links_by_frameworks drop self = drop (trek_set_order self (olbf (t_data self) (t_order self))).
Proof.
  intros drop self. unfold LinkTrekker_order_links_by_frameworks, py_dict_items. rewrite olbf_loop1_src.
  change (fold_left (fun o k => fold_left (olbf_inner k) (tkeys (t_data self)) o) (map fst (t_data self)) (t_order self))
    with (olbf (t_data self) (t_order self)).
  destruct (drop (trek_set_order self (olbf (t_data self) (t_order self)))) as [r s]. destruct r as [[]|]; reflexivity.
Qed.

(* the callee as PlannerL models it: drop_circular; None = ValueError 'Link not found in data!' *)
Definition drop_model (s : trek) : res unit * trek :=
  match drop_circular (t_data s) (t_order s) with
  | Some o => (Ok tt, trek_set_order s o)
  | None => (Raise ValueError, s)
  end.

Lemma order_links_by_frameworks_model : forall self,
  LinkTrekker_order_links_by_frameworks drop_model self
  = match order_links_by_frameworks (t_data self) (t_order self) with
    | Some o => (Ok tt, trek_set_order self o)
    | None => (Raise ValueError, trek_set_order self (olbf (t_data self) (t_order self)))
    end.
Proof.
  intros self. rewrite order_links_by_frameworks_src. unfold drop_model, order_links_by_frameworks. cbn [t_data t_order trek_set_order].
  destruct (drop_circular (t_data self) (olbf (t_data self) (t_order self))); reflexivity.
Qed.

(* ---------- LinkTrekker.get_ordered_data ---------- *)
Definition seq_call (f : trek -> res unit * trek) (k : trek -> res tdata * trek) (s : trek) : res tdata * trek :=
  match f s with (Raise e, s') => (Raise e, s') | (Ok _, s') => k s' end.

(* for EVERY three callees: the method calls them in this order, stops at the first that raises, returns self.data_ordered *)
Lemma get_ordered_data_src : forall f1 f2 f3 self,
  LinkTrekker_get_ordered_data f1 f2 f3 self
  = seq_call f1 (seq_call f2 (seq_call f3 (fun s => (Ok (t_dor s), s)))) self.
Proof.
  intros. unfold LinkTrekker_get_ordered_data, seq_call.
  destruct (f1 self) as [[u1|e1] s1]; [|reflexivity].
  destruct (f2 s1) as [[u2|e2] s2]; [|reflexivity].
  destruct (f3 s2) as [[u3|e3] s3]; reflexivity.
Qed.

(* the callees as PlannerL models them *)
Definition olbf_model (s : trek) : res unit * trek :=
  match order_links_by_frameworks (t_data s) (t_order s) with
  | Some o => (Ok tt, trek_set_order s o)
  | None => (Raise ValueError, trek_set_order s (olbf (t_data s) (t_order s)))
  end.
Definition reorder_model (s : trek) : res unit * trek := (Ok tt, trek_set_order s (reorder_rel (t_order s))).
(* create_data_ordered ends with ResolveLinkValidator.validate_data_consistency (ValueError when the sizes differ) *)
Definition cdo_model (s : trek) : res unit * trek :=
  let dor := create_data_ordered (t_data s) (t_dor s) (t_order s) in
  if Nat.eqb (List.length dor) (List.length (t_data s)) then (Ok tt, trek_set_dor s dor) else (Raise ValueError, trek_set_dor s dor).

Lemma get_ordered_data_model : forall t,
  match get_ordered_data t with
  | PlannerL.Ok t' => LinkTrekker_get_ordered_data olbf_model reorder_model cdo_model t = (Ok (t_dor t'), t')
  | PlannerL.Err _ => exists e s, LinkTrekker_get_ordered_data olbf_model reorder_model cdo_model t = (Raise e, s)
  end.
Proof.
  intros t. rewrite get_ordered_data_src. unfold get_ordered_data, seq_call, olbf_model, reorder_model, cdo_model.
  destruct (order_links_by_frameworks (t_data t) (t_order t)) as [o1|]; [|eexists; eexists; reflexivity].
  cbn [t_data t_order t_dor trek_set_order trek_set_dor].
  destruct (Nat.eqb (List.length (create_data_ordered (t_data t) (t_dor t) (reorder_rel o1))) (List.length (t_data t)));
    [reflexivity|eexists; eexists; reflexivity].
Qed.
