(* Engine-independent algebra of Spec/Rel.rel_join for chains / stars of joins (used by C05).
   Standard library only; no axioms.  Spec/Rel.v is not changed.

   Key lists.  rel_join never renames a column: with differently named keys both key columns are retained, with equally
   named keys the single column is kept (row_union is left biased and matched rows agree on it).  Hence a link
   "X.kx = Y.ky" is applied to an intermediate result with the SAME key lists kx / ky, whatever was joined before;
   what is needed instead is that the key columns can be read back from the intermediate row:
     keys_present ks T   every row of T binds every column of ks (the value may be null)
   and that columns of earlier tables do not shadow them:
     overlap_free (Rel.v) for a chain, star_ok for two tables hanging off the same anchor.
   All premises are boolean and hold for the example tables at the end of the file. *)
From Coq Require Import List String ZArith Bool Permutation Lia.
Import ListNotations.
Require Import MV.Spec.Rel MV.Proofs.RelLemmas.
Open Scope string_scope.
Open Scope list_scope.

(* ==================================================================================================== *)
(* premises *)

(* every row binds every key column *)
Definition keys_present (ks : list col) (T : table) : bool :=
  forallb (fun r => forallb (fun c => has_col c r) ks) T.

(* B and C both hang off A: a column name that B and C share is bound by every row of A
   (so the left-biased row_union reads it from A in either order) *)
Definition star_ok (A B C : table) : bool :=
  forallb (fun x => negb (mem x (table_cols C)) || forallb (has_col x) A) (table_cols B).

(* no two rows of R have SQL-equal keys (null keys never count: they match nothing) *)
Fixpoint unique_match_keys (rk : list col) (R : table) : bool :=
  match R with
  | [] => true
  | r :: t => negb (existsb (fun r' => keys_match (key_of rk r) (key_of rk r')) t) && unique_match_keys rk t
  end.

Lemma keys_present_spec : forall ks T r c,
  keys_present ks T = true -> In r T -> mem c ks = true -> has_col c r = true.
Proof.
  unfold keys_present. intros ks T r c H Hr Hc. rewrite forallb_forall in H. specialize (H r Hr).
  rewrite forallb_forall in H. apply H. now apply mem_in.
Qed.

Lemma star_ok_spec : forall A B C x a,
  star_ok A B C = true -> In a A -> mem x (table_cols B) = true -> mem x (table_cols C) = true -> has_col x a = true.
Proof.
  unfold star_ok. intros A B C x a H Ha HB HC. rewrite forallb_forall in H.
  apply mem_in in HB. specialize (H x HB). rewrite HC in H. simpl in H. rewrite forallb_forall in H. auto.
Qed.

(* ==================================================================================================== *)
(* list comprehensions *)

Lemma flat_map_flat_map : forall (X Y Z : Type) (f : X -> list Y) (g : Y -> list Z) l,
  flat_map g (flat_map f l) = flat_map (fun x => flat_map g (f x)) l.
Proof. induction l as [|x t IH]; simpl; auto. now rewrite flat_map_app, IH. Qed.

Lemma if_flat_map : forall (X Y : Type) (p : bool) (q : X -> bool) (r : X -> Y) l,
  (if p then flat_map (fun c => if q c then [r c] else []) l else []) =
  flat_map (fun c => if p && q c then [r c] else []) l.
Proof. intros. destruct p; simpl; auto. now rewrite flat_map_nil_fun. Qed.

Definition J2 (m : row -> row -> bool) (f : row -> row -> row) (L R : table) : table :=
  flat_map (fun l => flat_map (fun r => if m l r then [f l r] else []) R) L.

Definition T3 (cond : row -> row -> row -> bool) (mk : row -> row -> row -> row) (A B C : table) : table :=
  flat_map (fun a => flat_map (fun b => flat_map (fun c => if cond a b c then [mk a b c] else []) C) B) A.

Lemma inner_rows_J2 : forall lk rk L R, inner_rows lk rk L R = J2 (matches lk rk) row_union L R.
Proof.
  intros. unfold inner_rows, J2. apply flat_map_ext. intro l. apply map_filter_flat_map.
Qed.

Lemma J2_left_nested : forall m1 f1 m2 f2 A B C,
  J2 m2 f2 (J2 m1 f1 A B) C =
  T3 (fun a b c => m1 a b && m2 (f1 a b) c) (fun a b c => f2 (f1 a b) c) A B C.
Proof.
  intros. unfold J2 at 1. unfold J2 at 1. unfold T3. rewrite flat_map_flat_map. apply flat_map_ext. intro a.
  rewrite flat_map_flat_map. apply flat_map_ext. intro b.
  destruct (m1 a b); simpl; [now rewrite app_nil_r | now rewrite flat_map_nil_fun].
Qed.

Lemma J2_right_nested : forall m1 f1 m2 f2 A B C,
  J2 m1 f1 A (J2 m2 f2 B C) =
  T3 (fun a b c => m2 b c && m1 a (f2 b c)) (fun a b c => f1 a (f2 b c)) A B C.
Proof.
  intros. unfold J2 at 1. unfold T3. apply flat_map_ext. intro a.
  unfold J2. rewrite flat_map_flat_map. apply flat_map_ext. intro b.
  rewrite flat_map_flat_map. apply flat_map_ext. intro c.
  destruct (m2 b c); simpl; auto. now rewrite app_nil_r.
Qed.

Lemma T3_teq : forall c1 r1 c2 r2 A B C,
  (forall a b c, In a A -> In b B -> In c C -> c1 a b c = c2 a b c) ->
  (forall a b c, In a A -> In b B -> In c C -> c1 a b c = true -> row_equiv (r1 a b c) (r2 a b c)) ->
  teq (T3 c1 r1 A B C) (T3 c2 r2 A B C).
Proof.
  intros c1 r1 c2 r2 A B C H1 H2. unfold T3.
  apply teq_flat_map. intros a Ha. apply teq_flat_map. intros b Hb. apply teq_flat_map. intros c Hc.
  rewrite <- (H1 a b c) by auto. destruct (c1 a b c) eqn:E; [|apply teq_nil].
  apply teq_single. auto.
Qed.

(* exchanging the two inner loops *)
Lemma T3_swap23 : forall cond mk A B C,
  Permutation (T3 cond mk A B C) (T3 (fun a c b => cond a b c) (fun a c b => mk a b c) A C B).
Proof.
  intros. unfold T3. apply flat_map_perm_ext. intros a _.
  apply (flat_map_swap _ _ _ (fun b c => if cond a b c then [mk a b c] else [])).
Qed.

(* exchanging the two outer loops *)
Lemma T3_swap12 : forall cond mk A B C,
  Permutation (T3 cond mk A B C) (T3 (fun b a c => cond a b c) (fun b a c => mk a b c) B A C).
Proof.
  intros. unfold T3.
  apply (flat_map_swap _ _ _ (fun a b => flat_map (fun c => if cond a b c then [mk a b c] else []) C)).
Qed.

(* ==================================================================================================== *)
(* reading keys back from joined rows *)

Lemma has_col_filter_cols : forall (p : col -> bool) c r,
  has_col c (filter (fun cv => p (fst cv)) r) = has_col c r && p c.
Proof.
  intros p c r. unfold has_col, row_cols, mem. induction r as [|[d v] t IH]; simpl; auto.
  destruct (p d) eqn:P; simpl; rewrite IH; destruct (String.eqb c d) eqn:X; simpl; auto.
  - apply String.eqb_eq in X. subst d. now rewrite P.
  - apply String.eqb_eq in X. subst d. rewrite P. now rewrite andb_false_r.
Qed.

Lemma has_col_row_union : forall c l r, has_col c (row_union l r) = has_col c l || has_col c r.
Proof.
  intros. unfold row_union. rewrite has_col_app, (has_col_filter_cols (fun x => negb (has_col x l))).
  destruct (has_col c l), (has_col c r); reflexivity.
Qed.

Lemma has_col_pad : forall cols c r, has_col c (pad cols r) = has_col c r || mem c cols.
Proof.
  intros. unfold pad. rewrite has_col_app, (has_col_map_fun (fun _ => VNull)).
  destruct (has_col c r) eqn:H; simpl; auto.
  apply eq_true_iff_eq. rewrite !mem_in, filter_In, H. simpl. tauto.
Qed.

(* a row that starts with the bindings of l reads l's columns as l does *)
Lemma key_of_app_left : forall ks l rest,
  (forall c, mem c ks = true -> has_col c l = true) -> key_of ks (l ++ rest) = key_of ks l.
Proof.
  intros ks l rest H. unfold key_of. apply map_ext_in. intros c Hc.
  rewrite get_app, H; auto. now apply mem_in.
Qed.

Lemma key_of_row_union_left : forall ks l r,
  (forall c, mem c ks = true -> has_col c l = true) -> key_of ks (row_union l r) = key_of ks l.
Proof. intros. unfold row_union. now apply key_of_app_left. Qed.

Lemma key_of_pad : forall ks cols l,
  (forall c, mem c ks = true -> has_col c l = true) -> key_of ks (pad cols l) = key_of ks l.
Proof. intros. unfold pad. now apply key_of_app_left. Qed.

Lemma key_of_row_union_right : forall ks l r,
  (forall c, mem c ks = true -> has_col c l = true -> get c l = get c r) ->
  key_of ks (row_union l r) = key_of ks r.
Proof.
  intros ks l r H. unfold key_of. apply map_ext_in. intros c Hc. apply mem_in in Hc.
  rewrite get_row_union. destruct (has_col c l) eqn:E; auto.
Qed.

Lemma row_union_assoc : forall a b c, row_equiv (row_union (row_union a b) c) (row_union a (row_union b c)).
Proof.
  intros a b c x. rewrite !get_row_union, has_col_row_union.
  destruct (has_col x a), (has_col x b); reflexivity.
Qed.

(* two rows hanging off the same anchor can be attached in either order *)
Lemma row_union_star : forall A B C a b c,
  star_ok A B C = true -> In a A -> In b B -> In c C ->
  row_equiv (row_union (row_union a b) c) (row_union (row_union a c) b).
Proof.
  intros A B C a b c S Ha Hb Hc x. rewrite !get_row_union, !has_col_row_union.
  destruct (has_col x a) eqn:Xa; simpl; auto.
  destruct (has_col x b) eqn:Xb, (has_col x c) eqn:Xc; auto.
  - rewrite (star_ok_spec A B C x a S Ha) in Xa; [discriminate| |]; eapply has_col_table_cols; eauto.
  - now rewrite !get_no_col.
Qed.

(* ==================================================================================================== *)
(* 1a. chain  A -k1- B -k2- C  : (A |x| B) |x| C  =  A |x| (B |x| C) *)

Section Chain.
  Variables k1a k1b k2a k2b : list col.
  Variables A B C : table.
  Hypothesis OF : overlap_free k1a k1b A B = true.
  Hypothesis P1 : keys_present k1b B = true.
  Hypothesis P2 : keys_present k2a B = true.

  Lemma chain_m1 : forall a b c, In b B -> matches k1a k1b a (row_union b c) = matches k1a k1b a b.
  Proof.
    intros a b c Hb. unfold matches. rewrite key_of_row_union_left; [reflexivity|].
    intros x Hx. exact (keys_present_spec k1b B b x P1 Hb Hx).
  Qed.

  Lemma chain_m2 : forall a b c, In a A -> In b B -> matches k1a k1b a b = true ->
    matches k2a k2b (row_union a b) c = matches k2a k2b b c.
  Proof.
    intros a b c Ha Hb M. unfold matches. rewrite key_of_row_union_right; [reflexivity|].
    intros x Hx Hxa. unfold matches in M. apply keys_match_spec in M. destruct M as [E _].
    apply (shared_key_get k1a k1b x a b); [|exact E].
    apply (proj1 (overlap_free_spec _ _ _ _) OF).
    - exact (has_col_table_cols x a A Ha Hxa).
    - exact (has_col_table_cols x b B Hb (keys_present_spec k2a B b x P2 Hb Hx)).
  Qed.

  Lemma inner_chain_assoc_l :
    bag_eq (rel_join JInner k2a k2b (rel_join JInner k1a k1b A B) C)
           (rel_join JInner k1a k1b A (rel_join JInner k2a k2b B C)).
  Proof.
    simpl. unfold rel_inner. rewrite !inner_rows_J2, J2_left_nested, J2_right_nested.
    apply teq_bag_eq. apply T3_teq.
    - intros a b c Ha Hb Hc. rewrite chain_m1 by auto.
      destruct (matches k1a k1b a b) eqn:M; simpl.
      + rewrite chain_m2 by auto. now rewrite andb_true_r.
      + now rewrite andb_false_r.
    - intros. apply row_union_assoc.
  Qed.
End Chain.

(* ==================================================================================================== *)
(* 1b. star  B -k1- A -k2- C  with both links anchored at A : (A |x| B) |x| C  =  (A |x| C) |x| B *)

Section Star.
  Variables k1a k1b k2a k2b : list col.
  Variables A B C : table.
  Hypothesis P1 : keys_present k1a A = true.
  Hypothesis P2 : keys_present k2a A = true.
  Hypothesis S : star_ok A B C = true.

  Lemma star_key : forall ks a r, keys_present ks A = true -> In a A -> key_of ks (row_union a r) = key_of ks a.
  Proof. intros ks a r HP Ha. apply key_of_row_union_left. intros x Hx. exact (keys_present_spec ks A a x HP Ha Hx). Qed.

  Lemma inner_star_comm_l :
    bag_eq (rel_join JInner k2a k2b (rel_join JInner k1a k1b A B) C)
           (rel_join JInner k1a k1b (rel_join JInner k2a k2b A C) B).
  Proof.
    simpl. unfold rel_inner. rewrite !inner_rows_J2, !J2_left_nested.
    eapply bag_eq_trans; [apply perm_bag_eq; apply T3_swap23|].
    apply teq_bag_eq. apply T3_teq.
    - intros a c b Ha Hc Hb. unfold matches. rewrite !star_key by auto. apply andb_comm.
    - intros a c b Ha Hc Hb _. eapply row_union_star; eauto.
  Qed.
End Star.

(* ==================================================================================================== *)
(* congruence of the operators for REARRANGEMENTS of their inputs (Permutation level).
   Note: rel_join is NOT a congruence for bag_eq / row_equiv of its inputs: row_union asks `has_col`, and a row
   that binds x to null is row_equiv to a row that does not bind x, yet the former shadows x of the right row.
   This is why the results below are proved through explicit comprehension forms and not by rewriting
   bag_eq facts under an outer join. *)

Lemma bag_eq_flat_map : forall (X : Type) (f g : X -> table) l,
  (forall x, In x l -> bag_eq (f x) (g x)) -> bag_eq (flat_map f l) (flat_map g l).
Proof.
  induction l as [|x t IH]; simpl; intros H; [apply bag_eq_refl|].
  apply bag_eq_app; auto.
Qed.

Lemma map_as_flat_map_l : forall (X Y : Type) (f : X -> Y) l, map f l = flat_map (fun x => [f x]) l.
Proof. induction l; simpl; congruence. Qed.

Lemma flat_map_map_l : forall (X Y Z : Type) (f : X -> Y) (g : Y -> list Z) l,
  flat_map g (map f l) = flat_map (fun x => g (f x)) l.
Proof. induction l; simpl; congruence. Qed.

Lemma flat_map_ext_in_l : forall (X Y : Type) (f g : X -> list Y) l,
  (forall x, In x l -> f x = g x) -> flat_map f l = flat_map g l.
Proof.
  induction l as [|x t IH]; simpl; intros H; auto.
  rewrite H by auto. rewrite IH; auto.
Qed.

Lemma existsb_ext_l : forall (X : Type) (p q : X -> bool) l, (forall x, p x = q x) -> existsb p l = existsb q l.
Proof. induction l; simpl; intros; auto. now rewrite H, IHl. Qed.

Lemma left_nested_perm_l : forall lk rk L L' R,
  Permutation L L' -> Permutation (left_nested lk rk L R) (left_nested lk rk L' R).
Proof. intros. unfold left_nested. now apply Permutation_flat_map. Qed.

(* ==================================================================================================== *)
(* 3b. left-join star: (A left B) left C  =  (A left C) left B, both links anchored at A *)

Section LeftStar.
  Variables k1a k1b k2a k2b : list col.
  Variables A B C : table.
  Hypothesis P1 : keys_present k1a A = true.
  Hypothesis P2 : keys_present k2a A = true.
  Hypothesis S : star_ok A B C = true.

  (* what one left row contributes to a left join *)
  Definition expand (lk rk : list col) (R : table) (x : row) : table :=
    if existsb (matches lk rk x) R then map (fun r => row_union x r) (filter (matches lk rk x) R)
    else [pad (table_cols R) x].

  Lemma left_nested_expand : forall lk rk L R, left_nested lk rk L R = flat_map (expand lk rk R) L.
  Proof. reflexivity. Qed.

  Lemma expand_in_key : forall ks lk rk R a x,
    keys_present ks A = true -> In a A -> In x (expand lk rk R a) -> key_of ks x = key_of ks a.
  Proof.
    intros ks lk rk R a x HP Ha Hx.
    assert (F : forall c, mem c ks = true -> has_col c a = true) by (intros c Hc; exact (keys_present_spec ks A a c HP Ha Hc)).
    unfold expand in Hx. destruct (existsb (matches lk rk a) R).
    - apply in_map_iff in Hx. destruct Hx as [r [<- _]]. now apply key_of_row_union_left.
    - destruct Hx as [<-|[]]. now apply key_of_pad.
  Qed.

  (* an expansion of a by one link is expanded by the other link exactly as a itself *)
  Lemma expand_other : forall lk rk lk' rk' R R' a x,
    keys_present lk' A = true -> In a A -> In x (expand lk rk R a) ->
    expand lk' rk' R' x =
    if existsb (matches lk' rk' a) R' then map (fun r => row_union x r) (filter (matches lk' rk' a) R')
    else [pad (table_cols R') x].
  Proof.
    intros lk rk lk' rk' R R' a x HP Ha Hx. unfold expand at 1.
    assert (E : forall r, matches lk' rk' x r = matches lk' rk' a r).
    { intro r. unfold matches. now rewrite (expand_in_key lk' lk rk R a x HP Ha Hx). }
    rewrite (existsb_ext_l _ _ _ R' E), (filter_ext _ _ E). reflexivity.
  Qed.

  Lemma pad_row_union_equiv : forall T T' a r, star_ok A T T' = true \/ star_ok A T' T = true ->
    In a A -> In r T ->
    row_equiv (pad (table_cols T') (row_union a r)) (row_union (pad (table_cols T') a) r).
  Proof.
    intros T T' a r SS Ha Hr x.
    rewrite (pad_equiv (table_cols T') (row_union a r) x), !get_row_union, has_col_pad, (pad_equiv (table_cols T') a x).
    destruct (has_col x a) eqn:Xa; simpl; auto.
    destruct (mem x (table_cols T')) eqn:M; auto.
    rewrite (get_no_col x a Xa). destruct (has_col x r) eqn:Xr; [|now apply get_no_col].
    pose proof (has_col_table_cols x r T Hr Xr) as HT.
    destruct SS as [SS|SS].
    - rewrite (star_ok_spec A T T' x a SS Ha HT M) in Xa. discriminate.
    - rewrite (star_ok_spec A T' T x a SS Ha M HT) in Xa. discriminate.
  Qed.

  Lemma cross_swap : forall (f g : row -> row -> row) (Bm Cm : table),
    (forall b c, In b Bm -> In c Cm -> row_equiv (f b c) (g c b)) ->
    bag_eq (flat_map (fun b => map (fun c => f b c) Cm) Bm) (flat_map (fun c => map (fun b => g c b) Bm) Cm).
  Proof.
    intros f g Bm Cm H.
    eapply bag_eq_trans.
    - apply teq_bag_eq. apply teq_flat_map. intros b Hb. apply teq_map. intros c Hc. apply (H b c Hb Hc).
    - apply perm_bag_eq.
      rewrite (flat_map_ext (fun b => map (fun c => g c b) Cm) (fun b => flat_map (fun c => [g c b]) Cm))
        by (intro; apply map_as_flat_map_l).
      rewrite (flat_map_ext (fun c => map (fun b => g c b) Bm) (fun c => flat_map (fun b => [g c b]) Bm))
        by (intro; apply map_as_flat_map_l).
      apply (flat_map_swap _ _ _ (fun b c => [g c b])).
  Qed.

  Lemma left_star_per_row : forall a, In a A ->
    bag_eq (flat_map (expand k2a k2b C) (expand k1a k1b B a))
           (flat_map (expand k1a k1b B) (expand k2a k2b C a)).
  Proof.
    intros a Ha.
    rewrite (flat_map_ext_in_l _ _ _ (fun x => if existsb (matches k2a k2b a) C
                                           then map (fun r => row_union x r) (filter (matches k2a k2b a) C)
                                           else [pad (table_cols C) x]) (expand k1a k1b B a))
      by (intros x Hx; apply (expand_other k1a k1b k2a k2b B C a x P2 Ha Hx)).
    rewrite (flat_map_ext_in_l _ _ _ (fun x => if existsb (matches k1a k1b a) B
                                           then map (fun r => row_union x r) (filter (matches k1a k1b a) B)
                                           else [pad (table_cols B) x]) (expand k2a k2b C a))
      by (intros x Hx; apply (expand_other k2a k2b k1a k1b C B a x P1 Ha Hx)).
    unfold expand.
    destruct (existsb (matches k1a k1b a) B) eqn:E1, (existsb (matches k2a k2b a) C) eqn:E2.
    - rewrite !flat_map_map_l. apply cross_swap. intros b c Hb Hc.
      apply filter_In in Hb. apply filter_In in Hc. destruct Hb, Hc. eapply row_union_star; eauto.
    - rewrite flat_map_map_l. simpl. rewrite app_nil_r.
      rewrite <- map_as_flat_map_l. apply teq_bag_eq. apply teq_map. intros b Hb.
      apply filter_In in Hb. destruct Hb. apply (pad_row_union_equiv B C); auto.
    - rewrite flat_map_map_l. simpl. rewrite app_nil_r.
      rewrite <- map_as_flat_map_l. apply teq_bag_eq. apply teq_map. intros c Hc.
      apply filter_In in Hc. destruct Hc. apply row_equiv_sym. apply (pad_row_union_equiv C B); auto.
    - simpl. apply teq_bag_eq. apply teq_single.
      eapply row_equiv_trans; [apply pad_equiv|]. eapply row_equiv_trans; [apply pad_equiv|].
      apply row_equiv_sym. eapply row_equiv_trans; [apply pad_equiv|]. apply pad_equiv.
  Qed.

  Lemma left_star_comm_l :
    bag_eq (rel_join JLeft k2a k2b (rel_join JLeft k1a k1b A B) C)
           (rel_join JLeft k1a k1b (rel_join JLeft k2a k2b A C) B).
  Proof.
    simpl.
    assert (N : forall la ra lb rb X Y Z,
              Permutation (rel_left lb rb (rel_left la ra X Y) Z)
                          (flat_map (fun x => flat_map (expand lb rb Z) (expand la ra Y x)) X)).
    { intros. eapply perm_trans; [apply Permutation_sym; apply left_nested_perm|].
      eapply perm_trans; [apply left_nested_perm_l; apply Permutation_sym; apply left_nested_perm|].
      rewrite !left_nested_expand, flat_map_flat_map. apply Permutation_refl. }
    eapply bag_eq_trans; [apply perm_bag_eq; apply N|].
    eapply bag_eq_trans; [|apply perm_bag_eq; apply Permutation_sym; apply N].
    apply bag_eq_flat_map. apply left_star_per_row.
  Qed.
End LeftStar.

(* ==================================================================================================== *)
(* 2. three tables, tree = path A -k1- B -k2- C : every admissible execution order (which link first, and for each
      step which side is the left operand) gives the same bag *)

Lemma subset_overlap_free_l : forall lk rk L L' R,
  (forall c, mem c (table_cols L') = true -> mem c (table_cols L) = true) ->
  overlap_free lk rk L R = true -> overlap_free lk rk L' R = true.
Proof.
  intros lk rk L L' R H O. apply overlap_free_spec. intros c H1 H2.
  apply (proj1 (overlap_free_spec _ _ _ _) O); auto.
Qed.

Lemma subset_overlap_free_r : forall lk rk L R R',
  (forall c, mem c (table_cols R') = true -> mem c (table_cols R) = true) ->
  overlap_free lk rk L R = true -> overlap_free lk rk L R' = true.
Proof.
  intros lk rk L R R' H O. apply overlap_free_spec. intros c H1 H2.
  apply (proj1 (overlap_free_spec _ _ _ _) O); auto.
Qed.

Lemma table_cols_app : forall c X Y, mem c (table_cols (X ++ Y)) = mem c (table_cols X) || mem c (table_cols Y).
Proof. intros. unfold table_cols. now rewrite flat_map_app, mem_app. Qed.

Lemma table_cols_inner : forall lk rk L R c,
  mem c (table_cols (inner_rows lk rk L R)) = true -> mem c (table_cols L) = true \/ mem c (table_cols R) = true.
Proof.
  intros lk rk L R c H. apply mem_in in H. unfold table_cols in H. apply in_flat_map in H.
  destruct H as [x [Hx Hc]]. unfold inner_rows in Hx. apply in_flat_map in Hx. destruct Hx as [l [Hl Hx]].
  apply in_map_iff in Hx. destruct Hx as [r [<- Hr]]. apply filter_In in Hr. destruct Hr as [Hr _].
  apply mem_in in Hc. change (has_col c (row_union l r) = true) in Hc. rewrite has_col_row_union in Hc.
  apply orb_true_iff in Hc. destruct Hc as [Hc|Hc]; [left|right]; eapply has_col_table_cols; eauto.
Qed.

Inductive orient := Fwd | Rev.
(* one inner-join step with either operand on the left *)
Definition jn (o : orient) (lk rk : list col) (L R : table) : table :=
  match o with Fwd => rel_join JInner lk rk L R | Rev => rel_join JInner rk lk R L end.

Section Chain3.
  Variables k1a k1b k2a k2b : list col.
  Variables A B C : table.
  Hypothesis OFa : overlap_free k1a k1b A (B ++ C) = true.
  Hypothesis OFc : overlap_free k2a k2b (A ++ B) C = true.
  Hypothesis P1 : keys_present k1b B = true.
  Hypothesis P2 : keys_present k2a B = true.

  Definition chain_plan (link1_first : bool) (o_in o_out : orient) : table :=
    if link1_first then jn o_out k2a k2b (jn o_in k1a k1b A B) C
    else jn o_out k1a k1b A (jn o_in k2a k2b B C).

  Lemma OFab : overlap_free k1a k1b A B = true.
  Proof.
    apply (subset_overlap_free_r k1a k1b A (B ++ C) B); auto.
    intros c H. rewrite table_cols_app, H. reflexivity.
  Qed.

  Lemma OFbc : overlap_free k2a k2b B C = true.
  Proof.
    apply (subset_overlap_free_l k2a k2b (A ++ B) B C); auto.
    intros c H. rewrite table_cols_app, H. apply orb_true_r.
  Qed.

  Lemma row_union_comm_ext : forall lk rk L R l r c,
    overlap_free lk rk L R = true -> In l L -> In r R -> matches lk rk l r = true ->
    row_equiv (row_union (row_union l r) c) (row_union (row_union r l) c).
  Proof.
    intros lk rk L R l r c O Hl Hr M x. rewrite !get_row_union, !has_col_row_union.
    rewrite (orb_comm (has_col x r)). rewrite <- !get_row_union.
    now rewrite (row_union_comm lk rk L R l r O Hl Hr M x).
  Qed.

  (* link 1 first, inner step reversed: (B |x| A) |x| C *)
  Lemma plan_RF : bag_eq (chain_plan true Rev Fwd) (chain_plan true Fwd Fwd).
  Proof.
    unfold chain_plan, jn. simpl. unfold rel_inner. rewrite !inner_rows_J2, !J2_left_nested.
    apply bag_eq_sym. eapply bag_eq_trans; [apply perm_bag_eq; apply T3_swap12|].
    apply teq_bag_eq. apply T3_teq.
    - intros b a c Hb Ha Hc. rewrite (matches_swap k1b k1a b a).
      destruct (matches k1a k1b a b) eqn:M; simpl; auto.
      rewrite (chain_m2 k1a k1b k2a k2b A B OFab P2 a b c Ha Hb M).
      unfold matches at 2. rewrite key_of_row_union_left; [reflexivity|].
      intros x Hx. exact (keys_present_spec k2a B b x P2 Hb Hx).
    - intros b a c Hb Ha Hc M. apply andb_true_iff in M. destruct M as [M _].
      apply (row_union_comm_ext k1a k1b A B a b c OFab Ha Hb M).
  Qed.

  (* link 2 first, inner step reversed: A |x| (C |x| B) *)
  Lemma plan_2RF : bag_eq (chain_plan false Rev Fwd) (chain_plan false Fwd Fwd).
  Proof.
    unfold chain_plan, jn. simpl. unfold rel_inner. rewrite !inner_rows_J2, !J2_right_nested.
    apply bag_eq_sym. eapply bag_eq_trans; [apply perm_bag_eq; apply T3_swap23|].
    apply teq_bag_eq. apply T3_teq.
    - intros a c b Ha Hc Hb. rewrite (matches_swap k2b k2a c b).
      destruct (matches k2a k2b b c) eqn:M; simpl; auto.
      rewrite (chain_m1 k1a k1b B P1 a b c Hb).
      unfold matches. rewrite (key_of_row_union_right k1b c b); [reflexivity|].
      intros x Hx Hxc. symmetry. unfold matches in M. apply keys_match_spec in M. destruct M as [E _].
      apply (shared_key_get k2a k2b x b c); [|exact E].
      apply (proj1 (overlap_free_spec _ _ _ _) OFbc).
      + exact (has_col_table_cols x b B Hb (keys_present_spec k1b B b x P1 Hb Hx)).
      + exact (has_col_table_cols x c C Hc Hxc).
    - intros a c b Ha Hc Hb M. apply andb_true_iff in M. destruct M as [M _]. intro x.
      rewrite !get_row_union. destruct (has_col x a); auto.
      rewrite <- !get_row_union. apply (row_union_comm k2a k2b B C b c OFbc Hb Hc M x).
  Qed.

  (* reversing the outer step is commutativity of the inner join of the two operands *)
  Lemma plan_out1 : forall o, bag_eq (chain_plan true o Rev) (chain_plan true o Fwd).
  Proof.
    intro o. unfold chain_plan. unfold jn at 1 3. apply bag_eq_sym. apply rel_inner_comm.
    apply (subset_overlap_free_l k2a k2b (A ++ B)); auto.
    intros c H. rewrite table_cols_app. destruct o; simpl in H; apply table_cols_inner in H; destruct H as [H|H];
      rewrite H; auto using orb_true_r.
  Qed.

  Lemma plan_out2 : forall o, bag_eq (chain_plan false o Rev) (chain_plan false o Fwd).
  Proof.
    intro o. unfold chain_plan. unfold jn at 1 3. apply bag_eq_sym. apply rel_inner_comm.
    apply (subset_overlap_free_r k1a k1b A (B ++ C)); auto.
    intros c H. rewrite table_cols_app. destruct o; simpl in H; apply table_cols_inner in H; destruct H as [H|H];
      rewrite H; auto using orb_true_r.
  Qed.

  Lemma plan_assoc : bag_eq (chain_plan true Fwd Fwd) (chain_plan false Fwd Fwd).
  Proof. unfold chain_plan, jn. apply inner_chain_assoc_l; auto using OFab. Qed.

  Lemma plan_canonical : forall f o1 o2, bag_eq (chain_plan f o1 o2) (chain_plan true Fwd Fwd).
  Proof.
    intros f o1 o2.
    assert (X : bag_eq (chain_plan f o1 o2) (chain_plan f o1 Fwd)).
    { destruct o2; [apply bag_eq_refl|]. destruct f; [apply plan_out1 | apply plan_out2]. }
    eapply bag_eq_trans; [exact X|]. clear X.
    destruct f, o1.
    - apply bag_eq_refl.
    - apply plan_RF.
    - apply bag_eq_sym. apply plan_assoc.
    - eapply bag_eq_trans; [apply plan_2RF|]. apply bag_eq_sym. apply plan_assoc.
  Qed.

  Lemma inner_tree3_order_independent_l : forall f o1 o2 f' o1' o2',
    bag_eq (chain_plan f o1 o2) (chain_plan f' o1' o2').
  Proof.
    intros. eapply bag_eq_trans; [apply plan_canonical|]. apply bag_eq_sym. apply plan_canonical.
  Qed.
End Chain3.

(* ==================================================================================================== *)
(* 4. row counts *)

Lemma filter_length_le_l : forall (X : Type) (p : X -> bool) l, List.length (filter p l) <= List.length l.
Proof. induction l; simpl; auto. destruct (p a); simpl; lia. Qed.

Lemma inner_count_le_l : forall lk rk L R,
  List.length (rel_join JInner lk rk L R) <= List.length L * List.length R.
Proof.
  intros. simpl. unfold rel_inner, inner_rows. induction L as [|l t IH]; simpl; auto.
  rewrite app_length, map_length. pose proof (filter_length_le_l _ (matches lk rk l) R). lia.
Qed.

Lemma existsb_filter_pos : forall (X : Type) (p : X -> bool) l, existsb p l = true -> 1 <= List.length (filter p l).
Proof.
  induction l as [|x t IH]; simpl; intro H; [discriminate|].
  destruct (p x); simpl in *; [lia | auto].
Qed.

Lemma left_count_ge_l : forall lk rk L R, List.length L <= List.length (rel_join JLeft lk rk L R).
Proof.
  intros. simpl. rewrite <- (Permutation_length (left_nested_perm lk rk L R)).
  unfold left_nested. induction L as [|l t IH]; simpl; auto.
  rewrite app_length. destruct (existsb (matches lk rk l) R) eqn:E; simpl; [|lia].
  rewrite map_length. pose proof (existsb_filter_pos _ _ _ E). lia.
Qed.

Lemma unique_filter_le1 : forall rk R k,
  unique_match_keys rk R = true -> List.length (filter (fun r => keys_match k (key_of rk r)) R) <= 1.
Proof.
  induction R as [|r t IH]; simpl; intros k U; auto.
  apply andb_true_iff in U. destruct U as [U1 U2]. apply negb_true_iff in U1.
  destruct (keys_match k (key_of rk r)) eqn:M; simpl; auto.
  assert (Z : filter (fun r0 => keys_match k (key_of rk r0)) t = []).
  { apply filter_none. destruct (existsb (fun r0 => keys_match k (key_of rk r0)) t) eqn:X; auto.
    apply existsb_exists in X. destruct X as [r' [Hr' M']].
    apply keys_match_spec in M. apply keys_match_spec in M'. destruct M as [E1 N], M' as [E2 _].
    assert (Y : existsb (fun r' => keys_match (key_of rk r) (key_of rk r')) t = true).
    { apply existsb_exists. exists r'. split; auto. apply keys_match_spec. split; congruence. }
    congruence. }
  rewrite Z. simpl. lia.
Qed.

Lemma left_count_unique_l : forall lk rk L R,
  unique_match_keys rk R = true -> List.length (rel_join JLeft lk rk L R) = List.length L.
Proof.
  intros lk rk L R U. simpl. rewrite <- (Permutation_length (left_nested_perm lk rk L R)).
  unfold left_nested. induction L as [|l t IH]; simpl; auto.
  rewrite app_length, IH. destruct (existsb (matches lk rk l) R) eqn:E; simpl; auto.
  rewrite map_length. pose proof (existsb_filter_pos _ _ _ E).
  pose proof (unique_filter_le1 rk R (key_of lk l) U). unfold matches in *. lia.
Qed.

(* ==================================================================================================== *)
(* 3a. left / outer joins are not order independent in general: kernel-checked witnesses *)

Lemma bag_neq_l : forall a b, bag_eqb a b = false -> ~ bag_eq a b.
Proof. intros a b H E. apply bag_eqb_spec in E. congruence. Qed.

Open Scope Z_scope.
Definition tA : table := [[("ka", VInt 1); ("a", VInt 10)]].
Definition tB : table := [[("kb", VInt 1); ("jb", VInt 7); ("b", VInt 20)]].
Definition tC : table := [[("jc", VInt 5); ("c", VInt 30)]].
Definition tC7 : table := [[("jc", VInt 7); ("c", VInt 30)]; [("jc", VInt 7); ("c", VInt 31)]].

(* (i) a left join is not symmetric in its operands; (ii) an inner link after a left link: (A left B) |x| C differs
   from A left (B |x| C); (iii) two left links into the same table B: C left (A left B) differs from A left (C left B);
   (iv) the same as (ii) with a full outer link *)
Lemma left_not_order_independent_l :
  ~ bag_eq (rel_join JLeft ["ka"] ["kb"] tA []) (rel_join JLeft ["kb"] ["ka"] [] tA) /\
  ~ bag_eq (rel_join JInner ["jb"] ["jc"] (rel_join JLeft ["ka"] ["kb"] tA tB) tC)
           (rel_join JLeft ["ka"] ["kb"] tA (rel_join JInner ["jb"] ["jc"] tB tC)) /\
  ~ bag_eq (rel_join JLeft ["jc"] ["jb"] tC (rel_join JLeft ["ka"] ["kb"] tA []))
           (rel_join JLeft ["ka"] ["kb"] tA (rel_join JLeft ["jc"] ["jb"] tC [])) /\
  ~ bag_eq (rel_join JInner ["jb"] ["jc"] (rel_join JOuter ["ka"] ["kb"] tA tB) tC)
           (rel_join JOuter ["ka"] ["kb"] tA (rel_join JInner ["jb"] ["jc"] tB tC)).
Proof. repeat split; apply bag_neq_l; vm_compute; reflexivity. Qed.

(* the premises are satisfiable, on an instance where every operator has matched and unmatched rows *)
Definition eA : table := [[("ka", VInt 1); ("ja", VInt 7); ("a", VInt 10)]; [("ka", VInt 2); ("ja", VNull); ("a", VInt 11)];
                          [("ka", VInt 1); ("ja", VInt 8); ("a", VInt 12)]].
Definition eB : table := [[("kb", VInt 1); ("jb", VInt 7); ("b", VInt 20)]; [("kb", VInt 1); ("jb", VInt 9); ("b", VInt 21)];
                          [("kb", VInt 3); ("jb", VInt 7); ("b", VNull)]].

Lemma premises_satisfiable_l :
  (* chain eA -ka=kb- eB -jb=jc- tC7 *)
  overlap_free ["ka"] ["kb"] eA (eB ++ tC7) = true /\ overlap_free ["jb"] ["jc"] (eA ++ eB) tC7 = true /\
  keys_present ["kb"] eB = true /\ keys_present ["jb"] eB = true /\
  map canon (rel_join JInner ["jb"] ["jc"] (rel_join JInner ["ka"] ["kb"] eA eB) tC7) =
    [ [("a", VInt 10); ("b", VInt 20); ("c", VInt 30); ("ja", VInt 7); ("jb", VInt 7); ("jc", VInt 7); ("ka", VInt 1); ("kb", VInt 1)];
      [("a", VInt 10); ("b", VInt 20); ("c", VInt 31); ("ja", VInt 7); ("jb", VInt 7); ("jc", VInt 7); ("ka", VInt 1); ("kb", VInt 1)];
      [("a", VInt 12); ("b", VInt 20); ("c", VInt 30); ("ja", VInt 8); ("jb", VInt 7); ("jc", VInt 7); ("ka", VInt 1); ("kb", VInt 1)];
      [("a", VInt 12); ("b", VInt 20); ("c", VInt 31); ("ja", VInt 8); ("jb", VInt 7); ("jc", VInt 7); ("ka", VInt 1); ("kb", VInt 1)] ] /\
  (* star eB <-kb=ka- eA -ja=jc-> tC7 *)
  keys_present ["ka"] eA = true /\ keys_present ["ja"] eA = true /\ star_ok eA eB tC7 = true /\
  List.length (rel_join JLeft ["ja"] ["jc"] (rel_join JLeft ["ka"] ["kb"] eA eB) tC7) = 7%nat /\
  (* unique right keys *)
  unique_match_keys ["jb"] [[("jb", VInt 1)]; [("jb", VNull)]; [("jb", VNull)]; [("jb", VInt 2)]] = true /\
  unique_match_keys ["kb"] eB = false.
Proof. vm_compute. repeat split; reflexivity. Qed.

(* observation on this instance only: the pure left chain and the pure outer chain are associative here *)
Lemma pure_chains_agree_l :
  bag_eqb (rel_join JLeft ["jb"] ["jc"] (rel_join JLeft ["ka"] ["kb"] eA eB) tC7)
          (rel_join JLeft ["ka"] ["kb"] eA (rel_join JLeft ["jb"] ["jc"] eB tC7)) = true /\
  bag_eqb (rel_join JOuter ["jb"] ["jc"] (rel_join JOuter ["ka"] ["kb"] eA eB) tC7)
          (rel_join JOuter ["ka"] ["kb"] eA (rel_join JOuter ["jb"] ["jc"] eB tC7)) = true.
Proof. vm_compute. split; reflexivity. Qed.
