(* Proofs about Model/SessionLive.v: with private plan copies (copies = true, the code) every live run of a session is
   invariant under every interleaving with the other runs; the variants that share the step objects are refuted. *)
From Coq Require Import List Bool Arith ZArith String Lia.
Import ListNotations.
Require Import MV.Model.Orch MV.Model.Session MV.Model.SessionLive MV.Spec.SessionLiveSpec MV.Proofs.OrchP.
Open Scope list_scope.

(* ---------- lists ---------- *)
Lemma nth_error_set_nth_eq : forall (A : Type) (l : list A) i x,
  nth_error (set_nth l i x) i = match nth_error l i with Some _ => Some x | None => None end.
Proof.
  induction l as [|y l IH]; intros [|i] x; cbn; try reflexivity. apply IH.
Qed.

Lemma nth_error_set_nth_neq : forall (A : Type) (l : list A) i j x, i <> j ->
  nth_error (set_nth l j x) i = nth_error l i.
Proof.
  induction l as [|y l IH]; intros [|i] [|j] x H; cbn; try reflexivity; try congruence.
  apply IH. congruence.
Qed.

Lemma length_set_nth : forall (A : Type) (l : list A) i x, List.length (set_nth l i x) = List.length l.
Proof. induction l as [|y l IH]; intros [|i] x; cbn; try reflexivity. f_equal. apply IH. Qed.

Lemma nth_error_snoc_here : forall (A : Type) (l : list A) x, nth_error (l ++ [x]) (List.length l) = Some x.
Proof. induction l as [|y l IH]; intros x; cbn; [reflexivity | apply IH]. Qed.

Lemma nth_error_len_none : forall (A : Type) (l : list A), nth_error l (List.length l) = None.
Proof. induction l as [|y l IH]; cbn; [reflexivity | exact IH]. Qed.

Lemma nth_error_snoc_other : forall (A : Type) (l : list A) x i, i <> List.length l ->
  nth_error (l ++ [x]) i = nth_error l i.
Proof.
  induction l as [|y l IH]; intros x [|i] H; cbn in *; try reflexivity; try congruence.
  - destruct i; reflexivity.
  - apply IH. congruence.
Qed.

(* ---------- one operation: frame and projection ---------- *)
Definition next_n (n : nat) (o : lop) : nat := match o with LOpen _ _ _ _ => S n | _ => n end.

Lemma lstep_frame : forall reset s o,
  v_plan (lstep true reset s o) = v_plan s /\ v_api (lstep true reset s o) = v_api s /\
  v_flags (lstep true reset s o) = v_flags s /\
  List.length (v_runs (lstep true reset s o)) = next_n (List.length (v_runs s)) o.
Proof.
  intros reset s [st a il f | i e | i]; cbn [lstep next_n].
  - cbn. rewrite app_length. cbn. repeat split; lia.
  - destruct (nth_error (v_runs s) i) as [r|]; [|repeat split; reflexivity].
    destruct (l_closed r); [repeat split; reflexivity|]. cbn. rewrite length_set_nth. repeat split; reflexivity.
  - destruct (nth_error (v_runs s) i) as [r|]; [|repeat split; reflexivity].
    cbn. rewrite length_set_nth. repeat split; reflexivity.
Qed.

Lemma lstep_proj : forall reset s o i,
  nth_error (v_runs (lstep true reset s o)) i =
  sexec reset (v_plan s) (v_api s) (v_flags s) (nth_error (v_runs s) i) (solo i (List.length (v_runs s)) [o]).
Proof.
  intros reset s [st a il f | j e | j] i; cbn [lstep solo].
  - destruct (Nat.eqb (List.length (v_runs s)) i) eqn:E.
    + apply Nat.eqb_eq in E. subst i. cbn [v_runs sexec fold_left].
      rewrite nth_error_snoc_here, nth_error_len_none. reflexivity.
    + apply Nat.eqb_neq in E. cbn [v_runs sexec fold_left].
      apply nth_error_snoc_other. congruence.
  - destruct (Nat.eqb j i) eqn:E.
    + apply Nat.eqb_eq in E. subst j. cbn [sexec fold_left sstep].
      destruct (nth_error (v_runs s) i) as [r|] eqn:Hr; [|exact Hr].
      destruct (l_closed r); [exact Hr|]. cbn [v_runs]. rewrite nth_error_set_nth_eq, Hr. reflexivity.
    + apply Nat.eqb_neq in E. cbn [sexec fold_left].
      destruct (nth_error (v_runs s) j) as [r|]; [|reflexivity].
      destruct (l_closed r); [reflexivity|]. cbn [v_runs]. apply nth_error_set_nth_neq. congruence.
  - destruct (Nat.eqb j i) eqn:E.
    + apply Nat.eqb_eq in E. subst j. cbn [sexec fold_left sstep].
      destruct (nth_error (v_runs s) i) as [r|] eqn:Hr; [|exact Hr].
      cbn [v_runs]. rewrite nth_error_set_nth_eq, Hr. reflexivity.
    + apply Nat.eqb_neq in E. cbn [sexec fold_left].
      destruct (nth_error (v_runs s) j) as [r|]; [|reflexivity].
      cbn [v_runs]. apply nth_error_set_nth_neq. congruence.
Qed.

Lemma solo_cons : forall i n o t, solo i n (o :: t) = solo i n [o] ++ solo i (next_n n o) t.
Proof.
  intros i n [st a il f | j e | j] t; cbn [solo next_n].
  - destruct (Nat.eqb n i); reflexivity.
  - destruct (Nat.eqb j i); reflexivity.
  - destruct (Nat.eqb j i); reflexivity.
Qed.

(* ---------- invariance under interleaving ---------- *)
(* for EVERY interleaved history (any number of runs, any order of their events, opens and closes anywhere) and every run
   number i: run i of the session is the run that the alone machine produces from the part of the history that concerns i *)
Lemma live_interleaving_invariant_l : forall reset ops s i,
  nth_error (v_runs (lexec true reset s ops)) i =
  sexec reset (v_plan s) (v_api s) (v_flags s) (nth_error (v_runs s) i) (solo i (List.length (v_runs s)) ops).
Proof.
  intros reset ops. induction ops as [|o t IH]; intros s i; [reflexivity|].
  unfold lexec in *. cbn [fold_left]. rewrite IH, solo_cons.
  destruct (lstep_frame reset s o) as (Hp & Ha & Hf & Hl). rewrite Hp, Ha, Hf, Hl, lstep_proj.
  unfold sexec. rewrite fold_left_app. reflexivity.
Qed.

Lemma live_prepared_l : forall reset p a0 ops i,
  nth_error (v_runs (lexec true reset (lprepare p a0) ops)) i = sexec reset p a0 [] None (solo i 0 ops).
Proof.
  intros. rewrite (live_interleaving_invariant_l reset ops (lprepare p a0) i). cbn [lprepare v_plan v_api v_flags v_runs List.length].
  destruct i; reflexivity.
Qed.

(* two interleavings that agree on what concerns run i leave run i in the same state *)
Lemma live_interleavings_agree_l : forall reset p a0 ops1 ops2 i, solo i 0 ops1 = solo i 0 ops2 ->
  nth_error (v_runs (lexec true reset (lprepare p a0) ops1)) i = nth_error (v_runs (lexec true reset (lprepare p a0) ops2)) i.
Proof. intros reset p a0 ops1 ops2 i H. rewrite !live_prepared_l, H. reflexivity. Qed.

(* the session's own flags are never written *)
Lemma live_master_flags_l : forall reset ops s, v_flags (lexec true reset s ops) = v_flags s.
Proof.
  intros reset ops. induction ops as [|o t IH]; intros s; [reflexivity|].
  unfold lexec in *. cbn [fold_left]. rewrite IH. apply lstep_frame.
Qed.

(* ---------- the alone machine is an ordinary orchestrator run ---------- *)
Lemma sexec_some : forall reset p a0 fl sops x r, sexec reset p a0 fl (Some x) sops = Some r ->
  l_stream r = l_stream x /\ l_inline r = l_inline x /\ l_fails r = l_fails x /\ l_api r = l_api x /\
  l_st r = fold_left (apply (l_stream x) (l_inline x) (memf (l_fails x)) p)
                     (if l_closed x then [] else sevents true sops) (l_st x).
Proof.
  intros reset p a0 fl sops. induction sops as [|o t IH]; intros x r H.
  - cbn in H. injection H as <-. destruct (l_closed x); repeat split; reflexivity.
  - unfold sexec in *. cbn [fold_left] in H. destruct o as [st a il f | e | ]; cbn [sstep] in H.
    + apply IH in H. cbn [sevents]. exact H.
    + destruct (l_closed x) eqn:Hc.
      * apply IH in H. rewrite Hc in H. exact H.
      * apply IH in H. cbn [with_st l_stream l_inline l_fails l_api l_st l_closed] in H. rewrite Hc in H.
        cbn [sevents fold_left]. exact H.
    + apply IH in H. cbn [close_run l_stream l_inline l_fails l_api l_st l_closed] in H.
      cbn [sevents]. destruct (l_closed x); exact H.
Qed.

Lemma sexec_none : forall reset p a0 fl sops r, sexec reset p a0 fl None sops = Some r ->
  l_st r = orun (if reset then [] else fl) (l_stream r) (l_inline r) (memf (l_fails r)) p (sevents false sops).
Proof.
  intros reset p a0 fl sops. induction sops as [|o t IH]; intros r H; [discriminate|].
  unfold sexec in *. cbn [fold_left] in H. destruct o as [st a il f | e | ]; cbn [sstep] in H.
  - apply sexec_some in H. cbn [new_run l_stream l_inline l_fails l_api l_st l_closed] in H.
    destruct H as (H1 & H2 & H3 & _ & H5). rewrite H1, H2, H3, H5. reflexivity.
  - apply IH in H. exact H.
  - apply IH in H. exact H.
Qed.

(* every live run of a prepared session is the orchestrator run on its own events, and -- if it is a streamed run -- has
   yielded exactly what the batch loop has collected on the same events, in the same loop state *)
Lemma live_runs_equal_batch_l : forall reset p a0 ops i r,
  nth_error (v_runs (lexec true reset (lprepare p a0) ops)) i = Some r ->
  let es := sevents false (solo i 0 ops) in
  l_st r = run (l_stream r) (l_inline r) (memf (l_fails r)) p es /\
  (l_stream r = true ->
     yielded (l_st r) = results (run false (l_inline r) (memf (l_fails r)) p es) /\
     loop_head p (l_st r) = loop_head p (run false (l_inline r) (memf (l_fails r)) p es)).
Proof.
  intros reset p a0 ops i r H es. rewrite live_prepared_l in H. apply sexec_none in H.
  assert (E : l_st r = run (l_stream r) (l_inline r) (memf (l_fails r)) p es).
  { rewrite H. destruct reset; reflexivity. }
  split; [exact E|]. intros Hs. rewrite E, Hs. apply stream_equals_batch_l.
Qed.

Lemma lexec_cons : forall c r s o t, lexec c r s (o :: t) = lexec c r (lstep c r s o) t.
Proof. reflexivity. Qed.
Lemma lexec_app : forall c r s a b, lexec c r s (a ++ b) = lexec c r (lexec c r s a) b.
Proof. intros. unfold lexec. apply fold_left_app. Qed.

(* ---------- the variants that share the step objects ---------- *)
Definition fg (i : nat) (r : list nat) : step := {| sid := i; skind := KFG; uuids := [S i]; req := r; requested := true |}.
Definition chain3 : plan := [fg 0 []; fg 1 [1]; fg 2 [2]].

(* the history of seed C13_r5 in SYNC: 2 items of stream 1 (three loop iterations), stream 2 is opened and gives 1 item (two
   iterations), stream 1 is resumed *)
Definition ops_overlap : list lop :=
  [LOpen true None true []; LStep 0 EScan; LStep 0 EScan; LStep 0 EScan;
   LOpen true None true []; LStep 1 EScan; LStep 1 EScan].

(* shared flags that are reset at every open: stream 1 has executed step 2 but not yet processed it; the reset takes the flag
   away, nobody will execute step 2 for stream 1 again: after any number of further iterations stream 1 is still looping and has
   yielded 2 of its 3 items ... *)
(* d: the `done` field of stream 1's own state, which the shared variant does not use *)
Definition stuck (d : list nat) (k : nat) : live :=
  {| v_plan := chain3; v_api := None; v_flags := [1; 0];
     v_runs := [ {| l_stream := true; l_inline := true; l_fails := []; l_api := None;
                    l_st := {| finished := [2; 1]; running := [3]; started := [(2, ([2; 1], [1; 0])); (1, ([1], [0])); (0, ([], []))];
                               done := d; failed := []; results := []; yielded := [1; 0]; scans := k |};
                    l_closed := false |};
                 {| l_stream := true; l_inline := true; l_fails := []; l_api := None;
                    l_st := {| finished := [1]; running := [2]; started := [(1, ([1], [0])); (0, ([], []))];
                               done := [1; 0]; failed := []; results := []; yielded := [0]; scans := 2 |};
                    l_closed := false |} ] |}.

Lemma stuck_reached : lexec false true (lprepare chain3 None) ops_overlap = stuck [2; 1; 0] 3.
Proof. vm_compute. reflexivity. Qed.

Lemma stuck_step : forall d k, lstep false true (stuck d k) (LStep 0 EScan) = stuck [1; 0] (S k).
Proof. intros d k. reflexivity. Qed.

Lemma stuck_forever : forall n d k, exists d', lexec false true (stuck d k) (repeat (LStep 0 EScan) n) = stuck d' (n + k).
Proof.
  induction n as [|n IH]; intros d k; [exists d; reflexivity|].
  cbn [repeat]. rewrite lexec_cons, stuck_step. destruct (IH [1; 0] (S k)) as (d' & E).
  exists d'. rewrite E. f_equal. lia.
Qed.

(* ... whereas with private copies one further iteration of stream 1 ends it with all 3 items (and later ones change nothing) *)
Definition finished_state : live := Eval vm_compute in lexec true true (lprepare chain3 None) (ops_overlap ++ [LStep 0 EScan]).

Lemma finished_reached : lexec true true (lprepare chain3 None) (ops_overlap ++ [LStep 0 EScan]) = finished_state.
Proof. vm_compute. reflexivity. Qed.



Lemma finished_fix : lstep true true finished_state (LStep 0 EScan) = finished_state.
Proof. vm_compute. reflexivity. Qed.

Lemma finished_forever : forall n, lexec true true finished_state (repeat (LStep 0 EScan) n) = finished_state.
Proof.
  induction n as [|n IH]; [reflexivity|]. cbn [repeat]. rewrite lexec_cons, finished_fix. exact IH.
Qed.

Lemma live_shared_reset_refuted_l : forall n,
  (exists r, nth_error (v_runs (lexec false true (lprepare chain3 None) (ops_overlap ++ repeat (LStep 0 EScan) n))) 0 = Some r /\
             run_status chain3 r = Looping /\ run_items r = [0; 1]) /\
  (exists r, nth_error (v_runs (lexec true true (lprepare chain3 None) (ops_overlap ++ repeat (LStep 0 EScan) (S n)))) 0 = Some r /\
             run_status chain3 r = ExitNormal /\ run_items r = [0; 1; 2]).
Proof.
  intros n. split.
  - rewrite lexec_app, stuck_reached.
    destruct (stuck_forever n [2; 1; 0] 3) as (d' & E). rewrite E.
    eexists. split; [reflexivity|]. split; reflexivity.
  - change (repeat (LStep 0 EScan) (S n)) with ([LStep 0 EScan] ++ repeat (LStep 0 EScan) n). rewrite app_assoc.
    rewrite lexec_app, finished_reached, finished_forever.
    eexists. split; [reflexivity|]. split; reflexivity.
Qed.

(* shared flags without a reset, THREADING: stream 1 has executed and processed step 0 (its worker completed: flag 0 set);
   stream 2 starts step 0 on its own worker and, one iteration later and WITHOUT that worker having completed, finds the flag
   set: it collects and yields the result of a calculation that is still running.  With private copies it yields nothing. *)
Definition ops_stale : list lop :=
  [LOpen true None false []; LStep 0 EScan; LStep 0 (EDone 0 true); LStep 0 EScan;
   LOpen true None false []; LStep 1 EScan; LStep 1 EScan].

Lemma live_shared_flags_refuted_l :
  (exists r, nth_error (v_runs (lexec false false (lprepare chain3 None) ops_stale)) 1 = Some r /\
             run_items r = [0] /\ sevents false (solo 1 0 ops_stale) = [EScan; EScan]) /\
  (exists r, nth_error (v_runs (lexec true false (lprepare chain3 None) ops_stale)) 1 = Some r /\ run_items r = []).
Proof. split; eexists; vm_compute; repeat split; reflexivity. Qed.
