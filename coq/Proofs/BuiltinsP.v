(* C19 lemmas: statistics over exact rationals (aggregation vocabulary), vocabulary table. *)
From Coq Require Import QArith Qabs List Bool Arith ZArith String Lia Lqa Permutation.
Import ListNotations.
Require Import MV.Spec.Builtins MV.Model.BuiltinsFw MV.Gen.Vocab.
Open Scope Q_scope.

(* equality of optional rationals up to == *)
Definition oq_eq (a b : option Q) : Prop :=
  match a, b with None, None => True | Some x, Some y => x == y | _, _ => False end.

Lemma qlen_cons : forall x l, qlen (x :: l) == 1 + qlen l.
Proof.
  intros. unfold qlen. cbn [List.length]. rewrite Nat2Z.inj_succ, <- Z.add_1_l, inject_Z_plus. reflexivity.
Qed.
Lemma qlen_nonneg : forall l, 0 <= qlen l.
Proof. intros. unfold qlen. change 0 with (inject_Z 0). rewrite <- Zle_Qle. lia. Qed.
Lemma qlen_pos : forall x l, 0 < qlen (x :: l).
Proof. intros. rewrite qlen_cons. pose proof (qlen_nonneg l). lra. Qed.

Lemma qmin_le_l : forall a b, qmin a b <= a.
Proof. intros. unfold qmin. destruct (Qle_bool a b) eqn:E. lra. 
  assert (~ a <= b) by (intro H; apply Qle_bool_iff in H; congruence). lra. Qed.
Lemma qmin_le_r : forall a b, qmin a b <= b.
Proof. intros. unfold qmin. destruct (Qle_bool a b) eqn:E. apply Qle_bool_iff in E; lra. lra. Qed.
Lemma qmax_ge_l : forall a b, a <= qmax a b.
Proof. intros. unfold qmax. destruct (Qle_bool a b) eqn:E. apply Qle_bool_iff in E; lra. lra. Qed.
Lemma qmax_ge_r : forall a b, b <= qmax a b.
Proof. intros. unfold qmax. destruct (Qle_bool a b) eqn:E. lra.
  assert (~ a <= b) by (intro H; apply Qle_bool_iff in H; congruence). lra. Qed.
Lemma qmin_cases : forall a b, qmin a b = a \/ qmin a b = b.
Proof. intros. unfold qmin. destruct (Qle_bool a b); auto. Qed.
Lemma qmax_cases : forall a b, qmax a b = a \/ qmax a b = b.
Proof. intros. unfold qmax. destruct (Qle_bool a b); auto. Qed.

Lemma fold_qmin_le : forall t x y, In y (x :: t) -> fold_right qmin x t <= y.
Proof.
  induction t as [|z t IH]; intros x y H; cbn.
  - destruct H as [<-|[]]. lra.
  - destruct H as [<-|[<-|H]].
    + eapply Qle_trans. apply qmin_le_r. apply IH. left; auto.
    + apply qmin_le_l.
    + eapply Qle_trans. apply qmin_le_r. apply IH. right; auto.
Qed.
Lemma fold_qmax_ge : forall t x y, In y (x :: t) -> y <= fold_right qmax x t.
Proof.
  induction t as [|z t IH]; intros x y H; cbn.
  - destruct H as [<-|[]]. lra.
  - destruct H as [<-|[<-|H]].
    + eapply Qle_trans. 2: apply qmax_ge_r. apply IH. left; auto.
    + apply qmax_ge_l.
    + eapply Qle_trans. 2: apply qmax_ge_r. apply IH. right; auto.
Qed.
Lemma fold_qmin_in : forall t x, In (fold_right qmin x t) (x :: t).
Proof.
  induction t as [|z t IH]; intros x; cbn. auto.
  destruct (qmin_cases z (fold_right qmin x t)) as [-> | ->]. auto.
  destruct (IH x) as [H|H]; cbn; auto.
Qed.
Lemma fold_qmax_in : forall t x, In (fold_right qmax x t) (x :: t).
Proof.
  induction t as [|z t IH]; intros x; cbn. auto.
  destruct (qmax_cases z (fold_right qmax x t)) as [-> | ->]. auto.
  destruct (IH x) as [H|H]; cbn; auto.
Qed.

Lemma min_l_spec : forall l a, min_l l = Some a -> In a l /\ forall y, In y l -> a <= y.
Proof.
  intros [|x t] a H; inversion H; subst. split. apply fold_qmin_in. intros. apply fold_qmin_le; auto.
Qed.
Lemma max_l_spec : forall l a, max_l l = Some a -> In a l /\ forall y, In y l -> y <= a.
Proof.
  intros [|x t] a H; inversion H; subst. split. apply fold_qmax_in. intros. apply fold_qmax_ge; auto.
Qed.

Lemma qsum_lower : forall l a, (forall y, In y l -> a <= y) -> qlen l * a <= qsum l.
Proof.
  induction l as [|x t IH]; intros a H.
  - change (qlen []) with 0. change (qsum []) with 0. lra.
  - rewrite qlen_cons. cbn [qsum fold_right]. fold (qsum t).
    assert (a <= x) by (apply H; left; auto). assert (qlen t * a <= qsum t) by (apply IH; intros; apply H; right; auto).
    lra.
Qed.
Lemma qsum_upper : forall l a, (forall y, In y l -> y <= a) -> qsum l <= qlen l * a.
Proof.
  induction l as [|x t IH]; intros a H.
  - change (qlen []) with 0. change (qsum []) with 0. lra.
  - rewrite qlen_cons. cbn [qsum fold_right]. fold (qsum t).
    assert (x <= a) by (apply H; left; auto). assert (qsum t <= qlen t * a) by (apply IH; intros; apply H; right; auto).
    lra.
Qed.

Lemma min_le_mean_le_max_l : forall l a m b,
  min_l l = Some a -> mean_l l = Some m -> max_l l = Some b -> a <= m /\ m <= b.
Proof.
  intros l a m b Ha Hm Hb. destruct l as [|x t]; [discriminate|].
  apply min_l_spec in Ha. apply max_l_spec in Hb. destruct Ha as [_ Ha], Hb as [_ Hb].
  cbn in Hm. inversion Hm; subst m. clear Hm.
  pose proof (qlen_pos x t) as Hp. pose proof (qsum_lower _ _ Ha). pose proof (qsum_upper _ _ Hb).
  split.
  - apply Qle_shift_div_l; auto. rewrite Qmult_comm. assumption.
  - apply Qle_shift_div_r; auto. rewrite Qmult_comm. assumption.
Qed.

(* ---- permutation invariance ---- *)
Lemma qsum_perm : forall l l', Permutation l l' -> qsum l == qsum l'.
Proof.
  induction 1; cbn [qsum fold_right] in *; try fold (qsum l) in *; try fold (qsum l') in *.
  - reflexivity.
  - rewrite IHPermutation. reflexivity.
  - ring.
  - etransitivity; eauto.
Qed.
Lemma qlen_perm : forall l l', Permutation l l' -> qlen l = qlen l'.
Proof. intros. unfold qlen. erewrite Permutation_length; eauto. Qed.

Lemma vals_perm : forall c c', Permutation c c' -> Permutation (vals c) (vals c').
Proof.
  induction 1; cbn.
  - constructor.
  - destruct x; auto.
  - destruct x, y; auto. constructor.
  - etransitivity; eauto.
Qed.

Lemma mean_perm : forall l l', Permutation l l' -> oq_eq (mean_l l) (mean_l l').
Proof.
  intros l l' H. destruct l as [|x t], l' as [|y u]; cbn.
  - exact I.
  - apply Permutation_nil in H. discriminate.
  - apply Permutation_sym, Permutation_nil in H. discriminate.
  - rewrite (qsum_perm _ _ H), (qlen_perm _ _ H). reflexivity.
Qed.

Lemma min_perm : forall l l', Permutation l l' -> oq_eq (min_l l) (min_l l').
Proof.
  intros l l' H. destruct (min_l l) as [a|] eqn:Ea, (min_l l') as [b|] eqn:Eb; cbn.
  - apply min_l_spec in Ea, Eb. destruct Ea as [Ia La], Eb as [Ib Lb].
    assert (a <= b) by (apply La; eapply Permutation_in; [apply Permutation_sym|]; eauto).
    assert (b <= a) by (apply Lb; eapply Permutation_in; eauto). lra.
  - destruct l' as [|? ?]; [|discriminate]. apply Permutation_sym, Permutation_nil in H. subst. discriminate.
  - destruct l as [|? ?]; [|discriminate]. apply Permutation_nil in H. subst. discriminate.
  - exact I.
Qed.
Lemma max_perm : forall l l', Permutation l l' -> oq_eq (max_l l) (max_l l').
Proof.
  intros l l' H. destruct (max_l l) as [a|] eqn:Ea, (max_l l') as [b|] eqn:Eb; cbn.
  - apply max_l_spec in Ea, Eb. destruct Ea as [Ia La], Eb as [Ib Lb].
    assert (b <= a) by (apply La; eapply Permutation_in; [apply Permutation_sym|]; eauto).
    assert (a <= b) by (apply Lb; eapply Permutation_in; eauto). lra.
  - destruct l' as [|? ?]; [|discriminate]. apply Permutation_sym, Permutation_nil in H. subst. discriminate.
  - destruct l as [|? ?]; [|discriminate]. apply Permutation_nil in H. subst. discriminate.
  - exact I.
Qed.

Lemma sqdev_compat : forall m m' x, m == m' -> sqdev m x == sqdev m' x.
Proof. intros. unfold sqdev. rewrite H. reflexivity. Qed.
Lemma qsum_map_compat : forall (f g : Q -> Q) l, (forall x, f x == g x) -> qsum (map f l) == qsum (map g l).
Proof.
  induction l; intros; cbn [map qsum fold_right]. reflexivity.
  fold (qsum (map f l)). fold (qsum (map g l)). rewrite H, IHl; auto. reflexivity.
Qed.

Lemma var_perm : forall d l l', Permutation l l' -> oq_eq (var_l d l) (var_l d l').
Proof.
  intros d l l' H. unfold var_l. rewrite (Permutation_length H).
  destruct (List.length l' <=? d)%nat; cbn; [exact I|].
  rewrite (qlen_perm _ _ H).
  assert (E : qsum (map (sqdev (qsum l / qlen l')) l) == qsum (map (sqdev (qsum l' / qlen l')) l')).
  { rewrite (qsum_perm _ _ (Permutation_map _ H)).
    apply qsum_map_compat. intros. apply sqdev_compat. rewrite (qsum_perm _ _ H). reflexivity. }
  rewrite E. reflexivity.
Qed.

Definition perm_invariant_op (op : aggop) : bool := match op with AMedian => false | _ => true end.

Lemma agg_perm_l : forall op c c', perm_invariant_op op = true -> Permutation c c' ->
  oq_eq (agg_spec op c) (agg_spec op c').
Proof.
  intros op c c' Hop H. apply vals_perm in H. unfold agg_spec.
  destruct op; try discriminate.
  - destruct (vals c) as [|x t] eqn:E1, (vals c') as [|y u] eqn:E2; cbn.
    + exact I.
    + apply Permutation_nil in H. discriminate.
    + apply Permutation_sym, Permutation_nil in H. discriminate.
    + apply (qsum_perm _ _ H).
  - apply min_perm; auto.
  - apply max_perm; auto.
  - apply mean_perm; auto.
  - cbn. rewrite (qlen_perm _ _ H). reflexivity.
  - apply var_perm; auto.
  - apply var_perm; auto.
Qed.

(* ---- variance ---- *)
Lemma qsum_nonneg : forall l, (forall x, In x l -> 0 <= x) -> 0 <= qsum l.
Proof.
  induction l; intros; cbn [qsum fold_right]. lra. fold (qsum l).
  assert (0 <= a) by (apply H; left; auto). assert (0 <= qsum l) by (apply IHl; intros; apply H; right; auto). lra.
Qed.
Lemma sq_nonneg : forall y : Q, 0 <= y * y.
Proof.
  intros y. destruct (Qlt_le_dec y 0).
  - assert (0 <= - y) by lra. assert (0 <= (- y) * (- y)) by (apply Qmult_le_0_compat; auto).
    assert ((- y) * (- y) == y * y) by ring. lra.
  - apply Qmult_le_0_compat; auto.
Qed.
Lemma sqdev_nonneg : forall m x, 0 <= sqdev m x.
Proof. intros. unfold sqdev. apply sq_nonneg. Qed.

Lemma var_nonneg_l : forall d l v, var_l d l = Some v -> 0 <= v.
Proof.
  intros d l v H. unfold var_l in H. destruct (List.length l <=? d)%nat eqn:E; [discriminate|]. inversion H; subst; clear H.
  apply Nat.leb_gt in E.
  assert (0 < qlen l - inject_Z (Z.of_nat d)).
  { unfold qlen, Qminus. rewrite <- inject_Z_opp, <- inject_Z_plus. change 0 with (inject_Z 0). rewrite <- Zlt_Qlt. lia. }
  apply Qle_shift_div_l; auto.
  assert (0 <= qsum (map (sqdev (qsum l / qlen l)) l)).
  { apply qsum_nonneg. intros x Hx. apply in_map_iff in Hx. destruct Hx as [y [<- _]]. apply sqdev_nonneg. }
  lra.
Qed.

(* sample and population variance: (n-1) s = n p; they coincide exactly on constant data *)
Lemma var_sample_pop_l : forall l s p, var_l 1 l = Some s -> var_l 0 l = Some p ->
  (qlen l - 1) * s == qlen l * p.
Proof.
  intros l s p Hs Hp. unfold var_l in *.
  destruct (List.length l <=? 1)%nat eqn:E1; [discriminate|]. destruct (List.length l <=? 0)%nat eqn:E0; [discriminate|].
  inversion Hs; inversion Hp; subst; clear Hs Hp.
  apply Nat.leb_gt in E1.
  assert (Hlt : inject_Z (Z.of_nat 1) < qlen l) by (unfold qlen; rewrite <- Zlt_Qlt; lia).
  change (inject_Z (Z.of_nat 1)) with 1 in Hlt.
  assert (H1 : ~ qlen l - 1 == 0) by (intro; lra).
  assert (H0 : ~ qlen l == 0) by (intro; lra).
  change (inject_Z (Z.of_nat 1)) with 1. change (inject_Z (Z.of_nat 0)) with 0.
  field. auto.
Qed.

Lemma var_conventions_agree_iff_l : forall l s p, var_l 1 l = Some s -> var_l 0 l = Some p ->
  (s == p <-> p == 0).
Proof.
  intros l s p Hs Hp. pose proof (var_sample_pop_l _ _ _ Hs Hp) as H.
  assert (2 <= qlen l).
  { unfold var_l in Hs. destruct (List.length l <=? 1)%nat eqn:E1; [discriminate|]. apply Nat.leb_gt in E1.
    assert (inject_Z 2 <= qlen l) by (unfold qlen; rewrite <- Zle_Qle; lia). exact H0. }
  split; intro E.
  - rewrite E in H. nra.
  - rewrite E in H. assert (s == 0) by nra. lra.
Qed.

(* ---- framework conventions agree with the spec outside their domains ---- *)
Lemma agg_pop_same_l : forall op c, op <> AStd -> op <> AVar -> agg_pop op c = agg_spec op c.
Proof. intros. destruct op; try reflexivity; congruence. Qed.
Lemma agg_pd_same_l : forall op c, (op <> ASum \/ vals c <> []) -> agg_pd_sum0 op c = agg_spec op c.
Proof. intros op c [H|H]; unfold agg_pd_sum0; destruct op, (vals c); try reflexivity; congruence. Qed.

(* ---- vocabulary (T1) ---- *)
Definition mem (s : string) (l : list string) : bool := existsb (String.eqb s) l.
Definition ob_eqb (a : option bool) (b : bool) : bool := match a with Some x => Bool.eqb x b | None => false end.
Definition all_grp : list grp := [GAgg; GImp; GWin; GClean].
Definition spec_vocab (g : grp) : list string :=
  match g with GAgg => agg_vocab | GImp => imp_vocab | GWin => win_vocab | GClean => clean_vocab end.

Definition perform_ok : bool :=
  forallb (fun g => forallb (fun f => forallb (fun op => ob_eqb (gen_perform g f op) (mem op (gen_base_vocab g)))
                                             gen_universe) (gen_impls g)) all_grp.
Definition match_ok : bool :=
  forallb (fun g => forallb (fun f => forallb (fun op => ob_eqb (gen_match g f op) true) (gen_base_vocab g))
                            (gen_declared g)) all_grp.
Definition ob_same (a b : option bool) : bool :=
  match a, b with Some x, Some y => Bool.eqb x y | _, _ => false end.
Definition match_uniform_ok : bool :=
  forallb (fun g => forallb (fun f => forallb (fun f' => forallb (fun op => ob_same (gen_match g f op) (gen_match g f' op))
                                                               gen_universe) (gen_declared g)) (gen_declared g)) all_grp.
Definition vocab_ok : bool :=
  forallb (fun g => forallb (fun op => mem op (spec_vocab g)) (gen_base_vocab g)
                    && forallb (fun op => mem op (gen_base_vocab g)) (spec_vocab g)
                    && forallb (fun op => mem op gen_universe) (gen_base_vocab g)
                    && (2 <=? List.length (gen_impls g))%nat) all_grp.

Lemma ob_eqb_true : forall a b, ob_eqb a b = true -> a = Some b.
Proof. intros [[]|] []; cbn; intros; congruence. Qed.
Lemma in_all_grp : forall g, In g all_grp.
Proof. intros []; cbn; auto. Qed.

Lemma perform_ok_true : perform_ok = true.
Proof. vm_compute. reflexivity. Qed.
Lemma match_ok_true : match_ok = true.
Proof. vm_compute. reflexivity. Qed.
Lemma match_uniform_ok_true : match_uniform_ok = true.
Proof. vm_compute. reflexivity. Qed.
Lemma vocab_ok_true : vocab_ok = true.
Proof. vm_compute. reflexivity. Qed.

Lemma vocab_perform_l : forall g f op, In f (gen_impls g) -> In op gen_universe ->
  gen_perform g f op = Some (mem op (gen_base_vocab g)).
Proof.
  intros g f op Hf Hop. pose proof perform_ok_true as H. unfold perform_ok in H.
  rewrite forallb_forall in H. specialize (H g (in_all_grp g)). rewrite forallb_forall in H. specialize (H f Hf).
  rewrite forallb_forall in H. apply ob_eqb_true. apply H. exact Hop.
Qed.
Lemma vocab_match_l : forall g f op, In f (gen_declared g) -> In op (gen_base_vocab g) -> gen_match g f op = Some true.
Proof.
  intros g f op Hf Hop. pose proof match_ok_true as H. unfold match_ok in H.
  rewrite forallb_forall in H. specialize (H g (in_all_grp g)). rewrite forallb_forall in H. specialize (H f Hf).
  rewrite forallb_forall in H. apply ob_eqb_true. apply H. exact Hop.
Qed.
Lemma vocab_match_uniform_l : forall g f f' op, In f (gen_declared g) -> In f' (gen_declared g) -> In op gen_universe ->
  gen_match g f op = gen_match g f' op /\ gen_match g f op <> None.
Proof.
  intros g f f' op Hf Hf' Hop. pose proof match_uniform_ok_true as H. unfold match_uniform_ok in H.
  rewrite forallb_forall in H. specialize (H g (in_all_grp g)). rewrite forallb_forall in H. specialize (H f Hf).
  rewrite forallb_forall in H. specialize (H f' Hf'). rewrite forallb_forall in H. specialize (H op Hop).
  destruct (gen_match g f op) as [[]|], (gen_match g f' op) as [[]|]; cbn in H; try discriminate; split; congruence.
Qed.
Lemma mem_true_iff : forall s l, mem s l = true <-> In s l.
Proof.
  intros. unfold mem. rewrite existsb_exists. split.
  - intros [x [Hx E]]. apply String.eqb_eq in E. subst. exact Hx.
  - intros H. exists s. split; auto. apply String.eqb_refl.
Qed.
Lemma spec_covers_vocab_l : forall g op, In op (gen_base_vocab g) <-> In op (spec_vocab g).
Proof.
  intros g op. pose proof vocab_ok_true as H. unfold vocab_ok in H. rewrite forallb_forall in H.
  specialize (H g (in_all_grp g)). repeat (apply andb_true_iff in H; destruct H as [H ?]).
  rewrite forallb_forall in H, H2. split; intros Hin.
  - apply mem_true_iff. apply H. exact Hin.
  - apply mem_true_iff. apply H2. exact Hin.
Qed.
Lemma two_implementations_l : forall g, (2 <= List.length (gen_impls g))%nat.
Proof.
  intros g. pose proof vocab_ok_true as H. unfold vocab_ok in H. rewrite forallb_forall in H.
  specialize (H g (in_all_grp g)). repeat (apply andb_true_iff in H; destruct H as [H ?]). apply Nat.leb_le. assumption.
Qed.


(* ---- median: sorting two permutations of a list gives pointwise equal (==) lists ---- *)
Lemma F2_refl : forall l : list Q, Forall2 Qeq l l.
Proof. induction l; constructor; auto. reflexivity. Qed.
Lemma F2_trans : forall a b c : list Q, Forall2 Qeq a b -> Forall2 Qeq b c -> Forall2 Qeq a c.
Proof.
  intros a b c H. revert c. induction H; intros c H2; inversion H2; subst; constructor; auto. etransitivity; eauto.
Qed.
Lemma qle_bool_false : forall x y, Qle_bool x y = false -> y < x.
Proof. intros x y H. apply Qnot_le_lt. intro H2. apply Qle_bool_iff in H2. congruence. Qed.
Lemma qle_bool_compat : forall x y y', y == y' -> Qle_bool x y = Qle_bool x y'.
Proof.
  intros x y y' E. destruct (Qle_bool x y) eqn:A, (Qle_bool x y') eqn:B; auto.
  - apply Qle_bool_iff in A. apply qle_bool_false in B. lra.
  - apply Qle_bool_iff in B. apply qle_bool_false in A. lra.
Qed.

Lemma insert_compat : forall x a b, Forall2 Qeq a b -> Forall2 Qeq (insert x a) (insert x b).
Proof.
  intros x a b H. induction H as [|y y' a b E H IH]; cbn [insert]. constructor. reflexivity. constructor.
  rewrite (qle_bool_compat x y y' E). destruct (Qle_bool x y').
  - constructor. reflexivity. constructor; auto.
  - constructor; auto.
Qed.

Lemma insert_two : forall x y t, Forall2 Qeq (if Qle_bool x y then x :: y :: t else y :: x :: t)
                                            (if Qle_bool y x then y :: x :: t else x :: y :: t).
Proof.
  intros. destruct (Qle_bool x y) eqn:A, (Qle_bool y x) eqn:B.
  - apply Qle_bool_iff in A, B. assert (x == y) by lra. repeat constructor; auto. symmetry; auto. apply F2_refl.
  - apply F2_refl.
  - apply F2_refl.
  - apply qle_bool_false in A, B. lra.
Qed.

Lemma insert_comm : forall s x y, Forall2 Qeq (insert x (insert y s)) (insert y (insert x s)).
Proof.
  induction s as [|z t IH]; intros x y.
  - cbn [insert]. destruct (Qle_bool x y) eqn:A, (Qle_bool y x) eqn:B; cbn [insert]; rewrite ?A, ?B.
    + apply Qle_bool_iff in A, B. assert (x == y) by lra. repeat constructor; auto. symmetry; auto.
    + apply F2_refl.
    + apply F2_refl.
    + apply qle_bool_false in A, B. lra.
  - cbn [insert]. destruct (Qle_bool y z) eqn:Y, (Qle_bool x z) eqn:X; cbn [insert]; rewrite ?X, ?Y.
    + apply insert_two.
    + assert (Qle_bool x y = false).
      { destruct (Qle_bool x y) eqn:A; auto. apply Qle_bool_iff in A, Y. apply qle_bool_false in X. lra. }
      rewrite H. cbn [insert]. rewrite ?X, ?Y. apply F2_refl.
    + assert (Qle_bool y x = false).
      { destruct (Qle_bool y x) eqn:A; auto. apply Qle_bool_iff in A, X. apply qle_bool_false in Y. lra. }
      rewrite H. cbn [insert]. rewrite ?X, ?Y. apply F2_refl.
    + constructor. reflexivity. apply IH.
Qed.

Lemma sortq_perm : forall l l', Permutation l l' -> Forall2 Qeq (sortq l) (sortq l').
Proof.
  induction 1.
  - constructor.
  - cbn. apply insert_compat. exact IHPermutation.
  - cbn. apply insert_comm.
  - eapply F2_trans; eauto.
Qed.

Lemma F2_length : forall a b : list Q, Forall2 Qeq a b -> List.length a = List.length b.
Proof. induction 1; cbn; auto. Qed.
Lemma F2_nth : forall (a b : list Q) k, Forall2 Qeq a b -> nth k a 0 == nth k b 0.
Proof.
  intros a b k H. revert k. induction H; intros [|k]; cbn; auto; reflexivity.
Qed.

Lemma median_perm : forall l l', Permutation l l' -> oq_eq (median_l l) (median_l l').
Proof.
  intros l l' H. apply sortq_perm in H. unfold median_l. rewrite (F2_length _ _ H).
  destruct (List.length (sortq l')) as [|n]; cbn [oq_eq]. exact I.
  destruct (Nat.even (S n)); cbn [oq_eq].
  - rewrite (F2_nth _ _ (S n / 2 - 1) H), (F2_nth _ _ (S n / 2) H). reflexivity.
  - apply F2_nth. exact H.
Qed.

Lemma agg_perm_all_l : forall op c c', Permutation c c' -> oq_eq (agg_spec op c) (agg_spec op c').
Proof.
  intros op c c' H. destruct op; try (apply agg_perm_l; auto; reflexivity).
  apply vals_perm in H. cbn [agg_spec]. apply median_perm. exact H.
Qed.
