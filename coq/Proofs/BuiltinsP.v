(* C19 lemmas (aggregation, vocabulary). *)
From Coq Require Import QArith Qabs List Bool Arith ZArith String Lia.
Import ListNotations.
Require Import MV.Spec.Builtins MV.Gen.Vocab.

Definition mem (s : string) (l : list string) : bool := existsb (String.eqb s) l.
Definition ob_eqb (a : option bool) (b : bool) : bool := match a with Some x => Bool.eqb x b | None => false end.
