From Coq Require Import List Bool.
Import ListNotations.
Require Import MV.Spec.Types MV.Model.Validate MV.Gen.TypeTables.
Require Export MV.Model.CodeTables.

Lemma strict_table_matches : forall d a, gen_strict d a = Some (strict_spec d a).
Proof. intros d a; destruct d, a; vm_compute; reflexivity. Qed.

Lemma lenient_table_matches : forall d a, gen_lenient d a = Some (lenient_spec d a).
Proof. intros d a; destruct d, a; vm_compute; reflexivity. Qed.

Lemma from_arrow_matches : forall a, gen_from_arrow a = Some (from_arrow_spec a).
Proof. intros a; destruct a; vm_compute; reflexivity. Qed.

Lemma no_extra_dtypes : gen_extra_dtypes = 0.
Proof. vm_compute; reflexivity. Qed.


Lemma code_strict_eq : forall d a, code_strict d a = strict_spec d a.
Proof. intros; unfold code_strict; rewrite strict_table_matches; reflexivity. Qed.
Lemma code_lenient_eq : forall d a, code_lenient d a = lenient_spec d a.
Proof. intros; unfold code_lenient; rewrite lenient_table_matches; reflexivity. Qed.

(* The decision made by validate, over the regenerated relations, is exactly the documented one. *)
Lemma validate_decision_l : forall c,
  validate_raises code_strict code_lenient c = true <->
  exists d a, v_declared c = Some d /\ v_present c = true /\ v_actual c = Some a /\
              (if strict_mode (v_strict c) then strict_spec d a else lenient_spec d a) = false.
Proof.
  intros [decl pres act st]; unfold validate_raises; cbn [v_declared v_present v_actual v_strict].
  split.
  - destruct decl as [d|]; [|discriminate]. destruct pres; cbn [negb]; [|discriminate].
    destruct act as [a|]; [|discriminate]. intros H. exists d, a. repeat split.
    rewrite code_strict_eq, code_lenient_eq in H. destruct (strict_mode st); apply negb_true_iff in H; exact H.
  - intros (d & a & Hd & Hp & Ha & Hc). rewrite Hd, Hp, Ha. cbn [negb].
    rewrite code_strict_eq, code_lenient_eq. destruct (strict_mode st); rewrite Hc; reflexivity.
Qed.

Lemma undeclared_never_checked_l : forall s l c, v_declared c = None -> validate_raises s l c = false.
Proof. intros s l c H; unfold validate_raises; rewrite H; reflexivity. Qed.

(* strict is a sub-relation of lenient: strict enforcement only ever rejects more *)
Lemma strict_implies_lenient_l : forall d a, strict_spec d a = true -> lenient_spec d a = true.
Proof. intros d a; destruct d, a; vm_compute; intros H; try reflexivity; discriminate. Qed.

Lemma api_flag_forces_strict_l : forall d s, strict_mode (propagate_strict true (Some d) s) = true.
Proof. reflexivity. Qed.
Lemma api_flag_every_requested_l : forall d s, strict_mode (propagate_strict true d s) = true.
Proof. reflexivity. Qed.
Lemma api_flag_off_identity_l : forall d s, propagate_strict false d s = s.
Proof. reflexivity. Qed.
Lemma api_flag_untyped_untouched_l : forall b s, propagate_strict_old b None s = s.
Proof. destruct b; reflexivity. Qed.

Lemma set_data_type_conflict_l : forall a b,
  set_data_type (Some a) (Some b) = inr tt <-> a <> b.
Proof.
  intros a b; unfold set_data_type; split.
  - destruct (dtype_eqb a b) eqn:E; [discriminate|]. intros _ ->. destruct b; discriminate.
  - intros H. destruct (dtype_eqb a b) eqn:E; [|reflexivity]. exfalso; apply H. destruct a, b; try discriminate; reflexivity.
Qed.
