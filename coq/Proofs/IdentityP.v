(* equal objects have equal hash keys: Feature, Link, Index, SingleFilter (C15). *)
From Coq Require Import List Bool ZArith String Arith Lia Permutation.
Import ListNotations.
Require Import MV.Model.Options MV.Model.Identity MV.Spec.OptionsSpec MV.Proofs.OptionsP MV.Proofs.CanonP.
Open Scope Z_scope.

Definition wf_opts (s : ostate) : Prop := wfv (VDict (og s)) /\ nofs (VDict (og s)).
Definition wf_feat (a : feat) : Prop :=
  wf_opts (f_opt a) /\ match f_child a with Some c => wf_opts c | None => True end.

Lemma opt_eq_hash_l : forall a b ha hb, wf_opts a -> wf_opts b ->
  opt_eq a b = true -> opt_hash_key a = Some ha -> opt_hash_key b = Some hb -> py_eq ha hb = true.
Proof.
  intros a b ha hb [Hwa Hna] [Hwb Hnb] Heq Ha Hb. unfold opt_eq, opt_hash_key in *.
  exact (hash_key_respects_eq_l _ _ _ _ Hwa Hwb Hna Hnb Heq Ha Hb).
Qed.

Lemma py_eq_nat : forall n m, py_eq (VInt (Z.of_nat n)) (VInt (Z.of_nat m)) = Nat.eqb n m.
Proof.
  intros n m. cbn. destruct (Nat.eqb_spec n m) as [->|H]; [apply Z.eqb_refl|]. apply Z.eqb_neq. lia.
Qed.

Lemma feat_eq_hash_l : forall a b ha hb, wf_feat a -> wf_feat b ->
  feat_eq a b = Some true -> feat_hkey a = Some ha -> feat_hkey b = Some hb -> py_eq ha hb = true.
Proof.
  intros a b ha hb [Hwa Hca] [Hwb Hcb] Heq Ha Hb. unfold feat_eq in Heq.
  destruct (String.eqb (f_name a) (f_name b)) eqn:En; cbn [negb] in Heq; [|discriminate].
  destruct (opt_eq (f_opt a) (f_opt b)) eqn:Eo; cbn [negb] in Heq; [|discriminate].
  destruct (py_eq (VDict (oc (f_opt a))) (VDict (oc (f_opt b)))); cbn [negb] in Heq; [|discriminate].
  destruct (dom_eq (f_domain a) (f_domain b)) as [[|]|] eqn:Ed; try discriminate.
  injection Heq as Heq. apply andb_true_iff in Heq. destruct Heq as [Heq Hch].
  apply andb_true_iff in Heq. destruct Heq as [Hcf Hdt].
  unfold feat_hkey in Ha, Hb.
  destruct (opt_hash_key (f_opt a)) as [hoa|] eqn:Eha; [|discriminate].
  destruct (opt_hash_key (f_opt b)) as [hob|] eqn:Ehb; [|discriminate].
  pose proof (opt_eq_hash_l _ _ _ _ Hwa Hwb Eo Eha Ehb) as Ho.
  assert (Hdom : py_eq (opt_val VStr (f_domain a)) (opt_val VStr (f_domain b)) = true).
  { destruct (f_domain a), (f_domain b); cbn in Ed; try discriminate; [injection Ed as Ed; exact Ed | reflexivity]. }
  destruct (f_child a) as [ca|] eqn:Eca, (f_child b) as [cb|] eqn:Ecb; cbn in Hch; try discriminate.
  - destruct (opt_hash_key ca) as [hca|] eqn:E1; [|discriminate]. destruct (opt_hash_key cb) as [hcb|] eqn:E2; [|discriminate].
    injection Ha as <-. injection Hb as <-.
    pose proof (opt_eq_hash_l _ _ _ _ Hca Hcb Hch E1 E2) as Hc.
    cbn [py_eq all2]. rewrite En, Ho, Hdom, Hcf, Hdt, Hc. reflexivity.
  - injection Ha as <-. injection Hb as <-. cbn [py_eq all2]. rewrite En, Ho, Hdom, Hcf, Hdt. reflexivity.
Qed.

Lemma idx_eq_all2 : forall a b, idx_eq a b = true -> all2 py_eq (map VStr a) (map VStr b) = true.
Proof.
  unfold idx_eq. induction a as [|x a IH]; destruct b as [|y b]; cbn; intros H; try discriminate; [reflexivity|].
  apply andb_true_iff in H. destruct H as [H1 H2]. rewrite H1. cbn. apply (IH b H2).
Qed.
Lemma idx_eq_hash_l : forall a b, idx_eq a b = true -> py_eq (idx_hkey a) (idx_hkey b) = true.
Proof. intros a b H. unfold idx_hkey. cbn [py_eq]. apply idx_eq_all2. exact H. Qed.

Lemma plink_eq_hash_l : forall a b, plink_eq a b = true -> py_eq (plink_hkey a) (plink_hkey b) = true.
Proof.
  intros [j1 l1 r1 li1 ri1] [j2 l2 r2 li2 ri2] H. unfold plink_eq in H. cbn [pl_jt pl_left pl_right pl_lidx pl_ridx] in H.
  apply andb_true_iff in H. destruct H as [H H5]. apply andb_true_iff in H. destruct H as [H H4].
  apply andb_true_iff in H. destruct H as [H H3]. apply andb_true_iff in H. destruct H as [H1 H2].
  apply Nat.eqb_eq in H1. subst j2.
  unfold plink_hkey, idx_hkey. cbn. rewrite Z.eqb_refl, H2, H3, (idx_eq_all2 _ _ H4), (idx_eq_all2 _ _ H5). reflexivity.
Qed.

Lemma sf_eq_hash_l : forall a b ha hb, wf_feat (sf_feat a) -> wf_feat (sf_feat b) ->
  sf_eq a b = Some true -> sf_hkey a = Some ha -> sf_hkey b = Some hb -> py_eq ha hb = true.
Proof.
  intros a b ha hb Hwa Hwb Heq Ha Hb. unfold sf_eq in Heq.
  destruct (feat_eq (sf_feat a) (sf_feat b)) as [[|]|] eqn:Ef; try discriminate.
  injection Heq as Heq. apply andb_true_iff in Heq. destruct Heq as [Ht Hr].
  unfold sf_hkey in Ha, Hb.
  destruct (feat_hkey (sf_feat a)) as [hfa|] eqn:E1; [|discriminate].
  destruct (feat_hkey (sf_feat b)) as [hfb|] eqn:E2; [|discriminate].
  destruct (hashable (raw_val (sf_raw a))); [|discriminate]. destruct (hashable (raw_val (sf_raw b))); [|discriminate].
  injection Ha as <-. injection Hb as <-.
  pose proof (feat_eq_hash_l _ _ _ _ Hwa Hwb Ef E1 E2) as Hf.
  unfold raw_val in *. cbn [py_eq all2] in *. rewrite Hf, Ht, Hr. reflexivity.
Qed.

(* a filter is hashable when its feature is and every parameter value is hashable ... *)
Lemma sf_hashable_partial_l : forall f hf, forallb (fun kv => hashable (snd kv)) (sf_raw f) = true ->
  feat_hkey (sf_feat f) = Some hf -> exists hk, sf_hkey f = Some hk.
Proof.
  intros f hf H Hf. unfold sf_hkey. rewrite Hf.
  assert (Hh : hashable (raw_val (sf_raw f)) = true).
  { unfold raw_val. cbn [hashable]. induction (sf_raw f) as [|[k v] t IH]; cbn in *; [reflexivity|].
    apply andb_true_iff in H. destruct H as [H1 H2]. rewrite H1, (IH H2).
    destruct k; reflexivity. }
  rewrite Hh. eexists; reflexivity.
Qed.

(* ... and not otherwise: a list-valued parameter (FilterType.categorical_inclusion takes {"values": [...]}) *)
Definition wit_feat : feat :=
  {| f_name := "f"; f_opt := {| og := []; oc := []; opk := [] |}; f_domain := None; f_cfw := None; f_dtype := None;
     f_child := None |}.
Definition wit_filter : option sfilter := sf_make wit_feat "categorical_inclusion" [(KStr "values", VList [VInt 1; VInt 2])].
Lemma sf_hash_refuted_l : exists f, wit_filter = Some f /\ sf_eq f f = Some true /\ sf_hkey f = None.
Proof. eexists. split; [reflexivity|]. split; reflexivity. Qed.

(* Feature.__hash__ with child_options[in_features] = frozenset of Features: depends on the iteration order *)
Lemma infeatures_single_l : forall l l', (List.length l <= 1)%nat -> Permutation l l' ->
  infeatures_hash_name l = infeatures_hash_name l'.
Proof.
  intros l l' Hl Hp. destruct l as [|x [|y t]]; cbn in Hl; try lia.
  - apply Permutation_nil in Hp. subst. reflexivity.
  - apply Permutation_length_1_inv in Hp. subst. reflexivity.
Qed.
Lemma infeatures_order_refuted_l : exists l l', Permutation l l' /\
  py_eq (infeatures_hash_name l) (infeatures_hash_name l') = false.
Proof. exists ["n0"%string; "n3"%string], ["n3"%string; "n0"%string]. split; [apply perm_swap | reflexivity]. Qed.
