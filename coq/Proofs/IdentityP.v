(* equal objects have equal hash keys: Feature, Link, Index, SingleFilter (C15). *)
From Coq Require Import List Bool ZArith String Arith Lia Permutation.
Import ListNotations.
Require Import MV.Model.Options MV.Model.Identity MV.Spec.OptionsSpec MV.Proofs.OptionsP MV.Proofs.CanonP.
Open Scope Z_scope.

Definition wf_opts (s : ostate) : Prop := wfv (VDict (og s)) /\ nofs (VDict (og s)).
Definition inf_wf (v : inf_val) : Prop := match v with InfSet l => NoDup l | InfOne _ => True end.
(* the options are values Python can build; a Feature-valued in_features is kept apart from the rest of the child group;
   a frozenset holds no Feature twice *)
Definition wf_feat (a : feat) : Prop :=
  wf_opts (f_opt a) /\
  match f_child a with
  | Some c => wf_opts c /\ match f_child_inf a with
                           | Some (_, v) => kmem k_in_features (dkeys (og c)) = false /\ inf_wf v
                           | None => True
                           end
  | None => True
  end.
(* known-defect domain: the Feature-valued in_features sits in the CONTEXT of the child options *)
Definition kf_child_ctx_inf (a : feat) : bool :=
  match f_child_inf a with Some (InContext, _) => true | _ => false end.

(* ---------- sorted(names) does not depend on the order ---------- *)
Lemma sinsert_comm : forall l a b, sinsert a (sinsert b l) = sinsert b (sinsert a l).
Proof.
  assert (Hbase : forall a b (r : list string),
            (if String.leb a b then a :: b :: r else b :: a :: r) = (if String.leb b a then b :: a :: r else a :: b :: r)).
  { intros a b r. destruct (String.leb a b) eqn:E1, (String.leb b a) eqn:E2; try reflexivity.
    - rewrite (String.leb_antisym _ _ E1 E2). reflexivity.
    - destruct (String.leb_total a b); congruence. }
  induction l as [|x t IH]; intros a b.
  - cbn. apply Hbase.
  - cbn. destruct (String.leb b x) eqn:Ebx, (String.leb a x) eqn:Eax; cbn; rewrite ?Ebx, ?Eax.
    + apply Hbase.
    + destruct (String.leb a b) eqn:E1; [|reflexivity]. rewrite (str_leb_trans _ _ _ E1 Ebx) in Eax. discriminate.
    + destruct (String.leb b a) eqn:E2; [|reflexivity]. rewrite (str_leb_trans _ _ _ E2 Eax) in Ebx. discriminate.
    + rewrite IH. reflexivity.
Qed.

Lemma ssort_perm : forall l l', Permutation l l' -> ssort l = ssort l'.
Proof.
  intros l l' H. induction H; cbn.
  - reflexivity.
  - fold (ssort l) (ssort l'). rewrite IHPermutation. reflexivity.
  - apply sinsert_comm.
  - congruence.
Qed.

Lemma elem_eqb_eq : forall a b, elem_eqb a b = true <-> a = b.
Proof.
  intros [n1 r1] [n2 r2]. unfold elem_eqb. cbn. rewrite andb_true_iff, String.eqb_eq, Nat.eqb_eq.
  split; [intros [-> ->]; reflexivity | intros H; injection H; auto].
Qed.

(* equal frozensets of Features (whatever their iteration orders), equal Features: same replacement value *)
Lemma inf_rewrite_eq : forall x y, inf_wf x -> inf_wf y -> inf_eq x y = true -> inf_rewrite x = inf_rewrite y.
Proof.
  intros [a|a] [b|b] Hx Hy H; cbn in *; try discriminate.
  - apply andb_true_iff in H. destruct H as [Hl Hall]. apply Nat.eqb_eq in Hl.
    assert (Hincl : incl a b).
    { intros e He. rewrite forallb_forall in Hall. specialize (Hall e He). apply existsb_exists in Hall.
      destruct Hall as (e' & He' & Hee). apply elem_eqb_eq in Hee. subst e'. exact He'. }
    assert (Hp : Permutation a b).
    { apply NoDup_Permutation; [exact Hx | exact Hy|]. intros e. split; [apply Hincl|].
      apply (NoDup_length_incl Hx); [rewrite Hl; apply le_n | exact Hincl]. }
    rewrite (ssort_perm _ _ (Permutation_map fst Hp)). reflexivity.
  - apply elem_eqb_eq in H. subst b. reflexivity.
Qed.

Lemma inf_rewrite_refl : forall x, py_eq (inf_rewrite x) (inf_rewrite x) = true.
Proof.
  intros [a|a]; cbn; [|apply String.eqb_refl]. induction (ssort (map fst a)) as [|s t IH]; cbn; [reflexivity|].
  rewrite String.eqb_refl. exact IH.
Qed.

(* {**a, k: v} == {**b, k: v'} when a == b, v == v' and k is a new key on both sides *)
Lemma find_key_none : forall k (d : dict), kmem k (dkeys d) = false -> find (fun kv' => key_eqb k (fst kv')) d = None.
Proof.
  intros k d; induction d as [|[k' v] t IH]; cbn; intros H; [reflexivity|].
  unfold kmem in H. cbn in H. apply orb_false_elim in H. destruct H as [H1 H2]. rewrite H1. apply IH. exact H2.
Qed.
Lemma find_app_l : forall A (p : A -> bool) l1 l2 x, find p l1 = Some x -> find p (l1 ++ l2) = Some x.
Proof. intros A p l1 l2 x; induction l1 as [|y t IH]; cbn; [discriminate|]. destruct (p y); auto. Qed.
Lemma find_app_r : forall A (p : A -> bool) l1 l2, find p l1 = None -> find p (l1 ++ l2) = find p l2.
Proof. intros A p l1 l2; induction l1 as [|y t IH]; cbn; [reflexivity|]. destruct (p y); [discriminate | auto]. Qed.

Lemma py_eq_dict_snoc : forall (a b : dict) k v v',
  py_eq (VDict a) (VDict b) = true -> kmem k (dkeys b) = false -> py_eq v v' = true ->
  py_eq (VDict (a ++ [(k, v)])) (VDict (b ++ [(k, v')])) = true.
Proof.
  intros a b k v v' H Hk Hv. cbn [py_eq] in *. apply andb_true_iff in H. destruct H as [Hl Hall].
  apply andb_true_iff. split.
  - rewrite !app_length. cbn. apply Nat.eqb_eq in Hl. rewrite Hl. apply Nat.eqb_refl.
  - rewrite forallb_app. apply andb_true_iff. split.
    + apply forallb_forall. intros kv Hin. rewrite forallb_forall in Hall. specialize (Hall kv Hin).
      destruct (find (fun kv' => key_eqb (fst kv) (fst kv')) b) as [kv'|] eqn:Ef; [|discriminate].
      rewrite (find_app_l _ _ b [(k, v')] kv' Ef). exact Hall.
    + cbn. rewrite (find_app_r _ _ b [(k, v')] (find_key_none k b Hk)). cbn. rewrite key_eqb_refl. cbn. rewrite Hv. reflexivity.
Qed.

Lemma wfv_dict_snoc : forall (a : dict) k v, wfv (VDict a) -> kmem k (dkeys a) = false -> wfv v -> wfv (VDict (a ++ [(k, v)])).
Proof.
  unfold wfv. cbn [wfvb]. intros a k v H Hk Hv. apply andb_true_iff in H. destruct H as [H1 H2]. apply andb_true_iff. split.
  - clear H2. unfold dkeys in *. rewrite map_app. cbn. induction (map fst a) as [|x t IH]; cbn in *; [reflexivity|].
    apply andb_true_iff in H1. destruct H1 as [Hx Ht]. unfold kmem in Hk. cbn in Hk. apply orb_false_elim in Hk. destruct Hk as [Hk1 Hk2].
    rewrite (IH Ht Hk2), andb_true_r. apply negb_true_iff. apply negb_true_iff in Hx. rewrite kmem_app, Hx. unfold kmem. cbn.
    rewrite key_eqb_sym, Hk1. reflexivity.
  - rewrite forallb_app, H2. cbn. rewrite Hv. reflexivity.
Qed.
Lemma nofs_dict_snoc : forall (a : dict) k v, nofs (VDict a) -> nofs v -> nofs (VDict (a ++ [(k, v)])).
Proof. unfold nofs. cbn [nofsb]. intros a k v H Hv. rewrite forallb_app, H. cbn. rewrite Hv. reflexivity. Qed.
Lemma inf_rewrite_wf : forall x, wfv (inf_rewrite x) /\ nofs (inf_rewrite x).
Proof.
  intros [a|a]; cbn; [|split; reflexivity]. unfold wfv, nofs. cbn.
  induction (ssort (map fst a)) as [|s t [IH1 IH2]]; cbn; [split; reflexivity | split; assumption].
Qed.

Lemma opt_eq_hash_l : forall a b ha hb, wf_opts a -> wf_opts b ->
  opt_eq a b = true -> opt_hash_key a = Some ha -> opt_hash_key b = Some hb -> py_eq ha hb = true.
Proof.
  intros a b ha hb [Hwa Hna] [Hwb Hnb] Heq Ha Hb. unfold opt_eq, opt_hash_key in *.
  exact (hash_key_respects_eq_l _ _ _ _ Hwa Hwb Hna Hnb Heq Ha Hb).
Qed.

Lemma py_eq_nat : forall n m, py_eq (VInt (Z.of_nat n)) (VInt (Z.of_nat m)) = Nat.eqb n m.
Proof.
  intros n m. cbn. destruct (Nat.eqb_spec n m) as [->|H]; [apply Z.eqb_refl|]. apply Z.eqb_neq. lia.
Qed.

(* the group that is hashed for the child options is equal whenever the child options are equal *)
Lemma child_hash_group_eq : forall ca cb ia ib,
  wf_opts ca -> wf_opts cb ->
  match ia with Some (_, v) => kmem k_in_features (dkeys (og ca)) = false /\ inf_wf v | None => True end ->
  match ib with Some (_, v) => kmem k_in_features (dkeys (og cb)) = false /\ inf_wf v | None => True end ->
  match ia with Some (InContext, _) => False | _ => True end ->
  match ib with Some (InContext, _) => False | _ => True end ->
  child_eq (Some ca) (Some cb) ia ib = true ->
  py_eq (VDict (child_hash_group ca ia)) (VDict (child_hash_group cb ib)) = true /\
  wfv (VDict (child_hash_group ca ia)) /\ wfv (VDict (child_hash_group cb ib)) /\
  nofs (VDict (child_hash_group ca ia)) /\ nofs (VDict (child_hash_group cb ib)).
Proof.
  intros ca cb ia ib [Wa Na] [Wb Nb] Ha Hb Ka Kb H. cbn [child_eq] in H. apply andb_true_iff in H. destruct H as [Ho Hi].
  unfold opt_eq in Ho.
  destruct ia as [[[|] va]|], ib as [[[|] vb]|]; try contradiction; cbn [group_inf] in Hi; try discriminate; cbn [child_hash_group].
  - destruct Ha as [Ha1 Ha2], Hb as [Hb1 Hb2]. rewrite (inf_rewrite_eq va vb Ha2 Hb2 Hi).
    destruct (inf_rewrite_wf vb) as [W N]. repeat split.
    + apply py_eq_dict_snoc; [exact Ho | exact Hb1 | apply inf_rewrite_refl].
    + apply wfv_dict_snoc; assumption.
    + apply wfv_dict_snoc; assumption.
    + apply nofs_dict_snoc; assumption.
    + apply nofs_dict_snoc; assumption.
  - repeat split; assumption.
Qed.

Lemma feat_eq_hash_l : forall a b ha hb, wf_feat a -> wf_feat b ->
  kf_child_ctx_inf a = false -> kf_child_ctx_inf b = false ->
  feat_eq a b = Some true -> feat_hkey a = Some ha -> feat_hkey b = Some hb -> py_eq ha hb = true.
Proof.
  intros a b ha hb [Hwa Hca] [Hwb Hcb] Ka Kb Heq Ha Hb. unfold feat_eq in Heq.
  destruct (String.eqb (f_name a) (f_name b)) eqn:En; cbn [negb] in Heq; [|discriminate].
  destruct (opt_eq (f_opt a) (f_opt b)) eqn:Eo; cbn [negb] in Heq; [|discriminate].
  destruct (py_eq (VDict (oc (f_opt a))) (VDict (oc (f_opt b)))); cbn [negb] in Heq; [|discriminate].
  destruct (dom_eq (f_domain a) (f_domain b)) as [[|]|] eqn:Ed; try discriminate.
  injection Heq as Heq. apply andb_true_iff in Heq. destruct Heq as [Heq Hch].
  apply andb_true_iff in Heq. destruct Heq as [Hcf Hdt].
  unfold feat_hkey in Ha, Hb.
  destruct (opt_hash_key (f_opt a)) as [hoa|] eqn:Eha; [|discriminate].
  destruct (opt_hash_key (f_opt b)) as [hob|] eqn:Ehb; [|discriminate].
  pose proof (opt_eq_hash_l _ _ _ _ Hwa Hwb Eo Eha Ehb) as Ho.
  assert (Hdom : py_eq (opt_val VStr (f_domain a)) (opt_val VStr (f_domain b)) = true).
  { destruct (f_domain a), (f_domain b); cbn in Ed; try discriminate; [injection Ed as Ed; exact Ed | reflexivity]. }
  unfold kf_child_ctx_inf in Ka, Kb.
  destruct (f_child a) as [ca|] eqn:Eca, (f_child b) as [cb|] eqn:Ecb; try (cbn in Hch; discriminate).
  - destruct Hca as [Wca Ia], Hcb as [Wcb Ib].
    destruct (hash_key (VDict (child_hash_group ca (f_child_inf a)))) as [hca|] eqn:E1; [|discriminate].
    destruct (hash_key (VDict (child_hash_group cb (f_child_inf b)))) as [hcb|] eqn:E2; [|discriminate].
    injection Ha as <-. injection Hb as <-.
    assert (Kca : match f_child_inf a with Some (InContext, _) => False | _ => True end)
      by (destruct (f_child_inf a) as [[[|] ?]|]; [exact I | discriminate | exact I]).
    assert (Kcb : match f_child_inf b with Some (InContext, _) => False | _ => True end)
      by (destruct (f_child_inf b) as [[[|] ?]|]; [exact I | discriminate | exact I]).
    assert (Ia' : match f_child_inf a with Some (_, v) => kmem k_in_features (dkeys (og ca)) = false /\ inf_wf v | None => True end)
      by (destruct (f_child_inf a) as [[? ?]|]; exact Ia).
    assert (Ib' : match f_child_inf b with Some (_, v) => kmem k_in_features (dkeys (og cb)) = false /\ inf_wf v | None => True end)
      by (destruct (f_child_inf b) as [[? ?]|]; exact Ib).
    destruct (child_hash_group_eq ca cb _ _ Wca Wcb Ia' Ib' Kca Kcb Hch) as (Hpe & W1 & W2 & N1 & N2).
    pose proof (hash_key_respects_eq_l _ _ _ _ W1 W2 N1 N2 Hpe E1 E2) as Hc.
    cbn [py_eq all2]. rewrite En, Ho, Hdom, Hcf, Hdt, Hc. reflexivity.
  - injection Ha as <-. injection Hb as <-. cbn [py_eq all2]. rewrite En, Ho, Hdom, Hcf, Hdt. reflexivity.
Qed.

(* FULL STATEMENT without the guard kf_child_ctx_inf is refuted: in_features = frozenset({Feature p}) resp. {Feature q}
   in the CONTEXT of the child options: __eq__ never looks at it, __hash__ copies it into the group *)
Definition empty_o : ostate := {| og := []; oc := []; opk := [] |}.
Definition ctx_child (n : string) : feat :=
  {| f_name := "top"; f_opt := empty_o; f_domain := None; f_cfw := None; f_dtype := None;
     f_child := Some {| og := [(KStr "x", VInt 1)]; oc := []; opk := [] |};
     f_child_inf := Some (InContext, InfSet [(n, 0%nat)]) |}.
Lemma feat_hash_child_context_refuted_l :
  feat_eq (ctx_child "p") (ctx_child "q") = Some true /\
  kf_child_ctx_inf (ctx_child "p") = true /\
  exists ha hb, feat_hkey (ctx_child "p") = Some ha /\ feat_hkey (ctx_child "q") = Some hb /\ py_eq ha hb = false.
Proof. split; [reflexivity | split; [reflexivity|]]. eexists. eexists. split; [reflexivity | split; reflexivity]. Qed.

Lemma idx_eq_all2 : forall a b, idx_eq a b = true -> all2 py_eq (map VStr a) (map VStr b) = true.
Proof.
  unfold idx_eq. induction a as [|x a IH]; destruct b as [|y b]; cbn; intros H; try discriminate; [reflexivity|].
  apply andb_true_iff in H. destruct H as [H1 H2]. rewrite H1. cbn. apply (IH b H2).
Qed.
Lemma idx_eq_hash_l : forall a b, idx_eq a b = true -> py_eq (idx_hkey a) (idx_hkey b) = true.
Proof. intros a b H. unfold idx_hkey. cbn [py_eq]. apply idx_eq_all2. exact H. Qed.

Lemma plink_eq_hash_l : forall a b, plink_eq a b = true -> py_eq (plink_hkey a) (plink_hkey b) = true.
Proof.
  intros [j1 l1 r1 li1 ri1] [j2 l2 r2 li2 ri2] H. unfold plink_eq in H. cbn [pl_jt pl_left pl_right pl_lidx pl_ridx] in H.
  apply andb_true_iff in H. destruct H as [H H5]. apply andb_true_iff in H. destruct H as [H H4].
  apply andb_true_iff in H. destruct H as [H H3]. apply andb_true_iff in H. destruct H as [H1 H2].
  apply Nat.eqb_eq in H1. subst j2.
  unfold plink_hkey, idx_hkey. cbn. rewrite Z.eqb_refl, H2, H3, (idx_eq_all2 _ _ H4), (idx_eq_all2 _ _ H5). reflexivity.
Qed.

Lemma sf_eq_hash_l : forall a b ha hb, wf_feat (sf_feat a) -> wf_feat (sf_feat b) ->
  kf_child_ctx_inf (sf_feat a) = false -> kf_child_ctx_inf (sf_feat b) = false ->
  sf_eq a b = Some true -> sf_hkey a = Some ha -> sf_hkey b = Some hb -> py_eq ha hb = true.
Proof.
  intros a b ha hb Hwa Hwb Ka Kb Heq Ha Hb. unfold sf_eq in Heq.
  destruct (feat_eq (sf_feat a) (sf_feat b)) as [[|]|] eqn:Ef; try discriminate.
  injection Heq as Heq. apply andb_true_iff in Heq. destruct Heq as [Ht Hr].
  unfold sf_hkey in Ha, Hb.
  destruct (feat_hkey (sf_feat a)) as [hfa|] eqn:E1; [|discriminate].
  destruct (feat_hkey (sf_feat b)) as [hfb|] eqn:E2; [|discriminate].
  destruct (hashable (raw_val (sf_raw a))); [|discriminate]. destruct (hashable (raw_val (sf_raw b))); [|discriminate].
  injection Ha as <-. injection Hb as <-.
  pose proof (feat_eq_hash_l _ _ _ _ Hwa Hwb Ka Kb Ef E1 E2) as Hf.
  unfold raw_val in *. cbn [py_eq all2] in *. rewrite Hf, Ht, Hr. reflexivity.
Qed.

(* a filter is hashable when its feature is and every parameter value is hashable ... *)
Lemma sf_hashable_partial_l : forall f hf, forallb (fun kv => hashable (snd kv)) (sf_raw f) = true ->
  feat_hkey (sf_feat f) = Some hf -> exists hk, sf_hkey f = Some hk.
Proof.
  intros f hf H Hf. unfold sf_hkey. rewrite Hf.
  assert (Hh : hashable (raw_val (sf_raw f)) = true).
  { unfold raw_val. cbn [hashable]. induction (sf_raw f) as [|[k v] t IH]; cbn in *; [reflexivity|].
    apply andb_true_iff in H. destruct H as [H1 H2]. rewrite H1, (IH H2).
    destruct k; reflexivity. }
  rewrite Hh. eexists; reflexivity.
Qed.

(* ... and not otherwise: a list-valued parameter (FilterType.categorical_inclusion takes {"values": [...]}) *)
Definition wit_feat : feat :=
  {| f_name := "f"; f_opt := {| og := []; oc := []; opk := [] |}; f_domain := None; f_cfw := None; f_dtype := None;
     f_child := None; f_child_inf := None |}.
Definition wit_filter : option sfilter := sf_make wit_feat "categorical_inclusion" [(KStr "values", VList [VInt 1; VInt 2])].
Lemma sf_hash_refuted_l : exists f, wit_filter = Some f /\ sf_eq f f = Some true /\ sf_hkey f = None.
Proof. eexists. split; [reflexivity|]. split; reflexivity. Qed.

(* Feature.__hash__ with child_options[in_features] = frozenset of Features: the replacement value does not depend on
   the iteration order, for frozensets of any size *)
Lemma infeatures_order_independent_l : forall l l', Permutation l l' -> inf_rewrite (InfSet l) = inf_rewrite (InfSet l').
Proof. intros l l' H. cbn. rewrite (ssort_perm _ _ (Permutation_map fst H)). reflexivity. Qed.
