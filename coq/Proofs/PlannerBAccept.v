(* Stage B1, part 4: the accept / reject decision of the validation does not depend on the transform steps, hence on none
   of the order parameters:  the run simulation accepts the Stage-B1 plan  iff  it accepts the Stage-A plan of the
   framework-erased graph (planB_accepts_iff_A), and that is oracle independent by PlannerA's prepare_deterministic.
   So the known non-determinism classes of C04 "accept-vs-reject" and "rejection reason" cannot occur in fragment B1.

   Proof: a topological rank of one plan is turned into one of the other.  A -> B: feature-group step 2r+1, a transform
   step for parent p gets 2*rank(p)+2 (after the producer of p, before its consumer, which has p among its ancestors).
   B -> A: restrict the rank to the feature-group steps (their Stage-A requirements are a subset). *)
From Coq Require Import List Bool Arith Lia Permutation.
Import ListNotations.
Require Import MV.Model.Orch MV.Model.OrchCheck MV.Model.Grouping MV.Model.PlannerA MV.Spec.PlannerASpec.
Require Import MV.Model.PlannerB MV.Spec.PlannerBSpec MV.Model.PlanDefects.
Require Import MV.Proofs.OrchP MV.Proofs.OrchTermP MV.Proofs.PlannerASets MV.Proofs.PlannerAGraph MV.Proofs.PlannerAQueue.
Require Import MV.Proofs.PlannerALevels MV.Proofs.PlannerAOrder MV.Proofs.PlanSimP MV.Proofs.PlannerAP MV.Proofs.PlannerADet.
Require Import MV.Proofs.PlannerBErase MV.Proofs.PlannerBP MV.Proofs.PlannerBWf MV.Proofs.PlannerBDefects.

(* ---------- ranks from a well-formed plan ---------- *)
Section WfRank.
  Variables (p : plan) (order : list nat).
  Hypothesis Hwf : wf_plan order p = true.

  Definition posr (s : step) : nat := match pos (sid s) order with Some i => i | None => 0 end.
  Definition urk (u : nat) : nat := match find_producer p u with Some s => posr s | None => 0 end.

  Lemma urk_step : forall s u, In s p -> In u (uuids s) -> urk u = posr s.
  Proof.
    intros s u Hs Hu. destruct (wf_plan_props order p Hwf) as (_ & _ & Hdj & _ & _).
    destruct (find_producer_some p s u Hs Hu) as [s' [E [Hs' Hu']]]. unfold urk. rewrite E.
    rewrite (Hdj s' s u Hs' Hs Hu' Hu). reflexivity.
  Qed.

  Lemma urk_lt : forall s a u, In s p -> In a (req s) -> In u (uuids s) -> urk a < urk u.
  Proof.
    intros s a u Hs Ha Hu. destruct (wf_plan_props order p Hwf) as (_ & _ & _ & _ & Hearlier).
    destruct (Hearlier s a Hs Ha) as (s' & i & j & Hs' & Ha' & Ei & Ej & Hlt).
    rewrite (urk_step s u Hs Hu), (urk_step s' a Hs' Ha'). unfold posr. rewrite Ei, Ej. exact Hlt.
  Qed.
End WfRank.

Lemma rank_bound : forall (p : plan) (rk : nat -> nat) s, In s p -> rk (sid s) < S (list_max (map (fun s0 => rk (sid s0)) p)).
Proof.
  intros p rk s Hs. assert (H : rk (sid s) <= list_max (map (fun s0 => rk (sid s0)) p)); [|lia].
  pose proof (proj1 (list_max_le (map (fun s0 => rk (sid s0)) p) _) (le_n _)) as Hall.
  rewrite Forall_forall in Hall. apply Hall. apply in_map_iff. exists s. split; [reflexivity | exact Hs].
Qed.

Section Accept.
  Variables (ord : oparam) (g : fgraph).
  Hypothesis Hord : ord_ok ord.
  Hypothesis Hok : graph_ok g.
  Hypothesis Hgc : group_cfw g.

  Local Notation cl := (p2c_of g).
  Local Notation R := (raw_plan ord g).
  Local Notation P := (raw_plan_B ord g).
  Local Notation PA := (plan_of ord g).
  Local Notation PBs := (steps_of (plan_B ord g)).

  Lemma PA_struct : wf_struct PA = true.
  Proof.
    rewrite <- (plan_of_erase ord g Hord Hok Hgc). apply (plan_struct ord (erase g) Hord (graph_ok_erase g Hok) (strict_erase g)).
  Qed.

  (* members of the two numbered plans *)
  Lemma in_PA : forall s, In s PA -> exists j s0, nth_error R j = Some s0 /\ s = set_sid j s0 /\ In s0 R.
  Proof.
    intros s Hs. unfold plan_of in Hs. destruct (In_number _ _ _ Hs) as [j [s0 [Hj E]]]. exists j, s0.
    split; [exact Hj|]. split; [exact E | exact (nth_error_In _ _ Hj)].
  Qed.

  Lemma PA_of_raw : forall s0, In s0 R -> exists j, nth_error R j = Some s0 /\ In (set_sid j s0) PA.
  Proof.
    intros s0 Hs. destruct (In_nth_error _ _ Hs) as [j Hj]. exists j. split; [exact Hj|]. exact (number_In R 0 j s0 Hj).
  Qed.

  Lemma in_PBs : forall s, In s PBs -> exists k b, nth_error P k = Some b /\ s = set_sid k (bs b) /\ In b P.
  Proof.
    intros s Hs. apply in_steps_of in Hs. destruct Hs as [b [Hb E]]. subst s.
    destruct (in_plan_B ord g b Hb) as (k & b0 & Hk & Eb & Hb0). subst b. exists k, b0. repeat split; assumption.
  Qed.

  Lemma PBs_of_raw : forall b, In b P -> exists k, nth_error P k = Some b /\ In (set_sid k (bs b)) PBs.
  Proof.
    intros b Hb. destruct (In_nth_error _ _ Hb) as [k Hk]. exists k. split; [exact Hk|].
    apply in_steps_of. exists (bset_sid k b). split; [exact (bnumber_In P 0 k b Hk) | reflexivity].
  Qed.

  (* the feature-group step of the B plan that belongs to a Stage-A step *)
  Lemma fg_of_raw : forall s0, In s0 R -> exists b, In b P /\ is_fg b = true /\ uuids (bs b) = uuids s0 /\ incl (req s0) (req (bs b)).
  Proof.
    intros s0 Hs. destruct (E0_spec ord g) as (_ & S1 & _ & _).
    assert (Hin : In s0 (map fst (E0 ord g))) by (rewrite S1; exact Hs).
    apply in_map_iff in Hin. destruct Hin as [x [Ex Hx]]. exists (mk_fg g cl (fst x) (snd x)).
    split; [apply (in_planB_raw ord g); exists x; split; [exact Hx | left; reflexivity]|]. rewrite Ex. cbn.
    split; [reflexivity|]. split; [reflexivity|]. intros a Ha. apply in_or_app. left. exact Ha.
  Qed.

  Lemma feature_lt_tbase : forall s0 u, In s0 R -> In u (uuids s0) -> u < tbase g.
  Proof.
    intros s0 u Hs Hu. destruct (raw_facts ord g Hord Hok Hgc) as (_ & _ & F3 & _). apply id_lt_tbase. apply F3.
    apply in_flat_map. exists s0. split; assumption.
  Qed.

  Lemma P_uuids_nodup : NoDup (flat_map (fun b => uuids (bs b)) P).
  Proof. rewrite <- all_uuids_steps_of. destruct (planB_raw_facts ord g Hord Hok Hgc) as (_ & B2 & _). exact B2. Qed.

  (* every step of the B plan, seen through the block it belongs to *)
  Lemma planB_cases : forall b, In b P -> exists x, In x (E0 ord g) /\ In (fst x) R /\
    map te_parent (snd x) = dem ord g (fst x) /\
    (forall e, In e (snd x) -> te_new e = true -> tbase g <= te_id e /\ In (mk_tfs e) P) /\
    (b = mk_fg g cl (fst x) (snd x) \/ exists e, In e (snd x) /\ te_new e = true /\ b = mk_tfs e).
  Proof.
    intros b Hb. destruct (proj1 (in_planB_raw ord g b) Hb) as [x [Hx Hcase]]. exists x. split; [exact Hx|].
    destruct (E0_spec ord g) as (ncF & _ & S2 & S3). destruct (S3 x Hx) as (Hs & Hd & _). split; [exact Hs|]. split; [exact Hd|].
    split; [|exact Hcase]. intros e He Hn. split.
    - assert (Hi : In (te_id e) (flat_map newid_of (E0 ord g))).
      { apply in_flat_map. exists x. split; [exact Hx|]. unfold newid_of. apply in_map. apply filter_In. split; assumption. }
      rewrite S2 in Hi. apply In_new_ids in Hi. destruct Hi as [k [_ Ei]]. lia.
    - apply (in_planB_raw ord g). exists x. split; [exact Hx|]. right. exists e. repeat split; assumption.
  Qed.

  Lemma dem_feature : forall s0 p, In s0 R -> In p (dem ord g s0) -> p < tbase g /\ In p (req s0).
  Proof.
    intros s0 p Hs Hp. destruct (raw_facts ord g Hord Hok Hgc) as (_ & _ & _ & F4 & _).
    apply (dem_spec ord g Hord Hok) in Hp. destruct Hp as (Hanc & _). split.
    - apply id_lt_tbase. apply (anc_in_ids g Hok _ _ Hanc).
    - apply (F4 s0 p Hs). exists (any_of s0). split; [exact (any_in_step ord g Hord Hok Hgc s0 Hs) | exact Hanc].
  Qed.

  Lemma req_feature : forall s0 a, In s0 R -> In a (req s0) -> a < tbase g.
  Proof.
    intros s0 a Hs Ha. destruct (raw_facts ord g Hord Hok Hgc) as (_ & _ & _ & F4 & _). apply (F4 s0 a Hs) in Ha.
    destruct Ha as [f [_ Hanc]]. apply id_lt_tbase. apply (anc_in_ids g Hok _ _ Hanc).
  Qed.

  (* ---------- A accepted -> B accepted ---------- *)
  Section AtoB.
    Variable oA : list nat.
    Hypothesis HwfA : wf_plan oA PA = true.

    Local Notation ur := (urk PA oA).

    Lemma ur_same : forall s0 u v, In s0 R -> In u (uuids s0) -> In v (uuids s0) -> ur u = ur v.
    Proof.
      intros s0 u v Hs Hu Hv. destruct (PA_of_raw s0 Hs) as [j [_ Hin]].
      rewrite (urk_step PA oA HwfA _ u Hin Hu), (urk_step PA oA HwfA _ v Hin Hv). reflexivity.
    Qed.

    Lemma ur_lt : forall s0 a u, In s0 R -> In a (req s0) -> In u (uuids s0) -> ur a < ur u.
    Proof.
      intros s0 a u Hs Ha Hu. destruct (PA_of_raw s0 Hs) as [j [_ Hin]]. exact (urk_lt PA oA HwfA _ a u Hin Ha Hu).
    Qed.

    Definition rkB (k : nat) : nat :=
      match nth_error P k with
      | Some b => if is_tfs b then 2 * ur (hd 0 (req (bs b))) + 2 else 2 * ur (hd 0 (uuids (bs b))) + 1
      | None => 0
      end.

    Lemma A_to_B : exists oB, wf_plan oB PBs = true.
    Proof.
      destruct (planB_raw_facts ord g Hord Hok Hgc) as (B1 & B2 & B3 & _).
      exists (order_upto PBs rkB (S (list_max (map (fun s => rkB (sid s)) PBs)))).
      apply wf_plan_of_rank.
      - intros s Hs. destruct (in_PBs s Hs) as (k & b & _ & E & Hb). subst s. exact (B1 b Hb).
      - exact (XP_sids ord g).
      - exact (XP_uuids ord g Hord Hok Hgc).
      - intros s u Hs Hu. destruct (in_PBs s Hs) as (k & b & _ & E & Hb). subst s. cbn [req set_sid] in Hu.
        rewrite (steps_of_plan_B ord g), all_uuids_number. exact (B3 b u Hb Hu).
      - intros s Hs. apply rank_bound. exact Hs.
      - intros s s' u Hs Hs' Hu Hu'.
        destruct (in_PBs s Hs) as (k & b & Hk & E & Hb). destruct (in_PBs s' Hs') as (k' & b' & Hk' & E' & Hb'). subst s s'.
        cbn [sid req uuids set_sid] in *. unfold rkB. rewrite Hk, Hk'.
        destruct (planB_cases b Hb) as (x & _ & Hs0 & Hd & Hnew & Hcase).
        destruct (planB_cases b' Hb') as (x' & _ & Hs0' & Hd' & Hnew' & Hcase').
        pose proof (any_in_step ord g Hord Hok Hgc _ Hs0) as Hany. pose proof (any_in_step ord g Hord Hok Hgc _ Hs0') as Hany'.
        unfold any_of in Hany, Hany'.
        destruct Hcase as [Eb|[e [He [Hn Eb]]]]; subst b.
        + (* b is a feature-group step *)
          cbn [is_tfs bs mk_fg skind uuids req] in Hu |- *. apply in_app_iff in Hu. destruct Hu as [Hu|Hu].
          * pose proof (req_feature _ u Hs0 Hu) as Hlt.
            destruct Hcase' as [Eb'|[e' [He' [Hn' Eb']]]]; subst b'.
            -- cbn [is_tfs bs mk_fg skind uuids] in Hu' |- *.
               rewrite (ur_same _ (hd 0 (uuids (fst x'))) u Hs0' Hany' Hu').
               pose proof (ur_lt _ u (hd 0 (uuids (fst x))) Hs0 Hu Hany). lia.
            -- exfalso. rewrite uuids_mk_tfs in Hu'. destruct Hu' as [Hu'|[]]. destruct (Hnew' e' He' Hn') as [Hge _]. lia.
          * apply in_map_iff in Hu. destruct Hu as [e [Ee He]]. apply filter_In in He. destruct He as [He Hn].
            destruct (Hnew e He Hn) as [Hge Hin].
            destruct Hcase' as [Eb'|[e' [He' [Hn' Eb']]]]; subst b'.
            -- exfalso. cbn [bs mk_fg uuids] in Hu'. pose proof (feature_lt_tbase _ u Hs0' Hu'). lia.
            -- rewrite is_tfs_mk_tfs.
               assert (Esame : mk_tfs e = mk_tfs e').
               { apply (unique_producer P (mk_tfs e) (mk_tfs e') u P_uuids_nodup Hin Hb'); [rewrite uuids_mk_tfs; left; exact Ee | exact Hu']. }
               rewrite <- Esame, req_mk_tfs. cbn [hd].
               assert (Hp : In (te_parent e) (dem ord g (fst x))) by (rewrite <- Hd; apply in_map; exact He).
               destruct (dem_feature _ _ Hs0 Hp) as [_ Hpr].
               pose proof (ur_lt _ (te_parent e) (hd 0 (uuids (fst x))) Hs0 Hpr Hany). lia.
        + (* b is a transform step *)
          rewrite is_tfs_mk_tfs. rewrite req_mk_tfs in Hu |- *. destruct Hu as [Hu|[]]. subst u. cbn [hd].
          assert (Hp : In (te_parent e) (dem ord g (fst x))) by (rewrite <- Hd; apply in_map; exact He).
          destruct (dem_feature _ _ Hs0 Hp) as [Hlt _].
          destruct Hcase' as [Eb'|[e' [He' [Hn' Eb']]]]; subst b'.
          * cbn [is_tfs bs mk_fg skind uuids] in Hu' |- *. rewrite (ur_same _ (hd 0 (uuids (fst x'))) (te_parent e) Hs0' Hany' Hu'). lia.
          * exfalso. rewrite uuids_mk_tfs in Hu'. destruct Hu' as [Hu'|[]]. destruct (Hnew' e' He' Hn') as [Hge _]. lia.
    Qed.
  End AtoB.

  (* ---------- B accepted -> A accepted ---------- *)
  Section BtoA.
    Variable oB : list nat.
    Hypothesis HwfB : wf_plan oB PBs = true.

    Local Notation ur := (urk PBs oB).

    Definition rkA (j : nat) : nat := match nth_error R j with Some s0 => ur (hd 0 (uuids s0)) | None => 0 end.

    Lemma B_to_A : exists oA, wf_plan oA PA = true.
    Proof.
      destruct (raw_facts ord g Hord Hok Hgc) as (F1 & F2 & F3 & F4 & _).
      exists (order_upto PA rkA (S (list_max (map (fun s => rkA (sid s)) PA)))).
      apply wf_plan_of_rank.
      - intros s Hs. destruct (in_PA s Hs) as (j & s0 & _ & E & Hs0). subst s. exact (proj1 (F1 s0 Hs0)).
      - unfold plan_of. rewrite map_sid_number. apply seq_NoDup.
      - unfold plan_of. rewrite all_uuids_number. exact F2.
      - intros s a Hs Ha. destruct (in_PA s Hs) as (j & s0 & _ & E & Hs0). subst s. cbn [req set_sid] in Ha.
        unfold plan_of. rewrite all_uuids_number. apply F3. apply (F4 s0 a Hs0) in Ha. destruct Ha as [f [_ Hanc]].
        apply (anc_in_ids g Hok _ _ Hanc).
      - intros s Hs. apply rank_bound. exact Hs.
      - intros s s' u Hs Hs' Hu Hu'.
        destruct (in_PA s Hs) as (j & s0 & Hj & E & Hs0). destruct (in_PA s' Hs') as (j' & s0' & Hj' & E' & Hs0'). subst s s'.
        cbn [sid req uuids set_sid] in *. unfold rkA. rewrite Hj, Hj'.
        destruct (fg_of_raw s0 Hs0) as (b & Hb & _ & Eu & Hreq). destruct (fg_of_raw s0' Hs0') as (b' & Hb' & _ & Eu' & _).
        destruct (PBs_of_raw b Hb) as [k [_ Hin]]. destruct (PBs_of_raw b' Hb') as [k' [_ Hin']].
        pose proof (any_in_step ord g Hord Hok Hgc _ Hs0) as Hany. pose proof (any_in_step ord g Hord Hok Hgc _ Hs0') as Hany'.
        unfold any_of in Hany, Hany'.
        assert (Hlt : ur u < ur (hd 0 (uuids s0))).
        { apply (urk_lt PBs oB HwfB (set_sid k (bs b)) u (hd 0 (uuids s0)) Hin); cbn [req uuids set_sid]; [apply Hreq; exact Hu | rewrite Eu; exact Hany]. }
        assert (Esame : ur (hd 0 (uuids s0')) = ur u).
        { rewrite (urk_step PBs oB HwfB (set_sid k' (bs b')) (hd 0 (uuids s0')) Hin'); [|cbn [uuids set_sid]; rewrite Eu'; exact Hany'].
          rewrite (urk_step PBs oB HwfB (set_sid k' (bs b')) u Hin'); [reflexivity|cbn [uuids set_sid]; rewrite Eu'; exact Hu']. }
        lia.
    Qed.
  End BtoA.

  (* the run simulation decides the same for both plans *)
  Theorem planB_accepts_iff_A : runsim_accepts PBs = runsim_accepts PA.
  Proof.
    pose proof (proj1 (planB_struct ord g Hord Hok Hgc)) as HsB. pose proof PA_struct as HsA.
    destruct (runsim_accepts PA) eqn:EA.
    - apply (runsim_accepts_iff _ HsA) in EA. destruct EA as [oA HoA]. apply (runsim_accepts_iff _ HsB). exact (A_to_B oA HoA).
    - destruct (runsim_accepts PBs) eqn:EB; [|reflexivity].
      apply (runsim_accepts_iff _ HsB) in EB. destruct EB as [oB HoB].
      assert (Ht : runsim_accepts PA = true) by (apply (runsim_accepts_iff _ HsA); exact (B_to_A oB HoB)).
      rewrite Ht in EA. discriminate.
  Qed.

  (* ---------- a readable summary of the numbered plan ---------- *)
  Theorem planB_facts :
    NoDup (map sid PBs) /\ NoDup (all_uuids PBs) /\
    (forall b, In b (plan_B ord g) -> (is_fg b = true \/ is_tfs b = true) /\ b_link b = false) /\
    (forall u, In u (ids g) -> exists x, In x (plan_B ord g) /\ is_fg x = true /\ In u (uuids (bs x)) /\
                                       b_cfw x = cfw_of g u /\ b_grp x = grp_of g u) /\
    (forall c, In c (plan_B ord g) -> is_fg c = true ->
       (forall u, In u (uuids (bs c)) -> In u (ids g)) /\ In (b_any c) (uuids (bs c)) /\
       (forall a, a < tbase g -> (In a (req (bs c)) <-> exists u, In u (uuids (bs c)) /\ anc g a u)) /\
       (forall i, In i (req (bs c)) -> tbase g <= i -> exists t, In t (plan_B ord g) /\ is_tfs t = true /\ uuids (bs t) = [i] /\
                                                              b_cfw t = b_cfw c /\ b_grp t = b_grp c)) /\
    (forall t, In t (plan_B ord g) -> is_tfs t = true ->
       exists p i, uuids (bs t) = [i] /\ tbase g <= i /\ req (bs t) = [p] /\ In p (ids g) /\
                   b_from t = cfw_of g p /\ b_fgrp t = grp_of g p /\ b_from t <> b_cfw t).
  Proof.
    destruct (raw_facts ord g Hord Hok Hgc) as (F1 & F2 & F3 & F4 & F5).
    split; [exact (XP_sids ord g)|]. split; [exact (XP_uuids ord g Hord Hok Hgc)|]. split; [|split; [|split]].
    - intros b Hb. destruct (XP_kinds ord g b Hb) as (K1 & _ & K3). split; assumption.
    - intros u Hu. destruct (XP_producer ord g Hord Hok Hgc u Hu) as (x & s & Hx & Hfg & _ & Hux & _ & Ec & Eg).
      exists x. repeat split; assumption.
    - intros c Hc Hfg. destruct (in_plan_B ord g c Hc) as (j & b0 & _ & Ec & Hb0). subst c.
      destruct (planB_cases b0 Hb0) as (x & Hx & Hs0 & Hd & Hnew & Hcase).
      destruct Hcase as [Eb|[e [_ [_ Eb]]]]; subst b0; [|unfold is_fg in Hfg; cbn in Hfg; rewrite kind_mk_tfs in Hfg; discriminate].
      cbn [bs bset_sid mk_fg uuids req set_sid b_any b_cfw b_grp].
      split; [intros u Hu; apply F3; apply in_flat_map; exists (fst x); split; assumption|].
      split; [exact (any_in_step ord g Hord Hok Hgc _ Hs0)|]. split.
      + intros a Ha. rewrite in_app_iff, (F4 (fst x) a Hs0). split; [|intros H; left; exact H].
        intros [H|H]; [exact H|]. exfalso. apply in_map_iff in H. destruct H as [e [Ee He]]. apply filter_In in He.
        destruct (Hnew e (proj1 He) (proj2 He)) as [Hge _]. lia.
      + intros i Hi Hge. apply in_app_iff in Hi. destruct Hi as [Hi|Hi]; [pose proof (req_feature _ i Hs0 Hi); lia|].
        apply in_map_iff in Hi. destruct Hi as [e [Ee He]]. apply filter_In in He. destruct He as [He Hn].
        destruct (Hnew e He Hn) as [_ Hin]. destruct (In_nth_error _ _ Hin) as [k Hk].
        exists (bset_sid (0 + k) (mk_tfs e)). split; [exact (bnumber_In P 0 k _ Hk)|].
        destruct (E0_spec ord g) as (_ & _ & _ & S3). destruct (S3 x Hx) as (_ & _ & Hkey).
        pose proof (key_mk_tfs e) as Ekey. rewrite (Hkey e He) in Ekey. unfold key_of in Ekey. injection Ekey as K1 K2 K3 K4.
        split; [unfold is_tfs; cbn; rewrite kind_mk_tfs; reflexivity|]. cbn [bs bset_sid uuids set_sid b_cfw b_grp].
        split; [rewrite uuids_mk_tfs, Ee; reflexivity|]. split; assumption.
    - intros t Ht Htfs. destruct (in_plan_B ord g t Ht) as (j & b0 & _ & Et & Hb0). subst t.
      destruct (planB_cases b0 Hb0) as (x & Hx & Hs0 & Hd & Hnew & Hcase).
      destruct Hcase as [Eb|[e [He [Hn Eb]]]]; subst b0; [discriminate|].
      assert (Hp : In (te_parent e) (dem ord g (fst x))) by (rewrite <- Hd; apply in_map; exact He).
      pose proof Hp as Hp'. apply (dem_spec ord g Hord Hok) in Hp'. destruct Hp' as (Hanc & _ & Hcf).
      exists (te_parent e), (te_id e). cbn [bs bset_sid uuids req set_sid b_from b_cfw b_fgrp].
      split; [apply uuids_mk_tfs|]. split; [apply (Hnew e He Hn)|]. split; [apply req_mk_tfs|].
      split; [apply (anc_in_ids g Hok _ _ Hanc)|].
      destruct (E0_spec ord g) as (_ & _ & _ & S3). destruct (S3 x Hx) as (_ & _ & Hkey).
      pose proof (key_mk_tfs e) as Ekey. rewrite (Hkey e He) in Ekey. unfold key_of in Ekey. injection Ekey as K1 K2 K3 K4.
      split; [exact K1|]. split; [exact K3|]. rewrite K1, K2. exact Hcf.
  Qed.

  (* the model accepts exactly when prepare_A accepts the graph with the frameworks forgotten *)
  Theorem prepare_B_iff_A :
    (prepare_B ord g = PlannedB (plan_B ord g) <-> prepare_A ord (erase g) = Planned (plan_of ord (erase g))) /\
    (prepare_B ord g = RejectedCycleB <-> prepare_A ord (erase g) = RejectedCycle).
  Proof.
    rewrite (prepare_B_outcome ord g Hord Hok Hgc), (prepare_outcome ord (erase g) Hord (graph_ok_erase g Hok) (strict_erase g)).
    rewrite (plan_of_erase ord g Hord Hok Hgc), planB_accepts_iff_A.
    destruct (runsim_accepts PA); split; split; intros H; try reflexivity; discriminate.
  Qed.
End Accept.

(* ---------- the decision is the same for equivalent graphs and any two oracles ---------- *)
Lemma erase_equiv : forall g g', graph_equiv g g' -> graph_equiv (erase g) (erase g').
Proof.
  intros g g' [g'' [Hp Hf]]. exists (erase g''). split; [unfold erase; apply Permutation_map; exact Hp|].
  clear Hp. unfold erase. induction Hf as [|a b l l' Hab _ IH]; cbn; [constructor|]. constructor; [|exact IH].
  destruct Hab as (E1 & E2 & E3 & E4 & _). repeat split; assumption.
Qed.

Lemma group_cfw_equiv : forall g g', NoDup (ids g) -> graph_equiv g g' -> group_cfw g -> group_cfw g'.
Proof.
  intros g g' Hnd Heq Hgc n' m' Hn' Hm' E.
  destruct (ge_nodes_r g g' Heq n' Hn') as [n [Hn (A1 & A2 & _ & _ & A5)]].
  destruct (ge_nodes_r g g' Heq m' Hm') as [m [Hm (C1 & C2 & _ & _ & C5)]].
  rewrite <- A5, <- C5. apply Hgc; [exact Hn | exact Hm | congruence].
Qed.

Theorem decision_deterministic : forall ord ord' g g', ord_ok ord -> ord_ok ord' -> graph_ok g -> group_cfw g -> graph_equiv g g' ->
  (prepare_B ord g = PlannedB (plan_B ord g) <-> prepare_B ord' g' = PlannedB (plan_B ord' g')) /\
  (prepare_B ord g = RejectedCycleB <-> prepare_B ord' g' = RejectedCycleB) /\
  prepare_B ord g <> RejectedIncompleteB.
Proof.
  intros ord ord' g g' Hord Hord' Hok Hgc Heq.
  pose proof (ge_graph_ok g g' Heq Hok) as Hok'. pose proof (group_cfw_equiv g g' (proj1 Hok) Heq Hgc) as Hgc'.
  destruct (prepare_B_iff_A ord g Hord Hok Hgc) as [P1 P2]. destruct (prepare_B_iff_A ord' g' Hord' Hok' Hgc') as [Q1 Q2].
  destruct (prepare_deterministic ord ord' (erase g) (erase g') Hord Hord' (graph_ok_erase g Hok) (strict_erase g) (erase_equiv g g' Heq))
    as (D1 & D2 & _).
  split; [rewrite P1, Q1; exact D1|]. split; [rewrite P2, Q2; exact D2|].
  rewrite (prepare_B_outcome ord g Hord Hok Hgc). destruct (runsim_accepts (steps_of (plan_B ord g))); discriminate.
Qed.
