(* C19 lemmas: row-count time windows. *)
From Coq Require Import QArith List Bool Arith ZArith Lia Permutation.
Import ListNotations.
Require Import MV.Spec.Builtins MV.Model.BuiltinsFw MV.Proofs.BuiltinsP MV.Proofs.ImputeP.

Lemma windows_sorted_length : forall op w c, List.length (windows_sorted op w c) = List.length c.
Proof. intros. unfold windows_sorted. rewrite map_length, seq_length. reflexivity. Qed.
Lemma window_spec_length_l : forall op w times c, List.length (window_spec op w times c) = List.length c.
Proof. intros. unfold window_spec. rewrite map_length, seq_length. reflexivity. Qed.

(* ---- the time order is a permutation of the row numbers ---- *)
Lemma tinsert_perm : forall p l, Permutation (tinsert p l) (p :: l).
Proof.
  induction l as [|q t IH]; cbn. auto. destruct (fst p <? fst q)%Z. auto.
  etransitivity. apply perm_skip. exact IH. apply perm_swap.
Qed.
Lemma fold_tinsert_perm : forall l acc, Permutation (fold_left (fun a p => tinsert p a) l acc) (acc ++ l).
Proof.
  induction l as [|p t IH]; intros acc; cbn. rewrite app_nil_r. auto.
  etransitivity. apply IH. etransitivity. apply Permutation_app_tail. apply tinsert_perm.
  cbn. apply Permutation_cons_app. auto.
Qed.
Lemma map_snd_combine_seq : forall (ts : list Z) k, map snd (combine ts (seq k (List.length ts))) = seq k (List.length ts).
Proof. induction ts as [|t ts IH]; intros k; cbn. reflexivity. f_equal. apply IH. Qed.

Lemma time_order_perm_l : forall times, Permutation (time_order times) (seq 0 (List.length times)).
Proof.
  intros. unfold time_order. rewrite <- (map_snd_combine_seq times 0) at 2. apply Permutation_map.
  apply (fold_tinsert_perm _ []).
Qed.

(* ---- already sorted times: the order is the identity ---- *)
Fixpoint nondecr (ts : list Z) : Prop :=
  match ts with [] => True | t :: rest => (forall u, In u rest -> (t <= u)%Z) /\ nondecr rest end.

Lemma tinsert_last : forall p l, (forall q, In q l -> (fst q <= fst p)%Z) -> tinsert p l = l ++ [p].
Proof.
  induction l as [|q t IH]; intros H; cbn. reflexivity.
  assert ((fst p <? fst q)%Z = false) by (apply Z.ltb_ge; apply H; left; auto). rewrite H0. f_equal.
  apply IH. intros; apply H; right; auto.
Qed.

Lemma fold_tinsert_sorted : forall ts k acc, nondecr ts ->
  (forall q u, In q acc -> In u ts -> (fst q <= u)%Z) ->
  fold_left (fun a p => tinsert p a) (combine ts (seq k (List.length ts))) acc = acc ++ combine ts (seq k (List.length ts)).
Proof.
  induction ts as [|t ts IH]; intros k acc S H; cbn [List.length seq combine fold_left]. rewrite app_nil_r. reflexivity.
  destruct S as [S1 S2]. rewrite tinsert_last by (intros q Hq; cbn [fst]; apply (H q t Hq); left; auto).
  rewrite IH; auto. rewrite <- app_assoc. reflexivity.
  intros q u Hq Hu. apply in_app_or in Hq. destruct Hq as [Hq|[<-|[]]]. apply (H q u Hq). right; auto.
  cbn [fst]. apply S1. exact Hu.
Qed.

Lemma time_order_sorted : forall times, nondecr times -> time_order times = seq 0 (List.length times).
Proof.
  intros. unfold time_order. rewrite (fold_tinsert_sorted times 0 []); auto.
  - apply map_snd_combine_seq.
  - intros q u [].
Qed.

Lemma pos_of_seq : forall n k i, (k <= i < k + n)%nat -> pos_of i (seq k n) = (i - k)%nat.
Proof.
  induction n as [|n IH]; intros k i H. lia. cbn [seq pos_of]. destruct (Nat.eqb k i) eqn:E.
  apply Nat.eqb_eq in E. lia. apply Nat.eqb_neq in E. rewrite IH by lia. lia.
Qed.

Lemma window_with_spec_l : forall op w times c, window_with agg_spec op w times c = window_spec op w times c.
Proof. reflexivity. Qed.

(* rows already in time order: the spec is the rolling aggregate in row order (no reordering is involved) *)
Lemma window_spec_sorted_l : forall op w times c, List.length times = List.length c -> nondecr times ->
  window_spec op w times c = windows_sorted op w c.
Proof.
  intros op w times c L S. unfold window_spec.
  rewrite time_order_sorted by auto. rewrite L. rewrite map_nth_seq.
  set (res := windows_sorted op w c).
  assert (Lr : List.length res = List.length c) by (unfold res; apply windows_sorted_length).
  symmetry. rewrite <- (map_nth_seq res None) at 1. rewrite Lr. symmetry. apply map_ext_in. intros i Hi. apply in_seq in Hi.
  rewrite pos_of_seq by lia. f_equal. lia.
Qed.

(* a window at least as long as the column is the running aggregate *)
Lemma window_big_cumulative_l : forall op w c, (List.length c <= w)%nat ->
  windows_sorted op w c = map (fun i => win_agg op (firstn (S i) c)) (seq 0 (List.length c)).
Proof.
  intros. unfold windows_sorted. apply map_ext_in. intros i Hi. apply in_seq in Hi. unfold window_at.
  replace (S i - w)%nat with 0%nat by lia. reflexivity.
Qed.

(* a one-row window of first / last is the column itself *)
Lemma window_at_one : forall c i, (i < List.length c)%nat -> window_at 1 i c = [nth i c None].
Proof.
  intros. unfold window_at. replace (S i - 1)%nat with i by lia. rewrite (firstn_S_nth c i None H).
  rewrite skipn_app, skipn_all2 by (rewrite firstn_length; lia). rewrite firstn_length.
  replace (i - Nat.min i (List.length c))%nat with 0%nat by lia. reflexivity.
Qed.
Lemma window_one_identity_l : forall op c, (op = WFirst \/ op = WLast) -> windows_sorted op 1 c = c.
Proof.
  intros op c H. unfold windows_sorted. rewrite <- (map_nth_seq c None) at 2. apply map_ext_in. intros i Hi.
  apply in_seq in Hi. rewrite window_at_one by lia. destruct H as [-> | ->]; reflexivity.
Qed.

(* pyarrow's windows differ from the spec only through std / var *)
Lemma window_pa_same_l : forall op w times c, op <> WAgg AStd -> op <> WAgg AVar ->
  window_pa op w times c = window_spec op w times c.
Proof.
  intros op w times c H1 H2. rewrite <- window_with_spec_l. unfold window_pa, window_with.
  assert (E : forall x, win_agg_with agg_pop op x = win_agg_with agg_spec op x).
  { intros x. destruct op as [a| |]; cbn [win_agg_with]; auto. apply agg_pop_same_l; congruence. }
  cbv zeta. apply map_ext. intros i. f_equal. apply map_ext. intros j. apply E.
Qed.
