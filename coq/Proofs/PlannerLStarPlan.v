(* Star requests on ONE compute framework: ResolveComputeFrameworks.links, the feature-group steps, run_link for every
   needed Link, add_tfs and the validation - the exact plan, for every number of roots, Link set and oracle. *)
From Coq Require Import List Bool Arith Lia Permutation String.
Import ListNotations.
Require Import MV.Model.Orch MV.Model.OrchCheck MV.Model.Grouping MV.Model.PlannerA MV.Model.LinkSel MV.Model.PlannerL.
Require Import MV.Spec.PlannerASpec MV.Spec.PlannerLSpec.
Require Import MV.Proofs.PlannerASets MV.Proofs.PlannerAOrder MV.Proofs.PlannerAGraph MV.Proofs.LinkSelP.
Require Import MV.Proofs.OrchP MV.Proofs.PlanSimP MV.Proofs.PlannerAP.
Require Import MV.Proofs.PlannerLBase MV.Proofs.PlannerLStar MV.Proofs.PlannerLStages MV.Proofs.PlannerLStarData.
Open Scope nat_scope.
Open Scope list_scope.

(* a fold whose body is the identity except at one element that occurs once *)
Lemma fold_left_single : forall (A B : Type) (F : A -> B -> A) (l : list B) (x : B) (a : A),
  (forall y a', In y l -> y <> x -> F a' y = a') -> NoDup l -> In x l -> fold_left F l a = F a x.
Proof.
  intros A B F l x. induction l as [|y l IH]; intros a Hid Hnd Hx; [destruct Hx|].
  apply NoDup_cons_iff in Hnd. destruct Hnd as [Hy Hnd]. cbn [fold_left]. destruct Hx as [Hx|Hx].
  - subst y. assert (E : forall l' a', (forall z, In z l' -> z <> x) -> (forall z a'', In z l' -> z <> x -> F a'' z = a'') -> fold_left F l' a' = a').
    { intros l'. induction l' as [|z l' IH']; intros a' Hz Hf; [reflexivity|]. cbn [fold_left].
      rewrite Hf; [|left; reflexivity | apply Hz; left; reflexivity]. apply IH'; intros; [apply Hz | apply Hf]; try right; assumption. }
    apply E; [intros z Hz Ez; subst z; contradiction | intros z a'' Hz Hne; apply Hid; [right; exact Hz | exact Hne]].
  - rewrite Hid; [|left; reflexivity | intros E; subst y; contradiction]. apply IH; [|exact Hnd | exact Hx].
    intros z a' Hz Hne. apply Hid; [right; exact Hz | exact Hne].
Qed.

Lemma NoDup_app_intro_gen : forall (A : Type) (a b : list A), NoDup a -> NoDup b -> (forall x, In x a -> ~ In x b) -> NoDup (a ++ b).
Proof.
  intros A a. induction a as [|x a IH]; intros b Ha Hb Hd; [exact Hb|]. apply NoDup_cons_iff in Ha. destruct Ha as [Hx Ha].
  cbn [app]. constructor.
  - intros H. apply in_app_iff in H. destruct H as [H|H]; [contradiction | exact (Hd x (or_introl eq_refl) H)].
  - apply IH; [exact Ha | exact Hb | intros y Hy; apply Hd; right; exact Hy].
Qed.

Lemma fold_left_all_id : forall (A B : Type) (F : A -> B -> A) (l : list B) (a : A),
  (forall y a', In y l -> F a' y = a') -> fold_left F l a = a.
Proof.
  intros A B F l. induction l as [|y l IH]; intros a H; [reflexivity|]. cbn [fold_left]. rewrite H by (left; reflexivity).
  apply IH. intros z a' Hz. apply H. right. exact Hz.
Qed.

Section StarPlan.
  Variables (ord : oparam) (mro : cls -> list cls) (links : list plink).
  Variables (rs : list sroot) (f C cc : nat) (ps : list nat).
  Hypothesis Hord : ord_ok ord.
  Hypothesis Hok : star_ok rs f C ps.
  Hypothesis Hlinks : links_ok links (f :: map sr_id rs).
  Hypothesis Hflat : flat_roots mro rs.
  Hypothesis Hone : forall r, In r rs -> sr_cfw r = cc.          (* one compute framework *)
  Let g := star_g rs f C cc ps.
  Let KS := ks ord mro links rs f C cc ps.
  Let d := tsingle f KS.
  Let t0 := {| t_data := d; t_dor := d; t_order := [] |}.

  Lemma KS_key : forall k, In k KS -> k_l k = cc /\ k_r k = cc.
  Proof.
    intros k Hk. apply (ks_In ord mro links rs f C cc ps Hord Hok Hlinks Hflat) in Hk.
    destruct Hk as [l [ri [rj [_ [(Hri & Hrj & _) Ek]]]]]. subst k. unfold k_l, k_r. cbn [fst snd].
    split; apply Hone; assumption.
  Qed.

  Lemma KS_no_chain : no_chain (tkeys d).
  Proof.
    unfold d. rewrite tkeys_tsingle. intros k k' Hk Hk'. right. left.
    destruct (KS_key k Hk) as [E1 E2], (KS_key k' Hk') as [E1' E2']. split; congruence.
  Qed.

  Lemma star_ordered : get_ordered_data {| t_data := d; t_dor := []; t_order := [] |} = Ok t0.
  Proof.
    apply get_ordered_data_no_chain; [|exact KS_no_chain]. unfold d. rewrite tkeys_tsingle. apply ks_nodup.
  Qed.

  (* ---------- ResolveComputeFrameworks.links ---------- *)
  Definition PQ : list pitem := map (pg_root rs f C cc ps) ps ++ map PL KS ++ [PG C [f]].
  Definition cm1 : cfwmap := match KS with [] => [] | _ :: _ => [(f, [cc])] end.

  Lemma g_cfw_all : forall u, In u (ps ++ [f]) -> cfw_of g u = cc.
  Proof.
    intros u Hu. apply in_app_iff in Hu. destruct Hu as [Hu|[Hu|[]]].
    - apply (in_ps_root rs f C ps Hok) in Hu. destruct Hu as [r [Hr E]]. subst u.
      unfold g. rewrite (star_cfw_root rs f C cc ps Hok r Hr). apply Hone. exact Hr.
    - subst u. unfold g. apply star_cfw_f.
  Qed.

  Lemma cfw_now_cm1 : forall u, In u (ps ++ [f]) -> cfw_now ord g cm1 u = cc.
  Proof.
    intros u Hu. unfold cfw_now, cfws_of, cm1. destruct KS.
    - cbn [aget]. rewrite (ord_single ord _ _ Hord). cbn [hd]. apply g_cfw_all. exact Hu.
    - cbn [aget]. destruct (Nat.eqb u f); rewrite (ord_single ord _ _ Hord); cbn [hd]; [reflexivity | apply g_cfw_all; exact Hu].
  Qed.

  Lemma trekked_root : forall p, In p ps -> trekked_of t0 p = [].
  Proof.
    intros p Hp. unfold trekked_of, t0, d. cbn [t_dor].
    assert (Hpf : Nat.eqb p f = false) by (apply Nat.eqb_neq; intros E; subst p; exact (f_notin_ps rs f C ps Hok Hp)).
    generalize KS. intros l. induction l as [|k l IH]; [reflexivity|]. cbn [tsingle map filter snd mem existsb].
    rewrite Hpf. cbn [orb]. exact IH.
  Qed.
  Lemma trekked_f : trekked_of t0 f = KS.
  Proof.
    unfold trekked_of, t0, d. cbn [t_dor]. generalize KS. intros l. induction l as [|k l IH]; [reflexivity|].
    cbn [tsingle map filter snd mem existsb fst]. rewrite Nat.eqb_refl. cbn [orb map fst]. f_equal. exact IH.
  Qed.

  Lemma rtl_fold : forall l new, incl l KS -> new = [] \/ new = [cc] ->
    fold_left (rtl_step links [cc]) l (new, []) = (match l with [] => new | _ :: _ => [cc] end, []).
  Proof.
    intros l. induction l as [|k l IH]; intros new Hsub Hnew; [reflexivity|]. cbn [fold_left].
    assert (Hk : In k KS) by (apply Hsub; left; reflexivity). destruct (KS_key k Hk) as [E1 E2].
    assert (Hstep : rtl_step links [cc] (new, []) k = ([cc], [])).
    { unfold rtl_step. rewrite E1, E2. cbn [mem existsb]. rewrite Nat.eqb_refl. cbn [orb fst snd].
      assert (Hs : set_add cc new = [cc]).
      { destruct Hnew as [->| ->]; unfold set_add; cbn [mem existsb]; [reflexivity | rewrite Nat.eqb_refl; reflexivity]. }
      rewrite Hs. destruct (jt_of links (k_uid k)); reflexivity. }
    rewrite Hstep. rewrite IH; [|intros y Hy; apply Hsub; right; exact Hy | right; reflexivity].
    destruct l; reflexivity.
  Qed.

  Lemma star_rcf_fold : fold_left (rcf_group ord g links) PQ (Ok (t0, [])) = Ok (t0, cm1).
  Proof.
    unfold PQ. rewrite !fold_left_app.
    assert (H1 : forall l, incl l ps -> fold_left (rcf_group ord g links) (map (pg_root rs f C cc ps) l) (Ok (t0, [])) = Ok (t0, [])).
    { intros l. induction l as [|p l IH]; intros Hsub; [reflexivity|]. cbn [map fold_left].
      assert (E : rcf_group ord g links (Ok (t0, [])) (pg_root rs f C cc ps p) = Ok (t0, [])).
      { unfold pg_root, rcf_group. rewrite (ord_single ord _ _ Hord). rewrite trekked_root by (apply Hsub; left; reflexivity). reflexivity. }
      rewrite E. apply IH. intros y Hy. apply Hsub. right. exact Hy. }
    rewrite H1 by apply incl_refl.
    assert (H2 : forall l s, fold_left (rcf_group ord g links) (map PL l) (Ok s) = Ok s).
    { intros l. induction l as [|k l IH]; intros s; [reflexivity|]. cbn [map fold_left]. cbn [rcf_group]. destruct s. apply IH. }
    rewrite H2. cbn [fold_left]. unfold rcf_group. rewrite (ord_single ord _ _ Hord). rewrite trekked_f. unfold cm1.
    destruct KS as [|k0 kt] eqn:EK; [reflexivity|]. rewrite <- EK.
    assert (Ecf : cfws_of g [] f = [cc]).
    { unfold cfws_of. cbn [aget]. unfold g. rewrite star_cfw_f. reflexivity. }
    rewrite Ecf. rewrite (rtl_fold KS [] (incl_refl _) (or_introl eq_refl)). rewrite EK. cbn [fst snd fold_left aset]. reflexivity.
  Qed.

  Lemma star_rcf_links : rcf_links ord g links PQ t0 = Ok (PQ, t0, cm1).
  Proof.
    unfold rcf_links. rewrite star_rcf_fold. unfold order_links_by_frameworks. cbn [t_data t_order t0].
    rewrite (olbf_no_chain d [] KS_no_chain). cbn [drop_circular map fold_left]. rewrite order_queue_nil_orders. reflexivity.
  Qed.

  (* ---------- add_feature_group_step ---------- *)
  Lemma group_items_one : forall x, it_ty x = None -> group_items [x] = [[x]].
  Proof.
    intros x Hx. unfold group_items, group_coll, pass1. cbn [fold_left]. unfold pass1_step. rewrite Hx. cbn [fst snd app fold_left].
    unfold add_untyped. cbn [find coll_add map snd]. reflexivity.
  Qed.

  Lemma split_levels_one : forall (cl0 : nat -> list nat) u, ~ In u (cl0 u) -> split_levels cl0 [u] = ([[u]], false).
  Proof.
    intros cl0 u Hu. unfold split_levels.
    assert (E : intra_of cl0 [u] u = []).
    { unfold intra_of. apply filter_nil_iff. intros a Ha. cbn [mem existsb]. rewrite orb_false_r. apply Nat.eqb_neq. intros E. subst a. contradiction. }
    unfold no_deps. cbn [forallb]. rewrite E. reflexivity.
  Qed.

  Lemma steps_of_group_L_one : forall cm pre grp u, ~ In u (aget0 u (p2c_of g)) ->
    steps_of_group_L ord g cm pre grp [u] = [mk_step_L ord g cm pre grp [u]].
  Proof.
    intros cm pre grp u Hu. unfold steps_of_group_L, levels_of_group_L. rewrite (ord_single ord _ _ Hord). cbn [map].
    rewrite group_items_one by reflexivity. cbn [map it_id item_L]. rewrite (ord_single ord _ _ Hord).
    unfold PlannerL.cl. rewrite (split_levels_one (fun u0 => aget0 u0 (p2c_of g)) u Hu). cbn [flat_map fst map app]. reflexivity.
  Qed.

  Lemma g_cl : p2c_of g = [(f, ps)]. Proof. exact (star_p2c rs f C cc ps Hok). Qed.
  Lemma g_closure_root : forall p, In p ps -> aget0 p (p2c_of g) = [].
  Proof.
    intros p Hp. rewrite g_cl. unfold aget0. cbn [aget].
    assert (E : Nat.eqb p f = false) by (apply Nat.eqb_neq; intros E; subst p; exact (f_notin_ps rs f C ps Hok Hp)). rewrite E. reflexivity.
  Qed.
  Lemma g_closure_f : aget0 f (p2c_of g) = ps.
  Proof. rewrite g_cl. unfold aget0. cbn [aget]. rewrite Nat.eqb_refl. reflexivity. Qed.

  Definition root_step (p : nat) : lstep :=
    LFG {| sid := 0; skind := KFG; uuids := [p]; req := []; requested := false |} (grp_of g p) cc (cir_of (p2c_of g) [p]) [] p.
  Definition cons_step : lstep :=
    LFG {| sid := 0; skind := KFG; uuids := [f]; req := ord 3 (ps ++ map k_uid KS); requested := true |} C cc (cir_of (p2c_of g) [f]) [] f.

  Lemma mk_root_step : forall p pre, In p ps -> pre = [] -> mk_step_L ord g cm1 pre (grp_of g p) [p] = root_step p.
  Proof.
    intros p pre Hp ->. unfold mk_step_L, root_step. rewrite (ord_single ord _ _ Hord). cbn [hd].
    rewrite cfw_now_cm1 by (apply in_app_iff; left; exact Hp).
    assert (Er : req_of_level (PlannerL.cl g) [p] = []).
    { unfold req_of_level, PlannerL.cl. cbn [fold_left]. rewrite g_cl. cbn [aget].
      assert (E : Nat.eqb p f = false) by (apply Nat.eqb_neq; intros E; subst p; exact (f_notin_ps rs f C ps Hok Hp)). rewrite E. reflexivity. }
    rewrite Er. cbn [set_union fold_left]. rewrite (ord_nil ord _ Hord).
    assert (Eq : existsb (isreq g) [p] = false).
    { cbn [existsb]. apply (in_ps_root rs f C ps Hok) in Hp. destruct Hp as [r [Hr E]]. subst p.
      unfold g. rewrite (star_req_root rs f C cc ps Hok r Hr). reflexivity. }
    rewrite Eq. reflexivity.
  Qed.

  Lemma KS_uid_fresh : forall k, In k KS -> ~ In (k_uid k) (ps ++ [f]) /\ ~ In (js_uid (k_uid k)) (ps ++ [f]).
  Proof.
    intros k Hk. destruct (ks_plink ord mro links rs f C cc ps Hord Hok Hlinks Hflat k Hk) as [l [El Hl]].
    apply (plink_of_Some links) in El. destruct El as [_ El]. rewrite <- El.
    destruct Hlinks as (_ & _ & _ & _ & Hfresh & _). destruct (Hfresh l Hl) as (F1 & F2 & _).
    assert (Hsub : forall x, In x (ps ++ [f]) -> In x (f :: map sr_id rs)).
    { intros x Hx. apply in_app_iff in Hx. destruct Hx as [Hx|[Hx|[]]]; [right | left; exact Hx].
      destruct Hok as (_ & _ & _ & Hp). exact (Permutation_in _ Hp Hx). }
    split; intros H; [apply F1 | apply F2]; apply Hsub; exact H.
  Qed.

  Lemma links_pre_root : forall p, In p ps -> links_pre d [p] = [].
  Proof.
    intros p Hp. unfold links_pre. cbn [fold_left]. unfold child_links, d.
    assert (Hpf : Nat.eqb p f = false) by (apply Nat.eqb_neq; intros E; subst p; exact (f_notin_ps rs f C ps Hok Hp)).
    assert (E : filter (fun kv : lkey * list nat => mem p (snd kv)) (tsingle f KS) = []).
    { generalize KS. intros l. induction l as [|k l IH]; [reflexivity|]. cbn [tsingle map filter snd mem existsb]. rewrite Hpf. exact IH. }
    rewrite E. reflexivity.
  Qed.
  Lemma links_pre_f : links_pre d [f] = map k_uid KS.
  Proof.
    unfold links_pre. cbn [fold_left]. unfold child_links, d.
    assert (E : filter (fun kv : lkey * list nat => mem f (snd kv)) (tsingle f KS) = tsingle f KS).
    { generalize KS. intros l. induction l as [|k l IH]; [reflexivity|]. cbn [tsingle map filter snd mem existsb]. rewrite Nat.eqb_refl.
      cbn [orb]. f_equal. exact IH. }
    rewrite E. unfold tsingle. rewrite map_map. cbn [fst].
    pose proof (ks_uids_nodup ord mro links rs f C cc ps Hord Hok Hlinks Hflat) as Hnd. fold KS in Hnd.
    change (map (fun x : lkey => k_uid x) KS) with (map k_uid KS).
    rewrite (dedupe_nodup _ Hnd). fold (dedupe (map k_uid KS)). apply dedupe_nodup. exact Hnd.
  Qed.

  Lemma mk_cons_step : mk_step_L ord g cm1 (map k_uid KS) C [f] = cons_step.
  Proof.
    unfold mk_step_L, cons_step. rewrite (ord_single ord _ _ Hord). cbn [hd].
    rewrite cfw_now_cm1 by (apply in_app_iff; right; left; reflexivity).
    assert (Er : req_of_level (PlannerL.cl g) [f] = ps).
    { unfold req_of_level, PlannerL.cl. cbn [fold_left]. rewrite g_cl. cbn [aget]. rewrite Nat.eqb_refl.
      fold (dedupe ps). apply dedupe_nodup. exact (ps_nodup rs f C ps Hok). }
    rewrite Er.
    assert (Eu : set_union ps (map k_uid KS) = ps ++ map k_uid KS).
    { apply set_union_nodup_l.
      - pose proof (ks_uids_nodup ord mro links rs f C cc ps Hord Hok Hlinks Hflat) as Hnd. exact Hnd.
      - intros x Hx Hin. apply in_map_iff in Hx. destruct Hx as [k [E Hk]]. subst x.
        destruct (KS_uid_fresh k Hk) as [F _]. apply F. apply in_app_iff. left. exact Hin. }
    rewrite Eu.
    assert (Eq : existsb (isreq g) [f] = true) by (cbn [existsb]; unfold g; rewrite star_req_f; reflexivity).
    rewrite Eq. reflexivity.
  Qed.

  Definition PP : list xitem := map XS (map root_step ps) ++ map XL KS ++ [XS cons_step].

  Lemma star_pre_plan : pre_plan ord g cm1 d PQ = PP.
  Proof.
    unfold pre_plan, PQ, PP. rewrite !flat_map_app. f_equal; [|f_equal].
    - assert (H : forall l, incl l ps ->
                flat_map (fun it => match it with
                                    | PL k => [XL k]
                                    | PG grp ms => map XS (steps_of_group_L ord g cm1 (links_pre d ms) grp ms)
                                    end) (map (pg_root rs f C cc ps) l) = map XS (map root_step l)).
      { intros l. induction l as [|p l IH]; intros Hsub; [reflexivity|]. cbn [map flat_map].
        assert (Hp : In p ps) by (apply Hsub; left; reflexivity).
        rewrite IH by (intros y Hy; apply Hsub; right; exact Hy).
        unfold pg_root at 1. rewrite (links_pre_root p Hp).
        rewrite steps_of_group_L_one by (rewrite (g_closure_root p Hp); intros []).
        fold g. rewrite (mk_root_step p [] Hp eq_refl). reflexivity. }
      apply H. apply incl_refl.
    - generalize KS. intros l. induction l as [|k l IH]; [reflexivity|]. cbn [map flat_map app]. rewrite IH. reflexivity.
    - cbn [flat_map]. rewrite app_nil_r. rewrite links_pre_f.
      rewrite steps_of_group_L_one by (rewrite g_closure_f; exact (f_notin_ps rs f C ps Hok)).
      rewrite mk_cons_step. reflexivity.
  Qed.

  (* ---------- run_link ---------- *)
  Definition FSC : list (list nat) := map (fun p => [p]) ps ++ [[f]].

  Lemma star_fsc : fsc_of PP = FSC.
  Proof.
    unfold PP, FSC, fsc_of. rewrite !flat_map_app. f_equal; [|f_equal].
    - generalize ps. intros l. induction l as [|p l IH]; [reflexivity|]. cbn [map flat_map root_step uuids app]. rewrite IH. reflexivity.
    - generalize KS. intros l. induction l as [|k l IH]; [reflexivity|]. cbn [map flat_map app]. exact IH.
  Qed.

  Lemma FSC_nodup : NoDup FSC.
  Proof.
    unfold FSC. apply NoDup_app_intro_gen.
    - apply FinFun.Injective_map_NoDup; [intros x y E; injection E as E; exact E | exact (ps_nodup rs f C ps Hok)].
    - constructor; [intros [] | constructor].
    - intros x Hx [E|[]]. subst x. apply in_map_iff in Hx. destruct Hx as [p [E Hp]]. injection E as E. subst p.
      exact (f_notin_ps rs f C ps Hok Hp).
  Qed.

  Lemma aunion_fresh : forall p xs (m : amap), ~ In p (map fst m) -> aunion p xs m = m ++ [(p, dedupe xs)].
  Proof.
    intros p xs m. induction m as [|[k v] m IH]; intros H; [reflexivity|]. cbn [aunion].
    destruct (Nat.eqb p k) eqn:E; [apply Nat.eqb_eq in E; subst k; exfalso; apply H; left; reflexivity|].
    cbn [app]. f_equal. apply IH. intros H'. apply H. right. exact H'.
  Qed.

  Lemma star_find_feature_uuids : find_feature_uuids (pso ord f ps) FSC = map (fun p => (p, [p])) (pso ord f ps).
  Proof.
    unfold find_feature_uuids.
    assert (H : forall l used out, incl l ps -> NoDup l -> (forall x, In x l -> ~ In x used) -> (forall x, In x l -> ~ In x (map fst out)) ->
              fold_left (fun (st : list nat * amap) p =>
                 if mem p (fst st) then st
                 else fold_left (fun st' fu => if mem p fu then (set_union (fst st') fu, aunion p fu (snd st')) else st') FSC st)
                l (used, out) = (used ++ l, out ++ map (fun p => (p, [p])) l)).
    { intros l. induction l as [|p l IH]; intros used out Hsub Hnd Hu Ho; cbn [fold_left map].
      - rewrite !app_nil_r. reflexivity.
      - apply NoDup_cons_iff in Hnd. destruct Hnd as [Hp Hnd]. cbn [fst].
        assert (Hm : mem p used = false) by (apply mem_false; apply Hu; left; reflexivity). rewrite Hm.
        assert (Hpp : In p ps) by (apply Hsub; left; reflexivity).
        rewrite (fold_left_single _ _ (fun st' fu => if mem p fu then (set_union (fst st') fu, aunion p fu (snd st')) else st') FSC [p]).
        + cbn [mem existsb]. rewrite Nat.eqb_refl. cbn [orb fst snd].
          rewrite set_union_nodup_l; [|constructor; [intros [] | constructor] | intros x [E|[]]; subst x; apply Hu; left; reflexivity].
          rewrite aunion_fresh by (apply Ho; left; reflexivity).
          rewrite IH.
          * rewrite <- !app_assoc. reflexivity.
          * intros y Hy. apply Hsub. right. exact Hy.
          * exact Hnd.
          * intros x Hx Hin. apply in_app_iff in Hin. destruct Hin as [Hin|[E|[]]]; [exact (Hu x (or_intror Hx) Hin) | subst x; contradiction].
          * intros x Hx Hin. rewrite map_app in Hin. apply in_app_iff in Hin. destruct Hin as [Hin|[E|[]]]; [exact (Ho x (or_intror Hx) Hin) | cbn in E; subst x; contradiction].
        + intros y a' Hy Hne. unfold FSC in Hy. apply in_app_iff in Hy. destruct Hy as [Hy|[Hy|[]]].
          * apply in_map_iff in Hy. destruct Hy as [q [E Hq]]. subst y. cbn [mem existsb]. rewrite orb_false_r.
            destruct (Nat.eqb p q) eqn:E; [apply Nat.eqb_eq in E; subst q; contradiction | reflexivity].
          * subst y. cbn [mem existsb]. rewrite orb_false_r.
            destruct (Nat.eqb p f) eqn:E; [apply Nat.eqb_eq in E; subst p; exfalso; exact (f_notin_ps rs f C ps Hok Hpp) | reflexivity].
        + exact FSC_nodup.
        + unfold FSC. apply in_app_iff. left. apply in_map_iff. exists p. split; [reflexivity | exact Hpp]. }
    rewrite H.
    - reflexivity.
    - intros x Hx. apply (pso_In ord f ps Hord). exact Hx.
    - exact (pso_nodup ord rs f C ps Hord Hok).
    - intros x _ [].
    - intros x _ [].
  Qed.

  Lemma FSCPU_nodup : NoDup (map (fun p : nat => (p, [p])) (pso ord f ps)).
  Proof.
    apply FinFun.Injective_map_NoDup; [intros x y E; injection E as E _; exact E | exact (pso_nodup ord rs f C ps Hord Hok)].
  Qed.

  Lemma g_grp_root' : forall r, In r rs -> grp_of g (sr_id r) = sr_grp r.
  Proof. exact (star_grp_root rs f C cc ps Hok). Qed.

  (* the double loop of case_link_fw_is_equal_to_children_fw finds exactly the pair (left root, right root) *)
  Lemma star_solve_lr : forall k l ri rj, In k KS -> In l links -> needed_by rs l ri rj ->
    solve_lr ord g mro cm1 k (pl_l l) (map (fun p => (p, [p])) (pso ord f ps)) = (1, Some ([sr_id ri], [sr_id rj])).
  Proof.
    intros k l ri rj Hk Hl (Hri & Hrj & E1 & E2). unfold solve_lr.
    destruct (KS_key k Hk) as [Ekl Ekr].
    assert (Hne : sr_id ri <> sr_id rj).
    { intros E. pose proof (root_by_id_unique rs f C ps Hok ri rj Hri Hrj E). subst rj.
      destruct Hlinks as (_ & _ & _ & Hself & _). apply (Hself l Hl). congruence. }
    assert (Hin : forall r, In r rs -> In (sr_id r, [sr_id r]) (map (fun p => (p, [p])) (pso ord f ps))).
    { intros r Hr. apply in_map_iff. exists (sr_id r). split; [reflexivity|]. apply (pso_In ord f ps Hord).
      apply (in_ps_root rs f C ps Hok). exists r. split; [exact Hr | reflexivity]. }
    assert (Hroot : forall e, In e (map (fun p => (p, [p])) (pso ord f ps)) -> exists r, In r rs /\ e = (sr_id r, [sr_id r])).
    { intros e He. apply in_map_iff in He. destruct He as [p [E Hp]]. apply (pso_In ord f ps Hord) in Hp.
      apply (in_ps_root rs f C ps Hok) in Hp. destruct Hp as [r [Hr Er]]. exists r. split; [exact Hr|]. subst p. symmetry. exact E. }
    assert (Hcf : forall r, In r rs -> cfw_now ord g cm1 (sr_id r) = cc).
    { intros r Hr. apply cfw_now_cm1. apply in_app_iff. left. apply (in_ps_root rs f C ps Hok). exists r. split; [exact Hr | reflexivity]. }
    rewrite (fold_left_single _ _ _ _ (sr_id ri, [sr_id ri])); [| |exact FSCPU_nodup | exact (Hin ri Hri)].
    - cbn [fst snd]. rewrite (Hcf ri Hri), Ekl, Nat.eqb_refl. cbn [negb].
      rewrite (g_grp_root' ri Hri), (issub_flat mro rs Hflat ri _ Hri), E1, Nat.eqb_refl. cbn [negb].
      rewrite (fold_left_single _ _ _ _ (sr_id rj, [sr_id rj])); [| |exact FSCPU_nodup | exact (Hin rj Hrj)].
      + cbn [fst snd]. apply Nat.eqb_neq in Hne. rewrite Hne. rewrite (Hcf rj Hrj), Ekr, Nat.eqb_refl. cbn [negb].
        rewrite (g_grp_root' rj Hrj), (issub_flat mro rs Hflat rj _ Hrj), E2, Nat.eqb_refl. cbn [negb]. reflexivity.
      + intros e a' He Hne'. destruct (Hroot e He) as [r [Hr Ee]]. subst e. cbn [fst snd].
        destruct (Nat.eqb (sr_id ri) (sr_id r)); [reflexivity|]. rewrite (Hcf r Hr), Ekr, Nat.eqb_refl. cbn [negb].
        rewrite (g_grp_root' r Hr), (issub_flat mro rs Hflat r _ Hr).
        destruct (Nat.eqb (rfg (pl_l l)) (sr_grp r)) eqn:Eg; [|reflexivity].
        exfalso. apply Nat.eqb_eq in Eg. apply Hne'. assert (r = rj) by (apply (root_by_grp_unique rs f C ps Hok); [assumption | assumption | congruence]).
        subst r. reflexivity.
    - intros e a' He Hne'. destruct (Hroot e He) as [r [Hr Ee]]. subst e. cbn [fst snd].
      rewrite (Hcf r Hr), Ekl, Nat.eqb_refl. cbn [negb].
      rewrite (g_grp_root' r Hr), (issub_flat mro rs Hflat r _ Hr).
      destruct (Nat.eqb (lfg (pl_l l)) (sr_grp r)) eqn:Eg; [|reflexivity].
      exfalso. apply Nat.eqb_eq in Eg. apply Hne'. assert (r = ri) by (apply (root_by_grp_unique rs f C ps Hok); [assumption | assumption | congruence]).
      subst r. reflexivity.
  Qed.

  Definition plain_jt (j : jointype) : bool := match j with INNER | LEFT | OUTER => true | _ => false end.

  Lemma star_is_valid : forall k l ri rj, In k KS -> In l links -> needed_by rs l ri rj ->
    is_valid ord g mro cm1 FSC k (pl_l l) f =
      match jt (pl_l l) with RIGHT => VErr e_right | _ => VPair [sr_id ri] [sr_id rj] end.
  Proof.
    intros k l ri rj Hk Hl Hn. unfold is_valid.
    assert (Hself : Nat.eqb (lfg (pl_l l)) (rfg (pl_l l)) = false).
    { apply Nat.eqb_neq. destruct Hlinks as (_ & _ & _ & Hs & _). exact (Hs l Hl). }
    rewrite Hself. destruct (KS_key k Hk) as [Ekl _]. rewrite Ekl.
    rewrite cfw_now_cm1 by (apply in_app_iff; right; left; reflexivity). rewrite Nat.eqb_refl.
    unfold PlannerL.cl. rewrite g_closure_f. fold (pso ord f ps). rewrite star_find_feature_uuids.
    pose proof (ps_nonempty rs f C cc ps Hok) as Hne.
    assert (Hpso : pso ord f ps <> []) by (unfold pso; apply ord_nonempty; [exact Hord | exact Hne]).
    pose proof (star_solve_lr k l ri rj Hk Hl Hn) as Hs.
    destruct (map (fun p : nat => (p, [p])) (pso ord f ps)) as [|e0 et] eqn:EX.
    - apply map_eq_nil in EX. contradiction.
    - rewrite Hs. destruct (jt (pl_l l)); reflexivity.
  Qed.

  Definition root_of_grp (G : nat) : nat :=
    match find (fun r => Nat.eqb (sr_grp r) G) rs with Some r => sr_id r | None => 0 end.
  Lemma root_of_grp_spec : forall r, In r rs -> root_of_grp (sr_grp r) = sr_id r.
  Proof.
    intros r Hr. unfold root_of_grp. destruct (find (fun r0 => Nat.eqb (sr_grp r0) (sr_grp r)) rs) as [r'|] eqn:E.
    - apply find_some in E. destruct E as [Hr' E]. apply Nat.eqb_eq in E.
      rewrite (root_by_grp_unique rs f C ps Hok r' r Hr' Hr E). reflexivity.
    - exfalso. apply (find_none _ _ E r) in Hr. rewrite Nat.eqb_refl in Hr. discriminate.
  Qed.

  Definition join_step (k : lkey) : lstep :=
    LJOIN {| sid := 0; skind := KJOIN; uuids := [js_uid (k_uid k); k_uid k]; req := ps; requested := false |}
          (k_uid k) cc cc [root_of_grp (lfg_of links (k_uid k))] [root_of_grp (rfg_of links (k_uid k))].

  Lemma reduce_children_f : reduce_children g [f] = Some [f].
  Proof. unfold reduce_children. cbn [fold_left]. unfold g. rewrite star_children_f by exact Hok. reflexivity. Qed.

  Lemma star_run_link : forall k, In k KS ->
    run_link ord g mro links cm1 t0 FSC k =
      match jt_of links (k_uid k) with
      | RIGHT => Err e_right
      | APPEND | UNION => Err e_appendunion
      | _ => Ok (Some (join_step k))
      end.
  Proof.
    intros k Hk. pose proof Hk as Hk'. apply (ks_In ord mro links rs f C cc ps Hord Hok Hlinks Hflat) in Hk'.
    destruct Hk' as [l [ri [rj [Hl [Hn Ek]]]]]. pose proof Hn as (Hri & Hrj & E1 & E2).
    assert (Eu : k_uid k = pl_uid l) by (subst k; reflexivity).
    unfold run_link. rewrite Eu, (plink_of_In links rs f Hlinks l Hl).
    assert (Ed : tget0 k (t_data t0) = [f]).
    { unfold t0, d, tget0. cbn [t_data]. rewrite (tget_tsingle_in f KS k Hk). reflexivity. }
    rewrite Ed. rewrite reduce_children_f. rewrite (ord_single ord _ _ Hord). cbn [fold_left].
    rewrite (star_is_valid k l ri rj Hk Hl Hn).
    unfold jt_of. rewrite (plink_of_In links rs f Hlinks l Hl).
    destruct (KS_key k Hk) as [Ekl Ekr].
    assert (Ereq : set_union [] (aget0 f (PlannerL.cl g)) = ps).
    { unfold PlannerL.cl. rewrite g_closure_f. fold (dedupe ps). apply dedupe_nodup. exact (ps_nodup rs f C ps Hok). }
    assert (Ejs : LJOIN {| sid := 0; skind := KJOIN; uuids := [js_uid (pl_uid l); pl_uid l]; req := ps; requested := false |}
                     (pl_uid l) cc cc [sr_id ri] [sr_id rj] = join_step k).
    { unfold join_step. rewrite Eu. unfold lfg_of, rfg_of. rewrite (plink_of_In links rs f Hlinks l Hl).
      rewrite E1, E2, (root_of_grp_spec ri Hri), (root_of_grp_spec rj Hrj). reflexivity. }
    destruct (jt (pl_l l)) eqn:Ej; cbn [jt_eqb is_set_jt]; rewrite ?Ekl, ?Ekr; cbn [t_order t0 fold_left]; rewrite ?Ereq, ?Ejs; reflexivity.
  Qed.

  (* ---------- add_joinstep ---------- *)
  Definition bad_key (k : lkey) : bool := negb (plain_jt (jt_of links (k_uid k))).
  Definition err_of (k : lkey) : nat := match jt_of links (k_uid k) with RIGHT => e_right | _ => e_appendunion end.
  Definition plan0 : list lstep := map root_step ps ++ map join_step KS ++ [cons_step].

  Lemma star_add_joinstep :
    match find bad_key KS with
    | None => exists jr, add_joinstep ord g mro links cm1 t0 PP = Ok (plan0, jr)
    | Some k => add_joinstep ord g mro links cm1 t0 PP = Err (err_of k)
    end.
  Proof.
    unfold add_joinstep. cbv zeta. rewrite star_fsc.
    pose (step := fun (st : res (list lstep * jcoll * list (nat * list nat))) x =>
            match st with
            | Err e => Err e
            | Ok (out, jc, jr) =>
              match x with
              | XS s => Ok (out ++ [s], jc, jr)
              | XL k =>
                match run_link ord g mro links cm1 t0 FSC k with
                | Err e => Err e
                | Ok None => Ok (out, jc, jr)
                | Ok (Some js) =>
                  match js with
                  | LJOIN _ uid lf rf _ _ => Ok (out ++ [js], jc ++ [(uid, (lf, rf))], jr ++ [(uid, jc_required jc lf rf)])
                  | _ => Ok (out ++ [js], jc, jr)
                  end
                end
              end
            end).
    change (match find bad_key KS with
            | None => exists jr, match fold_left step PP (Ok ([], [], [])) with
                                 | Err e => Err e
                                 | Ok (out, _, jr0) => Ok (out, jr0)
                                 end = Ok (plan0, jr)
            | Some k => match fold_left step PP (Ok ([], [], [])) with
                        | Err e => Err e
                        | Ok (out, _, jr0) => Ok (out, jr0)
                        end = Err (err_of k)
            end).
    unfold PP. rewrite !fold_left_app.
    assert (H1 : forall (l : list lstep) out jc jr, fold_left step (map XS l) (Ok (out, jc, jr)) = Ok (out ++ l, jc, jr)).
    { intros l. induction l as [|x l IH]; intros out jc jr; cbn [map fold_left]; [rewrite app_nil_r; reflexivity|].
      unfold step at 2. rewrite IH, <- app_assoc. reflexivity. }
    assert (Herr : forall (l : list xitem) e, fold_left step l (Err e) = Err e).
    { intros l. induction l as [|x l IH]; intros e; [reflexivity | cbn [fold_left]; apply IH]. }
    rewrite H1. cbn [app].
    assert (H2 : forall l out jc jr, incl l KS ->
              match find bad_key l with
              | None => exists jc' jr', fold_left step (map XL l) (Ok (out, jc, jr)) = Ok (out ++ map join_step l, jc', jr')
              | Some k => fold_left step (map XL l) (Ok (out, jc, jr)) = Err (err_of k)
              end).
    { intros l. induction l as [|k l IH]; intros out jc jr Hsub; cbn [find map fold_left].
      - exists jc, jr. rewrite app_nil_r. reflexivity.
      - assert (Hk : In k KS) by (apply Hsub; left; reflexivity).
        assert (Estep : step (Ok (out, jc, jr)) (XL k) =
                  if bad_key k then Err (err_of k)
                  else Ok (out ++ [join_step k], jc ++ [(k_uid k, (cc, cc))], jr ++ [(k_uid k, jc_required jc cc cc)])).
        { unfold step. rewrite (star_run_link k Hk). unfold bad_key, err_of.
          destruct (jt_of links (k_uid k)); cbn [plain_jt negb]; reflexivity. }
        rewrite Estep. destruct (bad_key k); [apply Herr|].
        specialize (IH (out ++ [join_step k]) (jc ++ [(k_uid k, (cc, cc))]) (jr ++ [(k_uid k, jc_required jc cc cc)])
                       (fun y Hy => Hsub y (or_intror Hy))).
        destruct (find bad_key l) as [kb|]; [exact IH|].
        destruct IH as [jc' [jr' IH]]. exists jc', jr'. etransitivity; [exact IH|]. rewrite <- app_assoc. reflexivity. }
    specialize (H2 KS (map root_step ps) [] [] (incl_refl _)).
    destruct (find bad_key KS) as [kb|].
    - rewrite H2. rewrite Herr. reflexivity.
    - destruct H2 as [jc' [jr' H2]]. exists jr'. rewrite H2. cbn [fold_left]. unfold step. unfold plan0. rewrite <- app_assoc. reflexivity.
  Qed.

  (* ---------- the validation ---------- *)
  Definition rcore (p : nat) : step := {| sid := 0; skind := KFG; uuids := [p]; req := []; requested := false |}.
  Definition jcore (k : lkey) : step :=
    {| sid := 0; skind := KJOIN; uuids := [js_uid (k_uid k); k_uid k]; req := ps; requested := false |}.
  Definition ccore : step := {| sid := 0; skind := KFG; uuids := [f]; req := ord 3 (ps ++ map k_uid KS); requested := true |}.
  Definition cores : list step := map rcore ps ++ map jcore KS ++ [ccore].

  Lemma plan0_cores : map core plan0 = cores.
  Proof. unfold plan0, cores. rewrite !map_app, !map_map. reflexivity. Qed.

  Lemma in_cores : forall s, In s cores -> (exists p, In p ps /\ s = rcore p) \/ (exists k, In k KS /\ s = jcore k) \/ s = ccore.
  Proof.
    intros s H. unfold cores in H. apply in_app_iff in H. destruct H as [H|H].
    - left. apply in_map_iff in H. destruct H as [p [E Hp]]. exists p. split; [exact Hp | symmetry; exact E].
    - apply in_app_iff in H. destruct H as [H|[H|[]]].
      + right. left. apply in_map_iff in H. destruct H as [k [E Hk]]. exists k. split; [exact Hk | symmetry; exact E].
      + right. right. symmetry. exact H.
  Qed.

  Lemma nodup_js_pairs : forall U, NoDup U -> (forall a b, In a U -> In b U -> a <> S b) -> NoDup (flat_map (fun u => [S u; u]) U).
  Proof.
    intros U. induction U as [|u U IH]; intros Hnd Hs; [constructor|]. apply NoDup_cons_iff in Hnd. destruct Hnd as [Hu Hnd].
    cbn [flat_map app].
    assert (Hin : forall x, In x (flat_map (fun u => [S u; u]) U) -> exists v, In v U /\ (x = S v \/ x = v)).
    { intros x Hx. apply in_flat_map in Hx. destruct Hx as [v [Hv [E|[E|[]]]]]; exists v; split; auto. }
    constructor; [|constructor].
    - intros [E|H]; [lia|]. destruct (Hin _ H) as [v [Hv [E|E]]].
      + injection E as E. subst v. contradiction.
      + apply (Hs v u); [right; exact Hv | left; reflexivity | symmetry; exact E].
    - intros H. destruct (Hin _ H) as [v [Hv [E|E]]].
      + apply (Hs u v); [left; reflexivity | right; exact Hv | exact E].
      + subst v. contradiction.
    - apply IH; [exact Hnd | intros a b Ha Hb; apply Hs; right; assumption].
  Qed.

  Lemma KS_uids : forall u, In u (map k_uid KS) -> exists l, In l links /\ pl_uid l = u.
  Proof.
    intros u Hu. apply in_map_iff in Hu. destruct Hu as [k [E Hk]]. subst u.
    destruct (ks_plink ord mro links rs f C cc ps Hord Hok Hlinks Hflat k Hk) as [l [El Hl]].
    apply (plink_of_Some links) in El. exists l. split; [exact Hl | apply El].
  Qed.

  Lemma all_uuids_cores : flat_map uuids cores = ps ++ flat_map (fun u => [S u; u]) (map k_uid KS) ++ [f].
  Proof.
    unfold cores. rewrite !flat_map_app. f_equal; [|f_equal].
    - generalize ps. intros l. induction l as [|p l IH]; [reflexivity|]. cbn [map flat_map uuids rcore app]. rewrite IH. reflexivity.
    - generalize KS. intros l. induction l as [|k l IH]; [reflexivity|]. cbn [map flat_map uuids jcore app js_uid]. rewrite IH. reflexivity.
  Qed.

  Lemma fresh_pairs : forall x, In x (flat_map (fun u => [S u; u]) (map k_uid KS)) -> ~ In x (ps ++ [f]).
  Proof.
    intros x Hx. apply in_flat_map in Hx. destruct Hx as [u [Hu Hx]]. apply in_map_iff in Hu. destruct Hu as [k [E Hk]]. subst u.
    destruct (KS_uid_fresh k Hk) as [F1 F2]. destruct Hx as [E|[E|[]]]; subst x; assumption.
  Qed.

  Lemma cores_nodup : NoDup (flat_map uuids cores).
  Proof.
    rewrite all_uuids_cores. apply NoDup_app_intro_gen; [exact (ps_nodup rs f C ps Hok) | apply NoDup_app_intro_gen|].
    - apply nodup_js_pairs; [exact (ks_uids_nodup ord mro links rs f C cc ps Hord Hok Hlinks Hflat)|].
      intros a b Ha Hb. destruct (KS_uids a Ha) as [la [Hla Ea]], (KS_uids b Hb) as [lb [Hlb Eb]]. subst a b.
      destruct Hlinks as (_ & _ & _ & _ & _ & Hd). apply (Hd la lb Hla Hlb).
    - constructor; [intros [] | constructor].
    - intros x Hx [E|[]]. subst x. apply (fresh_pairs f Hx). apply in_app_iff. right. left. reflexivity.
    - intros x Hx Hin. apply in_app_iff in Hin. destruct Hin as [Hin|[E|[]]].
      + apply (fresh_pairs x Hin). apply in_app_iff. left. exact Hx.
      + subst x. exact (f_notin_ps rs f C ps Hok Hx).
  Qed.

  Definition cls_of (s : step) : nat := match skind s with KJOIN => 1 | _ => match req s with [] => 0 | _ :: _ => 2 end end.
  Definition rk (i : nat) : nat := match nth_error cores i with Some s => cls_of s | None => 0 end.

  Lemma ccore_req_In : forall u, In u (req ccore) <-> In u ps \/ In u (map k_uid KS).
  Proof. intros u. cbn [req ccore]. rewrite (ord_In ord _ _ _ Hord), in_app_iff. reflexivity. Qed.
  Lemma cls_ccore : cls_of ccore = 2.
  Proof.
    unfold cls_of. cbn [skind ccore req]. pose proof (ps_nonempty rs f C cc ps Hok) as Hne.
    assert (H : ord 3 (ps ++ map k_uid KS) <> []).
    { apply ord_nonempty; [exact Hord|]. intros E. apply app_eq_nil in E. destruct E as [E _]. contradiction. }
    destruct (ord 3 (ps ++ map k_uid KS)); [contradiction | reflexivity].
  Qed.

  Lemma cores_wf : exists order, wf_plan order (number 0 cores) = true.
  Proof.
    exists (order_upto (number 0 cores) rk 3). apply wf_plan_of_rank.
    - intros s Hs. apply In_number in Hs. destruct Hs as [j [s0 [Hj ->]]]. rewrite uuids_set_sid.
      apply nth_error_In in Hj. destruct (in_cores s0 Hj) as [[p [_ ->]]|[[k [_ ->]]| ->]]; discriminate.
    - rewrite map_sid_number. apply seq_NoDup.
    - rewrite all_uuids_number. exact cores_nodup.
    - intros s u Hs Hu. rewrite all_uuids_number, all_uuids_cores. apply In_number in Hs. destruct Hs as [j [s0 [Hj ->]]].
      rewrite req_set_sid in Hu. apply nth_error_In in Hj. destruct (in_cores s0 Hj) as [[p [_ ->]]|[[k [_ ->]]| ->]].
      + destruct Hu.
      + apply in_app_iff. left. exact Hu.
      + apply ccore_req_In in Hu. destruct Hu as [Hu|Hu]; apply in_app_iff; [left; exact Hu | right].
        apply in_app_iff. left. apply in_flat_map. exists u. split; [exact Hu | right; left; reflexivity].
    - intros s Hs. apply In_number in Hs. destruct Hs as [j [s0 [Hj ->]]]. rewrite sid_set_sid. cbn [plus]. unfold rk. rewrite Hj.
      unfold cls_of. destruct (skind s0); [destruct (req s0) | destruct (req s0) | ]; lia.
    - intros s s' u Hs Hs' Hu Hu'. apply In_number in Hs, Hs'. destruct Hs as [j [s0 [Hj ->]]], Hs' as [j' [s0' [Hj' ->]]].
      rewrite !sid_set_sid. cbn [plus]. unfold rk. rewrite Hj, Hj'. rewrite req_set_sid in Hu. rewrite uuids_set_sid in Hu'.
      apply nth_error_In in Hj, Hj'.
      assert (Hu'_cases : In u ps \/ In u (flat_map (fun u => [S u; u]) (map k_uid KS)) \/ u = f -> True) by auto.
      destruct (in_cores s0 Hj) as [[p [_ ->]]|[[k [Hk ->]]| ->]].
      + destruct Hu.
      + cbn [req jcore] in Hu. destruct (in_cores s0' Hj') as [[p' [_ ->]]|[[k' [Hk' ->]]| ->]].
        * cbn. lia.
        * exfalso. cbn [uuids jcore] in Hu'. destruct (KS_uid_fresh k' Hk') as [F1 F2].
          destruct Hu' as [E|[E|[]]]; subst u; [apply F2 | apply F1]; apply in_app_iff; left; exact Hu.
        * exfalso. cbn [uuids ccore] in Hu'. destruct Hu' as [E|[]]. subst u. exact (f_notin_ps rs f C ps Hok Hu).
      + rewrite cls_ccore. destruct (in_cores s0' Hj') as [[p' [_ ->]]|[[k' [Hk' ->]]| ->]].
        * cbn. lia.
        * cbn. lia.
        * exfalso. cbn [uuids ccore] in Hu'. destruct Hu' as [E|[]]. subst u. apply ccore_req_In in Hu. destruct Hu as [Hu|Hu].
          -- exact (f_notin_ps rs f C ps Hok Hu).
          -- apply in_map_iff in Hu. destruct Hu as [k [E Hk]]. destruct (KS_uid_fresh k Hk) as [F1 _]. apply F1. rewrite E.
             apply in_app_iff. right. left. reflexivity.
  Qed.

  Lemma cores_validate : validate_A (number 0 cores) = true.
  Proof.
    unfold validate_A. apply forallb_forall. intros s Hs. apply subset_incl. intros u Hu.
    rewrite all_uuids_number, all_uuids_cores. apply In_number in Hs. destruct Hs as [j [s0 [Hj ->]]].
    rewrite req_set_sid in Hu. apply nth_error_In in Hj. destruct (in_cores s0 Hj) as [[p [_ ->]]|[[k [_ ->]]| ->]].
    - destruct Hu.
    - apply in_app_iff. left. exact Hu.
    - apply ccore_req_In in Hu. destruct Hu as [Hu|Hu]; apply in_app_iff; [left; exact Hu | right].
      apply in_app_iff. left. apply in_flat_map. exists u. split; [exact Hu | right; left; reflexivity].
  Qed.

  (* ---------- prepare ---------- *)
  Lemma star_no_self : no_self_link links = true.
  Proof.
    unfold no_self_link. apply forallb_forall. intros l Hl. apply negb_true_iff. apply Nat.eqb_neq.
    destruct Hlinks as (_ & _ & _ & Hs & _). exact (Hs l Hl).
  Qed.

  Lemma star_conflicting : conflicting_data links d = false.
  Proof.
    apply not_true_is_false. intros H. unfold conflicting_data in H. apply existsb_exists in H. destruct H as [k [Hk H]].
    apply existsb_exists in H. destruct H as [k' [Hk' H]]. unfold d in Hk, Hk'. rewrite tkeys_tsingle in Hk, Hk'.
    destruct (ks_plink ord mro links rs f C cc ps Hord Hok Hlinks Hflat k Hk) as [l [El Hl]].
    destruct (ks_plink ord mro links rs f C cc ps Hord Hok Hlinks Hflat k' Hk') as [l' [El' Hl']].
    unfold lfg_of, rfg_of, jt_of in H. rewrite El, El' in H.
    apply andb_true_iff in H. destruct H as [H Hj]. apply andb_true_iff in H. destruct H as [H1 H2].
    destruct Hlinks as (_ & _ & Hv & _). unfold validate_rejects in Hv. apply orb_false_iff in Hv. destruct Hv as [Hv _].
    apply orb_false_iff in Hv. destruct Hv as [_ Hv].
    assert (Hc : any_pair conflicting_jt (map pl_l links) = true).
    { apply any_pair_exists. exists (pl_l l), (pl_l l'). split; [apply in_map; exact Hl|]. split; [apply in_map; exact Hl'|].
      unfold conflicting_jt. rewrite H1, H2, Hj. rewrite !andb_true_r. apply negb_true_iff. apply not_true_is_false. intros E.
      unfold link_eqb in E. apply andb_true_iff in E. destruct E as [E _]. apply andb_true_iff in E. destruct E as [E _].
      apply andb_true_iff in E. destruct E as [E _]. apply andb_true_iff in E. destruct E as [E _].
      apply negb_true_iff in Hj. rewrite E in Hj. discriminate. }
    rewrite Hc in Hv. discriminate.
  Qed.

  Lemma number_L_upd : forall a b i, Forall2 fg_upd a b -> Forall2 fg_upd (number_L i a) (number_L i b).
  Proof.
    intros a b i H. revert i. induction H as [|x y a b Hxy H IH]; intros i; cbn [number_L]; [constructor|].
    constructor; [|apply IH]. destruct x, y; cbn in Hxy; try contradiction; try discriminate Hxy; cbn.
    - destruct Hxy as (-> & -> & ->). auto.
    - injection Hxy as <- <- <- <- <- <-. reflexivity.
    - injection Hxy as <- <- <- <- <- <-. reflexivity.
  Qed.

  Lemma plan0_one_fw : Forall (one_fw_step cc) plan0.
  Proof.
    apply Forall_forall. intros x Hx. unfold plan0 in Hx. apply in_app_iff in Hx. destruct Hx as [Hx|Hx].
    - apply in_map_iff in Hx. destruct Hx as [p [<- _]]. reflexivity.
    - apply in_app_iff in Hx. destruct Hx as [Hx|[Hx|[]]].
      + apply in_map_iff in Hx. destruct Hx as [k [<- _]]. reflexivity.
      + subst x. reflexivity.
  Qed.

  Lemma L_trek : links <> [] -> trek_data ord g mro links = d.
  Proof. intros Hne. exact (star_trek_data ord mro links rs f C cc ps Hok Hlinks Hne). Qed.
  Lemma L_lq : link_queue (queue_of g) d = map QF ps ++ map QL KS ++ [QF f].
  Proof. exact (star_link_queue ord mro links rs f C cc ps Hok). Qed.
  Lemma L_pq : planned_queue_L g (queue_of g) (map QF ps ++ map QL KS ++ [QF f]) = PQ.
  Proof. exact (star_planned_queue ord mro links rs f C cc ps Hok). Qed.

  Theorem star_prepare_single : links <> [] ->
    match find bad_key KS with
    | Some k => prepare_L ord g mro links = LRejected (err_of k) []
    | None => exists p, prepare_L ord g mro links = LPlanned p /\ Forall2 fg_upd (number_L 0 plan0) p
    end.
  Proof.
    intros Hne. unfold prepare_L, stages_L.
    assert (Hv : validate_rejects (map pl_l links) = false) by apply Hlinks. rewrite Hv. rewrite star_no_self. cbn [negb].
    rewrite (L_trek Hne).
    rewrite star_conflicting. rewrite star_ordered. cbn [t_dor t0].
    rewrite L_lq, L_pq.
    fold t0. rewrite star_rcf_links. cbn [t_data t0]. rewrite star_pre_plan.
    pose proof star_add_joinstep as Hj. destruct (find bad_key KS) as [kb|].
    - rewrite Hj. unfold err_of. destruct (jt_of links (k_uid kb)); reflexivity.
    - destruct Hj as [jr Hj]. rewrite Hj.
      assert (Hpar : forall a p, In p (aget0 a (p2c_of g)) -> cfw_now ord g cm1 p = cc).
      { intros a p Hp. rewrite g_cl in Hp. unfold aget0 in Hp. cbn [aget] in Hp. destruct (Nat.eqb a f); [|destruct Hp].
        apply cfw_now_cm1. apply in_app_iff. left. exact Hp. }
      destruct (add_tfs_one_framework ord g links cm1 cc Hpar jr plan0 plan0_one_fw) as [p' [Et Hup]].
      rewrite Et. cbn [fst snd]. unfold plan_of_L. cbn [st_raw].
      assert (Hc : map core (number_L 0 p') = number 0 cores).
      { rewrite map_core_number_L. rewrite <- (Forall2_map_eq _ _ fg_upd core plan0 p' fg_upd_core Hup). rewrite plan0_cores. reflexivity. }
      rewrite Hc. rewrite cores_validate. cbn [negb]. destruct cores_wf as [order Hwf]. rewrite (sim_complete order _ Hwf).
      exists (number_L 0 p'). split; [reflexivity | apply number_L_upd; exact Hup].
  Qed.
End StarPlan.
